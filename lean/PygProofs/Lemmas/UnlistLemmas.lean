/-
  Helper lemmas for C11: `unlist` applied to the table that `listby` builds.
-/
import PygModel.Group
import PygProofs.Lemmas.GroupLemmas

namespace Pyg

theorem mapM_ok_of_forall {α β} {l : List α} {F : α → Res β} {g : α → β}
    (h : ∀ x ∈ l, F x = .ok (g x)) : l.mapM F = .ok (l.map g) := by
  induction l with
  | nil => rfl
  | cons x xs ih =>
    rw [List.mapM_cons, h x (by simp), ih (fun y hy => h y (by simp [hy]))]
    rfl

/-- the group key is the key of the last row of the group (`prev = key` is updated on every row) -/
theorem listbyLoop_rep (orig : List (Val × Nat)) :
    ∀ (xs : List (Val × Nat)) (prev : Val) (row : List Nat) (res : List Grp),
      (∀ p ∈ xs, p ∈ orig) →
      (∀ g ∈ res, ∀ i, g.2.getLast? = some i → (g.1, i) ∈ orig) →
      (∀ i, row.getLast? = some i → (prev, i) ∈ orig) →
      ∀ g ∈ listbyLoop xs prev row res, ∀ i, g.2.getLast? = some i → (g.1, i) ∈ orig := by
  intro xs
  induction xs with
  | nil =>
    intro prev row res _ hres hrow g hg
    simp only [listbyLoop, List.mem_append, List.mem_singleton] at hg
    rcases hg with hg | rfl
    · exact hres g hg
    · exact hrow
  | cons p rest ih =>
    intro prev row res hxs hres hrow
    obtain ⟨key, i⟩ := p
    have hrest : ∀ p ∈ rest, p ∈ orig := fun p hp => hxs p (by simp [hp])
    have hki : (key, i) ∈ orig := hxs _ (by simp)
    simp only [listbyLoop]
    split
    · apply ih key (row ++ [i]) res hrest hres
      intro j hj
      simp at hj; subst hj; exact hki
    · apply ih key [i] (res ++ [(prev, row)]) hrest
      · intro g hg
        rcases List.mem_append.1 hg with hg | hg
        · exact hres g hg
        · simp at hg; subst hg; exact hrow
      · intro j hj
        simp at hj; subst hj; exact hki

/-- every non-empty group's key is one of the row keys (that of its last row) -/
theorem listbyG_rep (keys : List Val) :
    ∀ g ∈ listbyG keys, ∀ i, g.2.getLast? = some i → keys[i]? = some g.1 := by
  intro g hg i hi
  exact mem_sortedKeyIds.1
    (listbyLoop_rep (sortedKeyIds keys) (sortedKeyIds keys) (.cell .none) [] []
      (fun _ h => h) (by simp) (by simp) g hg i hi)

theorem listbyG_key_mem {keys : List Val} (hne : keys ≠ []) :
    ∀ g ∈ listbyG keys, g.1 ∈ keys := by
  intro g hg
  have hn := listbyG_nonempty hne g hg
  obtain ⟨i, hi⟩ : ∃ i, g.2.getLast? = some i := by
    cases h : g.2.getLast? with
    | none => simp at h; exact absurd h hn
    | some i => exact ⟨i, rfl⟩
  exact List.mem_of_getElem? (listbyG_rep keys g hg i hi)

/-! ### `lens` and the expansion of one listby row -/

theorem lensOf_ones_m (a b m : Nat) (hb : 0 < b) (hm : 0 < m) :
    glensOf (List.replicate a 1 ++ List.replicate b m) = .ok m := by
  unfold glensOf
  by_cases h1 : m = 1
  · subst h1
    have : (List.replicate a 1 ++ List.replicate b 1).filter (· ≠ 1) = [] := by
      simp
    rw [this]
    cases b with
    | zero => omega
    | succ b => simp
  · have : (List.replicate a 1 ++ List.replicate b m).filter (· ≠ 1) = List.replicate b m := by
      rw [List.filter_append]
      have e1 : (List.replicate a 1).filter (· ≠ 1) = [] := by simp
      have e2 : (List.replicate b m).filter (· ≠ 1) = List.replicate b m := by
        apply List.filter_eq_self.2
        intro x hx
        rw [List.mem_replicate] at hx
        simp [hx.2, h1]
      rw [e1, e2]; rfl
    rw [this]
    cases b with
    | zero => omega
    | succ b => simp [List.replicate_succ]

/-- a record whose key cells are scalars and whose other cells are lists of one common length `m`
expands to `m` rows: keys broadcast, lists as they are -/
theorem expandRow_listby (ks : List (String × Val)) (os : List (String × List Val)) (m : Nat)
    (hks : ∀ c ∈ ks, cellList c.2 = [c.2]) (hos : ∀ c ∈ os, c.2.length = m)
    (hne : os ≠ []) (hm : 0 < m) :
    expandRow (ks ++ os.map fun c => (c.1, .list c.2)) =
      .ok (ks.map (fun c => (c.1, List.replicate m c.2)) ++ os) := by
  have hcols : (ks ++ os.map fun c => (c.1, Val.list c.2)).map (fun c => (c.1, cellList c.2)) =
      ks.map (fun c => (c.1, [c.2])) ++ os := by
    rw [List.map_append, List.map_map]
    congr 1
    · apply List.map_congr_left
      intro c hc; simp [hks c hc]
    · conv => rhs; rw [← List.map_id os]
      apply List.map_congr_left
      intro c _; simp [cellList]
  have hlens : (ks.map (fun c => (c.1, [c.2])) ++ os).map (·.2.length) =
      List.replicate ks.length 1 ++ List.replicate os.length m := by
    rw [List.map_append, List.map_map]
    congr 1
    · rw [← List.map_const']
      apply List.map_congr_left; intro c _; simp
    · rw [← List.map_const']
      apply List.map_congr_left; intro c hc; simp [hos c hc]
  have hol : 0 < os.length := by cases os <;> simp_all
  simp only [expandRow, hcols, hlens, lensOf_ones_m _ _ m hol hm, bind, Except.bind, pure, Except.pure]
  rw [List.map_append, List.map_map]
  have e1 : ks.map ((fun c : String × List Val => (c.1, if c.2.length = 1 then
      List.replicate m (c.2.headD (.cell .none)) else c.2)) ∘ fun c => (c.1, [c.2])) =
      ks.map fun c => (c.1, List.replicate m c.2) := by
    apply List.map_congr_left; intro c _; simp
  have e2 : os.map (fun c : String × List Val => (c.1, if c.2.length = 1 then
      List.replicate m (c.2.headD (.cell .none)) else c.2)) = os := by
    refine (List.map_congr_left ?_).trans (List.map_id os)
    intro c hc
    have hl := hos c hc
    by_cases h1 : c.2.length = 1
    · have : m = 1 := by omega
      subst this
      obtain ⟨s, xs⟩ := c
      match xs, h1 with
      | [x], _ => simp
    · simp [h1]
  rw [e1, e2]

/-! ### assembling `unlist (listby t)` -/

theorem range_map_getD {α β} (l : List α) (d : α) (f : α → β) :
    (List.range l.length).map (fun i => f (l.getD i d)) = l.map f := by
  apply List.ext_getElem
  · simp
  · intro i h1 h2
    simp only [List.length_map, List.length_range] at h1
    simp [List.getD_eq_getElem?_getD, List.getElem?_eq_getElem h1]

/-- looking a column up by name in a list of uniquely named columns -/
theorem find_named {α β} (nm : α → String) (F : α → β) (l : List α) (hnd : (l.map nm).Nodup)
    (x : α) (hx : x ∈ l) :
    (l.map fun a => (nm a, F a)).find? (fun c => c.1 == nm x) = some (nm x, F x) := by
  induction l with
  | nil => cases hx
  | cons a as ih =>
    simp only [List.map_cons, List.nodup_cons] at hnd
    simp only [List.map_cons, List.find?_cons]
    rcases List.mem_cons.1 hx with rfl | hx'
    · simp
    · have hne : nm a ≠ nm x := by
        intro h; apply hnd.1; rw [h]; exact List.mem_map.2 ⟨x, hx', rfl⟩
      have hb : (nm a == nm x) = false := by simpa using hne
      simp only [hb]
      exact ih hnd.2 hx'

theorem find_append_right {β} (l₁ l₂ : List (String × β)) (k : String)
    (h : ∀ c ∈ l₁, c.1 ≠ k) :
    (l₁ ++ l₂).find? (fun c => c.1 == k) = l₂.find? (fun c => c.1 == k) := by
  rw [List.find?_append]
  have : l₁.find? (fun c => c.1 == k) = none := by
    rw [List.find?_eq_none]; intro c hc; simp [h c hc]
  simp [this]

theorem find_append_left {β} (l₁ l₂ : List (String × β)) (k : String) (v : String × β)
    (h : l₁.find? (fun c => c.1 == k) = some v) :
    (l₁ ++ l₂).find? (fun c => c.1 == k) = some v := by
  rw [List.find?_append, h]; rfl

/-- the expansion of the listby row of group `g` -/
def groupRows (t : Table) (by_ : List String) (g : Grp) : VTable :=
  (by_.zipIdx.map fun c => (c.1, List.replicate g.2.length (tupleGet c.2 g.1))) ++
  (t.others by_).map fun c => (c.1, pick c.2 g.2)

/-- a tuple of scalar cells, as `dictable[cols]` builds them from columns -/
def CellTuple (k : Val) : Prop := ∃ cs : List Cell, k = .tuple (cs.map .cell)

theorem tupleGet_cellTuple {k : Val} (h : CellTuple k) (j : Nat) :
    cellList (tupleGet j k) = [tupleGet j k] := by
  obtain ⟨cs, rfl⟩ := h
  simp only [tupleGet, List.getD_eq_getElem?_getD, List.getElem?_map]
  cases cs[j]? <;> simp [cellList]

/-- the table `listby` builds (see `Props.C11.listby_table`) -/
def listbyTable (t : Table) (by_ : List String) (gs : List Grp) : VTable :=
  keyColsOf by_ gs ++ (t.others by_).map fun c => (c.1, gs.map fun g => .list (pick c.2 g.2))

theorem rowAt_listbyTable (t : Table) (by_ : List String) (gs : List Grp) (i : Nat) (g : Grp)
    (hg : gs[i]? = some g) :
    VTable.rowAt (listbyTable t by_ gs) i =
      (by_.zipIdx.map fun c => (c.1, tupleGet c.2 g.1)) ++
      ((t.others by_).map fun c => (c.1, pick c.2 g.2)).map fun c => (c.1, .list c.2) := by
  simp only [VTable.rowAt, listbyTable, keyColsOf, List.map_append, List.map_map, Function.comp_def,
    List.getD_eq_getElem?_getD, List.getElem?_map, hg, Option.map_some, Option.getD_some]

theorem unlist_listbyTable (t : Table) (by_ : List String) (gs : List Grp)
    (hb : by_ ≠ []) (hnd : by_.Nodup) (htn : ((t.others by_).map (·.1)).Nodup)
    (ho : t.others by_ ≠ []) (hgs : gs ≠ [])
    (hne : ∀ g ∈ gs, g.2 ≠ []) (hct : ∀ g ∈ gs, CellTuple g.1) :
    (listbyTable t by_ gs).unlist = .ok (
      (by_.zipIdx.map fun c => (c.1, gs.flatMap fun g => List.replicate g.2.length (tupleGet c.2 g.1))) ++
      (t.others by_).map fun c => (c.1, gs.flatMap fun g => pick c.2 g.2)) := by
  have hnrows : (listbyTable t by_ gs).nrows = gs.length := by
    cases by_ with
    | nil => exact absurd rfl hb
    | cons c cs => simp [listbyTable, keyColsOf, VTable.nrows, List.zipIdx_cons]
  have hlen : gs.length ≠ 0 := by cases gs <;> simp_all
  -- every row expands to `groupRows`
  have hrows : (List.range gs.length).mapM (fun i => expandRow ((listbyTable t by_ gs).rowAt i)) =
      .ok (gs.map (groupRows t by_)) := by
    rw [← range_map_getD gs (.cell .none, []) (groupRows t by_)]
    apply mapM_ok_of_forall
    intro i hi
    have hi' : i < gs.length := List.mem_range.1 hi
    have hg : gs[i]? = some gs[i] := List.getElem?_eq_getElem hi'
    have hmem : gs[i] ∈ gs := List.getElem_mem hi'
    rw [rowAt_listbyTable t by_ gs i gs[i] hg]
    have hgd : gs.getD i (.cell .none, []) = gs[i] := by
      simp [List.getD_eq_getElem?_getD, hg]
    rw [hgd]
    have := expandRow_listby (by_.zipIdx.map fun c => (c.1, tupleGet c.2 gs[i].1))
      ((t.others by_).map fun c => (c.1, pick c.2 gs[i].2)) gs[i].2.length
      (by
        intro c hc
        obtain ⟨c', _, rfl⟩ := List.mem_map.1 hc
        exact tupleGet_cellTuple (hct _ hmem) _)
      (by
        intro c hc
        obtain ⟨c', _, rfl⟩ := List.mem_map.1 hc
        simp [pick])
      (by simpa using ho)
      (by
        have := hne _ hmem
        cases h : gs[i].2 <;> simp_all)
    rw [this]
    simp [groupRows, List.map_map, Function.comp_def]
  simp only [VTable.unlist, hnrows, hlen, if_false, hrows, bind, Except.bind, pure, Except.pure]
  congr 1
  have hnames : (listbyTable t by_ gs).map (·.1) =
      (by_.zipIdx.map (·.1)) ++ (t.others by_).map (·.1) := by
    simp [listbyTable, keyColsOf, List.map_map, Function.comp_def]
  rw [concatV, hnames, List.map_append, List.map_map, List.map_map]
  have hzn : (by_.zipIdx.map (·.1)).Nodup := by rw [List.zipIdx_map_fst]; exact hnd
  congr 1
  · apply List.map_congr_left
    intro c hc
    simp only [Function.comp_def, List.flatMap_map]
    congr 1
    apply flatMap_congr'
    intro g _
    have h1 := find_named (fun c : String × Nat => c.1)
      (fun c => List.replicate g.2.length (tupleGet c.2 g.1)) by_.zipIdx hzn c hc
    simp only [groupRows]
    rw [find_append_left _ _ _ _ h1]
    rfl
  · apply List.map_congr_left
    intro c hc
    simp only [Function.comp_def, List.flatMap_map]
    congr 1
    apply flatMap_congr'
    intro g _
    have h1 := find_named (fun c : String × List Cell => c.1)
      (fun c => pick c.2 g.2) (t.others by_) htn c hc
    simp only [groupRows]
    rw [find_append_right, h1]
    · rfl
    · intro k hk
      obtain ⟨k', hk', rfl⟩ := List.mem_map.1 hk
      have hkb : k'.1 ∈ by_ := by
        have : k'.1 ∈ by_.zipIdx.map (·.1) := List.mem_map.2 ⟨k', hk', rfl⟩
        rw [List.zipIdx_map_fst] at this
        exact this
      have hcb : c.1 ∉ by_ := by
        have := (List.mem_filter.1 hc).2
        simpa [Table.others] using this
      intro h; apply hcb; simp only at h; rw [← h]; exact hkb

/-! ### keys built from columns are tuples of scalar cells -/

theorem keyCols_cells (t : Table) : ∀ (by_ : List String) (cols : List (List Val)),
    (by_.map KeySpec.col).mapM t.keyCol = .ok cols → ∀ c ∈ cols, ∃ xs : List Cell, c = xs.map .cell := by
  intro by_
  induction by_ with
  | nil => intro cols h; simp [pure, Except.pure] at h; subst h; simp
  | cons b bs ih =>
    intro cols h
    simp only [List.map_cons, List.mapM_cons, bind, Except.bind] at h
    cases hb : t.keyCol (.col b) with
    | error e => simp [hb] at h
    | ok c0 =>
      simp only [hb] at h
      cases hbs : (bs.map KeySpec.col).mapM t.keyCol with
      | error e => simp [hbs] at h
      | ok cs =>
        simp only [hbs, pure, Except.pure, Except.ok.injEq] at h
        subst h
        intro c hc
        rcases List.mem_cons.1 hc with rfl | hc
        · simp only [Table.keyCol] at hb
          split at hb
          · simp only [Except.ok.injEq] at hb; exact ⟨_, hb.symm⟩
          · cases hb
        · exact ih cs hbs c hc

theorem keysOf_cellTuple {t : Table} {by_ : List String} {keys : List Val}
    (h : t.keysOf (by_.map .col) = .ok keys) : ∀ k ∈ keys, CellTuple k := by
  simp only [Table.keysOf, bind, Except.bind] at h
  split at h
  · cases h
  · rename_i cols hcols
    simp only [pure, Except.pure, Except.ok.injEq] at h
    subst h
    intro k hk
    simp only [zipCols, List.mem_map] at hk
    obtain ⟨i, _, rfl⟩ := hk
    refine ⟨cols.map fun c => match c.getD i (.cell .none) with
      | .cell x => x
      | _ => .none, ?_⟩
    congr 1
    rw [List.map_map]
    apply List.map_congr_left
    intro c hc
    obtain ⟨xs, rfl⟩ := keyCols_cells t by_ cols hcols c hc
    simp only [Function.comp_def, List.getD_eq_getElem?_getD, List.getElem?_map]
    cases xs[i]? <;> simp

/-! ### assembling `ungroup (groupby t)` -/

theorem optMapM_some_of_forall {α β} {l : List α} {F : α → Option β} {g : α → β}
    (h : ∀ x ∈ l, F x = some (g x)) : l.mapM F = some (l.map g) := by
  induction l with
  | nil => rfl
  | cons x xs ih =>
    rw [List.mapM_cons, h x (by simp), ih (fun y hy => h y (by simp [hy]))]
    rfl

theorem mapM_id_ok {α β} (l : List α) (h : α → β) :
    (l.map fun a => (Except.ok (h a) : Res β)).mapM id = .ok (l.map h) := by
  induction l with
  | nil => rfl
  | cons x xs ih =>
    simp only [List.map_cons, List.mapM_cons, id, ih, bind, Except.bind, pure, Except.pure]

/-- the table `groupby` builds (see `Props.C11.groupby_table`) -/
def groupbyTable (t : Table) (by_ : List String) (grp : String) (gs : List Grp) : VTable :=
  keyColsOf by_ gs ++ [(grp, gs.map fun g => subTable (t.others by_) g.2)]

/-- the ungrouped rows of group `g`: the sub-table's columns, then the keys as constant columns -/
def ungroupRows (t : Table) (by_ : List String) (g : Grp) : VTable :=
  ((t.others by_).map fun c => (c.1, pick c.2 g.2)) ++
  (by_.zipIdx.map fun c => (c.1, List.replicate g.2.length (tupleGet c.2 g.1)))

theorem rowAt_groupbyTable (t : Table) (by_ : List String) (grp : String) (gs : List Grp) (i : Nat)
    (g : Grp) (hg : gs[i]? = some g) :
    VTable.rowAt (groupbyTable t by_ grp gs) i =
      (by_.zipIdx.map fun c => (c.1, tupleGet c.2 g.1)) ++ [(grp, subTable (t.others by_) g.2)] := by
  simp only [VTable.rowAt, groupbyTable, keyColsOf, List.map_append, List.map_map, Function.comp_def,
    List.getD_eq_getElem?_getD, List.getElem?_map, hg, Option.map_some, Option.getD_some,
    List.map_cons, List.map_nil]

theorem subCols_subTable (t : Table) (ids : List Nat) :
    subCols (subTable t ids) = some (t.map fun c => (c.1, pick c.2 ids)) := by
  simp only [subCols, subTable, List.mapM_map]
  exact optMapM_some_of_forall (fun _ _ => rfl)

theorem ungroupRow_groupby (t : Table) (by_ : List String) (grp : String) (g : Grp)
    (hgb : grp ∉ by_) (ho : t.others by_ ≠ []) :
    ungroupRow grp ((by_.zipIdx.map fun c => (c.1, tupleGet c.2 g.1)) ++
        [(grp, subTable (t.others by_) g.2)]) = some (.ok (ungroupRows t by_ g)) := by
  have hkeys : ∀ c ∈ (by_.zipIdx.map fun c => (c.1, tupleGet c.2 g.1)), c.1 ≠ grp := by
    intro c hc
    obtain ⟨c', hc', rfl⟩ := List.mem_map.1 hc
    have : c'.1 ∈ by_.zipIdx.map (·.1) := List.mem_map.2 ⟨c', hc', rfl⟩
    rw [List.zipIdx_map_fst] at this
    intro h; simp only at h; exact hgb (h ▸ this)
  have hfind : ((by_.zipIdx.map fun c => (c.1, tupleGet c.2 g.1)) ++
      [(grp, subTable (t.others by_) g.2)]).find? (fun c => c.1 == grp) =
      some (grp, subTable (t.others by_) g.2) := by
    rw [find_append_right _ _ _ hkeys]; simp
  have hrest : ((by_.zipIdx.map fun c => (c.1, tupleGet c.2 g.1)) ++
      [(grp, subTable (t.others by_) g.2)]).filter (fun c => c.1 != grp) =
      by_.zipIdx.map fun c => (c.1, tupleGet c.2 g.1) := by
    rw [List.filter_append]
    have : ([(grp, subTable (t.others by_) g.2)] : List (String × Val)).filter (fun c => c.1 != grp) = [] := by
      simp
    rw [this, List.append_nil]
    apply List.filter_eq_self.2
    intro c hc; simpa using hkeys c hc
  have hn : VTable.nrows ((t.others by_).map fun c => (c.1, pick c.2 g.2)) = g.2.length := by
    cases h : t.others by_ with
    | nil => exact absurd h ho
    | cons c cs => simp [VTable.nrows, pick]
  simp only [ungroupRow, hfind, subCols_subTable, hrest, hn, bind, Option.bind]
  congr 2
  simp only [ungroupRows, List.map_map, Function.comp_def]
  congr 1
  apply List.filter_eq_self.2
  intro c hc
  obtain ⟨c', hc', rfl⟩ := List.mem_map.1 hc
  have hcb : c'.1 ∉ by_ := by
    have := (List.mem_filter.1 hc').2
    simpa [Table.others] using this
  simp only [Bool.not_eq_true', List.contains_eq_mem, decide_eq_false_iff_not, List.mem_map,
    not_exists, not_and]

  intro k hk h
  apply hcb
  have : k.1 ∈ by_.zipIdx.map (·.1) := List.mem_map.2 ⟨k, hk, rfl⟩
  rw [List.zipIdx_map_fst] at this
  rw [← h]; exact this

theorem ungroup_groupbyTable (t : Table) (by_ : List String) (grp : String) (gs : List Grp)
    (hb : by_ ≠ []) (hnd : by_.Nodup) (htn : ((t.others by_).map (·.1)).Nodup)
    (hgb : grp ∉ by_) (ho : t.others by_ ≠ []) (hgs : gs ≠ []) :
    (groupbyTable t by_ grp gs).ungroup grp = some (.ok (
      ((t.others by_).map fun c => (c.1, gs.flatMap fun g => pick c.2 g.2)) ++
      (by_.zipIdx.map fun c => (c.1, gs.flatMap fun g => List.replicate g.2.length (tupleGet c.2 g.1))))) := by
  have hnrows : (groupbyTable t by_ grp gs).nrows = gs.length := by
    cases by_ with
    | nil => exact absurd rfl hb
    | cons c cs => simp [groupbyTable, keyColsOf, VTable.nrows, List.zipIdx_cons]
  have hrows : (List.range gs.length).mapM
      (fun i => ungroupRow grp ((groupbyTable t by_ grp gs).rowAt i)) =
      some (gs.map fun g => (Except.ok (ungroupRows t by_ g) : Res VTable)) := by
    rw [← range_map_getD gs (.cell .none, []) (fun g => (Except.ok (ungroupRows t by_ g) : Res VTable))]
    apply optMapM_some_of_forall
    intro i hi
    have hi' : i < gs.length := List.mem_range.1 hi
    have hg : gs[i]? = some gs[i] := List.getElem?_eq_getElem hi'
    rw [rowAt_groupbyTable t by_ grp gs i gs[i] hg, ungroupRow_groupby t by_ grp gs[i] hgb ho]
    simp [List.getD_eq_getElem?_getD, hg]
  simp only [VTable.ungroup, hnrows, hrows, bind, Option.bind, mapM_id_ok]
  cases gs with
  | nil => exact absurd rfl hgs
  | cons g0 gt =>
    simp only [List.map_cons]
    congr 2
    have hnames : (ungroupRows t by_ g0).map (·.1) =
        (t.others by_).map (·.1) ++ by_.zipIdx.map (·.1) := by
      simp [ungroupRows, List.map_map, Function.comp_def]
    have hzn : (by_.zipIdx.map (·.1)).Nodup := by rw [List.zipIdx_map_fst]; exact hnd
    rw [concatV, hnames, List.map_append, List.map_map, List.map_map, ← List.map_cons]
    congr 1
    · apply List.map_congr_left
      intro c hc
      simp only [Function.comp_def, List.flatMap_map]
      congr 1
      apply flatMap_congr'
      intro g _
      have h1 := find_named (fun c : String × List Cell => c.1)
        (fun c => pick c.2 g.2) (t.others by_) htn c hc
      simp only [ungroupRows]
      rw [find_append_left _ _ _ _ h1]
      rfl
    · apply List.map_congr_left
      intro c hc
      simp only [Function.comp_def, List.flatMap_map]
      congr 1
      apply flatMap_congr'
      intro g _
      have h1 := find_named (fun c : String × Nat => c.1)
        (fun c => List.replicate g.2.length (tupleGet c.2 g.1)) by_.zipIdx hzn c hc
      simp only [ungroupRows]
      rw [find_append_right, h1]
      · rfl
      · intro k hk
        obtain ⟨k', hk', rfl⟩ := List.mem_map.1 hk
        have hkb : k'.1 ∉ by_ := by
          have := (List.mem_filter.1 hk').2
          simpa [Table.others] using this
        have hcb : c.1 ∈ by_ := by
          have : c.1 ∈ by_.zipIdx.map (·.1) := List.mem_map.2 ⟨c, hc, rfl⟩
          rw [List.zipIdx_map_fst] at this
          exact this
        intro h; apply hkb; simp only at h; rw [h]; exact hcb

end Pyg
