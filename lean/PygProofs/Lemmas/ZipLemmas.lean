import PygModel.Zip

namespace Pyg

theorem lensOf_ok (ls : List Nat) (n : Nat) (hne : ls ≠ []) (hall : ∀ l ∈ ls, l = n ∨ l = 1)
    (hn : n = 1 ∨ n ∈ ls) : lensOf ls = .ok n := by
  unfold lensOf
  have he : ls.isEmpty = false := by cases ls <;> simp_all
  simp only [he, Bool.false_eq_true, ↓reduceIte]
  have hfil : ∀ l ∈ ls.filter (· != 1), l = n := by
    intro l hl
    simp only [List.mem_filter, bne_iff_ne] at hl
    rcases hall l hl.1 with h | h
    · exact h
    · exact absurd h hl.2
  cases hf : ls.filter (· != 1) with
  | nil =>
    simp only
    rcases hn with h | h
    · rw [h]
    · by_cases h1 : n = 1
      · rw [h1]
      · have : n ∈ ls.filter (· != 1) := by simp [List.mem_filter, h, h1]
        rw [hf] at this; cases this
  | cons m rest =>
    simp only
    rw [hf] at hfil
    have hm : m = n := hfil m (by simp)
    have hr : rest.all (· == m) = true := by
      rw [List.all_eq_true]; intro x hx
      have := hfil x (by simp [hx]); simp [this, hm]
    subst hm
    simp [hr]

theorem lensOf_error_iff (ls : List Nat) (e : Err) :
    lensOf ls = .error e ↔ e = .value ∧ ∃ a ∈ ls, ∃ b ∈ ls, a ≠ b ∧ a ≠ 1 ∧ b ≠ 1 := by
  unfold lensOf
  by_cases he : ls.isEmpty = true
  · have : ls = [] := by simpa using he
    subst this; simp
  · simp only [he, Bool.false_eq_true, ↓reduceIte]
    cases hf : ls.filter (· != 1) with
    | nil =>
      simp only
      constructor
      · intro h; cases h
      · rintro ⟨_, a, ha, b, _, _, ha1, _⟩
        have : a ∈ ls.filter (· != 1) := by simp [List.mem_filter, ha, ha1]
        rw [hf] at this; cases this
    | cons m rest =>
      simp only
      have hmem : ∀ x, x ∈ m :: rest ↔ x ∈ ls ∧ x ≠ 1 := by
        intro x; rw [← hf]; simp [List.mem_filter]
      by_cases hr : rest.all (· == m) = true
      · simp only [hr, ↓reduceIte]
        constructor
        · intro h; cases h
        · rintro ⟨_, a, ha, b, hb, hab, ha1, hb1⟩
          exfalso
          rw [List.all_eq_true] at hr
          have ha' := (hmem a).2 ⟨ha, ha1⟩
          have hb' := (hmem b).2 ⟨hb, hb1⟩
          have eqm : ∀ x, x ∈ m :: rest → x = m := by
            intro x hx
            rcases List.mem_cons.1 hx with h | h
            · exact h
            · simpa using hr x h
          exact hab ((eqm a ha').trans (eqm b hb').symm)
      · simp only [hr, Bool.false_eq_true, ↓reduceIte]
        constructor
        · intro h
          cases h
          refine ⟨rfl, ?_⟩
          have : ∃ x ∈ rest, x ≠ m := by
            simp only [List.all_eq_true, beq_iff_eq] at hr
            simpa using hr
          obtain ⟨x, hx, hxm⟩ := this
          have h1 := (hmem m).1 (by simp)
          have h2 := (hmem x).1 (by simp [hx])
          exact ⟨m, h1.1, x, h2.1, fun h => hxm h.symm, h1.2, h2.2⟩
        · rintro ⟨rfl, _⟩; rfl

theorem minLen_eq (n : Nat) : ∀ (cols : List (List Val)), cols ≠ [] → (∀ c ∈ cols, c.length = n) →
    minLen cols = n
  | [], h, _ => absurd rfl h
  | [c], _, hall => by simp [minLen, hall c (by simp)]
  | c :: d :: cols, _, hall => by
      have ih := minLen_eq n (d :: cols) (by simp) (fun x hx => hall x (by simp [hx]))
      simp only [minLen, ih, hall c (by simp)]
      exact Nat.min_self n

theorem minLen_le : ∀ (cols : List (List Val)) (c : List Val), c ∈ cols → minLen cols ≤ c.length
  | [], c, h => by simp at h
  | [d], c, h => by simp at h; subst h; simp [minLen]
  | d :: d' :: cols, c, h => by
      simp only [minLen]
      rcases List.mem_cons.1 h with rfl | h'
      · exact Nat.min_le_left _ _
      · exact Nat.le_trans (Nat.min_le_right _ _) (minLen_le (d' :: cols) c h')

theorem zbcast_length (n : Nat) (c : List Val) (h : c.length = n ∨ c.length = 1) :
    (zbcast n c).length = n := by
  unfold zbcast
  split
  · simp
  · rename_i hne
    rcases h with h | h
    · exact h
    · exfalso
      match c, h with
      | [x], _ => exact hne x rfl

theorem bcast_getD (n i : Nat) (hi : i < n) (c : List Val) (d : Val) :
    (zbcast n c).getD i d = if c.length = 1 then c.getD 0 d else c.getD i d := by
  unfold zbcast
  split
  · rename_i x
    simp [List.getD, hi]
  · rename_i hne
    have : c.length ≠ 1 := by
      intro h
      match c, h with
      | [x], _ => exact hne x rfl
    simp [this]

end Pyg
