/-
  C04 (defect C04-D4): `slashes` - the model of `ambiguity.sub(r'\1/\2/\3', t)` - against a DECLARATIVE description of the texts the
  regex matches (`MatchesPadded`: 1-2 digits, a separator zone, 1-2 digits, a separator zone, at least two digits; a separator zone
  is white space, one of the four separators, white space).  Both directions: a matching text is rewritten to `a/b/<year and rest>`
  (`slashes_of_match`), a text that does not match is left alone (`slashes_no_match`).
-/
import PygModel.DateParse
import PygProofs.Lemmas.MonthNameStrLemmas
import PygProofs.Lemmas.AmbiguityLemmas
namespace Pyg.DateParse
open Pyg Pyg.Bump

def AllWs (l : List Char) : Prop := ∀ c ∈ l, isWs c = true

/-- `\s*SEP\s*` with SEP one of dash, slash, blank, dot (an independent description: a decomposition of the text) -/
def IsSepZone (z : List Char) : Prop := ∃ l r : List Char, ∃ s : Char, z = l ++ s :: r ∧ AllWs l ∧ AllWs r ∧ isDateSep s = true

/-- the texts `ambiguity` matches (regex semantics, written as a decomposition of the text; what follows is arbitrary) -/
def MatchesPadded (cs : List Char) : Prop :=
  ∃ a z1 b z2 y rest : List Char, cs = a ++ (z1 ++ (b ++ (z2 ++ (y ++ rest))))
    ∧ IsNumeral 2 a ∧ IsSepZone z1 ∧ IsNumeral 2 b ∧ IsSepZone z2
    ∧ (2 ≤ y.length ∧ y.length ≤ 4 ∧ ∀ c ∈ y, c.isDigit = true)

theorem ws_not_digit (c : Char) (h : isWs c = true) : c.isDigit = false := by
  cases hd : c.isDigit with
  | false => rfl
  | true => rw [notWs_of_digit c hd] at h; exact absurd h (by decide)

theorem takeWhile_ws_append (ws rest : List Char) (h : AllWs ws) : (ws ++ rest).takeWhile isWs = ws ++ rest.takeWhile isWs := by
  induction ws with
  | nil => rfl
  | cons c cs ih =>
    have hc : isWs c = true := h c (by simp)
    simp only [List.cons_append, List.takeWhile_cons, hc, if_true]
    rw [ih (fun x hx => h x (by simp [hx]))]

theorem takeNum2_numeral (a rest : List Char) (ha : IsNumeral 2 a) (hr : NonDigitHead rest) : takeNum2 (a ++ rest) = some (a, rest) := by
  have sp : spanDigits (a ++ rest) = (a, rest) := by
    rcases hr with rfl | ⟨u, r, rfl, hu⟩
    · rw [List.append_nil]; exact spanDigits_all a ha.2.2
    · exact spanDigits_run a u r ha.2.2 hu
  have := ha.len_pos; have := ha.2.1
  unfold takeNum2; simp only [sp]; rw [if_pos ⟨by omega, by omega⟩]

theorem IsSepZone.ndh {z : List Char} (h : IsSepZone z) (rest : List Char) : NonDigitHead (z ++ rest) := by
  obtain ⟨l, r, s, rfl, hl, _, hs⟩ := h
  cases l with
  | nil => exact ndh_cons _ _ (sep_props s hs).1
  | cons c cs => exact ndh_cons _ _ (ws_not_digit c (hl c (by simp)))

/-- a separator zone in front of a digit is consumed, whatever its white space -/
theorem sepZone_zone (z : List Char) (h : IsSepZone z) (d : Char) (more : List Char) (hd : d.isDigit = true) :
    sepZone (z ++ d :: more) = some (d :: more) := by
  obtain ⟨l, r, s, rfl, hl, hr, hs⟩ := h
  have dw : isWs d = false := notWs_of_digit d hd
  have dn : ¬ (d = '-' ∨ d = '/' ∨ d = '.') := by
    rintro (rfl | rfl | rfl) <;> exact absurd hd (by decide)
  have hsep : s = '-' ∨ s = '/' ∨ s = '.' ∨ s = ' ' := by
    simp only [isDateSep, Bool.or_eq_true, decide_eq_true_eq] at hs
    rcases hs with ((h | h) | h) | h
    · exact Or.inl h
    · exact Or.inr (Or.inl h)
    · exact Or.inr (Or.inr (Or.inl h))
    · exact Or.inr (Or.inr (Or.inr h))
  unfold sepZone
  by_cases hb : s = ' '
  · subst hb
    have hz : AllWs (l ++ ' ' :: r) := by
      intro c hc; simp only [List.mem_append, List.mem_cons] at hc
      rcases hc with hc | rfl | hc
      · exact hl c hc
      · decide
      · exact hr c hc
    rw [dropWhile_ws_append _ _ hz, takeWhile_ws_append _ _ hz]
    simp only [List.dropWhile_cons, dw, Bool.false_eq_true, if_false, List.takeWhile_cons, List.append_nil]
    rw [if_neg dn, if_pos (by simp)]
  · have hs3 : s = '-' ∨ s = '/' ∨ s = '.' := by
      rcases hsep with h | h | h | h
      · exact Or.inl h
      · exact Or.inr (Or.inl h)
      · exact Or.inr (Or.inr h)
      · exact absurd h hb
    have sw : isWs s = false := by rcases hs3 with rfl | rfl | rfl <;> decide
    rw [List.append_assoc, dropWhile_ws_append _ _ hl]
    simp only [List.cons_append, List.dropWhile_cons, sw, Bool.false_eq_true, if_false]
    rw [if_pos hs3, dropWhile_ws_append _ _ hr]
    simp only [List.dropWhile_cons, dw, Bool.false_eq_true, if_false]

/-- EVERY matching text is rewritten to `a/b/` followed by the year and the rest, untouched -/
theorem slashes_of_parts (a z1 b z2 y rest : List Char) (ha : IsNumeral 2 a) (h1 : IsSepZone z1) (hb : IsNumeral 2 b) (h2 : IsSepZone z2)
    (hy : 2 ≤ y.length ∧ ∀ c ∈ y, c.isDigit = true) :
    slashes (a ++ (z1 ++ (b ++ (z2 ++ (y ++ rest))))) = a ++ '/' :: (b ++ '/' :: (y ++ rest)) := by
  obtain ⟨b0, bs, rfl⟩ : ∃ c cs, b = c :: cs := by
    cases b with
    | nil => exact absurd rfl hb.1
    | cons c cs => exact ⟨c, cs, rfl⟩
  obtain ⟨y0, ys, rfl⟩ : ∃ c cs, y = c :: cs := by
    cases y with
    | nil => simp at hy
    | cons c cs => exact ⟨c, cs, rfl⟩
  have hb0 : b0.isDigit = true := hb.2.2 b0 (by simp)
  have hy0 : y0.isDigit = true := hy.2 y0 (by simp)
  have e1 := takeNum2_numeral a (z1 ++ (b0 :: bs ++ (z2 ++ (y0 :: ys ++ rest)))) ha (h1.ndh _)
  have e2 := sepZone_zone z1 h1 b0 (bs ++ (z2 ++ (y0 :: ys ++ rest))) hb0
  have e3 := takeNum2_numeral (b0 :: bs) (z2 ++ (y0 :: ys ++ rest)) hb (h2.ndh _)
  have e4 := sepZone_zone z2 h2 y0 (ys ++ rest) hy0
  have e5 : 2 ≤ (spanDigits (y0 :: (ys ++ rest))).1.length := by
    have sp := spanDigits_spec (ys ++ rest)
    cases ys with
    | nil => simp at hy
    | cons y1 yt =>
      have hy1 : y1.isDigit = true := hy.2 y1 (by simp)
      simp [spanDigits, hy0, hy1]
  unfold slashes
  simp only [List.cons_append] at e1 e2 e3 e4 ⊢
  rw [e1]; simp only []
  rw [e2]; simp only []
  rw [e3]; simp only []
  rw [e4]; simp only []
  rw [if_pos e5]
  rfl

theorem slashes_of_match (cs : List Char) (h : MatchesPadded cs) :
    ∃ a b tail : List Char, slashes cs = a ++ '/' :: (b ++ '/' :: tail) ∧ IsNumeral 2 a ∧ IsNumeral 2 b
      ∧ ∃ z1 z2, cs = a ++ (z1 ++ (b ++ (z2 ++ tail))) ∧ IsSepZone z1 ∧ IsSepZone z2 := by
  obtain ⟨a, z1, b, z2, y, rest, rfl, ha, h1, hb, h2, hy⟩ := h
  exact ⟨a, b, y ++ rest, slashes_of_parts a z1 b z2 y rest ha h1 hb h2 ⟨hy.1, hy.2.2⟩, ha, hb, z1, z2, rfl, h1, h2⟩

/-! the converse: inversion of the two scanners -/

theorem takeNum2_inv (cs a r : List Char) (h : takeNum2 cs = some (a, r)) : cs = a ++ r ∧ IsNumeral 2 a := by
  unfold takeNum2 at h
  simp only [] at h
  split at h
  · next hc =>
    simp only [Option.some.injEq] at h
    have sp := spanDigits_spec cs
    rw [h] at sp hc
    simp only at sp hc
    refine ⟨sp.1, ?_, hc.2, sp.2.1⟩
    intro e; rw [e] at hc; simp at hc
  · exact absurd h (by simp)

theorem allWs_takeWhile (cs : List Char) : AllWs (cs.takeWhile isWs) := by
  intro c hc
  have := List.all_takeWhile (p := isWs) (l := cs)
  exact List.all_eq_true.mp this c hc

theorem sepZone_inv (cs r : List Char) (h : sepZone cs = some r) : ∃ z, cs = z ++ r ∧ IsSepZone z := by
  unfold sepZone at h
  have split := (List.takeWhile_append_dropWhile (p := isWs) (l := cs)).symm
  generalize hd : cs.dropWhile isWs = dr at h split
  cases dr with
  | nil => simp at h
  | cons c r1 =>
    simp only [] at h
    split at h
    · next hc =>
      simp only [Option.some.injEq] at h
      have split2 := (List.takeWhile_append_dropWhile (p := isWs) (l := r1)).symm
      rw [h] at split2
      refine ⟨cs.takeWhile isWs ++ c :: r1.takeWhile isWs, ?_, cs.takeWhile isWs, r1.takeWhile isWs, c, rfl, allWs_takeWhile cs,
        allWs_takeWhile r1, ?_⟩
      · refine split.trans ?_
        simp only [List.append_assoc, List.cons_append]; rw [← split2]
      · rcases hc with rfl | rfl | rfl <;> decide
    · split at h
      · next hn hb =>
        simp only [Option.some.injEq] at h
        -- the white space contains a blank: split it there
        have hm : ' ' ∈ cs.takeWhile isWs := by simpa using hb
        obtain ⟨l, r2, e⟩ := List.append_of_mem hm
        have hw := allWs_takeWhile cs
        rw [e] at hw
        refine ⟨cs.takeWhile isWs, ?_, l, r2, ' ', e, ?_, ?_, by decide⟩
        · rw [← h]; exact split
        · intro x hx; exact hw x (by simp [hx])
        · intro x hx; exact hw x (by simp [hx])
      · exact absurd h (by simp)

/-- a text the regex does not match is left alone -/
theorem slashes_no_match (cs : List Char) (h : ¬ MatchesPadded cs) : slashes cs = cs := by
  unfold slashes
  split
  · rfl
  · next a r1 e1 =>
    split
    · rfl
    · next r2 e2 =>
      split
      · rfl
      · next b r3 e3 =>
        split
        · rfl
        · next r4 e4 =>
          split
          · next hy =>
            exfalso; apply h
            obtain ⟨c1, na⟩ := takeNum2_inv _ _ _ e1
            obtain ⟨z1, c2, hz1⟩ := sepZone_inv _ _ e2
            obtain ⟨c3, nb⟩ := takeNum2_inv _ _ _ e3
            obtain ⟨z2, c4, hz2⟩ := sepZone_inv _ _ e4
            have sp := spanDigits_spec r4
            -- the first two digits of the year
            generalize hsd : (spanDigits r4).1 = ys at hy sp
            match ys, hy with
            | y0 :: y1 :: yt, _ =>
              refine ⟨a, z1, b, z2, [y0, y1], yt ++ (spanDigits r4).2, ?_, na, hz1, nb, hz2, by simp, by simp, ?_⟩
              · rw [c1, c2, c3, c4]; congr 4
                simpa using sp.1
              · intro c hc; simp only [List.mem_cons, List.not_mem_nil, or_false] at hc
                rcases hc with rfl | rfl
                · exact sp.2.1 _ (by simp)
                · exact sp.2.1 _ (by simp)
          · rfl

/-- texts `slashes` leaves alone without looking further: no digit in front, or more than two of them -/
theorem slashes_nondigit (cs : List Char) (h : NonDigitHead cs) : slashes cs = cs := by
  have : takeNum2 cs = none := by
    unfold takeNum2
    rcases h with rfl | ⟨u, r, rfl, hu⟩
    · simp [spanDigits]
    · simp [spanDigits, hu]
  unfold slashes; rw [this]

theorem slashes_long_numeral (yy rest : List Char) (hy : ∀ c ∈ yy, c.isDigit = true) (hl : 3 ≤ yy.length) (hr : NonDigitHead rest) :
    slashes (yy ++ rest) = yy ++ rest := by
  have sp : spanDigits (yy ++ rest) = (yy, rest) := by
    rcases hr with rfl | ⟨u, r, rfl, hu⟩
    · rw [List.append_nil]; exact spanDigits_all yy hy
    · exact spanDigits_run yy u r hy hu
  have : takeNum2 (yy ++ rest) = none := by
    unfold takeNum2; simp only [sp]; rw [if_neg (by omega)]
  unfold slashes; rw [this]

/-- 1-2 digits, ONE separator character, then something that is neither white space, a separator nor a digit (a month name):
left alone -/
theorem slashes_num_word (dd rest : List Char) (s c : Char) (hd : IsNumeral 2 dd) (hs : s = ' ' ∨ s = '-') (hc : c.isAlpha = true) :
    slashes (dd ++ s :: c :: rest) = dd ++ s :: c :: rest := by
  have cw : isWs c = false := notWs_of_alpha c hc
  have cd : c.isDigit = false := by
    cases h : c.isDigit with
    | false => rfl
    | true => rw [isDigit_not_alpha c h] at hc; exact absurd hc (by decide)
  have sd : s.isDigit = false := by rcases hs with rfl | rfl <;> decide
  have e1 := takeNum2_numeral dd (s :: c :: rest) hd (ndh_cons _ _ sd)
  have e2 : sepZone (s :: c :: rest) = some (c :: rest) := by
    have cn : ¬ (c = '-' ∨ c = '/' ∨ c = '.') := by
      rintro (rfl | rfl | rfl) <;> exact absurd hc (by decide)
    unfold sepZone
    rcases hs with rfl | rfl
    · have b1 : isWs ' ' = true := by decide
      simp only [List.dropWhile_cons, b1, if_true, cw, Bool.false_eq_true, if_false, List.takeWhile_cons]
      rw [if_neg cn, if_pos (by simp)]
    · have b1 : isWs '-' = false := by decide
      simp only [List.dropWhile_cons, b1, Bool.false_eq_true, if_false, cw]
      simp
  have e3 : takeNum2 (c :: rest) = none := by unfold takeNum2; simp [spanDigits, cd]
  unfold slashes
  rw [e1]; simp only []
  rw [e2]; simp only []
  rw [e3]

/-! ### the spellings that are NOT day-month-year triples pass `strip`, `slashes` and `squeeze` unchanged -/

theorem strip_text (x tm : List Char) (a b : Int) (c0 : Char) (r : List Char) (hx : x = c0 :: r) (h0 : isWs c0 = false)
    (hl : ∀ c, x.getLast? = some c → c.isDigit = true) (ht : TimeText tm a b) : strip (x ++ tm) = x ++ tm := by
  apply strip_ends
  · intro c hc; subst hx; simp only [List.cons_append, List.head?_cons, Option.some.injEq] at hc; subst hc; exact h0
  · intro c hc; exact notWs_of_digit c (ht.last_digit x hl c hc)

theorem IsNumeral.cons {k : Nat} {cs : List Char} (h : IsNumeral k cs) : ∃ c r, cs = c :: r ∧ c.isDigit = true := by
  cases cs with
  | nil => exact absurd rfl h.1
  | cons c r => exact ⟨c, r, rfl, h.2.2 c (by simp)⟩

/-- `yyyy-mm-dd[ time]` -/
theorem pre_iso (yy mm dd tm : List Char) (hms us : Int) (hy : IsNumeral 4 yy) (hy4 : yy.length = 4) (hm : IsNumeral 2 mm) (hd : IsNumeral 2 dd)
    (ht : TimeText tm hms us) :
    squeeze (slashes (strip (yy ++ '-' :: (mm ++ '-' :: (dd ++ tm))))) = yy ++ '-' :: (mm ++ '-' :: (dd ++ tm)) := by
  obtain ⟨c0, r, e0, h0⟩ := hy.cons
  have e : yy ++ '-' :: (mm ++ '-' :: (dd ++ tm)) = (yy ++ '-' :: (mm ++ '-' :: dd)) ++ tm := by simp
  have hs : strip (yy ++ '-' :: (mm ++ '-' :: (dd ++ tm))) = yy ++ '-' :: (mm ++ '-' :: (dd ++ tm)) := by
    rw [e]
    refine strip_text _ tm hms us c0 (r ++ '-' :: (mm ++ '-' :: dd)) (by rw [e0]; simp) (notWs_of_digit _ h0) ?_ ht
    have e2 : yy ++ '-' :: (mm ++ '-' :: dd) = (yy ++ '-' :: (mm ++ ['-'])) ++ dd := by simp
    rw [e2]; exact hd.last_digit _
  have hc := clean_iso yy mm dd tm hms us hy hm hd ht
  rw [hs] at hc ⊢
  rw [slashes_long_numeral yy _ hy.2.2 (by omega) (ndh_cons _ _ (by decide)), hc]

/-- `d<s>Mon<s>yyyy[ time]`, `s` a blank or a dash -/
theorem pre_dMy (m : Nat) (dd w yy tm : List Char) (s : Char) (hms us : Int) (hs : s = ' ' ∨ s = '-') (hd : IsNumeral 2 dd)
    (hw : IsMonthName m w) (hy : IsNumeral 4 yy) (ht : TimeText tm hms us) :
    squeeze (slashes (strip (dd ++ s :: (w ++ s :: (yy ++ tm))))) = dd ++ s :: (w ++ s :: (yy ++ tm)) := by
  obtain ⟨c0, r, e0, h0⟩ := hd.cons
  obtain ⟨wc, wr, rfl⟩ : ∃ c cs, w = c :: cs := by
    cases w with
    | nil => exact absurd rfl hw.2.1
    | cons c cs => exact ⟨c, cs, rfl⟩
  have e : dd ++ s :: (wc :: wr ++ s :: (yy ++ tm)) = (dd ++ s :: (wc :: wr ++ s :: yy)) ++ tm := by simp
  have hst : strip (dd ++ s :: (wc :: wr ++ s :: (yy ++ tm))) = dd ++ s :: (wc :: wr ++ s :: (yy ++ tm)) := by
    rw [e]
    refine strip_text _ tm hms us c0 (r ++ s :: (wc :: wr ++ s :: yy)) (by rw [e0]; simp) (notWs_of_digit _ h0) ?_ ht
    have e2 : dd ++ s :: (wc :: wr ++ s :: yy) = (dd ++ s :: (wc :: wr ++ [s])) ++ yy := by simp
    rw [e2]; exact hy.last_digit _
  have hc := clean_dMy m dd (wc :: wr) yy tm s hms us hs hd hw hy ht
  rw [hst] at hc ⊢
  have := slashes_num_word dd (wr ++ s :: (yy ++ tm)) s wc hd hs (hw.2.2.1 wc (by simp))
  simp only [List.cons_append] at this hc ⊢
  rw [this, hc]

/-- `Mon d, yyyy[ time]` and `Mon d yyyy[ time]` -/
theorem pre_Mdy_comma (m : Nat) (dd w yy tm : List Char) (hms us : Int) (hd : IsNumeral 2 dd)
    (hw : IsMonthName m w) (hy : IsNumeral 4 yy) (ht : TimeText tm hms us) :
    squeeze (slashes (strip (w ++ ' ' :: (dd ++ ',' :: ' ' :: (yy ++ tm))))) = w ++ ' ' :: (dd ++ ',' :: ' ' :: (yy ++ tm)) := by
  obtain ⟨wc, wr, rfl⟩ : ∃ c cs, w = c :: cs := by
    cases w with
    | nil => exact absurd rfl hw.2.1
    | cons c cs => exact ⟨c, cs, rfl⟩
  have e : wc :: wr ++ ' ' :: (dd ++ ',' :: ' ' :: (yy ++ tm)) = (wc :: wr ++ ' ' :: (dd ++ ',' :: ' ' :: yy)) ++ tm := by simp
  have hst : strip (wc :: wr ++ ' ' :: (dd ++ ',' :: ' ' :: (yy ++ tm))) = wc :: wr ++ ' ' :: (dd ++ ',' :: ' ' :: (yy ++ tm)) := by
    rw [e]
    refine strip_text _ tm hms us wc (wr ++ ' ' :: (dd ++ ',' :: ' ' :: yy)) (by simp) (notWs_of_alpha _ (hw.2.2.1 wc (by simp))) ?_ ht
    have e2 : wc :: wr ++ ' ' :: (dd ++ ',' :: ' ' :: yy) = (wc :: wr ++ ' ' :: (dd ++ [',', ' '])) ++ yy := by simp
    rw [e2]; exact hy.last_digit _
  have hc := clean_Mdy_comma m dd (wc :: wr) yy tm hms us hd hw hy ht
  rw [hst] at hc ⊢
  rw [slashes_nondigit _ (hw.ndh _), hc]

theorem pre_Mdy (m : Nat) (dd w yy tm : List Char) (hms us : Int) (hd : IsNumeral 2 dd)
    (hw : IsMonthName m w) (hy : IsNumeral 4 yy) (ht : TimeText tm hms us) :
    squeeze (slashes (strip (w ++ ' ' :: (dd ++ ' ' :: (yy ++ tm))))) = w ++ ' ' :: (dd ++ ' ' :: (yy ++ tm)) := by
  obtain ⟨wc, wr, rfl⟩ : ∃ c cs, w = c :: cs := by
    cases w with
    | nil => exact absurd rfl hw.2.1
    | cons c cs => exact ⟨c, cs, rfl⟩
  have e : wc :: wr ++ ' ' :: (dd ++ ' ' :: (yy ++ tm)) = (wc :: wr ++ ' ' :: (dd ++ ' ' :: yy)) ++ tm := by simp
  have hst : strip (wc :: wr ++ ' ' :: (dd ++ ' ' :: (yy ++ tm))) = wc :: wr ++ ' ' :: (dd ++ ' ' :: (yy ++ tm)) := by
    rw [e]
    refine strip_text _ tm hms us wc (wr ++ ' ' :: (dd ++ ' ' :: yy)) (by simp) (notWs_of_alpha _ (hw.2.2.1 wc (by simp))) ?_ ht
    have e2 : wc :: wr ++ ' ' :: (dd ++ ' ' :: yy) = (wc :: wr ++ ' ' :: (dd ++ [' '])) ++ yy := by simp
    rw [e2]; exact hy.last_digit _
  have hc := clean_Mdy m dd (wc :: wr) yy tm hms us hd hw hy ht
  rw [hst] at hc ⊢
  rw [slashes_nondigit _ (hw.ndh _), hc]

/-- the text `dt2str` writes starts with four digits: left alone -/
theorem slashes_dt2strCs (t : Int) : slashes (dt2strCs t) = dt2strCs t := by
  unfold dt2strCs
  simp only []
  split
  · have := slashes_long_numeral (pad4 (ymdOf t).y ++ pad2 (ymdOf t).m ++ pad2 (ymdOf t).d) [] (by
      intro c hc; simp only [List.mem_append] at hc
      rcases hc with (hc | hc) | hc
      · exact all_pad4 _ c hc
      · exact all_pad2 _ c hc
      · exact all_pad2 _ c hc) (by simp [pad4, pad2]) ndh_nil
    simpa using this
  · split
    · have := slashes_long_numeral (pad4 (ymdOf t).y) ('-' :: pad2 (ymdOf t).m ++ '-' :: pad2 (ymdOf t).d ++ 'T' :: pad2 ((todOf t).toNat / 1000000 / 3600) ++ ':' :: pad2 ((todOf t).toNat / 1000000 / 60 % 60)
                ++ ':' :: pad2 ((todOf t).toNat / 1000000 % 60)) (all_pad4 _) (by simp [pad4]) (ndh_cons _ _ (by decide))
      simpa using this
    · have := slashes_long_numeral (pad4 (ymdOf t).y) ('-' :: pad2 (ymdOf t).m ++ '-' :: pad2 (ymdOf t).d ++ 'T' :: pad2 ((todOf t).toNat / 1000000 / 3600) ++ ':' :: pad2 ((todOf t).toNat / 1000000 / 60 % 60)
                ++ ':' :: pad2 ((todOf t).toNat / 1000000 % 60) ++ '.' :: pad6 ((todOf t).toNat % 1000000)) (all_pad4 _) (by simp [pad4]) (ndh_cons _ _ (by decide))
      simpa using this

/-- white space around a text that starts with a non-blank character and ends with a digit (possibly of its time suffix) -/
theorem strip_wrapped_text (ws1 ws2 x tm : List Char) (a b : Int) (c0 : Char) (r : List Char) (hx : x = c0 :: r) (h0 : isWs c0 = false)
    (hr : r ≠ []) (hl : ∀ c, x.getLast? = some c → c.isDigit = true) (ht : TimeText tm a b) (h1 : AllWs ws1) (h2 : AllWs ws2) :
    strip (ws1 ++ (x ++ tm) ++ ws2) = x ++ tm := by
  subst hx
  have hne : r ++ tm ≠ [] := by simp [hr]
  obtain ⟨mid, c1, e⟩ : ∃ mid c1, r ++ tm = mid ++ [c1] := by
    rcases List.eq_nil_or_concat (r ++ tm) with h | ⟨mid, c1, h⟩
    · exact absurd h hne
    · exact ⟨mid, c1, by simpa using h⟩
  have e' : c0 :: r ++ tm = c0 :: (mid ++ [c1]) := by simp [e]
  have hc1 : c1.isDigit = true := by
    apply ht.last_digit (c0 :: r) hl c1
    rw [e', show c0 :: (mid ++ [c1]) = (c0 :: mid) ++ [c1] by simp, List.getLast?_append]; rfl
  rw [e']
  exact strip_wrapped ws1 ws2 mid c0 c1 h1 h2 h0 (notWs_of_digit c1 hc1)

end Pyg.DateParse
