/-
  Month / quarter / year bumps of the drange model (C10) move strictly in the direction of their sign — a theorem
  about the Gregorian arithmetic (CivilLemmas.lean), for every instant and every day of month — and from a day of
  month ≤ 28 they keep the day of month, so iterating a month bump `i` times is one bump by `i·k` months.
-/
import PygProofs.Lemmas.DRangeLemmas
import PygProofs.Lemmas.CivilLemmas

namespace Pyg.DRange
open Pyg

/-- a year is twelve months -/
theorem yearBump_eq (t k : Int) : yearBump t k = monthBump t (12 * k) := by
  unfold yearBump monthBump Civil.addMonths
  show (Civil.ordYM ((Civil.ymd (dayOf t)).1 + k) (Civil.ymd (dayOf t)).2.1 (Civil.ymd (dayOf t)).2.2 - 1) * DAY = _
  rw [Civil.ordYM_year]

/-- `k ≥ 1` months later is at least 28 days after the start of the day of `t`, at most 31k days after it -/
theorem monthBump_fwd (t k : Int) (hk : 0 ≤ k) :
    t / DAY * DAY + 28 * k * DAY ≤ monthBump t k ∧ monthBump t k ≤ t / DAY * DAY + 31 * k * DAY := by
  have h := Civil.addMonths_fwd (dayOf t) k hk
  unfold monthBump dayOf DAY at *
  omega

theorem monthBump_bwd (t k : Int) (hk : k ≤ 0) :
    t / DAY * DAY + 31 * k * DAY ≤ monthBump t k ∧ monthBump t k ≤ t / DAY * DAY + 28 * k * DAY := by
  have h := Civil.addMonths_bwd (dayOf t) k hk
  unfold monthBump dayOf DAY at *
  omega

/-- **strict monotonicity of the month step**: a bump by `k > 0` months is strictly later than `t` (by more than 27
days), a bump by `k < 0` months strictly earlier — every instant `t`, every day of month (an over-long day rolls
into the next month and is still later) -/
theorem month_step_strict (t k : Int) :
    (0 < k → t + 27 * DAY < monthBump t k) ∧ (k < 0 → monthBump t k < t - 27 * DAY) := by
  refine ⟨fun hk => ?_, fun hk => ?_⟩
  · have := (monthBump_fwd t k (by omega)).1
    unfold DAY at *; omega
  · have := (monthBump_bwd t k (by omega)).2
    unfold DAY at *; omega

/-- every unit: a positive count moves strictly forward -/
theorem bump1_inc_all (t n : Int) (u : Per) (hn : 1 ≤ n) : t < bump1 t n u := by
  by_cases hu : u.fixed = true
  · exact bump1_inc t n u hu hn
  · cases u <;> simp [Per.fixed] at hu
    · have := (month_step_strict t n).1 (by omega); simp only [bump1]; unfold DAY at *; omega
    · have := (month_step_strict t (3 * n)).1 (by omega); simp only [bump1]; unfold DAY at *; omega
    · have := (month_step_strict t (12 * n)).1 (by omega); simp only [bump1, yearBump_eq]; unfold DAY at *; omega

theorem bump1_dec_all (t n : Int) (u : Per) (hn : n ≤ -1) : bump1 t n u < t := by
  by_cases hu : u.fixed = true
  · exact bump1_dec t n u hu hn
  · cases u <;> simp [Per.fixed] at hu
    · have := (month_step_strict t n).2 (by omega); simp only [bump1]; unfold DAY at *; omega
    · have := (month_step_strict t (3 * n)).2 (by omega); simp only [bump1]; unfold DAY at *; omega
    · have := (month_step_strict t (12 * n)).2 (by omega); simp only [bump1, yearBump_eq]; unfold DAY at *; omega

theorem dtBump_inc_all : ∀ (parts : List (Int × Per)) (t : Int), parts ≠ [] →
    (∀ p ∈ parts, 1 ≤ p.1) → t < dtBump parts t
  | [], _, h, _ => absurd rfl h
  | [p], t, _, hp => by
    simp only [dtBump, List.foldl]
    exact bump1_inc_all t p.1 p.2 (hp p (by simp))
  | p :: q :: rest, t, _, hp => by
    have h1 := bump1_inc_all t p.1 p.2 (hp p (by simp))
    have h2 := dtBump_inc_all (q :: rest) (bump1 t p.1 p.2) (by simp) (fun x hx => hp x (List.mem_cons_of_mem _ hx))
    simp only [dtBump, List.foldl] at h2 ⊢
    omega

theorem dtBump_dec_all : ∀ (parts : List (Int × Per)) (t : Int), parts ≠ [] →
    (∀ p ∈ parts, p.1 ≤ -1) → dtBump parts t < t
  | [], _, h, _ => absurd rfl h
  | [p], t, _, hp => by
    simp only [dtBump, List.foldl]
    exact bump1_dec_all t p.1 p.2 (hp p (by simp))
  | p :: q :: rest, t, _, hp => by
    have h1 := bump1_dec_all t p.1 p.2 (hp p (by simp))
    have h2 := dtBump_dec_all (q :: rest) (bump1 t p.1 p.2) (by simp) (fun x hx => hp x (List.mem_cons_of_mem _ hx))
    simp only [dtBump, List.foldl] at h2 ⊢
    omega

/-- the rrule step (month-based units keep the time of day) also moves strictly forward for a positive count -/
theorem rruleStep_inc (n : Int) (u : Per) (hn : 1 ≤ n) (t : Int) : t < rruleStep n u t := by
  have h := bump1_inc_all t n u hn
  cases u <;> simp only [rruleStep] <;> first | exact h | (unfold DAY at *; omega)

/-! ### from a day of month ≤ 28 (at midnight) iterating a month bump is one bump by the total number of months -/

theorem dayOf_monthBump (t k : Int) : dayOf (monthBump t k) = Civil.addMonths (dayOf t) k := by
  unfold monthBump dayOf DAY; omega

theorem monthBump_midnight (t k : Int) : monthBump t k % DAY = 0 := by
  unfold monthBump; exact Int.mul_emod_left _ _

theorem monthBump_monthBump (t k j : Int) (hd : Civil.day (dayOf t) ≤ 28) :
    monthBump (monthBump t k) j = monthBump t (k + j) := by
  unfold monthBump
  rw [show (Civil.addMonths (dayOf t) k - 1) * DAY = monthBump t k from rfl, dayOf_monthBump,
    Civil.addMonths_add _ _ _ hd]

theorem monthBump_zero (t : Int) (hm : t % DAY = 0) : monthBump t 0 = t := by
  unfold monthBump; rw [Civil.addMonths_zero]; unfold dayOf DAY at *; omega

/-- `l[i]` of a month range: `i` bumps by `k` months = one bump by `i·k` months (no drift of the day of month) -/
theorem iter_monthBump (k : Int) : ∀ (i : Nat) (t : Int), t % DAY = 0 → Civil.day (dayOf t) ≤ 28 →
    iter (fun t => monthBump t k) i t = monthBump t (i * k)
  | 0, t, hm, _ => by simp [iter, monthBump_zero t hm]
  | i + 1, t, hm, hd => by
    rw [iterate_succ', iter_monthBump k i (monthBump t k) (monthBump_midnight t k)
      (by rw [dayOf_monthBump, Civil.day_addMonths _ _ hd]; exact hd), monthBump_monthBump t k _ hd]
    congr 1
    rw [Int.natCast_succ, Int.add_mul, Int.one_mul]; omega

/-- the same for the three month-based units -/
theorem iter_bump1_month (n : Int) (u : Per) (hu : u.fixed = false) (i : Nat) (t : Int) (hm : t % DAY = 0)
    (hd : Civil.day (dayOf t) ≤ 28) : iter (fun t => bump1 t n u) i t = bump1 t (i * n) u := by
  cases u <;> simp [Per.fixed] at hu
  · exact iter_monthBump n i t hm hd
  · show iter (fun t => monthBump t (3 * n)) i t = monthBump t (3 * (i * n))
    rw [iter_monthBump (3 * n) i t hm hd]; congr 1
    rw [Int.mul_left_comm]
  · show iter (fun t => yearBump t n) i t = yearBump t (i * n)
    have : (fun t => yearBump t n) = fun t => monthBump t (12 * n) := by funext t; exact yearBump_eq t n
    rw [this, yearBump_eq, iter_monthBump (12 * n) i t hm hd]; congr 1
    rw [Int.mul_left_comm]

end Pyg.DRange
