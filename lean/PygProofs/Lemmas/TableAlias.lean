/-
  Lemmas for the reference-heap layer of C01 (PygModel/TableAlias.lean): pointer binding, what the
  translated operation writes, allocation.
-/
import PygProofs.Lemmas.TableRect
import PygModel.TableAlias

namespace Pyg

namespace RefHeap

theorem bindPtr_getElem?_ne (ptr : List Nat) (d c i : Nat) (hi : i < ptr.length) (hd : d ≠ i) :
    (bindPtr ptr d c)[i]? = ptr[i]? := by
  unfold bindPtr
  split
  · exact List.getElem?_set_ne hd
  · exact List.getElem?_append_left hi

theorem bindPtr_getElem?_self (ptr : List Nat) (d c : Nat) (hd : d ≤ ptr.length) :
    (bindPtr ptr d c)[d]? = some c := by
  unfold bindPtr
  split
  · rename_i h; simp [h]
  · have : d = ptr.length := by omega
    subst this
    simp

theorem bindPtr_length_ge (ptr : List Nat) (d c : Nat) : ptr.length ≤ (bindPtr ptr d c).length := by
  unfold bindPtr
  split <;> simp

theorem mem_bindPtr {ptr : List Nat} {d c x : Nat} (h : x ∈ bindPtr ptr d c) : x ∈ ptr ∨ x = c := by
  unfold bindPtr at h
  split at h
  · exact List.mem_or_eq_of_mem_set h
  · rcases List.mem_append.1 h with h | h
    · exact Or.inl h
    · exact Or.inr (by simpa using h)

theorem get_eq_some {s : RefHeap} {i : Nat} {t : Table} (h : s.get i = some t) :
    ∃ c, s.ptr[i]? = some c ∧ s.cells[c]? = some t := by
  unfold get at h
  split at h
  · rename_i c hc; exact ⟨c, hc, h⟩
  · cases h

theorem get_of_ptr {s : RefHeap} {i c : Nat} (h : s.ptr[i]? = some c) : s.get i = s.cells[c]? := by
  unfold get; rw [h]

end RefHeap

/-- what the translated operation writes in the value machine run on the cells: the fresh cell `d`, or the
translated assigned handle -/
theorem Op.writes_mapHandles (f : Nat → Nat) (d : Nat) (o : Op) :
    (o.mapHandles f d).writes =
      match o.dst? with
      | some _ => some d
      | Option.none => o.inplace?.map f := by
  cases o <;> rfl

theorem Heap.put_length_ge (s : Heap) (d : Nat) (t : Table) : s.length ≤ (s.put d t).length := by
  unfold Heap.put; split <;> simp

theorem Heap.bind_length_ge (s : Heap) (d : Nat) (r : Except Err Table) : s.length ≤ (s.bind d r).1.length := by
  unfold Heap.bind; split
  · exact Heap.put_length_ge s d _
  · exact Nat.le_refl _

/-- the value machine never drops a cell -/
theorem step_length_ge (s : Heap) (op : Op) : s.length ≤ (step s op).1.length := by
  cases op <;> simp only [step] <;> (try split) <;> (try exact Nat.le_refl _) <;>
    (try exact Heap.bind_length_ge s _ _) <;>
    (try (simp only [Heap.query_fst]; exact Nat.le_refl _)) <;>
    (try (split <;> (first
      | exact Nat.le_refl _
      | (simp only [List.length_set]; exact Nat.le_refl _)
      | exact Heap.bind_length_ge s _ _)))

theorem Heap.bind_unit_fresh (s : Heap) (r : Except Err Table) (h : (s.bind s.length r).2 = .unit) :
    (s.bind s.length r).1.length = s.length + 1 := by
  unfold Heap.bind at *
  split
  · simp [Heap.put]
  · simp at h

/-- a table-producing operation whose destination is the next free index and which succeeds allocates
exactly that index -/
theorem step_unit_fresh (s : Heap) (op : Op) (d : Nat) (hd : op.dst? = some d) (f : Nat → Nat)
    (hu : (step s (op.mapHandles f s.length)).2 = .unit) :
    (step s (op.mapHandles f s.length)).1.length = s.length + 1 := by
  cases op <;> simp only [Op.dst?] at hd <;> (try cases hd) <;>
    simp only [Op.mapHandles, step] at hu ⊢ <;> (try split at hu) <;> (try (simp at hu; done)) <;>
    (try exact Heap.bind_unit_fresh s _ hu) <;>
    (try (split at hu <;> first | (simp at hu; done) | exact Heap.bind_unit_fresh s _ hu))

end Pyg
