import PygProofs.Lemmas.DictCallLemmas

/-!
  Evaluation-order independence of `Dict.__call__` (C16).

  * `EnvEq` / `ResEq`: "the same python dict" (same value under every key; `==` on dicts does not
    compare insertion order) and "the same outcome" (same error kind or `EnvEq` results).
  * `Topo ts`: `ts` is in dependency order: no callable reads a key that is defined by itself or by a
    later member of `ts`.
  * `Spec base cs r`: `r` is a solution of the definitions `cs` over `base`: keys that are not derived
    keep their value of `base`, every derived key holds its function applied to the values that its
    declared arguments have IN `r` (the final values).
  * `evalAll_topo_spec`, `evalAll_topo_error_iff`, `spec_unique`: sequential evaluation in dependency
    order computes the unique solution, and fails exactly when a declared argument is nowhere.
  * `evalAll_topo_perm`: any two dependency orders give the same outcome.
  * `loop_perm`, `loop_eq_topo`: the round-based loop of `Dict.__call__`.
-/

namespace Pyg.DictCall
open Pyg.DA
variable {V : Type}

/-! ### same mapping / same outcome -/

/-- the same python dict: every key has the same value -/
def EnvEq (r r' : Env V) : Prop := ∀ k, lookup k r = lookup k r'

/-- the same outcome: the same kind of error, or equal mappings -/
def ResEq : Res (Env V) → Res (Env V) → Prop
  | .ok r, .ok r' => EnvEq r r'
  | .error e, .error e' => e = e'
  | _, _ => False

theorem EnvEq.refl (r : Env V) : EnvEq r r := fun _ => rfl
theorem EnvEq.symm {r r' : Env V} (h : EnvEq r r') : EnvEq r' r := fun k => (h k).symm
theorem EnvEq.trans {r r' r'' : Env V} (h : EnvEq r r') (h' : EnvEq r' r'') : EnvEq r r'' :=
  fun k => (h k).trans (h' k)

theorem EnvEq.set {r r' : Env V} (h : EnvEq r r') (k : String) (v : V) :
    EnvEq (set k v r) (set k v r') := by
  intro j; rw [lookup_set, lookup_set, h j]

theorem EnvEq.setAll {r r' : Env V} (h : EnvEq r r') (ps : List (String × V)) :
    EnvEq (setAll r ps) (setAll r' ps) := by
  intro j; rw [lookup_setAll, lookup_setAll, h j]

theorem ResEq.refl : ∀ x : Res (Env V), ResEq x x
  | .ok r => EnvEq.refl r
  | .error _ => rfl

theorem ResEq.symm : ∀ {x y : Res (Env V)}, ResEq x y → ResEq y x
  | .ok _, .ok _, h => EnvEq.symm h
  | .error _, .error _, h => Eq.symm h
  | .ok _, .error _, h => h
  | .error _, .ok _, h => h

theorem ResEq.trans : ∀ {x y z : Res (Env V)}, ResEq x y → ResEq y z → ResEq x z
  | .ok _, .ok _, .ok _, h, h' => EnvEq.trans h h'
  | .error _, .error _, .error _, h, h' => Eq.trans h h'
  | .ok _, .ok _, .error _, _, h' => h'
  | .ok _, .error _, _, h, _ => h.elim
  | .error _, .ok _, _, h, _ => h.elim
  | .error _, .error _, .ok _, _, h' => h'

/-- running equivalent continuations after equivalent outcomes -/
theorem ResEq.bind {x y : Res (Env V)} {f g : Env V → Res (Env V)} (h : ResEq x y)
    (hfg : ∀ r r', EnvEq r r' → ResEq (f r) (g r')) : ResEq (x >>= f) (y >>= g) := by
  match x, y, h with
  | .ok r, .ok r', h => exact hfg r r' h
  | .error e, .error e', h => exact h

theorem ResEq.ok_left {x y : Res (Env V)} (h : ResEq x y) {r : Env V} (hx : x = .ok r) :
    ∃ r', y = .ok r' ∧ EnvEq r r' := by
  subst hx
  match y, h with
  | .ok r', h => exact ⟨r', rfl, h⟩

theorem ResEq.error_iff {x y : Res (Env V)} (h : ResEq x y) (e : Err) :
    x = .error e ↔ y = .error e := by
  match x, y, h with
  | .ok _, .ok _, _ => simp
  | .error e1, .error e2, h => cases (h : e1 = e2); rfl

/-! ### `apply` only looks at the declared arguments -/

/-- the values of the declared arguments, `none` if one of them is no key -/
def getArgs (res : Env V) : List String → Option (List V)
  | [] => some []
  | a :: as =>
    match lookup a res, getArgs res as with
    | some v, some vs => some (v :: vs)
    | _, _ => none

theorem apply_eq (res : Env V) (f : Fn V) :
    apply res f = match getArgs res f.args with
      | some vs => .ok (f.fn vs)
      | none => .error .type := by
  have key : ∀ as : List String,
      (as.mapM fun a => match lookup a res with
        | some v => (pure v : Res V)
        | none => throw Err.type) = match getArgs res as with
          | some vs => .ok vs
          | none => .error .type := by
    intro as
    induction as with
    | nil => rfl
    | cons a as ih =>
      simp only [List.mapM_cons, bind, Except.bind, ih, getArgs]
      cases lookup a res with
      | none => rfl
      | some v => cases getArgs res as <;> rfl
  have h : apply res f = ((f.args.mapM fun a => match lookup a res with
      | some v => (pure v : Res V)
      | none => throw Err.type) >>= fun vs => pure (f.fn vs)) := rfl
  rw [h, key]
  cases getArgs res f.args <;> rfl

theorem getArgs_congr (r r' : Env V) : ∀ as : List String,
    (∀ a ∈ as, lookup a r = lookup a r') → getArgs r as = getArgs r' as
  | [], _ => rfl
  | a :: as, h => by
      simp only [getArgs, h a (by simp), getArgs_congr r r' as fun b hb => h b (by simp [hb])]

theorem getArgs_eq_none_iff (r : Env V) : ∀ as : List String,
    getArgs r as = none ↔ ∃ a ∈ as, lookup a r = none
  | [] => by simp [getArgs]
  | a :: as => by
      simp only [getArgs, List.mem_cons, exists_eq_or_imp, ← getArgs_eq_none_iff r as]
      cases lookup a r <;> cases getArgs r as <;> simp

theorem apply_congr (r r' : Env V) (f : Fn V) (h : ∀ a ∈ f.args, lookup a r = lookup a r') :
    apply r f = apply r' f := by
  rw [apply_eq, apply_eq, getArgs_congr r r' f.args h]

/-- `apply` raises (`TypeError`) exactly when a declared argument is no key of the mapping -/
theorem apply_error_iff (r : Env V) (f : Fn V) (e : Err) :
    apply r f = .error e ↔ e = .type ∧ ∃ a ∈ f.args, lookup a r = none := by
  rw [apply_eq, ← getArgs_eq_none_iff]
  cases getArgs r f.args with
  | none => simp [eq_comm]
  | some vs => simp

theorem apply_ok_lookup (r : Env V) (f : Fn V) (v : V) (h : apply r f = .ok v) :
    ∀ a ∈ f.args, lookup a r ≠ none := by
  intro a ha hn
  have := (apply_error_iff r f .type).2 ⟨rfl, a, ha, hn⟩
  rw [h] at this; cases this

/-! ### sequential evaluation -/

theorem evalAll_cons (res : Env V) (k : String) (f : Fn V) (cs : List (String × Fn V)) :
    evalAll res ((k, f) :: cs) = (apply res f >>= fun v => evalAll (set k v res) cs) := rfl

theorem evalAll_append (cs cs' : List (String × Fn V)) : ∀ res : Env V,
    evalAll res (cs ++ cs') = (evalAll res cs >>= fun r => evalAll r cs') := by
  induction cs with
  | nil => intro res; rfl
  | cons c cs ih =>
    intro res
    obtain ⟨k, f⟩ := c
    simp only [List.cons_append, evalAll_cons, ih]
    cases apply res f <;> rfl

theorem evalAll_congr (cs : List (String × Fn V)) : ∀ r r' : Env V, EnvEq r r' →
    ResEq (evalAll r cs) (evalAll r' cs) := by
  induction cs with
  | nil => intro r r' h; exact h
  | cons c cs ih =>
    intro r r' h
    obtain ⟨k, f⟩ := c
    rw [evalAll_cons, evalAll_cons, apply_congr r r' f fun a _ => h a]
    cases apply r' f with
    | error e => exact rfl
    | ok v => exact ih _ _ (h.set k v)

/-! ### dependency order, solutions -/

/-- `ts` is in dependency order: no callable reads a key defined by itself or by a later member -/
def Topo : List (String × Fn V) → Prop
  | [] => True
  | c :: rest => (∀ a ∈ c.2.args, a ∉ (c :: rest).map (·.1)) ∧ Topo rest

/-- a declared argument that is neither a derived key nor a key of the base mapping -/
def Missing (base : Env V) (cs : List (String × Fn V)) : Prop :=
  ∃ c ∈ cs, ∃ a ∈ c.2.args, a ∉ cs.map (·.1) ∧ lookup a base = none

/-- `r` solves the definitions `cs` over `base`: other keys are those of `base`, every derived key
holds its function applied to the FINAL values (those of `r`) of its declared arguments -/
structure Spec (base : Env V) (cs : List (String × Fn V)) (r : Env V) : Prop where
  frame : ∀ k, k ∉ cs.map (·.1) → lookup k r = lookup k base
  derived : ∀ c ∈ cs, ∃ v, apply r c.2 = .ok v ∧ lookup c.1 r = some v

theorem Topo.filter (p : String × Fn V → Bool) : ∀ ts : List (String × Fn V), Topo ts →
    Topo (ts.filter p)
  | [], _ => trivial
  | c :: rest, h => by
      have ih := Topo.filter p rest h.2
      by_cases hp : p c = true
      · rw [List.filter_cons_of_pos hp]
        refine ⟨fun a ha hm => h.1 a ha ?_, ih⟩
        rcases List.mem_cons.1 hm with e | hm
        · exact List.mem_cons.2 (Or.inl e)
        · apply List.mem_cons_of_mem
          obtain ⟨c', hc', e⟩ := List.mem_map.1 hm
          exact List.mem_map.2 ⟨c', (List.mem_filter.1 hc').1, e⟩
      · rw [List.filter_cons_of_neg hp]; exact ih

/-- callables that read no key of the whole list, followed by a dependency order of the rest -/
theorem Topo.append (ys : List (String × Fn V)) (hy : Topo ys) : ∀ xs : List (String × Fn V),
    (∀ c ∈ xs, ∀ a ∈ c.2.args, a ∉ (xs ++ ys).map (·.1)) → Topo (xs ++ ys)
  | [], _ => hy
  | c :: xs, h => by
      refine ⟨h c (by simp), Topo.append ys hy xs fun c' hc' a ha hm => h c' (by simp [hc']) a ha ?_⟩
      rw [List.cons_append, List.map_cons]
      exact List.mem_cons_of_mem _ hm

theorem Topo.of_independent (keys : List String) (cs : List (String × Fn V))
    (hk : ∀ c ∈ cs, c.1 ∈ keys) (h : ∀ c ∈ cs, independent keys c = true) : Topo cs := by
  have := Topo.append [] trivial cs (by
    intro c hc a ha hm
    rw [List.append_nil] at hm
    obtain ⟨c', hc', e⟩ := List.mem_map.1 hm
    have hi := h c hc
    simp only [independent, List.all_eq_true, decide_eq_true_eq] at hi
    exact hi a ha (e ▸ hk c' hc'))
  simpa using this

theorem Missing.congr {base base' : Env V} {cs cs' : List (String × Fn V)} (hb : EnvEq base base')
    (hm : ∀ c, c ∈ cs ↔ c ∈ cs') (h : Missing base cs) : Missing base' cs' := by
  obtain ⟨c, hc, a, ha, hk, hl⟩ := h
  refine ⟨c, (hm c).1 hc, a, ha, ?_, (hb a) ▸ hl⟩
  intro hk'
  obtain ⟨c', hc', e⟩ := List.mem_map.1 hk'
  exact hk (List.mem_map.2 ⟨c', (hm c').2 hc', e⟩)

theorem Spec.congr {base base' : Env V} {cs cs' : List (String × Fn V)} {r : Env V}
    (hb : EnvEq base base') (hm : ∀ c, c ∈ cs ↔ c ∈ cs') (h : Spec base cs r) : Spec base' cs' r := by
  refine ⟨fun k hk => (h.frame k ?_).trans (hb k), fun c hc => h.derived c ((hm c).2 hc)⟩
  intro hk'
  obtain ⟨c', hc', e⟩ := List.mem_map.1 hk'
  exact hk (List.mem_map.2 ⟨c', (hm c').1 hc', e⟩)

theorem Spec.of_envEq {base : Env V} {cs : List (String × Fn V)} {r r' : Env V}
    (h : Spec base cs r) (hr : EnvEq r' r) : Spec base cs r' := by
  refine ⟨fun k hk => (hr k).trans (h.frame k hk), fun c hc => ?_⟩
  obtain ⟨v, hv, hl⟩ := h.derived c hc
  exact ⟨v, by rw [apply_congr r' r c.2 fun a _ => hr a]; exact hv, (hr c.1).trans hl⟩

/-- evaluation in dependency order computes a solution -/
theorem evalAll_topo_spec : ∀ (ts : List (String × Fn V)) (base r : Env V),
    (ts.map (·.1)).Nodup → Topo ts → evalAll base ts = .ok r → Spec base ts r
  | [], base, r, _, _, h => by
      cases h
      exact ⟨fun _ _ => rfl, fun c hc => by simp at hc⟩
  | (k, f) :: rest, base, r, hn, ht, h => by
      rw [evalAll_cons] at h
      cases hv : apply base f with
      | error e => rw [hv] at h; cases h
      | ok v =>
        rw [hv] at h
        simp only [List.map_cons, List.nodup_cons] at hn
        have ih := evalAll_topo_spec rest (set k v base) r hn.2 ht.2 h
        have hargs : ∀ a ∈ f.args, lookup a r = lookup a base := by
          intro a ha
          have hna := ht.1 a ha
          simp only [List.map_cons, List.mem_cons, not_or] at hna
          rw [ih.frame a hna.2, lookup_set, if_neg hna.1]
        constructor
        · intro j hj
          simp only [List.map_cons, List.mem_cons, not_or] at hj
          rw [ih.frame j hj.2, lookup_set, if_neg hj.1]
        · intro c hc
          rcases List.mem_cons.1 hc with rfl | hc
          · refine ⟨v, ?_, ?_⟩
            · rw [apply_congr r base f hargs]; exact hv
            · rw [ih.frame k hn.1, lookup_set, if_pos rfl]
          · exact ih.derived c hc

/-- evaluation in dependency order fails exactly when a declared argument is nowhere to be found -/
theorem evalAll_topo_error_iff : ∀ (ts : List (String × Fn V)) (base : Env V), Topo ts →
    ((∃ e, evalAll base ts = .error e) ↔ Missing base ts)
  | [], base, _ => by
      constructor
      · rintro ⟨e, h⟩; cases h
      · rintro ⟨c, hc, _⟩; simp at hc
  | (k, f) :: rest, base, ht => by
      rw [evalAll_cons]
      cases hv : apply base f with
      | error e =>
        obtain ⟨_, a, ha, hl⟩ := (apply_error_iff base f e).1 hv
        exact ⟨fun _ => ⟨(k, f), by simp, a, ha, ht.1 a ha, hl⟩, fun _ => ⟨e, rfl⟩⟩
      | ok v =>
        have ih := evalAll_topo_error_iff rest (set k v base) ht.2
        have hpres := apply_ok_lookup base f v hv
        show (∃ e, evalAll (set k v base) rest = .error e) ↔ _
        rw [ih]
        constructor
        · rintro ⟨c, hc, a, ha, hk, hl⟩
          rw [lookup_set] at hl
          by_cases hak : a = k
          · simp [hak] at hl
          · rw [if_neg hak] at hl
            refine ⟨c, by simp [hc], a, ha, ?_, hl⟩
            simp only [List.map_cons, List.mem_cons, not_or]
            exact ⟨hak, hk⟩
        · rintro ⟨c, hc, a, ha, hk, hl⟩
          simp only [List.map_cons, List.mem_cons, not_or] at hk
          rcases List.mem_cons.1 hc with rfl | hc
          · exact absurd hl (hpres a ha)
          · refine ⟨c, hc, a, ha, hk.2, ?_⟩
            rw [lookup_set, if_neg hk.1]; exact hl

/-- over an acyclic set of definitions the solution is unique -/
theorem spec_unique : ∀ (ts : List (String × Fn V)) (r r' : Env V), Topo ts →
    (∀ k, k ∉ ts.map (·.1) → lookup k r = lookup k r') →
    (∀ c ∈ ts, ∃ v, apply r c.2 = .ok v ∧ lookup c.1 r = some v) →
    (∀ c ∈ ts, ∃ v, apply r' c.2 = .ok v ∧ lookup c.1 r' = some v) → EnvEq r r'
  | [], _, _, _, h, _, _ => fun k => h k (by simp)
  | c :: rest, r, r', ht, h, hd, hd' => by
      have hc : lookup c.1 r = lookup c.1 r' := by
        obtain ⟨v, hv, hl⟩ := hd c (by simp)
        obtain ⟨v', hv', hl'⟩ := hd' c (by simp)
        rw [apply_congr r r' c.2 fun a ha => h a (ht.1 a ha), hv'] at hv
        cases hv
        rw [hl, hl']
      apply spec_unique rest r r' ht.2
      · intro j hj
        by_cases e : j = c.1
        · rw [e]; exact hc
        · exact h j (by simp only [List.map_cons, List.mem_cons, not_or]; exact ⟨e, hj⟩)
      · exact fun c' hc' => hd c' (by simp [hc'])
      · exact fun c' hc' => hd' c' (by simp [hc'])

theorem Spec.unique {base base' : Env V} {cs cs' : List (String × Fn V)} {r r' : Env V}
    (ht : Topo cs) (hb : EnvEq base base') (hm : ∀ c, c ∈ cs ↔ c ∈ cs')
    (h : Spec base cs r) (h' : Spec base' cs' r') : EnvEq r r' := by
  have h'' : Spec base cs r' := h'.congr hb.symm fun c => (hm c).symm
  exact spec_unique cs r r' ht (fun k hk => (h.frame k hk).trans (h''.frame k hk).symm)
    h.derived h''.derived

/-- any two dependency orders of the same definitions give the same outcome -/
theorem evalAll_topo_perm (ts ts' : List (String × Fn V)) (base base' : Env V)
    (hn : (ts.map (·.1)).Nodup) (hp : ts.Perm ts') (ht : Topo ts) (ht' : Topo ts')
    (hb : EnvEq base base') : ResEq (evalAll base ts) (evalAll base' ts') := by
  have hm : ∀ c, c ∈ ts ↔ c ∈ ts' := fun c => hp.mem_iff
  have hn' : (ts'.map (·.1)).Nodup := (hp.map _).nodup_iff.1 hn
  cases h : evalAll base ts with
  | error e =>
    have e1 := evalAll_err ts base e h
    have hmiss : Missing base' ts' := ((evalAll_topo_error_iff ts base ht).1 ⟨e, h⟩).congr hb hm
    obtain ⟨e', h'⟩ := (evalAll_topo_error_iff ts' base' ht').2 hmiss
    rw [h', evalAll_err ts' base' e' h', e1]
    exact rfl
  | ok r =>
    cases h' : evalAll base' ts' with
    | error e' =>
      have hmiss : Missing base ts :=
        ((evalAll_topo_error_iff ts' base' ht').1 ⟨e', h'⟩).congr hb.symm fun c => (hm c).symm
      obtain ⟨e, he⟩ := (evalAll_topo_error_iff ts base ht).2 hmiss
      rw [h] at he; cases he
    | ok r' =>
      exact Spec.unique ht hb hm (evalAll_topo_spec ts base r hn ht h)
        (evalAll_topo_spec ts' base' r' hn' ht' h')

/-! ### the round-based loop -/

theorem independent_of_perm {cs cs' : List (String × Fn V)} (h : cs.Perm cs') :
    independent (V := V) (cs.map (·.1)) = independent (cs'.map (·.1)) := by
  funext c; exact independent_perm _ _ (h.map _) c

theorem nodup_keys_filter (p : String × Fn V → Bool) (cs : List (String × Fn V))
    (h : (cs.map (·.1)).Nodup) : ((cs.filter p).map (·.1)).Nodup :=
  h.sublist (List.filter_sublist.map _)

theorem ready_topo (cs : List (String × Fn V)) :
    Topo (cs.filter (independent (cs.map (·.1)))) :=
  Topo.of_independent (cs.map (·.1)) _
    (fun c hc => List.mem_map.2 ⟨c, (List.mem_filter.1 hc).1, rfl⟩)
    (fun c hc => (List.mem_filter.1 hc).2)

theorem length_rest_lt (cs : List (String × Fn V))
    (h : (cs.filter (independent (cs.map (·.1)))).isEmpty = false) :
    (cs.filter fun c => !independent (cs.map (·.1)) c).length < cs.length := by
  have := length_filter_not (independent (cs.map (·.1))) cs
  cases h' : cs.filter (independent (cs.map (·.1))) with
  | nil => simp [h'] at h
  | cons _ _ => rw [h'] at this; simp at this; omega

theorem eq_of_perm_short {α} : ∀ {l l' : List α}, l.Perm l' → l.length ≤ 1 → l = l'
  | [], _, h, _ => h.nil_eq
  | [a], _, h, _ => List.singleton_perm.1 h
  | _ :: _ :: _, _, _, hl => by simp at hl

/-- the loop of `Dict.__call__` does not depend on the order of the pending callables (nor on the
insertion order of the mapping): same error or equal mappings.  No acyclicity is needed: the rounds
are the same sets, and the callables of one round do not read each other. -/
theorem loop_perm : ∀ (fuel : Nat) (res res' : Env V) (cs cs' : List (String × Fn V)),
    cs.length ≤ fuel → (cs.map (·.1)).Nodup → cs.Perm cs' → EnvEq res res' →
    ResEq (loop fuel res cs) (loop fuel res' cs') := by
  intro fuel
  induction fuel with
  | zero =>
    intro res res' cs cs' hl _ hp hb
    have : cs = cs' := eq_of_perm_short hp (by omega)
    subst this
    exact evalAll_congr cs res res' hb
  | succ fuel ih =>
    intro res res' cs cs' hl hn hp hb
    have hlen : cs'.length = cs.length := hp.length_eq.symm
    simp only [loop, hlen]
    by_cases h1 : cs.length ≤ 1
    · simp only [h1, if_true]
      have : cs = cs' := eq_of_perm_short hp h1
      subst this
      exact evalAll_congr cs res res' hb
    · simp only [h1, if_false]
      rw [← independent_of_perm hp]
      have hpi := hp.filter (independent (cs.map (·.1)))
      have hpr := hp.filter fun c => !independent (cs.map (·.1)) c
      have hemp : (cs'.filter (independent (cs.map (·.1)))).isEmpty =
          (cs.filter (independent (cs.map (·.1)))).isEmpty := by
        rw [Bool.eq_iff_iff, List.isEmpty_iff_length_eq_zero, List.isEmpty_iff_length_eq_zero,
          hpi.length_eq]
      rw [hemp]
      cases hE : (cs.filter (independent (cs.map (·.1)))).isEmpty with
      | true => exact rfl
      | false =>
        simp only [Bool.false_eq_true, if_false]
        apply ResEq.bind
        · apply evalAll_topo_perm _ _ _ _ (nodup_keys_filter _ cs hn) hpi (ready_topo cs) _ hb
          have := ready_topo cs'
          rwa [← independent_of_perm hp] at this
        · intro r r' hr
          apply ih r r' _ _ _ (nodup_keys_filter _ cs hn) hpr hr
          have := length_rest_lt cs hE
          omega

/-- a callable at the head of a dependency order is ready in the first round -/
theorem head_independent {c : String × Fn V} {rest cs : List (String × Fn V)}
    (ht : Topo (c :: rest)) (hp : (c :: rest).Perm cs) :
    c ∈ cs.filter (independent (cs.map (·.1))) := by
  rw [List.mem_filter]
  refine ⟨hp.mem_iff.1 (by simp), ?_⟩
  simp only [independent, List.all_eq_true, decide_eq_true_eq]
  intro a ha hm
  exact ht.1 a ha ((hp.map (·.1)).mem_iff.2 hm)

/-- if the pending callables can be put in dependency order at all (the dependency graph is acyclic
and has no self-loop), the loop never raises `ValueError` and its outcome is that of sequential
evaluation in that order -/
theorem loop_eq_topo : ∀ (fuel : Nat) (res : Env V) (cs ts : List (String × Fn V)),
    cs.length ≤ fuel → (cs.map (·.1)).Nodup → ts.Perm cs → Topo ts →
    ResEq (loop fuel res cs) (evalAll res ts) := by
  intro fuel
  induction fuel with
  | zero =>
    intro res cs ts hl _ hp _
    have : ts = cs := eq_of_perm_short hp (by rw [hp.length_eq]; omega)
    subst this
    exact ResEq.refl _
  | succ fuel ih =>
    intro res cs ts hl hn hp ht
    simp only [loop]
    by_cases h1 : cs.length ≤ 1
    · simp only [h1, if_true]
      have : ts = cs := eq_of_perm_short hp (by rw [hp.length_eq]; exact h1)
      subst this
      exact ResEq.refl _
    · simp only [h1, if_false]
      have hE : (cs.filter (independent (cs.map (·.1)))).isEmpty = false := by
        cases ts with
        | nil => have := hp.length_eq; simp at this; omega
        | cons _ rest =>
          have := head_independent ht hp
          cases h : cs.filter (independent (cs.map (·.1))) with
          | nil => rw [h] at this; simp at this
          | cons _ _ => rfl
      simp only [hE, Bool.false_eq_true, if_false]
      -- the rest of `ts`, in the order of `ts`
      let ts' := ts.filter fun c => !independent (cs.map (·.1)) c
      have hp' : ts'.Perm (cs.filter fun c => !independent (cs.map (·.1)) c) := hp.filter _
      have ht' : Topo ts' := Topo.filter _ ts ht
      have hlt := length_rest_lt cs hE
      have step : ResEq
          (evalAll res (cs.filter (independent (cs.map (·.1)))) >>= fun r =>
            loop fuel r (cs.filter fun c => !independent (cs.map (·.1)) c))
          (evalAll res (cs.filter (independent (cs.map (·.1)))) >>= fun r => evalAll r ts') := by
        apply ResEq.bind (ResEq.refl _)
        intro r r' hr
        exact (ih r _ ts' (by omega) (nodup_keys_filter _ cs hn) hp' ht').trans
          (evalAll_congr ts' r r' hr)
      refine step.trans ?_
      rw [← evalAll_append]
      have hsplit : (cs.filter (independent (cs.map (·.1))) ++
          cs.filter fun c => !independent (cs.map (·.1)) c).Perm cs :=
        List.filter_append_perm _ cs
      have hperm : (cs.filter (independent (cs.map (·.1))) ++ ts').Perm ts :=
        ((List.Perm.append_left _ hp').trans hsplit).trans hp.symm
      have hnall : ((cs.filter (independent (cs.map (·.1))) ++ ts').map (·.1)).Nodup :=
        ((hperm.trans hp).map _).nodup_iff.2 hn
      apply evalAll_topo_perm _ _ _ _ hnall hperm _ ht (EnvEq.refl _)
      apply Topo.append ts' ht'
      intro c hc a ha hm
      have hi := (List.mem_filter.1 hc).2
      simp only [independent, List.all_eq_true, decide_eq_true_eq] at hi
      exact hi a ha (((hperm.trans hp).map (·.1)).mem_iff.1 hm)

/-! ### acyclicity, circular definitions -/

/-- the dependency graph on the pending keys has no cycle and no self-loop: no non-empty set of
pending keys each of which reads a member of the set -/
def Acyclic (cs : List (String × Fn V)) : Prop := ∀ S : List String, S ≠ [] → ¬ Closed S cs

theorem Closed.mono {S : List String} {cs cs' : List (String × Fn V)} (h : Closed S cs)
    (hm : ∀ c ∈ cs, c ∈ cs') : Closed S cs' := by
  intro k hk
  obtain ⟨c, hc, r⟩ := h k hk
  exact ⟨c, hm c hc, r⟩

/-- when no pending callable is ready, the pending keys are a closed set -/
theorem closed_keys_of_stuck (cs : List (String × Fn V))
    (h : cs.filter (independent (cs.map (·.1))) = []) : Closed (cs.map (·.1)) cs := by
  intro k hk
  obtain ⟨c, hc, e⟩ := List.mem_map.1 hk
  refine ⟨c, hc, e, ?_⟩
  have hni : ¬ independent (cs.map (·.1)) c = true := fun hi =>
    (List.filter_eq_nil_iff.1 h) c hc hi
  simp only [independent, List.all_eq_true, decide_eq_true_eq] at hni
  exact Classical.byContradiction fun hno => hni fun a ha hm => hno ⟨a, ha, hm⟩

theorem topo_no_closed (S : List String) : ∀ ts : List (String × Fn V), (ts.map (·.1)).Nodup →
    Topo ts → Closed S ts → S = []
  | [], _, _, h => by
      cases S with
      | nil => rfl
      | cons k _ => obtain ⟨c, hc, _⟩ := h k (by simp); simp at hc
  | c :: rest, hn, ht, h => by
      simp only [List.map_cons, List.nodup_cons] at hn
      have hc : c.1 ∉ S := by
        intro hcS
        obtain ⟨c', hc', e, a, ha, haS⟩ := h c.1 hcS
        have : c' = c := by
          rcases List.mem_cons.1 hc' with rfl | hr
          · rfl
          · exact absurd (List.mem_map.2 ⟨c', hr, e⟩) hn.1
        subst this
        obtain ⟨c'', hc'', e'', _⟩ := h a haS
        exact ht.1 a ha (List.mem_map.2 ⟨c'', hc'', e''⟩)
      apply topo_no_closed S rest hn.2 ht.2
      intro k hk
      obtain ⟨c', hc', e, r⟩ := h k hk
      rcases List.mem_cons.1 hc' with rfl | hr
      · exact absurd (e ▸ hk) hc
      · exact ⟨c', hr, e, r⟩

theorem exists_topo_of_acyclic : ∀ (n : Nat) (cs : List (String × Fn V)), cs.length ≤ n →
    Acyclic cs → ∃ ts, ts.Perm cs ∧ Topo ts := by
  intro n
  induction n with
  | zero =>
    intro cs hl _
    have : cs = [] := List.eq_nil_of_length_eq_zero (by omega)
    exact ⟨[], by simp [this], trivial⟩
  | succ n ih =>
    intro cs hl hac
    cases hcs : cs with
    | nil => exact ⟨[], List.Perm.refl _, trivial⟩
    | cons c0 cs0 =>
      rw [← hcs]
      have hE : (cs.filter (independent (cs.map (·.1)))).isEmpty = false := by
        cases h : cs.filter (independent (cs.map (·.1))) with
        | cons _ _ => rfl
        | nil =>
          exact absurd (closed_keys_of_stuck cs h) (hac _ (by simp [hcs]))
      have hlt := length_rest_lt cs hE
      obtain ⟨ts', hp', ht'⟩ := ih (cs.filter fun c => !independent (cs.map (·.1)) c) (by omega)
        (fun S hS hcl => hac S hS (hcl.mono fun c hc => (List.mem_filter.1 hc).1))
      have hperm : (cs.filter (independent (cs.map (·.1))) ++ ts').Perm cs :=
        (List.Perm.append_left _ hp').trans (List.filter_append_perm _ cs)
      refine ⟨_, hperm, Topo.append ts' ht' _ ?_⟩
      intro c hc a ha hm
      have hi := (List.mem_filter.1 hc).2
      simp only [independent, List.all_eq_true, decide_eq_true_eq] at hi
      exact hi a ha ((hperm.map (·.1)).mem_iff.1 hm)

/-- acyclic without self-loops = the definitions can be put in dependency order -/
theorem acyclic_iff_exists_topo (cs : List (String × Fn V)) (hn : (cs.map (·.1)).Nodup) :
    Acyclic cs ↔ ∃ ts, ts.Perm cs ∧ Topo ts := by
  constructor
  · exact exists_topo_of_acyclic cs.length cs (Nat.le_refl _)
  · rintro ⟨ts, hp, ht⟩ S hS hcl
    exact hS (topo_no_closed S ts ((hp.map _).nodup_iff.2 hn) ht
      (hcl.mono fun c hc => hp.mem_iff.2 hc))

theorem loop_err : ∀ (fuel : Nat) (res : Env V) (cs : List (String × Fn V)) (e : Err),
    loop fuel res cs = .error e → e = .value ∨ e = .type := by
  intro fuel
  induction fuel with
  | zero => intro res cs e h; exact Or.inr (evalAll_err cs res e h)
  | succ fuel ih =>
    intro res cs e h
    simp only [loop] at h
    split at h
    · exact Or.inr (evalAll_err cs res e h)
    · split at h
      · cases h; exact Or.inl rfl
      · cases hr : evalAll res (cs.filter (independent (cs.map (·.1)))) with
        | error e' => rw [hr] at h; cases h; exact Or.inr (evalAll_err _ res _ hr)
        | ok r => rw [hr] at h; exact ih r _ e h

theorem two_keys_of_length {cs : List (String × Fn V)} (hn : (cs.map (·.1)).Nodup)
    (h2 : ¬ cs.length ≤ 1) : ∃ a b, a ∈ cs.map (·.1) ∧ b ∈ cs.map (·.1) ∧ a ≠ b := by
  match cs, hn, h2 with
  | [], _, h2 => simp at h2
  | [_], _, h2 => simp at h2
  | c :: c' :: _, hn, _ =>
    refine ⟨c.1, c'.1, by simp, by simp, ?_⟩
    simp only [List.map_cons, List.nodup_cons, List.mem_cons, not_or] at hn
    exact hn.1.1

/-- `ValueError` is raised only for a circular definition: some set of at least two pending keys is
closed under "reads a member of the set" -/
theorem loop_value_closed : ∀ (fuel : Nat) (res : Env V) (cs : List (String × Fn V)),
    (cs.map (·.1)).Nodup → loop fuel res cs = .error .value →
    ∃ (S : List String) (a b : String), a ∈ S ∧ b ∈ S ∧ a ≠ b ∧ Closed S cs := by
  intro fuel
  induction fuel with
  | zero => intro res cs _ h; cases evalAll_err cs res _ h
  | succ fuel ih =>
    intro res cs hn h
    simp only [loop] at h
    split at h
    · cases evalAll_err cs res _ h
    · rename_i h2
      split at h
      · rename_i hE
        obtain ⟨a, b, ha, hb, hab⟩ := two_keys_of_length hn h2
        exact ⟨_, a, b, ha, hb, hab, closed_keys_of_stuck cs (List.isEmpty_iff.1 hE)⟩
      · cases hr : evalAll res (cs.filter (independent (cs.map (·.1)))) with
        | error e' => rw [hr] at h; cases h; cases evalAll_err _ res _ hr
        | ok r =>
          rw [hr] at h
          obtain ⟨S, a, b, ha, hb, hab, hcl⟩ := ih r _ (nodup_keys_filter _ cs hn) h
          exact ⟨S, a, b, ha, hb, hab, hcl.mono fun c hc => (List.mem_filter.1 hc).1⟩

/-- every declared argument is a pending key other than the callable's own, or a key of the mapping -/
def WellScoped (res : Env V) (cs : List (String × Fn V)) : Prop :=
  ∀ c ∈ cs, ∀ a ∈ c.2.args, (a ∈ cs.map (·.1) ∧ a ≠ c.1) ∨ lookup a res ≠ none

theorem evalAll_ok_of_present : ∀ (xs : List (String × Fn V)) (res : Env V),
    (∀ c ∈ xs, ∀ a ∈ c.2.args, lookup a res ≠ none) →
    ∃ r, evalAll res xs = .ok r ∧ (∀ k, lookup k res ≠ none → lookup k r ≠ none) ∧
      ∀ c ∈ xs, lookup c.1 r ≠ none
  | [], res, _ => ⟨res, rfl, fun _ h => h, fun c hc => by simp at hc⟩
  | (k, f) :: xs, res, h => by
      cases hv : apply res f with
      | error e =>
        obtain ⟨_, a, ha, hl⟩ := (apply_error_iff res f e).1 hv
        exact absurd hl (h (k, f) (by simp) a ha)
      | ok v =>
        have hmono : ∀ j, lookup j res ≠ none → lookup j (set k v res) ≠ none := by
          intro j hj; rw [lookup_set]; split <;> simp [hj]
        obtain ⟨r, hr, hk, hd⟩ := evalAll_ok_of_present xs (set k v res)
          fun c hc a ha => hmono a (h c (by simp [hc]) a ha)
        refine ⟨r, by rw [evalAll_cons, hv]; exact hr, fun j hj => hk j (hmono j hj), ?_⟩
        intro c hc
        rcases List.mem_cons.1 hc with rfl | hc
        · exact hk _ (by rw [lookup_set]; simp)
        · exact hd c hc

/-- with every declared argument in scope no round raises `TypeError` -/
theorem loop_no_type_error : ∀ (fuel : Nat) (res : Env V) (cs : List (String × Fn V)),
    cs.length ≤ fuel → WellScoped res cs → loop fuel res cs ≠ .error .type := by
  intro fuel
  induction fuel with
  | zero =>
    intro res cs hl _
    have : cs = [] := List.eq_nil_of_length_eq_zero (by omega)
    subst this
    simp [loop, evalAll, pure, Except.pure]
  | succ fuel ih =>
    intro res cs hl hw
    simp only [loop]
    split
    · rename_i h1
      match cs, h1, hw with
      | [], _, _ => simp [evalAll, pure, Except.pure]
      | [c], _, hw =>
        obtain ⟨r, hr, _⟩ := evalAll_ok_of_present [c] res (by
          intro c' hc' a ha
          rw [List.mem_singleton] at hc'
          subst hc'
          rcases hw c' (by simp) a ha with ⟨hm, hne⟩ | hp
          · simp at hm; exact absurd hm hne
          · exact hp)
        rw [hr]; simp
      | _ :: _ :: _, h1, _ => simp at h1
    · split
      · intro h; cases h
      · rename_i hE
        obtain ⟨r, hr, hk, hd⟩ := evalAll_ok_of_present
          (cs.filter (independent (cs.map (·.1)))) res (by
            intro c hc a ha
            obtain ⟨hc, hi⟩ := List.mem_filter.1 hc
            simp only [independent, List.all_eq_true, decide_eq_true_eq] at hi
            rcases hw c hc a ha with ⟨hm, _⟩ | hp
            · exact absurd hm (hi a ha)
            · exact hp)
        rw [hr]
        apply ih r _
        · have := length_rest_lt cs (by simpa using hE); omega
        · intro c hc a ha
          have hc0 := (List.mem_filter.1 hc).1
          rcases hw c hc0 a ha with ⟨hm, hne⟩ | hp
          · obtain ⟨c', hc', e⟩ := List.mem_map.1 hm
            by_cases hi : independent (cs.map (·.1)) c' = true
            · right; rw [← e]; exact hd c' (List.mem_filter.2 ⟨hc', hi⟩)
            · left
              exact ⟨List.mem_map.2 ⟨c', List.mem_filter.2 ⟨hc', by simpa using hi⟩, e⟩, hne⟩
          · exact Or.inr (hk a hp)

/-- insertion order of an association list with distinct keys does not matter to `lookup` -/
theorem lookup_eq_some_iff_mem (k : String) (v : V) : ∀ l : List (String × V), (l.map (·.1)).Nodup →
    (lookup k l = some v ↔ (k, v) ∈ l)
  | [], _ => by simp [lookup]
  | (j, w) :: l, hn => by
      simp only [List.map_cons, List.nodup_cons] at hn
      simp only [lookup, List.mem_cons, Prod.mk.injEq]
      by_cases hk : k = j
      · subst hk
        simp only [if_true, Option.some.injEq, true_and]
        constructor
        · intro e; exact Or.inl e.symm
        · rintro (e | hm)
          · exact e.symm
          · exact absurd (List.mem_map.2 ⟨(k, v), hm, rfl⟩) hn.1
      · simp only [hk, if_false, false_and, false_or]
        exact lookup_eq_some_iff_mem k v l hn.2

theorem lookup_perm (k : String) {l l' : List (String × V)} (hn : (l.map (·.1)).Nodup)
    (hp : l.Perm l') : lookup k l = lookup k l' := by
  have hn' : (l'.map (·.1)).Nodup := (hp.map _).nodup_iff.1 hn
  cases h : lookup k l' with
  | some v =>
    exact (lookup_eq_some_iff_mem k v l hn).2 (hp.mem_iff.2 ((lookup_eq_some_iff_mem k v l' hn').1 h))
  | none =>
    cases h' : lookup k l with
    | none => rfl
    | some v =>
      have := (lookup_eq_some_iff_mem k v l' hn').2 (hp.mem_iff.1 ((lookup_eq_some_iff_mem k v l hn).1 h'))
      rw [h] at this; cases this

/-- `res.update(consts)` does not depend on the order of the (distinct) keywords -/
theorem setAll_perm (d : Env V) {consts consts' : Env V} (hn : (consts.map (·.1)).Nodup)
    (hp : consts.Perm consts') : EnvEq (setAll d consts) (setAll d consts') := by
  intro k
  rw [lookup_setAll, lookup_setAll,
    lookup_perm k (((List.reverse_perm consts).map _).nodup_iff.2 hn)
      (((List.reverse_perm consts).trans hp).trans (List.reverse_perm consts').symm)]

end Pyg.DictCall
