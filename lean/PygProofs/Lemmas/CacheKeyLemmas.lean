import PygModel.Cache
import PygModel.Eq
import PygProofs.Lemmas.EqDictLemmas
import PygProofs.Lemmas.CacheLemmas

/-!
  C18, cache: an INDEPENDENT definition of "the same combination of arguments" — python's `==` on the
  arguments, stated through observations (length, element at an index, value under a key), not through the
  library's `_prehash` — and the proof that the cache key of the (repaired) code identifies exactly the
  python-equal calls (`normKey_eq_iff`).
-/
namespace Pyg

/-- the numeric value (in quarters) of a python number: `True == 1 == 1.0` -/
def cacheNum : Cell → Option Int
  | .bool b => some (if b then 4 else 0)
  | .int n => some (4 * n)
  | .flt q => some q
  | _ => Option.none

/-- python `==` on scalars: numbers by value, anything else only with itself.  (The model has no object
identity: a `nan` cell stands for ONE NaN object, which a python dict finds again by identity.) -/
def CacheCellSame (a b : Cell) : Prop :=
  match cacheNum a, cacheNum b with
  | some x, some y => x = y
  | Option.none, Option.none => a = b
  | _, _ => False

/-- python `==` on nested values: a list equals a list, a tuple a tuple (same length, equal elements), a dict a
dict (same keys, equal values under every key — the order of insertion is irrelevant); values of different
container types are different. -/
inductive SameVal : Val → Val → Prop
  | cell {a b : Cell} : CacheCellSame a b → SameVal (.cell a) (.cell b)
  | list {xs ys : List Val} : xs.length = ys.length →
      (∀ (i : Nat) (x y : Val), xs[i]? = some x → ys[i]? = some y → SameVal x y) → SameVal (.list xs) (.list ys)
  | tuple {xs ys : List Val} : xs.length = ys.length →
      (∀ (i : Nat) (x y : Val), xs[i]? = some x → ys[i]? = some y → SameVal x y) → SameVal (.tuple xs) (.tuple ys)
  | dict {a b : List (String × Val)} : (∀ k, (a.lookup k).isSome = (b.lookup k).isSome) →
      (∀ (k : String) (v w : Val), a.lookup k = some v → b.lookup k = some w → SameVal v w) → SameVal (.dict a) (.dict b)

mutual
  /-- every dict inside the value has distinct keys (as every python dict has) -/
  def Val.keysOk : Val → Bool
    | .cell _ => true
    | .list xs => keysOkList xs
    | .tuple xs => keysOkList xs
    | .dict kvs => decide ((kvs.map (·.1)).Nodup) && keysOkKVs kvs
  def keysOkList : List Val → Bool
    | [] => true
    | x :: xs => x.keysOk && keysOkList xs
  def keysOkKVs : List (String × Val) → Bool
    | [] => true
    | (_, v) :: kvs => v.keysOk && keysOkKVs kvs
end

theorem cacheKeysOkList_mem : ∀ {xs : List Val}, keysOkList xs = true → ∀ x ∈ xs, x.keysOk = true
  | [], _, x, hx => by simp at hx
  | y :: ys, h, x, hx => by
      simp only [keysOkList, Bool.and_eq_true] at h
      rcases List.mem_cons.1 hx with rfl | hx
      · exact h.1
      · exact cacheKeysOkList_mem h.2 x hx

theorem keysOkKVs_mem' : ∀ {xs : List (String × Val)}, keysOkKVs xs = true → ∀ p ∈ xs, p.2.keysOk = true
  | [], _, x, hx => by simp at hx
  | (k, v) :: ys, h, x, hx => by
      simp only [keysOkKVs, Bool.and_eq_true] at h
      rcases List.mem_cons.1 hx with rfl | hx
      · exact h.1
      · exact keysOkKVs_mem' h.2 x hx

/-! ### the normalisation as maps -/

theorem normKeyList_eq_map : ∀ xs : List Val, normKeyList xs = xs.map normKey
  | [] => rfl
  | x :: xs => by simp [normKeyList, normKeyList_eq_map xs]

theorem normKeyKVs_eq_map : ∀ kvs : List (String × Val), normKeyKVs kvs = kvs.map fun p => (p.1, normKey p.2)
  | [] => rfl
  | (k, v) :: kvs => by simp [normKeyKVs, normKeyKVs_eq_map kvs]

theorem keys_normKeyKVs (kvs : List (String × Val)) : (normKeyKVs kvs).map (·.1) = kvs.map (·.1) := by
  rw [normKeyKVs_eq_map]; simp [List.map_map, Function.comp_def]

theorem lookup_normKeyKVs (k : String) : ∀ kvs : List (String × Val),
    (normKeyKVs kvs).lookup k = (kvs.lookup k).map normKey
  | [] => rfl
  | (j, v) :: kvs => by
      simp only [normKeyKVs, List.lookup_cons]
      cases k == j <;> simp [lookup_normKeyKVs k kvs]

theorem insertKV_eq (kv : String × Val) : ∀ l, insertKV kv l = EqM.insertK kv l
  | [] => rfl
  | h :: t => by simp [insertKV, EqM.insertK, insertKV_eq kv t]

theorem sortKV_eq : ∀ l : List (String × Val), sortKV l = EqM.sortK l
  | [] => rfl
  | h :: t => by simp [sortKV, EqM.sortK, sortKV_eq t, insertKV_eq]

/-! ### association lists with distinct keys -/

theorem lookup_eq_some_iff_mem (k : String) (v : Val) : ∀ (l : List (String × Val)), (l.map (·.1)).Nodup →
    (l.lookup k = some v ↔ (k, v) ∈ l)
  | [], _ => by simp
  | (j, w) :: l, hn => by
      simp only [List.map_cons, List.nodup_cons] at hn
      simp only [List.lookup_cons, List.mem_cons, Prod.mk.injEq]
      by_cases e : k = j
      · subst e
        simp only [beq_self_eq_true, Option.some.injEq, true_and]
        constructor
        · intro h; exact Or.inl h.symm
        · rintro (h | h)
          · exact h.symm
          · exact absurd (List.mem_map.2 ⟨(k, v), h, rfl⟩) hn.1
      · have : (k == j) = false := by simpa using e
        simp only [this, e, false_and, false_or]
        exact lookup_eq_some_iff_mem k v l hn.2

theorem nodup_of_keys_nodup {l : List (String × Val)} (h : (l.map (·.1)).Nodup) : l.Nodup :=
  List.Pairwise.of_map (·.1) (fun _ _ hne e => hne (e ▸ rfl)) h

/-- two association lists with distinct keys that answer every lookup alike have the same key-sorted form -/
theorem sortK_eq_of_lookup_eq (A B : List (String × Val)) (hA : (A.map (·.1)).Nodup) (hB : (B.map (·.1)).Nodup)
    (h : ∀ k, A.lookup k = B.lookup k) : EqM.sortK A = EqM.sortK B := by
  have hmem : ∀ p, p ∈ A ↔ p ∈ B := by
    intro ⟨k, v⟩
    rw [← lookup_eq_some_iff_mem k v A hA, ← lookup_eq_some_iff_mem k v B hB, h k]
  have hperm : A.Perm B := (List.perm_ext_iff_of_nodup (nodup_of_keys_nodup hA) (nodup_of_keys_nodup hB)).2 hmem
  have hp' : (EqM.sortK A).Perm (EqM.sortK B) :=
    ((EqM.sortK_perm A).trans hperm).trans (EqM.sortK_perm B).symm
  refine List.Perm.eq_of_pairwise (le := fun (a b : String × Val) => a.1 ≤ b.1) ?_
    (EqM.sortK_pairwise A) (EqM.sortK_pairwise B) hp'
  intro a b ha hb h1 h2
  have hk : a.1 = b.1 := String.le_antisymm h1 h2
  have haB : a ∈ B := (hmem a).1 ((EqM.mem_sortK a A).1 ha)
  have hbB : b ∈ B := (EqM.mem_sortK b B).1 hb
  have h3 := (lookup_eq_some_iff_mem a.1 a.2 B hB).2 haB
  have h4 := (lookup_eq_some_iff_mem b.1 b.2 B hB).2 hbB
  rw [hk, h4] at h3
  cases a; cases b
  simp only at hk h3
  subst hk
  cases h3
  rfl

/-- … and conversely -/
theorem lookup_eq_of_sortK_eq (A B : List (String × Val)) (hA : (A.map (·.1)).Nodup) (hB : (B.map (·.1)).Nodup)
    (h : EqM.sortK A = EqM.sortK B) (k : String) : A.lookup k = B.lookup k := by
  have hmem : ∀ p, p ∈ A ↔ p ∈ B := by
    intro p
    rw [← EqM.mem_sortK p A, h, EqM.mem_sortK p B]
  cases hl : A.lookup k with
  | some v =>
    have := (hmem (k, v)).1 ((lookup_eq_some_iff_mem k v A hA).1 hl)
    exact ((lookup_eq_some_iff_mem k v B hB).2 this).symm
  | none =>
    cases hr : B.lookup k with
    | none => rfl
    | some w =>
      have := (hmem (k, w)).2 ((lookup_eq_some_iff_mem k w B hB).1 hr)
      rw [(lookup_eq_some_iff_mem k w A hA).2 this] at hl
      cases hl

/-! ### scalars -/

theorem normCell_eq_iff (a b : Cell) : normCell a = normCell b ↔ CacheCellSame a b := by
  cases a <;> cases b <;> simp [normCell, CacheCellSame, cacheNum] <;> (try split) <;> (try split) <;> omega

/-! ### the key identifies exactly the python-equal values -/

theorem lookup_mem_sizeOf {k : String} {v : Val} {l : List (String × Val)} (h : l.lookup k = some v) :
    sizeOf v < sizeOf l := by
  induction l with
  | nil => simp at h
  | cons p l ih =>
    obtain ⟨j, w⟩ := p
    simp only [List.lookup_cons] at h
    cases e : k == j
    · rw [e] at h
      have := ih h
      simp only [List.cons.sizeOf_spec]
      omega
    · rw [e] at h
      cases h
      simp only [List.cons.sizeOf_spec, Prod.mk.sizeOf_spec]
      omega

theorem lookup_mem_pair {k : String} {v : Val} {l : List (String × Val)} (h : l.lookup k = some v) :
    ∃ p ∈ l, p.2 = v := by
  induction l with
  | nil => simp at h
  | cons p l ih =>
    obtain ⟨j, w⟩ := p
    simp only [List.lookup_cons] at h
    cases e : k == j
    · rw [e] at h
      obtain ⟨p, hp, hv⟩ := ih h
      exact ⟨p, by simp [hp], hv⟩
    · rw [e] at h
      cases h
      exact ⟨(j, v), by simp, rfl⟩

theorem getElem?_sizeOf {xs : List Val} {i : Nat} {x : Val} (h : xs[i]? = some x) : sizeOf x < sizeOf xs :=
  List.sizeOf_lt_of_mem (List.mem_of_getElem? h)

theorem pyEq_of_normKey_eq : ∀ (n : Nat) (a b : Val), sizeOf a ≤ n → a.keysOk = true → b.keysOk = true →
    normKey a = normKey b → SameVal a b
  | 0, a, _, hn, _, _, _ => by cases a <;> simp at hn <;> omega
  | n + 1, .cell a, .cell b, _, _, _, h => by
      simp only [normKey, Val.cell.injEq] at h
      exact .cell ((normCell_eq_iff a b).1 h)
  | n + 1, .list xs, .list ys, hn, ha, hb, h => by
      simp only [normKey, Val.list.injEq, normKeyList_eq_map] at h
      simp only [Val.keysOk] at ha hb
      refine .list (by simpa using congrArg List.length h) fun i x y hx hy => ?_
      have hi := congrArg (·[i]?) h
      simp only [List.getElem?_map, hx, hy, Option.map_some, Option.some.injEq] at hi
      have hs := getElem?_sizeOf hx
      simp only [Val.list.sizeOf_spec] at hn
      exact pyEq_of_normKey_eq n x y (by omega) (cacheKeysOkList_mem ha x (List.mem_of_getElem? hx))
        (cacheKeysOkList_mem hb y (List.mem_of_getElem? hy)) hi
  | n + 1, .tuple xs, .tuple ys, hn, ha, hb, h => by
      simp only [normKey, Val.tuple.injEq, normKeyList_eq_map] at h
      simp only [Val.keysOk] at ha hb
      refine .tuple (by simpa using congrArg List.length h) fun i x y hx hy => ?_
      have hi := congrArg (·[i]?) h
      simp only [List.getElem?_map, hx, hy, Option.map_some, Option.some.injEq] at hi
      have hs := getElem?_sizeOf hx
      simp only [Val.tuple.sizeOf_spec] at hn
      exact pyEq_of_normKey_eq n x y (by omega) (cacheKeysOkList_mem ha x (List.mem_of_getElem? hx))
        (cacheKeysOkList_mem hb y (List.mem_of_getElem? hy)) hi
  | n + 1, .dict a, .dict b, hn, ha, hb, h => by
      simp only [normKey, Val.dict.injEq, sortKV_eq] at h
      simp only [Val.keysOk, Bool.and_eq_true, decide_eq_true_eq] at ha hb
      have hl := lookup_eq_of_sortK_eq _ _ (by rw [keys_normKeyKVs]; exact ha.1)
        (by rw [keys_normKeyKVs]; exact hb.1) h
      simp only [lookup_normKeyKVs] at hl
      refine .dict (fun k => by simpa using congrArg Option.isSome (hl k)) fun k v w hv hw => ?_
      have hk := hl k
      simp only [hv, hw, Option.map_some, Option.some.injEq] at hk
      have hs := lookup_mem_sizeOf hv
      simp only [Val.dict.sizeOf_spec] at hn
      obtain ⟨p, hp, hpv⟩ := lookup_mem_pair hv
      obtain ⟨q, hq, hqw⟩ := lookup_mem_pair hw
      exact pyEq_of_normKey_eq n v w (by omega) (hpv ▸ keysOkKVs_mem' ha.2 p hp)
        (hqw ▸ keysOkKVs_mem' hb.2 q hq) hk
  | n + 1, .cell _, .list _, _, _, _, h | n + 1, .cell _, .tuple _, _, _, _, h
  | n + 1, .cell _, .dict _, _, _, _, h | n + 1, .list _, .cell _, _, _, _, h
  | n + 1, .list _, .tuple _, _, _, _, h | n + 1, .list _, .dict _, _, _, _, h
  | n + 1, .tuple _, .cell _, _, _, _, h | n + 1, .tuple _, .list _, _, _, _, h
  | n + 1, .tuple _, .dict _, _, _, _, h | n + 1, .dict _, .cell _, _, _, _, h
  | n + 1, .dict _, .list _, _, _, _, h | n + 1, .dict _, .tuple _, _, _, _, h => by
      simp [normKey] at h

theorem normKey_eq_of_pyEq {a b : Val} (h : SameVal a b) : a.keysOk = true → b.keysOk = true →
    normKey a = normKey b := by
  induction h with
  | cell h => intro _ _; simp only [normKey, (normCell_eq_iff _ _).2 h]
  | @list xs ys hl _ ih =>
    intro ha hb
    simp only [Val.keysOk] at ha hb
    simp only [normKey, Val.list.injEq, normKeyList_eq_map]
    apply List.ext_getElem?
    intro i
    simp only [List.getElem?_map]
    cases hx : xs[i]? with
    | none =>
      have : ys[i]? = none := by
        rw [List.getElem?_eq_none_iff] at hx ⊢; omega
      simp [this]
    | some x =>
      have hi : i < ys.length := by
        have := (List.getElem?_eq_some_iff.1 hx).1; omega
      have hy : ys[i]? = some ys[i] := List.getElem?_eq_getElem hi
      rw [hy]
      simp only [Option.map_some, Option.some.injEq]
      exact ih i x ys[i] hx hy (cacheKeysOkList_mem ha x (List.mem_of_getElem? hx))
        (cacheKeysOkList_mem hb _ (List.mem_of_getElem? hy))
  | @tuple xs ys hl _ ih =>
    intro ha hb
    simp only [Val.keysOk] at ha hb
    simp only [normKey, Val.tuple.injEq, normKeyList_eq_map]
    apply List.ext_getElem?
    intro i
    simp only [List.getElem?_map]
    cases hx : xs[i]? with
    | none =>
      have : ys[i]? = none := by
        rw [List.getElem?_eq_none_iff] at hx ⊢; omega
      simp [this]
    | some x =>
      have hi : i < ys.length := by
        have := (List.getElem?_eq_some_iff.1 hx).1; omega
      have hy : ys[i]? = some ys[i] := List.getElem?_eq_getElem hi
      rw [hy]
      simp only [Option.map_some, Option.some.injEq]
      exact ih i x ys[i] hx hy (cacheKeysOkList_mem ha x (List.mem_of_getElem? hx))
        (cacheKeysOkList_mem hb _ (List.mem_of_getElem? hy))
  | @dict a b hs _ ih =>
    intro ha hb
    simp only [Val.keysOk, Bool.and_eq_true, decide_eq_true_eq] at ha hb
    simp only [normKey, Val.dict.injEq, sortKV_eq]
    apply sortK_eq_of_lookup_eq _ _ (by rw [keys_normKeyKVs]; exact ha.1) (by rw [keys_normKeyKVs]; exact hb.1)
    intro k
    simp only [lookup_normKeyKVs]
    cases hv : a.lookup k with
    | none =>
      have := hs k
      rw [hv] at this
      cases hw : b.lookup k with
      | none => rfl
      | some w => rw [hw] at this; simp at this
    | some v =>
      have := hs k
      rw [hv] at this
      cases hw : b.lookup k with
      | none => rw [hw] at this; simp at this
      | some w =>
        obtain ⟨p, hp, hpv⟩ := lookup_mem_pair hv
        obtain ⟨q, hq, hqw⟩ := lookup_mem_pair hw
        simp only [Option.map_some, Option.some.injEq]
        exact ih k v w hv hw (hpv ▸ keysOkKVs_mem' ha.2 p hp) (hqw ▸ keysOkKVs_mem' hb.2 q hq)

/-- **the cache key identifies exactly the python-equal values** -/
theorem normKey_eq_iff (a b : Val) (ha : a.keysOk = true) (hb : b.keysOk = true) :
    normKey a = normKey b ↔ SameVal a b :=
  ⟨pyEq_of_normKey_eq (sizeOf a) a b (Nat.le_refl _) ha hb, fun h => normKey_eq_of_pyEq h ha hb⟩

end Pyg
