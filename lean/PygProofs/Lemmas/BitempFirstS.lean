/-
  Helper lemmas for C17 (g4): the string selector `what='first'` against the publication log.
-/
import PygModel.Bitemp
import PygProofs.Lemmas.BitempLemmas
import PygProofs.Lemmas.BitempInv

namespace Pyg.Bitemp
open List

/-- what `what='first'` must return for one date: nothing non-NaN published -> NaN; otherwise the fold of the publications stamped
    no later than the first non-NaN publication (with distinct stamps: the first non-NaN value published) -/
def firstNonNanSpec (L : Store) : Option Int :=
  match L.find? (·.val.isSome) with
  | Option.none => Option.none
  | some r => lastVal (L.filter fun q => decide (q.stamp ≤ r.stamp))

theorem find_none_lastVal {X : Store} (h : X.find? (·.val.isSome) = Option.none) : lastVal X = Option.none := by
  rw [lastVal_eq_none_iff]
  intro r hr
  have := List.find?_eq_none.mp h r hr
  cases hv : r.val <;> simp_all

theorem lastVal_ne_none_of_mem {X : Store} {r : Row} (hr : r ∈ X) (hv : r.val.isSome) : lastVal X ≠ Option.none := by
  intro h
  have := (lastVal_eq_none_iff X).mp h r hr
  rw [this] at hv; simp at hv

/-- in a column in stamp order whose first non-NaN row is `r`: a cut sees a value iff it reaches `r` -/
theorem cut_sees_value_iff {X : Store} (hs : SortedLe X) {r : Row} (hf : X.find? (·.val.isSome) = some r) (s : Int) :
    lastVal (X.filter fun q => decide (q.stamp ≤ s)) ≠ Option.none ↔ r.stamp ≤ s := by
  obtain ⟨hrv, A, B, rfl, hA⟩ := List.find?_eq_some_iff_append.mp hf
  constructor
  · intro h
    by_cases hle : r.stamp ≤ s
    · exact hle
    · exfalso
      apply h
      rw [lastVal_eq_none_iff]
      intro q hq
      obtain ⟨hq1, hq2⟩ := List.mem_filter.mp hq
      simp only [decide_eq_true_eq] at hq2
      rcases List.mem_append.mp hq1 with hqa | hqb
      · have := hA q hqa
        cases hv : q.val <;> simp_all
      · exfalso
        have : r.stamp ≤ q.stamp := by
          rcases List.mem_cons.mp hqb with rfl | hqb
          · omega
          · exact List.rel_of_pairwise_cons (List.pairwise_append.mp hs).2.1 hqb
        omega
  · intro hle
    exact lastVal_ne_none_of_mem (r := r) (List.mem_filter.mpr ⟨by simp, by simpa using hle⟩) hrv

theorem firstNonNan_eq_of_find {X : Store} {r : Row} (hf : X.find? (·.val.isSome) = some r) : firstNonNan X = r.val := by
  simp [firstNonNan, hf]

/-- column level: a store column (strictly increasing stamps) and a log column (stamps in order) that fold alike at every stamp
    cut have the same `'first'` value -/
theorem firstNonNan_congr (c L : Store) (hc : SortedLt c) (hL : SortedLe L)
    (h : ∀ p, Down p → accVal Option.none (c.filter p) = accVal Option.none (L.filter p)) :
    firstNonNan c = firstNonNanSpec L := by
  have hcut : ∀ s, lastVal (c.filter fun q => decide (q.stamp ≤ s)) = lastVal (L.filter fun q => decide (q.stamp ≤ s)) := by
    intro s; rw [lastVal_eq_getD, lastVal_eq_getD, h _ (down_le s)]
  have hall : lastVal c = lastVal L := by
    have htrue : Down (fun _ => true) := fun _ _ _ _ => rfl
    have ft : ∀ l : Store, l.filter (fun _ => true) = l := by intro l; simp
    have := h _ htrue
    rw [ft, ft] at this
    rw [lastVal_eq_getD, lastVal_eq_getD, this]
  unfold firstNonNanSpec
  cases hfc : c.find? (·.val.isSome) with
  | none =>
    have hn : lastVal L = Option.none := by rw [← hall]; exact find_none_lastVal hfc
    cases hfL : L.find? (·.val.isSome) with
    | none => simp [firstNonNan, hfc]
    | some r =>
      exfalso
      have := List.find?_some hfL
      exact lastVal_ne_none_of_mem (List.mem_of_find?_eq_some hfL) this hn
  | some r' =>
    have hr'm : r' ∈ c := List.mem_of_find?_eq_some hfc
    have hr'v := List.find?_some hfc
    cases hfL : L.find? (·.val.isSome) with
    | none =>
      exfalso
      have hn : lastVal c = Option.none := by rw [hall]; exact find_none_lastVal hfL
      exact lastVal_ne_none_of_mem hr'm hr'v hn
    | some r =>
      simp only
      have e : r'.stamp = r.stamp := by
        apply Int.le_antisymm
        · rw [← cut_sees_value_iff hc.le hfc, hcut, cut_sees_value_iff hL hfL]; exact Int.le_refl _
        · rw [← cut_sees_value_iff hL hfL, ← hcut, cut_sees_value_iff hc.le hfc]; exact Int.le_refl _
      rw [firstNonNan_eq_of_find hfc, ← e, ← hcut]
      obtain ⟨A, hA⟩ := filter_le_of_mem c hc r' hr'm
      rw [hA, lastVal_snoc]
      cases hv : r'.val with
      | none => rw [hv] at hr'v; simp at hr'v
      | some x => rfl

/-- what `bi_read(..., what='first')` must return, on published rows -/
def specFirstS (rows : Store) (asof : Option Int) : TS :=
  (dates (rows.filter (vis asof))).map fun d => (d, firstNonNanSpec ((group d rows).filter (vis asof)))

theorem biReadS_first (st : Store) (hs : ∀ d, SortedLe (group d st)) (asof : Option Int) :
    biReadS st asof .first = (dates (st.filter (vis asof))).map fun d => (d, firstNonNan ((group d st).filter (vis asof))) := by
  rw [biReadS_eq, dates_sortStamp]
  apply List.map_congr_left
  intro d _
  rw [group_sortStamp, group_filter, sortStamp_of_sorted ((hs d).sublist List.filter_sublist)]
  rfl

theorem firstS_congr {a b : Store} (h : SpecEq a b) (ha : ∀ d, SortedLt (group d a)) (hb : ∀ d, SortedLe (group d b))
    (asof : Option Int) :
    ((dates (a.filter (vis asof))).map fun d => (d, firstNonNan ((group d a).filter (vis asof)))) = specFirstS b asof := by
  unfold specFirstS
  have hd : dates (a.filter (vis asof)) = dates (b.filter (vis asof)) := by
    apply dates_congr
    intro d
    rw [← group_ne_nil, ← group_ne_nil, group_filter, group_filter, Ne, Ne, ← accVal_eq_none, ← accVal_eq_none,
      h d _ (vis_down asof)]
  rw [hd]
  apply List.map_congr_left
  intro d _
  congr 1
  apply firstNonNan_congr _ _ ((ha d).sublist List.filter_sublist) ((hb d).sublist List.filter_sublist)
  intro p hp
  rw [List.filter_filter, List.filter_filter]
  apply h d
  intro r r' hrr hr
  simp only [Bool.and_eq_true] at hr ⊢
  exact ⟨hp r r' hrr hr.1, vis_down asof r r' hrr hr.2⟩

/-- with pairwise distinct stamps the specification is literally "the first non-NaN value published" -/
theorem firstNonNanSpec_sortedLt (L : Store) (h : SortedLt L) : firstNonNanSpec L = firstNonNan L := by
  unfold firstNonNanSpec
  cases hf : L.find? (·.val.isSome) with
  | none => simp [firstNonNan, hf]
  | some r =>
    simp only
    obtain ⟨A, hA⟩ := filter_le_of_mem L h r (List.mem_of_find?_eq_some hf)
    rw [hA, lastVal_snoc, firstNonNan_eq_of_find hf]
    have := List.find?_some hf
    cases hv : r.val with
    | none => rw [hv] at this; simp at this
    | some x => rfl

end Pyg.Bitemp
