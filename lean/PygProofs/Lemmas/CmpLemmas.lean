import PygModel.Cmp
import PygProofs.Lemmas.Tri

namespace Pyg

theorem swap_compare {α} [Ord α] [Std.OrientedOrd α] (x y : α) :
    compare x y = (compare y x).swap := Std.OrientedOrd.eq_swap

theorem Cell.cmp_swap (a b : Cell) : Cell.cmp a b = (Cell.cmp b a).swap := by
  simp only [Cell.cmp, Cell.cmpSame, Ordering.swap_then]
  rw [swap_compare a.rank, swap_compare a.num.1, swap_compare a.num.2, swap_compare a.skey]

theorem Cell.cmp_tri (a b c : Cell) : tri (Cell.cmp a b) (Cell.cmp b c) (Cell.cmp a c) := by
  simp only [Cell.cmp, Cell.cmpSame]
  exact tri_then (tri_compare _ _ _) (tri_then (tri_compare _ _ _)
    (tri_then (tri_compare _ _ _) (tri_compare _ _ _)))

theorem cmpArr_eq_lexArr : ∀ xs ys, cmpArr xs ys = lexArr cmpN xs ys
  | [], [] | [], _ :: _ | _ :: _, [] => by simp [cmpArr, lexArr]
  | x :: xs, y :: ys => by simp [cmpArr, lexArr, cmpArr_eq_lexArr xs ys]

theorem cmpVals_eq_lexArr : ∀ xs ys,
    cmpVals xs ys = lexArr cmpN (xs.map (·.2)) (ys.map (·.2))
  | [], [] | [], _ :: _ | _ :: _, [] => by simp [cmpVals, lexArr]
  | x :: xs, y :: ys => by simp [cmpVals, lexArr, cmpVals_eq_lexArr xs ys]

theorem cmpKeys_eq_lexArr : ∀ xs ys,
    cmpKeys xs ys = lexArr (compare : String → String → Ordering) (xs.map (·.1)) (ys.map (·.1))
  | [], [] | [], _ :: _ | _ :: _, [] => by simp [cmpKeys, lexArr]
  | x :: xs, y :: ys => by simp [cmpKeys, lexArr, cmpKeys_eq_lexArr xs ys]

/-- every comparison starts with the type rank -/
theorem cmpN_rank (a b : Val) : cmpN a b = (compare a.rank b.rank).then (cmpN a b) := by
  cases h : compare a.rank b.rank
  · cases a <;> cases b <;> simp_all [cmpN, Val.rank, Cell.cmp]
  · simp
  · cases a <;> cases b <;> simp_all [cmpN, Val.rank, Cell.cmp]

theorem sizeOf_snd_lt {kv : String × Val} {kvs : List (String × Val)} (h : kv ∈ kvs) :
    sizeOf kv.2 < sizeOf kvs := by
  have := List.sizeOf_lt_of_mem h
  cases kv; simp at *; omega

theorem cmpN_swap_aux : ∀ n, ∀ a b : Val, sizeOf a + sizeOf b ≤ n → cmpN a b = (cmpN b a).swap := by
  intro n
  induction n with
  | zero => intro a b h; cases a <;> simp at h
  | succ n ih =>
    intro a b h
    cases a <;> cases b <;> simp only [cmpN, Val.rank, Ordering.swap_then] <;>
      try (first | exact Cell.cmp_swap _ _ | exact swap_compare _ _)
    case list.list xs ys =>
      rw [swap_compare xs.length, cmpArr_eq_lexArr, cmpArr_eq_lexArr, swap_lexArr cmpN xs ys]
      intro x hx y hy
      have := List.sizeOf_lt_of_mem hx; have := List.sizeOf_lt_of_mem hy
      simp at h; exact ih x y (by omega)
    case tuple.tuple xs ys =>
      rw [swap_compare xs.length, cmpArr_eq_lexArr, cmpArr_eq_lexArr, swap_lexArr cmpN xs ys]
      intro x hx y hy
      have := List.sizeOf_lt_of_mem hx; have := List.sizeOf_lt_of_mem hy
      simp at h; exact ih x y (by omega)
    case dict.dict xs ys =>
      rw [swap_compare xs.length, cmpKeys_eq_lexArr, cmpKeys_eq_lexArr, cmpVals_eq_lexArr,
        cmpVals_eq_lexArr, swap_lexArr cmpN (xs.map (·.2)) (ys.map (·.2)),
        swap_lexArr compare (xs.map (·.1)) (ys.map (·.1))]
      · intro x _ y _; exact swap_compare x y
      · intro x hx y hy
        obtain ⟨kx, hkx, rfl⟩ := List.mem_map.1 hx
        obtain ⟨ky, hky, rfl⟩ := List.mem_map.1 hy
        have := sizeOf_snd_lt hkx; have := sizeOf_snd_lt hky
        simp at h; exact ih _ _ (by omega)

theorem cmpN_swap (a b : Val) : cmpN a b = (cmpN b a).swap := cmpN_swap_aux _ a b (Nat.le_refl _)

theorem Cell.rank_ne (c : Cell) : c.rank ≠ 3 ∧ c.rank ≠ 5 ∧ c.rank ≠ 7 := by
  cases c <;> simp [Cell.rank]

theorem cmpN_tri_aux : ∀ n, ∀ a b c : Val, sizeOf a + sizeOf b + sizeOf c ≤ n →
    tri (cmpN a b) (cmpN b c) (cmpN a c) := by
  intro n
  induction n with
  | zero => intro a b c h; cases a <;> simp at h
  | succ n ih =>
    intro a b c h
    rw [cmpN_rank a b, cmpN_rank b c, cmpN_rank a c]
    apply tri_then' (tri_compare _ _ _)
    intro h1 h2 h3
    have e1 : a.rank = b.rank := by simpa using h1
    have e2 : b.rank = c.rank := by simpa using h2
    clear h1 h2 h3
    have hlist : ∀ xs ys zs : List Val, sizeOf xs + sizeOf ys + sizeOf zs ≤ n →
        tri ((compare xs.length ys.length).then (cmpArr xs ys))
          ((compare ys.length zs.length).then (cmpArr ys zs))
          ((compare xs.length zs.length).then (cmpArr xs zs)) := by
      intro xs ys zs hs
      apply tri_then' (tri_compare _ _ _)
      intro l1 l2 _
      rw [cmpArr_eq_lexArr, cmpArr_eq_lexArr, cmpArr_eq_lexArr]
      apply tri_lexArr cmpN xs ys zs (by simpa using l1) (by simpa using l2)
      intro x hx y hy z hz
      have := List.sizeOf_lt_of_mem hx; have := List.sizeOf_lt_of_mem hy
      have := List.sizeOf_lt_of_mem hz
      exact ih x y z (by omega)
    cases a <;> cases b <;> cases c <;> simp only [Val.rank] at e1 e2 <;>
      (try (first | (have := Cell.rank_ne ‹Cell›; omega) | omega)) <;> simp only [cmpN]
    case cell.cell.cell x y z => exact Cell.cmp_tri x y z
    case list.list.list xs ys zs => simp at h; exact hlist xs ys zs (by omega)
    case tuple.tuple.tuple xs ys zs => simp at h; exact hlist xs ys zs (by omega)
    case dict.dict.dict xs ys zs =>
      apply tri_then' (tri_compare _ _ _)
      intro l1 l2 _
      have l1 : xs.length = ys.length := by simpa using l1
      have l2 : ys.length = zs.length := by simpa using l2
      rw [cmpKeys_eq_lexArr, cmpKeys_eq_lexArr, cmpKeys_eq_lexArr, cmpVals_eq_lexArr,
        cmpVals_eq_lexArr, cmpVals_eq_lexArr]
      apply tri_then
      · apply tri_lexArr _ _ _ _ (by simpa using l1) (by simpa using l2)
        intro x _ y _ z _; exact tri_compare x y z
      · apply tri_lexArr _ _ _ _ (by simpa using l1) (by simpa using l2)
        intro x hx y hy z hz
        obtain ⟨kx, hkx, rfl⟩ := List.mem_map.1 hx
        obtain ⟨ky, hky, rfl⟩ := List.mem_map.1 hy
        obtain ⟨kz, hkz, rfl⟩ := List.mem_map.1 hz
        have := sizeOf_snd_lt hkx; have := sizeOf_snd_lt hky; have := sizeOf_snd_lt hkz
        simp at h; exact ih _ _ _ (by omega)

theorem cmpN_tri (a b c : Val) : tri (cmpN a b) (cmpN b c) (cmpN a c) :=
  cmpN_tri_aux _ a b c (Nat.le_refl _)

end Pyg
