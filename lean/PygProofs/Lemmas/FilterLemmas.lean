/-
  Helper lemmas for the inc/exc model (PygModel/Filter.lean): a boolean mask computed from the rows
  selects `idx.filter p`; sequential masks compose to the filter by the conjunction.
-/
import PygModel.Filter
import PygProofs.Lemmas.TableRows

namespace Pyg
namespace Table

/-! ### gathering twice -/

theorem gatherRows_gatherRows (t : Table) (idx idx2 : List Nat) (h : ∀ j ∈ idx2, j < idx.length) :
    (t.gatherRows idx).gatherRows idx2 = t.gatherRows (idx2.map fun j => idx.getD j 0) := by
  simp only [gatherRows, List.map_map]
  apply List.map_congr_left
  intro c _
  simp only [Function.comp, Prod.mk.injEq, true_and]
  apply List.map_congr_left
  intro j hj
  have := h j hj
  simp [List.getD_eq_getElem?_getD, this]

theorem emptyLike_eq_gather (t : Table) : t.emptyLike = t.gatherRows [] := by
  simp [emptyLike, gatherRows]

theorem gatherRows_ne_nil {t : Table} (hne : t ≠ []) (idx : List Nat) : t.gatherRows idx ≠ [] := by
  cases t with
  | nil => exact absurd rfl hne
  | cons c t => simp [gatherRows]

theorem col?_gatherRows (t : Table) (idx : List Nat) (k : String) :
    (t.gatherRows idx).col? k = (t.col? k).map fun c => idx.map fun i => c.getD i .none := by
  unfold col? gatherRows
  rw [List.find?_map]
  have : ((fun x : String × List Cell => x.1 == k) ∘ fun c : String × List Cell =>
      (c.1, idx.map fun i => c.2.getD i .none)) = fun x => x.1 == k := by
    funext c; rfl
  rw [this]
  cases t.find? (fun x => x.1 == k) <;> simp

/-- a mask of the table's length selects the flagged positions (table form of `getMask_full`) -/
theorem getMask_gather {t : Table} (hne : t ≠ []) (idx : List Nat) (m : List Bool) (hm : m.length = idx.length) :
    (t.gatherRows idx).getMask m =
      .ok (t.gatherRows (((((List.range idx.length).zip m).filter (·.2)).map (·.1)).map fun j => idx.getD j 0)) := by
  unfold getMask
  rw [nrows_gatherRows hne, maskIdx_full idx.length m hm]
  simp only
  have hlt := maskIdx_lt (maskIdx_full idx.length m hm)
  split
  · rename_i he
    have : (((List.range idx.length).zip m).filter (·.2)).map (·.1) = [] := by simpa using he
    rw [this, emptyLike_eq_gather, gatherRows_gatherRows _ _ _ (by simp)]
  · rw [gatherRows_gatherRows _ _ _ hlt]

/-! ### one keyword filter on a gathered table -/

theorem incStep_gather {t : Table} (hne : t ≠ []) (idx : List Nat) (k : String) (c : Cond) (col : List Cell)
    (hk : t.col? k = some col) :
    (t.gatherRows idx).incStep (k, c) = .ok (t.gatherRows (idx.filter fun i => c.test (col.getD i .none))) := by
  unfold incStep getColE
  rw [col?_gatherRows, hk]
  simp only [Option.map_some, List.map_map]
  split
  · rename_i he
    have : idx = [] := by simpa using he
    subst this
    simp [emptyLike_eq_gather, gatherRows]
  · rw [getMask_gather hne idx _ (by simp)]
    have := positions_filter idx (fun i => c.test (col.getD i .none)) 0
    simp only [Function.comp_def] at this ⊢
    rw [this]

/-- all conditions hold of row `i` of `t` (a condition on a column that is not there does not hold) -/
def sat (t : Table) (conds : List (String × Cond)) (i : Nat) : Bool :=
  conds.all fun kc => match t.cellAt i kc.1 with
    | some v => kc.2.test v
    | Option.none => false

theorem cellAt_of_col {t : Table} {k : String} {col : List Cell} (hk : t.col? k = some col) (i : Nat) :
    t.cellAt i k = some (col.getD i .none) := by
  simp [cellAt, hk]

theorem has_iff_col? (t : Table) (k : String) : t.has k = true ↔ ∃ col, t.col? k = some col := by
  unfold Table.has col?
  constructor
  · intro h
    obtain ⟨c, hc, hck⟩ := List.any_eq_true.1 h
    cases hf : t.find? (·.1 == k) with
    | none =>
      have := List.find?_eq_none.1 hf c hc
      simp_all
    | some e => exact ⟨e.2, by simp⟩
  · rintro ⟨col, h⟩
    cases hf : t.find? (·.1 == k) with
    | none => simp [hf] at h
    | some e =>
      have := List.find?_some hf
      exact List.any_eq_true.2 ⟨e, List.mem_of_find?_eq_some hf, this⟩

/-- row `j` of a gathered table satisfies the conditions iff row `idx[j]` of the table does -/
theorem sat_gatherRows (t : Table) (idx : List Nat) (conds : List (String × Cond))
    (hk : ∀ kc ∈ conds, t.has kc.1 = true) (j : Nat) (hj : j < idx.length) :
    (t.gatherRows idx).sat conds j = t.sat conds idx[j] := by
  unfold sat
  rw [Bool.eq_iff_iff, List.all_eq_true, List.all_eq_true]
  constructor <;> intro h kc hkc <;>
    (obtain ⟨col, hcol⟩ := (has_iff_col? t kc.1).1 (hk kc hkc)
     have := h kc hkc
     simpa [cellAt, col?_gatherRows, hcol, List.getD_eq_getElem?_getD, hj] using this)

/-- the sequential masks of `inc` (lines 512-521) select the rows satisfying the conjunction -/
theorem incSteps_gather {t : Table} (hne : t ≠ []) (conds : List (String × Cond))
    (hk : ∀ kc ∈ conds, t.has kc.1 = true) (idx : List Nat) :
    (t.gatherRows idx).incSteps conds = .ok (t.gatherRows (idx.filter (t.sat conds))) := by
  induction conds generalizing idx with
  | nil =>
    have : idx.filter (t.sat []) = idx := List.filter_eq_self.2 (fun _ _ => rfl)
    simp [incSteps, this]
  | cons kc conds ih =>
    obtain ⟨k, c⟩ := kc
    obtain ⟨col, hcol⟩ := (has_iff_col? t k).1 (hk (k, c) List.mem_cons_self)
    simp only [incSteps]
    rw [incStep_gather hne idx k c col hcol]
    simp only
    rw [ih (fun kc' h' => hk kc' (List.mem_cons_of_mem _ h')), List.filter_filter]
    congr 2
    apply List.filter_congr
    intro i _
    simp [sat, cellAt_of_col hcol, Bool.and_comm]

theorem fixup_gather {t : Table} (hne : t ≠ []) (idx : List Nat) :
    t.fixup (t.gatherRows idx) = t.gatherRows idx := by
  unfold fixup
  rw [nrows_gatherRows hne]
  split
  · rename_i h
    have : idx = [] := by simpa using h
    subst this
    exact emptyLike_eq_gather t
  · rfl

theorem ne_nil_of_has {t : Table} {k : String} (h : t.has k = true) : t ≠ [] := by
  intro he; subst he; simp [Table.has] at h

/-! ### exc -/

theorem excFlag_ok {t : Table} (conds : List (String × Cond)) (hk : ∀ kc ∈ conds, t.has kc.1 = true) (i : Nat) :
    t.excFlag conds i = .ok (!t.sat conds i) := by
  unfold excFlag
  have : mapE (t.rowCheck i) conds = .ok (conds.map fun kc => match t.cellAt i kc.1 with
      | some v => kc.2.test v | Option.none => false) := by
    apply mapE_of_ok
    intro kc hkc
    obtain ⟨col, hcol⟩ := (has_iff_col? t kc.1).1 (hk kc hkc)
    simp [rowCheck, cellAt_of_col hcol]
  rw [this]
  simp [sat, List.all_map, Function.comp_def]

/-! ### callables -/

theorem keepRows_total {t : Table} {n : Nat} (hr : t.Rect n) (hne : t ≠ []) (p : Nat → Bool) :
    t.keepRows (fun i => .ok (p i)) =
      .ok (if ((List.range n).filter p).isEmpty then [] else t.gatherRows ((List.range n).filter p)) := by
  unfold keepRows
  rw [nrows_of_rect hr hne, mapE_of_ok (g := p) (fun _ _ => rfl)]
  simp only
  have := positions_range n ((List.range n).map p) (by simp)
  rw [this]
  have hf : (List.range n).filter (fun i => ((List.range n).map p).getD i false) = (List.range n).filter p := by
    apply List.filter_congr
    intro i hi
    have : i < n := by simpa using hi
    simp [List.getD_eq_getElem?_getD, this]
  rw [hf]
  split <;> rfl

/-- a callable that answers `p i` on every row: `keepRows` is the total case -/
theorem keepRows_ok {t : Table} {n : Nat} (hr : t.Rect n) (hne : t ≠ []) (keep : Nat → Except Err Bool) (p : Nat → Bool)
    (h : ∀ i < n, keep i = .ok (p i)) :
    t.keepRows keep =
      .ok (if ((List.range n).filter p).isEmpty then [] else t.gatherRows ((List.range n).filter p)) := by
  rw [← keepRows_total hr hne p]
  unfold keepRows
  rw [nrows_of_rect hr hne, mapE_of_ok (g := p) (fun i hi => h i (by simpa using hi)),
    mapE_of_ok (f := fun i => (Except.ok (p i) : Except Err Bool)) (g := p) (fun _ _ => rfl)]

/-- the first failing element decides `mapE` -/
theorem mapE_error_at {α β ε} (f : α → Except ε β) (e : ε) :
    ∀ (xs : List α) (k : Nat) (hk : k < xs.length), f xs[k] = .error e →
      (∀ j (hj : j < k), ∃ b, f (xs[j]'(Nat.lt_trans hj hk)) = .ok b) → mapE f xs = .error e
  | [], k, hk, _, _ => by cases hk
  | x :: xs, 0, _, he, _ => by
      simp only [List.getElem_cons_zero] at he
      simp only [mapE, he]
  | x :: xs, k + 1, hk, he, hb => by
      obtain ⟨b, hb0⟩ := hb 0 (Nat.succ_pos k)
      simp only [List.getElem_cons_zero] at hb0
      have ih := mapE_error_at f e xs k (by simpa using hk) (by simpa using he) (fun j hj => by
        obtain ⟨b, h⟩ := hb (j + 1) (Nat.succ_lt_succ hj)
        exact ⟨b, by simpa using h⟩)
      simp only [mapE, hb0, ih]

/-- a callable that raises on row `i` (and answers on the rows before it): the call raises that error -/
theorem keepRows_error {t : Table} {n : Nat} (hr : t.Rect n) (hne : t ≠ []) (keep : Nat → Except Err Bool)
    (i : Nat) (hi : i < n) (e : Err) (he : keep i = .error e) (hb : ∀ j < i, ∃ b, keep j = .ok b) :
    t.keepRows keep = .error e := by
  unfold keepRows
  rw [nrows_of_rect hr hne, mapE_error_at keep e (List.range n) i (by simpa using hi) (by simpa using he)
    (fun j hj => by simpa using hb j hj)]

/-- a key that is not a column: `_row_check` raises `KeyError` whatever the other conditions -/
theorem mapE_rowCheck_missing {t : Table} (i : Nat) (conds : List (String × Cond))
    (h : ∃ kc ∈ conds, t.has kc.1 = false) : mapE (t.rowCheck i) conds = .error .key := by
  induction conds with
  | nil => obtain ⟨kc, hkc, _⟩ := h; cases hkc
  | cons kc rest ih =>
    simp only [mapE]
    cases hh : t.has kc.1 with
    | false =>
      have : t.cellAt i kc.1 = Option.none := by
        unfold cellAt
        cases hc : t.col? kc.1 with
        | none => rfl
        | some col => have := (has_iff_col? t kc.1).2 ⟨col, hc⟩; rw [hh] at this; cases this
      simp [rowCheck, this]
    | true =>
      obtain ⟨col, hcol⟩ := (has_iff_col? t kc.1).1 hh
      have hrest : ∃ kc' ∈ rest, t.has kc'.1 = false := by
        obtain ⟨kc', hm, hf⟩ := h
        rcases List.mem_cons.1 hm with rfl | hm
        · rw [hh] at hf; cases hf
        · exact ⟨kc', hm, hf⟩
      simp [rowCheck, cellAt_of_col hcol, ih hrest]

end Table
end Pyg
