/-
  Bounds of the python slice index list `sliceIdx` (PygModel/Table.lean): every selected index is inside
  the list, and the indices are strictly increasing (positive step) / decreasing (negative step).
-/
import PygModel.Table

namespace Pyg

theorem slice_pos_bound (N start stop s : Int) (k : Nat) (hs : 0 < s) (h0 : 0 ≤ start) (hN : stop ≤ N)
    (hk : k < (if stop > start then ((stop - start + s - 1) / s).toNat else 0)) :
    0 ≤ start + k * s ∧ start + k * s < N := by
  split at hk
  · rename_i hgt
    have hq : (stop - start + s - 1) / s * s ≤ stop - start + s - 1 := Int.ediv_mul_le _ (by omega)
    have hk' : (k : Int) + 1 ≤ (stop - start + s - 1) / s := by omega
    have hm : ((k : Int) + 1) * s ≤ (stop - start + s - 1) / s * s :=
      Int.mul_le_mul_of_nonneg_right hk' (by omega)
    have e : ((k : Int) + 1) * s = k * s + s := by rw [Int.add_mul, Int.one_mul]
    have hnn : 0 ≤ (k : Int) * s := Int.mul_nonneg (by omega) (by omega)
    omega
  · omega

theorem slice_neg_bound (N start stop s : Int) (k : Nat) (hs : s < 0) (h0 : -1 ≤ stop) (hN : start ≤ N - 1)
    (hk : k < (if start > stop then ((start - stop + (-s) - 1) / (-s)).toNat else 0)) :
    0 ≤ start + k * s ∧ start + k * s < N := by
  split at hk
  · rename_i hgt
    have hq : (start - stop + (-s) - 1) / (-s) * (-s) ≤ start - stop + (-s) - 1 := Int.ediv_mul_le _ (by omega)
    have hk' : (k : Int) + 1 ≤ (start - stop + (-s) - 1) / (-s) := by omega
    have hm : ((k : Int) + 1) * (-s) ≤ (start - stop + (-s) - 1) / (-s) * (-s) :=
      Int.mul_le_mul_of_nonneg_right hk' (by omega)
    have e : ((k : Int) + 1) * (-s) = k * (-s) + (-s) := by rw [Int.add_mul, Int.one_mul]
    have e2 : (k : Int) * (-s) = -(k * s) := Int.mul_neg _ _
    have hnn : 0 ≤ (k : Int) * (-s) := Int.mul_nonneg (by omega) (by omega)
    omega
  · omega

/-- every index selected by a slice is a valid index of the list -/
theorem sliceIdx_lt (n : Nat) (a b : Option Int) (s : Int) (hs : s ≠ 0) : ∀ i ∈ sliceIdx n a b s, i < n := by
  intro i hi
  unfold sliceIdx at hi
  by_cases hpos : s > 0
  · simp only [hpos, if_true, List.mem_map, List.mem_range] at hi
    obtain ⟨k, hk, rfl⟩ := hi
    have := slice_pos_bound n _ _ s k hpos (by cases a <;> simp <;> omega) (by cases b <;> simp <;> omega) hk
    omega
  · simp only [hpos, if_false, List.mem_map, List.mem_range] at hi
    obtain ⟨k, hk, rfl⟩ := hi
    have := slice_neg_bound n _ _ s k (by omega) (by cases b <;> simp <;> omega) (by cases a <;> simp <;> omega) hk
    omega

/-- a slice with a positive step selects strictly increasing positions: it keeps the original order and
never repeats an element -/
theorem sliceIdx_increasing (n : Nat) (a b : Option Int) (s : Int) (hs : s > 0) :
    (sliceIdx n a b s).Pairwise (· < ·) := by
  unfold sliceIdx
  simp only [hs, if_true]
  rw [List.pairwise_map]
  apply List.Pairwise.imp_of_mem _ List.pairwise_lt_range
  intro k1 k2 h1 h2 hlt
  have b1 := slice_pos_bound n _ _ s k1 hs (by cases a <;> simp <;> omega) (by cases b <;> simp <;> omega)
    (List.mem_range.1 h1)
  have hm : (k1 : Int) * s < k2 * s := Int.mul_lt_mul_of_pos_right (by omega) hs
  omega

/-- with a negative step the positions are strictly decreasing -/
theorem sliceIdx_decreasing (n : Nat) (a b : Option Int) (s : Int) (hs : s < 0) :
    (sliceIdx n a b s).Pairwise (· > ·) := by
  unfold sliceIdx
  have hpos : ¬ s > 0 := by omega
  simp only [hpos, if_false]
  rw [List.pairwise_map]
  apply List.Pairwise.imp_of_mem _ List.pairwise_lt_range
  intro k1 k2 h1 h2 hlt
  have b2 := slice_neg_bound n _ _ s k2 hs (by cases b <;> simp <;> omega) (by cases a <;> simp <;> omega)
    (List.mem_range.1 h2)
  have hm : (k1 : Int) * (-s) < k2 * (-s) := Int.mul_lt_mul_of_pos_right (by omega) (by omega)
  have e1 : (k1 : Int) * (-s) = -(k1 * s) := Int.mul_neg _ _
  have e2 : (k2 : Int) * (-s) = -(k2 * s) := Int.mul_neg _ _
  omega

/-- a strictly increasing list of naturals in `[lo, hi)` is a sub-sequence of `lo, lo+1, ..., hi-1` -/
theorem sublist_range'_of_increasing (idx : List Nat) (lo hi : Nat) (hb : ∀ i ∈ idx, lo ≤ i ∧ i < hi)
    (hp : idx.Pairwise (· < ·)) : idx.Sublist (List.range' lo (hi - lo)) := by
  induction idx generalizing lo with
  | nil => exact List.nil_sublist _
  | cons x xs ih =>
    obtain ⟨hlo, hhi⟩ := hb x List.mem_cons_self
    rw [List.pairwise_cons] at hp
    have hsplit : List.range' lo (hi - lo) = List.range' lo (x - lo) ++ (x :: List.range' (x + 1) (hi - (x + 1))) := by
      have h1 : hi - lo = (x - lo) + (1 + (hi - (x + 1))) := by omega
      rw [h1, ← List.range'_append_1, ← List.range'_append_1]
      have h2 : lo + (x - lo) = x := by omega
      simp [h2, List.range'_one]
    rw [hsplit]
    apply List.Sublist.trans _ (List.sublist_append_right _ _)
    apply List.Sublist.cons_cons _
    apply ih (x + 1)
    · intro i hi'
      exact ⟨hp.1 i hi', (hb i (List.mem_cons_of_mem _ hi')).2⟩
    · exact hp.2

theorem sublist_range_of_increasing (idx : List Nat) (n : Nat) (hb : ∀ i ∈ idx, i < n)
    (hp : idx.Pairwise (· < ·)) : idx.Sublist (List.range n) := by
  have := sublist_range'_of_increasing idx 0 n (fun i hi => ⟨Nat.zero_le _, hb i hi⟩) hp
  simpa [List.range_eq_range'] using this

end Pyg
