/-
  Helper lemmas for C20: the row loop of `perdictable`, the final sort of `join`, mapM over
  always-succeeding functions.
-/
import PygModel.PerDict
import PygProofs.Lemmas.JoinLemmas
import PygProofs.Lemmas.UnlistLemmas
import PygProofs.Lemmas.PivotLemmas

namespace Pyg

/-- is row `i` (re)computed?  (line 336: `rin or rex`) -/
def rowRuns (ifNone : Bool) (ds : Table) (hasData : Bool) (today : Int) (i : Nat) : Bool :=
  !hasData || (ifNone && (ds.jcellAt "data" i).isNone) || runExpiry today (ds.jcellAt "expiry" i)

theorem evalRows_values (ifNone : Bool) (f : List Cell → Val) (params : List String) (ds : Table)
    (hasData : Bool) (today : Int) (ids : List Nat) :
    (evalRows ifNone f params ds hasData today ids).1 = ids.map fun i =>
      if rowRuns ifNone ds hasData today i then f (rowArgs ds params i)
      else .cell (ds.jcellAt "data" i) := by
  induction ids with
  | nil => rfl
  | cons i is ih =>
    have hcond : (!hasData || (ifNone && (ds.jcellAt "data" i).isNone) ||
        runExpiry today (ds.jcellAt "expiry" i)) = rowRuns ifNone ds hasData today i := rfl
    simp only [evalRows, hcond, List.map_cons]
    cases hr : rowRuns ifNone ds hasData today i <;> simp [ih]

theorem evalRows_log (ifNone : Bool) (f : List Cell → Val) (params : List String) (ds : Table)
    (hasData : Bool) (today : Int) (ids : List Nat) :
    (evalRows ifNone f params ds hasData today ids).2 =
      (ids.filter (rowRuns ifNone ds hasData today)).map (rowArgs ds params) := by
  induction ids with
  | nil => rfl
  | cons i is ih =>
    have hcond : (!hasData || (ifNone && (ds.jcellAt "data" i).isNone) ||
        runExpiry today (ds.jcellAt "expiry" i)) = rowRuns ifNone ds hasData today i := rfl
    simp only [evalRows, hcond, List.filter_cons]
    cases hr : rowRuns ifNone ds hasData today i <;> simp [ih]

theorem mapM_ok {α β} (g : α → β) (xs : List α) :
    xs.mapM (fun x => (Except.ok (g x) : Res β)) = .ok (xs.map g) := by
  induction xs with
  | nil => rfl
  | cons x xs ih => simp [List.mapM_cons, ih, bind, Except.bind, pure, Except.pure]

/-- the keys in sorted-row order are the sorted keys -/
theorem sortIdx_gather (keys : List Val) :
    (sortIdx keys).map (keyAt keys) = sort keys := by
  rw [← Props.C07.sortIdx_keys keys]
  show ((sortedKeyIds keys).map (·.2)).map (keyAt keys) = (sortedKeyIds keys).map (·.1)
  rw [List.map_map]
  apply List.map_congr_left
  intro p hp
  have : keys[p.2]? = some p.1 := mem_sortedKeyIds.1 (by cases p; exact hp)
  simp [keyAt_of_get this]

/-! ### the keys of `a * b` -/

/-- the key of row `i` on the columns `on` -/
def rowKey (t : Table) (on : List String) (i : Nat) : Val := .tuple (on.map fun c => .cell (t.jcellAt c i))

/-- some row of `t` has a key `cmp`-equal to `k` -/
def hasKey (t : Table) (on : List String) (k : Val) : Prop :=
  ∃ i, i < t.nrows ∧ cmp (rowKey t on i) k = .eq

theorem keyAt_keysOf_cols (t : Table) (on : List String) (i : Nat) (hi : i < t.nrows) :
    keyAt ((List.range t.nrows).map fun i => Val.tuple (on.map fun k => .cell (t.jcellAt k i))) i
      = rowKey t on i := by
  simp [keyAt, rowKey, List.getD_eq_getElem?_getD, hi]

theorem toTable_toV {v : VTable} {d : Table} (h : v.toTable = some d) : d.toV = v := by
  induction v generalizing d with
  | nil => simp [VTable.toTable] at h; subst h; rfl
  | cons c cs ih =>
    simp only [VTable.toTable, List.mapM_cons, bind, Option.bind] at h
    cases hc : c.2.mapM cellOfVal with
    | none => simp [hc] at h
    | some xs =>
      simp only [hc, Option.map_some] at h
      cases hcs : cs.mapM (fun c => (c.2.mapM cellOfVal).map fun xs => (c.1, xs)) with
      | none => simp [hcs] at h
      | some ds =>
        simp only [hcs, pure, Option.some.injEq] at h
        subst h
        have hxs : xs.map Val.cell = c.2 := by
          clear hcs ih
          generalize c.2 = l at hc
          induction l generalizing xs with
          | nil => simp at hc; subst hc; rfl
          | cons a as iha =>
            simp only [List.mapM_cons, bind, Option.bind] at hc
            cases ha : cellOfVal a with
            | none => simp [ha] at hc
            | some x =>
              cases has : as.mapM cellOfVal with
              | none => simp [ha, has] at hc
              | some ys =>
                simp only [ha, has, pure, Option.some.injEq] at hc
                subst hc
                have : a = .cell x := by
                  cases a <;> simp [cellOfVal] at ha
                  subst ha; rfl
                simp [this, iha ys has]
        simp only [Table.toV, List.map_cons, hxs]
        congr 1
        exact ih hcs

theorem joinColNames_cols : ∀ on : List String,
    joinColNames (on.map .col) (on.map .col) = .ok on
  | [] => rfl
  | c :: cs => by
    simp only [List.map_cons, joinColNames, joinColNames_cols cs, bind, Except.bind, pure, Except.pure]

/-- `join` with the list of result rows made explicit -/
theorem join_explicit (x y : Table) (lc rc : List KeySpec) (mode : Mode)
    (cols : List String) (lk rk : List Val)
    (hlen : lc.length = rc.length) (hcols : joinColNames lc rc = .ok cols)
    (hnd : cols.Nodup) (hne : cols ≠ [])
    (hlk : x.keysOf lc = .ok lk) (hrk : y.keysOf rc = .ok rk) :
    join x y (some lc) (some rc) mode =
      some (.ok (joinTableOf x y cols mode (keyedPairs (joinMatches lk rk)))) := by
  have hne' : cols.isEmpty = false := by cases cols <;> simp_all
  simp only [join, Option.getD_some, hlen, ne_eq, not_true_eq_false, if_false, hcols, hnd,
    hne', hlk, hrk, Bool.false_eq_true]
  simp only [bind, Except.bind, pure, Except.pure]
  rw [joinBody_rows]

/-- the key a result row carries is one of the left keys -/
theorem keyedPairs_rep_mem {lk rk : List Val} :
    ∀ p ∈ keyedPairs (joinMatches lk rk), p.1 ∈ lk := by
  intro p hp
  simp only [keyedPairs, List.mem_flatMap, List.mem_map] at hp
  obtain ⟨m, hm, l, hl, r, _, rfl⟩ := hp
  obtain ⟨a, ha, b, _, _, rfl⟩ := mem_joinMatches.1 hm
  have hne : lk ≠ [] := by
    intro h; subst h
    rw [listbyG_nil] at ha
    simp at ha; subst ha; simp at hl
  exact listbyG_key_mem hne a ha

theorem col?_isSome_of_mem {t : Table} {k : String} (h : k ∈ t.cols) : (t.col? k).isSome = true := by
  simp only [Table.cols, List.mem_map] at h
  obtain ⟨c, hc, rfl⟩ := h
  simp only [Table.col?, Option.isSome_map]
  rw [List.find?_isSome]
  exact ⟨c, hc, by simp⟩

theorem mem_linter {xs ys : List String} {k : String} : k ∈ linter xs ys ↔ k ∈ xs ∧ k ∈ ys := by
  simp [linter]

/-- cell of a table read back through its `VTable` image -/
theorem cell_of_toV {d : Table} {v : VTable} (h : d.toV = v) (c : String) (col : List Val)
    (hf : v.find? (fun x => x.1 == c) = some (c, col)) (p : Nat) (hp : p < col.length) :
    Val.cell (d.jcellAt c p) = col[p] := by
  subst h
  simp only [Table.toV, List.find?_map, Option.map_eq_some_iff] at hf
  obtain ⟨x, hx, hxe⟩ := hf
  simp only [Prod.mk.injEq] at hxe
  have hcol : d.col? c = some x.2 := by
    simp only [Table.col?, Option.map_eq_some_iff]
    exact ⟨x, by simpa [Function.comp_def] using hx, rfl⟩
  simp only [Table.jcellAt, hcol, Option.getD_some]
  have hlen : p < x.2.length := by rw [← hxe.2] at hp; simpa using hp
  have : col[p] = Val.cell x.2[p] := by
    have := hxe.2
    subst this
    simp
  rw [this, List.getD_eq_getElem?_getD, List.getElem?_eq_getElem hlen]
  rfl

/-- the closed form of the keys on `on` -/
def keysOn (t : Table) (on : List String) : List Val := (List.range t.nrows).map (rowKey t on)

theorem keysOn_ok (t : Table) (on : List String) (h : ∀ k ∈ on, k ∈ t.cols) :
    t.keysOf (on.map .col) = .ok (keysOn t on) :=
  keysOf_cols t on (fun k hk => col?_isSome_of_mem (h k hk))

theorem keyAt_keysOn (t : Table) (on : List String) {i : Nat} (hi : i < t.nrows) :
    keyAt (keysOn t on) i = rowKey t on i := by
  simp [keyAt, keysOn, List.getD_eq_getElem?_getD, hi]

/-- **the rows of `a * b`** when the shared columns are exactly `on`: a list `kp` of
(key, left row, right row) — the key-equal pairs, each once — and row `p` of the product has the
key `kp[p].1` on the `on` columns, which is `cmp`-equal to the keys of both rows it was built from -/
theorem mul_rows (a b d : Table) (on : List String) (hon : on ≠ []) (hnd : on.Nodup)
    (hsh : linter a.cols b.cols = on) (hd : a.mul b = some (.ok d)) :
    ∃ kp : List (Val × Nat × Nat),
      d.nrows = kp.length ∧
      (∀ p (hp : p < kp.length), rowKey d on p = kp[p].1) ∧
      (kp.map (·.2)).Perm ((allPairs a.nrows b.nrows).filter fun q =>
        cmp (rowKey a on q.1) (rowKey b on q.2) == .eq) ∧
      ∀ p ∈ kp, cmp p.1 (rowKey a on p.2.1) = .eq ∧ cmp p.1 (rowKey b on p.2.2) = .eq := by
  have hina : ∀ k ∈ on, k ∈ a.cols := fun k hk => (mem_linter.1 (hsh ▸ hk)).1
  have hinb : ∀ k ∈ on, k ∈ b.cols := fun k hk => (mem_linter.1 (hsh ▸ hk)).2
  have hlk := keysOn_ok a on hina
  have hrk := keysOn_ok b on hinb
  have hla : (keysOn a on).length = a.nrows := by simp [keysOn]
  have hlb : (keysOn b on).length = b.nrows := by simp [keysOn]
  have hj := join_explicit a b (on.map .col) (on.map .col) .pair on (keysOn a on) (keysOn b on)
    rfl (joinColNames_cols on) hnd hon hlk hrk
  have hj' : join a b none none .pair =
      some (.ok (joinTableOf a b on .pair (keyedPairs (joinMatches (keysOn a on) (keysOn b on))))) := by
    rw [← hj]; simp [join, hsh]
  generalize hkp : keyedPairs (joinMatches (keysOn a on) (keysOn b on)) = kp at hj'
  have hv : (joinTableOf a b on .pair kp).toTable = some d := by
    simp only [Table.mul, hj'] at hd
    cases h : (joinTableOf a b on .pair kp).toTable with
    | none => simp [h] at hd
    | some d' => simp [h] at hd; rw [hd]
  have htv := toTable_toV hv
  have hkeys := keyedPairs_keys (lk := keysOn a on) (rk := keysOn b on)
  rw [hkp] at hkeys
  have hrep := keyedPairs_rep_mem (lk := keysOn a on) (rk := keysOn b on)
  rw [hkp] at hrep
  -- the `on` columns of the product, by name
  have hzn : (on.zipIdx.map (·.1)).Nodup := by rw [List.zipIdx_map_fst]; exact hnd
  have hfind : ∀ c ∈ on.zipIdx, (joinTableOf a b on .pair kp).find? (fun x => x.1 == c.1) =
      some (c.1, kp.map fun p => tupleGet c.2 p.1) := by
    intro c hc
    have h1 := find_named (fun c : String × Nat => c.1) (fun c => kp.map fun p => tupleGet c.2 p.1)
      on.zipIdx hzn c hc
    simp only [joinTableOf]
    exact find_append_left _ _ _ _ (find_append_left _ _ _ _ (find_append_left _ _ _ _ h1))
  have hcell : ∀ c ∈ on.zipIdx, ∀ p (hp : p < kp.length),
      Val.cell (d.jcellAt c.1 p) = tupleGet c.2 kp[p].1 := by
    intro c hc p hp
    have := cell_of_toV htv c.1 _ (hfind c hc) p (by simpa using hp)
    simpa using this
  refine ⟨kp, ?_, ?_, ?_, ?_⟩
  · -- number of rows: the first `on` column
    cases on with
    | nil => exact absurd rfl hon
    | cons c0 cs =>
      have h0 := hfind (c0, 0) (by simp [List.zipIdx_cons])
      have : d.toV.find? (fun x => x.1 == c0) = some (c0, kp.map fun p => tupleGet 0 p.1) := by
        rw [htv]; exact h0
      -- `c0` is the first column of the product
      have hfirst : ∃ rest, joinTableOf a b (c0 :: cs) .pair kp =
          (c0, kp.map fun p => tupleGet 0 p.1) :: rest := by
        simp [joinTableOf, List.zipIdx_cons]
      obtain ⟨rest, hr⟩ := hfirst
      rw [← htv] at hr
      cases d with
      | nil => simp [Table.toV] at hr
      | cons x xs =>
        simp only [Table.toV, List.map_cons, List.cons.injEq, Prod.mk.injEq] at hr
        have := congrArg List.length hr.1.2
        simpa [Table.nrows] using this
  · intro p hp
    obtain ⟨xs, hxs⟩ : ∃ xs : List Val, kp[p].1 = .tuple xs ∧ xs.length = on.length := by
      have hm := hrep kp[p] (List.getElem_mem hp)
      simp only [keysOn, List.mem_map, List.mem_range] at hm
      obtain ⟨i, _, hi⟩ := hm
      exact ⟨_, hi.symm, by simp⟩
    rw [hxs.1]
    simp only [rowKey]
    congr 1
    apply List.ext_getElem
    · simp [hxs.2]
    · intro j h1 h2
      simp only [List.length_map] at h1
      have hc : (on[j], j) ∈ on.zipIdx := by
        rw [List.mem_zipIdx_iff_getElem?]; simp [List.getElem?_eq_getElem h1]
      have := hcell (on[j], j) hc p hp
      simp only at this
      rw [List.getElem_map, this, hxs.1]
      simp [tupleGet, List.getD_eq_getElem?_getD, List.getElem?_eq_getElem h2]
  · rw [← hkp, keyedPairs_snd]
    have := joinPairs_perm (keysOn a on) (keysOn b on)
    rw [hla, hlb] at this
    refine this.trans (List.Perm.of_eq ?_)
    apply List.filter_congr
    rintro ⟨i, j⟩ hq
    have := mem_allPairs.1 hq
    simp only
    rw [keyAt_keysOn a on this.1, keyAt_keysOn b on this.2]
  · intro p hp
    have := hkeys p hp
    have hmem : p.2 ∈ (kp.map (·.2)) := List.mem_map.2 ⟨p, hp, rfl⟩
    rw [← hkp, keyedPairs_snd] at hmem
    have hij := (mem_joinPairs (i := p.2.1) (j := p.2.2)).1 (by
      have : (p.2.1, p.2.2) = p.2 := rfl
      rw [this]; exact hmem)
    rw [hla, hlb] at hij
    rw [keyAt_keysOn a on hij.1, keyAt_keysOn b on hij.2.1] at this
    exact this

/-- **keys of `a * b`**: a key is present in the product iff it is present in both factors -/
theorem hasKey_mul (a b d : Table) (on : List String) (hon : on ≠ []) (hnd : on.Nodup)
    (hsh : linter a.cols b.cols = on) (hd : a.mul b = some (.ok d)) (k : Val) :
    hasKey d on k ↔ hasKey a on k ∧ hasKey b on k := by
  obtain ⟨kp, hn, hrow, hperm, hkeys⟩ := mul_rows a b d on hon hnd hsh hd
  constructor
  · rintro ⟨p, hp, he⟩
    have hp' : p < kp.length := hn ▸ hp
    rw [hrow p hp'] at he
    have hm := hkeys kp[p] (List.getElem_mem hp')
    have hmem : kp[p].2 ∈ kp.map (·.2) := List.mem_map.2 ⟨kp[p], List.getElem_mem hp', rfl⟩
    have hq := (hperm.mem_iff).1 hmem
    rw [List.mem_filter] at hq
    have hlt := (mem_allPairs (i := kp[p].2.1) (j := kp[p].2.2)).1 hq.1
    exact ⟨⟨kp[p].2.1, hlt.1, cmp_eq_trans (cmp_eq_symm hm.1) he⟩,
           ⟨kp[p].2.2, hlt.2, cmp_eq_trans (cmp_eq_symm hm.2) he⟩⟩
  · rintro ⟨⟨i, hi, hei⟩, ⟨j, hj, hej⟩⟩
    have hq : (i, j) ∈ (allPairs a.nrows b.nrows).filter fun q =>
        cmp (rowKey a on q.1) (rowKey b on q.2) == .eq := by
      rw [List.mem_filter]
      exact ⟨mem_allPairs.2 ⟨hi, hj⟩, by simpa using cmp_eq_trans hei (cmp_eq_symm hej)⟩
    have hmem := (hperm.mem_iff).2 hq
    obtain ⟨p, hp, hpe⟩ := List.mem_map.1 hmem
    obtain ⟨idx, hidx, rfl⟩ := List.getElem_of_mem hp
    refine ⟨idx, hn ▸ hidx, ?_⟩
    rw [hrow idx hidx]
    have hm := hkeys kp[idx] (List.getElem_mem hidx)
    rw [hpe] at hm
    exact cmp_eq_trans hm.1 hei

/-! ### folding `*` over several tables -/

theorem mem_lminus {xs ys : List String} {k : String} : k ∈ lminus xs ys ↔ k ∈ xs ∧ k ∉ ys := by
  simp [lminus]

theorem toV_cols (d : Table) : d.toV.map (·.1) = d.cols := by
  simp [Table.toV, Table.cols, List.map_map, Function.comp_def]

/-- the columns of `a * b` when the shared columns are exactly `on` -/
theorem mul_cols (a b d : Table) (on : List String) (hon : on ≠ []) (hnd : on.Nodup)
    (hsh : linter a.cols b.cols = on) (hd : a.mul b = some (.ok d)) :
    d.cols = on ++ lminus a.cols on ++ lminus b.cols on := by
  have hina : ∀ k ∈ on, k ∈ a.cols := fun k hk => (mem_linter.1 (hsh ▸ hk)).1
  have hinb : ∀ k ∈ on, k ∈ b.cols := fun k hk => (mem_linter.1 (hsh ▸ hk)).2
  have hj := join_explicit a b (on.map .col) (on.map .col) .pair on (keysOn a on) (keysOn b on)
    rfl (joinColNames_cols on) hnd hon (keysOn_ok a on hina) (keysOn_ok b on hinb)
  have hj' : join a b none none .pair =
      some (.ok (joinTableOf a b on .pair (keyedPairs (joinMatches (keysOn a on) (keysOn b on))))) := by
    rw [← hj]; simp [join, hsh]
  generalize keyedPairs (joinMatches (keysOn a on) (keysOn b on)) = kp at hj'
  have hv : (joinTableOf a b on .pair kp).toTable = some d := by
    simp only [Table.mul, hj'] at hd
    cases h : (joinTableOf a b on .pair kp).toTable with
    | none => simp [h] at hd
    | some d' => simp [h] at hd; rw [hd]
  have htv := toTable_toV hv
  rw [← toV_cols, htv]
  -- no same-named non-key column: a column of both tables is a key column
  have hj0 : linter (lminus a.cols on) (lminus b.cols on) = [] := by
    simp only [linter, List.filter_eq_nil_iff]
    intro k hk hkb
    have hkb' : k ∈ lminus b.cols on := by simpa using hkb
    have h1 := mem_lminus.1 hk
    have h2 := mem_lminus.1 hkb'
    exact h1.2 (hsh ▸ mem_linter.2 ⟨h1.1, h2.1⟩)
  simp only [joinTableOf, hj0, List.map_append, List.map_map, Function.comp_def, List.map_nil,
    List.append_nil]
  have e1 : lminus (lminus a.cols on) [] = lminus a.cols on := by simp [lminus]
  have e2 : lminus (lminus b.cols on) [] = lminus b.cols on := by simp [lminus]
  rw [e1, e2]
  simp [List.zipIdx_map_fst]

/-- the tables of a fold share exactly the columns `on`, which the first table lists in the order
of `on`; other columns belong to one table only -/
structure FoldOK (on : List String) (d : Table) (ds : List Table) : Prop where
  first : d.cols.filter (fun c => on.contains c) = on
  has_on : ∀ t ∈ ds, ∀ k ∈ on, k ∈ t.cols
  private_first : ∀ t ∈ ds, ∀ c ∈ d.cols, c ∈ t.cols → c ∈ on
  private_rest : ds.Pairwise fun t t' => ∀ c ∈ t.cols, c ∈ t'.cols → c ∈ on

theorem linter_eq_on {on : List String} {acc t : Table}
    (h1 : acc.cols.filter (fun c => on.contains c) = on)
    (h2 : ∀ k ∈ on, k ∈ t.cols) (h3 : ∀ c ∈ acc.cols, c ∈ t.cols → c ∈ on) :
    linter acc.cols t.cols = on := by
  rw [← h1]
  simp only [linter]
  apply List.filter_congr
  intro c hc
  by_cases hct : c ∈ t.cols
  · have := h3 c hc hct; simp [hct, this]
  · have : c ∉ on := fun h => hct (h2 c h)
    simp [hct, this]

/-- **n-ary inner join, which keys survive**: a key is present in `t₀ * t₁ * … * tₘ` iff it is
present in every `tᵢ` -/
theorem hasKey_fold (on : List String) (hon : on ≠ []) (hnd : on.Nodup) :
    ∀ (ds : List Table) (d r : Table), FoldOK on d ds → foldOR Table.mul d ds = some (.ok r) →
      ∀ k, hasKey r on k ↔ hasKey d on k ∧ ∀ t ∈ ds, hasKey t on k := by
  intro ds
  induction ds with
  | nil =>
    intro d r _ h k
    simp only [foldOR, Option.some.injEq, Except.ok.injEq] at h
    subst h; simp
  | cons t ts ih =>
    intro d r hok h k
    simp only [foldOR] at h
    cases hm : d.mul t with
    | none => simp [hm] at h
    | some res =>
      cases res with
      | error e => simp [hm] at h
      | ok d' =>
        simp only [hm] at h
        have hsh : linter d.cols t.cols = on :=
          linter_eq_on hok.first (hok.has_on t (by simp)) (hok.private_first t (by simp))
        have hcols := mul_cols d t d' on hon hnd hsh hm
        have hpr := List.pairwise_cons.1 hok.private_rest
        have hok' : FoldOK on d' ts := by
          refine ⟨?_, fun t' ht' => hok.has_on t' (by simp [ht']), ?_, hpr.2⟩
          · rw [hcols, List.filter_append, List.filter_append]
            have e1 : on.filter (fun c => on.contains c) = on := by
              apply List.filter_eq_self.2; intro c hc; simpa using hc
            have e2 : (lminus d.cols on).filter (fun c => on.contains c) = [] := by
              simp only [List.filter_eq_nil_iff]; intro c hc; simpa using (mem_lminus.1 hc).2
            have e3 : (lminus t.cols on).filter (fun c => on.contains c) = [] := by
              simp only [List.filter_eq_nil_iff]; intro c hc; simpa using (mem_lminus.1 hc).2
            rw [e1, e2, e3]; simp
          · intro t' ht' c hc hct'
            rw [hcols] at hc
            simp only [List.mem_append] at hc
            rcases hc with (hc | hc) | hc
            · exact hc
            · exact hok.private_first t' (by simp [ht']) c (mem_lminus.1 hc).1 hct'
            · exact hpr.1 t' ht' c (mem_lminus.1 hc).1 hct'
        rw [ih d' r hok' h k, hasKey_mul d t d' on hon hnd hsh hm k]
        simp only [List.mem_cons, forall_eq_or_imp, and_assoc]

/-! ### constant columns (`d(**{k: v})`): scalars broadcast, defaults filled in -/

theorem col?_replace_other (t : Table) (k : String) (col : List Cell) (c : String) (hc : c ≠ k) :
    Table.col? (t.map fun x => if x.1 == k then (k, col) else x) c = t.col? c := by
  induction t with
  | nil => rfl
  | cons x xs ih =>
    simp only [Table.col?, List.map_cons, List.find?_cons] at ih ⊢
    by_cases hx : x.1 = k
    · have h1 : (k == c) = false := by simpa using fun h => hc h.symm
      have h2 : (x.1 == c) = false := by rw [hx]; exact h1
      simp only [hx, beq_self_eq_true, if_true, h1]
      simpa [hx] using ih
    · have hxk : (x.1 == k) = false := by simpa using hx
      simp only [hxk, Bool.false_eq_true, if_false]
      split
      · rfl
      · exact ih

theorem col?_replace_same (t : Table) (k : String) (col : List Cell) (hk : k ∈ t.cols) :
    Table.col? (t.map fun x => if x.1 == k then (k, col) else x) k = some col := by
  induction t with
  | nil => simp [Table.cols] at hk
  | cons x xs ih =>
    simp only [Table.col?, List.map_cons, List.find?_cons] at ih ⊢
    by_cases hx : x.1 = k
    · simp [hx]
    · have hxk : (x.1 == k) = false := by simpa using hx
      simp only [hxk, Bool.false_eq_true, if_false]
      have hk' : k ∈ Table.cols xs := by
        simp only [Table.cols, List.map_cons, List.mem_cons] at hk
        rcases hk with h | h
        · exact absurd h.symm hx
        · exact h
      exact ih hk'

theorem setConst_spec (t : Table) (k : String) (v : Cell) (ht : t ≠ []) :
    (t.setConst k v).col? k = some (List.replicate t.nrows v) ∧
    ∀ c, c ≠ k → (t.setConst k v).col? c = t.col? c := by
  have hte : t.isEmpty = false := by cases t <;> simp_all
  simp only [Table.setConst, hte, Bool.false_eq_true, if_false]
  by_cases hk : t.cols.contains k = true
  · simp only [hk, if_true]
    constructor
    · exact col?_replace_same t k _ (by simpa using hk)
    · intro c hc; exact col?_replace_other t k _ c hc
  · simp only [hk, Bool.false_eq_true, if_false]
    have hnone : t.col? k = none := by
      simp only [Table.col?, Option.map_eq_none_iff, List.find?_eq_none]
      intro x hx
      have : x.1 ∈ t.cols := List.mem_map.2 ⟨x, hx, rfl⟩
      intro h
      apply hk
      have hxk : x.1 = k := by simpa using h
      simpa [hxk] using this
    constructor
    · simp only [Table.col?, List.find?_append] at hnone ⊢
      cases hf : t.find? (fun x => x.1 == k) with
      | some x => simp [hf] at hnone
      | none => simp
    · intro c hc
      simp only [Table.col?, List.find?_append]
      cases hf : t.find? (fun x => x.1 == c) with
      | some x => simp
      | none =>
        have : (k == c) = false := by simpa using fun h => hc h.symm
        simp [this]

/-- value of parameter `p` among scalar keyword arguments -/
def argOf (kvs : List (String × Cell)) (p : String) : Cell :=
  ((kvs.find? (·.1 == p)).map (·.2)).getD .none

theorem cellAt_scalars (kvs : List (String × Cell)) (p : String) :
    Table.jcellAt (kvs.map fun kv => (kv.1, [kv.2])) p 0 = argOf kvs p := by
  simp only [Table.jcellAt, Table.col?, argOf]
  induction kvs with
  | nil => rfl
  | cons kv kvs ih =>
    simp only [List.map_cons, List.find?_cons]
    split <;> simp_all


end Pyg
