/-
  Helper lemmas for C20: the row loop of `perdictable`, the final sort of `join`, mapM over
  always-succeeding functions.
-/
import PygModel.PerDict
import PygProofs.Lemmas.JoinLemmas

namespace Pyg

/-- is row `i` (re)computed?  (line 336: `rin or rex`) -/
def rowRuns (ds : Table) (hasData : Bool) (today : Int) (i : Nat) : Bool :=
  !hasData || runExpiry today (ds.cellAt "expiry" i)

theorem evalRows_values (f : List Cell → Val) (params : List String) (ds : Table) (hasData : Bool)
    (today : Int) (ids : List Nat) :
    (evalRows f params ds hasData today ids).1 = ids.map fun i =>
      if rowRuns ds hasData today i then f (rowArgs ds params i) else .cell (ds.cellAt "data" i) := by
  induction ids with
  | nil => rfl
  | cons i is ih =>
    simp only [evalRows, List.map_cons, rowRuns]
    split <;> simp_all [rowRuns]

theorem evalRows_log (f : List Cell → Val) (params : List String) (ds : Table) (hasData : Bool)
    (today : Int) (ids : List Nat) :
    (evalRows f params ds hasData today ids).2 =
      (ids.filter (rowRuns ds hasData today)).map (rowArgs ds params) := by
  induction ids with
  | nil => rfl
  | cons i is ih =>
    simp only [evalRows, List.filter_cons, rowRuns]
    split <;> simp_all

theorem mapM_ok {α β} (g : α → β) (xs : List α) :
    xs.mapM (fun x => (Except.ok (g x) : Res β)) = .ok (xs.map g) := by
  induction xs with
  | nil => rfl
  | cons x xs ih => simp [List.mapM_cons, ih, bind, Except.bind, pure, Except.pure]

/-- the keys in sorted-row order are the sorted keys -/
theorem sortIdx_gather (keys : List Val) :
    (sortIdx keys).map (keyAt keys) = sort keys := by
  rw [← Props.C07.sortIdx_keys keys]
  show ((sortedKeyIds keys).map (·.2)).map (keyAt keys) = (sortedKeyIds keys).map (·.1)
  rw [List.map_map]
  apply List.map_congr_left
  intro p hp
  have : keys[p.2]? = some p.1 := mem_sortedKeyIds.1 (by cases p; exact hp)
  simp [keyAt_of_get this]

end Pyg
