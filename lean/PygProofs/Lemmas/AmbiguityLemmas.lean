/-
  C04: the `ambiguous` flag / `first` number of the model's reading are tied to the SEMANTICS of the source regex
  `^[0-9]{1,2}SEP[0-9]{1,2}SEP[0-9]{2,4}` with SEP one of `-`, `/`, blank, `.` (`MatchesAmbiguity`, an independent transcription of the regex as a
  decomposition of the text) and to `int(t[:2].replace(sep, ''))`, for every text the scanner reads at all.
-/
import PygModel.DateParse
import PygProofs.Lemmas.DateTextLemmas
namespace Pyg.DateParse
open Pyg Pyg.Bump

/-- `ambiguity.search(t) is not None`: the text STARTS with 1-2 digits, a separator (one of `-`, `/`, blank, `.`), 1-2 digits, a separator,
2-4 digits (a direct transcription of the regex; the rest of the text is arbitrary) -/
def MatchesAmbiguity (cs : List Char) : Prop :=
  ∃ a b y rest : List Char, ∃ s1 s2 : Char, cs = a ++ s1 :: (b ++ s2 :: (y ++ rest))
    ∧ (1 ≤ a.length ∧ a.length ≤ 2 ∧ ∀ c ∈ a, c.isDigit = true)
    ∧ (1 ≤ b.length ∧ b.length ≤ 2 ∧ ∀ c ∈ b, c.isDigit = true)
    ∧ (2 ≤ y.length ∧ y.length ≤ 4 ∧ ∀ c ∈ y, c.isDigit = true)
    ∧ isDateSep s1 = true ∧ isDateSep s2 = true

/-- `int(t[:2].replace('-','').replace('/','').replace('.',''))` (python's `int` ignores the blank): the value of the digits
among the first two characters -/
def firstTwo (cs : List Char) : Nat := digitsVal ((cs.take 2).filter Char.isDigit)

theorem spanDigits_spec (cs : List Char) :
    cs = (spanDigits cs).1 ++ (spanDigits cs).2 ∧ (∀ c ∈ (spanDigits cs).1, c.isDigit = true) ∧ NonDigitHead (spanDigits cs).2 := by
  induction cs with
  | nil => exact ⟨rfl, by simp [spanDigits], ndh_nil⟩
  | cons c r ih =>
    unfold spanDigits
    by_cases hc : c.isDigit = true
    · simp only [hc, if_true, List.cons_append]
      refine ⟨by rw [← ih.1], ?_, ih.2.2⟩
      intro x hx; simp only [List.mem_cons] at hx
      rcases hx with rfl | hx
      · exact hc
      · exact ih.2.1 x hx
    · simp only [hc]
      exact ⟨rfl, by simp, ndh_cons _ _ (by simpa using hc)⟩

/-- what a `num` / `sep` token at the head of the scanner's output says about the text -/
theorem scan_inv_num (fuel : Nat) (cs : List Char) (v l : Nat) (ts : List Tk) (h : scan fuel cs = .num v l :: ts) :
    ∃ ds rest, cs = ds ++ rest ∧ 1 ≤ ds.length ∧ (∀ c ∈ ds, c.isDigit = true) ∧ NonDigitHead rest ∧ v = digitsVal ds ∧ l = ds.length
      ∧ ts = scan (fuel - 1) rest := by
  cases fuel with
  | zero => simp [scan] at h
  | succ f =>
    cases cs with
    | nil => simp [scan] at h
    | cons c r =>
      unfold scan at h
      by_cases hc : c.isDigit = true
      · simp only [hc, if_true, List.cons.injEq, Tk.num.injEq] at h
        have sp := spanDigits_spec (c :: r)
        refine ⟨(spanDigits (c :: r)).1, (spanDigits (c :: r)).2, sp.1, ?_, sp.2.1, sp.2.2, h.1.1.symm, h.1.2.symm, by simpa using h.2.symm⟩
        unfold spanDigits; simp [hc]
      · simp only [hc] at h
        by_cases ha : c.isAlpha = true
        · simp [ha] at h
        · simp [ha] at h

theorem scan_inv_sep (fuel : Nat) (cs : List Char) (s : Char) (ts : List Tk) (h : scan fuel cs = .sep s :: ts) :
    ∃ rest, cs = s :: rest ∧ ts = scan (fuel - 1) rest := by
  cases fuel with
  | zero => simp [scan] at h
  | succ f =>
    cases cs with
    | nil => simp [scan] at h
    | cons c r =>
      unfold scan at h
      by_cases hc : c.isDigit = true
      · simp [hc] at h
      · simp only [hc] at h
        by_cases ha : c.isAlpha = true
        · simp [ha] at h
        · simp only [ha, Bool.false_eq_true, if_false, List.cons.injEq, Tk.sep.injEq] at h
          exact ⟨r, by rw [h.1], by simpa using h.2.symm⟩

theorem scan_digit_head (fuel : Nat) (hf : 0 < fuel) (c : Char) (r : List Char) (hc : c.isDigit = true) :
    ∃ v l ts, scan fuel (c :: r) = .num v l :: ts := by
  obtain ⟨f, rfl⟩ : ∃ f, fuel = f + 1 := ⟨fuel - 1, by omega⟩
  refine ⟨digitsVal (spanDigits (c :: r)).1, (spanDigits (c :: r)).1.length, scan f (spanDigits (c :: r)).2, ?_⟩
  simp only [scan, hc, if_true]

theorem mk_amb {amb : Bool} {f y m d : Int} {tm : Option (Int × Int)} {p : Parsed} (h : mk amb f y m d tm = some p) :
    p.ambiguous = amb ∧ p.first = f := by
  unfold mk at h
  cases tm with
  | none => simp at h
  | some hm => simp only [Option.map_some, Option.some.injEq] at h; subst h; exact ⟨rfl, rfl⟩

theorem bind_mk_amb {o : Option Int} {y d : Int} {tm : Option (Int × Int)} {p : Parsed}
    (h : (o.bind fun m => mk false 0 y m d tm) = some p) : p.ambiguous = false := by
  cases o with
  | none => simp at h
  | some m => exact (mk_amb (by simpa using h)).1

/-- tokens of the ambiguous shape with a 1-2 digit first number: if they are read at all, they are read as ambiguous with
that first number -/
theorem parseTokens_numeric (va la vb lb v l : Nat) (s1 s2 : Char) (ts : List Tk) (p : Parsed)
    (h : parseTokens (.num va la :: .sep s1 :: .num vb lb :: .sep s2 :: .num v l :: ts) = some p) (hla : la ≤ 2) :
    p.ambiguous = true ∧ p.first = va := by
  unfold parseTokens at h
  split at h
  · next heq =>
    simp only [List.cons.injEq, Tk.num.injEq, Tk.sep.injEq] at heq
    split at h
    · have := mk_amb h; rw [heq.1.1]; exact this
    · exact absurd h (by simp)
  · next heq => simp only [List.cons.injEq, Tk.num.injEq] at heq; omega
  · next heq => simp at heq
  · next heq => simp at heq
  · next heq => simp at heq
  · next heq => simp at heq
  · exact absurd h (by simp)

/-- conversely: whatever the scanner's tokens are, an ambiguous reading comes from tokens of that shape -/
theorem parseTokens_amb_shape (tks : List Tk) (p : Parsed) (h : parseTokens tks = some p) (ha : p.ambiguous = true) :
    ∃ a la b lb y rest s1 s2, tks = .num a la :: .sep s1 :: .num b lb :: .sep s2 :: .num y 4 :: rest
      ∧ la ≤ 2 ∧ lb ≤ 2 ∧ isDateSep s1 = true ∧ isDateSep s2 = true ∧ p.first = a := by
  unfold parseTokens at h
  split at h
  · next a la s1 b lb s2 y rest =>
    split at h
    · next hc => exact ⟨a, la, b, lb, y, rest, s1, s2, rfl, hc.1, hc.2.1, hc.2.2.1, hc.2.2.2, (mk_amb h).2⟩
    · exact absurd h (by simp)
  · split at h
    · have := (mk_amb h).1; rw [ha] at this; exact absurd this (by decide)
    · exact absurd h (by simp)
  · have := (mk_amb h).1; rw [ha] at this; exact absurd this (by decide)
  · split at h
    · have := bind_mk_amb h; rw [ha] at this; exact absurd this (by decide)
    · exact absurd h (by simp)
  · split at h
    · have := bind_mk_amb h; rw [ha] at this; exact absurd this (by decide)
    · exact absurd h (by simp)
  · split at h
    · have := bind_mk_amb h; rw [ha] at this; exact absurd this (by decide)
    · exact absurd h (by simp)
  · exact absurd h (by simp)

theorem firstTwo_numeral (a rest : List Char) (s1 : Char) (h1 : 1 ≤ a.length) (h2 : a.length ≤ 2) (hd : ∀ c ∈ a, c.isDigit = true)
    (hs : s1.isDigit = false) : firstTwo (a ++ s1 :: rest) = digitsVal a := by
  unfold firstTwo
  match a, h1, h2, hd with
  | [x], _, _, hd =>
    have hx : x.isDigit = true := hd x (by simp)
    simp [List.take, List.filter, hx, hs]
  | [x, y], _, _, hd =>
    have hx : x.isDigit = true := hd x (by simp)
    have hy : y.isDigit = true := hd y (by simp)
    simp [List.take, List.filter, hx, hy]

end Pyg.DateParse
