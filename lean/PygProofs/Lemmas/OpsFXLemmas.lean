/-
  Helper lemmas for the DataFrame operands of `pow_`, the comparisons and `min_ / max_` (PygModel/OpsFX.lean): the
  per-column kernel for an arbitrary pointwise function.
-/
import PygModel.OpsFX
import PygProofs.Lemmas.OpsFLemmas
import PygProofs.Lemmas.OpsXLemmas

namespace Pyg.Ops
open Pyg Pyg.Align

abbrev PF := Option Rat → Option Rat → Option Rat

theorem bcastG_tt (f : PF) (ix : List Int) (fa fb : Int → Option Rat) :
    bcast ix (kernelG f (.ts { idx := ix, vals := ix.map fa }) (.ts { idx := ix, vals := ix.map fb })) =
      ix.map fun t => f (fa t) (fb t) := by
  simp [bcast, kernelG, List.zip_map', List.map_map, Function.comp_def]

theorem bcastG_tn (f : PF) (ix : List Int) (fa : Int → Option Rat) (q : Option Rat) :
    bcast ix (kernelG f (.ts { idx := ix, vals := ix.map fa }) (.num q)) = ix.map fun t => f (fa t) q := by
  simp [bcast, kernelG, List.map_map, Function.comp_def]

theorem bcastG_nt (f : PF) (ix : List Int) (fb : Int → Option Rat) (q : Option Rat) :
    bcast ix (kernelG f (.num q) (.ts { idx := ix, vals := ix.map fb })) = ix.map fun t => f q (fb t) := by
  simp [bcast, kernelG, List.map_map, Function.comp_def]

theorem bcastG_nn (f : PF) (ix : List Int) (p q : Option Rat) :
    bcast ix (kernelG f (.num p) (.num q)) = ix.map fun _ => f p q := by
  simp [bcast, kernelG]

/-- one column of the result of two frames with several columns each -/
theorem col_valueG (f : PF) (d : Option Rat) (c : String) (a b : RFrame) (ix : List Int) (m : Option Dir)
    (ha : a.cols.length > 1) (hb : b.cols.length > 1) :
    bcast ix (kernelG f (colArg d c (.df (reindexF a ix m))) (colArg d c (.df (reindexF b ix m)))) =
      ix.map fun t => f (cellD d a m c t) (cellD d b m c t) := by
  rw [colArg_df d c a ix m ha, colArg_df d c b ix m hb]
  unfold cellD
  cases colOf a c <;> cases colOf b c <;> simp only [bcastG_tt, bcastG_tn, bcastG_nt, bcastG_nn]

theorem col_valueG_ts (f : PF) (d : Option Rat) (c : String) (a : RFrame) (s : RSeries) (ix : List Int) (m : Option Dir)
    (ha : a.cols.length > 1) :
    bcast ix (kernelG f (colArg d c (.df (reindexF a ix m))) (colArg d c (.ts (reindexR s ix m)))) =
      ix.map fun t => f (cellD d a m c t) (lookR s m t) := by
  rw [colArg_df d c a ix m ha, reindexR_eq]
  unfold cellD
  cases colOf a c <;> simp only [colArg, bcastG_tt, bcastG_nt]

theorem col_valueG_ts' (f : PF) (d : Option Rat) (c : String) (a : RFrame) (s : RSeries) (ix : List Int) (m : Option Dir)
    (ha : a.cols.length > 1) :
    bcast ix (kernelG f (colArg d c (.ts (reindexR s ix m))) (colArg d c (.df (reindexF a ix m)))) =
      ix.map fun t => f (lookR s m t) (cellD d a m c t) := by
  rw [colArg_df d c a ix m ha, reindexR_eq]
  unfold cellD
  cases colOf a c <;> simp only [colArg, bcastG_tt, bcastG_tn]

theorem col_valueG_num (f : PF) (d : Option Rat) (c : String) (a : RFrame) (q : Option Rat) (ix : List Int) (m : Option Dir)
    (ha : a.cols.length > 1) :
    bcast ix (kernelG f (colArg d c (.df (reindexF a ix m))) (colArg d c (.num q))) =
      ix.map fun t => f (cellD d a m c t) q := by
  rw [colArg_df d c a ix m ha]
  unfold cellD
  cases colOf a c <;> simp only [colArg, bcastG_tn, bcastG_nn]

theorem col_valueG_num' (f : PF) (d : Option Rat) (c : String) (a : RFrame) (q : Option Rat) (ix : List Int) (m : Option Dir)
    (ha : a.cols.length > 1) :
    bcast ix (kernelG f (colArg d c (.num q)) (colArg d c (.df (reindexF a ix m)))) =
      ix.map fun t => f q (cellD d a m c t) := by
  rw [colArg_df d c a ix m ha]
  unfold cellD
  cases colOf a c <;> simp only [colArg, bcastG_nt, bcastG_nn]

theorem kernel_funext (op : Op) : kernel op = kernelG op.appO := by
  funext a b; exact kernel_eq_kernelG op a b

/-- the arithmetic operators on frames are instances of the generic presync kernel -/
theorem binopF_eq_binopFG (op : Op) (how : How) (m : Option Dir) (ch : ColHow) (a b : FOperand) :
    binopF op how m ch a b = binopFG (kernelG op.appO) (some op.neutral) how m ch a b := by
  simp only [binopF, binopFG, kernelF, kernel_funext]

end Pyg.Ops

namespace Pyg.Ops
open Pyg Pyg.Align

/-! ### `min_ / max_` with frames: synchronised operands as functions of (column, label) -/

/-- what an operand shows in cell `(t, c)` after `df_sync`: a frame its (reindexed) cell, NaN without the column; a Series
its (reindexed) value in every column; a scalar itself everywhere -/
def cellM (m : Option Dir) (c : String) (t : Int) : FOperand → Option Rat
  | .df f => cellD Option.none f m c t
  | .ts s => lookR s m t
  | .num q => q

def rankF : FOperand → Nat
  | .num _ => 0
  | .ts _ => 1
  | .df _ => 2

/-- a scalar / Series / frame over `ix` and `cols` given by a function of (column, label) -/
def buildF (ix : List Int) (cols : List String) (r : Nat) (g : String → Int → Option Rat) : FOperand :=
  match r with
  | 0 => .num (g "" 0)
  | 1 => .ts { idx := ix, vals := ix.map (g "") }
  | _ => .df { idx := ix, cols := cols.map fun c => (c, ix.map (g c)) }

/-- the function of a scalar is constant, that of a Series does not depend on the column -/
def ConstF (r : Nat) (g : String → Int → Option Rat) : Prop :=
  (r = 0 → ∀ c t, g c t = g "" 0) ∧ (r = 1 → ∀ c t, g c t = g "" t)

theorem buildF_ge2 (ix : List Int) (cols : List String) (r : Nat) (g : String → Int → Option Rat) (h : 2 ≤ r) :
    buildF ix cols r g = .df { idx := ix, cols := cols.map fun c => (c, ix.map (g c)) } := by
  match r, h with
  | n + 2, _ => rfl

theorem mmKernelF_build (k : MM) (ix : List Int) (cols : List String) (r1 r2 : Nat) (g h : String → Int → Option Rat)
    (hg : ConstF r1 g) (hh : ConstF r2 h) (hc : cols.length ≠ 1 ∨ (r1 ≠ 1 ∧ r2 ≠ 1)) :
    mmKernelF k (buildF ix cols r1 g) (buildF ix cols r2 h) = buildF ix cols (max r1 r2) (fun c t => k.appO (g c t) (h c t)) := by
  have hl : r1 = 1 ∨ r2 = 1 → cols.length ≠ 1 := by
    intro h1; rcases hc with h | h
    · exact h
    · omega
  match r1, r2 with
  | 0, 0 => rfl
  | 0, 1 =>
    simp only [buildF, mmKernelF, Nat.zero_max, List.map_map, Function.comp_def]
    congr 3; funext t; rw [hg.1 rfl "" t]
  | 1, 0 =>
    simp only [buildF, mmKernelF, Nat.max_zero, List.map_map, Function.comp_def]
    congr 3; funext t; rw [hh.1 rfl "" t]
  | 1, 1 =>
    simp only [buildF, mmKernelF, Nat.max_self, List.zip_map', List.map_map, Function.comp_def]
  | 0, n + 2 =>
    rw [buildF_ge2 _ _ (n + 2) h (by omega), buildF_ge2 _ _ (max 0 (n + 2)) _ (by omega)]
    simp only [buildF, mmKernelF, List.map_map, Function.comp_def]
    congr 2
    apply List.map_congr_left
    intro c _
    congr 2; funext t; rw [hg.1 rfl c t]
  | n + 2, 0 =>
    rw [buildF_ge2 _ _ (n + 2) g (by omega), buildF_ge2 _ _ (max (n + 2) 0) _ (by omega)]
    simp only [buildF, mmKernelF, List.map_map, Function.comp_def]
    congr 2
    apply List.map_congr_left
    intro c _
    congr 2; funext t; rw [hh.1 rfl c t]
  | 1, n + 2 =>
    rw [buildF_ge2 _ _ (n + 2) h (by omega), buildF_ge2 _ _ (max 1 (n + 2)) _ (by omega)]
    simp only [buildF, mmKernelF, List.length_map, hl (.inl rfl), if_false, List.map_map, Function.comp_def, List.zip_map']
    congr 2
    apply List.map_congr_left
    intro c _
    congr 2; funext t; rw [hg.2 rfl c t]
  | n + 2, 1 =>
    rw [buildF_ge2 _ _ (n + 2) g (by omega), buildF_ge2 _ _ (max (n + 2) 1) _ (by omega)]
    simp only [buildF, mmKernelF, List.length_map, hl (.inr rfl), if_false, List.map_map, Function.comp_def, List.zip_map']
    congr 2
    apply List.map_congr_left
    intro c _
    congr 2; funext t; rw [hh.2 rfl c t]
  | n + 2, n' + 2 =>
    rw [buildF_ge2 _ _ (n + 2) g (by omega), buildF_ge2 _ _ (n' + 2) h (by omega), buildF_ge2 _ _ (max (n + 2) (n' + 2)) _ (by omega)]
    simp only [mmKernelF, List.map_map, Function.comp_def]
    congr 2
    apply List.map_congr_left
    intro c hc
    rw [colOf_built ix cols (fun c => ix.map (h c)) c hc]
    simp only [Option.getD_some, List.zip_map', List.map_map, Function.comp_def]

theorem constF_combine (k : MM) (r1 r2 : Nat) (g h : String → Int → Option Rat) (hg : ConstF r1 g) (hh : ConstF r2 h) :
    ConstF (max r1 r2) (fun c t => k.appO (g c t) (h c t)) := by
  constructor
  · intro e c t
    have e1 : r1 = 0 := by omega
    have e2 : r2 = 0 := by omega
    simp only [hg.1 e1 c t, hh.1 e2 c t]
  · intro e c t
    have hr : (r1 = 0 ∨ r1 = 1) ∧ (r2 = 0 ∨ r2 = 1) := by omega
    have g1 : g c t = g "" t := by
      rcases hr.1 with e1 | e1
      · rw [hg.1 e1 c t, hg.1 e1 "" t]
      · exact hg.2 e1 c t
    have h1 : h c t = h "" t := by
      rcases hr.2 with e2 | e2
      · rw [hh.1 e2 c t, hh.1 e2 "" t]
      · exact hh.2 e2 c t
    simp only [g1, h1]

/-- the left fold of the kernel over built operands is the built operand of the pointwise left fold -/
theorem foldl_mmKernelF (k : MM) (ix : List Int) (cols : List String) (ys : List (Nat × (String → Int → Option Rat)))
    (r : Nat) (g : String → Int → Option Rat) (hg : ConstF r g) (hys : ∀ y ∈ ys, ConstF y.1 y.2)
    (hc : cols.length ≠ 1 ∨ (r ≠ 1 ∧ ∀ y ∈ ys, y.1 ≠ 1)) :
    (ys.map fun y => buildF ix cols y.1 y.2).foldl (mmKernelF k) (buildF ix cols r g) =
      buildF ix cols (ys.foldl (fun r y => max r y.1) r) (fun c t => ys.foldl (fun v y => k.appO v (y.2 c t)) (g c t)) := by
  induction ys generalizing r g with
  | nil => rfl
  | cons y ys ih =>
    simp only [List.map_cons, List.foldl_cons]
    have hc1 : cols.length ≠ 1 ∨ (r ≠ 1 ∧ y.1 ≠ 1) := by
      rcases hc with h | h
      · exact .inl h
      · exact .inr ⟨h.1, h.2 y (by simp)⟩
    rw [mmKernelF_build k ix cols r y.1 g y.2 hg (hys y (by simp)) hc1]
    refine ih _ _ (constF_combine k r y.1 g y.2 hg (hys y (by simp))) (fun z hz => hys z (by simp [hz])) ?_
    rcases hc with h | h
    · exact .inl h
    · refine .inr ⟨?_, fun z hz => h.2 z (by simp [hz])⟩
      have := h.2 y (by simp)
      omega

/-- a synchronised operand as a built operand -/
theorem recolX_alignF (cols : List String) (ix : List Int) (m : Option Dir) (x : FOperand)
    (hx : ∀ f, x = .df f → f.cols.length > 1) :
    recolX cols (alignF ix m x) = buildF ix cols (rankF x) (fun c t => cellM m c t x) := by
  cases x with
  | num q => rfl
  | ts s => simp only [alignF, recolX, rankF, buildF, cellM, reindexR_eq]
  | df f =>
    have hf := hx f rfl
    have h1 : (reindexF f ix m).cols.length > 1 := by rw [reindexF_ncols]; exact hf
    simp only [alignF, recolX, h1, if_true, rankF, buildF, cellM, recolumnF]
    congr 2
    apply List.map_congr_left
    intro c _
    rw [colOf_reindexF]
    unfold cellD
    cases colOf f c <;> simp [reindexF]

theorem constF_cellM (m : Option Dir) (x : FOperand) : ConstF (rankF x) (fun c t => cellM m c t x) := by
  cases x <;> constructor <;> intro e <;> simp_all [rankF, cellM]

theorem multiNames_align (ix : List Int) (m : Option Dir) (xs : List FOperand)
    (hx : ∀ f, .df f ∈ xs → f.cols.length > 1) :
    multiNames (xs.map (alignF ix m)) = (framesOfX xs).map (·.names) := by
  induction xs with
  | nil => rfl
  | cons x xs ih =>
    have ih' := ih (fun f hf => hx f (by simp [hf]))
    cases x with
    | num q => simpa [multiNames, framesOfX, alignF] using ih'
    | ts s => simpa [multiNames, framesOfX, alignF] using ih'
    | df f =>
      have hf := hx f (by simp)
      simp only [multiNames, framesOfX, List.map_cons, alignF, List.filterMap_cons, reindexF_ncols, hf, if_true, reindexF_names] at ih' ⊢
      rw [ih']

theorem indexesOfF_ne_nil (xs : List FOperand) (f : RFrame) (h : .df f ∈ xs) : indexesOfF xs ≠ [] := by
  induction xs with
  | nil => cases h
  | cons x xs ih =>
    cases x with
    | num q =>
      have : FOperand.df f ∈ xs := by simpa using h
      simpa [indexesOfF] using ih this
    | ts s => simp [indexesOfF]
    | df g => simp [indexesOfF]

theorem rank_fold_ge (ys : List (Nat × (String → Int → Option Rat))) (r : Nat) : r ≤ ys.foldl (fun r y => max r y.1) r := by
  induction ys generalizing r with
  | nil => exact Nat.le_refl _
  | cons y ys ih => exact Nat.le_trans (Nat.le_max_left r y.1) (ih _)

theorem rank_fold_mem (ys : List (Nat × (String → Int → Option Rat))) (r : Nat) (y : Nat × (String → Int → Option Rat)) (h : y ∈ ys) :
    y.1 ≤ ys.foldl (fun r y => max r y.1) r := by
  induction ys generalizing r with
  | nil => cases h
  | cons z zs ih =>
    rcases List.mem_cons.mp h with e | h'
    · subst e; exact Nat.le_trans (Nat.le_max_right r y.1) (rank_fold_ge zs _)
    · exact ih _ h'

end Pyg.Ops

namespace Pyg.Ops

theorem insS_length (c : String) (l : List String) (h : c ∉ l) : (insS c l).length = l.length + 1 := by
  induction l with
  | nil => rfl
  | cons x xs ih =>
    simp only [insS]
    split
    · rfl
    · split
      · rename_i _ e; exact absurd (by simp [e]) h
      · simp only [List.length_cons, ih (fun hc => h (by simp [hc]))]

/-- sorting distinct names keeps their number -/
theorem sortS_length (l : List String) (h : l.Nodup) : (sortS l).length = l.length := by
  induction l with
  | nil => rfl
  | cons x xs ih =>
    have hx := List.nodup_cons.mp h
    have : sortS (x :: xs) = insS x (sortS xs) := rfl
    rw [this, insS_length x _ (fun hc => hx.1 ((mem_sortS xs x).mp hc)), ih hx.2, List.length_cons]

end Pyg.Ops
