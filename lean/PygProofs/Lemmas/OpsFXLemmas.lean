/-
  Helper lemmas for the DataFrame operands of `pow_`, the comparisons and `min_ / max_` (PygModel/OpsFX.lean): the
  per-column kernel for an arbitrary pointwise function.
-/
import PygModel.OpsFX
import PygProofs.Lemmas.OpsFLemmas
import PygProofs.Lemmas.OpsXLemmas

namespace Pyg.Ops
open Pyg Pyg.Align

abbrev PF := Option Rat → Option Rat → Option Rat

theorem bcastG_tt (f : PF) (ix : List Int) (fa fb : Int → Option Rat) :
    bcast ix (kernelG f (.ts { idx := ix, vals := ix.map fa }) (.ts { idx := ix, vals := ix.map fb })) =
      ix.map fun t => f (fa t) (fb t) := by
  simp [bcast, kernelG, List.zip_map', List.map_map, Function.comp_def]

theorem bcastG_tn (f : PF) (ix : List Int) (fa : Int → Option Rat) (q : Option Rat) :
    bcast ix (kernelG f (.ts { idx := ix, vals := ix.map fa }) (.num q)) = ix.map fun t => f (fa t) q := by
  simp [bcast, kernelG, List.map_map, Function.comp_def]

theorem bcastG_nt (f : PF) (ix : List Int) (fb : Int → Option Rat) (q : Option Rat) :
    bcast ix (kernelG f (.num q) (.ts { idx := ix, vals := ix.map fb })) = ix.map fun t => f q (fb t) := by
  simp [bcast, kernelG, List.map_map, Function.comp_def]

theorem bcastG_nn (f : PF) (ix : List Int) (p q : Option Rat) :
    bcast ix (kernelG f (.num p) (.num q)) = ix.map fun _ => f p q := by
  simp [bcast, kernelG]

/-- one column of the result of two frames with several columns each -/
theorem col_valueG (f : PF) (d : Option Rat) (c : String) (a b : RFrame) (ix : List Int) (m : Option Dir)
    (ha : a.cols.length > 1) (hb : b.cols.length > 1) :
    bcast ix (kernelG f (colArg d c (.df (reindexF a ix m))) (colArg d c (.df (reindexF b ix m)))) =
      ix.map fun t => f (cellD d a m c t) (cellD d b m c t) := by
  rw [colArg_df d c a ix m ha, colArg_df d c b ix m hb]
  unfold cellD
  cases colOf a c <;> cases colOf b c <;> simp only [bcastG_tt, bcastG_tn, bcastG_nt, bcastG_nn]

theorem col_valueG_ts (f : PF) (d : Option Rat) (c : String) (a : RFrame) (s : RSeries) (ix : List Int) (m : Option Dir)
    (ha : a.cols.length > 1) :
    bcast ix (kernelG f (colArg d c (.df (reindexF a ix m))) (colArg d c (.ts (reindexR s ix m)))) =
      ix.map fun t => f (cellD d a m c t) (lookR s m t) := by
  rw [colArg_df d c a ix m ha, reindexR_eq]
  unfold cellD
  cases colOf a c <;> simp only [colArg, bcastG_tt, bcastG_nt]

theorem col_valueG_ts' (f : PF) (d : Option Rat) (c : String) (a : RFrame) (s : RSeries) (ix : List Int) (m : Option Dir)
    (ha : a.cols.length > 1) :
    bcast ix (kernelG f (colArg d c (.ts (reindexR s ix m))) (colArg d c (.df (reindexF a ix m)))) =
      ix.map fun t => f (lookR s m t) (cellD d a m c t) := by
  rw [colArg_df d c a ix m ha, reindexR_eq]
  unfold cellD
  cases colOf a c <;> simp only [colArg, bcastG_tt, bcastG_tn]

theorem col_valueG_num (f : PF) (d : Option Rat) (c : String) (a : RFrame) (q : Option Rat) (ix : List Int) (m : Option Dir)
    (ha : a.cols.length > 1) :
    bcast ix (kernelG f (colArg d c (.df (reindexF a ix m))) (colArg d c (.num q))) =
      ix.map fun t => f (cellD d a m c t) q := by
  rw [colArg_df d c a ix m ha]
  unfold cellD
  cases colOf a c <;> simp only [colArg, bcastG_tn, bcastG_nn]

theorem col_valueG_num' (f : PF) (d : Option Rat) (c : String) (a : RFrame) (q : Option Rat) (ix : List Int) (m : Option Dir)
    (ha : a.cols.length > 1) :
    bcast ix (kernelG f (colArg d c (.num q)) (colArg d c (.df (reindexF a ix m)))) =
      ix.map fun t => f q (cellD d a m c t) := by
  rw [colArg_df d c a ix m ha]
  unfold cellD
  cases colOf a c <;> simp only [colArg, bcastG_nt, bcastG_nn]

theorem kernel_funext (op : Op) : kernel op = kernelG op.appO := by
  funext a b; exact kernel_eq_kernelG op a b

/-- the arithmetic operators on frames are instances of the generic presync kernel -/
theorem binopF_eq_binopFG (op : Op) (how : How) (m : Option Dir) (ch : ColHow) (a b : FOperand) :
    binopF op how m ch a b = binopFG (kernelG op.appO) (some op.neutral) how m ch a b := by
  simp only [binopF, binopFG, kernelF, kernel_funext]

end Pyg.Ops
