import PygModel.Slice
import PygProofs.Lemmas.DfSliceLemmas
namespace Pyg.Slice
open List

/-! ### `nona` under the stitch: dropping the NaN rows of the series = dropping the all-NaN rows of the frame -/

/-- a row that holds a value in some column (not NaN throughout) -/
def live (r : Int × List (Option Int)) : Bool := r.2.any Option.isSome

/-- a frame without its all-NaN rows -/
def Frame.dropNaRows (f : Frame) : Frame := ⟨f.width, f.rows.filter live⟩

theorem sorted_pairwise {s : TS} (hs : s.Sorted) : s.Pairwise (fun a b => a.1 < b.1) := by
  simpa [TS.Sorted, TS.index, List.pairwise_map] using hs

theorem nona_sorted {s : TS} (hs : s.Sorted) : (nona s).Sorted := by
  unfold TS.Sorted TS.index at hs ⊢
  exact hs.sublist (List.Sublist.map _ List.filter_sublist)

/-- reading a proper series at `t` does not see the dropped NaN rows -/
theorem get_nona {s : TS} (hs : s.Sorted) (t : Int) : (nona s).get t = s.get t := by
  cases h : s.get t with
  | some x =>
    have hm := (get_eq_some_iff hs t x).mp h
    exact (get_eq_some_iff (nona_sorted hs) t x).mpr (List.mem_filter.mpr ⟨hm, rfl⟩)
  | none =>
    cases h' : (nona s).get t with
    | none => rfl
    | some x =>
      have hm := (get_eq_some_iff (nona_sorted hs) t x).mp h'
      have := (get_eq_some_iff hs t x).mpr (List.mem_filter.mp hm).1
      rw [h] at this; cases this

theorem mem_index_nona {s : TS} (hs : s.Sorted) (t : Int) : t ∈ (nona s).index ↔ (s.get t).isSome = true := by
  simp only [TS.index, List.mem_map, nona, List.mem_filter]
  constructor
  · rintro ⟨p, ⟨hp, hv⟩, rfl⟩
    cases hv' : p.2 with
    | none => simp [hv'] at hv
    | some x =>
      have : (p.1, some x) ∈ s := by rw [← hv']; exact hp
      rw [(get_eq_some_iff hs p.1 x).mpr this]; rfl
  · intro h
    cases hg : s.get t with
    | none => simp [hg] at h
    | some x => exact ⟨(t, some x), ⟨(get_eq_some_iff hs t x).mp hg, rfl⟩, rfl⟩

theorem get_isSome_mem_index {s : TS} {t : Int} (h : (s.get t).isSome = true) : t ∈ s.index := by
  unfold TS.get at h
  cases hf : s.find? (·.1 == t) with
  | none => simp [hf] at h
  | some p =>
    have h1 := List.find?_some hf
    have h2 := List.mem_of_find?_eq_some hf
    simp only [beq_iff_eq] at h1
    simp only [TS.index, List.mem_map]
    exact ⟨p, h2, h1⟩

/-- `pd.concat(axis=1)` of the NaN-dropped series = the side-by-side frame without its all-NaN rows -/
theorem concatCols_nona (S : List TS) (hs : ∀ s ∈ S, s.Sorted) :
    concatCols (S.map nona) = (concatCols S).filter live := by
  apply rows_ext (concatCols_sorted _) ((concatCols_sorted S).sublist List.filter_sublist)
  intro x
  have hget : (S.map nona).map (·.get x.1) = S.map (·.get x.1) := by
    rw [List.map_map]
    apply List.map_congr_left
    intro s hsm
    exact get_nona (hs s hsm) x.1
  rw [List.mem_filter, mem_concatCols, mem_concatCols, hget]
  constructor
  · rintro ⟨⟨s', hs', ht⟩, hx⟩
    obtain ⟨s, hsm, rfl⟩ := List.mem_map.mp hs'
    have hsome := (mem_index_nona (hs s hsm) x.1).mp ht
    refine ⟨⟨⟨s, hsm, get_isSome_mem_index hsome⟩, hx⟩, ?_⟩
    simp only [live, hx, List.any_map, List.any_eq_true]
    exact ⟨s, hsm, hsome⟩
  · rintro ⟨⟨_, hx⟩, hl⟩
    refine ⟨?_, hx⟩
    simp only [live, hx, List.any_map, List.any_eq_true] at hl
    obtain ⟨s, hsm, hsome⟩ := hl
    exact ⟨nona s, List.mem_map.mpr ⟨s, hsm, rfl⟩, (mem_index_nona (hs s hsm) x.1).mpr hsome⟩

theorem ofTS_nona (s : TS) : ofTS (nona s) = (ofTS s).filter live := by
  induction s with
  | nil => rfl
  | cons p s ih =>
    simp only [nona, ofTS, List.filter_cons, List.map_cons] at ih ⊢
    cases hv : p.2 with
    | none => simpa [live, hv] using ih
    | some x => simpa [live, hv] using ih

theorem framesOf_nona (dfs : List TS) (hs : ∀ s ∈ dfs, s.Sorted) (n : Nat) :
    framesOf (dfs.map nona) n = (framesOf dfs n).map Frame.dropNaRows := by
  unfold framesOf
  split
  · simp only [List.length_map, List.map_map]
    apply List.map_congr_left
    intro i _
    have e : ((dfs.map nona).drop i).take n = ((dfs.drop i).take n).map nona := by
      rw [← List.map_drop, ← List.map_take]
    have hs' : ∀ s ∈ (dfs.drop i).take n, s.Sorted := fun s h => hs s (List.mem_of_mem_drop (List.mem_of_mem_take h))
    simp only [Function.comp, Frame.dropNaRows, e, List.length_map, concatCols_nona _ hs']
  · simp only [List.map_map]
    apply List.map_congr_left
    intro s _
    simp [Frame.dropNaRows, ofTS_nona]

theorem live_pad (w : Nat) (r : Int × List (Option Int)) : live (r.1, padRow w r.2) = live r := by
  simp [live, padRow, List.any_append, List.any_replicate]

theorem cut_dropNaRows (l u : Bool) (x : Frame × Option Int × Option Int) :
    cut l u (x.1.dropNaRows, x.2) = (cut l u x).dropNaRows := by
  simp only [cut, Frame.dropNaRows, List.filter_filter]
  congr 2; funext r; exact Bool.and_comm _ _

theorem foldl_width_dropNaRows (P : List Frame) (a : Nat) :
    (P.map Frame.dropNaRows).foldl (fun m f => max m f.width) a = P.foldl (fun m f => max m f.width) a := by
  induction P generalizing a with
  | nil => rfl
  | cons f P ih => simp only [List.map_cons, List.foldl_cons]; exact ih _

/-- `pd.concat` of the pieces without their all-NaN rows = the assembled frame without its all-NaN rows -/
theorem assemble_dropNaRows (P : List Frame) :
    assemble (P.map Frame.dropNaRows) = (assemble P).map Frame.dropNaRows := by
  match P with
  | [] => rfl
  | [x] => rfl
  | a :: b :: rest =>
    have h2 : 2 ≤ (a :: b :: rest).length := by simp
    rw [assemble_many _ h2, assemble_many _ (by simpa using h2), foldl_width_dropNaRows]
    simp only [Option.map_some, Frame.dropNaRows, Option.some.injEq, Frame.mk.injEq, true_and]
    rw [List.flatMap_map, List.filter_flatMap]
    congr 1; funext f
    simp only [List.filter_map]
    congr 1
    apply List.filter_congr
    intro r _
    exact (live_pad _ r).symm

theorem bcast_map {α β} (f : α → β) (n : Nat) (xs : List α) : bcast n (xs.map f) = (bcast n xs).map f := by
  unfold bcast
  simp only [List.length_map]
  split
  · simp [List.map_flatten, List.map_replicate]
  · rfl

theorem zipper3_map_left {α α' β γ} (f : α → α') (xs : List α) (ys : List β) (zs : List γ) :
    zipper3 (xs.map f) ys zs = (zipper3 xs ys zs).map (List.map fun x => (f x.1, x.2)) := by
  unfold zipper3
  simp only [List.length_map]
  cases lens3 xs.length ys.length zs.length with
  | error e => rfl
  | ok m =>
    simp only [bind, Except.bind, pure, Except.pure, Except.map, bcast_map, Except.ok.injEq]
    rw [List.zip_map_left]
    apply List.map_congr_left
    intro x _; rfl

theorem normalise_map (f : TS → TS) (dfs : List TS) (lb ub : Option (List Int)) :
    normalise (dfs.map f) lb ub = (normalise dfs lb ub).map fun x => (x.1.map f, x.2) := by
  cases lb with
  | none =>
    cases ub with
    | none => rfl
    | some ub => simp only [normalise]; split <;> simp [pure, Except.pure, Except.map]
  | some lb =>
    cases ub with
    | none => simp only [normalise]; split <;> simp [pure, Except.pure, Except.map]
    | some ub =>
      simp only [normalise]
      split
      · rfl
      · split <;> simp [pure, Except.pure, Except.map]

theorem normalise_members (dfs : List TS) (lb ub : Option (List Int)) (d : List TS) (lbs ubs : List (Option Int))
    (h : normalise dfs lb ub = .ok (d, lbs, ubs)) : ∀ s ∈ d, s ∈ dfs := by
  cases lb with
  | none =>
    cases ub with
    | none => cases h
    | some ub =>
      simp only [normalise, pure, Except.pure] at h
      split at h <;> (cases h; simp)
  | some lb =>
    cases ub with
    | none =>
      simp only [normalise, pure, Except.pure] at h
      split at h <;> (cases h; simp)
    | some ub =>
      simp only [normalise, pure, Except.pure] at h
      split at h
      · cases h
      · split at h <;> (cases h; simp)

/-- **stitching the NaN-dropped series = the stitched frame minus its all-NaN rows**, every spelling of the bounds,
    every `n`, parsable brackets, proper series -/
theorem stitch_nona_eq (dfs : List TS) (hs : ∀ s ∈ dfs, s.Sorted) (lb ub : Option (List Int)) (oc : Option (List Char))
    (n : Nat) (l u : Bool) (hb : brackets oc = .ok (l, u)) :
    stitch (dfs.map nona) lb ub oc n = (stitch dfs lb ub oc n).map (Option.map Frame.dropNaRows) := by
  unfold stitch
  rw [normalise_map]
  cases hn : normalise dfs lb ub with
  | error e => rfl
  | ok x =>
    obtain ⟨d, lbs, ubs⟩ := x
    have hs' : ∀ s ∈ d, s.Sorted := fun s h => hs s (normalise_members dfs lb ub d lbs ubs hn s h)
    simp only [Except.map, bind, Except.bind]
    rw [framesOf_nona d hs' n, zipper3_map_left]
    cases hz : zipper3 (framesOf d n) lbs ubs with
    | error e => rfl
    | ok dlu =>
      simp only [Except.map, cutAll_eq _ oc l u hb, pure, Except.pure, Except.ok.injEq]
      rw [List.map_map]
      have : (cut l u ∘ fun x : Frame × Option Int × Option Int => (x.1.dropNaRows, x.2)) = Frame.dropNaRows ∘ cut l u := by
        funext x; exact cut_dropNaRows l u x
      rw [this, ← List.map_map, assemble_dropNaRows]

end Pyg.Slice
