/-
  Helper lemmas for the numpy / pandas clauses of C04 (PygModel/NpDate.lean): the floor arithmetic of a datetime64 value,
  `dropTime` of a midnight, the fields of an in-range datetime.
-/
import PygModel.NpDate
import PygProofs.Lemmas.GregPeriod
import PygProofs.Lemmas.BumpLemmas
import PygProofs.Lemmas.MonthLemmas

namespace Pyg.NpDate
open Pyg Pyg.Bump Pyg.DateParse Pyg.Gen Pyg.Greg

theorem EPOCH_val : EPOCH = 62135596800000000 := by decide

/-- `ymd(t)` = `t` minus its time of day -/
theorem dropTime_eq (t : Int) (h0 : 0 ≤ t) (h1 : t < MAXUS) : dropTime t = t - t % DAYUS := by
  have hn : 1 ≤ (ordOf t).toNat ∧ (ordOf t).toNat ≤ 3652059 := by unfold ordOf MAXUS DAYUS at *; omega
  have h := ord_fromOrd_all (ordOf t).toNat hn.1 hn.2
  have e : dropTime t = ofOrd (ordOf t) := by
    unfold dropTime ymdOf mkDate
    simp only [h.2]
    congr 1; unfold ordOf DAYUS at *; omega
  rw [e]; have := split_t t; unfold todOf at this; omega

/-- a midnight is its own day -/
theorem dropTime_midnight (t : Int) (h0 : 0 ≤ t) (h1 : t < MAXUS) (hm : t % DAYUS = 0) : dropTime t = t := by
  rw [dropTime_eq t h0 h1, hm]; omega

/-- the fields of an in-range datetime are a calendar date whose midnight is the day of `t` -/
theorem ymdOf_valid (t : Int) (h0 : 0 ≤ t) (h1 : t < MAXUS) :
    Valid (ymdOf t).y (ymdOf t).m (ymdOf t).d ∧ mkDate (ymdOf t).y (ymdOf t).m (ymdOf t).d = t - t % DAYUS := by
  have hn : 1 ≤ (ordOf t).toNat ∧ (ordOf t).toNat ≤ 3652059 := by unfold ordOf MAXUS DAYUS at *; omega
  have h := ord_fromOrd_all (ordOf t).toNat hn.1 hn.2
  refine ⟨h.1, ?_⟩
  have := dropTime_eq t h0 h1
  unfold dropTime at this
  exact this

/-- the generated class dispatch of `np2dt`, on the three classes numpy produces -/
theorem np2dt_dispatch : Gen.np2dt .datetime = .same ∧ Gen.np2dt .date = .midnight ∧ Gen.np2dt .int = .pdTimestamp := by decide

/-- the value numpy stores for a fixed-length unit, and the instant it denotes: `t` floored to the unit (counted from 1970) -/
theorem instant_fixed (t k : Int) (u : NpUnit) (hk : u.micros = some k) (hpos : 0 < k) (h0 : 0 ≤ t - (t - EPOCH) % k) (h1 : t < MAXUS) :
    (Dt64.mk ((t - EPOCH) / k) u).instant = some (t - (t - EPOCH) % k) := by
  have e : EPOCH + (t - EPOCH) / k * k = t - (t - EPOCH) % k := by
    have := Int.mul_ediv_add_emod (t - EPOCH) k
    rw [Int.mul_comm] at this; omega
  have hm : 0 ≤ (t - EPOCH) % k := Int.emod_nonneg _ (by omega)
  cases u <;> simp only [NpUnit.micros, Option.some.injEq, reduceCtorEq] at hk <;> subst hk <;>
    simp only [Dt64.instant, NpUnit.micros] <;> rw [e, if_pos ⟨h0, by omega⟩]

/-- `dt(x)` when numpy gives a `datetime.datetime` (units h … us): the instant itself -/
theorem dtNp_datetime (x : Dt64) (T : Int) (hi : x.instant = some T) (hu : x.unit.isDateUnit = false) : dtNp x = some (.datetime T) := by
  unfold dtNp np2dt astypePy
  simp [hi, hu, PyTime.cls, np2dt_dispatch.1]

/-- `dt(x)` when numpy gives a `datetime.date` (units Y, M, W, D): rebuilt as `datetime.datetime(res.year, res.month, res.day)` -/
theorem dtNp_date (x : Dt64) (T : Int) (hi : x.instant = some T) (hu : x.unit.isDateUnit = true) : dtNp x = some (.datetime (dropTime T)) := by
  unfold dtNp np2dt astypePy
  simp [hi, hu, PyTime.cls, np2dt_dispatch.2.1]

/-- `dt(x)` for nanoseconds: numpy gives an int, `np2dt` answers `pd.Timestamp(x)` -/
theorem dtNp_ns (v : Int) (h : -9223372036854775808 < v ∧ v < 9223372036854775808) : dtNp ⟨v, .ns⟩ = some (.stamp v) := by
  unfold dtNp np2dt astypePy
  simp [Dt64.instant, Dt64.toStamp, PyTime.cls, np2dt_dispatch.2.2, h.1, h.2]

/-- the first day of the month / year of an in-range datetime -/
theorem first_of_month_valid (t : Int) (h0 : 0 ≤ t) (h1 : t < MAXUS) :
    Valid (ymdOf t).y (ymdOf t).m 1 ∧ Valid (ymdOf t).y 1 1 := by
  have v := (ymdOf_valid t h0 h1).1
  unfold Valid at *
  have := dim_bounds (ymdOf t).y (ymdOf t).m v.2.2.1 v.2.2.2.1
  have := dim_bounds (ymdOf t).y 1 (by omega) (by omega)
  omega

theorem dropTime_mkDate (y m d : Nat) (v : Valid y m d) : dropTime (mkDate y m d) = mkDate y m d := by
  unfold dropTime; rw [ymdOf_mkDate y m d v]

end Pyg.NpDate
