/-
  C01: the dependency loop of `d(**kwargs)` (`Table.callLoop`), `update` in closed form.
-/
import PygProofs.Lemmas.TableAbs

namespace Pyg
open Abs
namespace Table

/-- dependency order of an evaluation sequence: no callable reads a key that a LATER callable defines -/
def DepOrder (order : List (String × Fn)) : Prop :=
  order.Pairwise fun kf later => later.1 ∉ kf.2.args

theorem setFns_append (t : Table) (a b : List (String × Fn)) :
    t.setFns (a ++ b) = match t.setFns a with
      | .error e => .error e
      | .ok t' => t'.setFns b := by
  induction a generalizing t with
  | nil => rfl
  | cons kf a ih =>
    simp only [List.cons_append, setFns]
    cases t.setFn kf with
    | error e => rfl
    | ok t1 => exact ih t1

/-- with distinct keys, dropping the callables whose key was just evaluated = dropping the evaluated ones -/
theorem filter_not_any_key {fns : List (String × Fn)} (hn : (fns.map (·.1)).Nodup) (p : String × Fn → Bool) :
    fns.filter (fun kf => !((fns.filter p).any (·.1 == kf.1))) = fns.filter (fun kf => !p kf) := by
  apply List.filter_congr
  intro kf hkf
  congr 1
  cases hp : p kf with
  | true =>
    apply List.any_eq_true.2
    exact ⟨kf, List.mem_filter.2 ⟨hkf, hp⟩, by simp⟩
  | false =>
    cases ha : (fns.filter p).any (·.1 == kf.1) with
    | false => rfl
    | true =>
      obtain ⟨kf', hkf', hk⟩ := List.any_eq_true.1 ha
      have hk' : kf'.1 = kf.1 := by simpa using hk
      obtain ⟨hm, hp'⟩ := List.mem_filter.1 hkf'
      -- distinct keys: kf' = kf
      have : kf' = kf := by
        clear ha hkf' hk
        induction fns with
        | nil => cases hm
        | cons a as ih =>
          rw [List.map_cons, List.nodup_cons] at hn
          rcases List.mem_cons.1 hm with rfl | hm'
          · rcases List.mem_cons.1 hkf with rfl | hkf'
            · rfl
            · exact absurd (hk' ▸ List.mem_map.2 ⟨kf, hkf', rfl⟩) hn.1
          · rcases List.mem_cons.1 hkf with rfl | hkf'
            · exact absurd (hk'.symm ▸ List.mem_map.2 ⟨kf', hm', rfl⟩) hn.1
            · exact ih hn.2 hkf' hm'
      rw [this, hp] at hp'
      cases hp'

/-- **the dependency loop evaluates every callable exactly once, in a dependency order** -/
theorem callLoop_order (fuel : Nat) (res t' : Table) (fns : List (String × Fn))
    (hn : (fns.map (·.1)).Nodup) (hf : fns.length ≤ fuel) (h : res.callLoop fuel fns = .ok t') :
    ∃ order, order.Perm fns ∧ res.setFns order = .ok t' ∧ DepOrder order := by
  induction fuel generalizing res fns with
  | zero =>
    have : fns = [] := List.eq_nil_of_length_eq_zero (by omega)
    subst this
    exact ⟨[], List.Perm.refl _, h, List.Pairwise.nil⟩
  | succ fuel ih =>
    simp only [callLoop] at h
    split at h
    · rename_i hlen
      split at h
      · cases h
      · rename_i hind
        split at h
        · cases h
        · rename_i res' hres'
          rw [filter_not_any_key hn] at h
          let p : String × Fn → Bool := fun kf => kf.2.args.all fun a => !(fns.map (·.1)).contains a
          have hperm : (fns.filter p ++ fns.filter (fun kf => !p kf)).Perm fns := List.filter_append_perm p fns
          have hpos : 0 < (fns.filter p).length := by
            cases hi : fns.filter p with
            | nil => exact absurd (by rw [show fns.filter p = _ from hi]; rfl) hind
            | cons a as => simp
          have hlen' : (fns.filter fun kf => !p kf).length ≤ fuel := by
            have := hperm.length_eq
            rw [List.length_append] at this
            omega
          have hn' : ((fns.filter fun kf => !p kf).map (·.1)).Nodup :=
            hn.sublist (List.Sublist.map _ List.filter_sublist)
          obtain ⟨order', hp', hs', hd'⟩ := ih res' _ hn' hlen' h
          refine ⟨fns.filter p ++ order', (List.Perm.append_left _ hp').trans hperm, ?_, ?_⟩
          · rw [setFns_append, show res.setFns (fns.filter p) = .ok res' from hres']
            exact hs'
          · apply List.pairwise_append.2
            have hread : ∀ kf ∈ fns.filter p, ∀ kf' ∈ fns, kf'.1 ∉ kf.2.args := by
              intro kf hkf kf' hkf' hmem
              have hpk := (List.mem_filter.1 hkf).2
              have := List.all_eq_true.1 hpk _ hmem
              have hc : (fns.map (·.1)).contains kf'.1 = true :=
                List.contains_iff_mem.2 (List.mem_map.2 ⟨kf', hkf', rfl⟩)
              rw [hc] at this
              cases this
            refine ⟨?_, hd', ?_⟩
            · apply List.pairwise_of_forall_mem_list
              intro a ha b hb
              exact hread a ha b (List.mem_filter.1 hb).1
            · intro a ha b hb
              exact hread a ha b (List.mem_filter.1 (hp'.subset hb)).1
    · rename_i hlen
      refine ⟨fns, List.Perm.refl _, h, ?_⟩
      match fns, hlen with
      | [], _ => exact List.Pairwise.nil
      | [kf], _ => exact List.pairwise_singleton _ _
      | _ :: _ :: _, hlen => simp at hlen

/-! ### the only `ValueError` of the loop is the circular one -/

theorem _root_.Pyg.Abs.mapE_error_mem {α β ε} {f : α → Except ε β} {xs : List α} {e : ε} (h : mapE f xs = .error e) :
    ∃ x ∈ xs, f x = .error e := by
  induction xs with
  | nil => cases h
  | cons x xs ih =>
    simp only [mapE] at h
    cases hx : f x with
    | error e' =>
      rw [hx] at h
      cases h
      exact ⟨x, List.mem_cons_self, hx⟩
    | ok y =>
      rw [hx] at h
      simp only at h
      cases hm : mapE f xs with
      | error e' =>
        rw [hm] at h
        cases h
        obtain ⟨x', hx', hfx'⟩ := ih hm
        exact ⟨x', List.mem_cons_of_mem _ hx', hfx'⟩
      | ok ys => rw [hm] at h; cases h

theorem Fn.eval_error {f : Fn} {row : String → Option Cell} {e : Err} (h : f.eval row = .error e) : e = .type := by
  cases f <;> simp only [Fn.eval] at h
  · split at h <;> cases h; rfl
  · split at h <;> cases h; rfl
  · split at h <;> cases h; rfl
  · cases h

/-- a derived column always fits: `res[k] = res.apply(f)` can only fail inside `f` (TypeError: a parameter
that is not a column) -/
theorem setFn_error {t : Table} {n : Nat} (hr : t.Rect n) {kf : String × Fn} {e : Err}
    (h : t.setFn kf = .error e) : e = .type := by
  unfold setFn at h
  split at h
  · rename_i e' he'
    cases h
    obtain ⟨i, _, hi⟩ := mapE_error_mem he'
    exact Fn.eval_error hi
  · rename_i vs hvs
    have hl : vs.length = t.nrows := by
      have := mapE_ok_length hvs
      simpa using this
    unfold setitem at h
    rw [len_rect' hr] at h
    simp [ColVal.value, hl] at h

theorem setFns_error {t : Table} {n : Nat} (hr : t.Rect n) {fns : List (String × Fn)} {e : Err}
    (h : t.setFns fns = .error e) : e = .type := by
  induction fns generalizing t n with
  | nil => cases h
  | cons kf fns ih =>
    simp only [setFns] at h
    cases hs : t.setFn kf with
    | error e' => rw [hs] at h; cases h; exact setFn_error hr hs
    | ok t1 =>
      rw [hs] at h
      obtain ⟨n1, hn1⟩ := setFn_rect hr hs
      exact ih hn1 h

/-- the loop raises `ValueError` only at a stage where two or more callables are pending and every one of
them reads a pending key (a circular definition) -/
theorem callLoop_value_error (fuel : Nat) {res : Table} {n : Nat} (hr : res.Rect n) (fns : List (String × Fn))
    (h : res.callLoop fuel fns = .error .value) :
    ∃ pending : List (String × Fn), pending.Sublist fns ∧ pending.length > 1 ∧
      ∀ kf ∈ pending, ∃ a ∈ kf.2.args, a ∈ pending.map (·.1) := by
  induction fuel generalizing res n fns with
  | zero => exact absurd (setFns_error hr h) (by decide)
  | succ fuel ih =>
    simp only [callLoop] at h
    split at h
    · rename_i hlen
      split at h
      · rename_i hind
        refine ⟨fns, List.Sublist.refl _, hlen, ?_⟩
        intro kf hkf
        have hnil : fns.filter (fun kf => kf.2.args.all fun a => !(fns.map (·.1)).contains a) = [] := by
          simpa using hind
        have := List.filter_eq_nil_iff.1 hnil kf hkf
        simp only [List.all_eq_true, Bool.not_eq_true'] at this
        have hex : ∃ a ∈ kf.2.args, (fns.map (·.1)).contains a = true := by
          apply Classical.byContradiction
          intro hne
          apply this
          intro a ha
          cases hc : (fns.map (·.1)).contains a with
          | false => rfl
          | true => exact absurd ⟨a, ha, hc⟩ hne
        obtain ⟨a, ha, hc⟩ := hex
        exact ⟨a, ha, List.contains_iff_mem.1 hc⟩
      · split at h
        · rename_i e' he'
          cases h
          exact absurd (setFns_error hr he') (by decide)
        · rename_i res' hres'
          obtain ⟨n', hn'⟩ := setFns_rect _ hr hres'
          obtain ⟨pending, hsub, hl, hp⟩ := ih hn' _ h
          exact ⟨pending, hsub.trans List.filter_sublist, hl, hp⟩
    · exact absurd (setFns_error hr h) (by decide)

/-! ### `update` in closed form -/

theorem update_fits {t : Table} {n : Nat} (hr : t.Rect n) (hne : t ≠ []) (kvs : List (String × ColVal))
    (hfit : ∀ kv ∈ kvs, kv.2.value.length = n ∨ kv.2.value.length = 1) :
    t.update kvs = (t.updateWith (kvs.map fun kv => (kv.1, bcast n kv.2.value)), Option.none) := by
  induction kvs generalizing t with
  | nil => rfl
  | cons kv kvs ih =>
    obtain ⟨k, v⟩ := kv
    have hset : t.setitem k v = .ok (t.set k (bcast n v.value)) := by
      unfold setitem
      rw [len_rect hr hne, isEmpty_false hne]
      simp only [Bool.or_false]
      rcases hfit (k, v) List.mem_cons_self with h | h
      · simp only at h
        rw [if_pos (by simpa using h), bcast_self h]
      · simp only at h
        split
        · rename_i h1
          rw [bcast_self (by simpa using h1)]
        · rw [if_pos (by simpa using h)]
    have hlen : (bcast n v.value).length = n := bcast_length (hfit (k, v) List.mem_cons_self)
    simp only [update, hset]
    rw [ih (set_rect hr hlen) (set_ne_nil _ _ _) fun kv hkv => hfit kv (List.mem_cons_of_mem _ hkv)]
    rfl

theorem updateWith_ne_nil {t : Table} (hne : t ≠ []) (u : Table) : t.updateWith u ≠ [] := by
  unfold updateWith
  induction u generalizing t with
  | nil => exact hne
  | cons kv u ih => exact ih (set_ne_nil _ _ _)

theorem updateWith_rect {t : Table} {n : Nat} (hr : t.Rect n) {u : Table} (h : ∀ kv ∈ u, kv.2.length = n) :
    (t.updateWith u).Rect n := foldl_set_rect u h t hr

theorem update_append {t : Table} (pre post : List (String × ColVal)) :
    t.update (pre ++ post) = match t.update pre with
      | (t', Option.none) => t'.update post
      | (t', some e) => (t', some e) := by
  induction pre generalizing t with
  | nil => rfl
  | cons kv pre ih =>
    obtain ⟨k, v⟩ := kv
    simp only [List.cons_append, update]
    cases t.setitem k v with
    | error e => rfl
    | ok t1 => exact ih

end Table
end Pyg
