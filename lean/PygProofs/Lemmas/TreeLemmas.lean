import PygModel.Tree
import PygProofs.Lemmas.USetLemmas

namespace Pyg.Tree
open Pyg.DA

theorem lookup_of_mem_nodup {V} (k : String) (v : V) : ∀ (kvs : List (String × V)),
    (kvs.map (·.1)).Nodup → (k, v) ∈ kvs → lookup k kvs = some v
  | [], _, h => by simp at h
  | (l, w) :: kvs, hn, h => by
      simp only [List.map_cons, List.nodup_cons] at hn
      simp only [lookup]
      rcases List.mem_cons.1 h with h' | h'
      · cases h'; simp
      · have : k ≠ l := by
          rintro rfl; exact hn.1 (List.mem_map.2 ⟨(k, v), h', rfl⟩)
        simp [this, lookup_of_mem_nodup k v kvs hn.2 h']

mutual
  theorem keys_eq : ∀ t : Val, keys t = (items t).map (·.1)
    | .dict kvs => by simp only [keys, items]; exact keysKVs_eq kvs
    | .cell _ => rfl
    | .list _ => rfl
    | .tuple _ => rfl
  theorem keysKVs_eq : ∀ kvs : List (String × Val), keysKVs kvs = (itemsKVs kvs).map (·.1)
    | [] => rfl
    | (k, v) :: kvs => by
        simp only [keysKVs, itemsKVs, List.map_append, List.map_map, keys_eq v, keysKVs_eq kvs]
        rfl
end

mutual
  theorem values_eq : ∀ t : Val, values t = (items t).map (·.2)
    | .dict kvs => by simp only [values, items]; exact valuesKVs_eq kvs
    | .cell _ => rfl
    | .list _ => rfl
    | .tuple _ => rfl
  theorem valuesKVs_eq : ∀ kvs : List (String × Val), valuesKVs kvs = (itemsKVs kvs).map (·.2)
    | [] => rfl
    | (k, v) :: kvs => by
        simp only [valuesKVs, itemsKVs, List.map_append, List.map_map, values_eq v, valuesKVs_eq kvs]
        rfl
end

mutual
  theorem getItem_items : ∀ (t : Val), wf t = true → ∀ p v, (p, v) ∈ items t → getItem t p = .ok v
    | .dict kvs, h, p, v, hm => by
        simp only [wf, Bool.and_eq_true, decide_eq_true_eq] at h
        simp only [items] at hm
        obtain ⟨k, w, rest, hkw, rfl, hr⟩ := getItem_itemsKVs kvs h.2 p v hm
        simp only [getItem, lookup_of_mem_nodup k w kvs h.1 hkw]
        exact hr
    | .cell c, _, p, v, hm => by simp [items] at hm; obtain ⟨rfl, rfl⟩ := hm; rfl
    | .list c, _, p, v, hm => by simp [items] at hm; obtain ⟨rfl, rfl⟩ := hm; rfl
    | .tuple c, _, p, v, hm => by simp [items] at hm; obtain ⟨rfl, rfl⟩ := hm; rfl
  theorem getItem_itemsKVs : ∀ (kvs : List (String × Val)), wfKVs kvs = true → ∀ p v,
      (p, v) ∈ itemsKVs kvs → ∃ k w rest, (k, w) ∈ kvs ∧ p = k :: rest ∧ getItem w rest = .ok v
    | [], _, p, v, hm => by simp [itemsKVs] at hm
    | (k, w) :: kvs, h, p, v, hm => by
        simp only [wfKVs, Bool.and_eq_true] at h
        simp only [itemsKVs, List.mem_append, List.mem_map] at hm
        rcases hm with ⟨pv, hpv, e⟩ | hm
        · cases e
          exact ⟨k, w, pv.1, by simp, rfl, getItem_items w h.1 pv.1 pv.2 hpv⟩
        · obtain ⟨k', w', rest, hm', e, hr⟩ := getItem_itemsKVs kvs h.2 p v hm
          exact ⟨k', w', rest, by simp [hm'], e, hr⟩
end

/-- writing a leaf at a non-empty path and reading it back (no ignore list) -/
theorem getItem_setKVs : ∀ (p : Path) (kvs : List (String × Val)) (v : Val), p ≠ [] →
    getItem (.dict (setKVs kvs p v [])) p = .ok v
  | [], _, _, h => absurd rfl h
  | [k], kvs, v, _ => by
      simp [setKVs, getItem, lookup_set]; rfl
  | k :: k2 :: rest, kvs, v, _ => by
      simp only [setKVs, getItem, lookup_set, if_true]
      exact getItem_setKVs (k2 :: rest) _ v (by simp)

/-- a path write leaves every other top-level key alone -/
theorem lookup_setKVs_other (p : Path) (kvs : List (String × Val)) (v : Val) (ig : List Val)
    (j : String) (hj : p.head? ≠ some j) : lookup j (setKVs kvs p v ig) = lookup j kvs := by
  match p with
  | [] => rfl
  | [k] =>
    have : j ≠ k := by intro e; apply hj; simp [e]
    simp only [setKVs]; split <;> simp [lookup_set, this]
  | k :: k2 :: rest =>
    have : j ≠ k := by intro e; apply hj; simp [e]
    simp [setKVs, lookup_set, this]

/-- the `ignore` rule at a leaf: an existing value survives exactly when the new one is ignored;
a new key is always written -/
theorem setKVs_leaf (kvs : List (String × Val)) (k : String) (v : Val) (ig : List Val) :
    lookup k (setKVs kvs [k] v ig) =
      match lookup k kvs with
      | some old => if ig.contains v then some old else some v
      | none => some v := by
  simp only [setKVs]
  cases h : lookup k kvs with
  | none => simp [lookup_set]
  | some old =>
    by_cases hi : v ∈ ig
    · simp [hi, h]
    · simp [hi, lookup_set]

/-- rebuilding a flat tree (all values leaves) -/
theorem foldl_setKVs_flat (pairs : List (String × Val)) (base : List (String × Val)) :
    (pairs.map fun kv => ([kv.1], kv.2)).foldl (fun acc (pv : Path × Val) => setKVs acc pv.1 pv.2 []) base
      = setAll base pairs := by
  induction pairs generalizing base with
  | nil => rfl
  | cons p ps ih =>
    simp only [List.map_cons, List.foldl_cons, setAll]
    have : setKVs base [p.1] p.2 [] = set p.1 p.2 base := by simp [setKVs]
    rw [this]
    exact ih _

end Pyg.Tree
