/-
  Helper lemmas for C17 (bitemporal store).  Column level: one date's rows, sorted by stamp.
-/
import PygModel.Bitemp

namespace Pyg.Bitemp
open List

/-! ### the recursive form of `_drop_repeats`' first step -/

/-- drop every row whose forward-filled value equals the forward-filled value before it;
    `prev = none`: no row seen yet, `some p`: `p` is the filled value of the row before -/
def step1 : Option (Option Int) → Store → Store
  | _, [] => []
  | Option.none, r :: rest => r :: step1 (some r.val) rest
  | some p, r :: rest =>
      if npEq (r.val.or p) p then step1 (some (r.val.or p)) rest
      else r :: step1 (some (r.val.or p)) rest

theorem ffillFrom_length (p : Option Int) (vs : List (Option Int)) : (ffillFrom p vs).length = vs.length := by
  induction vs generalizing p with
  | nil => rfl
  | cons v vs ih => simp [ffillFrom, ih]

/-- the vectorised mask of lines 148-152 equals the recursion, for the rows after the first -/
theorem mask_eq_step1 (p : Option Int) (d : Store) :
    ((d.zip ((List.zipWith npEq (ffillFrom p (d.map (·.val))) (p :: ffillFrom p (d.map (·.val)))).map (!·))).filter (·.2)).map (·.1)
      = step1 (some p) d := by
  induction d generalizing p with
  | nil => simp [step1, ffillFrom]
  | cons r rest ih =>
    simp only [List.map_cons, ffillFrom, List.zipWith_cons_cons, List.zip_cons_cons, List.filter_cons, step1]
    by_cases h : npEq (r.val.or p) p = true
    · simp only [h, Bool.not_true, Bool.false_eq_true, if_false, if_true]
      exact ih _
    · simp only [Bool.not_eq_true] at h
      simp only [h, Bool.not_false, if_true, List.map_cons, Bool.false_eq_true, if_false]
      congr 1
      exact ih _

theorem zipWith_take_right {α β γ} (f : α → β → γ) (l : List α) (l' : List β) :
    List.zipWith f l (l'.take l.length) = List.zipWith f l l' := by
  induction l generalizing l' with
  | nil => simp
  | cons a l ih => cases l' with
    | nil => simp
    | cons b l' => simp [ih]

theorem dropLast_cons_ffill (p : Option Int) (vs : List (Option Int)) :
    List.zipWith npEq (ffillFrom p vs) ((p :: ffillFrom p vs).dropLast) = List.zipWith npEq (ffillFrom p vs) (p :: ffillFrom p vs) := by
  rw [List.dropLast_eq_take]
  simpa using zipWith_take_right npEq (ffillFrom p vs) (p :: ffillFrom p vs)

/-- `_drop_repeats` = keep the last row per stamp of the recursion `step1` -/
theorem dropRepeats_eq (d : Store) : dropRepeats d = keepLast (step1 Option.none d) := by
  cases d with
  | nil => simp [dropRepeats, step1, keepLast, ffill, ffillFrom]
  | cons r rest =>
    unfold dropRepeats
    simp only [List.map_cons, ffill, ffillFrom, Option.or_none, List.drop_succ_cons, List.drop_zero,
      List.zip_cons_cons, List.filter_cons, if_true, step1]
    rw [dropLast_cons_ffill, mask_eq_step1]

/-! ### what a column says as of a cut-off: the fold of its visible rows -/

/-- as-of filters: predicates that only look at the stamp and are downward closed -/
def Down (p : Row → Bool) : Prop := ∀ r r' : Row, r'.stamp ≤ r.stamp → p r = true → p r' = true

/-- fold of publications with "no publication yet" (`none`) kept apart from "only NaN so far" (`some none`) -/
def accVal (acc : Option (Option Int)) (rows : Store) : Option (Option Int) :=
  rows.foldl (fun a r => some (r.val.or (a.getD Option.none))) acc

def NanFirst (c : Store) : Prop := c.Pairwise (fun a b => b.val = Option.none → a.val = Option.none)
def SortedLe (c : Store) : Prop := c.Pairwise (fun a b => a.stamp ≤ b.stamp)
def SortedLt (c : Store) : Prop := c.Pairwise (fun a b => a.stamp < b.stamp)

theorem Down.congr {p} (hp : Down p) {r r' : Row} (h : r.stamp = r'.stamp) : p r = p r' := by
  cases h1 : p r <;> cases h2 : p r' <;> simp
  · have := hp r' r (by omega) h2; simp_all
  · have := hp r r' (by omega) h1; simp_all

theorem step1_sublist (prev) (c : Store) : (step1 prev c).Sublist c := by
  induction c generalizing prev with
  | nil => cases prev <;> simp [step1]
  | cons r rest ih =>
    cases prev with
    | none => simpa [step1] using ih _
    | some p =>
      simp only [step1]
      split
      · exact (ih _).cons _
      · exact (ih _).cons_cons _

theorem keepLast_sublist (c : Store) : (keepLast c).Sublist c := by
  induction c with
  | nil => simp [keepLast]
  | cons r rest ih =>
    simp only [keepLast]
    split
    · exact ih.cons _
    · exact ih.cons_cons _

theorem dropRepeats_sublist (c : Store) : (dropRepeats c).Sublist c := by
  rw [dropRepeats_eq]; exact (keepLast_sublist _).trans (step1_sublist _ _)

theorem filter_nil_of_sorted {p} (hp : Down p) {r : Row} {rest : Store} (hs : SortedLe (r :: rest))
    (hr : p r = false) : rest.filter p = [] := by
  rw [List.filter_eq_nil_iff]
  intro r' hr' hp'
  have := hp r' r (List.rel_of_pairwise_cons hs hr') hp'
  simp_all

theorem accVal_cons (acc) (r : Row) (rows : Store) :
    accVal acc (r :: rows) = accVal (some (r.val.or (acc.getD Option.none))) rows := rfl

theorem accVal_append (acc) (a b : Store) : accVal acc (a ++ b) = accVal (accVal acc a) b := by
  simp [accVal, List.foldl_append]

/-- C1: dropping repeats does not change what any as-of cut sees -/
theorem step1_spec {p} (hp : Down p) (prev) (c : Store) (hs : SortedLe c) :
    accVal prev ((step1 prev c).filter p) = accVal prev (c.filter p) := by
  induction c generalizing prev with
  | nil => cases prev <;> simp [step1]
  | cons r rest ih =>
    have hrest : SortedLe rest := hs.tail
    by_cases hr : p r = true
    · cases prev with
      | none =>
        simp only [step1, List.filter_cons, hr, if_true, accVal_cons, Option.getD_none, Option.or_none]
        exact ih _ hrest
      | some q =>
        simp only [step1]
        split
        · rename_i heq
          have hq : r.val.or q = q := by
            revert heq; cases r.val.or q <;> cases q <;> simp [npEq]
          simp only [List.filter_cons, hr, if_true, accVal_cons, Option.getD_some, hq]
          have := ih (some (r.val.or q)) hrest
          rw [hq] at this
          exact this
        · simp only [List.filter_cons, hr, if_true, accVal_cons, Option.getD_some]
          exact ih _ hrest
    · simp only [Bool.not_eq_true] at hr
      have h1 : rest.filter p = [] := filter_nil_of_sorted hp hs hr
      have h2 : ∀ q, (step1 q rest).filter p = [] := fun q =>
        List.eq_nil_of_sublist_nil (h1 ▸ (step1_sublist q rest).filter p)
      cases prev with
      | none => simp [step1, List.filter_cons, hr, h1, h2]
      | some q =>
        simp only [step1]
        split <;> simp [List.filter_cons, hr, h1, h2]

theorem npEq_self_false {f : Option Int} (h : npEq f f = false) : f = Option.none := by
  cases f <;> simp_all [npEq]

/-- C2a: once a non-NaN value has been seen, every kept row carries a value -/
theorem step1_val {f : Option Int} {c : Store} {b : Row} (hb : b ∈ step1 (some f) c) (hv : b.val = Option.none) :
    f = Option.none := by
  induction c generalizing f with
  | nil => simp [step1] at hb
  | cons r rest ih =>
    simp only [step1] at hb
    split at hb
    · have := ih hb
      cases hrv : r.val <;> simp_all
    · rename_i hne
      simp only [Bool.not_eq_true] at hne
      rcases List.mem_cons.mp hb with rfl | hb
      · rw [hv] at hne; simp only [Option.none_or] at hne; exact npEq_self_false hne
      · have := ih hb
        cases hrv : r.val <;> simp_all

theorem step1_nanFirst (prev) (c : Store) : NanFirst (step1 prev c) := by
  induction c generalizing prev with
  | nil => cases prev <;> simp [step1, NanFirst]
  | cons r rest ih =>
    have key : ∀ q, NanFirst (r :: step1 (some (r.val.or q)) rest) := by
      intro q
      refine List.pairwise_cons.mpr ⟨?_, ih _⟩
      intro b hb hv
      have := step1_val hb hv
      cases hrv : r.val <;> simp_all
    cases prev with
    | none => simpa [step1] using key Option.none
    | some q =>
      simp only [step1]
      split
      · exact ih _
      · exact key q

theorem accVal_nonempty_congr (a b : Option (Option Int)) (X : Store) (hX : X ≠ [])
    (h : a.getD Option.none = b.getD Option.none ∨ ∀ r ∈ X, r.val ≠ Option.none) : accVal a X = accVal b X := by
  cases X with
  | nil => exact absurd rfl hX
  | cons x X =>
    simp only [accVal_cons]
    rcases h with h | h
    · rw [h]
    · have := h x (by simp)
      cases hx : x.val <;> simp_all

/-- C3: keeping the last row of each stamp does not change what any as-of cut sees,
    provided NaN rows come first -/
theorem keepLast_spec {p} (hp : Down p) (acc) (c : Store) (hn : NanFirst c) :
    accVal acc ((keepLast c).filter p) = accVal acc (c.filter p) := by
  induction c generalizing acc with
  | nil => simp [keepLast]
  | cons r rest ih =>
    have hrest : NanFirst rest := hn.tail
    simp only [keepLast]
    split
    · rename_i hany
      rw [ih _ hrest]
      by_cases hr : p r = true
      · simp only [List.filter_cons, hr, if_true, accVal_cons]
        obtain ⟨r', hr', hst⟩ := List.any_eq_true.mp hany
        have hst : r'.stamp = r.stamp := by simpa using hst
        have hpr' : p r' = true := by rw [hp.congr hst]; exact hr
        have hX : rest.filter p ≠ [] := by
          intro h; rw [List.filter_eq_nil_iff] at h; exact h r' hr' hpr'
        apply accVal_nonempty_congr _ _ _ hX
        cases hv : r.val with
        | none => left; simp
        | some v =>
          right
          intro x hx hxv
          have := List.rel_of_pairwise_cons hn (List.mem_filter.mp hx).1 hxv
          simp_all
      · simp [List.filter_cons, hr]
    · by_cases hr : p r = true
      · simp only [List.filter_cons, hr, if_true, accVal_cons]; exact ih _ hrest
      · simp only [List.filter_cons, hr]; exact ih _ hrest

theorem keepLast_sortedLt (c : Store) (hs : SortedLe c) : SortedLt (keepLast c) := by
  induction c with
  | nil => simp [keepLast, SortedLt]
  | cons r rest ih =>
    simp only [keepLast]
    split
    · exact ih hs.tail
    · rename_i hany
      refine List.pairwise_cons.mpr ⟨?_, ih hs.tail⟩
      intro b hb
      have hb' : b ∈ rest := (keepLast_sublist rest).subset hb
      have h1 : r.stamp ≤ b.stamp := List.rel_of_pairwise_cons hs hb'
      have h2 : b.stamp ≠ r.stamp := by
        intro h; apply hany; exact List.any_eq_true.mpr ⟨b, hb', by simpa using h⟩
      omega

theorem dropRepeats_spec {p} (hp : Down p) (c : Store) (hs : SortedLe c) :
    accVal Option.none ((dropRepeats c).filter p) = accVal Option.none (c.filter p) := by
  rw [dropRepeats_eq, keepLast_spec hp _ _ (step1_nanFirst _ _), step1_spec hp _ _ hs]

theorem dropRepeats_good (c : Store) (hs : SortedLe c) : SortedLt (dropRepeats c) ∧ NanFirst (dropRepeats c) := by
  rw [dropRepeats_eq]
  exact ⟨keepLast_sortedLt _ (hs.sublist (step1_sublist _ _)), (step1_nanFirst _ _).sublist (keepLast_sublist _)⟩
