/-
  Helper lemmas for C17 (bitemporal store).  Column level: one date's rows, sorted by stamp.
-/
import PygModel.Bitemp

namespace Pyg.Bitemp
open List

/-! ### the recursive form of `_drop_repeats`' first step -/

/-- drop every row whose forward-filled value equals the forward-filled value before it;
    `prev = none`: no row seen yet, `some p`: `p` is the filled value of the row before -/
def step1 : Option (Option Int) → Store → Store
  | _, [] => []
  | Option.none, r :: rest => r :: step1 (some r.val) rest
  | some p, r :: rest =>
      if npEq (r.val.or p) p then step1 (some (r.val.or p)) rest
      else r :: step1 (some (r.val.or p)) rest

theorem ffillFrom_length (p : Option Int) (vs : List (Option Int)) : (ffillFrom p vs).length = vs.length := by
  induction vs generalizing p with
  | nil => rfl
  | cons v vs ih => simp [ffillFrom, ih]

/-- the vectorised mask of lines 148-152 equals the recursion, for the rows after the first -/
theorem mask_eq_step1 (p : Option Int) (d : Store) :
    ((d.zip ((List.zipWith npEq (ffillFrom p (d.map (·.val))) (p :: ffillFrom p (d.map (·.val)))).map (!·))).filter (·.2)).map (·.1)
      = step1 (some p) d := by
  induction d generalizing p with
  | nil => simp [step1, ffillFrom]
  | cons r rest ih =>
    simp only [List.map_cons, ffillFrom, List.zipWith_cons_cons, List.zip_cons_cons, List.filter_cons, step1]
    by_cases h : npEq (r.val.or p) p = true
    · simp only [h, Bool.not_true, Bool.false_eq_true, if_false, if_true]
      exact ih _
    · simp only [Bool.not_eq_true] at h
      simp only [h, Bool.not_false, if_true, List.map_cons, Bool.false_eq_true, if_false]
      congr 1
      exact ih _

theorem zipWith_take_right {α β γ} (f : α → β → γ) (l : List α) (l' : List β) :
    List.zipWith f l (l'.take l.length) = List.zipWith f l l' := by
  induction l generalizing l' with
  | nil => simp
  | cons a l ih => cases l' with
    | nil => simp
    | cons b l' => simp [ih]

theorem dropLast_cons_ffill (p : Option Int) (vs : List (Option Int)) :
    List.zipWith npEq (ffillFrom p vs) ((p :: ffillFrom p vs).dropLast) = List.zipWith npEq (ffillFrom p vs) (p :: ffillFrom p vs) := by
  rw [List.dropLast_eq_take]
  simpa using zipWith_take_right npEq (ffillFrom p vs) (p :: ffillFrom p vs)

/-- `_drop_repeats` = keep the last row per stamp of the recursion `step1` -/
theorem dropRepeats_eq (d : Store) : dropRepeats d = keepLast (step1 Option.none d) := by
  cases d with
  | nil => simp [dropRepeats, step1, keepLast, ffill, ffillFrom]
  | cons r rest =>
    unfold dropRepeats
    simp only [List.map_cons, ffill, ffillFrom, Option.or_none, List.drop_succ_cons, List.drop_zero,
      List.zip_cons_cons, List.filter_cons, if_true, step1]
    rw [dropLast_cons_ffill, mask_eq_step1]

/-! ### what a column says as of a cut-off: the fold of its visible rows -/

/-- as-of filters: predicates that only look at the stamp and are downward closed -/
def Down (p : Row → Bool) : Prop := ∀ r r' : Row, r'.stamp ≤ r.stamp → p r = true → p r' = true

/-- fold of publications with "no publication yet" (`none`) kept apart from "only NaN so far" (`some none`) -/
def accVal (acc : Option (Option Int)) (rows : Store) : Option (Option Int) :=
  rows.foldl (fun a r => some (r.val.or (a.getD Option.none))) acc

def NanFirst (c : Store) : Prop := c.Pairwise (fun a b => b.val = Option.none → a.val = Option.none)
def SortedLe (c : Store) : Prop := c.Pairwise (fun a b => a.stamp ≤ b.stamp)
def SortedLt (c : Store) : Prop := c.Pairwise (fun a b => a.stamp < b.stamp)

theorem Down.congr {p} (hp : Down p) {r r' : Row} (h : r.stamp = r'.stamp) : p r = p r' := by
  cases h1 : p r <;> cases h2 : p r' <;> simp
  · have := hp r' r (by omega) h2; simp_all
  · have := hp r r' (by omega) h1; simp_all

theorem step1_sublist (prev) (c : Store) : (step1 prev c).Sublist c := by
  induction c generalizing prev with
  | nil => cases prev <;> simp [step1]
  | cons r rest ih =>
    cases prev with
    | none => simpa [step1] using ih _
    | some p =>
      simp only [step1]
      split
      · exact (ih _).cons _
      · exact (ih _).cons_cons _

theorem keepLast_sublist (c : Store) : (keepLast c).Sublist c := by
  induction c with
  | nil => simp [keepLast]
  | cons r rest ih =>
    simp only [keepLast]
    split
    · exact ih.cons _
    · exact ih.cons_cons _

theorem dropRepeats_sublist (c : Store) : (dropRepeats c).Sublist c := by
  rw [dropRepeats_eq]; exact (keepLast_sublist _).trans (step1_sublist _ _)

theorem filter_nil_of_sorted {p} (hp : Down p) {r : Row} {rest : Store} (hs : SortedLe (r :: rest))
    (hr : p r = false) : rest.filter p = [] := by
  rw [List.filter_eq_nil_iff]
  intro r' hr' hp'
  have := hp r' r (List.rel_of_pairwise_cons hs hr') hp'
  simp_all

theorem accVal_cons (acc) (r : Row) (rows : Store) :
    accVal acc (r :: rows) = accVal (some (r.val.or (acc.getD Option.none))) rows := rfl

theorem accVal_append (acc) (a b : Store) : accVal acc (a ++ b) = accVal (accVal acc a) b := by
  simp [accVal, List.foldl_append]

/-- C1: dropping repeats does not change what any as-of cut sees -/
theorem step1_spec {p} (hp : Down p) (prev) (c : Store) (hs : SortedLe c) :
    accVal prev ((step1 prev c).filter p) = accVal prev (c.filter p) := by
  induction c generalizing prev with
  | nil => cases prev <;> simp [step1]
  | cons r rest ih =>
    have hrest : SortedLe rest := hs.tail
    by_cases hr : p r = true
    · cases prev with
      | none =>
        simp only [step1, List.filter_cons, hr, if_true, accVal_cons, Option.getD_none, Option.or_none]
        exact ih _ hrest
      | some q =>
        simp only [step1]
        split
        · rename_i heq
          have hq : r.val.or q = q := by
            revert heq; cases r.val.or q <;> cases q <;> simp [npEq]
          simp only [List.filter_cons, hr, if_true, accVal_cons, Option.getD_some, hq]
          have := ih (some (r.val.or q)) hrest
          rw [hq] at this
          exact this
        · simp only [List.filter_cons, hr, if_true, accVal_cons, Option.getD_some]
          exact ih _ hrest
    · simp only [Bool.not_eq_true] at hr
      have h1 : rest.filter p = [] := filter_nil_of_sorted hp hs hr
      have h2 : ∀ q, (step1 q rest).filter p = [] := fun q =>
        List.eq_nil_of_sublist_nil (h1 ▸ (step1_sublist q rest).filter p)
      cases prev with
      | none => simp [step1, hr, h1, h2]
      | some q =>
        simp only [step1]
        split <;> simp [hr, h1, h2]

theorem npEq_self_false {f : Option Int} (h : npEq f f = false) : f = Option.none := by
  cases f <;> simp_all [npEq]

/-- C2a: once a non-NaN value has been seen, every kept row carries a value -/
theorem step1_val {f : Option Int} {c : Store} {b : Row} (hb : b ∈ step1 (some f) c) (hv : b.val = Option.none) :
    f = Option.none := by
  induction c generalizing f with
  | nil => simp [step1] at hb
  | cons r rest ih =>
    simp only [step1] at hb
    split at hb
    · have := ih hb
      cases hrv : r.val <;> simp_all
    · rename_i hne
      simp only [Bool.not_eq_true] at hne
      rcases List.mem_cons.mp hb with rfl | hb
      · rw [hv] at hne; simp only [Option.none_or] at hne; exact npEq_self_false hne
      · have := ih hb
        cases hrv : r.val <;> simp_all

theorem step1_nanFirst (prev) (c : Store) : NanFirst (step1 prev c) := by
  induction c generalizing prev with
  | nil => cases prev <;> simp [step1, NanFirst]
  | cons r rest ih =>
    have key : ∀ q, NanFirst (r :: step1 (some (r.val.or q)) rest) := by
      intro q
      refine List.pairwise_cons.mpr ⟨?_, ih _⟩
      intro b hb hv
      have := step1_val hb hv
      cases hrv : r.val <;> simp_all
    cases prev with
    | none => simpa [step1] using key Option.none
    | some q =>
      simp only [step1]
      split
      · exact ih _
      · exact key q

theorem accVal_nonempty_congr (a b : Option (Option Int)) (X : Store) (hX : X ≠ [])
    (h : a.getD Option.none = b.getD Option.none ∨ ∀ r ∈ X, r.val ≠ Option.none) : accVal a X = accVal b X := by
  cases X with
  | nil => exact absurd rfl hX
  | cons x X =>
    simp only [accVal_cons]
    rcases h with h | h
    · rw [h]
    · have := h x (by simp)
      cases hx : x.val <;> simp_all

/-- C3: keeping the last row of each stamp does not change what any as-of cut sees,
    provided NaN rows come first -/
theorem keepLast_spec {p} (hp : Down p) (acc) (c : Store) (hn : NanFirst c) :
    accVal acc ((keepLast c).filter p) = accVal acc (c.filter p) := by
  induction c generalizing acc with
  | nil => simp [keepLast]
  | cons r rest ih =>
    have hrest : NanFirst rest := hn.tail
    simp only [keepLast]
    split
    · rename_i hany
      rw [ih _ hrest]
      by_cases hr : p r = true
      · simp only [List.filter_cons, hr, if_true, accVal_cons]
        obtain ⟨r', hr', hst⟩ := List.any_eq_true.mp hany
        have hst : r'.stamp = r.stamp := by simpa using hst
        have hpr' : p r' = true := by rw [hp.congr hst]; exact hr
        have hX : rest.filter p ≠ [] := by
          intro h; rw [List.filter_eq_nil_iff] at h; exact h r' hr' hpr'
        apply accVal_nonempty_congr _ _ _ hX
        cases hv : r.val with
        | none => left; simp
        | some v =>
          right
          intro x hx hxv
          have := List.rel_of_pairwise_cons hn (List.mem_filter.mp hx).1 hxv
          simp_all
      · simp [hr]
    · by_cases hr : p r = true
      · simp only [List.filter_cons, hr, if_true, accVal_cons]; exact ih _ hrest
      · simp only [List.filter_cons, hr]; exact ih _ hrest

theorem keepLast_sortedLt (c : Store) (hs : SortedLe c) : SortedLt (keepLast c) := by
  induction c with
  | nil => simp [keepLast, SortedLt]
  | cons r rest ih =>
    simp only [keepLast]
    split
    · exact ih hs.tail
    · rename_i hany
      refine List.pairwise_cons.mpr ⟨?_, ih hs.tail⟩
      intro b hb
      have hb' : b ∈ rest := (keepLast_sublist rest).subset hb
      have h1 : r.stamp ≤ b.stamp := List.rel_of_pairwise_cons hs hb'
      have h2 : b.stamp ≠ r.stamp := by
        intro h; apply hany; exact List.any_eq_true.mpr ⟨b, hb', by simpa using h⟩
      omega

theorem dropRepeats_spec {p} (hp : Down p) (c : Store) (hs : SortedLe c) :
    accVal Option.none ((dropRepeats c).filter p) = accVal Option.none (c.filter p) := by
  rw [dropRepeats_eq, keepLast_spec hp _ _ (step1_nanFirst _ _), step1_spec hp _ _ hs]

theorem dropRepeats_good (c : Store) (hs : SortedLe c) : SortedLt (dropRepeats c) ∧ NanFirst (dropRepeats c) := by
  rw [dropRepeats_eq]
  exact ⟨keepLast_sortedLt _ (hs.sublist (step1_sublist _ _)), (step1_nanFirst _ _).sublist (keepLast_sublist _)⟩

/-! ### the stable sort commutes with row selection -/

theorem split_unique {α} (P : α → Prop) : ∀ {x₁ x₂ y₁ y₂ : List α}, x₁ ++ x₂ = y₁ ++ y₂ →
    (∀ b ∈ x₁, P b) → (∀ b ∈ x₂, ¬ P b) → (∀ b ∈ y₁, P b) → (∀ b ∈ y₂, ¬ P b) → x₁ = y₁ ∧ x₂ = y₂
  | [], x₂, [], y₂, h, _, _, _, _ => ⟨rfl, by simpa using h⟩
  | [], x₂, b :: y₁, y₂, h, _, hx2, hy1, _ => by
      simp only [List.nil_append, List.cons_append] at h
      exact absurd (hy1 b (by simp)) (hx2 b (by simp [h]))
  | a :: x₁, x₂, [], y₂, h, hx1, _, _, hy2 => by
      simp only [List.nil_append, List.cons_append] at h
      exact absurd (hx1 a (by simp)) (hy2 a (by simp [← h]))
  | a :: x₁, x₂, b :: y₁, y₂, h, hx1, hx2, hy1, hy2 => by
      simp only [List.cons_append, List.cons.injEq] at h
      obtain ⟨rfl, h⟩ := h
      have := split_unique P h (fun c hc => hx1 c (by simp [hc])) hx2 (fun c hc => hy1 c (by simp [hc])) hy2
      exact ⟨by rw [this.1], this.2⟩

theorem mergeSort_filter {α} {le : α → α → Bool}
    (trans : ∀ (a b c : α), le a b → le b c → le a c) (total : ∀ (a b : α), le a b || le b a)
    (p : α → Bool) (l : List α) : (l.mergeSort le).filter p = (l.filter p).mergeSort le := by
  induction l with
  | nil => simp
  | cons a l ih =>
    obtain ⟨l₁, l₂, h₁, h₂, h₃⟩ := List.mergeSort_cons trans total a l
    rw [h₁]
    by_cases hp : p a = true
    · simp only [List.filter_append, List.filter_cons, hp, if_true]
      obtain ⟨m₁, m₂, g₁, g₂, g₃⟩ := List.mergeSort_cons trans total a (l.filter p)
      rw [g₁]
      rw [← ih, h₂, List.filter_append] at g₂
      have s1 := List.pairwise_mergeSort trans total (a :: l)
      rw [h₁] at s1
      have s2 := List.pairwise_mergeSort trans total (a :: l.filter p)
      rw [g₁] at s2
      have k1 : ∀ b ∈ l₂.filter p, ¬ (!le a b) = true := by
        intro b hb
        have := (List.pairwise_append.mp s1).2.1
        have := List.rel_of_pairwise_cons this (List.mem_filter.mp hb).1
        simp [this]
      have k2 : ∀ b ∈ m₂, ¬ (!le a b) = true := by
        intro b hb
        have := (List.pairwise_append.mp s2).2.1
        have := List.rel_of_pairwise_cons this hb
        simp [this]
      have := split_unique (fun b => (!le a b) = true) g₂
        (fun b hb => h₃ b (List.mem_filter.mp hb).1) k1 g₃ k2
      rw [this.1, this.2]
    · simp only [Bool.not_eq_true] at hp
      simp only [List.filter_append, List.filter_cons, hp, Bool.false_eq_true, if_false]
      rw [← ih, h₂, List.filter_append]

theorem stampLe_trans (a b c : Row) : stampLe a b → stampLe b c → stampLe a c := by
  simp only [stampLe, decide_eq_true_eq]; omega

theorem stampLe_total (a b : Row) : (stampLe a b || stampLe b a) = true := by
  simp only [stampLe, Bool.or_eq_true, decide_eq_true_eq]; omega

theorem sortStamp_filter (p : Row → Bool) (l : Store) : (sortStamp l).filter p = sortStamp (l.filter p) :=
  mergeSort_filter stampLe_trans stampLe_total p l

theorem sortStamp_of_sorted {c : Store} (h : SortedLe c) : sortStamp c = c :=
  List.mergeSort_of_pairwise (h.imp (by intro a b hab; simpa [stampLe] using hab))

theorem sortStamp_sorted (c : Store) : SortedLe (sortStamp c) :=
  (List.pairwise_mergeSort stampLe_trans stampLe_total c).imp (by intro a b hab; simpa [stampLe] using hab)

theorem mem_sortStamp {r : Row} {c : Store} : r ∈ sortStamp c ↔ r ∈ c := List.mem_mergeSort

theorem group_sortStamp (d : Int) (rows : Store) : group d (sortStamp rows) = sortStamp (group d rows) :=
  sortStamp_filter _ _

/-! ### group keys -/

theorem nodup_eraseDups : ∀ (l : List Int), l.eraseDups.Nodup
  | [] => by simp
  | a :: as => by
      rw [List.eraseDups_cons, List.nodup_cons]
      refine ⟨?_, nodup_eraseDups _⟩
      simp [List.mem_eraseDups]
termination_by l => l.length
decreasing_by simp only [List.length_cons]; exact Nat.lt_succ_of_le (List.length_filter_le _ _)

theorem mem_dates {rows : Store} {d : Int} : d ∈ dates rows ↔ ∃ r ∈ rows, r.date = d := by
  simp [dates, List.mem_mergeSort, List.mem_eraseDups]

theorem dates_nodup (rows : Store) : (dates rows).Nodup :=
  (List.mergeSort_perm _ _).nodup_iff.mpr (nodup_eraseDups _)

theorem dates_sorted (rows : Store) : (dates rows).Pairwise (· < ·) := by
  have h1 : (dates rows).Pairwise (fun a b => decide (a ≤ b) = true) :=
    List.pairwise_mergeSort (by intro a b c; simp only [decide_eq_true_eq]; omega)
      (by intro a b; simp only [Bool.or_eq_true, decide_eq_true_eq]; omega) _
  exact (h1.and (dates_nodup rows)).imp (by intro a b ⟨h, h'⟩; simp only [decide_eq_true_eq] at h; omega)

theorem sortedLt_ext {a b : List Int} (ha : a.Pairwise (· < ·)) (hb : b.Pairwise (· < ·))
    (h : ∀ x, x ∈ a ↔ x ∈ b) : a = b := by
  have na : a.Nodup := ha.imp (by intro x y hxy; omega)
  have nb : b.Nodup := hb.imp (by intro x y hxy; omega)
  exact List.Perm.eq_of_pairwise (le := (· < ·)) (by intro x y _ _ h1 h2; omega) ha hb
    ((List.perm_ext_iff_of_nodup na nb).mpr h)

theorem dates_congr {a b : Store} (h : ∀ d, (∃ r ∈ a, r.date = d) ↔ (∃ r ∈ b, r.date = d)) : dates a = dates b :=
  sortedLt_ext (dates_sorted a) (dates_sorted b) (by intro d; rw [mem_dates, mem_dates]; exact h d)

theorem group_ne_nil {rows : Store} {d : Int} : group d rows ≠ [] ↔ ∃ r ∈ rows, r.date = d := by
  simp [group, List.filter_eq_nil_iff]

theorem mem_group {rows : Store} {d : Int} {r : Row} : r ∈ group d rows ↔ r ∈ rows ∧ r.date = d := by
  simp [group]

/-! ### reads of a well-formed store -/

/-- the as-of filter of `bi_read` as a row predicate; `none` reads everything -/
def vis (asof : Option Int) (r : Row) : Bool :=
  match asof with
  | some T => decide (r.stamp ≤ T)
  | Option.none => true

theorem vis_down (asof : Option Int) : Down (vis asof) := by
  intro r r' h
  cases asof with
  | none => simp [vis]
  | some T => simp only [vis, decide_eq_true_eq]; omega

theorem filter_vis_none (rows : Store) : rows.filter (vis Option.none) = rows := by
  have : vis Option.none = fun _ => true := rfl
  rw [this]; simp

theorem biRead_eq (st : Store) (asof : Option Int) (w : Int) :
    biRead st asof w = (dates (sortStamp (st.filter (vis asof)))).map fun d =>
      (d, nthVal w (group d (sortStamp (st.filter (vis asof))))) := by
  cases asof with
  | none => simp only [biRead, filter_vis_none]
  | some T => rfl

theorem group_filter (d : Int) (q : Row → Bool) (rows : Store) : group d (rows.filter q) = (group d rows).filter q := by
  simp only [group, List.filter_filter]
  congr 1; funext r; exact Bool.and_comm _ _

/-- the fold of the visible publications per date: what every read is compared with -/
def specRows (rows : Store) (asof : Option Int) : TS :=
  (dates (rows.filter (vis asof))).map fun d => (d, lastVal ((group d rows).filter (vis asof)))

theorem specRead_eq (log : List Version) (asof : Option Int) : specRead log asof = specRows (logRows log) asof := by
  cases asof with
  | none => simp only [specRead, specRows, filter_vis_none]
  | some T => simp only [specRead, specRows, group_filter]; rfl

theorem foldl_or_none (X : Store) (h : ∀ r ∈ X, r.val = Option.none) (a : Option Int) :
    X.foldl (fun acc r => r.val.or acc) a = a := by
  induction X generalizing a with
  | nil => rfl
  | cons x X ih =>
    simp only [List.foldl_cons]
    rw [h x (by simp), Option.none_or]
    exact ih (fun r hr => h r (by simp [hr])) a

theorem accVal_some (a : Option Int) (X : Store) :
    accVal (some a) X = some (X.foldl (fun acc r => r.val.or acc) a) := by
  induction X generalizing a with
  | nil => rfl
  | cons x X ih => simp only [accVal_cons, Option.getD_some, List.foldl_cons]; exact ih _

theorem lastVal_eq_getD (X : Store) : lastVal X = (accVal Option.none X).getD Option.none := by
  cases X with
  | nil => rfl
  | cons x X => simp [accVal_cons, accVal_some, lastVal]

theorem accVal_eq_none {X : Store} : accVal Option.none X = Option.none ↔ X = [] := by
  cases X with
  | nil => simp [accVal]
  | cons x X => simp [accVal_cons, accVal_some]

theorem lastVal_snoc (X : Store) (r : Row) : lastVal (X ++ [r]) = r.val.or (lastVal X) := by
  simp [lastVal, List.foldl_append]

theorem nth_neg_one (v : Store) : nth (-1) v = v.getLast? := by
  have h : ¬ (0 : Int) ≤ -1 := by decide
  unfold nth
  rw [if_neg h, List.getLast?_eq_getElem?]
  congr 1
  omega

theorem nth_zero (v : Store) : nth 0 v = v.head? := by
  unfold nth
  cases v <;> simp

/-- on a column whose NaN rows come first, the last row carries the latest non-NaN value -/
theorem getLast_nanFirst (v : Store) (h : NanFirst v) : v.getLast?.bind (·.val) = lastVal v := by
  cases hl : v.getLast? with
  | none => rw [List.getLast?_eq_none_iff.mp hl]; rfl
  | some r =>
    obtain ⟨ys, rfl⟩ := List.getLast?_eq_some_iff.mp hl
    rw [lastVal_snoc]
    cases hv : r.val with
    | some x => simp [hv]
    | none =>
      have hall : ∀ y ∈ ys, y.val = Option.none := by
        intro y hy
        have := (List.pairwise_append.mp h).2.2 y hy r (by simp)
        exact this hv
      simp [hv, lastVal, foldl_or_none ys hall]

/-- every date's rows strictly increasing in stamp and NaN rows first: the shape `bi_merge` leaves -/
def Good (st : Store) : Prop := ∀ d, SortedLt (group d st) ∧ NanFirst (group d st)

/-- two row lists tell the same story: per date, every as-of cut folds to the same value -/
def SpecEq (a b : Store) : Prop :=
  ∀ d p, Down p → accVal Option.none ((group d a).filter p) = accVal Option.none ((group d b).filter p)

theorem SortedLt.le {c : Store} (h : SortedLt c) : SortedLe c := h.imp (by intro a b hab; omega)

theorem dates_sortStamp (rows : Store) : dates (sortStamp rows) = dates rows :=
  dates_congr (by intro d; simp [mem_sortStamp])

/-- L1: an as-of read (`what = -1`) of a well-formed store is the fold of its own visible rows -/
theorem biRead_last (st : Store) (hg : Good st) (asof : Option Int) : biRead st asof (-1) = specRows st asof := by
  rw [biRead_eq]
  unfold specRows
  rw [dates_sortStamp]
  apply List.map_congr_left
  intro d _
  have hs : SortedLe ((group d st).filter (vis asof)) := ((hg d).1.le).sublist List.filter_sublist
  have hn : NanFirst ((group d st).filter (vis asof)) := ((hg d).2).sublist List.filter_sublist
  rw [group_sortStamp, group_filter, sortStamp_of_sorted hs]
  simp only [nthVal, nth_neg_one]
  rw [getLast_nanFirst _ hn]

theorem specRows_congr {a b : Store} (h : SpecEq a b) (asof : Option Int) : specRows a asof = specRows b asof := by
  unfold specRows
  have hd : dates (a.filter (vis asof)) = dates (b.filter (vis asof)) := by
    apply dates_congr
    intro d
    rw [← group_ne_nil, ← group_ne_nil, group_filter, group_filter, Ne, Ne, ← accVal_eq_none, ← accVal_eq_none,
      h d _ (vis_down asof)]
  rw [hd]
  apply List.map_congr_left
  intro d _
  rw [lastVal_eq_getD, lastVal_eq_getD, h d _ (vis_down asof)]

theorem SpecEq.refl (a : Store) : SpecEq a a := fun _ _ _ => rfl
theorem SpecEq.symm {a b : Store} (h : SpecEq a b) : SpecEq b a := fun d p hp => (h d p hp).symm
theorem SpecEq.trans {a b c : Store} (h : SpecEq a b) (h' : SpecEq b c) : SpecEq a c :=
  fun d p hp => (h d p hp).trans (h' d p hp)

/-! ### one merge -/

theorem flatMap_single {α β} [DecidableEq α] (f : α → List β) (d : α) :
    ∀ (l : List α), l.Nodup → (∀ x ∈ l, x ≠ d → f x = []) → l.flatMap f = if d ∈ l then f d else []
  | [], _, _ => by simp
  | x :: l, hn, h => by
    rw [List.nodup_cons] at hn
    rw [List.flatMap_cons, flatMap_single f d l hn.2 (fun y hy => h y (by simp [hy]))]
    by_cases hx : x = d
    · subst hx; simp [hn.1]
    · rw [h x (by simp) hx]
      have : (d = x) = False := by simp; exact fun h => hx h.symm
      simp [this]

/-- D1: per date, the merged frame is `_drop_repeats` of that date's rows in stable stamp order -/
theorem group_mergeFrames (d : Int) (o n : Store) :
    group d (mergeFrames [o, n]) = dropRepeats (sortStamp (group d (o ++ n))) := by
  unfold mergeFrames
  simp only [List.flatten_cons, List.flatten_nil, List.append_nil]
  rw [group, List.filter_flatMap]
  have hne : ∀ x ∈ dates (sortStamp (o ++ n)), x ≠ d →
      List.filter (fun r => r.date == d) (dropRepeats (group x (sortStamp (o ++ n)))) = [] := by
    intro x _ hx
    rw [List.filter_eq_nil_iff]
    intro r hr
    have := (dropRepeats_sublist _).subset hr
    have := (mem_group.mp this).2
    simp; omega
  rw [flatMap_single _ d _ (dates_nodup _) hne]
  have hself : List.filter (fun r => r.date == d) (dropRepeats (group d (sortStamp (o ++ n))))
      = dropRepeats (group d (sortStamp (o ++ n))) := by
    rw [List.filter_eq_self]
    intro r hr
    have := (dropRepeats_sublist _).subset hr
    simpa using (mem_group.mp this).2
  rw [hself, group_sortStamp]
  split
  · rfl
  · rename_i hnot
    have : group d (o ++ n) = [] := by
      by_cases hc : group d (o ++ n) = []
      · exact hc
      · exfalso
        rw [← Ne, group_ne_nil] at hc
        apply hnot
        rw [mem_dates]
        obtain ⟨r, hr, hd⟩ := hc
        exact ⟨r, mem_sortStamp.mpr hr, hd⟩
    rw [this]
    simp [sortStamp, dropRepeats_eq, step1, keepLast]

theorem mergeFrames_good (o n : Store) : Good (mergeFrames [o, n]) := by
  intro d
  rw [group_mergeFrames]
  exact dropRepeats_good _ (sortStamp_sorted _)

theorem mergeFrames_specEq (o n : Store) : SpecEq (mergeFrames [o, n]) (sortStamp (o ++ n)) := by
  intro d p hp
  rw [group_mergeFrames, group_sortStamp]
  exact dropRepeats_spec hp _ (sortStamp_sorted _)

theorem mergeFrames_subset (o n : Store) {r : Row} (h : r ∈ mergeFrames [o, n]) : r ∈ o ++ n := by
  have h1 : r ∈ group r.date (mergeFrames [o, n]) := mem_group.mpr ⟨h, rfl⟩
  rw [group_mergeFrames] at h1
  have := (dropRepeats_sublist _).subset h1
  exact (mem_group.mp (mem_sortStamp.mp this)).1

theorem specEq_sortStamp_of_colSorted (X : Store) (h : ∀ d, SortedLe (group d X)) : SpecEq (sortStamp X) X := by
  intro d p _
  rw [group_sortStamp, sortStamp_of_sorted (h d)]

/-! ### the invariant of a publication history -/

/-- the store tells the same story as the full log, has the shape `bi_merge` leaves, and holds published rows only -/
def Inv (st rows : Store) : Prop := Good st ∧ SpecEq st rows ∧ ∀ r ∈ st, r ∈ rows

theorem group_append (d : Int) (a b : Store) : group d (a ++ b) = group d a ++ group d b := by
  simp [group]

theorem specEq_append {a b : Store} (h : SpecEq a b) (n : Store) : SpecEq (a ++ n) (b ++ n) := by
  intro d p hp
  simp only [group_append, List.filter_append, accVal_append, h d p hp]

/-- one merge of rows stamped no earlier than anything published so far keeps the invariant -/
theorem inv_merge {st rows n : Store} (h : Inv st rows) (hs : SortedLe (rows ++ n)) :
    Inv (mergeFrames [st, n]) (rows ++ n) := by
  obtain ⟨hg, he, hm⟩ := h
  obtain ⟨_, hn, hcross⟩ := List.pairwise_append.mp hs
  refine ⟨mergeFrames_good _ _, ?_, ?_⟩
  · refine (mergeFrames_specEq st n).trans ((specEq_sortStamp_of_colSorted _ ?_).trans (specEq_append he n))
    intro d
    rw [group_append]
    refine List.pairwise_append.mpr ⟨(hg d).1.le, hn.sublist List.filter_sublist, ?_⟩
    intro a ha b hb
    exact hcross a (hm a (mem_group.mp ha).1) b (mem_group.mp hb).1
  · intro r hr
    rcases List.mem_append.mp (mergeFrames_subset _ _ hr) with h1 | h1
    · exact List.mem_append_left _ (hm r h1)
    · exact List.mem_append_right _ h1

theorem logRows_append (a b : List Version) : logRows (a ++ b) = logRows a ++ logRows b := by
  simp [logRows]

theorem logRows_single (v : Version) : logRows [v] = Bi v.ts v.stamp := by
  simp [logRows]

def mergeStep (st : Option Store) (v : Version) : Option Store := some (biMerge st (Bi v.ts v.stamp))

theorem history_eq (log : List Version) : history log = log.foldl mergeStep Option.none := rfl

theorem inv_foldl (rest : List Version) : ∀ (st : Store) (log0 : List Version), Inv st (logRows log0) →
    SortedLe (logRows (log0 ++ rest)) →
    ∃ st', rest.foldl mergeStep (some st) = some st' ∧ Inv st' (logRows (log0 ++ rest)) := by
  induction rest with
  | nil => intro st log0 h _; exact ⟨st, rfl, by simpa using h⟩
  | cons v rest ih =>
    intro st log0 h hs
    have e : log0 ++ v :: rest = (log0 ++ [v]) ++ rest := by simp
    rw [e] at hs ⊢
    have hs1 : SortedLe (logRows (log0 ++ [v])) := by
      rw [logRows_append] at hs; exact (List.pairwise_append.mp hs).1
    have h1 : Inv (mergeFrames [st, Bi v.ts v.stamp]) (logRows (log0 ++ [v])) := by
      rw [logRows_append, logRows_single] at hs1 ⊢
      exact inv_merge h hs1
    exact ih _ _ h1 hs

/-- a stamp-ordered log is stamp-ordered as a list of rows -/
theorem logRows_sorted (log : List Version) (hs : log.Pairwise (fun a b => a.stamp ≤ b.stamp)) :
    SortedLe (logRows log) := by
  unfold logRows SortedLe
  rw [List.pairwise_flatMap]
  refine ⟨?_, hs.imp ?_⟩
  · intro v _
    simp only [Bi, List.pairwise_map]
    exact List.pairwise_of_forall (by intros; simp)
  · intro a b hab x hx y hy
    simp only [Bi, List.mem_map] at hx hy
    obtain ⟨_, _, rfl⟩ := hx
    obtain ⟨_, _, rfl⟩ := hy
    exact hab

theorem good_Bi (ts : TS) (s : Int) (h : ts.Sorted) : Good (Bi ts s) := by
  intro d
  have hd : (group d (Bi ts s)).Pairwise (fun a b => a.date < b.date) := by
    refine List.Pairwise.sublist List.filter_sublist ?_
    simp only [Bi, List.pairwise_map]
    simpa [TS.Sorted, TS.index, List.pairwise_map] using h
  have hfalse : ∀ {a b : Row}, a ∈ group d (Bi ts s) → b ∈ group d (Bi ts s) → a.date < b.date → False := by
    intro a b ha hb hab
    have := (mem_group.mp ha).2
    have := (mem_group.mp hb).2
    omega
  exact ⟨hd.imp_of_mem (fun ha hb hab => (hfalse ha hb hab).elim),
         hd.imp_of_mem (fun ha hb hab => (hfalse ha hb hab).elim)⟩

/-- the invariant holds after any stamp-ordered history -/
theorem history_inv (log : List Version) (hne : log ≠ []) (hwf : ∀ v ∈ log, v.ts.Sorted)
    (hs : log.Pairwise (fun a b => a.stamp ≤ b.stamp)) :
    ∃ st, history log = some st ∧ Inv st (logRows log) := by
  cases log with
  | nil => exact absurd rfl hne
  | cons v rest =>
    have h0 : Inv (Bi v.ts v.stamp) (logRows [v]) := by
      rw [logRows_single]
      exact ⟨good_Bi _ _ (hwf v (by simp)), SpecEq.refl _, fun _ h => h⟩
    have := inv_foldl rest (Bi v.ts v.stamp) [v] h0 (by simpa using logRows_sorted _ hs)
    simpa [history_eq, List.foldl_cons, mergeStep, biMerge] using this

/-! ### `what = 0`: the first published value -/

def firstRows (rows : Store) (asof : Option Int) : TS :=
  (dates (rows.filter (vis asof))).map fun d => (d, firstVal ((group d rows).filter (vis asof)))

theorem specFirst_eq (log : List Version) (asof : Option Int) : specFirst log asof = firstRows (logRows log) asof := by
  cases asof with
  | none => simp only [specFirst, firstRows, filter_vis_none]
  | some T => simp only [specFirst, firstRows, group_filter]; rfl

theorem firstVal_sortedLt (c : Store) (h : SortedLt c) : firstVal c = c.head?.bind (·.val) := by
  cases c with
  | nil => rfl
  | cons r rest =>
    have : (r :: rest).filter (·.stamp == r.stamp) = [r] := by
      simp only [List.filter_cons, beq_self_eq_true, if_true, List.cons.injEq, true_and]
      rw [List.filter_eq_nil_iff]
      intro x hx
      have := List.rel_of_pairwise_cons h hx
      simp; omega
    simp [firstVal, this, lastVal]

theorem biRead_first (st : Store) (hg : Good st) (asof : Option Int) : biRead st asof 0 = firstRows st asof := by
  rw [biRead_eq]
  unfold firstRows
  rw [dates_sortStamp]
  apply List.map_congr_left
  intro d _
  have hs : SortedLt ((group d st).filter (vis asof)) := ((hg d).1).sublist List.filter_sublist
  rw [group_sortStamp, group_filter, sortStamp_of_sorted hs.le, firstVal_sortedLt _ hs]
  simp only [nthVal, nth_zero]

theorem down_le (s : Int) : Down (fun r => decide (r.stamp ≤ s)) := by
  intro r r' h; simp only [decide_eq_true_eq]; omega

theorem head_stamp_le {x y : Row} {X Y : Store} (hY : SortedLe (y :: Y))
    (h : ∀ p, Down p → accVal Option.none ((x :: X).filter p) = accVal Option.none ((y :: Y).filter p)) :
    y.stamp ≤ x.stamp := by
  have h1 := h _ (down_le x.stamp)
  have hne : (x :: X).filter (fun r => decide (r.stamp ≤ x.stamp)) ≠ [] := by simp
  have hne' : (y :: Y).filter (fun r => decide (r.stamp ≤ x.stamp)) ≠ [] := by
    intro hc; rw [hc] at h1; exact hne (accVal_eq_none.mp h1)
  by_cases hy : y.stamp ≤ x.stamp
  · exact hy
  · exfalso; apply hne'
    rw [List.filter_eq_nil_iff]
    intro r hr
    have : y.stamp ≤ r.stamp := by
      rcases List.mem_cons.mp hr with rfl | hr
      · omega
      · exact List.rel_of_pairwise_cons hY hr
    simp only [decide_eq_true_eq]; omega

theorem firstVal_sortedLe (x : Row) (X : Store) (h : SortedLe (x :: X)) :
    firstVal (x :: X) = lastVal ((x :: X).filter (fun r => decide (r.stamp ≤ x.stamp))) := by
  show lastVal ((x :: X).filter (·.stamp == x.stamp)) = _
  congr 1
  apply List.filter_congr
  intro r hr
  have : x.stamp ≤ r.stamp := by
    rcases List.mem_cons.mp hr with rfl | hr
    · omega
    · exact List.rel_of_pairwise_cons h hr
  rw [Bool.eq_iff_iff]; simp only [beq_iff_eq, decide_eq_true_eq]; omega

theorem firstVal_congr (X Y : Store) (hX : SortedLe X) (hY : SortedLe Y)
    (h : ∀ p, Down p → accVal Option.none (X.filter p) = accVal Option.none (Y.filter p)) : firstVal X = firstVal Y := by
  have htrue : Down (fun _ => true) := fun _ _ _ _ => rfl
  have ft : ∀ l : Store, l.filter (fun _ => true) = l := by intro l; simp
  cases X with
  | nil =>
    have := h _ htrue
    simp only [ft] at this
    rw [accVal_eq_none.mp this.symm]
  | cons x X =>
    cases Y with
    | nil =>
      have := h _ htrue
      simp only [ft] at this
      exact absurd (accVal_eq_none.mp this) (by simp)
    | cons y Y =>
      have e : x.stamp = y.stamp :=
        Int.le_antisymm (head_stamp_le hX (fun p hp => (h p hp).symm)) (head_stamp_le hY h)
      rw [firstVal_sortedLe x X hX, firstVal_sortedLe y Y hY, lastVal_eq_getD, lastVal_eq_getD, ← e,
        h _ (down_le x.stamp)]

theorem firstRows_congr {a b : Store} (h : SpecEq a b) (ha : ∀ d, SortedLe (group d a)) (hb : ∀ d, SortedLe (group d b))
    (asof : Option Int) : firstRows a asof = firstRows b asof := by
  unfold firstRows
  have hd : dates (a.filter (vis asof)) = dates (b.filter (vis asof)) := by
    apply dates_congr
    intro d
    rw [← group_ne_nil, ← group_ne_nil, group_filter, group_filter, Ne, Ne, ← accVal_eq_none, ← accVal_eq_none,
      h d _ (vis_down asof)]
  rw [hd]
  apply List.map_congr_left
  intro d _
  congr 1
  apply firstVal_congr _ _ ((ha d).sublist List.filter_sublist) ((hb d).sublist List.filter_sublist)
  intro p hp
  rw [List.filter_filter, List.filter_filter]
  apply h d
  intro r r' hrr hr
  simp only [Bool.and_eq_true] at hr ⊢
  exact ⟨hp r r' hrr hr.1, vis_down asof r r' hrr hr.2⟩

/-! ### re-merging a version that is visible in the store -/

theorem sorted_split {q} (hq : Down q) (Z : Store) (hs : SortedLe Z) :
    Z.filter q ++ Z.filter (fun r => !q r) = Z := by
  induction Z with
  | nil => rfl
  | cons z Z ih =>
    by_cases hz : q z = true
    · simp only [List.filter_cons, hz, if_true, Bool.not_true, Bool.false_eq_true, if_false, List.cons_append]
      rw [ih hs.tail]
    · simp only [Bool.not_eq_true] at hz
      have h1 := filter_nil_of_sorted hq hs hz
      have h2 : Z.filter (fun r => !q r) = Z := by
        rw [List.filter_eq_self]
        intro r hr
        have := List.filter_eq_nil_iff.mp h1 r hr
        simpa using this
      simp [hz, h1, h2]

/-- stable sort of a sorted column followed by rows of one stamp `s`: the new rows go after everything
    stamped `≤ s` -/
theorem sortStamp_append_const (c n : Store) (s : Int) (hc : SortedLe c) (hn : ∀ r ∈ n, r.stamp = s) :
    sortStamp (c ++ n) = c.filter (fun r => decide (r.stamp ≤ s)) ++ n ++ c.filter (fun r => !decide (r.stamp ≤ s)) := by
  have hq := down_le s
  have h := (sorted_split hq _ (sortStamp_sorted (c ++ n))).symm
  have n1 : n.filter (fun r => decide (r.stamp ≤ s)) = n := by
    rw [List.filter_eq_self]; intro r hr; simp [hn r hr]
  have n2 : n.filter (fun r => !decide (r.stamp ≤ s)) = [] := by
    rw [List.filter_eq_nil_iff]; intro r hr; simp [hn r hr]
  rw [sortStamp_filter, sortStamp_filter, List.filter_append, List.filter_append, n1, n2, List.append_nil] at h
  have s1 : SortedLe (c.filter (fun r => decide (r.stamp ≤ s)) ++ n) := by
    refine List.pairwise_append.mpr ⟨hc.sublist List.filter_sublist, ?_, ?_⟩
    · exact List.pairwise_of_forall_mem_list (by intro a ha b hb; rw [hn a ha, hn b hb]; omega)
    · intro a ha b hb
      have := (List.mem_filter.mp ha).2
      simp only [decide_eq_true_eq] at this
      rw [hn b hb]; exact this
  rw [sortStamp_of_sorted s1, sortStamp_of_sorted (hc.sublist List.filter_sublist)] at h
  exact h

theorem accVal_noop (y : Option Int) (n : Store) (h : ∀ r ∈ n, r.val = Option.none ∨ r.val = y) :
    accVal (some y) n = some y := by
  induction n with
  | nil => rfl
  | cons r n ih =>
    rw [accVal_cons, Option.getD_some]
    have : r.val.or y = y := by
      rcases h r (by simp) with h | h <;> rw [h]
      · rfl
      · cases y <;> rfl
    rw [this]
    exact ih (fun r' hr' => h r' (by simp [hr']))

theorem accVal_ne_nil (X : Store) (h : X ≠ []) : accVal Option.none X = some (lastVal X) := by
  rw [lastVal_eq_getD]
  cases hX : accVal Option.none X with
  | none => exact absurd (accVal_eq_none.mp hX) h
  | some a => rfl

/-- column level: appending rows stamped `s` whose values are NaN or the value visible as of `s`
    changes no as-of cut -/
theorem remerge_col {p} (hp : Down p) (c n : Store) (s : Int) (hc : SortedLe c) (hn : ∀ r ∈ n, r.stamp = s)
    (hne : n ≠ [] → c.filter (fun r => decide (r.stamp ≤ s)) ≠ [])
    (hv : ∀ r ∈ n, r.val = Option.none ∨ r.val = lastVal (c.filter (fun r => decide (r.stamp ≤ s)))) :
    accVal Option.none ((sortStamp (c ++ n)).filter p) = accVal Option.none (c.filter p) := by
  rw [sortStamp_append_const c n s hc hn]
  conv => rhs; rw [← sorted_split (down_le s) c hc]
  simp only [List.filter_append, accVal_append]
  congr 1
  by_cases hn0 : n = []
  · subst hn0; rfl
  · obtain ⟨r0, hr0⟩ := List.exists_mem_of_ne_nil n hn0
    by_cases hps : p r0 = true
    · have n1 : n.filter p = n := by
        rw [List.filter_eq_self]; intro r hr; rw [hp.congr (r' := r0) (by rw [hn r hr, hn r0 hr0])]; exact hps
      have c1 : (c.filter (fun r => decide (r.stamp ≤ s))).filter p = c.filter (fun r => decide (r.stamp ≤ s)) := by
        rw [List.filter_eq_self]; intro r hr
        have := (List.mem_filter.mp hr).2
        simp only [decide_eq_true_eq] at this
        exact hp r0 r (by rw [hn r0 hr0]; exact this) hps
      rw [n1, c1, accVal_ne_nil _ (hne hn0)]
      exact accVal_noop _ _ hv
    · have n1 : n.filter p = [] := by
        rw [List.filter_eq_nil_iff]; intro r hr; rw [hp.congr (r' := r0) (by rw [hn r hr, hn r0 hr0])]; exact hps
      rw [n1]; rfl

theorem mem_specRows {rows : Store} {asof : Option Int} {d : Int} {y : Option Int} (h : (d, y) ∈ specRows rows asof) :
    (group d rows).filter (vis asof) ≠ [] ∧ y = lastVal ((group d rows).filter (vis asof)) := by
  simp only [specRows, List.mem_map, Prod.mk.injEq] at h
  obtain ⟨d', hd', rfl, rfl⟩ := h
  refine ⟨?_, rfl⟩
  rw [← group_filter, group_ne_nil]
  exact mem_dates.mp hd'

/-- store level: re-merging a version whose values are NaN or the values visible as of its stamp -/
theorem remerge_specEq (st : Store) (hg : Good st) (w : Version)
    (hvis : ∀ p ∈ w.ts, ∃ y, (p.1, y) ∈ biRead st (some w.stamp) (-1) ∧ (p.2 = Option.none ∨ p.2 = y)) :
    SpecEq (mergeFrames [st, Bi w.ts w.stamp]) st := by
  refine (mergeFrames_specEq _ _).trans ?_
  intro d p hp
  rw [group_sortStamp, group_append]
  have hmem : ∀ r ∈ group d (Bi w.ts w.stamp), ∃ q ∈ w.ts, q.1 = d ∧ r.val = q.2 ∧ r.stamp = w.stamp := by
    intro r hr
    obtain ⟨h1, h2⟩ := mem_group.mp hr
    simp only [Bi, List.mem_map] at h1
    obtain ⟨q, hq, rfl⟩ := h1
    exact ⟨q, hq, h2, rfl, rfl⟩
  have key : ∀ r ∈ group d (Bi w.ts w.stamp),
      (group d st).filter (fun r => decide (r.stamp ≤ w.stamp)) ≠ [] ∧
      (r.val = Option.none ∨ r.val = lastVal ((group d st).filter (fun r => decide (r.stamp ≤ w.stamp)))) := by
    intro r hr
    obtain ⟨q, hq, hqd, hrv, _⟩ := hmem r hr
    obtain ⟨y, hy, hor⟩ := hvis q hq
    rw [biRead_last st hg, hqd] at hy
    obtain ⟨h1, h2⟩ := mem_specRows hy
    refine ⟨h1, ?_⟩
    rw [hrv]
    rcases hor with h | h
    · exact Or.inl h
    · exact Or.inr (h.trans h2)
  apply remerge_col hp _ _ w.stamp (hg d).1.le (fun r hr => (hmem r hr).choose_spec.2.2.2)
  · intro hne
    obtain ⟨r0, hr0⟩ := List.exists_mem_of_ne_nil _ hne
    exact (key r0 hr0).1
  · intro r hr; exact (key r hr).2

/-! ### merging a list of versions in one call -/

theorem mergeFrames_congr {a b : List Store} (h : a.flatten = b.flatten) : mergeFrames a = mergeFrames b := by
  unfold mergeFrames; rw [h]

def frames (b : List Version) : List Store := b.map fun v => Bi v.ts v.stamp

theorem frames_flatten (b : List Version) : (frames b).flatten = logRows b := by
  simp [frames, logRows, List.flatMap_def]

/-- the invariant of a history that may not have started yet -/
def BInv (st : Option Store) (log0 : List Version) : Prop :=
  match st with
  | Option.none => log0 = []
  | some s => Inv s (logRows log0)

theorem inv_nil : Inv [] [] :=
  ⟨fun d => by simp [group, SortedLt, NanFirst], SpecEq.refl _, fun _ h => h⟩

theorem binv_step (st : Option Store) (log0 b : List Version) (h : BInv st log0) (hwf : ∀ v ∈ b, v.ts.Sorted)
    (hs : SortedLe (logRows (log0 ++ b))) : BInv (biMergeL st (frames b)) (log0 ++ b) := by
  rw [logRows_append] at hs
  cases st with
  | none =>
    have h0 : log0 = [] := h
    subst h0
    match b, hwf, hs with
    | [], _, _ => exact rfl
    | [v], hwf, _ =>
      show Inv (Bi v.ts v.stamp) (logRows ([] ++ [v]))
      rw [List.nil_append, logRows_single]
      exact ⟨good_Bi _ _ (hwf v (by simp)), SpecEq.refl _, fun _ h => h⟩
    | v1 :: v2 :: rest, _, hs =>
      show Inv (mergeFrames (frames (v1 :: v2 :: rest))) (logRows ([] ++ v1 :: v2 :: rest))
      have e : mergeFrames (frames (v1 :: v2 :: rest)) = mergeFrames [[], logRows (v1 :: v2 :: rest)] :=
        mergeFrames_congr (by rw [frames_flatten]; simp)
      rw [e, logRows_append]
      exact inv_merge (by simpa [logRows] using inv_nil) hs
  | some s =>
    have hi : Inv s (logRows log0) := h
    match b, hs with
    | [], _ => simpa [BInv, biMergeL, frames] using hi
    | v :: rest, hs =>
      show Inv (mergeFrames (s :: frames (v :: rest))) (logRows (log0 ++ v :: rest))
      have e : mergeFrames (s :: frames (v :: rest)) = mergeFrames [s, logRows (v :: rest)] :=
        mergeFrames_congr (by rw [List.flatten_cons, frames_flatten]; simp)
      rw [e, logRows_append]
      exact inv_merge hi hs

theorem historyL_eq (batches : List (List Version)) :
    historyL batches = batches.foldl (fun st b => biMergeL st (frames b)) Option.none := rfl

theorem binv_foldl (rest : List (List Version)) : ∀ (st : Option Store) (log0 : List Version), BInv st log0 →
    (∀ b ∈ rest, ∀ v ∈ b, v.ts.Sorted) → SortedLe (logRows (log0 ++ rest.flatten)) →
    BInv (rest.foldl (fun st b => biMergeL st (frames b)) st) (log0 ++ rest.flatten) := by
  induction rest with
  | nil => intro st log0 h _ _; simpa using h
  | cons b rest ih =>
    intro st log0 h hwf hs
    have e : log0 ++ (b :: rest).flatten = (log0 ++ b) ++ rest.flatten := by simp
    rw [e] at hs ⊢
    have hs1 : SortedLe (logRows (log0 ++ b)) := by
      rw [logRows_append] at hs; exact (List.pairwise_append.mp hs).1
    exact ih _ _ (binv_step st log0 b h (hwf b (by simp)) hs1) (fun b' hb' => hwf b' (by simp [hb'])) hs

/-- the invariant after any stamp-ordered history of batches -/
theorem historyL_inv (batches : List (List Version)) (hne : batches.flatten ≠ [])
    (hwf : ∀ v ∈ batches.flatten, v.ts.Sorted)
    (hs : batches.flatten.Pairwise (fun a b => a.stamp ≤ b.stamp)) :
    ∃ st, historyL batches = some st ∧ Inv st (logRows batches.flatten) := by
  have := binv_foldl batches Option.none [] rfl
    (fun b hb v hv => hwf v (List.mem_flatten.mpr ⟨b, hb, hv⟩)) (by simpa using logRows_sorted _ hs)
  rw [← historyL_eq, List.nil_append] at this
  cases hh : historyL batches with
  | none => rw [hh] at this; exact absurd this hne
  | some st => rw [hh] at this; exact ⟨st, rfl, this⟩

/-- a publication history the property speaks about: non-empty, every version a proper series,
    merged in non-decreasing stamp order -/
structure Ordered (log : List Version) : Prop where
  ne : log ≠ []
  wf : ∀ v ∈ log, v.ts.Sorted
  stamps : log.Pairwise (fun a b => a.stamp ≤ b.stamp)

/-! ### helpers for the literal clauses, the declarative value characterisation and `historyE` (review r5) -/

/-- the publications visible as of `T` (`none`: all of them) -/
def pubs (log : List Version) (asof : Option Int) : Store := (logRows log).filter (vis asof)

theorem specFirstLiteral_eq (log : List Version) (asof : Option Int) :
    specFirstLiteral log asof = (dates (pubs log asof)).map fun d => (d, (group d (pubs log asof)).head?.bind (·.val)) := by
  cases asof with
  | none => simp only [specFirstLiteral, pubs, filter_vis_none]
  | some T => rfl

theorem specFirst_eq_pubs (log : List Version) (asof : Option Int) :
    specFirst log asof = (dates (pubs log asof)).map fun d => (d, firstVal (group d (pubs log asof))) := by
  cases asof with
  | none => simp only [specFirst, pubs, filter_vis_none]
  | some T => rfl

/-- in a column strictly increasing in stamp, the rows stamped no later than a member `r` end with `r` -/
theorem filter_le_of_mem (c : Store) (hs : SortedLt c) (r : Row) (hr : r ∈ c) :
    ∃ A, c.filter (fun q => decide (q.stamp ≤ r.stamp)) = A ++ [r] := by
  obtain ⟨A, B, rfl⟩ := List.append_of_mem hr
  refine ⟨A, ?_⟩
  obtain ⟨_, hB, hAB⟩ := List.pairwise_append.mp hs
  have hA' : A.filter (fun q => decide (q.stamp ≤ r.stamp)) = A := by
    rw [List.filter_eq_self]; intro a ha
    have := hAB a ha r (by simp)
    simp only [decide_eq_true_eq]; omega
  have hB' : B.filter (fun q => decide (q.stamp ≤ r.stamp)) = [] := by
    rw [List.filter_eq_nil_iff]; intro b hb
    have := List.rel_of_pairwise_cons hB hb
    simp only [decide_eq_true_eq]; omega
  simp [List.filter_append, hA', hB']

/-- a version whose rows are rows of the store shows, as of its stamp, exactly its own values -/
theorem rows_in_store_visible (st : Store) (hg : Good st) (w : Version)
    (hin : ∀ p ∈ w.ts, (⟨p.1, w.stamp, p.2⟩ : Row) ∈ st) :
    ∀ p ∈ w.ts, ∃ y, (p.1, y) ∈ biRead st (some w.stamp) (-1) ∧ (p.2 = Option.none ∨ p.2 = y) := by
  intro p hp
  have hr := hin p hp
  have hgr : (⟨p.1, w.stamp, p.2⟩ : Row) ∈ group p.1 st := mem_group.mpr ⟨hr, rfl⟩
  obtain ⟨A, hA⟩ := filter_le_of_mem _ (hg p.1).1 _ hgr
  refine ⟨lastVal ((group p.1 st).filter (vis (some w.stamp))), ?_, ?_⟩
  · rw [biRead_last st hg]
    simp only [specRows, List.mem_map, Prod.mk.injEq]
    refine ⟨p.1, ?_, rfl, rfl⟩
    rw [mem_dates]
    exact ⟨⟨p.1, w.stamp, p.2⟩, List.mem_filter.mpr ⟨hr, by simp [vis]⟩, rfl⟩
  · have : (group p.1 st).filter (vis (some w.stamp)) = A ++ [⟨p.1, w.stamp, p.2⟩] := hA
    rw [this, lastVal_snoc]
    cases hv : p.2 with
    | none => exact Or.inl rfl
    | some x => right; simp

theorem foldl_or_eq (B : Store) (a : Option Int) : B.foldl (fun acc r => r.val.or acc) a = (lastVal B).or a := by
  induction B generalizing a with
  | nil => simp [lastVal]
  | cons r B ih =>
    simp only [List.foldl_cons, lastVal]
    rw [ih, ih (r.val.or Option.none), Option.or_none, Option.or_assoc]

theorem lastVal_append (A B : Store) : lastVal (A ++ B) = (lastVal B).or (lastVal A) := by
  simp only [lastVal, List.foldl_append]; exact foldl_or_eq B _

theorem lastVal_cons (r : Row) (B : Store) : lastVal (r :: B) = (lastVal B).or r.val := by
  have := lastVal_append [r] B
  simpa [lastVal] using this

theorem lastVal_eq_none_iff (rows : Store) : lastVal rows = Option.none ↔ ∀ r ∈ rows, r.val = Option.none := by
  induction rows with
  | nil => simp [lastVal]
  | cons r rows ih =>
    rw [lastVal_cons, Option.or_eq_none_iff, ih]
    simp [and_comm]

theorem lastVal_some_mem {rows : Store} {x : Int} (h : lastVal rows = some x) : ∃ r ∈ rows, r.val = some x := by
  induction rows with
  | nil => simp [lastVal] at h
  | cons r rows ih =>
    rw [lastVal_cons] at h
    cases hv : lastVal rows with
    | some y =>
      rw [hv] at h; simp at h; subst h
      obtain ⟨q, hq, hqv⟩ := ih hv
      exact ⟨q, by simp [hq], hqv⟩
    | none =>
      rw [hv] at h; simp at h
      exact ⟨r, by simp, h⟩

/-- a proper series has one row per date -/
theorem group_Bi_single (ts : TS) (s : Int) (hs : ts.Sorted) (p : Int × Option Int) (hp : p ∈ ts) :
    group p.1 (Bi ts s) = [⟨p.1, s, p.2⟩] := by
  have hgd := (good_Bi ts s hs p.1).1
  have hm : (⟨p.1, s, p.2⟩ : Row) ∈ group p.1 (Bi ts s) :=
    mem_group.mpr ⟨by simp only [Bi, List.mem_map]; exact ⟨p, hp, rfl⟩, rfl⟩
  match hgrp : group p.1 (Bi ts s), hgd, hm with
  | [], _, hm => simp at hm
  | [a], _, hm => simp only [List.mem_singleton] at hm; rw [hm]
  | a :: b :: rest, hgd, _ =>
    exfalso
    have hab := List.rel_of_pairwise_cons hgd (List.mem_cons_self (a := b) (l := rest))
    have ha : a ∈ group p.1 (Bi ts s) := by rw [hgrp]; simp
    have hb : b ∈ group p.1 (Bi ts s) := by rw [hgrp]; simp
    have e1 : a.stamp = s := by
      have := (mem_group.mp ha).1; simp only [Bi, List.mem_map] at this; obtain ⟨_, _, rfl⟩ := this; rfl
    have e2 : b.stamp = s := by
      have := (mem_group.mp hb).1; simp only [Bi, List.mem_map] at this; obtain ⟨_, _, rfl⟩ := this; rfl
    omega

/-- the rows of date `d` that the versions of `log` stamped `≤ T` publish, in merge order -/
def col (d T : Int) (log : List Version) : Store := group d ((logRows log).filter (vis (some T)))

theorem col_cons (d T : Int) (v : Version) (rest : List Version) :
    col d T (v :: rest) = (if v.stamp ≤ T then group d (Bi v.ts v.stamp) else []) ++ col d T rest := by
  have e : logRows (v :: rest) = Bi v.ts v.stamp ++ logRows rest := by simp [logRows]
  unfold col
  rw [e, List.filter_append, group_append]
  congr 1
  split
  · rename_i hle
    congr 1
    rw [List.filter_eq_self]
    intro r hr
    simp only [Bi, List.mem_map] at hr
    obtain ⟨_, _, rfl⟩ := hr
    simp [vis, hle]
  · rename_i hle
    have : (Bi v.ts v.stamp).filter (vis (some T)) = [] := by
      rw [List.filter_eq_nil_iff]
      intro r hr
      simp only [Bi, List.mem_map] at hr
      obtain ⟨_, _, rfl⟩ := hr
      simp [vis, hle]
    rw [this]; rfl

theorem mem_col {d T : Int} {log : List Version} {r : Row} :
    r ∈ col d T log ↔ ∃ v ∈ log, v.stamp ≤ T ∧ r.stamp = v.stamp ∧ r.date = d ∧ (d, r.val) ∈ v.ts := by
  simp only [col, mem_group, List.mem_filter, logRows, List.mem_flatMap, Bi, List.mem_map, vis, decide_eq_true_eq]
  constructor
  · rintro ⟨⟨⟨v, hv, p, hp, rfl⟩, hT⟩, rfl⟩
    exact ⟨v, hv, hT, rfl, rfl, hp⟩
  · rintro ⟨v, hv, hT, hs, hd, hp⟩
    refine ⟨⟨⟨v, hv, (d, r.val), hp, ?_⟩, by omega⟩, hd⟩
    cases r; simp_all

/-- the fold of a date's column is `some x` exactly if some version stamped `≤ T` publishes `x` for the date and no version
    merged after it and stamped `≤ T` publishes a non-NaN value for that date -/
theorem lastVal_col_some (d T : Int) (x : Int) (log : List Version) (hwf : ∀ v ∈ log, v.ts.Sorted) :
    lastVal (col d T log) = some x ↔
      ∃ before v after, log = before ++ v :: after ∧ v.stamp ≤ T ∧ (d, some x) ∈ v.ts ∧
        ∀ u ∈ after, u.stamp ≤ T → ∀ y, (d, some y) ∉ u.ts := by
  induction log with
  | nil => simp [col, logRows, group, lastVal]
  | cons v rest ih =>
    have ih := ih (fun u hu => hwf u (by simp [hu]))
    rw [col_cons, lastVal_append]
    constructor
    · intro h
      cases hR : lastVal (col d T rest) with
      | some z =>
        rw [hR] at h; simp at h; subst h
        obtain ⟨before, u, after, rfl, h1, h2, h3⟩ := ih.mp hR
        exact ⟨v :: before, u, after, by simp, h1, h2, h3⟩
      | none =>
        rw [hR] at h; simp at h
        obtain ⟨r, hr, hrv⟩ := lastVal_some_mem h
        split at hr
        · rename_i hle
          have h1 := (mem_group.mp hr)
          have h2 := h1.1
          simp only [Bi, List.mem_map] at h2
          obtain ⟨p, hp, rfl⟩ := h2
          refine ⟨[], v, rest, rfl, hle, ?_, ?_⟩
          · have : p = (d, some x) := by
              cases p; simp at h1 hrv; simp [h1.2, hrv]
            rw [← this]; exact hp
          · intro u hu huT y hy
            have := (lastVal_eq_none_iff _).mp hR ⟨d, u.stamp, some y⟩ (mem_col.mpr ⟨u, hu, huT, rfl, rfl, hy⟩)
            simp at this
        · simp at hr
    · rintro ⟨before, u, after, he, h1, h2, h3⟩
      cases before with
      | nil =>
        simp only [List.nil_append, List.cons.injEq] at he
        obtain ⟨rfl, rfl⟩ := he
        have hnone : lastVal (col d T rest) = Option.none := by
          rw [lastVal_eq_none_iff]
          intro r hr
          obtain ⟨w, hw, hwT, _, _, hp⟩ := mem_col.mp hr
          cases hv : r.val with
          | none => rfl
          | some y => rw [hv] at hp; exact absurd hp (h3 w hw hwT y)
        rw [hnone, if_pos h1, group_Bi_single v.ts v.stamp (hwf v (by simp)) (d, some x) h2]
        simp [lastVal]
      | cons b before =>
        simp only [List.cons_append, List.cons.injEq] at he
        obtain ⟨rfl, rfl⟩ := he
        rw [ih.mpr ⟨before, u, after, rfl, h1, h2, h3⟩]; simp

theorem dropRepeats_ne_nil (c : Store) (hs : SortedLe c) (hc : c ≠ []) : dropRepeats c ≠ [] := by
  intro he
  have htrue : Down (fun _ => true) := fun _ _ _ _ => rfl
  have := dropRepeats_spec htrue c hs
  rw [he] at this
  have ft : c.filter (fun _ => true) = c := by simp
  rw [ft] at this
  exact hc (accVal_eq_none.mp this.symm)

/-- a merge of frames that are not both empty is not empty -/
theorem mergeFrames_ne_nil (o n : Store) (h : o ++ n ≠ []) : mergeFrames [o, n] ≠ [] := by
  obtain ⟨r, hr⟩ := List.exists_mem_of_ne_nil _ h
  intro he
  have hg := group_mergeFrames r.date o n
  rw [he] at hg
  have hne : sortStamp (group r.date (o ++ n)) ≠ [] := by
    intro hc
    have : r ∈ sortStamp (group r.date (o ++ n)) := mem_sortStamp.mpr (mem_group.mpr ⟨hr, rfl⟩)
    rw [hc] at this; simp at this
  exact dropRepeats_ne_nil _ (sortStamp_sorted _) hne (by simpa [group] using hg.symm)

theorem historyE_foldl_ok (rest : List Version) (st : Store) (hst : st ≠ []) :
    rest.foldl mergeStepE (.ok (some st)) = .ok (rest.foldl mergeStep (some st)) ∧
      ∃ st', rest.foldl mergeStep (some st) = some st' ∧ st' ≠ [] := by
  induction rest generalizing st with
  | nil => exact ⟨rfl, st, rfl, hst⟩
  | cons v rest ih =>
    have hne : st ++ Bi v.ts v.stamp ≠ [] := by simp [hst]
    have hm := mergeFrames_ne_nil st (Bi v.ts v.stamp) hne
    have e1 : mergeStepE (.ok (some st)) v = .ok (some (mergeFrames [st, Bi v.ts v.stamp])) := by
      simp only [mergeStepE, biMergeE, biMerge]
      rw [if_neg (by simpa [List.isEmpty_iff] using hne)]
    have e2 : mergeStep (some st) v = some (mergeFrames [st, Bi v.ts v.stamp]) := rfl
    rw [List.foldl_cons, List.foldl_cons, e1, e2]
    exact ih _ hm

end Pyg.Bitemp
