import PygModel.Slice
import PygProofs.Lemmas.DfSliceLemmas
namespace Pyg.Slice
open List

/-! ### `zipper`'s broadcasting of length-1 lists -/

theorem bcast_one {α} (m : Nat) (hm : 1 < m) (x : α) : bcast m [x] = List.replicate m x := by
  simp [bcast, hm]

theorem bcast_self {α} (m : Nat) (xs : List α) (h : xs.length ≠ 1) : bcast m xs = xs := by
  simp [bcast, h]

theorem bcast_length {α} (m : Nat) (hm : 1 < m) (xs : List α) (h : xs.length = m ∨ xs.length = 1) :
    (bcast m xs).length = m := by
  rcases h with h | h
  · rw [bcast_self m xs (by omega)]; exact h
  · match xs, h with
    | [x], _ => rw [bcast_one m hm]; simp

theorem lens3_bcast (m a b c : Nat) (hm : 1 < m) (ha : a = m ∨ a = 1) (hb : b = m ∨ b = 1) (hc : c = m ∨ c = 1)
    (hone : a = m ∨ b = m ∨ c = m) : lens3 a b c = .ok m := by
  have hm1 : (m != 1) = true := by simp; omega
  rcases ha with rfl | rfl <;> rcases hb with rfl | rfl <;> rcases hc with rfl | rfl <;>
    first
      | (simp [lens3, hm1, List.eraseDups_cons]; done)
      | (exfalso; omega)

/-- `zipper(dfs, lb, ub)` when every list has the common length `m ≥ 2` or length 1: the length-1 lists are repeated -/
theorem zipper3_bcast {α β γ} (xs : List α) (ys : List β) (zs : List γ) (m : Nat) (hm : 1 < m)
    (hx : xs.length = m ∨ xs.length = 1) (hy : ys.length = m ∨ ys.length = 1) (hz : zs.length = m ∨ zs.length = 1)
    (hone : xs.length = m ∨ ys.length = m ∨ zs.length = m) :
    zipper3 xs ys zs = .ok ((bcast m xs).zip ((bcast m ys).zip (bcast m zs))) := by
  unfold zipper3
  rw [lens3_bcast m _ _ _ hm hx hy hz hone]
  rfl

/-- ... and lists of two different lengths, neither of them 1, are rejected (`lens`: `ValueError`) -/
theorem lens3_mismatch (a b c : Nat) (h : (a ≠ 1 ∧ b ≠ 1 ∧ a ≠ b) ∨ (a ≠ 1 ∧ c ≠ 1 ∧ a ≠ c) ∨ (b ≠ 1 ∧ c ≠ 1 ∧ b ≠ c)) :
    lens3 a b c = .error .value := by
  unfold lens3
  have key : ∀ l : List Nat, (∃ x ∈ l, ∃ y ∈ l, x ≠ y) → (match l.eraseDups with | [] => (.ok 1 : Res Nat) | [n] => .ok n | _ => .error .value) = .error .value := by
    intro l ⟨x, hx, y, hy, hxy⟩
    have hx' : x ∈ l.eraseDups := List.mem_eraseDups.mpr hx
    have hy' : y ∈ l.eraseDups := List.mem_eraseDups.mpr hy
    match hl : l.eraseDups with
    | [] => rw [hl] at hx'; cases hx'
    | [n] =>
      rw [hl] at hx' hy'
      simp only [List.mem_singleton] at hx' hy'
      omega
    | _ :: _ :: _ => rfl
  apply key
  simp only [List.mem_filter, List.mem_cons, List.not_mem_nil, or_false, bne_iff_ne, ne_eq]
  rcases h with ⟨h1, h2, h3⟩ | ⟨h1, h2, h3⟩ | ⟨h1, h2, h3⟩
  · exact ⟨a, ⟨Or.inl rfl, h1⟩, b, ⟨Or.inr (Or.inl rfl), h2⟩, h3⟩
  · exact ⟨a, ⟨Or.inl rfl, h1⟩, c, ⟨Or.inr (Or.inr rfl), h2⟩, h3⟩
  · exact ⟨b, ⟨Or.inr (Or.inl rfl), h1⟩, c, ⟨Or.inr (Or.inr rfl), h2⟩, h3⟩

theorem nonDecreasing_replicate (m : Nat) (a : Int) : nonDecreasing (List.replicate m a) = true := by
  induction m with
  | zero => rfl
  | succ k ih =>
    cases k with
    | zero => rfl
    | succ j =>
      simp only [List.replicate_succ] at ih ⊢
      simp [nonDecreasing, ih]

/-- the stitch with bound lists of length 1 or of the common length `m = #series ≥ 2`: the pieces are cut with the
    length-1 lists repeated -/
theorem stitch_general_bcast (dfs : List TS) (lb ub : Option (List Int)) (oc : Option (List Char)) (n : Nat) (l u : Bool)
    (hb : brackets oc = .ok (l, u)) (dfs' : List TS) (lbs ubs : List (Option Int))
    (hnorm : normalise dfs lb ub = .ok (dfs', lbs, ubs)) (htwo : 2 ≤ dfs'.length)
    (h1 : lbs.length = dfs'.length ∨ lbs.length = 1) (h2 : ubs.length = dfs'.length ∨ ubs.length = 1) :
    stitch dfs lb ub oc n =
      .ok (assemble (piecesG dfs' (bcast dfs'.length lbs) (bcast dfs'.length ubs) n l u)) := by
  simp only [stitch, hnorm, bind, Except.bind, pure, Except.pure]
  have hfl := framesOf_length dfs' n
  rw [zipper3_bcast _ _ _ dfs'.length (by omega) (Or.inl hfl) h1 h2 (Or.inl hfl)]
  simp only [cutAll_eq _ oc l u hb]
  rw [bcast_self _ (framesOf dfs' n) (by omega)]
  rfl

end Pyg.Slice
