/-
  Helper lemmas for C12: `nona(x, edge = ±1)` - positions up to the last valid row / from the first valid row on.
-/
import PygModel.Fill
import PygProofs.Lemmas.FillLemmas
import PygProofs.Lemmas.FillIndep

namespace Pyg.Fill
open Pyg

namespace Frame

theorem filter_lt_range (n q : Nat) :
    (List.range n).filter (fun i => decide (i < q)) = (List.range n).take q := by
  induction n with
  | zero => simp
  | succ n ih =>
    rw [List.range_succ, List.filter_append, ih]
    by_cases h : n < q
    · have h1 : (List.range n).take q = List.range n := List.take_of_length_le (by simp; omega)
      have h2 : (List.range n ++ [n]).take q = List.range n ++ [n] := List.take_of_length_le (by simp; omega)
      rw [h1, h2]; simp [h]
    · have : q ≤ n := by omega
      rw [List.take_append_of_le_length (by simpa using this)]; simp [h]

theorem rows_gather_take (f : Frame) (q : Nat) :
    (f.gather ((List.range f.nrows).take q)).rows = f.rows.take q := by
  rw [rows_gather, rows, List.map_take]

/-- on a sorted index "label ≤ label of row p" selects the rows up to position `p` -/
theorem filter_label_le (f : Frame) (hs : f.Sorted) (p : Nat) (hp : p < f.nrows) :
    (List.range f.nrows).filter (fun i => decide (f.idx.getD i 0 ≤ f.idx.getD p 0)) = (List.range f.nrows).take (p + 1) := by
  rw [← filter_lt_range]
  apply List.filter_congr
  intro i hi
  have hi : i < f.idx.length := by simpa [nrows] using hi
  have hp : p < f.idx.length := hp
  simp only [List.getD_eq_getElem?_getD, List.getElem?_eq_getElem hi, List.getElem?_eq_getElem hp, Option.getD_some]
  have : (f.idx[i] ≤ f.idx[p]) ↔ i < p + 1 := by
    constructor
    · intro h; rcases Nat.lt_or_ge p i with h' | h'
      · have := (sorted_lt_iff f.idx hs i p hi hp).mpr h'; omega
      · omega
    · intro h; rcases Nat.lt_or_ge i p with h' | h'
      · have := (sorted_lt_iff f.idx hs p i hp hi).mpr h'; omega
      · have : i = p := by omega
        subst this; omega
  simp [this]

theorem map_getD_range' {α} (c : List α) (d : α) : (List.range c.length).map (fun i => c.getD i d) = c := by
  apply List.ext_getElem
  · simp
  · intro j h1 h2
    have hj : j < c.length := by simpa using h1
    simp [List.getD_eq_getElem?_getD, hj]

/-- the values of the first `q` rows: every column cut at position `q` -/
theorem vals_gather_take (f : Frame) (hr : f.Rect) (q : Nat) :
    (f.gather ((List.range f.nrows).take q)).vals = f.vals.map fun c => c.take q := by
  rw [vals_gather]
  apply List.map_congr_left
  intro c hc
  have hl : c.length = f.nrows := rect_vals hr hc
  rw [← hl, List.map_take, map_getD_range']

/-- the values of the rows from position `q` on -/
theorem vals_gather_drop (f : Frame) (hr : f.Rect) (q : Nat) :
    (f.gather ((List.range f.nrows).drop q)).vals = f.vals.map fun c => c.drop q := by
  rw [vals_gather]
  apply List.map_congr_left
  intro c hc
  have hl : c.length = f.nrows := rect_vals hr hc
  rw [← hl, List.map_drop, map_getD_range']

/-- the last position of a filtered range: it passes the test, nothing after it does -/
theorem getLast_filter_range (n : Nat) (p : Nat → Bool) (h : (List.range n).filter p ≠ []) :
    let q := ((List.range n).filter p).getLast h
    q < n ∧ p q = true ∧ ∀ j, q < j → j < n → p j = false := by
  intro q
  have hmem : q ∈ (List.range n).filter p := List.getLast_mem h
  have hq := List.mem_filter.mp hmem
  refine ⟨by simpa using hq.1, hq.2, ?_⟩
  intro j hqj hjn
  cases hpj : p j with
  | false => rfl
  | true =>
    exfalso
    have hj : j ∈ (List.range n).filter p := List.mem_filter.mpr ⟨by simpa using hjn, hpj⟩
    -- the filtered range is strictly increasing, so its last element is its greatest
    have hpw := filter_range_pairwise n p
    obtain ⟨init, hinit⟩ : ∃ init, (List.range n).filter p = init ++ [q] := ⟨_, (List.dropLast_concat_getLast h).symm⟩
    rw [hinit] at hj hpw
    rcases List.mem_append.mp hj with hj | hj
    · have := (List.pairwise_append.mp hpw).2.2 j hj q (by simp); omega
    · simp at hj; omega

end Frame

end Pyg.Fill
