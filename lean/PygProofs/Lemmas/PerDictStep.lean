/-
  Helper lemmas for C20: `a * b`, `b / a` and `_join_dictable_with_defaults` satisfy the
  table-free step specification `JStep` (KeyedRows.lean).
-/
import PygProofs.Lemmas.PerDictSem

namespace Pyg

/-- the two tables share exactly the key columns -/
def Shares (on : List String) (a b : Table) : Prop := ∀ c, (c ∈ a.cols ∧ c ∈ b.cols) ↔ c ∈ on

theorem Shares.linter {on : List String} {a b : Table} (h : Shares on a b) :
    ∀ c, c ∈ linter a.cols b.cols ↔ c ∈ on := fun c => by rw [mem_linter]; exact h c

theorem Shares.symm {on : List String} {a b : Table} (h : Shares on a b) : Shares on b a :=
  fun c => by rw [and_comm]; exact h c

theorem linter_ne_nil {on : List String} {a b : Table} (hon : on ≠ []) (h : Shares on a b) :
    linter a.cols b.cols ≠ [] := by
  obtain ⟨c, hc⟩ := List.exists_mem_of_ne_nil _ hon
  exact List.ne_nil_of_mem ((h.linter c).2 hc)

theorem keysOn_length (t : Table) (on : List String) : (keysOn t on).length = t.nrows := by
  simp [keysOn]

/-- `a * b` fails in the model (`none`) when a shared column name is listed twice -/
theorem mul_nodup {a b d : Table} (hd : a.mul b = some (.ok d)) : (linter a.cols b.cols).Nodup := by
  apply Classical.byContradiction
  intro h
  simp [Table.mul, join, joinColNames_cols, h] at hd

/-- **`a * b` as a step without defaults** -/
theorem mul_sem (on : List String) (hon : on ≠ []) (a b d : Table) (hsh : Shares on a b)
    (hd : a.mul b = some (.ok d)) :
    JStep on a.cols b.cols a.R b.R [] [] d.R ∧ d.WF ∧ (∀ c, c ∈ d.cols ↔ c ∈ a.cols ∨ c ∈ b.cols) := by
  have hon' := linter_ne_nil hon hsh
  have hnd' := mul_nodup hd
  have hmem := hsh.linter
  obtain ⟨kp, hn, hrect, hkey, hpairs, hkeys, hva, hvb⟩ :=
    mul_rows_full a b d (linter a.cols b.cols) hon' hnd' rfl hd
  have hcols := mul_cols a b d (linter a.cols b.cols) hon' hnd' rfl hd
  have hne : d ≠ [] := by
    intro h; subst h
    have : (linter a.cols b.cols) = [] := by
      have h0 : Table.cols ([] : Table) = [] := rfl
      rw [h0] at hcols
      have := congrArg List.length hcols
      simp only [List.length_nil, List.length_append] at this
      exact List.eq_nil_of_length_eq_zero (by omega)
    exact hon' this
  have hlen : (kp.map (·.2)).length = kp.length := by simp
  refine ⟨⟨kp.map (·.2), [], [], ?_, ?_, List.nodup_nil, by simp, List.nodup_nil, by simp, ?_, ?_,
    by simp, by simp⟩, ⟨hne, hn ▸ hrect⟩, ?_⟩
  · rw [hpairs]; exact joinPairs_nodup _ _
  · intro i j
    rw [hpairs, mem_joinPairs, keysOn_length, keysOn_length]
    constructor
    · rintro ⟨hi, hj, hc⟩
      rw [keyAt_keysOn a _ hi, keyAt_keysOn b _ hj, cmp_rowKey_iff, keq_mem_congr hmem] at hc
      exact ⟨hi, hj, hc⟩
    · rintro ⟨hi, hj, hc⟩
      refine ⟨hi, hj, ?_⟩
      rw [keyAt_keysOn a _ hi, keyAt_keysOn b _ hj, cmp_rowKey_iff, keq_mem_congr hmem]
      exact hc
  · simp [hn]
  · intro p hp
    have hp' : p < kp.length := by simpa using hp
    have hk := hkeys kp[p] (List.getElem_mem hp')
    rw [← hkey p hp'] at hk
    have e : (kp.map (·.2))[p] = kp[p].2 := by simp
    rw [e]
    refine ⟨?_, ?_, ?_⟩
    · have := hk.1
      rw [cmp_rowKey_iff, keq_mem_congr hmem] at this
      exact this
    · intro c hc hcon
      exact hva c hc (fun h => hcon ((hmem c).1 h)) p hp'
    · intro c hc hcon
      exact hvb c hc (fun h => hcon ((hmem c).1 h)) p hp'
  · intro c
    rw [hcols]
    simp only [List.mem_append, mem_lminus, mem_linter]
    constructor
    · rintro ((h | h) | h)
      · exact .inl h.1
      · exact .inl h.1
      · exact .inr h.1
    · rintro (h | h)
      · by_cases hb : c ∈ b.cols
        · exact .inl (.inl ⟨h, hb⟩)
        · exact .inl (.inr ⟨h, fun h' => hb h'.2⟩)
      · by_cases ha : c ∈ a.cols
        · exact .inl (.inl ⟨ha, h⟩)
        · exact .inr ⟨h, fun h' => ha h'.1⟩

/-- **`b / a`**: the rows of `b` whose key no row of `a` carries -/
theorem div_sem (on : List String) (hon : on ≠ []) (b a e : Table) (hsh : Shares on b a)
    (h : b.div a = .ok e) :
    ∃ ids : List Nat, e = b.gatherRows ids ∧ ids.Nodup ∧
      ∀ j, j ∈ ids ↔ j < b.nrows ∧ ∀ i, i < a.nrows → ¬ keq on (b.rowF j) (a.rowF i) := by
  have hon' := linter_ne_nil hon hsh
  have hmem := hsh.linter
  have hinb : ∀ k ∈ linter b.cols a.cols, k ∈ b.cols := fun k hk => (mem_linter.1 hk).1
  have hina : ∀ k ∈ linter b.cols a.cols, k ∈ a.cols := fun k hk => (mem_linter.1 hk).2
  have hlk := keysOn_ok b _ hinb
  have hrk := keysOn_ok a _ hina
  have hemp : ((linter b.cols a.cols).map KeySpec.col).isEmpty = false := by
    cases h' : linter b.cols a.cols with
    | nil => exact absurd h' hon'
    | cons x xs => rfl
  refine ⟨xorIds 0 (keysOn b (linter b.cols a.cols)) (keysOn a (linter b.cols a.cols)), ?_,
    xorIds_nodup _ _, ?_⟩
  · simp only [Table.div, xor, Option.getD_none, ne_eq, not_true_eq_false, if_false, hemp,
      Bool.false_eq_true, hlk, hrk, bind, Except.bind, pure, Except.pure, if_true,
      Except.ok.injEq] at h
    exact h.symm
  · intro j
    rw [mem_xorIds (keysOf_tuple hlk), keysOn_length, keysOn_length]
    constructor
    · rintro ⟨hj, hall⟩
      refine ⟨hj, fun i hi he => hall i hi ?_⟩
      rw [keyAt_keysOn b _ hj, keyAt_keysOn a _ hi, cmp_rowKey_iff, keq_mem_congr hmem]
      exact he
    · rintro ⟨hj, hall⟩
      refine ⟨hj, fun i hi he => hall i hi ?_⟩
      rw [keyAt_keysOn b _ hj, keyAt_keysOn a _ hi, cmp_rowKey_iff, keq_mem_congr hmem] at he
      exact he

/-- `D0 + (src[ids])(**dd)` -/
theorem ext_sem (D0 src : Table) (h0 : D0.WF) (hs : src ≠ []) (ids : List Nat)
    (dd : List (String × Cell)) :
    (D0.concat2 ((src.gatherRows ids).setConsts dd)).WF ∧
    (D0.concat2 ((src.gatherRows ids).setConsts dd)).nrows = D0.nrows + ids.length ∧
    (∀ p, p < D0.nrows → (D0.concat2 ((src.gatherRows ids).setConsts dd)).rowF p = D0.rowF p) ∧
    (∀ q (h : q < ids.length),
      (D0.concat2 ((src.gatherRows ids).setConsts dd)).rowF (D0.nrows + q) = (src.rowF ids[q]).sets dd) ∧
    (∀ c, c ∈ (D0.concat2 ((src.gatherRows ids).setConsts dd)).cols ↔
      c ∈ D0.cols ∨ c ∈ src.cols ∨ ∃ kv ∈ dd, kv.1 = c) := by
  obtain ⟨gw, gn⟩ := gatherRows_wf src hs ids
  obtain ⟨ew, en, ec, er⟩ := setConsts_sem dd (src.gatherRows ids) gw
  obtain ⟨xw, xn⟩ := concat2_wf D0 _ h0 ew.2
  rw [en, gn] at xn
  refine ⟨xw, xn, ?_, ?_, ?_⟩
  · intro p hp
    funext c
    simp only [Table.rowF, concat2_cell D0 _ h0.2, hp, if_true]
  · intro q hq
    funext c
    have hnot : ¬ (D0.nrows + q < D0.nrows) := by omega
    have hsub : D0.nrows + q - D0.nrows = q := by omega
    simp only [Table.rowF, concat2_cell D0 _ h0.2, hnot, if_false, hsub]
    have := er q (gn ▸ hq)
    rw [gatherRows_rowF src ids q hq] at this
    exact congrFun this c
  · intro c
    rw [concat2_cols, List.mem_append, List.mem_filter, ec c, Table.cols_gatherRows]
    constructor
    · rintro (h | ⟨h, _⟩)
      · exact .inl h
      · exact .inr h
    · intro h
      by_cases hc : c ∈ D0.cols
      · exact .inl hc
      · rcases h with h | h
        · exact absurd h hc
        · exact .inr ⟨h, by simpa using hc⟩

/-- one optional extension of `_join_dictable_with_defaults`: with defaults `dd` for the *other*
side, the rows of `src` whose key `other` lacks are appended with `dd` filled in -/
theorem stage_sem (on : List String) (hon : on ≠ []) (D0 src other D1 : Table)
    (dd : List (String × Cell)) (h0 : D0.WF) (hs : src ≠ []) (hsh : Shares on src other)
    (hr : (if dd.isEmpty then (.ok D0 : Res Table)
      else (src.div other).map fun extra => D0.concat2 (extra.setConsts dd)) = .ok D1) :
    ∃ ids : List Nat, ids.Nodup ∧
      (∀ j, j ∈ ids ↔ dd ≠ [] ∧ j < src.nrows ∧
        ∀ i, i < other.nrows → ¬ keq on (src.rowF j) (other.rowF i)) ∧
      D1.WF ∧ D1.nrows = D0.nrows + ids.length ∧
      (∀ p, p < D0.nrows → D1.rowF p = D0.rowF p) ∧
      (∀ q (h : q < ids.length), D1.rowF (D0.nrows + q) = (src.rowF ids[q]).sets dd) ∧
      (∀ c, c ∈ D1.cols ↔ c ∈ D0.cols ∨ (dd ≠ [] ∧ (c ∈ src.cols ∨ ∃ kv ∈ dd, kv.1 = c))) := by
  by_cases hdd : dd = []
  · subst hdd
    simp only [List.isEmpty_nil, if_true, Except.ok.injEq] at hr
    subst hr
    exact ⟨[], List.nodup_nil, by simp, h0, by simp, fun _ _ => rfl, by simp, by simp⟩
  · have hemp : dd.isEmpty = false := by cases dd <;> simp_all
    simp only [hemp, Bool.false_eq_true, if_false] at hr
    cases hx : src.div other with
    | error e => simp [hx, Except.map] at hr
    | ok extra =>
      simp only [hx, Except.map, Except.ok.injEq] at hr
      obtain ⟨ids, rfl, hnd, hm⟩ := div_sem on hon src other extra hsh hx
      obtain ⟨e1, e2, e3, e4, e5⟩ := ext_sem D0 src h0 hs ids dd
      subst hr
      refine ⟨ids, hnd, ?_, e1, e2, e3, e4, ?_⟩
      · intro j; rw [hm j]; simp [hdd]
      · intro c; rw [e5 c]; simp [hdd]

/-- **`_join_dictable_with_defaults` of two tables is a `JStep`** -/
theorem joinDef_sem (on : List String) (hon : on ≠ []) (a b : Table)
    (da db : List (String × Cell)) (x : TblDef) (ha : a.WF) (hb : b.WF) (hsh : Shares on a b)
    (hda : ∀ kv ∈ da, kv.1 ∈ a.cols) (hdb : ∀ kv ∈ db, kv.1 ∈ b.cols)
    (h : joinDef (some a, da) (some b, db) = some (.ok x)) :
    ∃ d : Table, x = (some d, updDefaults da db) ∧
      JStep on a.cols b.cols a.R b.R da db d.R ∧ d.WF ∧
      (∀ c, c ∈ d.cols ↔ c ∈ a.cols ∨ c ∈ b.cols) := by
  unfold joinDef at h
  dsimp only at h
  cases hm : a.mul b with
  | none => rw [hm] at h; cases h
  | some res =>
    cases res with
    | error e => rw [hm] at h; cases h
    | ok d0 =>
      rw [hm] at h
      dsimp only at h
      obtain ⟨⟨kp, i1, i2, hkn, hkm, _, x2, _, x4, hn, hM, _, _⟩, hw0, hc0⟩ :=
        mul_sem on hon a b d0 hsh hm
      -- first stage: the rows of `b` that `a` lacks
      cases hr1 : (if da.isEmpty then (.ok d0 : Res Table)
          else (b.div a).map fun extra => d0.concat2 (extra.setConsts da)) with
      | error e => rw [hr1] at h; cases h
      | ok d1 =>
        rw [hr1] at h
        dsimp only at h
        obtain ⟨ids1, h1n, h1m, hw1, hn1, hr1a, hr1b, hc1⟩ :=
          stage_sem on hon d0 b a d1 da hw0 hb.1 hsh.symm hr1
        cases hr2 : (if db.isEmpty then (.ok d1 : Res Table)
            else (a.div b).map fun extra => d1.concat2 (extra.setConsts db)) with
        | error e => rw [hr2] at h; cases h
        | ok d2 =>
          rw [hr2] at h
          simp only [Option.some.injEq, Except.ok.injEq] at h
          obtain ⟨ids2, h2n, h2m, hw2, hn2, hr2a, hr2b, hc2⟩ :=
            stage_sem on hon d1 a b d2 db hw1 ha.1 hsh hr2
          have hlen : d0.nrows = kp.length := by
            have : i1 = [] ∧ i2 = [] := by
              exact ⟨List.eq_nil_iff_forall_not_mem.2 fun j hj => ((x2 j).1 hj).1 rfl,
                List.eq_nil_iff_forall_not_mem.2 fun j hj => ((x4 j).1 hj).1 rfl⟩
            simpa [this.1, this.2] using hn
          refine ⟨d2, h.symm, ⟨kp, ids1, ids2, hkn, hkm, h1n, h1m, h2n, h2m, ?_, ?_, ?_, ?_⟩, hw2, ?_⟩
          · show d2.nrows = _
            rw [hn2, hn1, hlen]
          · intro p hp
            have hp0 : p < d0.nrows := hlen ▸ hp
            have hp1 : p < d1.nrows := by omega
            have e : d2.R.row p = d0.R.row p := by
              show d2.rowF p = d0.rowF p
              rw [hr2a p hp1, hr1a p hp0]
            rw [e]
            exact hM p hp
          · intro q hq
            show d2.rowF (kp.length + q) = _
            rw [hr2a _ (by omega), ← hlen, hr1b q hq]
            rfl
          · intro q hq
            show d2.rowF (kp.length + ids1.length + q) = _
            rw [← hlen, ← hn1, hr2b q hq]
            rfl
          · intro c
            rw [hc2 c, hc1 c, hc0 c]
            constructor
            · rintro ((h | ⟨_, h | ⟨kv, hkv, rfl⟩⟩) | ⟨_, h | ⟨kv, hkv, rfl⟩⟩)
              · exact h
              · exact .inr h
              · exact .inl (hda kv hkv)
              · exact .inl h
              · exact .inr (hdb kv hkv)
            · intro h; exact .inl (.inl h)

end Pyg
