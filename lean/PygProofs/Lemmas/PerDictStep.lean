/-
  Helper lemmas for C20: `a * b`, `b / a` and `_join_dictable_with_defaults` satisfy the
  table-free step specification `JStep` (KeyedRows.lean).
-/
import PygProofs.Lemmas.PerDictSem

namespace Pyg

/-- the two tables share exactly the key columns -/
def Shares (on : List String) (a b : Table) : Prop := ∀ c, (c ∈ a.cols ∧ c ∈ b.cols) ↔ c ∈ on

theorem Shares.linter {on : List String} {a b : Table} (h : Shares on a b) :
    ∀ c, c ∈ linter a.cols b.cols ↔ c ∈ on := fun c => by rw [mem_linter]; exact h c

theorem Shares.symm {on : List String} {a b : Table} (h : Shares on a b) : Shares on b a :=
  fun c => by rw [and_comm]; exact h c

theorem linter_ne_nil {on : List String} {a b : Table} (hon : on ≠ []) (h : Shares on a b) :
    linter a.cols b.cols ≠ [] := by
  obtain ⟨c, hc⟩ := List.exists_mem_of_ne_nil _ hon
  exact List.ne_nil_of_mem ((h.linter c).2 hc)

theorem keysOn_length (t : Table) (on : List String) : (keysOn t on).length = t.nrows := by
  simp [keysOn]

/-- the key columns occur once each among the columns of `t` (a python dict cannot hold a key twice;
with a repeated key column `a * b` takes the `joinDup` branch of the join model, outside these proofs) -/
def OnNodup (on : List String) (t : Table) : Prop := (t.cols.filter fun c => on.contains c).Nodup

theorem linter_eq_filter_on {on : List String} {a b : Table} (h : Shares on a b) :
    linter a.cols b.cols = a.cols.filter (fun c => on.contains c) := by
  simp only [linter]
  apply List.filter_congr
  intro c hc
  by_cases hb : c ∈ b.cols
  · have : c ∈ on := (h c).1 ⟨hc, hb⟩
    simp [hb, this]
  · have : c ∉ on := fun ho => hb ((h c).2 ho).2
    simp [hb, this]

theorem mul_nodup {on : List String} {a b : Table} (hsh : Shares on a b) (hnd : OnNodup on a) :
    (linter a.cols b.cols).Nodup := by
  rw [linter_eq_filter_on hsh]; exact hnd

theorem concat2_onNodup (on : List String) (D0 X : Table) (h : OnNodup on D0)
    (hon : ∀ c ∈ on, c ∈ D0.cols) : OnNodup on (D0.concat2 X) := by
  simp only [OnNodup, concat2_cols, List.filter_append]
  have : (X.cols.filter fun k => !D0.cols.contains k).filter (fun c => on.contains c) = [] := by
    simp only [List.filter_eq_nil_iff, List.mem_filter]
    rintro c ⟨_, h2⟩ ho
    have : c ∈ D0.cols := hon c (by simpa using ho)
    simp [this] at h2
  rw [this, List.append_nil]
  exact h

/-- **`a * b` as a step without defaults** -/
theorem mul_sem (on : List String) (hon : on ≠ []) (a b d : Table) (hsh : Shares on a b)
    (hnd : OnNodup on a) (hd : a.mul b = some (.ok d)) :
    JStep on a.cols b.cols a.R b.R [] [] d.R ∧ d.WF ∧ (∀ c, c ∈ d.cols ↔ c ∈ a.cols ∨ c ∈ b.cols) ∧
      OnNodup on d := by
  have hon' := linter_ne_nil hon hsh
  have hnd' := mul_nodup hsh hnd
  have hmem := hsh.linter
  obtain ⟨kp, hn, hrect, hkey, hpairs, hkeys, hva, hvb⟩ :=
    mul_rows_full a b d (linter a.cols b.cols) hon' hnd' rfl hd
  have hcols := mul_cols a b d (linter a.cols b.cols) hon' hnd' rfl hd
  have hne : d ≠ [] := by
    intro h; subst h
    have : (linter a.cols b.cols) = [] := by
      have h0 : Table.cols ([] : Table) = [] := rfl
      rw [h0] at hcols
      have := congrArg List.length hcols
      simp only [List.length_nil, List.length_append] at this
      exact List.eq_nil_of_length_eq_zero (by omega)
    exact hon' this
  have hlen : (kp.map (·.2)).length = kp.length := by simp
  have hond : OnNodup on d := by
    simp only [OnNodup, hcols, List.filter_append]
    have e1 : (linter a.cols b.cols).filter (fun c => on.contains c) = linter a.cols b.cols := by
      apply List.filter_eq_self.2
      intro c hc
      simpa using (hmem c).1 hc
    have e2 : ∀ x : Table,
        (lminus x.cols (linter a.cols b.cols)).filter (fun c => on.contains c) = [] := by
      intro x
      simp only [List.filter_eq_nil_iff]
      intro c hc ho
      exact (mem_lminus.1 hc).2 ((hmem c).2 (by simpa using ho))
    rw [e1, e2 a, e2 b]
    simpa using hnd'
  refine ⟨⟨kp.map (·.2), [], [], ?_, ?_, List.nodup_nil, by simp, List.nodup_nil, by simp, ?_, ?_,
    by simp, by simp⟩, ⟨hne, hn ▸ hrect⟩, ?_, hond⟩
  · rw [hpairs]; exact joinPairs_nodup _ _
  · intro i j
    rw [hpairs, mem_joinPairs, keysOn_length, keysOn_length]
    constructor
    · rintro ⟨hi, hj, hc⟩
      rw [keyAt_keysOn a _ hi, keyAt_keysOn b _ hj, cmp_rowKey_iff, keq_mem_congr hmem] at hc
      exact ⟨hi, hj, hc⟩
    · rintro ⟨hi, hj, hc⟩
      refine ⟨hi, hj, ?_⟩
      rw [keyAt_keysOn a _ hi, keyAt_keysOn b _ hj, cmp_rowKey_iff, keq_mem_congr hmem]
      exact hc
  · simp [hn]
  · intro p hp
    have hp' : p < kp.length := by simpa using hp
    have hk := hkeys kp[p] (List.getElem_mem hp')
    rw [← hkey p hp'] at hk
    have e : (kp.map (·.2))[p] = kp[p].2 := by simp
    rw [e]
    refine ⟨?_, ?_, ?_⟩
    · have := hk.1
      rw [cmp_rowKey_iff, keq_mem_congr hmem] at this
      exact this
    · intro c hc hcon
      exact hva c hc (fun h => hcon ((hmem c).1 h)) p hp'
    · intro c hc hcon
      exact hvb c hc (fun h => hcon ((hmem c).1 h)) p hp'
  · intro c
    rw [hcols]
    simp only [List.mem_append, mem_lminus, mem_linter]
    constructor
    · rintro ((h | h) | h)
      · exact .inl h.1
      · exact .inl h.1
      · exact .inr h.1
    · rintro (h | h)
      · by_cases hb : c ∈ b.cols
        · exact .inl (.inl ⟨h, hb⟩)
        · exact .inl (.inr ⟨h, fun h' => hb h'.2⟩)
      · by_cases ha : c ∈ a.cols
        · exact .inl (.inl ⟨ha, h⟩)
        · exact .inr ⟨h, fun h' => ha h'.1⟩

/-- **`b / a`**: the rows of `b` whose key no row of `a` carries -/
theorem div_sem (on : List String) (hon : on ≠ []) (b a e : Table) (hsh : Shares on b a)
    (h : b.div a = .ok e) :
    ∃ ids : List Nat, e = b.gatherRows ids ∧ ids.Nodup ∧
      ∀ j, j ∈ ids ↔ j < b.nrows ∧ ∀ i, i < a.nrows → ¬ keq on (b.rowF j) (a.rowF i) := by
  have hon' := linter_ne_nil hon hsh
  have hmem := hsh.linter
  have hinb : ∀ k ∈ linter b.cols a.cols, k ∈ b.cols := fun k hk => (mem_linter.1 hk).1
  have hina : ∀ k ∈ linter b.cols a.cols, k ∈ a.cols := fun k hk => (mem_linter.1 hk).2
  have hlk := keysOn_ok b _ hinb
  have hrk := keysOn_ok a _ hina
  have hemp : ((linter b.cols a.cols).map KeySpec.col).isEmpty = false := by
    cases h' : linter b.cols a.cols with
    | nil => exact absurd h' hon'
    | cons x xs => rfl
  refine ⟨xorIds 0 (keysOn b (linter b.cols a.cols)) (keysOn a (linter b.cols a.cols)), ?_,
    xorIds_nodup _ _, ?_⟩
  · simp only [Table.div, xor, Option.getD_none, ne_eq, not_true_eq_false, if_false, hemp,
      Bool.false_eq_true, hlk, hrk, bind, Except.bind, pure, Except.pure, if_true,
      Except.ok.injEq] at h
    exact h.symm
  · intro j
    rw [mem_xorIds (keysOf_tuple hlk), keysOn_length, keysOn_length]
    constructor
    · rintro ⟨hj, hall⟩
      refine ⟨hj, fun i hi he => hall i hi ?_⟩
      rw [keyAt_keysOn b _ hj, keyAt_keysOn a _ hi, cmp_rowKey_iff, keq_mem_congr hmem]
      exact he
    · rintro ⟨hj, hall⟩
      refine ⟨hj, fun i hi he => hall i hi ?_⟩
      rw [keyAt_keysOn b _ hj, keyAt_keysOn a _ hi, cmp_rowKey_iff, keq_mem_congr hmem] at he
      exact he

/-- `D0 + (src[ids])(**dd)` -/
theorem ext_sem (D0 src : Table) (h0 : D0.WF) (hs : src ≠ []) (ids : List Nat)
    (dd : List (String × Cell)) :
    (D0.concat2 ((src.gatherRows ids).setConsts dd)).WF ∧
    (D0.concat2 ((src.gatherRows ids).setConsts dd)).nrows = D0.nrows + ids.length ∧
    (∀ p, p < D0.nrows → (D0.concat2 ((src.gatherRows ids).setConsts dd)).rowF p = D0.rowF p) ∧
    (∀ q (h : q < ids.length),
      (D0.concat2 ((src.gatherRows ids).setConsts dd)).rowF (D0.nrows + q) = (src.rowF ids[q]).sets dd) ∧
    (∀ c, c ∈ (D0.concat2 ((src.gatherRows ids).setConsts dd)).cols ↔
      c ∈ D0.cols ∨ c ∈ src.cols ∨ ∃ kv ∈ dd, kv.1 = c) := by
  obtain ⟨gw, gn⟩ := gatherRows_wf src hs ids
  obtain ⟨ew, en, ec, er⟩ := setConsts_sem dd (src.gatherRows ids) gw
  obtain ⟨xw, xn⟩ := concat2_wf D0 _ h0 ew.2
  rw [en, gn] at xn
  refine ⟨xw, xn, ?_, ?_, ?_⟩
  · intro p hp
    funext c
    simp only [Table.rowF, concat2_cell D0 _ h0.2, hp, if_true]
  · intro q hq
    funext c
    have hnot : ¬ (D0.nrows + q < D0.nrows) := by omega
    have hsub : D0.nrows + q - D0.nrows = q := by omega
    simp only [Table.rowF, concat2_cell D0 _ h0.2, hnot, if_false, hsub]
    have := er q (gn ▸ hq)
    rw [gatherRows_rowF src ids q hq] at this
    exact congrFun this c
  · intro c
    rw [concat2_cols, List.mem_append, List.mem_filter, ec c, Table.cols_gatherRows]
    constructor
    · rintro (h | ⟨h, _⟩)
      · exact .inl h
      · exact .inr h
    · intro h
      by_cases hc : c ∈ D0.cols
      · exact .inl hc
      · rcases h with h | h
        · exact absurd h hc
        · exact .inr ⟨h, by simpa using hc⟩

/-- one optional extension of `_join_dictable_with_defaults`: with defaults `dd` for the *other*
side, the rows of `src` whose key `other` lacks are appended with `dd` filled in -/
theorem stage_sem (on : List String) (hon : on ≠ []) (D0 src other D1 : Table)
    (dd : List (String × Cell)) (h0 : D0.WF) (hs : src ≠ []) (hsh : Shares on src other)
    (hr : (if dd.isEmpty then (.ok D0 : Res Table)
      else (src.div other).map fun extra => D0.concat2 (extra.setConsts dd)) = .ok D1) :
    ∃ ids : List Nat, ids.Nodup ∧
      (∀ j, j ∈ ids ↔ dd ≠ [] ∧ j < src.nrows ∧
        ∀ i, i < other.nrows → ¬ keq on (src.rowF j) (other.rowF i)) ∧
      D1.WF ∧ D1.nrows = D0.nrows + ids.length ∧
      (∀ p, p < D0.nrows → D1.rowF p = D0.rowF p) ∧
      (∀ q (h : q < ids.length), D1.rowF (D0.nrows + q) = (src.rowF ids[q]).sets dd) ∧
      (∀ c, c ∈ D1.cols ↔ c ∈ D0.cols ∨ (dd ≠ [] ∧ (c ∈ src.cols ∨ ∃ kv ∈ dd, kv.1 = c))) ∧
      (OnNodup on D0 → (∀ c ∈ on, c ∈ D0.cols) → OnNodup on D1) := by
  by_cases hdd : dd = []
  · subst hdd
    simp only [List.isEmpty_nil, if_true, Except.ok.injEq] at hr
    subst hr
    exact ⟨[], List.nodup_nil, by simp, h0, by simp, fun _ _ => rfl, by simp, by simp,
      fun h _ => h⟩
  · have hemp : dd.isEmpty = false := by cases dd <;> simp_all
    simp only [hemp, Bool.false_eq_true, if_false] at hr
    cases hx : src.div other with
    | error e => simp [hx, Except.map] at hr
    | ok extra =>
      simp only [hx, Except.map, Except.ok.injEq] at hr
      obtain ⟨ids, rfl, hnd, hm⟩ := div_sem on hon src other extra hsh hx
      obtain ⟨e1, e2, e3, e4, e5⟩ := ext_sem D0 src h0 hs ids dd
      subst hr
      refine ⟨ids, hnd, ?_, e1, e2, e3, e4, ?_, fun h1 h2 => concat2_onNodup on D0 _ h1 h2⟩
      · intro j; rw [hm j]; simp [hdd]
      · intro c; rw [e5 c]; simp [hdd]

/-- **`_join_dictable_with_defaults` of two tables is a `JStep`** -/
theorem joinDef_sem (on : List String) (hon : on ≠ []) (a b : Table)
    (da db : List (String × Cell)) (x : TblDef) (ha : a.WF) (hb : b.WF) (hsh : Shares on a b)
    (hda : ∀ kv ∈ da, kv.1 ∈ a.cols) (hdb : ∀ kv ∈ db, kv.1 ∈ b.cols) (hnd : OnNodup on a)
    (h : joinDef (some a, da) (some b, db) = some (.ok x)) :
    ∃ d : Table, x = (some d, updDefaults da db) ∧
      JStep on a.cols b.cols a.R b.R da db d.R ∧ d.WF ∧
      (∀ c, c ∈ d.cols ↔ c ∈ a.cols ∨ c ∈ b.cols) ∧ OnNodup on d := by
  unfold joinDef at h
  dsimp only at h
  cases hm : a.mul b with
  | none => rw [hm] at h; cases h
  | some res =>
    cases res with
    | error e => rw [hm] at h; cases h
    | ok d0 =>
      rw [hm] at h
      dsimp only at h
      obtain ⟨⟨kp, i1, i2, hkn, hkm, _, x2, _, x4, hn, hM, _, _⟩, hw0, hc0, hn0⟩ :=
        mul_sem on hon a b d0 hsh hnd hm
      have hon0 : ∀ c ∈ on, c ∈ d0.cols := fun c hc => (hc0 c).2 (.inl ((hsh c).2 hc).1)
      -- first stage: the rows of `b` that `a` lacks
      cases hr1 : (if da.isEmpty then (.ok d0 : Res Table)
          else (b.div a).map fun extra => d0.concat2 (extra.setConsts da)) with
      | error e => rw [hr1] at h; cases h
      | ok d1 =>
        rw [hr1] at h
        dsimp only at h
        obtain ⟨ids1, h1n, h1m, hw1, hn1, hr1a, hr1b, hc1, ho1⟩ :=
          stage_sem on hon d0 b a d1 da hw0 hb.1 hsh.symm hr1
        cases hr2 : (if db.isEmpty then (.ok d1 : Res Table)
            else (a.div b).map fun extra => d1.concat2 (extra.setConsts db)) with
        | error e => rw [hr2] at h; cases h
        | ok d2 =>
          rw [hr2] at h
          simp only [Option.some.injEq, Except.ok.injEq] at h
          obtain ⟨ids2, h2n, h2m, hw2, hn2, hr2a, hr2b, hc2, ho2⟩ :=
            stage_sem on hon d1 a b d2 db hw1 ha.1 hsh hr2
          have hlen : d0.nrows = kp.length := by
            have : i1 = [] ∧ i2 = [] := by
              exact ⟨List.eq_nil_iff_forall_not_mem.2 fun j hj => ((x2 j).1 hj).1 rfl,
                List.eq_nil_iff_forall_not_mem.2 fun j hj => ((x4 j).1 hj).1 rfl⟩
            simpa [this.1, this.2] using hn
          have hon1 : ∀ c ∈ on, c ∈ d1.cols := fun c hc => (hc1 c).2 (.inl (hon0 c hc))
          refine ⟨d2, h.symm, ⟨kp, ids1, ids2, hkn, hkm, h1n, h1m, h2n, h2m, ?_, ?_, ?_, ?_⟩, hw2, ?_,
            ho2 (ho1 hn0 hon0) hon1⟩
          · show d2.nrows = _
            rw [hn2, hn1, hlen]
          · intro p hp
            have hp0 : p < d0.nrows := hlen ▸ hp
            have hp1 : p < d1.nrows := by omega
            have e : d2.R.row p = d0.R.row p := by
              show d2.rowF p = d0.rowF p
              rw [hr2a p hp1, hr1a p hp0]
            rw [e]
            exact hM p hp
          · intro q hq
            show d2.rowF (kp.length + q) = _
            rw [hr2a _ (by omega), ← hlen, hr1b q hq]
            rfl
          · intro q hq
            show d2.rowF (kp.length + ids1.length + q) = _
            rw [← hlen, ← hn1, hr2b q hq]
            rfl
          · intro c
            rw [hc2 c, hc1 c, hc0 c]
            constructor
            · rintro ((h | ⟨_, h | ⟨kv, hkv, rfl⟩⟩) | ⟨_, h | ⟨kv, hkv, rfl⟩⟩)
              · exact h
              · exact .inr h
              · exact .inl (hda kv hkv)
              · exact .inl h
              · exact .inr (hdb kv hkv)
            · intro h; exact .inl (.inl h)

end Pyg
