/-
  helper lemmas for the round-h5 theorems of C17 (review s5): the sharp literal-first condition, a bound on the stamps of a
  log ("no asof" = "as of a late enough time"), the invariant after a harmless re-merge.
-/
import PygModel.Bitemp
import PygProofs.Lemmas.BitempLemmas

namespace Pyg.Bitemp
open Pyg

/-- a fold over publications that are all NaN or `y` is NaN or `y` -/
theorem lastVal_noop (y : Option Int) (B : Store) (h : ∀ r ∈ B, r.val = Option.none ∨ r.val = y) :
    lastVal B = Option.none ∨ lastVal B = y := by
  induction B with
  | nil => exact Or.inl rfl
  | cons b B ih =>
    rw [lastVal_cons]
    rcases ih (fun r hr => h r (by simp [hr])) with e | e <;> rw [e]
    · simpa using h b (by simp)
    · cases y with
      | none => simpa using h b (by simp)
      | some x => right; rfl

/-- every finite log has a time after all of its stamps -/
theorem exists_stamp_bound (log : List Version) : ∃ M : Int, ∀ v ∈ log, v.stamp ≤ M := by
  induction log with
  | nil => exact ⟨0, by simp⟩
  | cons v rest ih =>
    obtain ⟨M, hM⟩ := ih
    refine ⟨max M v.stamp, ?_⟩
    intro u hu
    rcases List.mem_cons.mp hu with rfl | hu
    · omega
    · have := hM u hu; omega

/-- reading the log with no as-of time is reading it as of any time after all stamps -/
theorem pubs_none_eq (log : List Version) (M : Int) (hM : ∀ v ∈ log, v.stamp ≤ M) :
    (logRows log).filter (fun r => decide (r.stamp ≤ M)) = logRows log := by
  rw [List.filter_eq_self]
  intro r hr
  simp only [logRows, List.mem_flatMap, Bi, List.mem_map] at hr
  obtain ⟨v, hv, _, _, rfl⟩ := hr
  simpa using hM v hv

/-- a store that keeps the invariant against a log keeps it after re-merging a version all of whose rows are rows of the store -/
theorem inv_remerge {st : Store} {log : List Version} (h : Inv st (logRows log)) (w : Version)
    (hin : ∀ p ∈ w.ts, (⟨p.1, w.stamp, p.2⟩ : Row) ∈ st) :
    Inv (mergeFrames [st, Bi w.ts w.stamp]) (logRows log) := by
  obtain ⟨hg, he, hm⟩ := h
  refine ⟨mergeFrames_good _ _, (remerge_specEq st hg w (rows_in_store_visible st hg w hin)).trans he, ?_⟩
  intro r hr
  rcases List.mem_append.mp (mergeFrames_subset _ _ hr) with h1 | h1
  · exact hm r h1
  · simp only [Bi, List.mem_map] at h1
    obtain ⟨p, hp, rfl⟩ := h1
    exact hm _ (hin p hp)

theorem history_append (log later : List Version) :
    history (log ++ later) = later.foldl mergeStep (history log) := by
  rw [history_eq, history_eq, List.foldl_append]

end Pyg.Bitemp

/-! ### batches as the code runs them (`historyLE`): exactly which calls raise -/

namespace Pyg.Bitemp
open Pyg

theorem Bi_eq_nil {ts : TS} {s : Int} : Bi ts s = [] ↔ ts = [] := by simp [Bi]

theorem logRows_eq_nil {b : List Version} : logRows b = [] ↔ ∀ v ∈ b, v.ts = [] := by
  simp [logRows, List.flatMap_eq_nil_iff, Bi_eq_nil]

theorem mergeFrames_eq_nil_iff (bis : List Store) : mergeFrames bis = [] ↔ bis.flatten = [] := by
  constructor
  · intro h
    by_cases hf : bis.flatten = []
    · exact hf
    · exfalso
      have e : mergeFrames bis = mergeFrames [[], bis.flatten] := mergeFrames_congr (by simp)
      rw [e] at h
      exact mergeFrames_ne_nil [] bis.flatten (by simpa using hf) h
  · intro h
    simp [mergeFrames, h, sortStamp, dates]

/-- what the store says about the versions merged so far: no store yet iff no version yet; an empty store iff all versions empty -/
def StateOk (st : Option Store) (log0 : List Version) : Prop :=
  (st = Option.none ↔ log0 = []) ∧ ∀ s, st = some s → (s = [] ↔ ∀ v ∈ log0, v.ts = [])

/-- the call that hands batch `b` to `bi_merge` after the versions `log0` raises -/
def CallRaises (log0 b : List Version) : Prop :=
  b ≠ [] ∧ 2 ≤ (log0 ++ b).length ∧ ∀ v ∈ log0 ++ b, v.ts = []

theorem frames_length (b : List Version) : (frames b).length = b.length := by simp [frames]

theorem biMergeLE_eq (old : Option Store) (news : List Store) :
    biMergeLE old news = if 2 ≤ (old.toList ++ news).length ∧ (old.toList ++ news).flatten = [] then .error .value
      else .ok (biMergeL old news) := by
  unfold biMergeLE
  by_cases h : 2 ≤ (old.toList ++ news).length ∧ (old.toList ++ news).flatten = []
  · rw [if_pos h, if_pos]
    simp only [ge_iff_le, Bool.and_eq_true, decide_eq_true_eq, List.isEmpty_iff]
    exact h
  · rw [if_neg h, if_neg]
    intro hc
    simp only [ge_iff_le, Bool.and_eq_true, decide_eq_true_eq, List.isEmpty_iff] at hc
    exact h hc

theorem forall_mem_append {α} {p : α → Prop} {a b : List α} : (∀ v ∈ a ++ b, p v) ↔ (∀ v ∈ a, p v) ∧ ∀ v ∈ b, p v := by
  simp only [List.mem_append]
  exact ⟨fun h => ⟨fun v hv => h v (Or.inl hv), fun v hv => h v (Or.inr hv)⟩, fun h v hv => hv.elim (h.1 v) (h.2 v)⟩

theorem biMergeLE_step (st : Option Store) (log0 b : List Version) (h : StateOk st log0) :
    (CallRaises log0 b → biMergeLE st (frames b) = .error .value) ∧
    (¬ CallRaises log0 b → biMergeLE st (frames b) = .ok (biMergeL st (frames b)) ∧
      StateOk (biMergeL st (frames b)) (log0 ++ b)) := by
  obtain ⟨h1, h2⟩ := h
  rw [biMergeLE_eq]
  cases st with
  | none =>
    have h0 : log0 = [] := h1.mp rfl
    subst h0
    have hcond : (2 ≤ ((Option.none : Option Store).toList ++ frames b).length ∧
        ((Option.none : Option Store).toList ++ frames b).flatten = []) ↔ CallRaises [] b := by
      simp only [Option.toList_none, List.nil_append, frames_flatten, logRows_eq_nil, frames_length, CallRaises]
      constructor
      · rintro ⟨hl, he⟩; exact ⟨by intro hb; subst hb; simp at hl, hl, he⟩
      · rintro ⟨_, hl, he⟩; exact ⟨hl, he⟩
    refine ⟨fun hr => if_pos (hcond.mpr hr), fun hr => ⟨if_neg (fun hc => hr (hcond.mp hc)), ?_⟩⟩
    match b with
    | [] => exact ⟨by simp [biMergeL, frames], by intro s hs; simp [biMergeL, frames] at hs⟩
    | [v] =>
      refine ⟨by simp [biMergeL, frames], ?_⟩
      intro s hs
      simp only [biMergeL, frames, Option.toList_none, List.nil_append, List.map_cons, List.map_nil, Option.some.injEq] at hs
      subst hs
      simp [Bi_eq_nil]
    | v1 :: v2 :: rest =>
      refine ⟨by simp [biMergeL, frames], ?_⟩
      intro s hs
      have e : biMergeL Option.none (frames (v1 :: v2 :: rest)) = some (mergeFrames (frames (v1 :: v2 :: rest))) := by
        simp [biMergeL, frames]
      rw [e, Option.some.injEq] at hs
      subst hs
      rw [mergeFrames_eq_nil_iff, frames_flatten, logRows_eq_nil, List.nil_append]
  | some s =>
    have hne : log0 ≠ [] := fun hc => by simpa using h1.mpr hc
    have hs := h2 s rfl
    have hl0 : 1 ≤ log0.length := by
      cases log0 with
      | nil => exact absurd rfl hne
      | cons _ _ => simp
    have hcond : (2 ≤ ((some s).toList ++ frames b).length ∧ ((some s).toList ++ frames b).flatten = []) ↔ CallRaises log0 b := by
      simp only [Option.toList_some, List.cons_append, List.nil_append, List.length_cons, frames_length, List.flatten_cons,
        frames_flatten, List.append_eq_nil_iff, hs, logRows_eq_nil, CallRaises, List.length_append, forall_mem_append]
      constructor
      · rintro ⟨hl, he1, he2⟩
        refine ⟨by intro hb; subst hb; simp at hl, by omega, he1, he2⟩
      · rintro ⟨hb, _, he1, he2⟩
        refine ⟨?_, he1, he2⟩
        cases b with
        | nil => exact absurd rfl hb
        | cons _ _ => simp
    refine ⟨fun hr => if_pos (hcond.mpr hr), fun hr => ⟨if_neg (fun hc => hr (hcond.mp hc)), ?_⟩⟩
    match b with
    | [] =>
      refine ⟨by simpa [biMergeL, frames] using hne, ?_⟩
      intro s' hs'
      simp only [biMergeL, frames, Option.toList_some, List.map_nil, List.append_nil, Option.some.injEq] at hs'
      subst hs'
      simpa using hs
    | v :: rest =>
      refine ⟨by simp [biMergeL, frames], ?_⟩
      intro s' hs'
      have e : biMergeL (some s) (frames (v :: rest)) = some (mergeFrames (s :: frames (v :: rest))) := by
        simp [biMergeL, frames]
      rw [e, Option.some.injEq] at hs'
      subst hs'
      rw [mergeFrames_eq_nil_iff, List.flatten_cons, frames_flatten, List.append_eq_nil_iff, hs, logRows_eq_nil, forall_mem_append]

/-- some call of `rest`, made after the versions `log0`, raises -/
def RaisesFrom (log0 : List Version) (rest : List (List Version)) : Prop :=
  ∃ pre b post, rest = pre ++ b :: post ∧ CallRaises (log0 ++ pre.flatten) b

theorem raisesFrom_cons (log0 b : List Version) (rest : List (List Version)) :
    RaisesFrom log0 (b :: rest) ↔ CallRaises log0 b ∨ RaisesFrom (log0 ++ b) rest := by
  constructor
  · rintro ⟨pre, c, post, e, hc⟩
    cases pre with
    | nil =>
      simp only [List.nil_append, List.cons.injEq] at e
      obtain ⟨rfl, rfl⟩ := e
      left; simpa using hc
    | cons p pre =>
      simp only [List.cons_append, List.cons.injEq] at e
      obtain ⟨rfl, rfl⟩ := e
      right
      exact ⟨pre, c, post, rfl, by simpa [List.append_assoc] using hc⟩
  · rintro (hc | ⟨pre, c, post, rfl, hc⟩)
    · exact ⟨[], b, rest, rfl, by simpa using hc⟩
    · exact ⟨b :: pre, c, post, rfl, by simpa [List.append_assoc] using hc⟩

def stepLE (acc : Res (Option Store)) (b : List Version) : Res (Option Store) :=
  acc.bind fun st => biMergeLE st (frames b)

theorem stepLE_error (rest : List (List Version)) : rest.foldl stepLE (.error .value) = .error .value := by
  induction rest with
  | nil => rfl
  | cons b rest ih => simpa [List.foldl_cons, stepLE, Except.bind] using ih

theorem historyLE_foldl (rest : List (List Version)) : ∀ (st : Option Store) (log0 : List Version), StateOk st log0 →
    (RaisesFrom log0 rest → rest.foldl stepLE (.ok st) = .error .value) ∧
    (¬ RaisesFrom log0 rest →
      rest.foldl stepLE (.ok st) = .ok (rest.foldl (fun st b => biMergeL st (frames b)) st)) := by
  induction rest with
  | nil =>
    intro st log0 _
    refine ⟨?_, fun _ => rfl⟩
    rintro ⟨pre, b, post, e, _⟩
    simp at e
  | cons b rest ih =>
    intro st log0 h
    obtain ⟨hr, hk⟩ := biMergeLE_step st log0 b h
    rw [raisesFrom_cons]
    by_cases hc : CallRaises log0 b
    · refine ⟨fun _ => ?_, fun hn => absurd (Or.inl hc) hn⟩
      have : stepLE (.ok st) b = .error .value := hr hc
      rw [List.foldl_cons, this, stepLE_error]
    · obtain ⟨e, hs⟩ := hk hc
      have e' : stepLE (.ok st) b = .ok (biMergeL st (frames b)) := e
      obtain ⟨ih1, ih2⟩ := ih _ _ hs
      refine ⟨?_, ?_⟩
      · rintro (h1 | h1)
        · exact absurd h1 hc
        · rw [List.foldl_cons, e']; exact ih1 h1
      · intro hn
        rw [List.foldl_cons, List.foldl_cons, e']
        exact ih2 (fun h1 => hn (Or.inr h1))

theorem historyLE_eq_foldl (batches : List (List Version)) : historyLE batches = batches.foldl stepLE (.ok Option.none) := rfl

end Pyg.Bitemp

namespace Pyg.Bitemp
open Pyg

theorem col_append (d T : Int) (a b : List Version) : col d T (a ++ b) = col d T a ++ col d T b := by
  simp [col, logRows_append, List.filter_append, group_append]

/-- `inv_remerge` under the weaker hypothesis of `merge_idem`: the re-merged version was published (its rows are rows of the log) and
    its values are NaN or the values visible as of its stamp - its rows need not be rows of the store (a repeat is compressed away) -/
theorem inv_remerge_visible {st : Store} {log : List Version} (h : Inv st (logRows log)) (w : Version)
    (hsub : ∀ p ∈ w.ts, (⟨p.1, w.stamp, p.2⟩ : Row) ∈ logRows log)
    (hvis : ∀ p ∈ w.ts, ∃ y, (p.1, y) ∈ biRead st (some w.stamp) (-1) ∧ (p.2 = Option.none ∨ p.2 = y)) :
    Inv (mergeFrames [st, Bi w.ts w.stamp]) (logRows log) := by
  obtain ⟨hg, he, hm⟩ := h
  refine ⟨mergeFrames_good _ _, (remerge_specEq st hg w hvis).trans he, ?_⟩
  intro r hr
  rcases List.mem_append.mp (mergeFrames_subset _ _ hr) with h1 | h1
  · exact hm r h1
  · simp only [Bi, List.mem_map] at h1
    obtain ⟨p, hp, rfl⟩ := h1
    exact hsub p hp

end Pyg.Bitemp
