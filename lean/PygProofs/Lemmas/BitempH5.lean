/-
  helper lemmas for the round-h5 theorems of C17 (review s5): the sharp literal-first condition, a bound on the stamps of a
  log ("no asof" = "as of a late enough time"), the invariant after a harmless re-merge.
-/
import PygModel.Bitemp
import PygProofs.Lemmas.BitempLemmas

namespace Pyg.Bitemp
open Pyg

/-- a fold over publications that are all NaN or `y` is NaN or `y` -/
theorem lastVal_noop (y : Option Int) (B : Store) (h : ∀ r ∈ B, r.val = Option.none ∨ r.val = y) :
    lastVal B = Option.none ∨ lastVal B = y := by
  induction B with
  | nil => exact Or.inl rfl
  | cons b B ih =>
    rw [lastVal_cons]
    rcases ih (fun r hr => h r (by simp [hr])) with e | e <;> rw [e]
    · simpa using h b (by simp)
    · cases y with
      | none => simpa using h b (by simp)
      | some x => right; rfl

/-- every finite log has a time after all of its stamps -/
theorem exists_stamp_bound (log : List Version) : ∃ M : Int, ∀ v ∈ log, v.stamp ≤ M := by
  induction log with
  | nil => exact ⟨0, by simp⟩
  | cons v rest ih =>
    obtain ⟨M, hM⟩ := ih
    refine ⟨max M v.stamp, ?_⟩
    intro u hu
    rcases List.mem_cons.mp hu with rfl | hu
    · omega
    · have := hM u hu; omega

/-- reading the log with no as-of time is reading it as of any time after all stamps -/
theorem pubs_none_eq (log : List Version) (M : Int) (hM : ∀ v ∈ log, v.stamp ≤ M) :
    (logRows log).filter (fun r => decide (r.stamp ≤ M)) = logRows log := by
  rw [List.filter_eq_self]
  intro r hr
  simp only [logRows, List.mem_flatMap, Bi, List.mem_map] at hr
  obtain ⟨v, hv, _, _, rfl⟩ := hr
  simpa using hM v hv

/-- a store that keeps the invariant against a log keeps it after re-merging a version all of whose rows are rows of the store -/
theorem inv_remerge {st : Store} {log : List Version} (h : Inv st (logRows log)) (w : Version)
    (hin : ∀ p ∈ w.ts, (⟨p.1, w.stamp, p.2⟩ : Row) ∈ st) :
    Inv (mergeFrames [st, Bi w.ts w.stamp]) (logRows log) := by
  obtain ⟨hg, he, hm⟩ := h
  refine ⟨mergeFrames_good _ _, (remerge_specEq st hg w (rows_in_store_visible st hg w hin)).trans he, ?_⟩
  intro r hr
  rcases List.mem_append.mp (mergeFrames_subset _ _ hr) with h1 | h1
  · exact hm r h1
  · simp only [Bi, List.mem_map] at h1
    obtain ⟨p, hp, rfl⟩ := h1
    exact hm _ (hin p hp)

theorem history_append (log later : List Version) :
    history (log ++ later) = later.foldl mergeStep (history log) := by
  rw [history_eq, history_eq, List.foldl_append]

end Pyg.Bitemp
