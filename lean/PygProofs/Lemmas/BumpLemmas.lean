/-
  Helper definitions and lemmas for C09: the day-by-day specification the closed-form business-day block is
  compared with, and arithmetic of the microsecond representation.
-/
import PygModel.Bump

namespace Pyg.Bump
open Pyg Pyg.Gen

/-- the next weekday strictly after ordinal `o` (specification: day-by-day reading of "business day") -/
def nextWd (o : Int) : Int := if wd o = 4 then o + 3 else if wd o = 5 then o + 2 else o + 1

/-- the previous weekday strictly before ordinal `o` -/
def prevWd (o : Int) : Int := if wd o = 0 then o - 3 else if wd o = 6 then o - 2 else o - 1

/-- `f` applied `k` times -/
def iter (f : Int → Int) : Nat → Int → Int
  | 0, o => o
  | k + 1, o => f (iter f k o)

theorem wd_range (o : Int) : 0 ≤ wd o ∧ wd o < 7 := by unfold wd; omega

/-- `nextWd` really is the next weekday: later, a weekday, and nothing but weekend days in between -/
theorem nextWd_spec (o : Int) :
    o < nextWd o ∧ wd (nextWd o) < 5 ∧ ∀ x, o < x → x < nextWd o → 5 ≤ wd x := by
  unfold nextWd wd; refine ⟨by omega, by omega, ?_⟩; intro x h1 h2; omega

theorem prevWd_spec (o : Int) :
    prevWd o < o ∧ wd (prevWd o) < 5 ∧ ∀ x, prevWd o < x → x < o → 5 ≤ wd x := by
  unfold prevWd wd; refine ⟨by omega, by omega, ?_⟩; intro x h1 h2; omega

/-- one more business day forward: the closed form at `k+1` is the next weekday after the closed form at `k` -/
theorem bOff_succ (o : Int) (h : wd o < 5) (k : Int) (hk : 0 ≤ k) :
    nextWd (o + bOff (wd o) k) = o + bOff (wd o) (k + 1) := by
  unfold nextWd bOff wd at *; simp only []; omega

theorem bOff_pred (o : Int) (h : wd o < 5) (k : Int) (hk : k ≤ 0) :
    prevWd (o + bOff (wd o) k) = o + bOff (wd o) (k - 1) := by
  unfold prevWd bOff wd at *; simp only []; omega

theorem bOff_zero (o : Int) (h : wd o < 5) : bOff (wd o) 0 = 0 := by
  unfold bOff wd at *; simp only []; omega

/-! ### results -/

theorem checkRange_ok (x y : Int) : checkRange x = .ok y ↔ (0 ≤ x ∧ x < MAXUS) ∧ y = x := by
  unfold checkRange
  by_cases h : 0 ≤ x ∧ x < MAXUS
  · simp only [h, if_true, and_self, true_and]
    constructor
    · intro e; cases e; rfl
    · intro e; rw [e]
  · simp only [h, if_false, false_and, iff_false]; intro e; cases e

/-- the value of a successful result (to evaluate closed examples with `decide`) -/
def okVal : Res Int → Option Int
  | .ok t => some t
  | .error _ => none

theorem ok_of_okVal {r : Res Int} {t : Int} (h : okVal r = some t) : r = .ok t := by
  cases r with
  | ok v => simp only [okVal, Option.some.injEq] at h; rw [h]
  | error e => simp [okVal] at h

/-! ### the business-day step: every datetime constructed on the way is range-checked -/

/-- a datetime: inside [0001-01-01, 9999-12-31] -/
def InRange (t : Int) : Prop := 0 ≤ t ∧ t < MAXUS

instance (t : Int) : Decidable (InRange t) := by unfold InRange; infer_instance

theorem walkDays_ok (t c r : Int) (ks : List Int) :
    walkDays t c ks = .ok r ↔ (∀ k ∈ ks, InRange (t + k * DAYUS)) ∧ r = (ks.getLast?.map (fun k => t + k * DAYUS)).getD c := by
  induction ks generalizing c with
  | nil => simp only [walkDays, List.not_mem_nil, false_imp_iff, implies_true, true_and, List.getLast?_nil, Option.map_none, Option.getD_none]
           constructor
           · intro e; cases e; rfl
           · intro e; rw [e]
  | cons k ks ih =>
    simp only [walkDays, List.mem_cons, forall_eq_or_imp]
    by_cases hk : InRange (t + k * DAYUS)
    · have : checkRange (t + k * DAYUS) = .ok (t + k * DAYUS) := (checkRange_ok _ _).2 ⟨hk, rfl⟩
      simp only [this, Except.bind, ih, hk, true_and]
      cases ks with
      | nil => simp
      | cons k' ks' =>
        obtain ⟨l, hl⟩ : ∃ l, (k' :: ks').getLast? = some l := ⟨_, List.getLast?_eq_some_getLast (by simp)⟩
        simp [List.getLast?_cons_cons, hl]
    · have : ∃ e, checkRange (t + k * DAYUS) = .error e := by
        unfold checkRange; unfold InRange at hk; simp only [hk, if_false]; exact ⟨_, rfl⟩
      obtain ⟨e, he⟩ := this
      simp only [he, Except.bind, hk, false_and, iff_false]
      intro x; cases x

/-- the offsets the block passes through: after the weekend roll, after the whole weeks, after the remaining days -/
theorem bOffPath_eq (w n : Int) :
    bOffPath w n = [if w > 4 then 7 - w else 0, (if w > 4 then 7 - w else 0) + 7 * (n / 5), bOff w n] := by
  unfold bOffPath bOff; simp only []; split <;> simp

/-- the `'nb'` step succeeds iff each of the three datetimes it constructs is representable; its value is the closed form -/
theorem bday_ok_iff (t n r : Int) :
    applyStep t (.bday n) = .ok r ↔
      (∀ k ∈ bOffPath (wdOf t) n, InRange (t + k * DAYUS)) ∧ r = t + bOff (wdOf t) n * DAYUS := by
  simp only [applyStep, walkDays_ok]
  rw [bOffPath_eq]; simp

/-- what a successful `'nb'` step returns (the final value only) -/
theorem bday_ok (t n r : Int) (h : applyStep t (.bday n) = .ok r) :
    (0 ≤ t + bOff (wdOf t) n * DAYUS ∧ t + bOff (wdOf t) n * DAYUS < MAXUS) ∧ r = t + bOff (wdOf t) n * DAYUS := by
  rw [bday_ok_iff] at h
  refine ⟨?_, h.2⟩
  have := h.1 (bOff (wdOf t) n) (by rw [bOffPath_eq]; simp)
  exact this

/-! ### microsecond representation -/

/-- a shifted instant is representable iff its day is one of 0001-01-01 .. 9999-12-31 -/
theorem inRange_add_days (t k : Int) : InRange (t + k * DAYUS) ↔ 1 ≤ ordOf t + k ∧ ordOf t + k ≤ 3652059 := by
  unfold InRange MAXUS ordOf DAYUS; omega

theorem inRange_iff (t : Int) : InRange t ↔ 1 ≤ ordOf t ∧ ordOf t ≤ 3652059 := by
  unfold InRange MAXUS ordOf DAYUS; omega

theorem iter_succ_inner (f : Int → Int) (k : Nat) (o : Int) : iter f (k + 1) o = iter f k (f o) := by
  induction k with
  | zero => rfl
  | succ k ih => simp only [iter] at ih ⊢; rw [ih]

theorem ordOf_add_days (t k : Int) : ordOf (t + k * DAYUS) = ordOf t + k := by
  unfold ordOf DAYUS; omega

theorem todOf_add_days (t k : Int) : todOf (t + k * DAYUS) = todOf t := by
  unfold todOf DAYUS; omega

theorem ordOf_ofOrd (o : Int) : ordOf (ofOrd o) = o := by unfold ordOf ofOrd DAYUS; omega

theorem todOf_ofOrd (o : Int) : todOf (ofOrd o) = 0 := by unfold todOf ofOrd DAYUS; omega

theorem split_t (t : Int) : t = ofOrd (ordOf t) + todOf t ∧ 0 ≤ todOf t ∧ todOf t < DAYUS := by
  unfold ofOrd ordOf todOf DAYUS; omega

end Pyg.Bump

namespace Pyg.Bump
open Pyg Pyg.Gen

/-- the `'nb'` step in terms of days: it succeeds iff each of the three days it passes through (after the weekend roll, after
the whole weeks, after the remaining days) is a day of years 1..9999; the result is the closed form with the time of day kept -/
theorem bday_ok_ord (t n r : Int) :
    applyStep t (.bday n) = .ok r ↔
      (∀ k ∈ bOffPath (wd (ordOf t)) n, 1 ≤ ordOf t + k ∧ ordOf t + k ≤ 3652059) ∧ r = t + bOff (wd (ordOf t)) n * DAYUS := by
  rw [bday_ok_iff]; unfold wdOf
  constructor
  · intro ⟨h, e⟩; exact ⟨fun k hk => (inRange_add_days t k).1 (h k hk), e⟩
  · intro ⟨h, e⟩; exact ⟨fun k hk => (inRange_add_days t k).2 (h k hk), e⟩

/-- from a weekday the block first moves by whole weeks and then by at most six more days -/
theorem bOff_weeks (w n : Int) (h : 0 ≤ w ∧ w < 5) : 7 * (n / 5) ≤ bOff w n ∧ bOff w n ≤ 7 * (n / 5) + 6 := by
  unfold bOff; simp only []; repeat' split
  all_goals omega

/-- two days have the same `'nb'` image iff they are the same day or the earlier one is a weekend day whose following Monday
is not before the later one (Sat/Sun/Mon of one weekend) -/
theorem b_eq_iff (o₁ o₂ n : Int) (h : o₁ ≤ o₂) :
    o₁ + bOff (wd o₁) n = o₂ + bOff (wd o₂) n ↔ (o₁ = o₂ ∨ (5 ≤ wd o₁ ∧ o₂ ≤ o₁ + (7 - wd o₁))) := by
  unfold bOff wd; simp only []; repeat' split
  all_goals omega

end Pyg.Bump
