/-
  Helper lemmas for C02 / C11 / C20: order facts about `cmp`, the sort-merge loop of `join` / `xor`
  (progress, fuel bound, agreement with the structural merge), the structural merge on strictly
  increasing group lists, and the groups produced by `_listby`.
-/
import PygModel.Join
import PygProofs.Lemmas.CmpLemmas
import PygProofs.Props.C07

namespace Pyg

/-! ### order facts about `cmp` (consequences of C07) -/

theorem cmp_swap (a b : Val) : cmp a b = (cmp b a).swap := cmpN_swap _ _

theorem cmp_tri (a b c : Val) : tri (cmp a b) (cmp b c) (cmp a c) := cmpN_tri _ _ _

theorem cmp_self (a : Val) : cmp a a = .eq := Props.C07.cmp_refl a

theorem cmp_eq_symm {a b : Val} (h : cmp a b = .eq) : cmp b a = .eq := by
  rw [cmp_swap, h]; rfl

theorem cmp_gt_of_lt {a b : Val} (h : cmp a b = .lt) : cmp b a = .gt := by
  rw [cmp_swap, h]; rfl

theorem cmp_lt_of_gt {a b : Val} (h : cmp a b = .gt) : cmp b a = .lt := by
  rw [cmp_swap, h]; rfl

theorem cmp_eq_trans {a b c : Val} (h1 : cmp a b = .eq) (h2 : cmp b c = .eq) : cmp a c = .eq :=
  tri_eq (cmp_tri a b c) h1 h2

theorem cmp_lt_trans {a b c : Val} (h1 : cmp a b = .lt) (h2 : cmp b c = .lt) : cmp a c = .lt :=
  Props.C07.cmp_lt_trans a b c h1 h2

theorem cmp_lt_of_lt_of_eq {a b c : Val} (h1 : cmp a b = .lt) (h2 : cmp b c = .eq) :
    cmp a c = .lt := by
  have h := cmp_tri a b c; rw [h1, h2] at h
  revert h; cases cmp a c <;> decide

theorem cmp_lt_of_eq_of_lt {a b c : Val} (h1 : cmp a b = .eq) (h2 : cmp b c = .lt) :
    cmp a c = .lt := by
  have h := cmp_tri a b c; rw [h1, h2] at h
  revert h; cases cmp a c <;> decide

/-- replacing either argument by a `cmp`-equal value does not change the outcome -/
theorem cmp_congr {a a' b b' : Val} (ha : cmp a a' = .eq) (hb : cmp b b' = .eq) :
    cmp a b = cmp a' b' := by
  have h1 := cmp_tri a a' b'; have h2 := cmp_tri a b b'
  rw [ha] at h1; rw [hb] at h2
  revert h1 h2
  cases cmp a b <;> cases cmp a' b' <;> cases cmp a b' <;> decide

theorem cmpLe_iff {a b : Val} : cmpLe a b = true ↔ cmp a b ≠ .gt := by
  unfold cmpLe; cases cmp a b <;> decide

/-! ### the structural merge that the loop computes -/

/-- what the loop leaves: everything emitted, and the unconsumed suffixes of both group lists -/
def mergeG {β} (e : Emit β) : List Grp → List Grp → List β × List Grp × List Grp
  | a :: as, b :: bs =>
    match cmp a.1 b.1 with
    | .lt => let m := mergeG e as (b :: bs); (e.onL a ++ m.1, m.2)
    | .gt => let m := mergeG e (a :: as) bs; (e.onR b ++ m.1, m.2)
    | .eq => let m := mergeG e as bs; (e.onM a b ++ m.1, m.2)
  | [], bs => ([], [], bs)
  | as, [] => ([], as, [])
termination_by as bs => as.length + bs.length

theorem mergeG_nil_right {β} (e : Emit β) (as : List Grp) : mergeG e as [] = ([], as, []) := by
  cases as <;> simp [mergeG]

/-- the value the loop is heading for from cursor position `(l, r)` with `res` already emitted -/
def outcome {β} (e : Emit β) (lxs rxs : List Grp) (l r : Nat) (res : List β) :
    List β × List Grp × List Grp :=
  let m := mergeG e (lxs.drop l) (rxs.drop r)
  (res ++ m.1, m.2)

theorem drop_of_get {α} {xs : List α} {i : Nat} {a : α} (h : xs[i]? = some a) :
    xs.drop i = a :: xs.drop (i + 1) := by
  obtain ⟨hi, rfl⟩ := List.getElem?_eq_some_iff.1 h
  exact List.drop_eq_getElem_cons hi

theorem outcome_lt {β} (e : Emit β) {lxs rxs : List Grp} {l r : Nat} {a b : Grp} (res : List β)
    (ha : lxs[l]? = some a) (hb : rxs[r]? = some b) (h : cmp a.1 b.1 = .lt) :
    outcome e lxs rxs (l + 1) r (res ++ e.onL a) = outcome e lxs rxs l r res := by
  simp only [outcome, drop_of_get ha, drop_of_get hb]
  rw [mergeG.eq_def (e := e) (a :: _) (b :: _)]
  simp [h]

theorem outcome_gt {β} (e : Emit β) {lxs rxs : List Grp} {l r : Nat} {a b : Grp} (res : List β)
    (ha : lxs[l]? = some a) (hb : rxs[r]? = some b) (h : cmp a.1 b.1 = .gt) :
    outcome e lxs rxs l (r + 1) (res ++ e.onR b) = outcome e lxs rxs l r res := by
  simp only [outcome, drop_of_get hb]
  rw [drop_of_get ha, mergeG.eq_def (e := e) (a :: _) (b :: _)]
  simp [h]

theorem outcome_eq {β} (e : Emit β) {lxs rxs : List Grp} {l r : Nat} {a b : Grp} (res : List β)
    (ha : lxs[l]? = some a) (hb : rxs[r]? = some b) (h : cmp a.1 b.1 = .eq) :
    outcome e lxs rxs (l + 1) (r + 1) (res ++ e.onM a b) = outcome e lxs rxs l r res := by
  simp only [outcome, drop_of_get ha, drop_of_get hb]
  rw [mergeG.eq_def (e := e) (a :: _) (b :: _)]
  simp [h]

/-! ### the inner loops -/

/-- the first inner loop can still move: `l<ls and r<rs and cmp(lxs[l],rxs[r]) == -1` -/
def canL (lxs rxs : List Grp) (l r : Nat) : Prop :=
  ∃ a b, lxs[l]? = some a ∧ rxs[r]? = some b ∧ cmp a.1 b.1 = .lt

def canR (lxs rxs : List Grp) (l r : Nat) : Prop :=
  ∃ a b, lxs[l]? = some a ∧ rxs[r]? = some b ∧ cmp a.1 b.1 = .gt

theorem skipL_spec {β} (e : Emit β) (lxs rxs : List Grp) (r : Nat) :
    ∀ (fuel l : Nat) (res : List β),
      let p := skipL e lxs rxs r fuel l res
      l ≤ p.1 ∧ (l < p.1 → p.1 ≤ lxs.length) ∧
      outcome e lxs rxs p.1 r p.2 = outcome e lxs rxs l r res ∧
      (lxs.length ≤ fuel + l → ¬ canL lxs rxs p.1 r) := by
  intro fuel
  induction fuel with
  | zero =>
    intro l res
    refine ⟨Nat.le_refl _, by simp [skipL], rfl, ?_⟩
    intro h ⟨a, b, ha, _, _⟩
    have := (List.getElem?_eq_some_iff.1 ha).1
    simp [skipL] at *; omega
  | succ fuel ih =>
    intro l res
    simp only [skipL]
    split
    · rename_i a b ha hb
      split
      · rename_i hlt
        have := ih (l + 1) (res ++ e.onL a)
        have hl := (List.getElem?_eq_some_iff.1 ha).1
        refine ⟨by omega, fun _ => ?_, ?_, fun h => this.2.2.2 (by omega)⟩
        · rcases Nat.lt_or_ge (l + 1) (skipL e lxs rxs r fuel (l + 1) (res ++ e.onL a)).1 with h | h
          · exact this.2.1 h
          · omega
        · rw [this.2.2.1]; exact outcome_lt e res ha hb hlt
      · rename_i hlt
        refine ⟨Nat.le_refl _, by simp, rfl, fun _ => ?_⟩
        rintro ⟨a', b', ha', hb', h'⟩
        rw [ha] at ha'; rw [hb] at hb'; cases ha'; cases hb'; exact hlt h'
    · rename_i hnone
      refine ⟨Nat.le_refl _, by simp, rfl, fun _ => ?_⟩
      rintro ⟨a', b', ha', hb', _⟩
      exact hnone a' b' ha' hb'

theorem skipR_spec {β} (e : Emit β) (lxs rxs : List Grp) (l : Nat) :
    ∀ (fuel r : Nat) (res : List β),
      let p := skipR e lxs rxs l fuel r res
      r ≤ p.1 ∧ (r < p.1 → p.1 ≤ rxs.length) ∧
      outcome e lxs rxs l p.1 p.2 = outcome e lxs rxs l r res ∧
      (rxs.length ≤ fuel + r → ¬ canR lxs rxs l p.1) := by
  intro fuel
  induction fuel with
  | zero =>
    intro r res
    refine ⟨Nat.le_refl _, by simp [skipR], rfl, ?_⟩
    intro h ⟨a, b, _, hb, _⟩
    have := (List.getElem?_eq_some_iff.1 hb).1
    simp [skipR] at *; omega
  | succ fuel ih =>
    intro r res
    simp only [skipR]
    split
    · rename_i a b ha hb
      split
      · rename_i hgt
        have := ih (r + 1) (res ++ e.onR b)
        have hr := (List.getElem?_eq_some_iff.1 hb).1
        refine ⟨by omega, fun _ => ?_, ?_, fun h => this.2.2.2 (by omega)⟩
        · rcases Nat.lt_or_ge (r + 1) (skipR e lxs rxs l fuel (r + 1) (res ++ e.onR b)).1 with h | h
          · exact this.2.1 h
          · omega
        · rw [this.2.2.1]; exact outcome_gt e res ha hb hgt
      · rename_i hgt
        refine ⟨Nat.le_refl _, by simp, rfl, fun _ => ?_⟩
        rintro ⟨a', b', ha', hb', h'⟩
        rw [ha] at ha'; rw [hb] at hb'; cases ha'; cases hb'; exact hgt h'
    · rename_i hnone
      refine ⟨Nat.le_refl _, by simp, rfl, fun _ => ?_⟩
      rintro ⟨a', b', ha', hb', _⟩
      exact hnone a' b' ha' hb'

/-! ### one pass of the outer loop: progress and outcome -/

/-- the loop condition `l<ls and r<rs` -/
def MState.cond {β} (lxs rxs : List Grp) (st : MState β) : Prop :=
  st.l < lxs.length ∧ st.r < rxs.length

instance {β} (lxs rxs : List Grp) (st : MState β) : Decidable (st.cond lxs rxs) := by
  unfold MState.cond; infer_instance

/-- the progress measure: groups not yet passed by either cursor -/
def MState.measure {β} (lxs rxs : List Grp) (st : MState β) : Nat :=
  (lxs.length - st.l) + (rxs.length - st.r)

theorem outer_spec {β} (e : Emit β) (lxs rxs : List Grp) (st : MState β)
    (hc : st.cond lxs rxs) :
    let st' := outer e lxs rxs st
    st'.measure lxs rxs < st.measure lxs rxs ∧
    outcome e lxs rxs st'.l st'.r st'.res = outcome e lxs rxs st.l st.r st.res := by
  obtain ⟨hl, hr⟩ := hc
  have hL := skipL_spec e lxs rxs st.r (lxs.length - st.l) st.l st.res
  generalize hp : skipL e lxs rxs st.r (lxs.length - st.l) st.l st.res = p at hL
  obtain ⟨l1, res1⟩ := p
  have hR := skipR_spec e lxs rxs l1 (rxs.length - st.r) st.r res1
  generalize hq : skipR e lxs rxs l1 (rxs.length - st.r) st.r res1 = q at hR
  obtain ⟨r1, res2⟩ := q
  simp only at hL hR
  obtain ⟨hL1, hL2, hL3, hL4⟩ := hL
  obtain ⟨hR1, hR2, hR3, hR4⟩ := hR
  have hL4 := hL4 (by omega)
  have hR4 := hR4 (by omega)
  have hl1 : l1 ≤ lxs.length := by
    rcases Nat.lt_or_ge st.l l1 with h | h
    · exact hL2 h
    · omega
  have hr1 : r1 ≤ rxs.length := by
    rcases Nat.lt_or_ge st.r r1 with h | h
    · exact hR2 h
    · omega
  simp only [outer, outerWith, hp, hq, MState.measure]
  split
  · rename_i a b ha hb
    have hla := (List.getElem?_eq_some_iff.1 ha).1
    have hrb := (List.getElem?_eq_some_iff.1 hb).1
    split
    · rename_i heq
      have heq' : cmp a.1 b.1 = .eq := by simpa [cmpEq] using heq
      refine ⟨by simp only; omega, ?_⟩
      simp only
      rw [outcome_eq e res2 ha hb heq', hR3, hL3]
    · rename_i hne
      refine ⟨?_, by simp only; rw [hR3, hL3]⟩
      simp only
      -- no cursor moved in the match step: then one of the inner loops must have moved,
      -- because `cmp` returns one of lt / gt / eq
      rcases Nat.lt_or_ge st.l l1 with h | h
      · omega
      rcases Nat.lt_or_ge st.r r1 with h' | h'
      · omega
      have e1 : l1 = st.l := by omega
      have e2 : r1 = st.r := by omega
      subst e1; subst e2
      exfalso
      have h1 : cmp a.1 b.1 ≠ .lt := fun h => hL4 ⟨a, b, ha, hb, h⟩
      have h2 : cmp a.1 b.1 ≠ .gt := fun h => hR4 ⟨a, b, ha, hb, h⟩
      apply hne
      simp only [cmpEq]
      revert h1 h2; cases cmp a.1 b.1 <;> simp
  · rename_i hnone
    refine ⟨?_, by simp only; rw [hR3, hL3]⟩
    simp only
    -- a cursor ran off its list: it moved
    rcases Nat.lt_or_ge st.l l1 with h | h
    · omega
    rcases Nat.lt_or_ge st.r r1 with h' | h'
    · omega
    have e1 : l1 = st.l := by omega
    have e2 : r1 = st.r := by omega
    subst e1; subst e2
    exfalso
    exact hnone lxs[st.l] rxs[st.r] (List.getElem?_eq_getElem hl) (List.getElem?_eq_getElem hr)

theorem mergeLoop_stop {β} (e : Emit β) (lxs rxs : List Grp) (st : MState β)
    (h : ¬ st.cond lxs rxs) (fuel : Nat) : mergeLoop e lxs rxs fuel st = st := by
  cases fuel with
  | zero => rfl
  | succ n => simp only [mergeLoop, mergeLoopWith]; exact if_neg h

theorem mergeLoop_step {β} (e : Emit β) (lxs rxs : List Grp) (st : MState β)
    (h : st.cond lxs rxs) (fuel : Nat) :
    mergeLoop e lxs rxs (fuel + 1) st = mergeLoop e lxs rxs fuel (outer e lxs rxs st) := by
  simp only [mergeLoop, mergeLoopWith]; exact if_pos h

/-- with fuel at least the measure the loop ends because its condition is false, the outcome is
unchanged, and more fuel changes nothing -/
theorem mergeLoop_spec {β} (e : Emit β) (lxs rxs : List Grp) :
    ∀ (fuel : Nat) (st : MState β), st.measure lxs rxs ≤ fuel →
      let st' := mergeLoop e lxs rxs fuel st
      ¬ st'.cond lxs rxs ∧
      outcome e lxs rxs st'.l st'.r st'.res = outcome e lxs rxs st.l st.r st.res ∧
      ∀ k, mergeLoop e lxs rxs (fuel + k) st = st' := by
  intro fuel
  induction fuel with
  | zero =>
    intro st hm
    have hc : ¬ st.cond lxs rxs := by
      simp only [MState.measure, MState.cond] at *; omega
    refine ⟨by simpa [mergeLoop, mergeLoopWith] using hc, rfl, fun k => ?_⟩
    rw [mergeLoop_stop e lxs rxs st hc, mergeLoop_stop e lxs rxs st hc]
  | succ n ih =>
    intro st hm
    by_cases hc : st.cond lxs rxs
    · have ho := outer_spec e lxs rxs st hc
      have := ih (outer e lxs rxs st) (by have := ho.1; omega)
      rw [mergeLoop_step e lxs rxs st hc]
      refine ⟨this.1, by rw [this.2.1, ho.2], fun k => ?_⟩
      rw [show n + 1 + k = (n + k) + 1 by omega, mergeLoop_step e lxs rxs st hc]
      exact this.2.2 k
    · rw [mergeLoop_stop e lxs rxs st hc]
      exact ⟨hc, rfl, fun k => mergeLoop_stop e lxs rxs st hc _⟩

/-- the loop as the code runs it computes the structural merge -/
theorem mergeRun_eq {β} (e : Emit β) (lxs rxs : List Grp) :
    let st := mergeRun e lxs rxs
    (st.res, lxs.drop st.l, rxs.drop st.r) = mergeG e lxs rxs := by
  have h := mergeLoop_spec e lxs rxs (lxs.length + rxs.length) ⟨0, 0, []⟩
    (by simp [MState.measure])
  simp only at h
  obtain ⟨hc, ho, _⟩ := h
  simp only [mergeRun]
  generalize mergeLoop e lxs rxs (lxs.length + rxs.length) ⟨0, 0, []⟩ = st at hc ho
  simp only [outcome, List.drop_zero, List.nil_append] at ho
  have ho' : (st.res ++ (mergeG e (lxs.drop st.l) (rxs.drop st.r)).1,
      (mergeG e (lxs.drop st.l) (rxs.drop st.r)).2) = mergeG e lxs rxs := ho
  rw [← ho']
  simp only [MState.cond] at hc
  rcases Nat.lt_or_ge st.l lxs.length with h1 | h1
  · have h2 : rxs.length ≤ st.r := by omega
    rw [List.drop_eq_nil_of_le h2, mergeG_nil_right]; simp
  · rw [List.drop_eq_nil_of_le h1]
    simp [mergeG]

/-! ### the structural merge on strictly increasing group lists -/

/-- group keys strictly increasing under `cmp` (what `_listby` produces) -/
def SortedG (L : List Grp) : Prop := L.Pairwise fun a b => cmp a.1 b.1 = .lt

theorem SortedG.tail {a : Grp} {as : List Grp} (h : SortedG (a :: as)) : SortedG as :=
  (List.pairwise_cons.1 h).2

theorem SortedG.head {a : Grp} {as : List Grp} (h : SortedG (a :: as)) :
    ∀ a' ∈ as, cmp a.1 a'.1 = .lt := (List.pairwise_cons.1 h).1

@[simp] theorem joinEmit_onL (a : Grp) : joinEmit.onL a = [] := rfl
@[simp] theorem joinEmit_onR (a : Grp) : joinEmit.onR a = [] := rfl
@[simp] theorem joinEmit_onM (a b : Grp) : joinEmit.onM a b = [(a.1, a.2, b.2)] := rfl
@[simp] theorem xorEmit0_onL (a : Grp) : (xorEmit 0).onL a = [a.2] := rfl
@[simp] theorem xorEmit0_onR (a : Grp) : (xorEmit 0).onR a = [] := rfl
@[simp] theorem xorEmit0_onM (a b : Grp) : (xorEmit 0).onM a b = [] := rfl

/-- the matches of one left group among the right groups -/
def matchesOf (a : Grp) (R : List Grp) : List Match :=
  R.filterMap fun b => if cmp a.1 b.1 = .eq then some (a.1, a.2, b.2) else none

theorem matchesOf_none {a : Grp} {R : List Grp} (h : ∀ b ∈ R, cmp a.1 b.1 ≠ .eq) :
    matchesOf a R = [] := by
  simp only [matchesOf, List.filterMap_eq_nil_iff]
  intro b hb; simp [h b hb]

theorem matchesOf_cons_ne {a b : Grp} {R : List Grp} (h : cmp a.1 b.1 ≠ .eq) :
    matchesOf a (b :: R) = matchesOf a R := by
  simp [matchesOf, h]

theorem flatMap_congr' {α β} {l : List α} {f g : α → List β} (h : ∀ a ∈ l, f a = g a) :
    l.flatMap f = l.flatMap g := by
  induction l with
  | nil => rfl
  | cons x xs ih =>
    simp only [List.flatMap_cons]
    rw [h x (by simp), ih (fun a ha => h a (by simp [ha]))]

/-- on strictly increasing group lists the merge emits exactly the pairs of groups with equal keys,
in the order of the left list -/
theorem mergeG_join : ∀ (L R : List Grp), SortedG L → SortedG R →
    (mergeG joinEmit L R).1 = L.flatMap fun a => matchesOf a R := by
  intro L
  induction L with
  | nil => intro R _ _; simp [mergeG]
  | cons a as ihL =>
    intro R
    induction R with
    | nil => intro _ _; simp [mergeG_nil_right, matchesOf]
    | cons b bs ihR =>
      intro hL hR
      rw [mergeG.eq_def]
      simp only
      cases h : cmp a.1 b.1 with
      | lt =>
        simp only [joinEmit_onL, List.nil_append, List.flatMap_cons]
        rw [matchesOf_none, List.nil_append]
        · exact ihL (b :: bs) hL.tail hR
        · intro b' hb'
          rcases List.mem_cons.1 hb' with rfl | hb'
          · rw [h]; decide
          · rw [cmp_lt_trans h (hR.head b' hb')]; decide
      | gt =>
        simp only [joinEmit_onR, List.nil_append]
        rw [ihR hL hR.tail]
        apply flatMap_congr'
        intro a' ha'
        symm; apply matchesOf_cons_ne
        rcases List.mem_cons.1 ha' with rfl | ha'
        · rw [h]; decide
        · have h1 : cmp b.1 a.1 = .lt := cmp_lt_of_gt h
          have h2 := cmp_lt_trans h1 (hL.head a' ha')
          rw [cmp_gt_of_lt h2]; decide
      | eq =>
        simp only [joinEmit_onM, List.flatMap_cons]
        have h1 : matchesOf a (b :: bs) = [(a.1, a.2, b.2)] := by
          have : matchesOf a bs = [] := by
            apply matchesOf_none
            intro b' hb'
            rw [cmp_lt_of_eq_of_lt h (hR.head b' hb')]; decide
          simp [matchesOf, h] at this ⊢
          exact this
        rw [h1, ihL bs hL.tail hR.tail]
        simp only [List.singleton_append, List.cons.injEq, true_and]
        apply flatMap_congr'
        intro a' ha'
        symm; apply matchesOf_cons_ne
        have h2 : cmp b.1 a'.1 = .lt := cmp_lt_of_eq_of_lt (cmp_eq_symm h) (hL.head a' ha')
        rw [cmp_gt_of_lt h2]; decide

/-- a left group without a partner among the right groups -/
def unmatched (R : List Grp) (a : Grp) : Bool := R.all fun b => cmp a.1 b.1 != .eq

theorem unmatched_cons_ne {a b : Grp} {R : List Grp} (h : cmp a.1 b.1 ≠ .eq) :
    unmatched (b :: R) a = unmatched R a := by
  simp [unmatched, h]

/-- `xor` (mode 0): what the loop emits plus the left groups it leaves are exactly the left groups
without a partner, in order -/
theorem mergeG_xor : ∀ (L R : List Grp), SortedG L → SortedG R →
    let m := mergeG (xorEmit 0) L R
    m.1 ++ m.2.1.map (·.2) = (L.filter (unmatched R)).map (·.2) := by
  intro L
  induction L with
  | nil => intro R _ _; simp [mergeG]
  | cons a as ihL =>
    intro R
    induction R with
    | nil =>
      intro _ _
      simp only [mergeG_nil_right, List.nil_append]
      congr 1
      symm; apply List.filter_eq_self.2
      intro x _; simp [unmatched]
    | cons b bs ihR =>
      intro hL hR
      rw [mergeG.eq_def]
      simp only
      cases h : cmp a.1 b.1 with
      | lt =>
        have hu : unmatched (b :: bs) a = true := by
          simp only [unmatched, List.all_eq_true]
          intro b' hb'
          rcases List.mem_cons.1 hb' with rfl | hb'
          · rw [h]; decide
          · rw [cmp_lt_trans h (hR.head b' hb')]; decide
        simp only [xorEmit0_onL, if_true, List.filter_cons, hu, List.map_cons,
          List.cons_append, List.nil_append]
        congr 1
        exact ihL (b :: bs) hL.tail hR
      | gt =>
        simp only [xorEmit0_onR, List.nil_append]
        have := ihR hL hR.tail
        simp only at this
        rw [this]
        congr 1
        apply List.filter_congr
        intro a' ha'
        symm; apply unmatched_cons_ne
        rcases List.mem_cons.1 ha' with rfl | ha'
        · rw [h]; decide
        · have h1 : cmp b.1 a.1 = .lt := cmp_lt_of_gt h
          rw [cmp_gt_of_lt (cmp_lt_trans h1 (hL.head a' ha'))]; decide
      | eq =>
        have hu : unmatched (b :: bs) a = false := by
          simp [unmatched, h]
        simp only [xorEmit0_onM, List.nil_append, List.filter_cons, hu]
        have := ihL bs hL.tail hR.tail
        simp only at this
        rw [this]
        simp only [Bool.false_eq_true, if_false]
        congr 1
        apply List.filter_congr
        intro a' ha'
        symm; apply unmatched_cons_ne
        have h2 : cmp b.1 a'.1 = .lt := cmp_lt_of_eq_of_lt (cmp_eq_symm h) (hL.head a' ha')
        rw [cmp_gt_of_lt h2]; decide

/-- the matched groups keep the order of the left list: their left row-id lists are a sublist -/
theorem mergeG_join_sublist : ∀ (n : Nat) (L R : List Grp), L.length + R.length ≤ n →
    ((mergeG joinEmit L R).1.map (·.2.1)).Sublist (L.map (·.2)) := by
  intro n
  induction n with
  | zero =>
    intro L R h
    have : L = [] := by cases L <;> simp_all
    subst this; simp [mergeG]
  | succ n ih =>
    intro L R hn
    cases L with
    | nil => simp [mergeG]
    | cons a as =>
      cases R with
      | nil => simp [mergeG_nil_right]
      | cons b bs =>
        rw [mergeG.eq_def]
        simp only
        simp only [List.length_cons] at hn
        cases cmp a.1 b.1 with
        | lt =>
          simp only [joinEmit_onL, List.nil_append, List.map_cons]
          exact List.Sublist.cons _ (ih as (b :: bs) (by simp; omega))
        | gt =>
          simp only [joinEmit_onR, List.nil_append]
          exact ih (a :: as) bs (by simp; omega)
        | eq =>
          simp only [joinEmit_onM, List.singleton_append, List.map_cons]
          exact List.Sublist.cons_cons _ (ih as bs (by omega))

/-! ### the groups of `_listby` -/

theorem listbyLoop_flat : ∀ (xs : List (Val × Nat)) (prev : Val) (row : List Nat) (res : List Grp),
    (listbyLoop xs prev row res).flatMap (·.2) = res.flatMap (·.2) ++ row ++ xs.map (·.2) := by
  intro xs
  induction xs with
  | nil => intro prev row res; simp [listbyLoop]
  | cons p rest ih =>
    intro prev row res
    obtain ⟨key, i⟩ := p
    simp only [listbyLoop]
    split
    · rw [ih]; simp
    · rw [ih]; simp

/-- every row id sits in a group whose key is `cmp`-equal to that row's key -/
theorem listbyLoop_keys (orig : List (Val × Nat)) :
    ∀ (xs : List (Val × Nat)) (prev : Val) (row : List Nat) (res : List Grp),
      (∀ p ∈ xs, p ∈ orig) →
      (∀ g ∈ res, ∀ i ∈ g.2, ∃ k, (k, i) ∈ orig ∧ cmp k g.1 = .eq) →
      (∀ i ∈ row, ∃ k, (k, i) ∈ orig ∧ cmp k prev = .eq) →
      ∀ g ∈ listbyLoop xs prev row res, ∀ i ∈ g.2, ∃ k, (k, i) ∈ orig ∧ cmp k g.1 = .eq := by
  intro xs
  induction xs with
  | nil =>
    intro prev row res _ hres hrow g hg
    simp only [listbyLoop, List.mem_append, List.mem_singleton] at hg
    rcases hg with hg | rfl
    · exact hres g hg
    · exact hrow
  | cons p rest ih =>
    intro prev row res hxs hres hrow
    obtain ⟨key, i⟩ := p
    simp only [listbyLoop]
    have hrest : ∀ p ∈ rest, p ∈ orig := fun p hp => hxs p (by simp [hp])
    have hki : (key, i) ∈ orig := hxs _ (by simp)
    split
    · rename_i hc
      apply ih key (row ++ [i]) res hrest hres
      intro j hj
      rcases List.mem_append.1 hj with hj | hj
      · rcases Bool.or_eq_true _ _ ▸ hc with he | he
        · simp at he; subst he; simp at hj
        · obtain ⟨k, hk, hkp⟩ := hrow j hj
          have he' : cmp key prev = .eq := by simpa using he
          exact ⟨k, hk, cmp_eq_trans hkp (cmp_eq_symm he')⟩
      · simp at hj; subst hj; exact ⟨key, hki, cmp_self key⟩
    · apply ih key [i] (res ++ [(prev, row)]) hrest
      · intro g hg
        rcases List.mem_append.1 hg with hg | hg
        · exact hres g hg
        · simp at hg; subst hg; exact hrow
      · intro j hj; simp at hj; subst hj; exact ⟨key, hki, cmp_self key⟩

/-- on a key-sorted list the group keys come out strictly increasing -/
theorem listbyLoop_sorted :
    ∀ (xs : List (Val × Nat)) (prev : Val) (row : List Nat) (res : List Grp),
      xs.Pairwise (fun a b => cmp a.1 b.1 ≠ .gt) →
      SortedG res → (∀ g ∈ res, cmp g.1 prev = .lt) → (row = [] → res = []) →
      (row ≠ [] → ∀ p ∈ xs, cmp prev p.1 ≠ .gt) →
      SortedG (listbyLoop xs prev row res) := by
  intro xs
  induction xs with
  | nil =>
    intro prev row res _ hres hlt _ _
    simp only [listbyLoop, SortedG, List.pairwise_append, List.pairwise_cons, List.mem_singleton]
    refine ⟨hres, ⟨by simp, by simp⟩, ?_⟩
    intro g hg g' hg'; subst hg'; exact hlt g hg
  | cons p rest ih =>
    intro prev row res hxs hres hlt hemp hle
    obtain ⟨key, i⟩ := p
    have hx := List.pairwise_cons.1 hxs
    simp only [listbyLoop]
    split
    · rename_i hc
      apply ih key (row ++ [i]) res hx.2 hres
      · intro g hg
        rcases Bool.or_eq_true _ _ ▸ hc with he | he
        · simp at he; subst he; rw [hemp rfl] at hg; simp at hg
        · have he' : cmp key prev = .eq := by simpa using he
          exact cmp_lt_of_lt_of_eq (hlt g hg) (cmp_eq_symm he')
      · intro h; simp at h
      · intro _ p hp; exact hx.1 p hp
    · rename_i hc
      have hne : row ≠ [] := by
        intro h; apply hc; simp [h]
      have hkp : cmp key prev ≠ .eq := by
        intro h; apply hc; simp [h]
      have hpk : cmp prev key = .lt := by
        have h1 := hle hne (key, i) (by simp)
        have h2 : cmp prev key ≠ .eq := fun h => hkp (cmp_eq_symm h)
        revert h1 h2; simp only; cases cmp prev key <;> simp
      apply ih key [i] (res ++ [(prev, row)]) hx.2
      · simp only [SortedG, List.pairwise_append, List.pairwise_cons, List.mem_singleton]
        refine ⟨hres, ⟨by simp, by simp⟩, ?_⟩
        intro g hg g' hg'; subst hg'; exact hlt g hg
      · intro g hg
        rcases List.mem_append.1 hg with hg | hg
        · exact cmp_lt_trans (hlt g hg) hpk
        · simp at hg; subst hg; exact hpk
      · intro h; simp at h
      · intro _ p hp; exact hx.1 p hp

theorem zipIdxLE_eq : (fun a b : Val × Nat => cmpLe (keyId a) (keyId b)) = List.zipIdxLE cmpLe := by
  funext a b; exact Props.C07.keyId_le a b

/-- the decorated, sorted `(key, row id)` list is ordered by key, ties by row id -/
theorem sortedKeyIds_pairwise (keys : List Val) :
    (sortedKeyIds keys).Pairwise (fun a b => List.zipIdxLE cmpLe a b = true) := by
  unfold sortedKeyIds
  rw [zipIdxLE_eq]
  exact List.pairwise_mergeSort
    (List.zipIdxLE_trans Props.C07.cmpLe_trans) (List.zipIdxLE_total Props.C07.cmpLe_total) _

theorem sortedKeyIds_perm (keys : List Val) : (sortedKeyIds keys).Perm keys.zipIdx :=
  List.mergeSort_perm _ _

theorem mem_sortedKeyIds {keys : List Val} {k : Val} {i : Nat} :
    (k, i) ∈ sortedKeyIds keys ↔ keys[i]? = some k := by
  rw [(sortedKeyIds_perm keys).mem_iff, List.mem_zipIdx_iff_getElem?]

theorem sortedKeyIds_snd (keys : List Val) : (sortedKeyIds keys).map (·.2) = sortIdx keys := rfl

/-- the three facts about `_listby` the join needs -/
theorem listbyG_flat (keys : List Val) : (listbyG keys).flatMap (·.2) = sortIdx keys := by
  simp [listbyG, listbyLoop_flat, sortedKeyIds_snd]

theorem listbyG_sorted (keys : List Val) : SortedG (listbyG keys) := by
  apply listbyLoop_sorted
  · apply (sortedKeyIds_pairwise keys).imp
    intro a b h
    simp only [List.zipIdxLE] at h
    have : cmpLe a.1 b.1 = true := by
      by_cases h' : cmpLe a.1 b.1 = true
      · exact h'
      · simp [h'] at h
    exact cmpLe_iff.1 this
  · exact List.Pairwise.nil
  · simp
  · simp
  · simp

theorem listbyG_keys (keys : List Val) :
    ∀ g ∈ listbyG keys, ∀ i ∈ g.2, ∃ k, keys[i]? = some k ∧ cmp k g.1 = .eq := by
  intro g hg i hi
  obtain ⟨k, hk, he⟩ := listbyLoop_keys (sortedKeyIds keys) (sortedKeyIds keys) (.cell .none) [] []
    (fun _ h => h) (by simp) (by simp) g hg i hi
  exact ⟨k, mem_sortedKeyIds.1 hk, he⟩

theorem listbyG_perm (keys : List Val) :
    ((listbyG keys).flatMap (·.2)).Perm (List.range keys.length) := by
  rw [listbyG_flat]; exact Props.C07.sortIdx_perm keys

theorem listbyG_nodup (keys : List Val) : ((listbyG keys).flatMap (·.2)).Nodup :=
  (List.nodup_range.perm (listbyG_perm keys).symm)

theorem mem_listbyG {keys : List Val} {i : Nat} :
    (∃ g ∈ listbyG keys, i ∈ g.2) ↔ i < keys.length := by
  have := (listbyG_perm keys).mem_iff (a := i)
  simp only [List.mem_flatMap, List.mem_range] at this
  exact this

theorem listbyLoop_nonempty :
    ∀ (xs : List (Val × Nat)) (prev : Val) (row : List Nat) (res : List Grp),
      (∀ g ∈ res, g.2 ≠ []) → (row ≠ [] ∨ xs ≠ []) →
      ∀ g ∈ listbyLoop xs prev row res, g.2 ≠ [] := by
  intro xs
  induction xs with
  | nil =>
    intro prev row res hres h g hg
    simp only [listbyLoop, List.mem_append, List.mem_singleton] at hg
    rcases hg with hg | rfl
    · exact hres g hg
    · simpa using h
  | cons p rest ih =>
    intro prev row res hres _
    obtain ⟨key, i⟩ := p
    simp only [listbyLoop]
    split
    · exact ih key (row ++ [i]) res hres (Or.inl (by simp))
    · rename_i hc
      apply ih key [i] (res ++ [(prev, row)]) _ (Or.inl (by simp))
      intro g hg
      rcases List.mem_append.1 hg with hg | hg
      · exact hres g hg
      · simp at hg; subst hg
        intro h; apply hc
        have : row = [] := h
        simp [this]

theorem listbyG_nonempty {keys : List Val} (h : keys ≠ []) : ∀ g ∈ listbyG keys, g.2 ≠ [] := by
  apply listbyLoop_nonempty _ _ _ _ (by simp)
  right
  intro he
  have := (sortedKeyIds_perm keys).length_eq
  rw [he] at this
  simp at this
  exact h (List.eq_nil_of_length_eq_zero this.symm)

theorem listbyG_nil : listbyG [] = [(.cell .none, [])] := by
  simp [listbyG, sortedKeyIds, listbyLoop]

/-! ### from groups to rows: the join pairs and the xor ids -/

/-- key of row `i` (`None` outside the table: never used inside the theorems' ranges) -/
def keyAt (ks : List Val) (i : Nat) : Val := ks.getD i (.cell .none)

theorem keyAt_of_get {ks : List Val} {i : Nat} {k : Val} (h : ks[i]? = some k) : keyAt ks i = k := by
  simp [keyAt, List.getD_eq_getElem?_getD, h]

theorem get_of_lt {ks : List Val} {i : Nat} (h : i < ks.length) : ks[i]? = some (keyAt ks i) := by
  simp [keyAt, List.getD_eq_getElem?_getD, List.getElem?_eq_getElem h]

theorem joinMatches_eq (lk rk : List Val) :
    joinMatches lk rk = (listbyG lk).flatMap fun a => matchesOf a (listbyG rk) := by
  have h := mergeRun_eq joinEmit (listbyG lk) (listbyG rk)
  simp only at h
  have h1 := congrArg Prod.fst h
  simp only at h1
  rw [joinMatches, h1]
  exact mergeG_join _ _ (listbyG_sorted lk) (listbyG_sorted rk)

theorem mem_joinMatches {lk rk : List Val} {m : Match} :
    m ∈ joinMatches lk rk ↔
      ∃ a ∈ listbyG lk, ∃ b ∈ listbyG rk, cmp a.1 b.1 = .eq ∧ m = (a.1, a.2, b.2) := by
  rw [joinMatches_eq]
  simp only [List.mem_flatMap, matchesOf, List.mem_filterMap]
  constructor
  · rintro ⟨a, ha, b, hb, h⟩
    by_cases hc : cmp a.1 b.1 = .eq
    · simp [hc] at h; exact ⟨a, ha, b, hb, hc, h.symm⟩
    · simp [hc] at h
  · rintro ⟨a, ha, b, hb, hc, rfl⟩
    exact ⟨a, ha, b, hb, by simp [hc]⟩

theorem mem_expand {α} {ms : List Match} {f : Nat → Nat → α} {x : α} :
    x ∈ expand ms f ↔ ∃ m ∈ ms, ∃ l ∈ m.2.1, ∃ r ∈ m.2.2, f l r = x := by
  simp [expand, List.mem_flatMap, List.mem_map]

/-- a result row pairs left row `i` with right row `j` iff their keys are equal under `cmp` -/
theorem mem_joinPairs {lk rk : List Val} {i j : Nat} :
    (i, j) ∈ joinPairs lk rk ↔
      i < lk.length ∧ j < rk.length ∧ cmp (keyAt lk i) (keyAt rk j) = .eq := by
  simp only [joinPairs, mem_expand, mem_joinMatches]
  constructor
  · rintro ⟨m, ⟨a, ha, b, hb, hc, rfl⟩, l, hl, r, hr, h⟩
    simp only [Prod.mk.injEq] at h
    obtain ⟨rfl, rfl⟩ := h
    obtain ⟨ki, hki, hka⟩ := listbyG_keys lk a ha l hl
    obtain ⟨kj, hkj, hkb⟩ := listbyG_keys rk b hb r hr
    refine ⟨(List.getElem?_eq_some_iff.1 hki).1, (List.getElem?_eq_some_iff.1 hkj).1, ?_⟩
    rw [keyAt_of_get hki, keyAt_of_get hkj, cmp_congr hka hkb]; exact hc
  · rintro ⟨hi, hj, hc⟩
    obtain ⟨a, ha, hia⟩ := mem_listbyG.2 hi
    obtain ⟨b, hb, hjb⟩ := mem_listbyG.2 hj
    obtain ⟨ki, hki, hka⟩ := listbyG_keys lk a ha i hia
    obtain ⟨kj, hkj, hkb⟩ := listbyG_keys rk b hb j hjb
    rw [keyAt_of_get hki, keyAt_of_get hkj, cmp_congr hka hkb] at hc
    exact ⟨_, ⟨a, ha, b, hb, hc, rfl⟩, i, hia, j, hjb, rfl⟩

theorem nodup_product {α β} {l₁ : List α} {l₂ : List β} (h1 : l₁.Nodup) (h2 : l₂.Nodup) :
    (l₁.flatMap fun a => l₂.map fun b => (a, b)).Nodup := by
  rw [List.nodup_iff_pairwise_ne, List.pairwise_flatMap]
  constructor
  · intro a _
    rw [List.pairwise_map]
    exact h2.imp (fun h he => h (by simpa using he))
  · apply (List.nodup_iff_pairwise_ne.1 h1).imp
    intro a a' hne x hx y hy
    simp only [List.mem_map] at hx hy
    obtain ⟨_, _, rfl⟩ := hx; obtain ⟨_, _, rfl⟩ := hy
    intro h; exact hne (by simpa using congrArg Prod.fst h)

/-- the row-id lists of the groups are duplicate free and pairwise disjoint -/
theorem listbyG_disjoint (keys : List Val) :
    (∀ g ∈ listbyG keys, g.2.Nodup) ∧
    ((listbyG keys).map (·.2)).Pairwise (fun l₁ l₂ => ∀ x ∈ l₁, ∀ y ∈ l₂, x ≠ y) := by
  have h := listbyG_nodup keys
  rw [List.flatMap_def, List.nodup_iff_pairwise_ne, List.pairwise_flatten] at h
  refine ⟨fun g hg => ?_, h.2⟩
  exact h.1 g.2 (List.mem_map.2 ⟨g, hg, rfl⟩)

theorem joinPairs_nodup (lk rk : List Val) : (joinPairs lk rk).Nodup := by
  unfold joinPairs expand
  rw [List.nodup_iff_pairwise_ne, List.pairwise_flatMap]
  constructor
  · intro m hm
    obtain ⟨a, ha, b, hb, _, rfl⟩ := mem_joinMatches.1 hm
    exact nodup_product ((listbyG_disjoint lk).1 a ha) ((listbyG_disjoint rk).1 b hb)
  · have hsub : ((joinMatches lk rk).map (·.2.1)).Sublist ((listbyG lk).map (·.2)) := by
      have h := mergeRun_eq joinEmit (listbyG lk) (listbyG rk)
      have h1 := congrArg Prod.fst h
      simp only at h1
      rw [joinMatches, h1]
      exact mergeG_join_sublist _ _ _ (Nat.le_refl _)
    have hp := ((listbyG_disjoint lk).2.sublist hsub)
    rw [List.pairwise_map] at hp
    apply hp.imp
    intro m m' hd x hx y hy
    simp only [List.mem_flatMap, List.mem_map] at hx hy
    obtain ⟨l, hl, _, _, rfl⟩ := hx
    obtain ⟨l', hl', _, _, rfl⟩ := hy
    intro h
    exact hd l hl l' hl' (by simpa using congrArg Prod.fst h)

/-- all index pairs of a `n`-row and a `m`-row table, row-major -/
def allPairs (n m : Nat) : List (Nat × Nat) :=
  (List.range n).flatMap fun i => (List.range m).map fun j => (i, j)

theorem mem_allPairs {n m i j : Nat} : (i, j) ∈ allPairs n m ↔ i < n ∧ j < m := by
  simp [allPairs, List.mem_flatMap, List.mem_map]

theorem allPairs_nodup (n m : Nat) : (allPairs n m).Nodup :=
  nodup_product List.nodup_range List.nodup_range

/-- **join, row level**: the (left row, right row) pairs of the result are, as a multiset,
exactly the index pairs whose keys are equal under `cmp` -/
theorem joinPairs_perm (lk rk : List Val) :
    (joinPairs lk rk).Perm
      ((allPairs lk.length rk.length).filter fun p => cmp (keyAt lk p.1) (keyAt rk p.2) == .eq) := by
  rw [List.perm_ext_iff_of_nodup (joinPairs_nodup lk rk)
    ((allPairs_nodup _ _).sublist List.filter_sublist)]
  rintro ⟨i, j⟩
  rw [mem_joinPairs, List.mem_filter, mem_allPairs]
  simp [and_assoc]

/-! ### xor -/

theorem xorIds_eq (lk rk : List Val) :
    xorIds 0 lk rk = ((listbyG lk).filter (unmatched (listbyG rk))).flatMap (·.2) := by
  have h := mergeRun_eq (xorEmit 0) (listbyG lk) (listbyG rk)
  simp only at h
  have hx := mergeG_xor _ _ (listbyG_sorted lk) (listbyG_sorted rk)
  simp only at hx
  rw [← h] at hx
  simp only [xorIds, if_true]
  rw [hx, List.flatMap_def]

theorem xorIds_nodup (lk rk : List Val) : (xorIds 0 lk rk).Nodup := by
  rw [xorIds_eq, List.flatMap_def]
  have h := listbyG_nodup lk
  rw [List.flatMap_def, List.nodup_iff_pairwise_ne, List.pairwise_flatten] at h
  rw [List.nodup_iff_pairwise_ne, List.pairwise_flatten]
  constructor
  · intro l hl
    obtain ⟨g, hg, rfl⟩ := List.mem_map.1 hl
    exact h.1 g.2 (List.mem_map.2 ⟨g, (List.mem_filter.1 hg).1, rfl⟩)
  · exact h.2.sublist (List.filter_sublist.map _)

/-- **xor, row level**: the selected left rows are exactly those whose key equals no right key.
`hk` says that no left key is `cmp`-equal to the placeholder `None` that `_listby` uses as the key
of the empty table's single group; keys built by `dictable[...]` are tuples, so it always holds. -/
theorem mem_xorIds {lk rk : List Val} (hk : ∀ k ∈ lk, cmp k (.cell .none) ≠ .eq) {i : Nat} :
    i ∈ xorIds 0 lk rk ↔
      i < lk.length ∧ ∀ j, j < rk.length → cmp (keyAt lk i) (keyAt rk j) ≠ .eq := by
  rw [xorIds_eq]
  simp only [List.mem_flatMap, List.mem_filter, unmatched, List.all_eq_true, bne_iff_ne, ne_eq]
  constructor
  · rintro ⟨a, ⟨ha, hu⟩, hia⟩
    obtain ⟨ki, hki, hka⟩ := listbyG_keys lk a ha i hia
    refine ⟨(List.getElem?_eq_some_iff.1 hki).1, ?_⟩
    intro j hj hc
    obtain ⟨b, hb, hjb⟩ := mem_listbyG.2 hj
    obtain ⟨kj, hkj, hkb⟩ := listbyG_keys rk b hb j hjb
    rw [keyAt_of_get hki, keyAt_of_get hkj, cmp_congr hka hkb] at hc
    exact hu b hb (by simp [hc])
  · rintro ⟨hi, hall⟩
    obtain ⟨a, ha, hia⟩ := mem_listbyG.2 hi
    obtain ⟨ki, hki, hka⟩ := listbyG_keys lk a ha i hia
    refine ⟨a, ⟨ha, ?_⟩, hia⟩
    intro b hb hc
    have hc : cmp a.1 b.1 = .eq := by simpa using hc
    by_cases hr : rk = []
    · subst hr
      rw [listbyG_nil] at hb
      simp at hb; subst hb
      exact hk ki (List.mem_of_getElem? hki) (cmp_eq_trans hka hc)
    · have hne := listbyG_nonempty hr b hb
      obtain ⟨j, hjb⟩ := List.exists_mem_of_ne_nil _ hne
      obtain ⟨kj, hkj, hkb⟩ := listbyG_keys rk b hb j hjb
      apply hall j (List.getElem?_eq_some_iff.1 hkj).1
      rw [keyAt_of_get hki, keyAt_of_get hkj, cmp_congr hka hkb]; exact hc

theorem xorIds_perm {lk rk : List Val} (hk : ∀ k ∈ lk, cmp k (.cell .none) ≠ .eq) :
    (xorIds 0 lk rk).Perm
      ((List.range lk.length).filter fun i =>
        (List.range rk.length).all fun j => cmp (keyAt lk i) (keyAt rk j) != .eq) := by
  rw [List.perm_ext_iff_of_nodup (xorIds_nodup lk rk) (List.nodup_range.sublist List.filter_sublist)]
  intro i
  rw [mem_xorIds hk, List.mem_filter]
  simp

/-! ### from rows to columns -/

/-- result rows with the key they carry: `(key, left row id, right row id)` in result order -/
def keyedPairs (ms : List Match) : List (Val × Nat × Nat) :=
  ms.flatMap fun g => g.2.1.flatMap fun l => g.2.2.map fun r => (g.1, l, r)

theorem expand_eq_map {α} (ms : List Match) (f : Nat → Nat → α) :
    expand ms f = (keyedPairs ms).map fun p => f p.2.1 p.2.2 := by
  simp [expand, keyedPairs, List.map_flatMap, List.map_map, Function.comp_def]

theorem keyedPairs_snd (ms : List Match) : (keyedPairs ms).map (·.2) = expand ms Prod.mk := by
  rw [expand_eq_map]

theorem flatMap_const_replicate {α β γ} (l : List α) (r : List β) (x : γ) :
    (l.flatMap fun _ => r.map fun _ => x) = List.replicate (l.length * r.length) x := by
  induction l with
  | nil => simp
  | cons a as ih =>
    simp only [List.flatMap_cons, ih, List.length_cons, Nat.add_mul, Nat.one_mul]
    rw [Nat.add_comm, ← List.replicate_append_replicate, List.map_const']

theorem keyRows_eq_map (ms : List Match) : keyRows ms = (keyedPairs ms).map (·.1) := by
  simp only [keyRows, keyedPairs, List.map_flatMap, List.map_map, Function.comp_def]
  apply flatMap_congr'
  intro g _
  exact (flatMap_const_replicate _ _ _).symm

/-- every result row carries a key that is `cmp`-equal to the keys of both of its rows -/
theorem keyedPairs_keys {lk rk : List Val} :
    ∀ p ∈ keyedPairs (joinMatches lk rk),
      cmp p.1 (keyAt lk p.2.1) = .eq ∧ cmp p.1 (keyAt rk p.2.2) = .eq := by
  intro p hp
  simp only [keyedPairs, List.mem_flatMap, List.mem_map] at hp
  obtain ⟨m, hm, l, hl, r, hr, rfl⟩ := hp
  obtain ⟨a, ha, b, hb, hc, rfl⟩ := mem_joinMatches.1 hm
  obtain ⟨ki, hki, hka⟩ := listbyG_keys lk a ha l hl
  obtain ⟨kj, hkj, hkb⟩ := listbyG_keys rk b hb r hr
  simp only
  rw [keyAt_of_get hki, keyAt_of_get hkj]
  exact ⟨cmp_eq_symm hka, cmp_eq_trans hc (cmp_eq_symm hkb)⟩

/-- the cross join's single "group": all pairs, row-major -/
theorem expand_cross {α} (k : Val) (n m : Nat) (f : Nat → Nat → α) :
    expand [(k, List.range n, List.range m)] f = (allPairs n m).map fun p => f p.1 p.2 := by
  simp [expand, allPairs, List.map_flatMap, List.map_map, Function.comp_def]

/-- keys built by `dictable[by]` are tuples; a tuple is never `cmp`-equal to `None` -/
theorem cmp_tuple_none (xs : List Val) : cmp (.tuple xs) (.cell .none) ≠ .eq := by
  simp [cmp, Val.norm, cmpN, Val.rank, Cell.rank]

theorem zipCols_tuple {cols : List (List Val)} {n : Nat} :
    ∀ k ∈ zipCols cols n, ∃ xs, k = .tuple xs := by
  intro k hk
  simp only [zipCols, List.mem_map] at hk
  obtain ⟨i, _, rfl⟩ := hk
  exact ⟨_, rfl⟩

theorem keysOf_tuple {t : Table} {specs : List KeySpec} {ks : List Val}
    (h : t.keysOf specs = .ok ks) : ∀ k ∈ ks, cmp k (.cell .none) ≠ .eq := by
  simp only [Table.keysOf, bind, Except.bind] at h
  split at h
  · cases h
  · simp only [pure, Except.pure, Except.ok.injEq] at h
    subst h
    intro k hk
    obtain ⟨xs, rfl⟩ := zipCols_tuple k hk
    exact cmp_tuple_none xs

theorem keysOf_length {t : Table} {specs : List KeySpec} {ks : List Val}
    (h : t.keysOf specs = .ok ks) : ks.length = t.nrows := by
  simp only [Table.keysOf, bind, Except.bind] at h
  split at h
  · cases h
  · simp only [pure, Except.pure, Except.ok.injEq] at h
    subst h
    simp [zipCols]

/-- the result table of `join` written row-wise: one entry per result row
`p = (key carried, left row id, right row id)`; column order `cols + lkeys + rkeys + jkeys` -/
def joinTableOf (x y : Table) (cols : List String) (mode : Mode) (kp : List (Val × Nat × Nat)) :
    VTable :=
  let lkeys0 := lminus x.cols cols
  let rkeys0 := lminus y.cols cols
  let jkeys := linter lkeys0 rkeys0
  let lkeys := lminus lkeys0 jkeys
  let rkeys := lminus rkeys0 jkeys
  (cols.zipIdx.map fun (c, n) => (c, kp.map fun p => tupleGet n p.1)) ++
  (lkeys.map fun k => (k, kp.map fun p => Val.cell (x.jcellAt k p.2.1))) ++
  (rkeys.map fun k => (k, kp.map fun p => Val.cell (y.jcellAt k p.2.2))) ++
  (jkeys.map fun k => (k, kp.map fun p => mode.apply (x.jcellAt k p.2.1) (y.jcellAt k p.2.2)))

theorem joinBody_rows (x y : Table) (cols : List String) (mode : Mode) (ms : List Match) :
    (cols.zipIdx.map fun (c, j) => (c, (keyRows ms).map (tupleGet j))) ++ joinBody x y cols mode ms
      = joinTableOf x y cols mode (keyedPairs ms) := by
  simp only [joinBody, joinTableOf, expand_eq_map, keyRows_eq_map, List.map_map, Function.comp_def,
    List.append_assoc]

/-! ### `dict(zip(names, columns))` with distinct names is the list itself -/

theorem dictSet_fresh {α} (d : List (String × α)) (k : String) (v : α) (h : k ∉ d.map (·.1)) :
    dictSet d k v = d ++ [(k, v)] := by
  unfold dictSet
  rw [if_neg]
  intro hc
  apply h
  simp only [List.any_eq_true, beq_iff_eq] at hc
  obtain ⟨c, hc, rfl⟩ := hc
  exact List.mem_map.2 ⟨c, hc, rfl⟩

theorem dictOf_foldl_nodup {α} : ∀ (kvs acc : List (String × α)),
    (acc.map (·.1) ++ kvs.map (·.1)).Nodup →
    kvs.foldl (fun d kv => dictSet d kv.1 kv.2) acc = acc ++ kvs := by
  intro kvs
  induction kvs with
  | nil => intro acc _; simp
  | cons kv rest ih =>
    intro acc h
    simp only [List.foldl_cons]
    have hk : kv.1 ∉ acc.map (·.1) := by
      intro hm
      have := (List.nodup_append.1 h).2.2 _ hm kv.1 (by simp)
      exact this rfl
    rw [dictSet_fresh _ _ _ hk, ih]
    · simp
    · simpa [List.map_append, List.append_assoc] using h

theorem dictOf_nodup {α} (kvs : List (String × α)) (h : (kvs.map (·.1)).Nodup) : dictOf kvs = kvs := by
  have := dictOf_foldl_nodup kvs [] (by simpa using h)
  simpa [dictOf] using this

theorem zipIdx_map_fst {α β} (f : α × Nat → β) (l : List α) (n : Nat) :
    ((l.zipIdx n).map fun p => (p.1, f p)).map (·.1) = l := by
  simp [List.map_map, Function.comp_def]

/-! ### xor, mode 'r' (the rows of the right table without a partner) -/

@[simp] theorem xorEmit1_onL (a : Grp) : (xorEmit 1).onL a = [] := rfl
@[simp] theorem xorEmit1_onR (a : Grp) : (xorEmit 1).onR a = [a.2] := rfl
@[simp] theorem xorEmit1_onM (a b : Grp) : (xorEmit 1).onM a b = [] := rfl

/-- a right group without a partner among the left groups -/
def unmatchedR (L : List Grp) (b : Grp) : Bool := L.all fun a => cmp a.1 b.1 != .eq

theorem unmatchedR_cons_ne {a b : Grp} {L : List Grp} (h : cmp a.1 b.1 ≠ .eq) :
    unmatchedR (a :: L) b = unmatchedR L b := by
  simp [unmatchedR, h]

theorem mergeG_xor1 : ∀ (L R : List Grp), SortedG L → SortedG R →
    let m := mergeG (xorEmit 1) L R
    m.1 ++ m.2.2.map (·.2) = (R.filter (unmatchedR L)).map (·.2) := by
  intro L
  induction L with
  | nil =>
    intro R _ _
    simp only [mergeG, List.nil_append]
    congr 1
    symm; apply List.filter_eq_self.2
    intro x _; simp [unmatchedR]
  | cons a as ihL =>
    intro R
    induction R with
    | nil => intro _ _; simp [mergeG_nil_right]
    | cons b bs ihR =>
      intro hL hR
      rw [mergeG.eq_def]
      simp only
      cases h : cmp a.1 b.1 with
      | lt =>
        simp only [xorEmit1_onL, List.nil_append]
        have := ihL (b :: bs) hL.tail hR
        simp only at this
        rw [this]
        congr 1
        apply List.filter_congr
        intro b' hb'
        symm; apply unmatchedR_cons_ne
        rcases List.mem_cons.1 hb' with rfl | hb'
        · rw [h]; decide
        · rw [cmp_lt_trans h (hR.head b' hb')]; decide
      | gt =>
        have hu : unmatchedR (a :: as) b = true := by
          simp only [unmatchedR, List.all_eq_true]
          intro a' ha'
          rcases List.mem_cons.1 ha' with rfl | ha'
          · rw [h]; decide
          · have h1 : cmp b.1 a.1 = .lt := cmp_lt_of_gt h
            rw [cmp_gt_of_lt (cmp_lt_trans h1 (hL.head a' ha'))]; decide
        simp only [xorEmit1_onR, List.filter_cons, hu, if_true, List.map_cons, List.cons_append,
          List.nil_append]
        congr 1
        exact ihR hL hR.tail
      | eq =>
        have hu : unmatchedR (a :: as) b = false := by
          simp [unmatchedR, h]
        simp only [xorEmit1_onM, List.nil_append, List.filter_cons, hu]
        have := ihL bs hL.tail hR.tail
        simp only at this
        rw [this]
        simp only [Bool.false_eq_true, if_false]
        congr 1
        apply List.filter_congr
        intro b' hb'
        symm; apply unmatchedR_cons_ne
        rw [cmp_lt_of_eq_of_lt h (hR.head b' hb')]; decide

theorem xorIds1_eq (lk rk : List Val) :
    xorIds 1 lk rk = ((listbyG rk).filter (unmatchedR (listbyG lk))).flatMap (·.2) := by
  have h := mergeRun_eq (xorEmit 1) (listbyG lk) (listbyG rk)
  simp only at h
  have hx := mergeG_xor1 _ _ (listbyG_sorted lk) (listbyG_sorted rk)
  simp only at hx
  rw [← h] at hx
  simp only [xorIds, show ((1 : Nat) = 0) = False by simp, if_false]
  rw [hx, List.flatMap_def]

theorem xorIds1_nodup (lk rk : List Val) : (xorIds 1 lk rk).Nodup := by
  rw [xorIds1_eq, List.flatMap_def]
  have h := listbyG_nodup rk
  rw [List.flatMap_def, List.nodup_iff_pairwise_ne, List.pairwise_flatten] at h
  rw [List.nodup_iff_pairwise_ne, List.pairwise_flatten]
  constructor
  · intro l hl
    obtain ⟨g, hg, rfl⟩ := List.mem_map.1 hl
    exact h.1 g.2 (List.mem_map.2 ⟨g, (List.mem_filter.1 hg).1, rfl⟩)
  · exact h.2.sublist (List.filter_sublist.map _)

theorem mem_xorIds1 {lk rk : List Val} (hk : ∀ k ∈ rk, cmp (.cell .none) k ≠ .eq) {j : Nat} :
    j ∈ xorIds 1 lk rk ↔
      j < rk.length ∧ ∀ i, i < lk.length → cmp (keyAt lk i) (keyAt rk j) ≠ .eq := by
  rw [xorIds1_eq]
  simp only [List.mem_flatMap, List.mem_filter, unmatchedR, List.all_eq_true, bne_iff_ne, ne_eq]
  constructor
  · rintro ⟨b, ⟨hb, hu⟩, hjb⟩
    obtain ⟨kj, hkj, hkb⟩ := listbyG_keys rk b hb j hjb
    refine ⟨(List.getElem?_eq_some_iff.1 hkj).1, ?_⟩
    intro i hi hc
    obtain ⟨a, ha, hia⟩ := mem_listbyG.2 hi
    obtain ⟨ki, hki, hka⟩ := listbyG_keys lk a ha i hia
    rw [keyAt_of_get hki, keyAt_of_get hkj, cmp_congr hka hkb] at hc
    exact hu a ha (by simp [hc])
  · rintro ⟨hj, hall⟩
    obtain ⟨b, hb, hjb⟩ := mem_listbyG.2 hj
    obtain ⟨kj, hkj, hkb⟩ := listbyG_keys rk b hb j hjb
    refine ⟨b, ⟨hb, ?_⟩, hjb⟩
    intro a ha hc
    have hc : cmp a.1 b.1 = .eq := by simpa using hc
    by_cases hl : lk = []
    · subst hl
      rw [listbyG_nil] at ha
      simp at ha; subst ha
      exact hk kj (List.mem_of_getElem? hkj) (cmp_eq_trans hc (cmp_eq_symm hkb))
    · have hne := listbyG_nonempty hl a ha
      obtain ⟨i, hia⟩ := List.exists_mem_of_ne_nil _ hne
      obtain ⟨ki, hki, hka⟩ := listbyG_keys lk a ha i hia
      apply hall i (List.getElem?_eq_some_iff.1 hki).1
      rw [keyAt_of_get hki, keyAt_of_get hkj, cmp_congr hka hkb]; exact hc

theorem xorIds1_perm {lk rk : List Val} (hk : ∀ k ∈ rk, cmp (.cell .none) k ≠ .eq) :
    (xorIds 1 lk rk).Perm
      ((List.range rk.length).filter fun j =>
        (List.range lk.length).all fun i => cmp (keyAt lk i) (keyAt rk j) != .eq) := by
  rw [List.perm_ext_iff_of_nodup (xorIds1_nodup lk rk) (List.nodup_range.sublist List.filter_sublist)]
  intro j
  rw [mem_xorIds1 hk, List.mem_filter]
  simp

end Pyg
