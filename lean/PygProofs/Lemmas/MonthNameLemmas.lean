/-
  Helper lemmas for the month-name clause of C04: the scanner on a word, the lookup in dateutil's month table
  (`Gen.duMonths`, GENERATED from `dateutil.parser.parserinfo.MONTHS`), and the reading of the month-name spellings
  `d Mon yyyy`, `d-Mon-yyyy`, `Mon d, yyyy`, `Mon d yyyy` (any capitalisation, abbreviated or full name, optional time of day).
-/
import PygProofs.Lemmas.DateTextLemmas

namespace Pyg.DateParse
open Pyg Pyg.Bump Pyg.Gen

theorem isAlpha_not_digit (c : Char) (h : c.isAlpha = true) : c.isDigit = false := by
  cases hd : c.isDigit with
  | false => rfl
  | true => rw [isDigit_not_alpha c hd] at h; exact absurd h (by decide)

/-- the text after a word: nothing, or a character that is not a letter -/
def NonAlphaHead (rest : List Char) : Prop := rest = [] ∨ ∃ u r, rest = u :: r ∧ u.isAlpha = false

theorem nah_cons (u : Char) (r : List Char) (h : u.isAlpha = false) : NonAlphaHead (u :: r) := Or.inr ⟨u, r, rfl, h⟩

theorem spanAlpha_word (w rest : List Char) (hw : ∀ c ∈ w, c.isAlpha = true) (hr : NonAlphaHead rest) : spanAlpha (w ++ rest) = (w, rest) := by
  induction w with
  | nil =>
    rcases hr with rfl | ⟨u, r, rfl, hu⟩
    · rfl
    · simp [spanAlpha, hu]
  | cons c cs ih =>
    have hc := hw c (by simp)
    have := ih (fun x hx => hw x (by simp [hx]))
    simp only [List.cons_append, spanAlpha, hc, if_true, this]

/-- the scanner reads a run of letters followed by a non-letter as ONE lower-cased word -/
theorem scan_word (fuel : Nat) (hf : 0 < fuel) (w rest : List Char) (hne : w ≠ []) (hw : ∀ c ∈ w, c.isAlpha = true) (hr : NonAlphaHead rest) :
    scan fuel (w ++ rest) = .word (w.map Char.toLower) :: scan (fuel - 1) rest := by
  obtain ⟨f, rfl⟩ : ∃ f, fuel = f + 1 := ⟨fuel - 1, by omega⟩
  cases w with
  | nil => exact absurd rfl hne
  | cons c cs =>
    have hc := hw c (by simp)
    have hd := isAlpha_not_digit c hc
    have hs := spanAlpha_word (c :: cs) rest hw hr
    simp only [List.cons_append] at hs
    simp only [List.cons_append, scan, hd, hc, if_true, hs, Bool.false_eq_true, if_false, Nat.add_sub_cancel]

/-- every name of dateutil's table is found in ITS OWN row (no name is listed for two months): checked on the generated table -/
def duTableOk : Bool :=
  (List.range 12).all fun i => (Gen.duMonths.getD i []).all fun n => monthIn Gen.duMonths 1 n.toList == some ((i : Int) + 1)

theorem duTable_ok : duTableOk = true := by decide +kernel

theorem duMonths_length : Gen.duMonths.length = 12 := by decide

/-- `w` is — in any capitalisation — one of the names dateutil's table lists for month `m` (`jan`, `january`, …, `sep`, `sept`, `september`, …) -/
def IsMonthName (m : Nat) (w : List Char) : Prop :=
  1 ≤ m ∧ w ≠ [] ∧ (∀ c ∈ w, c.isAlpha = true) ∧ ∃ n ∈ Gen.duMonths.getD (m - 1) [], n.toList = w.map Char.toLower

instance (m : Nat) (w : List Char) : Decidable (IsMonthName m w) := by unfold IsMonthName; infer_instance

/-- `parserinfo.month(w)` is `m` -/
theorem monthOf_name (m : Nat) (w : List Char) (h : IsMonthName m w) : monthOf (w.map Char.toLower) = some (m : Int) := by
  obtain ⟨h1, _, _, n, hn, e⟩ := h
  have hlt : m - 1 < 12 := by
    by_cases hc : m - 1 < 12
    · exact hc
    · have : Gen.duMonths.getD (m - 1) [] = [] := by
        rw [List.getD_eq_getElem?_getD, List.getElem?_eq_none (by rw [duMonths_length]; omega)]; rfl
      rw [this] at hn; exact absurd hn (by simp)
  have ok := duTable_ok
  simp only [duTableOk, List.all_eq_true, List.mem_range, beq_iff_eq] at ok
  have := ok (m - 1) hlt n hn
  unfold monthOf
  rw [← e, this]
  congr 1; omega

theorem IsMonthName.ndh {m : Nat} {w : List Char} (h : IsMonthName m w) (rest : List Char) : NonDigitHead (w ++ rest) := by
  obtain ⟨_, hne, hw, _⟩ := h
  cases w with
  | nil => exact absurd rfl hne
  | cons c cs => exact ndh_cons _ _ (isAlpha_not_digit c (hw c (by simp)))

/-- `<d><s><Mon><s><yyyy>[ time]` with `s` a blank or a dash (`1 Jan 2000`, `01-January-2000`, `13 sept 2000 10:30`) -/
theorem parse_dMy_text (m : Nat) (dd w yy tm : List Char) (s : Char) (hms us : Int) (hs : s = ' ' ∨ s = '-') (hd : IsNumeral 2 dd)
    (hw : IsMonthName m w) (hy : IsNumeral 4 yy) (hy4 : yy.length = 4) (ht : TimeText tm hms us) :
    parseCs (dd ++ s :: (w ++ s :: (yy ++ tm))) = some ⟨false, 0, digitsVal yy, m, digitsVal dd, hms, us⟩ := by
  have ps : s.isDigit = false ∧ s.isAlpha = false := by rcases hs with rfl | rfl <;> decide
  have ld := hd.len_pos
  have lw : 1 ≤ w.length := by
    obtain ⟨_, hne, _, _⟩ := hw
    cases w with
    | nil => exact absurd rfl hne
    | cons _ _ => simp
  unfold parseCs
  have hl : dd.length + w.length + 6 + tm.length + 1 = (dd ++ s :: (w ++ s :: (yy ++ tm))).length + 1 := by
    simp only [List.length_append, List.length_cons, hy4]; omega
  rw [← hl]
  rw [scan_numeral _ (by omega) 2 dd _ hd (ndh_cons _ _ ps.1), scan_sep _ (by omega) _ _ ps.1 ps.2]
  rw [scan_word _ (by omega) w _ hw.2.1 hw.2.2.1 (nah_cons _ _ ps.2), scan_sep _ (by omega) _ _ ps.1 ps.2]
  rw [scan_numeral _ (by omega) 4 yy _ hy ht.ndh]
  have hm := monthOf_name m w hw
  rcases hs with rfl | rfl <;> simp [parseTokens, hy4, hd.2.1, mk, hm] <;>
    exact parseTime_text _ tm hms us ht (by omega)

/-- `<Mon> <d>, <yyyy>[ time]` (`January 1, 2000`) -/
theorem parse_Mdy_comma_text (m : Nat) (dd w yy tm : List Char) (hms us : Int) (hd : IsNumeral 2 dd)
    (hw : IsMonthName m w) (hy : IsNumeral 4 yy) (hy4 : yy.length = 4) (ht : TimeText tm hms us) :
    parseCs (w ++ ' ' :: (dd ++ ',' :: ' ' :: (yy ++ tm))) = some ⟨false, 0, digitsVal yy, m, digitsVal dd, hms, us⟩ := by
  have ld := hd.len_pos
  have lw : 1 ≤ w.length := by
    obtain ⟨_, hne, _, _⟩ := hw
    cases w with
    | nil => exact absurd rfl hne
    | cons _ _ => simp
  unfold parseCs
  have hl : dd.length + w.length + 7 + tm.length + 1 = (w ++ ' ' :: (dd ++ ',' :: ' ' :: (yy ++ tm))).length + 1 := by
    simp only [List.length_append, List.length_cons, hy4]; omega
  rw [← hl]
  rw [scan_word _ (by omega) w _ hw.2.1 hw.2.2.1 (nah_cons _ _ (by decide)), scan_sep _ (by omega) _ _ (by decide) (by decide)]
  rw [scan_numeral _ (by omega) 2 dd _ hd (ndh_cons _ _ (by decide)), scan_sep _ (by omega) _ _ (by decide) (by decide),
    scan_sep _ (by omega) _ _ (by decide) (by decide)]
  rw [scan_numeral _ (by omega) 4 yy _ hy ht.ndh]
  have hm := monthOf_name m w hw
  simp [parseTokens, hy4, hd.2.1, mk, hm]
  exact parseTime_text _ tm hms us ht (by omega)

/-- `<Mon> <d> <yyyy>[ time]` (`Jan 1 2000`) -/
theorem parse_Mdy_text (m : Nat) (dd w yy tm : List Char) (hms us : Int) (hd : IsNumeral 2 dd)
    (hw : IsMonthName m w) (hy : IsNumeral 4 yy) (hy4 : yy.length = 4) (ht : TimeText tm hms us) :
    parseCs (w ++ ' ' :: (dd ++ ' ' :: (yy ++ tm))) = some ⟨false, 0, digitsVal yy, m, digitsVal dd, hms, us⟩ := by
  have ld := hd.len_pos
  have lw : 1 ≤ w.length := by
    obtain ⟨_, hne, _, _⟩ := hw
    cases w with
    | nil => exact absurd rfl hne
    | cons _ _ => simp
  unfold parseCs
  have hl : dd.length + w.length + 6 + tm.length + 1 = (w ++ ' ' :: (dd ++ ' ' :: (yy ++ tm))).length + 1 := by
    simp only [List.length_append, List.length_cons, hy4]; omega
  rw [← hl]
  rw [scan_word _ (by omega) w _ hw.2.1 hw.2.2.1 (nah_cons _ _ (by decide)), scan_sep _ (by omega) _ _ (by decide) (by decide)]
  rw [scan_numeral _ (by omega) 2 dd _ hd (ndh_cons _ _ (by decide)), scan_sep _ (by omega) _ _ (by decide) (by decide)]
  rw [scan_numeral _ (by omega) 4 yy _ hy ht.ndh]
  have hm := monthOf_name m w hw
  simp [parseTokens, hy4, hd.2.1, mk, hm]
  exact parseTime_text _ tm hms us ht (by omega)

end Pyg.DateParse
