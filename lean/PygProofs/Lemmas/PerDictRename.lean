/-
  Helper lemmas for C20: `renames` — the assignment `d[key] = d[renames[key]]` of `_item` as a pass
  over the inputs before `join` proper.
-/
import PygProofs.Lemmas.PerDictTotal

namespace Pyg

theorem setCol_spec (t : Table) (k : String) (xs : List Cell) :
    (t.setCol k xs).col? k = some xs ∧ ∀ c, c ≠ k → (t.setCol k xs).col? c = t.col? c := by
  simp only [Table.setCol]
  by_cases hk : t.cols.contains k = true
  · simp only [hk, if_true]
    exact ⟨col?_replace_same t k _ (by simpa using hk), fun c hc => col?_replace_other t k _ c hc⟩
  · simp only [hk, Bool.false_eq_true, if_false]
    have hnone : t.col? k = none := col?_none_of_not_mem (by simpa using hk)
    constructor
    · simp only [Table.col?, List.find?_append] at hnone ⊢
      cases hf : t.find? (fun x => x.1 == k) with
      | some x => simp [hf] at hnone
      | none => simp
    · intro c hc
      simp only [Table.col?, List.find?_append]
      cases hf : t.find? (fun x => x.1 == c) with
      | some x => simp
      | none =>
        have : (k == c) = false := by simpa using fun h => hc h.symm
        simp [this]

theorem setCol_cols (t : Table) (k : String) (xs : List Cell) :
    (t.setCol k xs).cols = if t.cols.contains k then t.cols else t.cols ++ [k] := by
  simp only [Table.setCol]
  split
  · simp only [Table.cols, List.map_map]
    apply List.map_congr_left
    intro c _
    simp only [Function.comp_def]
    split <;> simp_all
  · simp [Table.cols]

theorem setCol_wf (t : Table) (k : String) (xs : List Cell) (ht : t.WF) (hx : xs.length = t.nrows) :
    (t.setCol k xs).WF ∧ (t.setCol k xs).nrows = t.nrows := by
  have hr : (t.setCol k xs).Rect t.nrows := by
    simp only [Table.setCol]
    split
    · intro c hc
      obtain ⟨x, hx', rfl⟩ := List.mem_map.1 hc
      split
      · exact hx
      · exact ht.2 x hx'
    · intro c hc
      rcases List.mem_append.1 hc with h | h
      · exact ht.2 c h
      · rw [List.mem_singleton.1 h]; exact hx
  have hne : t.setCol k xs ≠ [] := by
    intro h
    have := congrArg Table.cols h
    rw [setCol_cols] at this
    cases t with
    | nil => exact ht.1 rfl
    | cons c cs => split at this <;> simp [Table.cols] at this
  have hn := Table.nrows_of_rect hr hne
  exact ⟨⟨hne, hn ▸ hr⟩, hn⟩

/-- the table after the renaming assignment (the table itself when `_item` raises) -/
def renamedT (d : Table) (key : String) (renames : List (String × String)) : Table :=
  match applyRename d key renames with
  | .ok t => t
  | .error _ => d

def renamedIn (renames : List (String × String)) (kv : String × PInput) : String × PInput :=
  match kv.2 with
  | .table d => (kv.1, .table (renamedT d kv.1 renames))
  | .scalar c => (kv.1, .scalar c)

/-- **the renaming assignment** `d[key] = d[renames[key]]`: a rectangular table with the same rows,
the same cells in every column other than `key`, and — when `key` is renamed to column `r` — column
`key` = column `r` of `d` (which must exist) -/
theorem applyRename_sem (d d' : Table) (key : String) (renames : List (String × String)) (hd : d.WF)
    (h : applyRename d key renames = .ok d') :
    d'.WF ∧ d'.nrows = d.nrows ∧ (∀ c, c ∈ d'.cols ↔ c ∈ d.cols ∨ (c = key ∧ c ∈ d'.cols)) ∧
    (d.cols.Nodup → d'.cols.Nodup) ∧
    (∀ c, c ≠ key → ∀ i, d'.jcellAt c i = d.jcellAt c i) ∧
    (∀ kr, renames.find? (·.1 == key) = some kr →
      kr.2 ∈ d.cols ∧ key ∈ d'.cols ∧ ∀ i, d'.jcellAt key i = d.jcellAt kr.2 i) ∧
    (renames.find? (·.1 == key) = none → d' = d) := by
  simp only [applyRename] at h
  cases hf : renames.find? (·.1 == key) with
  | none =>
    simp only [hf, Except.ok.injEq] at h
    subst h
    exact ⟨hd, rfl, fun c => ⟨fun hc => .inl hc, fun hc => hc.elim id (·.2)⟩, id,
      fun _ _ _ => rfl, fun kr hkr => (by cases hkr), fun _ => rfl⟩
  | some kr =>
    simp only [hf] at h
    cases hc : d.col? kr.2 with
    | none => simp [hc] at h
    | some xs =>
      simp only [hc, Except.ok.injEq] at h
      subst h
      have hx : xs.length = d.nrows := Table.col?_length hd.2 hc
      obtain ⟨hw, hn⟩ := setCol_wf d key xs hd hx
      obtain ⟨s1, s2⟩ := setCol_spec d key xs
      have hcols := setCol_cols d key xs
      have hkin : key ∈ (d.setCol key xs).cols := by
        rw [hcols]; split
        · rename_i hk; simpa using hk
        · simp
      refine ⟨hw, hn, ?_, ?_, ?_, ?_, fun h' => by cases h'⟩
      · intro c
        rw [hcols]
        split
        · rename_i hk
          exact ⟨fun h' => .inl h', fun h' => h'.elim id (fun h'' => by rw [h''.1]; simpa using hk)⟩
        · simp only [List.mem_append, List.mem_singleton]
          constructor
          · rintro (h' | h')
            · exact .inl h'
            · exact .inr ⟨h', .inr h'⟩
          · rintro (h' | ⟨h', _⟩)
            · exact .inl h'
            · exact .inr h'
      · intro hnd
        rw [hcols]
        split
        · exact hnd
        · rename_i hk
          rw [List.nodup_append]
          refine ⟨hnd, by simp, ?_⟩
          intro a ha b hb hab
          rw [List.mem_singleton.1 hb] at hab
          exact hk (by simpa [hab] using ha)
      · intro c hck i
        simp only [Table.jcellAt, s2 c hck]
      · intro kr' hkr'
        cases hkr'
        exact ⟨mem_cols_of_col? hc, hkin, fun i => by simp only [Table.jcellAt, s1, hc]⟩

/-- the renaming pass over the inputs -/
theorem mapM_rename_sem (renames : List (String × String)) :
    ∀ (inputs inputs' : List (String × PInput)),
      inputs.mapM (renameInput renames) = .ok inputs' →
      inputs' = inputs.map (renamedIn renames) ∧
      ∀ a ∈ tableInputs inputs, applyRename a.2 a.1 renames = .ok (renamedT a.2 a.1 renames) := by
  intro inputs
  induction inputs with
  | nil =>
    intro inputs' h
    simp only [List.mapM_nil, pure, Except.pure, Except.ok.injEq] at h
    exact ⟨h.symm, fun a ha => by cases ha⟩
  | cons x xs ih =>
    intro inputs' h
    simp only [List.mapM_cons, bind, Except.bind] at h
    split at h
    · cases h
    · rename_i y hy
      split at h
      · cases h
      · rename_i ys hys
        simp only [pure, Except.pure, Except.ok.injEq] at h
        subst h
        obtain ⟨i1, i2⟩ := ih ys hys
        obtain ⟨k, v⟩ := x
        cases v with
        | scalar c =>
          simp only [renameInput, Except.ok.injEq] at hy
          subst hy
          refine ⟨by simp [i1, renamedIn], ?_⟩
          intro a ha
          simp only [tableInputs, List.filterMap_cons] at ha
          exact i2 a ha
        | table d =>
          simp only [renameInput, Except.map] at hy
          split at hy
          · cases hy
          · rename_i t ht
            simp only [Except.ok.injEq] at hy
            subst hy
            have hD : renamedT d k renames = t := by simp [renamedT, ht]
            refine ⟨by simp [i1, renamedIn, hD], ?_⟩
            intro a ha
            simp only [tableInputs, List.filterMap_cons, List.mem_cons] at ha
            rcases ha with rfl | ha
            · simp only [hD]; exact ht
            · exact i2 a ha

theorem renamedIn_fst (renames : List (String × String)) (kv : String × PInput) :
    (renamedIn renames kv).1 = kv.1 := by
  obtain ⟨k, v⟩ := kv
  cases v <;> rfl

theorem tableInputs_renamed (renames : List (String × String)) (inputs : List (String × PInput)) :
    tableInputs (inputs.map (renamedIn renames)) =
      (tableInputs inputs).map fun a => (a.1, renamedT a.2 a.1 renames) := by
  induction inputs with
  | nil => rfl
  | cons x xs ih =>
    obtain ⟨k, v⟩ := x
    cases v with
    | scalar c => simpa [tableInputs, renamedIn] using ih
    | table d => simpa [tableInputs, renamedIn] using ih

theorem scalarInputs_renamed (renames : List (String × String)) (inputs : List (String × PInput)) :
    scalarInputs (inputs.map (renamedIn renames)) = scalarInputs inputs := by
  induction inputs with
  | nil => rfl
  | cons x xs ih =>
    obtain ⟨k, v⟩ := x
    cases v with
    | scalar c => simpa [scalarInputs, renamedIn] using ih
    | table d => simpa [scalarInputs, renamedIn] using ih

end Pyg
