/-
  Call histories through a stack with a cache layer, with the hypotheses on a call made CONDITIONAL on the decorators of the
  stack (`ValidFor K`): an undeclared keyword is excluded only when `kwargs_support ∈ K` (K1), a keyword called `axis` only when
  `loops ∈ K` (K4), an int ndarray only when `pd2np ∈ K` (K6).  Same proofs as `WrapHistLemmas` (`ValidCall` = every exclusion,
  whatever the stack), with the membership facts threaded through.
-/
import PygProofs.Lemmas.WrapHistLemmas

namespace Pyg

/-- a valid call on which `f` returns `v`, for stacks whose classes are among `K` -/
structure ValidFor (K : List Cls) (s : Sig) (body : PDict → Res Val) (c : Call) (v : Val) : Prop where
  declared : Cls.kwargsSupport ∈ K → ∀ p ∈ c.kw, p.1 ∈ s.params
  noaxis : Cls.loops ∈ K → ∀ p ∈ c.kw, p.1 ≠ "axis"
  noint : Cls.pd2np ∈ K → c.hasIntArr = false
  ok : applyFn s body c = .ok v

/-- the unconditional form implies the conditional one for every `K` -/
theorem ValidCall.toFor {s body c v} (h : ValidCall s body c v) (K : List Cls) : ValidFor K s body c v :=
  ⟨fun _ => h.declared, fun _ => h.noaxis, fun _ => h.noint, h.ok⟩

/-- every layer of `ch` has its class in `K` -/
def Within (K : List Cls) (ch : List (Cls × PDict)) : Prop := ∀ w ∈ ch, w.1 ∈ K

theorem Within.cons {K : List Cls} {w : Cls × PDict} {ch : List (Cls × PDict)} (h : Within K (w :: ch)) :
    w.1 ∈ K ∧ Within K ch :=
  ⟨h w (by simp), fun x hx => h x (by simp [hx])⟩

theorem within_classes (ch : List (Cls × PDict)) : Within (classes ch) ch :=
  fun w hw => List.mem_map.2 ⟨w, hw, rfl⟩

theorem ValidFor.kwFilter_eq {K s body c v} (h : ValidFor K s body c v) (hk : Cls.kwargsSupport ∈ K) :
    kwFilter s c = c := by
  cases c with
  | mk args kw =>
    simp only [kwFilter, Call.mk.injEq, true_and]
    apply List.filter_eq_self.2
    intro q hq
    simpa using h.declared hk q hq

theorem ValidFor.loops {K s body c v} (h : ValidFor K s body c v) (hl : Cls.loops ∈ K) :
    ValidFor K s body (loopsCall s c) v :=
  ⟨fun hk q hq => h.declared hk q (loopsCall_kw_sub s c q hq), fun hk q hq => h.noaxis hk q (loopsCall_kw_sub s c q hq),
   fun hk => loopsCall_hasIntArr s c (h.noint hk), by simpa [applyFn, loopsCall_bind s c (h.noaxis hl)] using h.ok⟩

theorem ValidFor.pd2np_eq {K s body c v} (h : ValidFor K s body c v) (hp : Cls.pd2np ∈ K) (exc : List String) :
    pd2npCall exc c = c :=
  pd2npCall_of_no exc c (h.noint hp)

theorem ValidFor.reach {K s body} : ∀ (ch : List (Cls × PDict)) {c v}, Within K ch → ValidFor K s body c v →
    ValidFor K s body (reach s ch c) v
  | [], _, _, _, h => h
  | (cls, p) :: rest, c, v, hK, h => by
      obtain ⟨hm, hr⟩ := hK.cons
      cases cls <;> simp only [Pyg.reach]
      · exact ValidFor.reach rest hr h
      · exact ValidFor.reach rest hr h
      · rw [h.kwFilter_eq hm]; exact ValidFor.reach rest hr h
      · exact ValidFor.reach rest hr h
      · exact ValidFor.reach rest hr (h.loops hm)
      · rw [h.pd2np_eq hm]; exact ValidFor.reach rest hr h

theorem evalH_below_for (K : List Cls) (s : Sig) (body : PDict → Res Val) (unh : Call → Bool) :
    ∀ (below : List (Cls × PDict)) (st : HSt) (c : Call) (v : Val), noCache below → Within K below →
      ValidFor K s body c v →
      evalH s body unh below st c = ({ st with evals := st.evals ++ [reach s below c] }, .ok v)
  | [], st, c, v, _, _, h => by
      have hok := h.ok
      unfold applyFn at hok
      simp only [evalH, reach]
      cases hb : bindRef s c with
      | error e => simp [hb] at hok
      | ok b => simp only [hb] at hok ⊢; rw [hok]
  | (cls, p) :: rest, st, c, v, hn, hK, h => by
      obtain ⟨hne, hr⟩ := noCache_cons hn
      obtain ⟨hm, hKr⟩ := hK.cons
      have ih := evalH_below_for K s body unh rest st c v hr hKr h
      cases cls
      · simp only [evalH, reach]
        rw [attempts_ok _ _ st _ v ih]
      · simp only [evalH, reach, ih]
      · simp only [evalH, reach, h.kwFilter_eq hm, ih]
      · exact absurd rfl hne
      · simp only [evalH, reach]
        exact evalH_below_for K s body unh rest st _ v hr hKr (h.loops hm)
      · simp only [evalH, reach, h.pd2np_eq hm, ih]

theorem evalH_through_for (K : List Cls) (s : Sig) (body : PDict → Res Val) (unh : Call → Bool) (p : PDict)
    (below : List (Cls × PDict)) (hb : noCache below) (hKb : Within K below) :
    ∀ (above : List (Cls × PDict)) (st : HSt) (c : Call) (v : Val), noCache above → Within K above →
      ValidFor K s body c v → unh (reach s above c) = false →
      evalH s body unh (above ++ (Cls.cache, p) :: below) st c =
        cacheStep st (callKey (reach s above c)) v (reach s below (reach s above c))
  | [], st, c, v, _, _, h, hu => by
      simp only [reach] at hu ⊢
      simp only [List.nil_append, evalH, hu, Bool.false_eq_true, if_false, cacheStep]
      cases st.cache.lookup (callKey c) with
      | some w => rfl
      | none => simp only [evalH_below_for K s body unh below st c v hb hKb h]
  | (cls, q) :: rest, st, c, v, hn, hK, h, hu => by
      obtain ⟨hne, hr⟩ := noCache_cons hn
      obtain ⟨hm, hKr⟩ := hK.cons
      cases cls
      · simp only [reach] at hu ⊢
        have ih := evalH_through_for K s body unh p below hb hKb rest st c v hr hKr h hu
        obtain ⟨st1, w, hw⟩ := cacheStep_ok st (callKey (reach s rest c)) v (reach s below (reach s rest c))
        simp only [List.cons_append, evalH]
        rw [attempts_ok _ _ st st1 w (ih.trans hw), hw]
      · simp only [reach] at hu ⊢
        have ih := evalH_through_for K s body unh p below hb hKb rest st c v hr hKr h hu
        obtain ⟨st1, w, hw⟩ := cacheStep_ok st (callKey (reach s rest c)) v (reach s below (reach s rest c))
        simp only [List.cons_append, evalH, ih, hw]
      · simp only [reach] at hu ⊢
        simp only [List.cons_append, evalH]
        rw [h.kwFilter_eq hm] at hu ⊢
        exact evalH_through_for K s body unh p below hb hKb rest st c v hr hKr h hu
      · exact absurd rfl hne
      · simp only [reach] at hu ⊢
        simp only [List.cons_append, evalH]
        exact evalH_through_for K s body unh p below hb hKb rest st _ v hr hKr (h.loops hm) hu
      · simp only [reach] at hu ⊢
        simp only [List.cons_append, evalH]
        rw [h.pd2np_eq hm] at hu ⊢
        exact evalH_through_for K s body unh p below hb hKb rest st c v hr hKr h hu

theorem ValidFor.resultOf_eq {K s body c v} (h : ValidFor K s body c v) : resultOf s body c = v := by
  simp [resultOf, h.ok]

/-- **refinement**, conditional form: on calls valid for the classes of the stack, hashable for the cache layer, the stack
behaves as the plain cache of `f` run on the calls as the cache layer receives them -/
theorem runH_refines_for (K : List Cls) (s : Sig) (body : PDict → Res Val) (unh : Call → Bool) (p : PDict)
    (above below : List (Cls × PDict)) (ha : noCache above) (hb : noCache below) (hKa : Within K above)
    (hKb : Within K below) :
    ∀ (calls : List Call) (st : HSt) (cst : CacheSt), st.cache = cst.cache →
      (∀ c ∈ calls, (∃ v, ValidFor K s body c v) ∧ unh (reach s above c) = false) →
      (runH s body unh (above ++ (Cls.cache, p) :: below) st calls).1.cache =
        (runCache (fun c => .ok (resultOf s body c)) cst (calls.map (reach s above))).1.cache ∧
      (runH s body unh (above ++ (Cls.cache, p) :: below) st calls).2 =
        (runCache (fun c => .ok (resultOf s body c)) cst (calls.map (reach s above))).2 ∧
      (runH s body unh (above ++ (Cls.cache, p) :: below) st calls).1.evals.length + cst.evals.length =
        st.evals.length + (runCache (fun c => .ok (resultOf s body c)) cst (calls.map (reach s above))).1.evals.length
  | [], st, cst, hc, _ => by simp [runH, runCache, hc]
  | c :: cs, st, cst, hc, hv => by
      obtain ⟨⟨v, hval⟩, hu⟩ := hv c (by simp)
      have hstep := evalH_through_for K s body unh p below hb hKb above st c v ha hKa hval hu
      have hres : resultOf s body (reach s above c) = v := (ValidFor.reach above hKa hval).resultOf_eq
      simp only [runH, List.map_cons, runCache, hstep]
      cases hl : cst.cache.lookup (callKey (reach s above c)) with
      | some w =>
        have hl' : st.cache.lookup (callKey (reach s above c)) = some w := by rw [hc]; exact hl
        rw [cacheCall_hit _ cst _ w hl]
        simp only [cacheStep, hl']
        have ih := runH_refines_for K s body unh p above below ha hb hKa hKb cs st cst hc (fun x hx => hv x (by simp [hx]))
        exact ⟨ih.1, by rw [ih.2.1], ih.2.2⟩
      | none =>
        have hl' : st.cache.lookup (callKey (reach s above c)) = none := by rw [hc]; exact hl
        rw [cacheCall_miss _ cst _ hl]
        simp only [cacheStep, hl', hres]
        have ih := runH_refines_for K s body unh p above below ha hb hKa hKb cs
          { cache := st.cache ++ [(callKey (reach s above c), v)],
            evals := st.evals ++ [reach s below (reach s above c)] }
          { cache := cst.cache ++ [(callKey (reach s above c), v)],
            evals := cst.evals ++ [callKey (reach s above c)] }
          (by simp [hc]) (fun x hx => hv x (by simp [hx]))
        refine ⟨ih.1, by rw [ih.2.1], ?_⟩
        have := ih.2.2
        simp only [List.length_append, List.length_cons, List.length_nil] at this
        omega

/-! ## round k6: unhashable calls inside a history -/

/-- `evalH_through_unh`, conditional form -/
theorem evalH_through_unh_for (K : List Cls) (s : Sig) (body : PDict → Res Val) (unh : Call → Bool) (p : PDict)
    (below : List (Cls × PDict)) (hb : noCache below) (hKb : Within K below) :
    ∀ (above : List (Cls × PDict)) (st : HSt) (c : Call) (v : Val), noCache above → Within K above →
      ValidFor K s body c v → unh (reach s above c) = true →
      evalH s body unh (above ++ (Cls.cache, p) :: below) st c =
        ({ st with evals := st.evals ++ [reach s below (reach s above c)] }, .ok v)
  | [], st, c, v, _, _, h, hu => by
      simp only [reach] at hu ⊢
      simp only [List.nil_append, evalH, hu, if_true]
      exact evalH_below_for K s body unh below st c v hb hKb h
  | (cls, q) :: rest, st, c, v, hn, hK, h, hu => by
      obtain ⟨hne, hr⟩ := noCache_cons hn
      obtain ⟨hm, hKr⟩ := hK.cons
      cases cls
      · simp only [reach] at hu ⊢
        have ih := evalH_through_unh_for K s body unh p below hb hKb rest st c v hr hKr h hu
        simp only [List.cons_append, evalH]
        rw [attempts_ok _ _ st _ v ih]
      · simp only [reach] at hu ⊢
        have ih := evalH_through_unh_for K s body unh p below hb hKb rest st c v hr hKr h hu
        simp only [List.cons_append, evalH, ih]
      · simp only [reach] at hu ⊢
        simp only [List.cons_append, evalH]
        rw [h.kwFilter_eq hm] at hu ⊢
        exact evalH_through_unh_for K s body unh p below hb hKb rest st c v hr hKr h hu
      · exact absurd rfl hne
      · simp only [reach] at hu ⊢
        simp only [List.cons_append, evalH]
        exact evalH_through_unh_for K s body unh p below hb hKb rest st _ v hr hKr (h.loops hm) hu
      · simp only [reach] at hu ⊢
        simp only [List.cons_append, evalH]
        rw [h.pd2np_eq hm] at hu ⊢
        exact evalH_through_unh_for K s body unh p below hb hKb rest st c v hr hKr h hu

theorem runH_append (s : Sig) (body : PDict → Res Val) (unh : Call → Bool) (chain : List (Cls × PDict)) :
    ∀ (st : HSt) (xs ys : List Call),
      runH s body unh chain st (xs ++ ys) =
        ((runH s body unh chain (runH s body unh chain st xs).1 ys).1,
          (runH s body unh chain st xs).2 ++ (runH s body unh chain (runH s body unh chain st xs).1 ys).2)
  | st, [], ys => by simp [runH]
  | st, x :: xs, ys => by
      simp only [List.cons_append, runH]
      rw [runH_append s body unh chain _ xs ys]

/-- the dict after a history of valid calls, hashable or not: unhashable calls leave it alone, so it is the dict the bare cache
holds after the HASHABLE calls (as the cache layer received them) -/
theorem runH_cache_mixed_for (K : List Cls) (s : Sig) (body : PDict → Res Val) (unh : Call → Bool) (p : PDict)
    (above below : List (Cls × PDict)) (ha : noCache above) (hb : noCache below) (hKa : Within K above)
    (hKb : Within K below) :
    ∀ (calls : List Call) (st : HSt) (cst : CacheSt), st.cache = cst.cache →
      (∀ c ∈ calls, ∃ v, ValidFor K s body c v) →
      (runH s body unh (above ++ (Cls.cache, p) :: below) st calls).1.cache =
        (runCache (fun c => .ok (resultOf s body c)) cst
          ((calls.filter fun c => !unh (reach s above c)).map (reach s above))).1.cache
  | [], st, cst, hc, _ => by simp [runH, runCache, hc]
  | c :: cs, st, cst, hc, hv => by
      obtain ⟨v, hval⟩ := hv c (by simp)
      have hres : resultOf s body (reach s above c) = v := (ValidFor.reach above hKa hval).resultOf_eq
      cases hu : unh (reach s above c) with
      | true =>
        have hstep := evalH_through_unh_for K s body unh p below hb hKb above st c v ha hKa hval hu
        simp only [runH, hstep, List.filter_cons, hu, Bool.not_true, Bool.false_eq_true, if_false]
        exact runH_cache_mixed_for K s body unh p above below ha hb hKa hKb cs _ cst (by simp [hc])
          (fun x hx => hv x (by simp [hx]))
      | false =>
        have hstep := evalH_through_for K s body unh p below hb hKb above st c v ha hKa hval hu
        simp only [runH, hstep, List.filter_cons, hu, Bool.not_false, if_true, List.map_cons, runCache]
        cases hl : cst.cache.lookup (callKey (reach s above c)) with
        | some w =>
          have hl' : st.cache.lookup (callKey (reach s above c)) = some w := by rw [hc]; exact hl
          rw [cacheCall_hit _ cst _ w hl]
          simp only [cacheStep, hl']
          exact runH_cache_mixed_for K s body unh p above below ha hb hKa hKb cs st cst hc
            (fun x hx => hv x (by simp [hx]))
        | none =>
          have hl' : st.cache.lookup (callKey (reach s above c)) = none := by rw [hc]; exact hl
          rw [cacheCall_miss _ cst _ hl]
          simp only [cacheStep, hl', hres]
          exact runH_cache_mixed_for K s body unh p above below ha hb hKa hKb cs _ _ (by simp [hc])
            (fun x hx => hv x (by simp [hx]))

/-- without `loops` among the layers a call that is valid for their classes arrives below them as it was passed -/
theorem reach_eq_self_for {K : List Cls} {s : Sig} {body : PDict → Res Val} :
    ∀ (ch : List (Cls × PDict)) {c : Call} {v : Val}, Within K ch → ValidFor K s body c v → Cls.loops ∉ classes ch →
      reach s ch c = c
  | [], _, _, _, _, _ => rfl
  | (cls, p) :: rest, c, v, hK, h, hl => by
      obtain ⟨hm, hr⟩ := hK.cons
      have hl' : Cls.loops ∉ classes rest := fun e => hl (by simp [classes] at e ⊢; exact Or.inr e)
      have ih := reach_eq_self_for rest hr h hl'
      cases cls <;> simp only [reach]
      · exact ih
      · exact ih
      · rw [h.kwFilter_eq hm]; exact ih
      · exact ih
      · exact absurd (by simp [classes]) hl
      · rw [h.pd2np_eq hm]; exact ih

end Pyg
