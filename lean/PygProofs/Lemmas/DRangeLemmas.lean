/-
  Helper lemmas for C10 (drange): the fuelled iterations `upTo` / `downTo` over an abstract step,
  their characterisation by `Nat.iterate`, striding, reversal of the daily grid.
-/
import PygModel.DRange

namespace Pyg.DRange
open Pyg

/-! ### fuel is irrelevant once it covers the span (steps move by at least one microsecond) -/

theorem iterUp_past (step : Int → Int) (t1 : Int) : ∀ (f : Nat) (t : Int), t1 < t → iterUp step t1 f t = []
  | 0, _, _ => rfl
  | f + 1, t, h => by
    unfold iterUp
    have : ¬ t ≤ t1 := by omega
    simp [this]

theorem iterDown_past (step : Int → Int) (t1 : Int) : ∀ (f : Nat) (t : Int), t < t1 → iterDown step t1 f t = []
  | 0, _, _ => rfl
  | f + 1, t, h => by
    unfold iterDown
    have : ¬ t ≥ t1 := by omega
    simp [this]

theorem iterUp_fuel (step : Int → Int) (hinc : ∀ t, t < step t) (t1 : Int) :
    ∀ (f1 f2 : Nat) (t : Int), (t1 + 1 - t).toNat ≤ f1 → (t1 + 1 - t).toNat ≤ f2 →
      iterUp step t1 f1 t = iterUp step t1 f2 t
  | 0, f2, t, h, _ => by
    rw [iterUp_past step t1 0 t (by omega), iterUp_past step t1 f2 t (by omega)]
  | f1 + 1, 0, t, _, h => by
    rw [iterUp_past step t1 0 t (by omega), iterUp_past step t1 (f1 + 1) t (by omega)]
  | f1 + 1, f2 + 1, t, h1, h2 => by
    unfold iterUp
    split
    · next hle =>
      have := hinc t
      rw [iterUp_fuel step hinc t1 f1 f2 (step t) (by omega) (by omega)]
    · rfl

theorem iterDown_fuel (step : Int → Int) (hdec : ∀ t, step t < t) (t1 : Int) :
    ∀ (f1 f2 : Nat) (t : Int), (t + 1 - t1).toNat ≤ f1 → (t + 1 - t1).toNat ≤ f2 →
      iterDown step t1 f1 t = iterDown step t1 f2 t
  | 0, f2, t, h, _ => by
    rw [iterDown_past step t1 0 t (by omega), iterDown_past step t1 f2 t (by omega)]
  | f1 + 1, 0, t, _, h => by
    rw [iterDown_past step t1 0 t (by omega), iterDown_past step t1 (f1 + 1) t (by omega)]
  | f1 + 1, f2 + 1, t, h1, h2 => by
    unfold iterDown
    split
    · next hle =>
      have := hdec t
      rw [iterDown_fuel step hdec t1 f1 f2 (step t) (by omega) (by omega)]
    · rfl

/-- the loop equation of `while t <= t1: res.append(t); t = step(t)` -/
theorem upTo_unfold (step : Int → Int) (hinc : ∀ t, t < step t) (t t1 : Int) :
    upTo step t t1 = if t ≤ t1 then t :: upTo step (step t) t1 else [] := by
  unfold upTo
  conv => lhs; unfold iterUp
  split
  · next hle =>
    have := hinc t
    rw [iterUp_fuel step hinc t1 (t1 - t).toNat ((t1 - step t).toNat + 1) (step t) (by omega) (by omega)]
  · rfl

theorem downTo_unfold (step : Int → Int) (hdec : ∀ t, step t < t) (t t1 : Int) :
    downTo step t t1 = if t ≥ t1 then t :: downTo step (step t) t1 else [] := by
  unfold downTo
  conv => lhs; unfold iterDown
  split
  · next hle =>
    have := hdec t
    rw [iterDown_fuel step hdec t1 (t - t1).toNat ((step t - t1).toNat + 1) (step t) (by omega) (by omega)]
  · rfl

/-- induction along the loop -/
theorem upTo_induction (step : Int → Int) (hinc : ∀ t, t < step t) (t1 : Int) (P : Int → List Int → Prop)
    (base : ∀ t, t1 < t → P t [])
    (cons : ∀ t, t ≤ t1 → P (step t) (upTo step (step t) t1) → P t (t :: upTo step (step t) t1)) :
    ∀ t, P t (upTo step t t1) := by
  have main : ∀ (n : Nat) (t : Int), (t1 + 1 - t).toNat ≤ n → P t (upTo step t t1) := by
    intro n
    induction n with
    | zero =>
      intro t h
      rw [upTo_unfold step hinc]
      have : ¬ t ≤ t1 := by omega
      simp only [this, if_false]
      exact base t (by omega)
    | succ n ih =>
      intro t h
      rw [upTo_unfold step hinc]
      by_cases hle : t ≤ t1
      · simp only [hle, if_true]
        have := hinc t
        exact cons t hle (ih (step t) (by omega))
      · simp only [hle, if_false]
        exact base t (by omega)
  intro t
  exact main _ t (Nat.le_refl _)

theorem downTo_induction (step : Int → Int) (hdec : ∀ t, step t < t) (t1 : Int) (P : Int → List Int → Prop)
    (base : ∀ t, t < t1 → P t [])
    (cons : ∀ t, t ≥ t1 → P (step t) (downTo step (step t) t1) → P t (t :: downTo step (step t) t1)) :
    ∀ t, P t (downTo step t t1) := by
  have main : ∀ (n : Nat) (t : Int), (t + 1 - t1).toNat ≤ n → P t (downTo step t t1) := by
    intro n
    induction n with
    | zero =>
      intro t h
      rw [downTo_unfold step hdec]
      have : ¬ t ≥ t1 := by omega
      simp only [this, if_false]
      exact base t (by omega)
    | succ n ih =>
      intro t h
      rw [downTo_unfold step hdec]
      by_cases hle : t ≥ t1
      · simp only [hle, if_true]
        have := hdec t
        exact cons t hle (ih (step t) (by omega))
      · simp only [hle, if_false]
        exact base t (by omega)
  intro t
  exact main _ t (Nat.le_refl _)

/-! ### characterisation: the list is `t0, step t0, step (step t0), …` cut where it first leaves the interval -/

theorem iterate_succ' (f : Int → Int) (n : Nat) (a : Int) : iter f (n + 1) a = iter f n (f a) := rfl

theorem iterate_inc (step : Int → Int) (hinc : ∀ t, t < step t) : ∀ (n : Nat) (t : Int), t ≤ iter step (n) t
  | 0, t => Int.le_refl _
  | n + 1, t => by
    rw [iterate_succ']
    have := iterate_inc step hinc n (step t)
    have := hinc t
    omega

theorem iterate_dec (step : Int → Int) (hdec : ∀ t, step t < t) : ∀ (n : Nat) (t : Int), iter step (n) t ≤ t
  | 0, t => Int.le_refl _
  | n + 1, t => by
    rw [iterate_succ']
    have := iterate_dec step hdec n (step t)
    have := hdec t
    omega

theorem upTo_spec (step : Int → Int) (hinc : ∀ t, t < step t) (t1 : Int) : ∀ t0,
    (∀ i, i < (upTo step t0 t1).length → (upTo step t0 t1)[i]? = some (iter step (i) t0) ∧ iter step (i) t0 ≤ t1) ∧
    t1 < iter step ((upTo step t0 t1).length) t0 := by
  apply upTo_induction step hinc t1
    (fun t l => (∀ i, i < l.length → l[i]? = some (iter step (i) t) ∧ iter step (i) t ≤ t1) ∧ t1 < iter step (l.length) t)
  · intro t h
    exact ⟨fun i hi => by simp at hi, by simpa [iter] using h⟩
  · intro t hle ih
    refine ⟨fun i hi => ?_, ?_⟩
    · cases i with
      | zero => exact ⟨rfl, hle⟩
      | succ i =>
        have := ih.1 i (by simpa using hi)
        simpa [iterate_succ'] using this
    · simpa [iterate_succ'] using ih.2

theorem downTo_spec (step : Int → Int) (hdec : ∀ t, step t < t) (t1 : Int) : ∀ t0,
    (∀ i, i < (downTo step t0 t1).length → (downTo step t0 t1)[i]? = some (iter step (i) t0) ∧ t1 ≤ iter step (i) t0) ∧
    iter step ((downTo step t0 t1).length) t0 < t1 := by
  apply downTo_induction step hdec t1
    (fun t l => (∀ i, i < l.length → l[i]? = some (iter step (i) t) ∧ t1 ≤ iter step (i) t) ∧ iter step (l.length) t < t1)
  · intro t h
    exact ⟨fun i hi => by simp at hi, by simpa [iter] using h⟩
  · intro t hle ih
    refine ⟨fun i hi => ?_, ?_⟩
    · cases i with
      | zero => exact ⟨rfl, hle⟩
      | succ i =>
        have := ih.1 i (by simpa using hi)
        simpa [iterate_succ'] using this
    · simpa [iterate_succ'] using ih.2

theorem upTo_mem (step : Int → Int) (hinc : ∀ t, t < step t) (t1 : Int) :
    ∀ t0, ∀ x ∈ upTo step t0 t1, t0 ≤ x ∧ x ≤ t1 := by
  apply upTo_induction step hinc t1 (fun t l => ∀ x ∈ l, t ≤ x ∧ x ≤ t1)
  · intro t _ x hx; cases hx
  · intro t hle ih x hx
    rcases List.mem_cons.1 hx with h | h
    · subst h; omega
    · have := ih x h; have := hinc t; omega

theorem downTo_mem (step : Int → Int) (hdec : ∀ t, step t < t) (t1 : Int) :
    ∀ t0, ∀ x ∈ downTo step t0 t1, t1 ≤ x ∧ x ≤ t0 := by
  apply downTo_induction step hdec t1 (fun t l => ∀ x ∈ l, t1 ≤ x ∧ x ≤ t)
  · intro t _ x hx; cases hx
  · intro t hle ih x hx
    rcases List.mem_cons.1 hx with h | h
    · subst h; omega
    · have := ih x h; have := hdec t; omega

theorem upTo_pairwise (step : Int → Int) (hinc : ∀ t, t < step t) (t1 : Int) :
    ∀ t0, (upTo step t0 t1).Pairwise (· < ·) := by
  apply upTo_induction step hinc t1 (fun _ l => l.Pairwise (· < ·))
  · intro t _; exact List.Pairwise.nil
  · intro t hle ih
    refine List.pairwise_cons.2 ⟨fun x hx => ?_, ih⟩
    have := upTo_mem step hinc t1 (step t) x hx
    have := hinc t
    omega

theorem downTo_pairwise (step : Int → Int) (hdec : ∀ t, step t < t) (t1 : Int) :
    ∀ t0, (downTo step t0 t1).Pairwise (· > ·) := by
  apply downTo_induction step hdec t1 (fun _ l => l.Pairwise (· > ·))
  · intro t _; exact List.Pairwise.nil
  · intro t hle ih
    refine List.pairwise_cons.2 ⟨fun x hx => ?_, ih⟩
    have := downTo_mem step hdec t1 (step t) x hx
    have := hdec t
    omega

/-- two steps that agree along the orbit (kept inside an invariant) give the same list -/
theorem iterUp_congr (s1 s2 : Int → Int) (P : Int → Prop) (hP : ∀ t, P t → s1 t = s2 t ∧ P (s2 t)) (t1 : Int) :
    ∀ (f : Nat) (t : Int), P t → iterUp s1 t1 f t = iterUp s2 t1 f t
  | 0, _, _ => rfl
  | f + 1, t, h => by
    unfold iterUp
    split
    · rw [(hP t h).1, iterUp_congr s1 s2 P hP t1 f (s2 t) (hP t h).2]
    · rfl


/-- the same for the iterates themselves -/
theorem iter_congr_inv (s1 s2 : Int → Int) (P : Int → Prop) (hP : ∀ t, P t → s1 t = s2 t ∧ P (s2 t)) :
    ∀ (i : Nat) (t : Int), P t → iter s1 i t = iter s2 i t
  | 0, _, _ => rfl
  | i + 1, t, h => by
    rw [iterate_succ', iterate_succ', (hP t h).1]
    exact iter_congr_inv s1 s2 P hP i (s2 t) (hP t h).2

/-- `step^(i+1) t = step (step^i t)` -/
theorem iter_succ_outer (f : Int → Int) : ∀ (i : Nat) (t : Int), iter f (i + 1) t = f (iter f i t)
  | 0, _ => rfl
  | i + 1, t => by
    rw [iterate_succ', iter_succ_outer f i (f t)]; rfl


/-! ### the specification of a range: `l[i] = step^i t0`, all inside, the next one outside -/

def IsRangeUp (step : Int → Int) (t0 t1 : Int) (l : List Int) : Prop :=
  (∀ i, i < l.length → l[i]? = some (iter step i t0) ∧ iter step i t0 ≤ t1) ∧ t1 < iter step l.length t0

def IsRangeDown (step : Int → Int) (t0 t1 : Int) (l : List Int) : Prop :=
  (∀ i, i < l.length → l[i]? = some (iter step i t0) ∧ t1 ≤ iter step i t0) ∧ iter step l.length t0 < t1

theorem IsRangeUp.head {step : Int → Int} {t0 t1 : Int} {l : List Int} (h : IsRangeUp step t0 t1 l) (hle : t0 ≤ t1) :
    l.head? = some t0 := by
  cases l with
  | nil => have := h.2; simp [iter] at this; omega
  | cons x xs => have := (h.1 0 (by simp)).1; simpa [iter] using this

theorem IsRangeDown.head {step : Int → Int} {t0 t1 : Int} {l : List Int} (h : IsRangeDown step t0 t1 l) (hle : t1 ≤ t0) :
    l.head? = some t0 := by
  cases l with
  | nil => have := h.2; simp [iter] at this; omega
  | cons x xs => have := (h.1 0 (by simp)).1; simpa [iter] using this

/-! ### striding and reversing the daily grid -/

theorem strideGo_nil {α} (k j : Nat) : strideGo k ([] : List α) j = [] := by cases j <;> rfl

theorem strideGo_upTo (k : Nat) (hk : 1 ≤ k) (hi : Int) :
    ∀ t, ∀ j : Nat, strideGo k (upTo (· + DAY) t hi) j = upTo (· + DAY * (k : Int)) (t + DAY * (j : Int)) hi := by
  have hinc1 : ∀ t : Int, t < t + DAY := by intro t; unfold DAY; omega
  have hinck : ∀ t : Int, t < t + DAY * (k : Int) := by intro t; unfold DAY; omega
  apply upTo_induction (· + DAY) hinc1 hi
    (fun t l => ∀ j : Nat, strideGo k l j = upTo (· + DAY * (k : Int)) (t + DAY * (j : Int)) hi)
  · intro t h j
    rw [strideGo_nil, upTo_unfold _ hinck]
    have : ¬ (t + DAY * (j : Int) ≤ hi) := by unfold DAY; omega
    simp [this]
  · intro t hle ih j
    cases j with
    | zero =>
      show t :: strideGo k _ (k - 1) = _
      rw [ih (k - 1), upTo_unfold _ hinck (t + DAY * ((0 : Nat) : Int))]
      have e0 : t + DAY * ((0 : Nat) : Int) = t := by simp
      rw [e0]
      simp only [hle, if_true]
      have : t + DAY + DAY * ((k - 1 : Nat) : Int) = t + DAY * (k : Int) := by unfold DAY; omega
      rw [this]
    | succ j =>
      show strideGo k _ j = _
      rw [ih j]
      have : t + DAY + DAY * (j : Int) = t + DAY * ((j + 1 : Nat) : Int) := by unfold DAY; omega
      rw [this]

theorem strideGo_downTo (k : Nat) (hk : 1 ≤ k) (lo : Int) :
    ∀ t, ∀ j : Nat, strideGo k (downTo (· - DAY) t lo) j = downTo (· - DAY * (k : Int)) (t - DAY * (j : Int)) lo := by
  have hdec1 : ∀ t : Int, t - DAY < t := by intro t; unfold DAY; omega
  have hdeck : ∀ t : Int, t - DAY * (k : Int) < t := by intro t; unfold DAY; omega
  apply downTo_induction (· - DAY) hdec1 lo
    (fun t l => ∀ j : Nat, strideGo k l j = downTo (· - DAY * (k : Int)) (t - DAY * (j : Int)) lo)
  · intro t h j
    rw [strideGo_nil, downTo_unfold _ hdeck]
    have : ¬ (t - DAY * (j : Int) ≥ lo) := by unfold DAY; omega
    simp [this]
  · intro t hle ih j
    cases j with
    | zero =>
      show t :: strideGo k _ (k - 1) = _
      rw [ih (k - 1), downTo_unfold _ hdeck (t - DAY * ((0 : Nat) : Int))]
      have e0 : t - DAY * ((0 : Nat) : Int) = t := by simp
      rw [e0]
      simp only [hle, if_true]
      have : t - DAY - DAY * ((k - 1 : Nat) : Int) = t - DAY * (k : Int) := by unfold DAY; omega
      rw [this]
    | succ j =>
      show strideGo k _ j = _
      rw [ih j]
      have : t - DAY - DAY * (j : Int) = t - DAY * ((j + 1 : Nat) : Int) := by unfold DAY; omega
      rw [this]

theorem downTo_snoc (lo : Int) : ∀ s, (s - lo) % DAY = 0 → lo ≤ s →
    downTo (· - DAY) s lo = downTo (· - DAY) s (lo + DAY) ++ [lo] := by
  have hdec1 : ∀ t : Int, t - DAY < t := by intro t; unfold DAY; omega
  apply downTo_induction (· - DAY) hdec1 lo
    (fun s l => (s - lo) % DAY = 0 → lo ≤ s → l = downTo (· - DAY) s (lo + DAY) ++ [lo])
  · intro s h _ h2; omega
  · intro s hge ih hal hle
    by_cases hs : s = lo
    · subst hs
      rw [downTo_unfold _ hdec1 (s - DAY) s, downTo_unfold _ hdec1 s (s + DAY)]
      have h1 : ¬ (s - DAY ≥ s) := by unfold DAY; omega
      have h2 : ¬ (s ≥ s + DAY) := by unfold DAY; omega
      simp [h1, h2]
    · have hge' : s ≥ lo + DAY := by unfold DAY at *; omega
      rw [ih (by unfold DAY at *; omega) (by unfold DAY at *; omega), downTo_unfold _ hdec1 s (lo + DAY)]
      simp [hge']

/-- the daily grid read backwards is the backward daily iteration (endpoints a whole number of days apart) -/
theorem reverse_daily (lo hi : Int) (hal : (hi - lo) % DAY = 0) :
    (daily lo hi).reverse = downTo (· - DAY) hi lo := by
  have hinc1 : ∀ t : Int, t < t + DAY := by intro t; unfold DAY; omega
  have hdec1 : ∀ t : Int, t - DAY < t := by intro t; unfold DAY; omega
  unfold daily
  revert hal
  apply upTo_induction (· + DAY) hinc1 hi (fun t l => (hi - t) % DAY = 0 → l.reverse = downTo (· - DAY) hi t)
  · intro t h _
    rw [downTo_unfold _ hdec1]
    have : ¬ (hi ≥ t) := by omega
    simp [this]
  · intro t hle ih hal
    rw [List.reverse_cons, ih (by unfold DAY at *; omega)]
    exact (downTo_snoc t hi hal hle).symm

/-- `rrule(DAILY)` from `lo` to `hi`, then `[::n]` for `n > 0`, is the iteration by `n` days -/
theorem orient_pos (n : Int) (hn : 0 < n) (lo hi : Int) :
    orient n (daily lo hi) = upTo (· + DAY * n) lo hi := by
  unfold orient
  have h1 : ¬ n < 0 := by omega
  simp only [h1, if_false]
  have hk : 1 ≤ n.natAbs := by omega
  have e := strideGo_upTo n.natAbs hk hi lo 0
  have en : (n.natAbs : Int) = n := by omega
  rw [en] at e
  have e0 : lo + DAY * ((0 : Nat) : Int) = lo := by simp
  rw [e0] at e
  by_cases hgt : n.natAbs > 1
  · simp only [hgt, if_true]; exact e
  · simp only [hgt, if_false]
    have : n = 1 := by omega
    subst this
    unfold daily
    congr 1

/-- …and for `n < 0`, reversed first, the backward iteration by `n` days -/
theorem orient_neg (n : Int) (hn : n < 0) (lo hi : Int) (hal : (hi - lo) % DAY = 0) :
    orient n (daily lo hi) = downTo (· + DAY * n) hi lo := by
  unfold orient
  simp only [hn, if_true]
  rw [reverse_daily lo hi hal]
  have hk : 1 ≤ n.natAbs := by omega
  have e := strideGo_downTo n.natAbs hk lo hi 0
  have en : (n.natAbs : Int) = -n := by omega
  rw [en] at e
  have e0 : hi - DAY * ((0 : Nat) : Int) = hi := by simp
  rw [e0] at e
  have ef : (fun t : Int => t - DAY * -n) = (fun t : Int => t + DAY * n) := by
    funext t; rw [Int.mul_neg]; omega
  by_cases hgt : n.natAbs > 1
  · simp only [hgt, if_true]
    rw [← ef]; exact e
  · simp only [hgt, if_false]
    have : n = -1 := by omega
    subst this
    congr 1

/-! ### the steps of the real bumps move in the direction of their sign -/

theorem wdT_range (t : Int) : 0 ≤ wdT t ∧ wdT t < 7 := by unfold wdT; omega

theorem bOff_pos (w n : Int) (hw : 0 ≤ w ∧ w < 7) (hn : 1 ≤ n) : 1 ≤ bOff w n := by
  unfold bOff
  simp only []
  split <;> split <;> omega

theorem bOff_neg (w n : Int) (hw : 0 ≤ w ∧ w < 7) (hn : n ≤ -1) : bOff w n ≤ -1 := by
  unfold bOff
  simp only []
  split <;> split <;> omega

/-- units of fixed length and business days: a positive count moves forward, a negative one backward -/
def Per.fixed : Per → Bool
  | .m | .q | .y => false
  | _ => true

theorem bump1_inc (t n : Int) (u : Per) (hu : u.fixed = true) (hn : 1 ≤ n) : t < bump1 t n u := by
  have := bOff_pos (wdT t) n (wdT_range t) hn
  cases u <;> simp [Per.fixed] at hu <;> simp only [bump1, DAY, HOUR, MINUTE, SECOND] at * <;> omega

theorem bump1_dec (t n : Int) (u : Per) (hu : u.fixed = true) (hn : n ≤ -1) : bump1 t n u < t := by
  have := bOff_neg (wdT t) n (wdT_range t) hn
  cases u <;> simp [Per.fixed] at hu <;> simp only [bump1, DAY, HOUR, MINUTE, SECOND] at * <;> omega

theorem dtBump_inc : ∀ (parts : List (Int × Per)) (t : Int), parts ≠ [] →
    (∀ p ∈ parts, p.2.fixed = true ∧ 1 ≤ p.1) → t < dtBump parts t
  | [], _, h, _ => absurd rfl h
  | [p], t, _, hp => by
    simp only [dtBump, List.foldl]
    exact bump1_inc t p.1 p.2 (hp p (by simp)).1 (hp p (by simp)).2
  | p :: q :: rest, t, _, hp => by
    have h1 := bump1_inc t p.1 p.2 (hp p (by simp)).1 (hp p (by simp)).2
    have h2 := dtBump_inc (q :: rest) (bump1 t p.1 p.2) (by simp) (fun x hx => hp x (List.mem_cons_of_mem _ hx))
    simp only [dtBump, List.foldl] at h2 ⊢
    omega

theorem dtBump_dec : ∀ (parts : List (Int × Per)) (t : Int), parts ≠ [] →
    (∀ p ∈ parts, p.2.fixed = true ∧ p.1 ≤ -1) → dtBump parts t < t
  | [], _, h, _ => absurd rfl h
  | [p], t, _, hp => by
    simp only [dtBump, List.foldl]
    exact bump1_dec t p.1 p.2 (hp p (by simp)).1 (hp p (by simp)).2
  | p :: q :: rest, t, _, hp => by
    have h1 := bump1_dec t p.1 p.2 (hp p (by simp)).1 (hp p (by simp)).2
    have h2 := dtBump_dec (q :: rest) (bump1 t p.1 p.2) (by simp) (fun x hx => hp x (List.mem_cons_of_mem _ hx))
    simp only [dtBump, List.foldl] at h2 ⊢
    omega

theorem tdDays_pos (x : Int) (hx : 0 < x) (hal : x % DAY = 0) : 0 < tdDays x := by
  unfold tdDays; unfold DAY at *; omega

theorem tdDays_neg (x : Int) (hx : x < 0) : tdDays x < 0 := by
  unfold tdDays; unfold DAY at *; omega

theorem tdDays_nonneg (x : Int) (hx : 0 ≤ x) : 0 ≤ tdDays x := by
  unfold tdDays; unfold DAY at *; omega

/-! ### the checked loops (`loopBranchC`, repair F15): total without any hypothesis on the step -/

theorem iterUpC_eq (step : Int → Int) (hinc : ∀ t, t < step t) (t1 : Int) :
    ∀ (f : Nat) (t : Int), iterUpC step t1 f t = .ok (iterUp step t1 f t)
  | 0, _ => rfl
  | f + 1, t => by
    unfold iterUpC iterUp
    have hs : ¬ step t ≤ t := by have := hinc t; omega
    by_cases hle : t ≤ t1
    · rw [if_pos hle, if_pos hle, if_neg hs, iterUpC_eq step hinc t1 f (step t)]; rfl
    · rw [if_neg hle, if_neg hle]

theorem iterDownC_eq (step : Int → Int) (hdec : ∀ t, step t < t) (t1 : Int) :
    ∀ (f : Nat) (t : Int), iterDownC step t1 f t = .ok (iterDown step t1 f t)
  | 0, _ => rfl
  | f + 1, t => by
    unfold iterDownC iterDown
    have hs : ¬ step t ≥ t := by have := hdec t; omega
    by_cases hle : t ≥ t1
    · rw [if_pos hle, if_pos hle, if_neg hs, iterDownC_eq step hdec t1 f (step t)]; rfl
    · rw [if_neg hle, if_neg hle]

/-- for a step that always moves one way the per-step check never fires: the checked loop is the plain one -/
theorem loopBranchC_eq (step : Int → Int) (h : (∀ t, t < step t) ∨ (∀ t, step t < t)) (t0 t1 : Int) :
    loopBranchC step t0 t1 = loopBranch step t0 t1 := by
  unfold loopBranchC loopBranch
  rcases h with hinc | hdec
  · have a : ¬ step t0 ≤ t0 := by have := hinc t0; omega
    have b : step t0 ≥ t0 := by have := hinc t0; omega
    by_cases h1 : t1 > t0
    · rw [if_pos h1, if_pos h1, if_neg a, iterUpC_eq step hinc]; rfl
    · rw [if_neg h1, if_neg h1]
      by_cases h2 : t1 < t0
      · rw [if_pos h2, if_pos h2, if_pos b]
        unfold iterDownC
        have : t0 ≥ t1 := by omega
        rw [if_pos this, if_pos b]
      · rw [if_neg h2, if_neg h2]
  · have a : step t0 ≤ t0 := by have := hdec t0; omega
    have b : ¬ step t0 ≥ t0 := by have := hdec t0; omega
    by_cases h1 : t1 > t0
    · rw [if_pos h1, if_pos h1, if_pos a]
      unfold iterUpC
      have : t0 ≤ t1 := by omega
      rw [if_pos this, if_pos a]
    · rw [if_neg h1, if_neg h1]
      by_cases h2 : t1 < t0
      · rw [if_pos h2, if_pos h2, if_neg b, iterDownC_eq step hdec]; rfl
      · rw [if_neg h2, if_neg h2]

/-- what the checked forward loop returns for ANY step: either the exact range (elements `step^i t`, all `≤ t1`, the
next one beyond, strictly increasing), or `ValueError` because some iterate inside the range failed to move forward -/
theorem iterUpC_spec (step : Int → Int) (t1 : Int) : ∀ (f : Nat) (t : Int), (t1 + 1 - t).toNat ≤ f →
    (∃ l, iterUpC step t1 f t = .ok l ∧ IsRangeUp step t t1 l ∧ l.Pairwise (· < ·) ∧ ∀ x ∈ l, t ≤ x ∧ x ≤ t1) ∨
    (iterUpC step t1 f t = .error .value ∧
      ∃ i, (∀ j, j ≤ i → iter step j t ≤ t1) ∧ step (iter step i t) ≤ iter step i t)
  | 0, t, h => by
    refine Or.inl ⟨[], rfl, ⟨fun i hi => by simp at hi, ?_⟩, List.Pairwise.nil, fun x hx => by cases hx⟩
    show t1 < t; omega
  | f + 1, t, h => by
    unfold iterUpC
    by_cases hle : t ≤ t1
    · simp only [hle, if_true]
      by_cases hs : step t ≤ t
      · simp only [hs, if_true]
        refine Or.inr ⟨trivial, 0, fun j hj => ?_, hs⟩
        have : j = 0 := by omega
        subst this; exact hle
      · simp only [hs, if_false]
        rcases iterUpC_spec step t1 f (step t) (by omega) with ⟨l, e, hr, hp, hm⟩ | ⟨e, i, hi1, hi2⟩
        · refine Or.inl ⟨t :: l, by rw [e]; rfl, ⟨fun i hi => ?_, ?_⟩, ?_, ?_⟩
          · cases i with
            | zero => exact ⟨rfl, hle⟩
            | succ i => have := hr.1 i (by simpa using hi); simpa [iterate_succ'] using this
          · simpa [iterate_succ'] using hr.2
          · exact List.pairwise_cons.2 ⟨fun x hx => by have := hm x hx; omega, hp⟩
          · intro x hx
            rcases List.mem_cons.1 hx with rfl | hx
            · omega
            · have := hm x hx; omega
        · refine Or.inr ⟨by rw [e]; rfl, i + 1, fun j hj => ?_, by simpa [iterate_succ'] using hi2⟩
          cases j with
          | zero => exact hle
          | succ j => rw [iterate_succ']; exact hi1 j (by omega)
    · simp only [hle, if_false]
      refine Or.inl ⟨[], rfl, ⟨fun i hi => by simp at hi, ?_⟩, List.Pairwise.nil, fun x hx => by cases hx⟩
      show t1 < t; omega

theorem iterDownC_spec (step : Int → Int) (t1 : Int) : ∀ (f : Nat) (t : Int), (t + 1 - t1).toNat ≤ f →
    (∃ l, iterDownC step t1 f t = .ok l ∧ IsRangeDown step t t1 l ∧ l.Pairwise (· > ·) ∧ ∀ x ∈ l, t1 ≤ x ∧ x ≤ t) ∨
    (iterDownC step t1 f t = .error .value ∧
      ∃ i, (∀ j, j ≤ i → t1 ≤ iter step j t) ∧ iter step i t ≤ step (iter step i t))
  | 0, t, h => by
    refine Or.inl ⟨[], rfl, ⟨fun i hi => by simp at hi, ?_⟩, List.Pairwise.nil, fun x hx => by cases hx⟩
    show t < t1; omega
  | f + 1, t, h => by
    unfold iterDownC
    by_cases hle : t ≥ t1
    · simp only [hle, if_true]
      by_cases hs : step t ≥ t
      · simp only [hs, if_true]
        refine Or.inr ⟨trivial, 0, fun j hj => ?_, hs⟩
        have : j = 0 := by omega
        subst this; exact hle
      · simp only [hs, if_false]
        rcases iterDownC_spec step t1 f (step t) (by omega) with ⟨l, e, hr, hp, hm⟩ | ⟨e, i, hi1, hi2⟩
        · refine Or.inl ⟨t :: l, by rw [e]; rfl, ⟨fun i hi => ?_, ?_⟩, ?_, ?_⟩
          · cases i with
            | zero => exact ⟨rfl, hle⟩
            | succ i => have := hr.1 i (by simpa using hi); simpa [iterate_succ'] using this
          · simpa [iterate_succ'] using hr.2
          · exact List.pairwise_cons.2 ⟨fun x hx => by have := hm x hx; omega, hp⟩
          · intro x hx
            rcases List.mem_cons.1 hx with rfl | hx
            · omega
            · have := hm x hx; omega
        · refine Or.inr ⟨by rw [e]; rfl, i + 1, fun j hj => ?_, by simpa [iterate_succ'] using hi2⟩
          cases j with
          | zero => exact hle
          | succ j => rw [iterate_succ']; exact hi1 j (by omega)
    · simp only [hle, if_false]
      refine Or.inl ⟨[], rfl, ⟨fun i hi => by simp at hi, ?_⟩, List.Pairwise.nil, fun x hx => by cases hx⟩
      show t < t1; omega

end Pyg.DRange
