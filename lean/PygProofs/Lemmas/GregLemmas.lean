/-
  Facts about the Gregorian reference model (PygModel/Greg.lean).
  General arithmetic facts are proved for all years; the round trip `fromOrd ∘ ord` rests on the complete kernel
  sweep of the 400-year cycle 1900-01-01 .. 2299-12-31 (PygProofs/Greg/Sweep*.lean) plus injectivity of `ord`.
-/
import PygModel.Greg
import PygProofs.Greg.SweepAll

namespace Pyg.Greg

theorem leapDay_le (y : Nat) : leapDay y ≤ 1 := by unfold leapDay; split <;> omega

/-- days before month `m` plus its length, with the leap day as a parameter `l ∈ {0,1}`: a finite table -/
def dbmL (l m : Nat) : Nat := dbmTable m + (if m > 2 then l else 0)
def dimL (l m : Nat) : Nat := if m = 2 then 28 + l else dim 1 m

theorem dbm_eq (y m : Nat) : dbm y m = dbmL (leapDay y) m := rfl

theorem dim_eq (y m : Nat) : dim y m = dimL (leapDay y) m := by
  unfold dimL dim; split <;> simp_all

theorem table_succ : ∀ l < 2, ∀ m < 12, 1 ≤ m → dbmL l (m + 1) = dbmL l m + dimL l m := by decide
theorem table_last : ∀ l < 2, dbmL l 12 + dimL l 12 = 365 + l := by decide
theorem table_mono : ∀ l < 2, ∀ m < 13, ∀ m' < 13, 1 ≤ m → m < m' → dbmL l m + dimL l m ≤ dbmL l m' := by decide
theorem table_year : ∀ l < 2, ∀ m < 13, 1 ≤ m → dbmL l m + dimL l m ≤ 365 + l := by decide
theorem table_dim : ∀ l < 2, ∀ m < 13, 1 ≤ m → 28 ≤ dimL l m ∧ dimL l m ≤ 31 := by decide

theorem dim_bounds (y m : Nat) (h1 : 1 ≤ m) (h2 : m ≤ 12) : 28 ≤ dim y m ∧ dim y m ≤ 31 := by
  rw [dim_eq]; exact table_dim _ (by have := leapDay_le y; omega) m (by omega) h1

/-- consecutive months are contiguous within a year -/
theorem dbm_succ (y m : Nat) (h1 : 1 ≤ m) (h2 : m < 12) : dbm y (m + 1) = dbm y m + dim y m := by
  rw [dbm_eq, dbm_eq, dim_eq]; exact table_succ _ (by have := leapDay_le y; omega) m h2 h1

theorem dbm_last (y : Nat) : dbm y 12 + dim y 12 = 365 + leapDay y := by
  rw [dbm_eq, dim_eq]; exact table_last _ (by have := leapDay_le y; omega)

theorem leapDay_cases (y : Nat) :
    (leapDay y = 1 ∧ y % 4 = 0 ∧ (y % 100 ≠ 0 ∨ y % 400 = 0)) ∨
    (leapDay y = 0 ∧ ¬ (y % 4 = 0 ∧ (y % 100 ≠ 0 ∨ y % 400 = 0))) := by
  unfold leapDay isLeap
  by_cases h4 : y % 4 = 0 <;> by_cases h100 : y % 100 = 0 <;> by_cases h400 : y % 400 = 0 <;> simp [h4, h100, h400]

theorem dby_unf (y : Nat) : dby y = (y - 1) * 365 + (y - 1) / 4 - (y - 1) / 100 + (y - 1) / 400 := rfl

theorem div_succ (k d : Nat) : (k + 1) / d = k / d + (if (k + 1) % d = 0 then 1 else 0) := by
  rw [Nat.succ_div]; congr 1; simp [Nat.dvd_iff_mod_eq_zero]

theorem dby_succ_aux (k l : Nat)
    (hc : (l = 1 ∧ (k + 1) % 4 = 0 ∧ ((k + 1) % 100 ≠ 0 ∨ (k + 1) % 400 = 0)) ∨
          (l = 0 ∧ ¬ ((k + 1) % 4 = 0 ∧ ((k + 1) % 100 ≠ 0 ∨ (k + 1) % 400 = 0)))) :
    (k + 1) * 365 + (k + 1) / 4 - (k + 1) / 100 + (k + 1) / 400
      = k * 365 + k / 4 - k / 100 + k / 400 + 365 + l := by
  rw [div_succ k 4, div_succ k 100, div_succ k 400]
  have a : k / 100 ≤ k / 4 := by omega
  have h1 : (k + 1) % 400 = 0 → (k + 1) % 100 = 0 := by omega
  have h2 : (k + 1) % 100 = 0 → (k + 1) % 4 = 0 := by omega
  generalize k / 4 = q4 at *
  generalize k / 100 = q100 at *
  generalize k / 400 = q400 at *
  generalize (k + 1) % 4 = r4 at *
  generalize (k + 1) % 100 = r100 at *
  generalize (k + 1) % 400 = r400 at *
  split <;> split <;> split <;> omega

/-- consecutive years are contiguous -/
theorem dby_succ (y : Nat) (h : 1 ≤ y) : dby (y + 1) = dby y + 365 + leapDay y := by
  obtain ⟨k, rfl⟩ : ∃ k, y = k + 1 := ⟨y - 1, by omega⟩
  rw [dby_unf, dby_unf]
  simp only [Nat.add_sub_cancel]
  exact dby_succ_aux k _ (leapDay_cases (k + 1))

theorem dby_mono (y y' : Nat) (h1 : 1 ≤ y) (h : y ≤ y') : dby y ≤ dby y' := by
  induction h with
  | refl => exact Nat.le_refl _
  | step hn ih =>
    rename_i n
    have hn' : y ≤ n := hn
    have := dby_succ n (by omega)
    show dby y ≤ dby (n + 1)
    omega

/-- a calendar date without the upper bound on the year (what the arithmetic needs) -/
def ValidU (y m d : Nat) : Prop := 1 ≤ y ∧ 1 ≤ m ∧ m ≤ 12 ∧ 1 ≤ d ∧ d ≤ dim y m

theorem Valid.toU {y m d : Nat} (v : Valid y m d) : ValidU y m d := by unfold Valid at v; unfold ValidU; omega

/-- `ord` is strictly increasing in the lexicographic order of valid dates -/
theorem ord_lt_year (y m d y' m' d' : Nat) (v : ValidU y m d) (v' : ValidU y' m' d') (h : y < y') :
    ord y m d < ord y' m' d' := by
  unfold ValidU at v v'
  have hl := leapDay_le y
  have h1 := table_year (leapDay y) (by omega) m (by omega) v.2.1
  rw [← dbm_eq, ← dim_eq] at h1
  have h2 := dby_succ y v.1
  have h3 := dby_mono (y + 1) y' (by omega) (by omega)
  unfold ord; omega

theorem ord_lt_month (y m d m' d' : Nat) (v : ValidU y m d) (v' : ValidU y m' d') (h : m < m') :
    ord y m d < ord y m' d' := by
  unfold ValidU at v v'
  have hl := leapDay_le y
  have h1 := table_mono (leapDay y) (by omega) m (by omega) m' (by omega) v.2.1 h
  rw [← dbm_eq, ← dim_eq, ← dbm_eq] at h1
  unfold ord; omega

theorem ord_inj (y m d y' m' d' : Nat) (v : ValidU y m d) (v' : ValidU y' m' d')
    (h : ord y m d = ord y' m' d') : y = y' ∧ m = m' ∧ d = d' := by
  have hy : y = y' := by
    by_cases h1 : y < y'
    · have := ord_lt_year _ _ _ _ _ _ v v' h1; omega
    · by_cases h2 : y' < y
      · have := ord_lt_year _ _ _ _ _ _ v' v h2; omega
      · omega
  subst hy
  have hm : m = m' := by
    by_cases h1 : m < m'
    · have := ord_lt_month _ _ _ _ _ v v' h1; omega
    · by_cases h2 : m' < m
      · have := ord_lt_month _ _ _ _ _ v' v h2; omega
      · omega
  subst hm
  unfold ord at h
  exact ⟨rfl, rfl, by omega⟩

theorem dby_1900 : dby 1900 = 693595 := by decide
theorem dby_2300 : dby 2300 = 839692 := by decide
theorem dby_10000 : dby 10000 = 3652059 := by decide

/-- a valid date's ordinal lies between January 1st of its year and of the next -/
theorem ord_bounds (y m d : Nat) (v : ValidU y m d) : dby y + 1 ≤ ord y m d ∧ ord y m d ≤ dby (y + 1) := by
  unfold ValidU at v
  have hl := leapDay_le y
  have h1 := table_year (leapDay y) (by omega) m (by omega) v.2.1
  rw [← dbm_eq, ← dim_eq] at h1
  have h2 := dby_succ y v.1
  unfold ord; omega

/-- every representable date has an ordinal in `1 .. 3652059` (`datetime.max.toordinal()`) -/
theorem ord_range (y m d : Nat) (v : Valid y m d) : 1 ≤ ord y m d ∧ ord y m d ≤ 3652059 := by
  have h := ord_bounds y m d v.toU
  have := dby_mono (y + 1) 10000 (by omega) (by unfold Valid at v; omega)
  rw [dby_10000] at this
  omega

/-! ### the round trip on the library's supported range (the swept cycle) -/

/-- ordinal → date → ordinal, and the date is valid: every day of 1900-01-01 .. 2299-12-31 -/
theorem ord_fromOrd (n : Nat) (h1 : ordMin ≤ n) (h2 : n < ordMax) :
    Valid (fromOrd n).y (fromOrd n).m (fromOrd n).d ∧ ord (fromOrd n).y (fromOrd n).m (fromOrd n).d = n :=
  chkOrd_spec n (sweep_cycle n h1 h2)

/-- a valid date in the cycle has its ordinal in the swept range -/
theorem ord_in_cycle (y m d : Nat) (v : Valid y m d) (hy1 : 1900 ≤ y) (hy2 : y < 2300) :
    ordMin ≤ ord y m d ∧ ord y m d < ordMax := by
  have h := ord_bounds y m d v.toU
  have a := dby_mono 1900 y (by omega) hy1
  have b := dby_mono (y + 1) 2300 (by omega) (by omega)
  rw [dby_1900] at a; rw [dby_2300] at b
  unfold ordMin ordMax; omega

/-- date → ordinal → date: `datetime.fromordinal(datetime(y,m,d).toordinal())` has fields `(y,m,d)`,
for every calendar day from 1900-01-01 to 2299-12-31 -/
theorem fromOrd_ord (y m d : Nat) (v : Valid y m d) (hy1 : 1900 ≤ y) (hy2 : y < 2300) :
    fromOrd (ord y m d) = ⟨y, m, d⟩ := by
  have hc := ord_in_cycle y m d v hy1 hy2
  have h := ord_fromOrd (ord y m d) hc.1 hc.2
  have e := ord_inj _ _ _ _ _ _ h.1.toU v.toU h.2
  cases hp : fromOrd (ord y m d) with
  | mk a b c => rw [hp] at e; simp only at e; rw [e.1, e.2.1, e.2.2]

/-- the first of the following month is the day after the last of this one -/
theorem month_contig (y m : Nat) (hy : 1 ≤ y) (h1 : 1 ≤ m) (h2 : m ≤ 12) :
    ord y m 1 + dim y m = if m < 12 then ord y (m + 1) 1 else ord (y + 1) 1 1 := by
  split
  · rename_i h; unfold ord; rw [dbm_succ y m h1 h]; omega
  · have hm : m = 12 := by omega
    subst hm
    have e1 := dbm_last y; have e2 := dby_succ y hy
    have e3 : dbm (y + 1) 1 = 0 := by simp [dbm, dbmTable]
    unfold ord; rw [e3]; omega

end Pyg.Greg
