/-
  C08: the left fold of `add_` / `mul_` over a list that MIXES Series and scalars, read by value.
-/
import PygModel.Ops
import PygProofs.Lemmas.OpsFoldLemmas
import PygModel.OpsF

namespace Pyg.Ops
open Pyg Pyg.Align

/-- what an operand shows at label `t`: a Series its value there (NaN without a row), a scalar itself -/
def Operand.valAt : Operand → Int → Option Rat
  | .ts s, t => valueAtR s t
  | .num q, _ => q

def Operand.idx? : Operand → Option (List Int)
  | .ts s => some s.idx
  | .num _ => Option.none

/-- the joint index so far: scalars do not count -/
def joinO (how : How) : Option (List Int) → Option (List Int) → Option (List Int)
  | Option.none, j => j
  | some i, Option.none => some i
  | some i, some j => some (join2 how i j)

/-- a Series whose values are its own readings label by label (every result of a kernel is) -/
def Operand.normal : Operand → Prop
  | .ts s => s.vals = s.idx.map (valueAtR s)
  | .num _ => True

theorem binop_step_mixed (op : Op) (how : How) (a b : Operand) :
    (binop op how Option.none a b).idx? = joinO how a.idx? b.idx? ∧ (binop op how Option.none a b).normal ∧
      ∀ t, (binop op how Option.none a b).valAt t = op.appO (a.valAt t) (b.valAt t) := by
  cases a with
  | ts a =>
    cases b with
    | ts b =>
      obtain ⟨r, h1, h2, h3, h4⟩ := binop_step op how a b
      rw [h1]
      exact ⟨by simp [Operand.idx?, joinO, h2], h3, h4⟩
    | num q =>
      have hb : binop op how Option.none (.ts a) (.num q) =
          .ts { idx := a.idx, vals := a.idx.map fun t => op.appO (valueAtR a t) q } := by
        cases how <;> simp [binop, alignAll, indexesOf, joinIndex, kernel, reindexR, List.map_map, Function.comp_def]
      have hv : ∀ t, valueAtR { idx := a.idx, vals := a.idx.map fun t => op.appO (valueAtR a t) q } t =
          op.appO (valueAtR a t) q := by
        intro t
        by_cases ht : t ∈ a.idx
        · exact valueAtR_built _ _ t ht
        · rw [valueAtR_not_mem a t ht, appO_none_left]; exact valueAtR_not_mem _ t ht
      rw [hb]
      refine ⟨rfl, ?_, hv⟩
      show _ = _
      apply List.map_congr_left
      intro t _
      exact (hv t).symm
  | num p =>
    cases b with
    | ts b =>
      have hb : binop op how Option.none (.num p) (.ts b) =
          .ts { idx := b.idx, vals := b.idx.map fun t => op.appO p (valueAtR b t) } := by
        cases how <;> simp [binop, alignAll, indexesOf, joinIndex, kernel, reindexR, List.map_map, Function.comp_def]
      have hv : ∀ t, valueAtR { idx := b.idx, vals := b.idx.map fun t => op.appO p (valueAtR b t) } t =
          op.appO p (valueAtR b t) := by
        intro t
        by_cases ht : t ∈ b.idx
        · exact valueAtR_built _ _ t ht
        · rw [valueAtR_not_mem b t ht, appO_none_right]; exact valueAtR_not_mem _ t ht
      rw [hb]
      refine ⟨rfl, ?_, hv⟩
      show _ = _
      apply List.map_congr_left
      intro t _
      exact (hv t).symm
    | num q =>
      have hb : binop op how Option.none (.num p) (.num q) = .num (op.appO p q) := by
        simp [binop, alignAll, indexesOf, joinIndex, kernel]
      rw [hb]
      exact ⟨rfl, trivial, fun _ => rfl⟩

theorem foldl_binop_mixed (op : Op) (how : How) (a : Operand) (xs : List Operand) :
    (xs.foldl (binop op how Option.none) a).idx? = xs.foldl (fun o x => joinO how o x.idx?) a.idx? ∧
      (xs ≠ [] → (xs.foldl (binop op how Option.none) a).normal) ∧
      ∀ t, (xs.foldl (binop op how Option.none) a).valAt t = xs.foldl (fun v s => op.appO v (s.valAt t)) (a.valAt t) := by
  induction xs generalizing a with
  | nil => exact ⟨rfl, fun h => absurd rfl h, fun _ => rfl⟩
  | cons b xs ih =>
    obtain ⟨h1, h2, h3⟩ := binop_step_mixed op how a b
    obtain ⟨g1, g2, g3⟩ := ih (binop op how Option.none a b)
    refine ⟨?_, ?_, ?_⟩
    · simp only [List.foldl_cons, g1, h1]
    · intro _
      cases xs with
      | nil => exact h2
      | cons c cs => exact g2 (by simp)
    · intro t
      simp only [List.foldl_cons, g3 t, h3 t]

theorem foldl_joinO_some (how : How) (i : List Int) (L : List (List Int)) :
    L.foldl (fun o j => joinO how o (some j)) (some i) = some (L.foldl (join2 how) i) := by
  induction L generalizing i with
  | nil => rfl
  | cons j L ih => rw [List.foldl_cons, List.foldl_cons]; exact ih _

theorem foldl_joinO_indexes (how : How) (o : Option (List Int)) (xs : List Operand) :
    xs.foldl (fun o x => joinO how o x.idx?) o = (indexesOf xs).foldl (fun o j => joinO how o (some j)) o := by
  induction xs generalizing o with
  | nil => rfl
  | cons x xs ih =>
    cases x with
    | ts s => simp only [List.foldl_cons, indexesOf, List.filterMap_cons, Operand.idx?] at ih ⊢; exact ih _
    | num q =>
      have : joinO how o (Operand.num q).idx? = o := by cases o <;> rfl
      simp only [List.foldl_cons, indexesOf, List.filterMap_cons, this] at ih ⊢; exact ih _

/-- the joint index of the Series among the operands, accumulated from the left, is `df_index` of all of them -/
theorem joinO_all (how : How) (xs : List Operand) :
    xs.foldl (fun o x => joinO how o x.idx?) Option.none = joinIndex how (indexesOf xs) := by
  rw [foldl_joinO_indexes]
  cases h : indexesOf xs with
  | nil => rfl
  | cons i L => rw [joinIndex_fold, List.foldl_cons]; exact foldl_joinO_some how i L

theorem rat_add_right_comm (v a b : Rat) : v + a + b = v + b + a := by
  rw [Rat.add_assoc, Rat.add_comm a b, ← Rat.add_assoc]
theorem rat_mul_right_comm (v a b : Rat) : v * a * b = v * b * a := by
  rw [Rat.mul_assoc, Rat.mul_comm a b, ← Rat.mul_assoc]

theorem appO_right_comm (op : Op) (hop : op = .add ∨ op = .mul) (v a b : Option Rat) :
    op.appO (op.appO v a) b = op.appO (op.appO v b) a := by
  rcases hop with rfl | rfl <;> cases v <;> cases a <;> cases b <;>
    simp [Op.appO, Op.app, rat_add_right_comm, rat_mul_right_comm]

/-- the left fold from the first operand is the fold of ALL operands from the neutral element -/
theorem fold_from_neutral (op : Op) (hop : op = .add ∨ op = .mul) (x : Option Rat) (xs : List (Option Rat)) :
    xs.foldl op.appO x = (x :: xs).foldl op.appO (some op.neutral) := by
  have : op.appO (some op.neutral) x = x := by
    rcases hop with rfl | rfl <;> cases x <;> simp [Op.appO, Op.app, Op.neutral, Rat.zero_add, Rat.one_mul]
  rw [List.foldl_cons, this]

end Pyg.Ops
