/-
  C12, array clause: the values computed by `fillna` do not depend on which strictly increasing index
  labels the rows (so the `RangeIndex` of the temporary pandas object gives the same values).
-/
import PygProofs.Lemmas.FillLemmas

namespace Pyg.Fill
open Frame

/-- two frames with the same column values over (possibly different) sorted indices of one length -/
structure Same (f g : Frame) : Prop where
  vals : f.vals = g.vals
  len : f.idx.length = g.idx.length
  sf : f.Sorted
  sg : g.Sorted
  rf : f.Rect

theorem Same.rg {f g : Frame} (h : Same f g) : g.Rect := by
  intro c hc
  have : c.2 ∈ g.vals := List.mem_map_of_mem hc
  rw [← h.vals] at this
  obtain ⟨c', hc', e⟩ := List.mem_map.mp this
  rw [← e, h.rf c' hc', h.len]

theorem vals_mapCols (h : Col → Col) (f : Frame) : (f.mapCols h).vals = f.vals.map h := by
  simp [Frame.vals, Frame.mapCols, List.map_map, Function.comp_def]

theorem vals_gather (pos : List Nat) (f : Frame) :
    (f.gather pos).vals = f.vals.map fun c => pos.map fun i => c.getD i Option.none := by
  simp [Frame.vals, Frame.gather, List.map_map, Function.comp_def]

theorem rowValid_vals (f : Frame) (i : Nat) :
    f.rowValid i = f.vals.any fun c => (c.getD i Option.none).isSome := by
  simp [Frame.rowValid, Frame.vals, List.any_map, Function.comp_def]

theorem rect_vals {f : Frame} (hr : f.Rect) {c : Col} (hc : c ∈ f.vals) : c.length = f.idx.length := by
  obtain ⟨c', hc', e⟩ := List.mem_map.mp hc
  rw [← e]; exact hr c' hc'

/-- a column function that preserves lengths keeps `Same` when applied to both frames -/
theorem Same.mapCols {f g : Frame} (h : Same f g) (k k' : Col → Col)
    (hk : ∀ c ∈ f.vals, k c = k' c) (hlen : ∀ c ∈ f.vals, (k c).length = c.length) :
    Same (f.mapCols k) (g.mapCols k') := by
  refine ⟨?_, h.len, h.sf, h.sg, ?_⟩
  · rw [vals_mapCols, vals_mapCols, ← h.vals]; exact List.map_congr_left hk
  · intro c hc
    simp only [Frame.mapCols, List.mem_map] at hc
    obtain ⟨c', hc', rfl⟩ := hc
    have : c'.2 ∈ f.vals := List.mem_map_of_mem hc'
    simp only [hlen _ this]; exact h.rf c' hc'

theorem sorted_gather (idx : List Int) (hs : idx.Pairwise (· < ·)) (pos : List Nat)
    (hp : pos.Pairwise (· < ·)) (hb : ∀ i ∈ pos, i < idx.length) :
    (pos.map fun i => idx.getD i 0).Pairwise (· < ·) := by
  rw [List.pairwise_map]
  refine hp.imp_of_mem ?_
  intro a b ha hb' hab
  have h1 := hb a ha; have h2 := hb b hb'
  simp only [List.getD_eq_getElem?_getD, List.getElem?_eq_getElem h1, List.getElem?_eq_getElem h2, Option.getD_some]
  exact (List.pairwise_iff_getElem.mp hs) a b h1 h2 hab

/-- selecting the same increasing positions in both frames keeps `Same` -/
theorem Same.gather {f g : Frame} (h : Same f g) (pos : List Nat)
    (hp : pos.Pairwise (· < ·)) (hb : ∀ i ∈ pos, i < f.idx.length) :
    Same (f.gather pos) (g.gather pos) := by
  refine ⟨?_, ?_, ?_, ?_, Frame.rect_gather _ _⟩
  · rw [vals_gather, vals_gather, h.vals]
  · simp [Frame.gather]
  · exact sorted_gather f.idx h.sf pos hp hb
  · exact sorted_gather g.idx h.sg pos hp (fun i hi => by rw [← h.len]; exact hb i hi)

theorem filter_range_pairwise (n : Nat) (p : Nat → Bool) : ((List.range n).filter p).Pairwise (· < ·) :=
  List.Pairwise.sublist List.filter_sublist List.pairwise_lt_range

theorem filter_range_bound (n : Nat) (p : Nat → Bool) : ∀ i ∈ (List.range n).filter p, i < n := by
  intro i hi; have := (List.mem_filter.mp hi).1; simpa using this

theorem Same.rowValid {f g : Frame} (h : Same f g) : f.rowValid = g.rowValid := by
  funext i; rw [rowValid_vals, rowValid_vals, h.vals]

theorem Same.nrows {f g : Frame} (h : Same f g) : f.nrows = g.nrows := h.len

theorem Same.tailErr {f g : Frame} (h : Same f g) :
    f.cols.all (fun c => (lastValidTime f.idx c.2).isNone) = g.cols.all (fun c => (lastValidTime g.idx c.2).isNone) := by
  have e1 : f.cols.all (fun c => (lastValidTime f.idx c.2).isNone) = f.vals.all (fun c => (lastValidTime f.idx c).isNone) := by
    simp [Frame.vals, List.all_map, Function.comp_def]
  have e2 : g.cols.all (fun c => (lastValidTime g.idx c.2).isNone) = g.vals.all (fun c => (lastValidTime g.idx c).isNone) := by
    simp [Frame.vals, List.all_map, Function.comp_def]
  rw [e1, e2, ← h.vals]
  rw [Bool.eq_iff_iff]
  simp only [List.all_eq_true]
  have key : ∀ c ∈ f.vals, (lastValidTime f.idx c).isNone = (lastValidTime g.idx c).isNone := fun c hc =>
    lastValidTime_isNone_indep _ _ _ (rect_vals h.rf hc).symm (by rw [← h.len]; exact (rect_vals h.rf hc).symm)
  constructor
  · intro H c hc; rw [← key c hc]; exact H c hc
  · intro H c hc; rw [key c hc]; exact H c hc

/-- the relation that `step` preserves, errors included -/
def Agree : Res Frame → Res Frame → Prop
  | .ok f, .ok g => Same f g
  | .error e, .error e' => e = e'
  | _, _ => False

theorem step_same (lim : Option Nat) (m : Method) {f g : Frame} (h : Same f g) :
    Agree (step lim f m) (step lim g m) := by
  cases m with
  | const c =>
    simp only [step]; cases limOk lim
    · simp [Agree]
    · exact h.mapCols _ _ (fun _ _ => rfl) (fun _ _ => fillConst_length _ _ _)
  | ffill =>
    simp only [step]; cases limOk lim
    · simp [Agree]
    · exact h.mapCols _ _ (fun _ _ => rfl) (fun _ _ => ffill_length _ _)
  | bfill =>
    simp only [step]; cases limOk lim
    · simp [Agree]
    · exact h.mapCols _ _ (fun _ _ => rfl) (fun _ _ => bfill_length _ _)
  | ffillNa =>
    simp only [step]; rw [← h.tailErr]
    split
    · exact h.mapCols _ _
        (fun c hc => ffillTail_indep _ _ _ _ _ h.sf h.sg (rect_vals h.rf hc).symm (by rw [← h.len]; exact (rect_vals h.rf hc).symm))
        (fun c hc => ffillTail_length _ _ _ _ (rect_vals h.rf hc).symm)
    · simp [Agree]
  | ffill0 =>
    simp only [step]; rw [← h.tailErr]
    split
    · exact h.mapCols _ _
        (fun c hc => ffillTail_indep _ _ _ _ _ h.sf h.sg (rect_vals h.rf hc).symm (by rw [← h.len]; exact (rect_vals h.rf hc).symm))
        (fun c hc => ffillTail_length _ _ _ _ (rect_vals h.rf hc).symm)
    · simp [Agree]
  | nona =>
    simp only [step]; rw [← h.rowValid, ← h.nrows]
    exact h.gather _ (filter_range_pairwise _ _) (filter_range_bound _ _)
  | fnna =>
    simp only [step, Frame.firstValidRowTime]
    rw [← h.rowValid, ← h.nrows]
    cases hfind : (List.range f.nrows).find? f.rowValid with
    | none => exact h.gather [] List.Pairwise.nil (by simp)
    | some p0 =>
      have hp : p0 < f.nrows := by
        have := List.mem_of_find?_eq_some hfind; simpa using this
      simp only [Option.map_some]
      have e1 := Frame.filter_label_ge f h.sf p0 hp
      have e2 := Frame.filter_label_ge g h.sg p0 (by rw [← h.nrows]; exact hp)
      rw [← h.nrows] at e2
      show Same (f.gather _) (g.gather _)
      rw [e1, e2]
      refine h.gather _ ?_ ?_
      · exact List.Pairwise.sublist (List.drop_sublist _ _) List.pairwise_lt_range
      · intro i hi; have := List.mem_of_mem_drop hi; simpa [Frame.nrows] using this

theorem fillna_same (lim : Option Nat) (ms : List Method) {f g : Frame} (h : Same f g) :
    Agree (fillna ms lim f) (fillna ms lim g) := by
  induction ms generalizing f g with
  | nil => exact h
  | cons m ms ih =>
    have hs := step_same lim m h
    show Agree ((step lim f m).bind (fillna ms lim)) ((step lim g m).bind (fillna ms lim))
    cases h1 : step lim f m <;> cases h2 : step lim g m <;> rw [h1, h2] at hs
    · exact hs
    · exact hs.elim
    · exact hs.elim
    · exact ih hs

/-- the frame behind an array: a `RangeIndex` is strictly increasing -/
theorem sorted_range (n : Nat) : ((List.range n).map Int.ofNat).Pairwise (· < ·) := by
  rw [List.pairwise_map]
  exact List.pairwise_lt_range.imp (fun h => by simp only [Int.ofNat_eq_natCast]; omega)

theorem vals_ofArr (cols : List Col) : (ofArr cols).vals = cols := by
  simp only [Frame.vals, ofArr, List.map_map]
  have : ((fun (c : String × Col) => c.2) ∘ fun (x : Col × Nat) => (toString x.2, x.1)) = fun x => x.1 := by
    funext x; rfl
  rw [this, List.zipIdx_map_fst]

theorem same_ofArr (f : Frame) (hs : f.Sorted) (hr : f.Rect) (hne : f.cols ≠ []) : Same f (ofArr f.vals) := by
  refine ⟨(vals_ofArr _).symm, ?_, hs, sorted_range _, hr⟩
  cases hc : f.cols with
  | nil => exact (hne hc).elim
  | cons c cs =>
    have := hr c (by rw [hc]; simp)
    simp [ofArr, Frame.vals, hc, this]

end Pyg.Fill
