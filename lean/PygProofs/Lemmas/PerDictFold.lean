/-
  Helper lemmas for C20: the two reductions of `join` (`reducer(mul, …)` over the tables without
  default, `reducer(_join_dictable_with_defaults, …)` over the tables with default) by induction over
  the list of inputs, and their combination `joinTables`.
-/
import PygProofs.Lemmas.PerDictStep

namespace Pyg

/-- the shape of one table input after `_item`, for an input keyed by all of `on`: the key columns,
the value column `name` (not a key column), nothing else; rectangular -/
structure KeyedSrc (on : List String) (t : Table) (name : String) : Prop where
  wf : t.WF
  has_on : ∀ c ∈ on, c ∈ t.cols
  has_name : name ∈ t.cols
  name_off : name ∉ on
  only : ∀ c ∈ t.cols, c ∈ on ∨ c = name
  on_nodup : OnNodup on t

/-- a named table input as a source, with its default (if any) -/
def mkSrc (defaults : List (String × Cell)) (kv : String × Table) : Src :=
  ⟨kv.2.R, kv.1, dfltOf defaults kv.1⟩

/-- the accumulated table `acc` of a reduction over the sources `S` -/
structure AccOK (on : List String) (acc : Table) (S : List Src) : Prop where
  wf : acc.WF
  cols : ∀ c, c ∈ acc.cols ↔ c ∈ on ∨ ∃ s ∈ S, s.name = c
  names_off : ∀ s ∈ S, s.name ∉ on
  vok : VOK on acc.R S
  uniq : (∀ s ∈ S, s.t.uniq on) → acc.R.uniq on
  on_nodup : OnNodup on acc

theorem AccOK.base {on : List String} {t : Table} {name : String} (defaults : List (String × Cell))
    (h : KeyedSrc on t name) : AccOK on t [mkSrc defaults (name, t)] := by
  refine ⟨h.wf, ?_, ?_, ?_, ?_, ?_⟩
  · intro c
    constructor
    · intro hc
      rcases h.only c hc with h1 | h1
      · exact .inl h1
      · exact .inr ⟨_, List.mem_singleton.2 rfl, h1.symm⟩
    · rintro (h1 | ⟨s, hs, rfl⟩)
      · exact h.has_on c h1
      · rw [List.mem_singleton.1 hs]; exact h.has_name
  · intro s hs; rw [List.mem_singleton.1 hs]; exact h.name_off
  · intro p hp s hs
    rw [List.mem_singleton.1 hs]
    exact .inl ⟨p, hp, keq_refl _ _, rfl⟩
  · intro hu
    exact hu _ (List.mem_singleton.2 rfl)
  · exact h.on_nodup

theorem shares_acc {on : List String} {acc t : Table} {S : List Src} {name : String}
    (ha : AccOK on acc S) (ht : KeyedSrc on t name) (hne : ∀ s ∈ S, s.name ≠ name) :
    Shares on acc t := by
  intro c
  constructor
  · rintro ⟨h1, h2⟩
    rcases ht.only c h2 with h | h
    · exact h
    · rcases (ha.cols c).1 h1 with h' | ⟨s, hs, he⟩
      · exact h'
      · exact absurd (he.trans h) (hne s hs)
  · intro h
    exact ⟨(ha.cols c).2 (.inl h), ht.has_on c h⟩

theorem offKeys_nil (on : List String) : OffKeys on [] := fun _ h => by cases h

/-! ### the tables without default: `reducer(mul, …)` -/

theorem step_mul {on : List String} (hon : on ≠ []) {acc t d : Table} {S : List Src} {name : String}
    (defaults : List (String × Cell))
    (ha : AccOK on acc S) (ht : KeyedSrc on t name) (hne : ∀ s ∈ S, s.name ≠ name)
    (hK : ∀ k, acc.R.hasK on k ↔ ∀ s ∈ S, s.t.hasK on k) (hm : acc.mul t = some (.ok d)) :
    AccOK on d (S ++ [mkSrc defaults (name, t)]) ∧
    ∀ k, d.R.hasK on k ↔ ∀ s ∈ S ++ [mkSrc defaults (name, t)], s.t.hasK on k := by
  obtain ⟨hJ, hw, hc, hond⟩ := mul_sem on hon acc t d (shares_acc ha ht hne) ha.on_nodup hm
  have hb := AccOK.base defaults ht
  refine ⟨⟨hw, ?_, ?_, ?_, ?_, hond⟩, ?_⟩
  · intro c
    rw [hc c, ha.cols c, hb.cols c]
    simp only [List.mem_append, List.mem_singleton]
    constructor
    · rintro ((h | ⟨s, hs, he⟩) | (h | ⟨s, hs, he⟩))
      · exact .inl h
      · exact .inr ⟨s, .inl hs, he⟩
      · exact .inl h
      · exact .inr ⟨s, .inr hs, he⟩
    · rintro (h | ⟨s, hs | hs, he⟩)
      · exact .inl (.inl h)
      · exact .inl (.inr ⟨s, hs, he⟩)
      · exact .inr (.inr ⟨s, hs, he⟩)
  · intro s hs
    rcases List.mem_append.1 hs with h | h
    · exact ha.names_off s h
    · exact hb.names_off s h
  · apply hJ.vok (offKeys_nil on) (offKeys_nil on) ha.vok hb.vok
    · intro s hs
      exact ⟨(ha.cols _).2 (.inr ⟨s, hs, rfl⟩), ha.names_off s hs, fun kv h => by cases h⟩
    · intro s hs
      exact ⟨(hb.cols _).2 (.inr ⟨s, hs, rfl⟩), hb.names_off s hs, fun kv h => by cases h⟩
    · intro h; exact absurd rfl h
    · intro h; exact absurd rfl h
  · intro hu
    exact hJ.uniq (offKeys_nil on) (offKeys_nil on)
      (ha.uniq fun s hs => hu s (List.mem_append.2 (.inl hs)))
      (hb.uniq fun s hs => hu s (List.mem_append.2 (.inr hs)))
  · intro k
    rw [hJ.hasK_iff (offKeys_nil on) (offKeys_nil on) k, hK k]
    simp only [ne_eq, not_true_eq_false, false_and, or_false, List.mem_append, List.mem_singleton]
    constructor
    · rintro ⟨h1, h2⟩ s (hs | hs)
      · exact h1 s hs
      · rw [hs]; exact h2
    · intro h
      exact ⟨fun s hs => h s (.inl hs), h _ (.inr rfl)⟩

/-- **the product of any number of tables** (induction over the list of inputs) -/
theorem fold_mul (on : List String) (hon : on ≠ []) (defaults : List (String × Cell)) :
    ∀ (ts : List (String × Table)) (acc : Table) (S : List Src) (r : Table),
      AccOK on acc S → (∀ kv ∈ ts, KeyedSrc on kv.2 kv.1) → (ts.map (·.1)).Nodup →
      (∀ kv ∈ ts, ∀ s ∈ S, s.name ≠ kv.1) →
      (∀ k, acc.R.hasK on k ↔ ∀ s ∈ S, s.t.hasK on k) →
      foldOR Table.mul acc (ts.map (·.2)) = some (.ok r) →
      AccOK on r (S ++ ts.map (mkSrc defaults)) ∧
      ∀ k, r.R.hasK on k ↔ ∀ s ∈ S ++ ts.map (mkSrc defaults), s.t.hasK on k := by
  intro ts
  induction ts with
  | nil =>
    intro acc S r ha _ _ _ hK h
    simp only [List.map_nil, foldOR, Option.some.injEq, Except.ok.injEq] at h
    subst h
    simpa using ⟨ha, hK⟩
  | cons kv ts ih =>
    intro acc S r ha hks hnd hne hK h
    simp only [List.map_cons, foldOR] at h
    cases hm : acc.mul kv.2 with
    | none => rw [hm] at h; cases h
    | some res =>
      cases res with
      | error e => rw [hm] at h; cases h
      | ok d =>
        rw [hm] at h
        dsimp only at h
        have hnd' : kv.1 ∉ ts.map (·.1) ∧ (ts.map (·.1)).Nodup := List.nodup_cons.1 hnd
        obtain ⟨ha', hK'⟩ := step_mul hon defaults ha (hks kv (by simp))
          (fun s hs => hne kv (by simp) s hs) hK hm
        have := ih d (S ++ [mkSrc defaults (kv.1, kv.2)]) r ha'
          (fun kv' h' => hks kv' (by simp [h'])) hnd'.2
          (by
            intro kv' h' s hs
            rcases List.mem_append.1 hs with h1 | h1
            · exact hne kv' (by simp [h']) s h1
            · rw [List.mem_singleton.1 h1]
              intro he
              exact hnd'.1 (List.mem_map.2 ⟨kv', h', he.symm⟩))
          hK' h
        simpa [List.append_assoc] using this

/-! ### the tables with default: `reducer(_join_dictable_with_defaults, …)` -/

/-- what is known about the accumulated `(table, defaults)` pair of the outer reduction -/
structure DefInv (on : List String) (acc : Table) (S : List Src) (da : List (String × Cell)) : Prop where
  ne : da ≠ []
  off : OffKeys on da
  named : ∀ kv ∈ da, ∃ s ∈ S, s.name = kv.1
  dfl : ∀ s ∈ S, ∃ v, s.dflt = some v ∧ ∀ r : Row, r.sets da s.name = v
  hK : ∀ k, acc.R.hasK on k ↔ ∃ s ∈ S, s.t.hasK on k

theorem DefInv.defAcc {on : List String} {acc : Table} {S : List Src} {da : List (String × Cell)}
    (h : DefInv on acc S da) : DefAcc on acc.R S da :=
  ⟨fun s hs k hk => (h.hK k).2 ⟨s, hs, hk⟩, h.dfl⟩

theorem Row.sets_filter (r : Row) (l : List (String × Cell)) (p : String × Cell → Bool) (c : String)
    (h : ∀ kv ∈ l, kv.1 = c → p kv = true) : r.sets (l.filter p) c = r.sets l c := by
  simp only [Row.sets, ← List.filter_reverse, List.find?_filter]
  have : l.reverse.find? (fun a => decide (p a = true ∧ (a.1 == c) = true)) =
      l.reverse.find? (fun kv => kv.1 == c) := by
    apply find?_congr'
    intro kv hkv
    by_cases hc : kv.1 = c
    · simp [hc, h kv (List.mem_reverse.1 hkv) hc]
    · simp [hc]
  rw [this]

theorem sets_updDefaults_old (r : Row) (da db : List (String × Cell)) (c : String)
    (h : ∀ kv ∈ db, kv.1 ≠ c) : r.sets (updDefaults da db) c = r.sets da c := by
  simp only [updDefaults]
  rw [Row.sets_append, Row.sets_of_not_mem _ _ _ h]
  apply Row.sets_filter
  intro kv _ he
  simp only [Bool.not_eq_true', List.contains_eq_mem, List.mem_map, decide_eq_false_iff_not,
    not_exists, not_and]
  intro x hx hxe
  exact h x hx (hxe.trans he)

theorem sets_updDefaults_new (r : Row) (da db : List (String × Cell)) (c : String)
    (h : ∃ kv ∈ db, kv.1 = c) : r.sets (updDefaults da db) c = r.sets db c := by
  simp only [updDefaults]
  rw [Row.sets_append]
  exact Row.sets_of_mem _ _ _ _ h

theorem defaults_filter_ne {defaults : List (String × Cell)} {name : String} {v : Cell}
    (hv : dfltOf defaults name = some v) : defaults.filter (fun kv => kv.1 == name) ≠ [] := by
  intro h
  have := dfltOf_filter defaults name
  rw [h, hv] at this
  simp [dfltOf] at this

theorem DefInv.base {on : List String} {t : Table} {name : String} {defaults : List (String × Cell)}
    {v : Cell} (h : KeyedSrc on t name) (hv : dfltOf defaults name = some v) :
    DefInv on t [mkSrc defaults (name, t)] (defaults.filter fun kv => kv.1 == name) := by
  refine ⟨defaults_filter_ne hv, ?_, ?_, ?_, ?_⟩
  · intro kv hkv
    have : kv.1 = name := by simpa using (List.mem_filter.1 hkv).2
    rw [this]; exact h.name_off
  · intro kv hkv
    have : kv.1 = name := by simpa using (List.mem_filter.1 hkv).2
    exact ⟨_, List.mem_singleton.2 rfl, this.symm⟩
  · intro s hs
    rw [List.mem_singleton.1 hs]
    refine ⟨v, hv, fun r => ?_⟩
    exact Row.sets_dfltOf _ _ _ _ ((dfltOf_filter defaults name).trans hv)
  · intro k
    simp [mkSrc]

theorem step_def {on : List String} (hon : on ≠ []) {acc t : Table} {S : List Src} {name : String}
    {da : List (String × Cell)} {defaults : List (String × Cell)} {v : Cell} {x : TblDef}
    (ha : AccOK on acc S) (hd : DefInv on acc S da) (ht : KeyedSrc on t name)
    (hne : ∀ s ∈ S, s.name ≠ name) (hv : dfltOf defaults name = some v)
    (hj : joinDef (some acc, da) (some t, defaults.filter fun kv => kv.1 == name) = some (.ok x)) :
    ∃ d, x = (some d, updDefaults da (defaults.filter fun kv => kv.1 == name)) ∧
      AccOK on d (S ++ [mkSrc defaults (name, t)]) ∧
      DefInv on d (S ++ [mkSrc defaults (name, t)])
        (updDefaults da (defaults.filter fun kv => kv.1 == name)) := by
  have hb := AccOK.base defaults ht
  have hdb := DefInv.base (defaults := defaults) ht hv
  have hda_cols : ∀ kv ∈ da, kv.1 ∈ acc.cols := by
    intro kv hkv
    obtain ⟨s, hs, he⟩ := hd.named kv hkv
    exact (ha.cols _).2 (.inr ⟨s, hs, he⟩)
  have hdb_name : ∀ kv ∈ defaults.filter (fun kv => kv.1 == name), kv.1 = name := by
    intro kv hkv; simpa using (List.mem_filter.1 hkv).2
  have hdb_cols : ∀ kv ∈ defaults.filter (fun kv => kv.1 == name), kv.1 ∈ t.cols := by
    intro kv hkv; rw [hdb_name kv hkv]; exact ht.has_name
  obtain ⟨d, hx, hJ, hw, hc, hond⟩ := joinDef_sem on hon acc t da _ x ha.wf ht.wf
    (shares_acc ha ht hne) hda_cols hdb_cols ha.on_nodup hj
  have hKd : ∀ k, d.R.hasK on k ↔ ∃ s ∈ S ++ [mkSrc defaults (name, t)], s.t.hasK on k := by
    intro k
    rw [hJ.hasK_iff hd.off hdb.off k, hd.hK k]
    simp only [List.mem_append, List.mem_singleton]
    have hB : t.R.hasK on k ↔ (mkSrc defaults (name, t)).t.hasK on k := Iff.rfl
    constructor
    · rintro (⟨⟨s, hs, h1⟩, _⟩ | ⟨_, h2, _⟩ | ⟨_, ⟨s, hs, h1⟩, _⟩)
      · exact ⟨s, .inl hs, h1⟩
      · exact ⟨_, .inr rfl, hB.1 h2⟩
      · exact ⟨s, .inl hs, h1⟩
    · rintro ⟨s, hs | hs, h1⟩
      · by_cases h2 : t.R.hasK on k
        · exact .inl ⟨⟨s, hs, h1⟩, h2⟩
        · exact .inr (.inr ⟨hdb.ne, ⟨s, hs, h1⟩, h2⟩)
      · rw [hs] at h1
        by_cases h2 : ∃ s ∈ S, s.t.hasK on k
        · exact .inl ⟨h2, h1⟩
        · exact .inr (.inl ⟨hd.ne, h1, h2⟩)
  refine ⟨d, hx, ⟨hw, ?_, ?_, ?_, ?_, hond⟩, ⟨?_, ?_, ?_, ?_, hKd⟩⟩
  · intro c
    rw [hc c, ha.cols c, hb.cols c]
    simp only [List.mem_append, List.mem_singleton]
    constructor
    · rintro ((h | ⟨s, hs, he⟩) | (h | ⟨s, hs, he⟩))
      · exact .inl h
      · exact .inr ⟨s, .inl hs, he⟩
      · exact .inl h
      · exact .inr ⟨s, .inr hs, he⟩
    · rintro (h | ⟨s, hs | hs, he⟩)
      · exact .inl (.inl h)
      · exact .inl (.inr ⟨s, hs, he⟩)
      · exact .inr (.inr ⟨s, hs, he⟩)
  · intro s hs
    rcases List.mem_append.1 hs with h | h
    · exact ha.names_off s h
    · exact hb.names_off s h
  · apply hJ.vok hd.off hdb.off ha.vok hb.vok
    · intro s hs
      refine ⟨(ha.cols _).2 (.inr ⟨s, hs, rfl⟩), ha.names_off s hs, ?_⟩
      intro kv hkv he
      exact hne s hs (he.symm.trans (hdb_name kv hkv))
    · intro s hs
      refine ⟨(hb.cols _).2 (.inr ⟨s, hs, rfl⟩), hb.names_off s hs, ?_⟩
      intro kv hkv he
      obtain ⟨s', hs', he'⟩ := hd.named kv hkv
      rw [List.mem_singleton.1 hs] at he
      exact hne s' hs' (he'.trans he)
    · intro _; exact hd.defAcc
    · intro _; exact hdb.defAcc
  · intro hu
    exact hJ.uniq hd.off hdb.off
      (ha.uniq fun s hs => hu s (List.mem_append.2 (.inl hs)))
      (hb.uniq fun s hs => hu s (List.mem_append.2 (.inr hs)))
  · intro h
    simp only [updDefaults, List.append_eq_nil_iff] at h
    exact hdb.ne h.2
  · intro kv hkv
    simp only [updDefaults, List.mem_append] at hkv
    rcases hkv with h | h
    · exact hd.off kv (List.mem_filter.1 h).1
    · exact hdb.off kv h
  · intro kv hkv
    simp only [updDefaults, List.mem_append] at hkv
    rcases hkv with h | h
    · obtain ⟨s, hs, he⟩ := hd.named kv (List.mem_filter.1 h).1
      exact ⟨s, List.mem_append.2 (.inl hs), he⟩
    · exact ⟨_, List.mem_append.2 (.inr (List.mem_singleton.2 rfl)), (hdb_name kv h).symm⟩
  · intro s hs
    rcases List.mem_append.1 hs with h | h
    · obtain ⟨w, hw1, hw2⟩ := hd.dfl s h
      refine ⟨w, hw1, fun r => ?_⟩
      rw [sets_updDefaults_old]
      · exact hw2 r
      · intro kv hkv he
        exact hne s h (he.symm.trans (hdb_name kv hkv))
    · obtain ⟨w, hw1, hw2⟩ := hdb.dfl s h
      refine ⟨w, hw1, fun r => ?_⟩
      rw [sets_updDefaults_new]
      · exact hw2 r
      · obtain ⟨kv, hkv⟩ := List.exists_mem_of_ne_nil _ hdb.ne
        rw [List.mem_singleton.1 h]
        exact ⟨kv, hkv, hdb_name kv hkv⟩

/-- **the outer join of any number of tables with defaults** (induction over the list of inputs) -/
theorem fold_def (on : List String) (hon : on ≠ []) (defaults : List (String × Cell)) :
    ∀ (ts : List (String × Table)) (acc : Table) (da : List (String × Cell)) (S : List Src)
      (x : TblDef),
      AccOK on acc S → DefInv on acc S da → (∀ kv ∈ ts, KeyedSrc on kv.2 kv.1) →
      (ts.map (·.1)).Nodup → (∀ kv ∈ ts, ∀ s ∈ S, s.name ≠ kv.1) →
      (∀ kv ∈ ts, (dfltOf defaults kv.1).isSome = true) →
      foldOR joinDef (some acc, da)
        (ts.map fun kv => (some kv.2, defaults.filter fun d => d.1 == kv.1)) = some (.ok x) →
      ∃ r dr, x = (some r, dr) ∧ AccOK on r (S ++ ts.map (mkSrc defaults)) ∧
        DefInv on r (S ++ ts.map (mkSrc defaults)) dr := by
  intro ts
  induction ts with
  | nil =>
    intro acc da S x ha hd _ _ _ _ h
    simp only [List.map_nil, foldOR, Option.some.injEq, Except.ok.injEq] at h
    subst h
    exact ⟨acc, da, rfl, by simpa using ha, by simpa using hd⟩
  | cons kv ts ih =>
    intro acc da S x ha hd hks hnd hne hdef h
    simp only [List.map_cons, foldOR] at h
    cases hm : joinDef (some acc, da) (some kv.2, defaults.filter fun d => d.1 == kv.1) with
    | none => rw [hm] at h; cases h
    | some res =>
      cases res with
      | error e => rw [hm] at h; cases h
      | ok y =>
        rw [hm] at h
        dsimp only at h
        have hnd' : kv.1 ∉ ts.map (·.1) ∧ (ts.map (·.1)).Nodup := List.nodup_cons.1 hnd
        obtain ⟨v, hv⟩ := Option.isSome_iff_exists.1 (hdef kv (by simp))
        obtain ⟨d, hy, ha', hd'⟩ := step_def hon ha hd (hks kv (by simp))
          (fun s hs => hne kv (by simp) s hs) hv hm
        subst hy
        have := ih d _ (S ++ [mkSrc defaults (kv.1, kv.2)]) x ha' hd'
          (fun kv' h' => hks kv' (by simp [h'])) hnd'.2
          (by
            intro kv' h' s hs
            rcases List.mem_append.1 hs with h1 | h1
            · exact hne kv' (by simp [h']) s h1
            · rw [List.mem_singleton.1 h1]
              intro he
              exact hnd'.1 (List.mem_map.2 ⟨kv', h', he.symm⟩))
          (fun kv' h' => hdef kv' (by simp [h'])) h
        simpa [List.append_assoc] using this

end Pyg
