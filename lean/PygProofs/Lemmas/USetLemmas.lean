import PygModel.USet

/-! helper lemmas for C16: first-occurrence dedup, association-list assignment -/
namespace Pyg.USet
variable {α : Type} [DecidableEq α]

theorem mem_mk (a : α) : ∀ xs : List α, a ∈ mk xs ↔ a ∈ xs
  | [] => by simp [mk]
  | x :: xs => by
      simp only [mk, List.mem_cons, List.mem_filter, mem_mk a xs, decide_eq_true_eq]
      by_cases h : a = x <;> simp [h]

theorem mk_nodup : ∀ xs : List α, (mk xs).Nodup
  | [] => by simp [mk]
  | x :: xs => by
      simp only [mk, List.nodup_cons, List.mem_filter, decide_eq_true_eq]
      exact ⟨fun h => h.2 rfl, (mk_nodup xs).sublist List.filter_sublist⟩

theorem mk_sublist : ∀ xs : List α, (mk xs).Sublist xs
  | [] => by simp [mk]
  | x :: xs => by
      simp only [mk]
      exact (List.filter_sublist.trans (mk_sublist xs)).cons_cons x

theorem mk_of_nodup : ∀ xs : List α, xs.Nodup → mk xs = xs
  | [], _ => rfl
  | x :: xs, h => by
      rw [List.nodup_cons] at h
      simp only [mk, mk_of_nodup xs h.2]
      congr 1
      rw [List.filter_eq_self]
      intro a ha
      simp only [decide_eq_true_eq]
      rintro rfl; exact h.1 ha

/-- first-occurrence order: the elements of a prefix come first, in their own first-occurrence
order; the rest follows with the prefix's elements removed -/
theorem mk_append : ∀ xs ys : List α, mk (xs ++ ys) = mk xs ++ (mk ys).filter (· ∉ xs)
  | [], ys => by
      simp only [mk, List.nil_append, List.not_mem_nil, not_false_eq_true, decide_true]
      exact (List.filter_eq_self.2 fun _ _ => rfl).symm
  | x :: xs, ys => by
      simp only [List.cons_append, mk, mk_append xs ys, List.filter_append, List.filter_filter]
      congr 2
      apply List.filter_congr
      intro a _
      simp [List.mem_cons, not_or]

theorem mk_idem (xs : List α) : mk (mk xs) = mk xs := mk_of_nodup _ (mk_nodup xs)

end Pyg.USet

namespace Pyg.DA
variable {V : Type}

theorem lookup_set (k j : String) (v : V) : ∀ l : List (String × V),
    lookup k (set j v l) = if k = j then some v else lookup k l
  | [] => by simp [set, lookup]
  | (l, w) :: kvs => by
      simp only [set]
      by_cases hj : j = l
      · subst hj; simp only [if_true, lookup]; by_cases hk : k = j <;> simp [hk]
      · simp only [hj, if_false, lookup, lookup_set k j v kvs]
        by_cases hk : k = l
        · subst hk; simp [Ne.symm hj]
        · simp [hk]

theorem map_fst_set_of_mem (j : String) (v : V) : ∀ l : List (String × V),
    j ∈ l.map (·.1) → (set j v l).map (·.1) = l.map (·.1)
  | [], h => by simp at h
  | (l, w) :: kvs, h => by
      simp only [set]
      by_cases hj : j = l
      · simp [hj]
      · have : j ∈ kvs.map (·.1) := by simpa [hj] using h
        simp [hj, map_fst_set_of_mem j v kvs this]

theorem set_of_not_mem (j : String) (v : V) : ∀ l : List (String × V),
    j ∉ l.map (·.1) → set j v l = l ++ [(j, v)]
  | [], _ => rfl
  | (l, w) :: kvs, h => by
      have h1 : j ≠ l := by intro e; apply h; simp [e]
      have h2 : j ∉ kvs.map (·.1) := by intro e; apply h; simp [e]
      simp [set, h1, set_of_not_mem j v kvs h2]

/-- assigning items with distinct fresh keys one after the other appends them -/
theorem setAll_append_of_nodup : ∀ (pairs base : List (String × V)),
    (base.map (·.1) ++ pairs.map (·.1)).Nodup → setAll base pairs = base ++ pairs
  | [], base, _ => by simp [setAll]
  | p :: ps, base, h => by
      have hp : p.1 ∉ base.map (·.1) := by
        intro hm
        rw [List.nodup_append] at h
        exact h.2.2 _ hm _ (by simp) rfl
      have e : setAll base (p :: ps) = setAll (set p.1 p.2 base) ps := by simp [setAll]
      rw [e, set_of_not_mem _ _ _ hp, setAll_append_of_nodup ps (base ++ [(p.1, p.2)])]
      · simp
      · simpa [List.append_assoc] using h

theorem setAll_nil_of_nodup (pairs : List (String × V)) (h : (pairs.map (·.1)).Nodup) :
    setAll [] pairs = pairs := by
  simpa using setAll_append_of_nodup pairs [] (by simpa using h)

theorem lookup_setAll (k : String) : ∀ (pairs base : List (String × V)),
    lookup k (setAll base pairs) = (lookup k pairs.reverse <|> lookup k base)
  | [], base => by simp [setAll, lookup]
  | p :: ps, base => by
      have e : setAll base (p :: ps) = setAll (set p.1 p.2 base) ps := by simp [setAll]
      rw [e, lookup_setAll k ps, lookup_set]
      have happ : ∀ (xs ys : List (String × V)), lookup k (xs ++ ys) = (lookup k xs <|> lookup k ys) := by
        intro xs ys
        induction xs with
        | nil => simp [lookup]
        | cons x xs ih => obtain ⟨l, w⟩ := x; simp only [List.cons_append, lookup]; split <;> simp [ih]
      rw [List.reverse_cons, happ]
      cases h : lookup k ps.reverse <;> simp [lookup]
      obtain ⟨l, w⟩ := p
      simp only []
      split <;> simp

theorem lookup_filter_ne (k j : String) : ∀ l : List (String × V),
    lookup k (l.filter (·.1 ≠ j)) = if k = j then none else lookup k l
  | [] => by simp [lookup]
  | (l, w) :: kvs => by
      by_cases hl : l = j
      · subst hl
        simp only [ne_eq, not_true_eq_false, decide_false, Bool.false_eq_true, not_false_eq_true,
          List.filter_cons_of_neg, lookup_filter_ne k l kvs, lookup]
        by_cases hk : k = l <;> simp [hk]
      · simp only [ne_eq, hl, not_false_eq_true, decide_true, List.filter_cons_of_pos, lookup,
          lookup_filter_ne k j kvs]
        by_cases hk : k = l
        · subst hk; simp [hl]
        · simp [hk]

theorem lookup_filter_mem (k : String) (ks : List String) : ∀ l : List (String × V),
    lookup k (l.filter (·.1 ∈ ks)) = if k ∈ ks then lookup k l else none
  | [] => by simp [lookup]
  | (l, w) :: kvs => by
      by_cases hl : l ∈ ks
      · simp only [hl, decide_true, List.filter_cons_of_pos, lookup, lookup_filter_mem k ks kvs]
        by_cases hk : k = l
        · subst hk; simp [hl]
        · simp [hk]
      · simp only [hl, decide_false, Bool.false_eq_true, not_false_eq_true, List.filter_cons_of_neg,
          lookup_filter_mem k ks kvs, lookup]
        by_cases hk : k = l
        · subst hk; simp [hl]
        · simp [hk]

theorem lookup_isSome_iff (k : String) : ∀ l : List (String × V),
    (lookup k l).isSome = true ↔ k ∈ l.map (·.1)
  | [] => by simp [lookup]
  | (l, w) :: kvs => by
      simp only [lookup, List.map_cons, List.mem_cons]
      by_cases hk : k = l
      · simp [hk]
      · simp [hk, lookup_isSome_iff k kvs]

end Pyg.DA

/-! ### round h2 (review s2): in-place list operations against the plain list operation; key order of successive assignments -/
namespace Pyg.USet
variable {α : Type} [DecidableEq α]

omit [DecidableEq α] in
theorem nodup_set_fresh (u : List α) (i : Nat) (x : α) (hu : u.Nodup) (hx : x ∉ u) : (u.set i x).Nodup := by
  induction u generalizing i with
  | nil => simp
  | cons a u ih =>
    cases i with
    | zero =>
      simp only [List.set_cons_zero, List.nodup_cons] at hu ⊢
      exact ⟨fun h => hx (List.mem_cons_of_mem _ h), hu.2⟩
    | succ i =>
      simp only [List.set_cons_succ, List.nodup_cons] at hu ⊢
      refine ⟨fun h => ?_, ih i hu.2 (fun h => hx (List.mem_cons_of_mem _ h))⟩
      rcases List.mem_or_eq_of_mem_set h with h | h
      · exact hu.1 h
      · exact hx (by simp [h])

omit [DecidableEq α] in
theorem nodup_insertAt_fresh (u : List α) (i : Nat) (x : α) (hu : u.Nodup) (hx : x ∉ u) : (insertAt u i x).Nodup := by
  unfold insertAt
  have h := List.take_append_drop i u
  rw [← h] at hu hx
  rw [List.nodup_append] at hu ⊢
  simp only [List.mem_append, not_or] at hx
  refine ⟨hu.1, List.nodup_cons.2 ⟨hx.2, hu.2.1⟩, ?_⟩
  intro a ha b hb
  rcases List.mem_cons.1 hb with rfl | hb
  · intro e; subst e; exact hx.1 ha
  · exact hu.2.2 a ha b hb

/-- the plain python list operation behind an in-place ulist operation (independent reference) -/
def listOp (u : List α) : Op α → Option (List α)
  | .append _ x => some (u ++ [x])
  | .extend _ xs => some (u ++ xs)
  | .iadd _ xs => some (u ++ xs)
  | .insert _ i x => some (u.take i ++ x :: u.drop i)
  | .setI _ i x => if i < u.length then some (u.set i x) else none
  | .imul _ n => some ((List.replicate n u).flatten)
  | _ => none

omit [DecidableEq α] in
theorem repeatN_eq (u : List α) (n : Nat) : repeatN u n = (List.replicate n u).flatten := by
  induction n with
  | zero => rfl
  | succ n ih => simp [repeatN, ih, List.replicate_succ]


end Pyg.USet

namespace Pyg.DA
open Pyg.USet
variable {V : Type}

theorem mk_mk_append (xs ys : List String) : mk (mk xs ++ ys) = mk (xs ++ ys) := by
  rw [mk_append, mk_append, mk_idem]
  congr 1
  apply List.filter_congr
  intro y _
  simp [mem_mk]

theorem keys_set (k : String) (v : V) (l : List (String × V)) (hn : (l.map (·.1)).Nodup) :
    (set k v l).map (·.1) = mk (l.map (·.1) ++ [k]) := by
  by_cases hk : k ∈ l.map (·.1)
  · rw [map_fst_set_of_mem k v l hk, mk_append, mk_of_nodup _ hn]
    simp [mk, hk]
  · rw [set_of_not_mem k v l hk, mk_append, mk_of_nodup _ hn]
    simp [mk, hk]

/-- key ORDER of successive item assignments: the keys of the base in their order, then the new keys in the order of their
first assignment -/
theorem keys_setAll : ∀ (pairs base : List (String × V)), (base.map (·.1)).Nodup →
    (setAll base pairs).map (·.1) = mk (base.map (·.1) ++ pairs.map (·.1))
  | [], base, hn => by simp [setAll, mk_of_nodup _ hn]
  | p :: ps, base, hn => by
      have e : setAll base (p :: ps) = setAll (set p.1 p.2 base) ps := by simp [setAll]
      have hn' : ((set p.1 p.2 base).map (·.1)).Nodup := by rw [keys_set _ _ _ hn]; exact mk_nodup _
      rw [e, keys_setAll ps _ hn', keys_set _ _ _ hn, mk_mk_append]
      simp

theorem mapM_congr_res {α β : Type} (f g : α → Res β) : ∀ (xs : List α), (∀ x ∈ xs, f x = g x) → xs.mapM f = xs.mapM g
  | [], _ => rfl
  | x :: xs, h => by
    simp only [List.mapM_cons, h x (by simp), mapM_congr_res f g xs (fun y hy => h y (List.mem_cons_of_mem _ hy))]


theorem map_fst_set_mem (k : String) (v : V) (kvs : List (String × V)) (w : V) (h : lookup k kvs = some w) :
    (set k v kvs).map (·.1) = kvs.map (·.1) :=
  map_fst_set_of_mem k v kvs ((lookup_isSome_iff k kvs).1 (by simp [h]))

end Pyg.DA
