/-
  pygdriver — the model side of the line protocol (DESIGN §3.2).
  One request per line `(model op arg*)`, one reply per line:
  `ok <value>` | `err <Kind>` | `bad-op`.
-/
import PygModel

open Pyg

def dispatch (line : String) : String :=
  match Sexp.parse line with
  | some (.node (.atom model :: .atom op :: args)) =>
    let r : Option String :=
      match model with
      | "sys" => some "ok N"
      | "cmp" => CmpDriver.handle op args
      | _ => none
    r.getD "bad-op"
  | _ => "bad-op"

partial def loop (hin hout : IO.FS.Stream) : IO Unit := do
  let line ← hin.getLine
  if line.isEmpty then return ()
  let l := line.trimAscii.toString
  if !l.isEmpty then hout.putStrLn (dispatch l)
  loop hin hout

def main : IO Unit := do
  let hin ← IO.getStdin
  let hout ← IO.getStdout
  loop hin hout
  hout.flush
