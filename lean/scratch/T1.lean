import PygModel.OpsF
open Pyg Pyg.Ops Pyg.Align
#check @String.lt_irrefl
#check @String.lt_trans
#check @String.le_antisymm
#check @String.not_le
#check @String.le_total
#check @String.not_lt
#check @String.lt_asymm
#check @String.le_of_lt
#check @String.lt_of_le_of_lt
example (a b : String) : a < b ∨ a = b ∨ b < a := by
  rcases String.le_total a b with h | h
  · sorry
  · sorry
