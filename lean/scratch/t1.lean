import PygModel.Join
namespace Pyg

theorem dictSet_fresh {α} (d : List (String × α)) (k : String) (v : α) (h : k ∉ d.map (·.1)) :
    dictSet d k v = d ++ [(k, v)] := by
  unfold dictSet
  rw [if_neg]
  intro hc
  apply h
  simp only [List.any_eq_true, beq_iff_eq] at hc
  obtain ⟨c, hc, rfl⟩ := hc
  exact List.mem_map.2 ⟨c, hc, rfl⟩

theorem dictOf_foldl_nodup {α} : ∀ (kvs acc : List (String × α)),
    (acc.map (·.1) ++ kvs.map (·.1)).Nodup →
    kvs.foldl (fun d kv => dictSet d kv.1 kv.2) acc = acc ++ kvs := by
  intro kvs
  induction kvs with
  | nil => intro acc _; simp
  | cons kv rest ih =>
    intro acc h
    simp only [List.foldl_cons]
    have hk : kv.1 ∉ acc.map (·.1) := by
      intro hm
      have := (List.nodup_append.1 h).2.2 _ hm kv.1 (by simp)
      exact this rfl
    rw [dictSet_fresh _ _ _ hk, ih]
    · simp
    · simpa [List.map_append, List.append_assoc] using h

theorem dictOf_nodup {α} (kvs : List (String × α)) (h : (kvs.map (·.1)).Nodup) : dictOf kvs = kvs := by
  have := dictOf_foldl_nodup kvs [] (by simpa using h)
  simpa [dictOf] using this

end Pyg
