import PygModel.Cmp
import PygProofs.Lemmas.CmpLemmas
namespace Pyg

def keyEq : Cell → Cell → Bool
  | .none, .none => true
  | .nan, .nan => true
  | .pinf, .pinf => true
  | .ninf, .ninf => true
  | .bool a, .bool b => a == b
  | .str a, .str b => a == b
  | .dt a, .dt b => a == b
  | .int a, .int b => a == b
  | .flt a, .flt b => a == b
  | .int a, .flt q => 4 * a == q
  | .flt q, .int a => q == 4 * a
  | _, _ => false

theorem Cell.cmp_eq_iff (a b : Cell) : Cell.cmp a b = .eq ↔ keyEq a b = true := by
  cases a <;> cases b <;>
    simp [Cell.cmp, Cell.cmpSame, Cell.rank, Cell.num, Cell.skey, keyEq, Ordering.then_eq_eq]
  case bool.bool x y => cases x <;> cases y <;> simp
  case int.int x y => omega
