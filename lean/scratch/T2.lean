import PygProofs.Props.C08
open Pyg Pyg.Ops Pyg.Align
#print axioms Pyg.Props.C08.binopF_cell
#print axioms Pyg.Props.C08.binopF_value
#check @Pyg.Props.C08.binopF_value
