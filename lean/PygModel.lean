import PygModel.Basic
import PygModel.Cmp
import PygModel.Sort
import PygModel.CmpDriver
