/- line-protocol handler for the drange model (C10).  Instants travel as plain integer atoms (µs since 0001-01-01). -/
import PygModel.DRange
import PygModel.DateRange
import PygModel.DateParse

namespace Pyg.DRangeDriver
open Pyg Pyg.DRange

abbrev St := _root_.Unit
def init : St := ()
def modelName : String := "drange"

/-- `N` | `(int n)` | `(npint <numpy type> n)` | `(td us)` | `(tdpd us)` | `(tdnp us)` | `(p <hex of the period string>)` -/
def bumpOf : Sexp → Option Bump
  | .atom "N" => some .none
  | .node [.atom "int", n] => n.toInt?.map .int
  | .node [.atom "npint", _, n] => n.toInt?.map .int      -- the same integer held by a numpy scalar (`is_int` admits np.int8..int64): an integer is an integer (C10-D1)
  | .node [.atom "td", n] => n.toInt?.map .td
  | .node [.atom "tdpd", n] => n.toInt?.map .td         -- the same duration as a `pd.Timedelta` (a subclass of `datetime.timedelta`: `isinstance` holds)
  -- the same duration as a `np.timedelta64` (numpy's timedelta: the ruling of C09-D1 holds for drange too - defect C10-D2, review5 w3 §2-2)
  | .node [.atom "tdnp", n] => n.toInt?.map .td
  | .node [.atom "p", .atom h] => do
      let s ← hexDecode h
      let ps ← parsePeriod s
      if ps.isEmpty then none else pure (.period ps)
  | _ => none

/-- an endpoint as `drange` is handed it: `N` = None | `(b <bump>)` = a bump (`is_bump`: `(int n)` with n < 1500, `(td us)`, `(p <hex>)` a
period string) | `(d <instant>)` = a datetime | `(n k)` = a number that is not a bump (k ≥ 1500: a year, an ordinal, a yyyymmdd integer …),
read by `dt(k)` = the C04 model `DateParse.num2dtQ` (an offset from today for k = 1500) -/
def endpointOf (today : Int) : Sexp → Option (Res DateRange.Endpoint)
  | .atom "N" => some (.ok .none)
  | .node [.atom "b", .node [.atom "int", n]] => do
      let n ← n.toInt?
      if DateRange.intIsBump n then pure (.ok (.bump (.int n))) else none
  | .node [.atom "b", .node [.atom "td", n]] => n.toInt?.map fun us => .ok (.bump (.delta us))
  | .node [.atom "b", .node [.atom "p", .atom h]] => do
      let s ← hexDecode h
      if Bump.isPeriod s then pure (.ok (.bump (.str s))) else none
  | .node [.atom "d", t] => t.toInt?.map fun t => .ok (.date t)
  | .node [.atom "n", k] => do
      let k ← k.toInt?
      if DateRange.intIsBump k then none
      match DateParse.num2dtQ (4 * k) with
      | .abs r => pure (r.map .date)
      | .rel us => pure ((Bump.checkRange (today + us)).map .date)
  | _ => none

def renderTs (xs : List Int) : String := "(L" ++ String.join (xs.map fun x => s!" T:{x}") ++ ")"

/-- month-based rrule steps are modelled for a day of month ≤ 28 only -/
def unmodelled (t0 : Int) : Bump → Bool
  | .period [(n, u)] => (u = .m || u = .q || u = .y) && n > 0 && Civil.day (dayOf t0) > 28
  | _ => false

def handle1 (op : String) (args : List Sexp) : Option String := do
  match op, args with
  -- `runas k0 k1 t0 t1 b`: the endpoints handed over as OTHER python objects that denote the same instants (`k0`, `k1` ∈ date, ts =
  -- pd.Timestamp, np / npD = np.datetime64[us] / [D], iso = ISO string, ymd = yyyymmdd integer).  `date_range` (_drange.py:210-264)
  -- resolves a non-bump endpoint with `dt(t)`; that `dt` of each of these spellings IS the instant is C04 (`dt_of_date`,
  -- `pandas_roundtrip`, `np2dt_roundtrip`, `iso_str`, `num2dt_yyyymmdd`): the model is handed the instants.  The elements of the
  -- result are compared as instants (a Timestamp start yields Timestamps from the timedelta / compound loops).
  | "run", [t0, t1, b] | "runas", [_, _, t0, t1, b] =>
      let t0 ← t0.toInt?; let t1 ← t1.toInt?; let b ← bumpOf b
      if unmodelled t0 b then none
      match drange t0 t1 b with
      | .ok xs => pure ("ok " ++ renderTs xs)
      | .error e => pure ("err " ++ e.render)
  -- `rune today e0 e1 b`: drange with its endpoints AS GIVEN (None / bumps / dates / numbers), `today` = dt(0) pinned by the harness:
  -- `date_range` (PygModel/DateRange.lean) first, then the enumeration
  | "rune", [today, e0, e1, b] =>
      let today ← today.toInt?; let b ← bumpOf b
      let e0 ← endpointOf today e0; let e1 ← endpointOf today e1
      match e0, e1 with
      | .ok e0, .ok e1 =>
        match DateRange.dateRange today e0 e1 with
        | .ok p =>
          if unmodelled p.1 b then none
          match drange p.1 p.2 b with
          | .ok xs => pure ("ok " ++ renderTs xs)
          | .error e => pure ("err " ++ e.render)
        | .error e => pure ("err " ++ e.render)
      | .error e, _ => pure ("err " ++ e.render)
      | _, .error e => pure ("err " ++ e.render)
  -- `range today e0 e1`: `date_range(e0, e1)` itself
  | "range", [today, e0, e1] =>
      let today ← today.toInt?
      let e0 ← endpointOf today e0; let e1 ← endpointOf today e1
      match e0, e1 with
      | .ok e0, .ok e1 =>
        match DateRange.dateRange today e0 e1 with
        | .ok p => pure s!"ok (L T:{p.1} T:{p.2})"
        | .error e => pure ("err " ++ e.render)
      | .error e, _ => pure ("err " ++ e.render)
      | _, .error e => pure ("err " ++ e.render)
  | "crun", [t0, t1, b] =>
      -- Calendar.drange(t0, t1, bump) for a bump that is not a 'kb' string delegates to drange (_drange.py:666-667)
      let t0 ← t0.toInt?; let t1 ← t1.toInt?; let b ← bumpOf b
      if unmodelled t0 b then none
      match b with
      | .period ps => if ps.getLast?.map (·.2) == some Per.b then none   -- bump[-1] == 'b': the table branch (C05)
      | _ => pure ()
      match drange t0 t1 b with
      | .ok xs => pure ("ok " ++ renderTs xs)
      | .error e => pure ("err " ++ e.render)
  | "bump", [t, .atom h] =>
      let t ← t.toInt?
      let s ← hexDecode h
      let ps ← parsePeriod s
      pure s!"ok T:{dtBump ps t}"
  | _, _ => none

def handle (s : St) (op : String) (args : List Sexp) : Option (St × String) :=
  (handle1 op args).map fun r => (s, r)

end Pyg.DRangeDriver
