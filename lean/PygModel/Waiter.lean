/-
  PygModel.Waiter — `waiter` (src/pyg_base/_waiter.py:15-61) as a slot machine.

  `await waiter(value)`:   list/tuple -> `type(value)(await gather(*[waiter(v) for v in value]))`
                           dict       -> the same over `value.values()`, re-zipped with the keys
                           Awaitable  -> `await value`;   anything else -> value
  Every `waiter(...)` call is a task.  A task is finished (`ret v`), suspended on an external
  awaitable (`wait id`), or suspended in `asyncio.gather` over its children's tasks (`gather kind slots`);
  a slot is filled when the child's task is `ret`.  `asyncio.gather` is ASSUMED to deliver the children's
  results positionally when all of them are done (sampled by the correspondence check on real futures).
  An external event `complete id v` finishes every task suspended on awaitable `id`; tasks whose slots are
  then all filled finish in turn (`collapse`).
-/
import PygModel.Basic

namespace Pyg

/-- a nested structure with awaitables (numbered) at some leaves -/
inductive W where
  | val (c : Cell)
  | aw (id : Nat)
  | list (xs : List W)
  | tuple (xs : List W)
  | dict (kvs : List (String × W))
  deriving Repr, Inhabited

inductive Kind where
  | list
  | tuple
  | dict (keys : List String)
  deriving Repr, DecidableEq, Inhabited

inductive Task where
  | ret (v : Val)
  | wait (id : Nat)
  | gather (k : Kind) (slots : List Task)
  deriving Repr, Inhabited

/-- `type(value)(values)` / `type(value)(dict(zip(value.keys(), values)))` -/
def Kind.build : Kind → List Val → Val
  | .list, vs => .list vs
  | .tuple, vs => .tuple vs
  | .dict keys, vs => .dict (keys.zip vs)

/-- the results of the slots if all of them are filled -/
def allRet : List Task → Option (List Val)
  | [] => some []
  | .ret v :: ts => (allRet ts).map (v :: ·)
  | _ :: _ => Option.none

/-- a gather node whose slots are all filled completes with the positional results -/
def collapse (k : Kind) (slots : List Task) : Task :=
  match allRet slots with
  | some vs => .ret (k.build vs)
  | Option.none => .gather k slots

mutual
  /-- the task tree right after `waiter(w)` has been scheduled and every task has run as far as it can -/
  def start : W → Task
    | .val c => .ret (.cell c)
    | .aw id => .wait id
    | .list xs => collapse .list (startList xs)
    | .tuple xs => collapse .tuple (startList xs)
    | .dict kvs => collapse (.dict (kvs.map (·.1))) (startKVs kvs)
  def startList : List W → List Task
    | [] => []
    | x :: xs => start x :: startList xs
  def startKVs : List (String × W) → List Task
    | [] => []
    | (_, x) :: kvs => start x :: startKVs kvs
end

mutual
  /-- awaitable `id` completes with result `v` -/
  def complete (id : Nat) (v : Val) : Task → Task
    | .ret x => .ret x
    | .wait j => if j = id then .ret v else .wait j
    | .gather k slots => collapse k (completeList id v slots)
  def completeList (id : Nat) (v : Val) : List Task → List Task
    | [] => []
    | t :: ts => complete id v t :: completeList id v ts
end

/-- run a sequence of completion events -/
def runEvents (w : W) (evs : List (Nat × Val)) : Task :=
  evs.foldl (fun t e => complete e.1 e.2 t) (start w)

/-- what the awaiting caller sees: the result once the root task is done -/
def Task.result : Task → Option Val
  | .ret v => some v
  | _ => Option.none

mutual
  /-- the structure with every awaitable replaced by its result -/
  def resolve (res : Nat → Val) : W → Val
    | .val c => .cell c
    | .aw id => res id
    | .list xs => .list (resolveList res xs)
    | .tuple xs => .tuple (resolveList res xs)
    | .dict kvs => .dict (resolveKVs res kvs)
  def resolveList (res : Nat → Val) : List W → List Val
    | [] => []
    | x :: xs => resolve res x :: resolveList res xs
  def resolveKVs (res : Nat → Val) : List (String × W) → List (String × Val)
    | [] => []
    | (k, x) :: kvs => (k, resolve res x) :: resolveKVs res kvs
end

mutual
  /-- the awaitables of a structure, left to right -/
  def awaitables : W → List Nat
    | .val _ => []
    | .aw id => [id]
    | .list xs => awaitablesList xs
    | .tuple xs => awaitablesList xs
    | .dict kvs => awaitablesKVs kvs
  def awaitablesList : List W → List Nat
    | [] => []
    | x :: xs => awaitables x ++ awaitablesList xs
  def awaitablesKVs : List (String × W) → List Nat
    | [] => []
    | (_, x) :: kvs => awaitables x ++ awaitablesKVs kvs
end

end Pyg
