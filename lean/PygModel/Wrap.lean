/-
  PygModel.Wrap — the `wrapper` base class (src/pyg_base/_decorators.py:128-184): construction with
  unwrapping of same-type wrappers, signature forwarding, and the call behaviour of the decorators of C18
  (`try_value`, `try_back`, `kwargs_support`, `cache_func` on its first call, `loops` on a non-container
  argument, `pd2np` on non-pandas arguments incl. its `_int2float`).

  A decorated function is a chain of wrapper instances around a plain function: `chain` lists
  (class, parameters) from the outside in, `base` names the plain function.  The memo field
  `function_fullargspec` is not part of the model (it is filled lazily and does not affect behaviour).
  The constructor returns a new chain and leaves its operand as it is (repaired code, P7: the pinned constructor
  edited inner wrapper objects of its operand in place, `f[_function] = f.function.function`); several objects
  alive at once are `stepM` / `runMulti` in WrapHist.lean.
-/
import PygModel.Bind

namespace Pyg

inductive Cls where
  | tryValue | tryBack | kwargsSupport | cache | loops | pd2np
  deriving Repr, DecidableEq, Inhabited

structure WFn where
  chain : List (Cls × PDict)
  base : Nat
  deriving Repr, Inhabited

/-- remove every wrapper of class `cls` -/
def stripAll (cls : Cls) (ch : List (Cls × PDict)) : List (Cls × PDict) := ch.filter fun w => w.1 != cls

/-- parameters of the innermost wrapper of class `cls` (the last one the `while` loop meets) -/
def lastParams (cls : Cls) (ch : List (Cls × PDict)) : Option PDict :=
  ((ch.filter fun w => w.1 == cls).getLast?).map (·.2)

/-- `wrapper.__init__(self, function, **kwargs)` for `type(self) = cls` (_decorators.py:128-146):
    * a `function` of the same type is unwrapped and its parameters, updated by `kwargs`, are taken over;
    * then the chain below is walked and every wrapper of the same type found *under* another wrapper is cut out,
      its parameters (updated by `kwargs`) being taken over.
    NOTE: every subclass `__init__` of the code passes its COMPLETE parameter set as `kwargs` (try_value: repeat, sleep,
    return_value, value, verbose; loops: types; pd2np: exc), so in the code the update overwrites every inherited parameter.
    `mk` is faithful for such complete dicts only (the driver is only sent complete dicts; `Props.C18.wrap_twice_params`). -/
def mk (cls : Cls) (kwargs : PDict) (fn : WFn) : WFn :=
  let (kw0, ch) := match fn.chain with
    | (c, p) :: rest => if c = cls then (p.update kwargs, rest) else (kwargs, fn.chain)
    | [] => (kwargs, [])
  -- f = function; while isinstance(f, wrapper): if type(f.function) == type(self): ... else f = f.function
  let (kw, ch) := match ch with
    | top :: below =>
        ((match lastParams cls below with
          | some p => p.update kwargs
          | Option.none => kw0), top :: stripAll cls below)
    | [] => (kw0, [])
  { chain := (cls, kw) :: ch, base := fn.base }

/-- apply a sequence of decorators, first element first (innermost) -/
def mkMany (ds : List (Cls × PDict)) (fn : WFn) : WFn := ds.foldl (fun f d => mk d.1 d.2 f) fn

/-- python `==` of two decorated functions, ignoring the memo field: same plain function, same classes in the
same order, equal parameter dicts -/
def WFn.Eqv (a b : WFn) : Prop :=
  a.base = b.base ∧ a.chain.map (·.1) = b.chain.map (·.1) ∧
  ∀ (i : Nat) (x y : Cls × PDict), a.chain[i]? = some x → b.chain[i]? = some y → PDict.Eqv x.2 y.2

/-- `getargspec(W(f))`: `wrapper.fullargspec` asks the wrapped function (_decorators.py:165-169,
_inspect.py:7-29), so the answer is the plain function's -/
def specOf (env : Nat → Sig) (fn : WFn) : Sig := env fn.base

/-! ### the memo field `function_fullargspec` (_decorators.py:144, 165-169)

Every wrapper object carries a memo that is `None` after construction and is filled on the first
`fullargspec` request with `getargspec(self.function)` — which asks the wrapped object, recursively
(_inspect.py:26-29).  `Memos` are the memo fields along a chain, outermost first. -/

abbrev Memos := List (Option Sig)

/-- `getargspec(W)`: the first filled memo on the way down, else the plain function's own specification -/
def specWalk (base : Sig) : Memos → Sig
  | [] => base
  | some s :: _ => s
  | Option.none :: rest => specWalk base rest

/-- the request `W.fullargspec` also fills the memos it passes through (each level asks the next) -/
def fillMemos (base : Sig) : Memos → Memos
  | [] => []
  | some s :: rest => some s :: rest
  | Option.none :: rest => some (specWalk base rest) :: fillMemos base rest

/-- what a constructor does to the memos: the new object has an empty memo, the objects below it are kept
(with their memos, filled or not) except those that are cut out (`keep`) -/
def mkMemos (keep : List Bool) (ms : Memos) : Memos :=
  Option.none :: ((ms.zip keep).filter (·.2)).map (·.1)

/-- `kwargs.pop('axis', 0)` -/
def popAxis (kw : PDict) : PDict := kw.filter fun p => p.1 != "axis"

/-- the call `loops.wrapped` forwards when the looped argument is not a container (_loop.py:190-240):
    * a first positional argument: `_wrapped(args[0], args[1:], kwargs)` pops `axis` and calls
      `function(arg, *args, **kwargs)`;
    * no positional argument but a keyword named like the first parameter `top`: `arg = kwargs.pop(top)`, then the same;
    * neither: `function(*args, **kwargs)` unchanged. -/
def loopsCall (s : Sig) (c : Call) : Call :=
  match c.args, s.params with
  | _ :: _, _ => { c with kw := popAxis c.kw }
  | [], top :: _ =>
    match c.kw.lookup top with
    | some arg => { args := [arg], kw := popAxis (c.kw.erase top) }
    | Option.none => c
  | [], [] => c

/-! ### `pd2np` on non-pandas arguments: `_int2float` (_loop.py:277-293, 353-357)

`pd2np.wrapped` with a first argument that is not a pandas object calls
`self.function(*args_, **kwargs_, **excluded)` where `args_, kwargs_ = _int2float((args, kwargs_))`:
every int ndarray among the arguments — at any depth of lists / tuples / dicts — is replaced by
`a.astype(float)`; keywords named in `exc` are passed as they are.  Arrays are the driver's marker strings
(`Val.hasArr`): `~arr:1,2` is an int array, `~arr:f:1,2` the float array with the same cells. -/

/-- the marker of an int ndarray -/
def isIntArr (s : String) : Bool := s.startsWith "~arr:" && !s.startsWith "~arr:f:"

mutual
  /-- `_int2float` (_loop.py:277-293) on non-pandas values -/
  def int2float : Val → Val
    | .cell (.str s) => if isIntArr s then .cell (.str ("~arr:f:" ++ (s.drop 5).toString)) else .cell (.str s)
    | .cell c => .cell c
    | .list xs => .list (int2floatList xs)
    | .tuple xs => .tuple (int2floatList xs)
    | .dict kvs => .dict (int2floatKVs kvs)
  def int2floatList : List Val → List Val
    | [] => []
    | x :: xs => int2float x :: int2floatList xs
  def int2floatKVs : List (String × Val) → List (String × Val)
    | [] => []
    | (k, v) :: kvs => (k, int2float v) :: int2floatKVs kvs
end

mutual
  /-- an int ndarray somewhere in the value -/
  def Val.hasIntArr : Val → Bool
    | .cell (.str s) => isIntArr s
    | .cell _ => false
    | .list xs => hasIntArrList xs
    | .tuple xs => hasIntArrList xs
    | .dict kvs => hasIntArrKVs kvs
  def hasIntArrList : List Val → Bool
    | [] => false
    | x :: xs => x.hasIntArr || hasIntArrList xs
  def hasIntArrKVs : List (String × Val) → Bool
    | [] => false
    | (_, v) :: kvs => v.hasIntArr || hasIntArrKVs kvs
end

/-- an int ndarray among the arguments of a call (at any depth) -/
def Call.hasIntArr (c : Call) : Bool := hasIntArrList c.args || hasIntArrKVs c.kw

/-- `as_list(exc)` of a `pd2np` wrapper -/
def excOf (p : PDict) : List String :=
  match p.lookup "exc" with
  | some (.list xs) => xs.filterMap fun | .cell (.str s) => some s | _ => Option.none
  | some (.tuple xs) => xs.filterMap fun | .cell (.str s) => some s | _ => Option.none
  | some (.cell (.str s)) => [s]
  | _ => []

/-- keyword arguments of the call `pd2np` forwards: excluded names untouched.  (The code passes the excluded
keywords last; python dicts compare without order, the model keeps the order.) -/
def int2floatKw (exc : List String) : PDict → PDict
  | [] => []
  | (k, v) :: kvs => (k, if exc.contains k then v else int2float v) :: int2floatKw exc kvs

/-- the call `pd2np.wrapped` forwards when the first argument is not a pandas object -/
def pd2npCall (exc : List String) (c : Call) : Call :=
  { args := int2floatList c.args, kw := int2floatKw exc c.kw }

/-! ### the DOMAIN of `evalChain` / `evalH`: "loops on non-container input" (review t5)

The `loops` arm of `evalChain` forwards ONE call (`loopsCall`); that is what `loops.wrapped` does when the argument it dispatches
on - the first positional argument, else the keyword named like the first parameter - is not of one of the looped `types`
(_loop.py:207-268: every branch of `_wrapped` tests `type(arg) in self.types` / `isinstance(arg, self.types)`).  On a list / tuple /
dict of a looped type the code makes one call per element (property C19) and `evalChain` is NOT a model of it.  `inDomain` says
whether every `loops` layer of a stack receives a non-looped argument; the driver answers lines outside the domain `bad-op`, and
every theorem about `evalChain` / `evalH` with a `loops` layer is a statement about the code only where `inDomain` holds
(`Props.C18.inDomain_false_iff` characterises it through `reach`). -/

/-- `self.types` of a `loops` wrapper, as the names the driver is sent -/
def typesOf (p : PDict) : List String :=
  match p.lookup "types" with
  | some (.list xs) => xs.filterMap fun | .cell (.str s) => some s | _ => Option.none
  | some (.tuple xs) => xs.filterMap fun | .cell (.str s) => some s | _ => Option.none
  | some (.cell (.str s)) => [s]
  | _ => []

/-- `type(arg) in self.types` for the container kinds of the model universe -/
def isLooped (types : List String) : Val → Bool
  | .list _ => types.contains "list"
  | .tuple _ => types.contains "tuple"
  | .dict _ => types.contains "dict"
  | .cell _ => false

/-- the argument `loops.wrapped` dispatches on (`none`: no positional argument and no keyword named like the first parameter -
the call is forwarded untouched) -/
def loopsArg (s : Sig) (c : Call) : Option Val :=
  match c.args, s.params with
  | a :: _, _ => some a
  | [], top :: _ => c.kw.lookup top
  | [], [] => Option.none

/-- the `loops` layer with parameters `p` receives a call it does not loop over -/
def loopsPasses (s : Sig) (p : PDict) (c : Call) : Bool :=
  match loopsArg s c with
  | some a => !isLooped (typesOf p) a
  | Option.none => true

/-- every `loops` layer of the stack receives a call it does not loop over (the layers above it forward `kwFilter` /
`loopsCall` / `pd2npCall` of the call; `try_*` and `cache` forward the call itself) -/
def inDomain (s : Sig) : List (Cls × PDict) → Call → Bool
  | [], _ => true
  | (.loops, p) :: rest, c => loopsPasses s p c && inDomain s rest (loopsCall s c)
  | (.kwargsSupport, _) :: rest, c => inDomain s rest (kwFilter s c)
  | (.pd2np, p) :: rest, c => inDomain s rest (pd2npCall (excOf p) c)
  | (.tryValue, _) :: rest, c => inDomain s rest c
  | (.tryBack, _) :: rest, c => inDomain s rest c
  | (.cache, _) :: rest, c => inDomain s rest c

/-- python truthiness (`if x:`) of a parameter value -/
def Val.truthy : Val → Bool
  | .cell .none => false
  | .cell (.bool b) => b
  | .cell (.int n) => n != 0
  | .cell (.flt q) => q != 0
  | .cell (.str s) => s != ""
  | .cell _ => true
  | .list xs => !xs.isEmpty
  | .tuple xs => !xs.isEmpty
  | .dict kvs => !kvs.isEmpty

/-- `if self.return_value:` of `try_value.wrapped` (_decorators.py:238): python TRUTHINESS of the parameter - `return_value=0`,
`None`, `''` switch the fallback off just as `False` does (the constructor's default is `True`) -/
def returnsValue (p : PDict) : Bool :=
  match p.lookup "return_value" with
  | some v => v.truthy
  | Option.none => true

/-- one call of a decorated function.  `s`, `body`: signature and body of the plain function. -/
def evalChain (s : Sig) (body : PDict → Res Val) : List (Cls × PDict) → Call → Res Val
  | [], c => applyFn s body c
  | (.tryValue, p) :: rest, c =>
      -- try_value.wrapped (_decorators.py:226-247): `repeat` failed attempts are swallowed, then with
      -- `return_value` the last attempt's exception is replaced by `copy(self.value)`, without it it propagates
      match evalChain s body rest c with
      | .ok v => .ok v
      | .error e =>
        if returnsValue p = false then .error e
        else .ok ((p.lookup "value").getD (.cell .none))
  | (.tryBack, _) :: rest, c =>
      match evalChain s body rest c with
      | .ok v => .ok v
      | .error _ => .ok (firstArg s c)
  | (.kwargsSupport, _) :: rest, c => evalChain s body rest (kwFilter s c)
  | (.cache, _) :: rest, c => evalChain s body rest c      -- first call on an empty cache
  | (.loops, _) :: rest, c => evalChain s body rest (loopsCall s c)      -- first argument is not a container
  | (.pd2np, p) :: rest, c => evalChain s body rest (pd2npCall (excOf p) c)      -- no pandas argument

end Pyg
