/-
  PygModel.Group — model of `dictable.listby / unlist / groupby / ungroup / xyz (pivot) / unpivot`
  (src/pyg_base/_dictable.py:904-915, 948-971, 973-1031, 1246-1348) on top of `_listby`
  (PygModel/Join.lean).  Result cells may be lists (listby), sub-tables (groupby: a `Val.dict` of
  column lists) or aggregated values (pivot), hence `VTable`.
  Core Lean only (linked into the driver).
-/
import PygModel.Join

namespace Pyg

/-- `type(self)(xs, by)`: the key columns of the groups (`zipper` transposition of the key tuples) -/
def keyColsOf (by_ : List String) (gs : List Grp) : VTable :=
  by_.zipIdx.map fun (c, j) => (c, gs.map fun g => tupleGet j g.1)

/-- the columns of `t` that are not keys -/
def Table.others (t : Table) (by_ : List String) : Table := t.filter fun c => !by_.contains c.1

/-- `[self[k][i] for i in y]` -/
def pick (xs : List Cell) (ids : List Nat) : List Val := ids.map fun i => .cell (xs.getD i .none)

/-- `d.listby(*by)` (lines 904-915).  No argument (`by_ = []`) means all columns; an explicitly
empty list (`d.listby([])`, `emptyList`) survives `as_tuple` as `()` and gives the one-row table
whose cells are the whole columns (line 911). -/
def Table.listby (t : Table) (by_ : List String) (emptyList : Bool := false) : Res VTable :=
  if t.nrows = 0 then .ok t.toV else
  if by_.isEmpty && emptyList then .ok (t.map fun c => (c.1, [.list (c.2.map .cell)])) else
  let by_ := if by_.isEmpty then t.cols else by_
  do
    let keys ← t.keysOf (by_.map .col)
    let gs := listbyG keys
    pure (keyColsOf by_ gs ++ (t.others by_).map fun c => (c.1, gs.map fun g => .list (pick c.2 g.2)))

/-! ### unlist -/

/-- `_value(v)`: a list cell is a column, anything else a one-element column -/
def cellList : Val → List Val
  | .list xs => xs
  | .tuple xs => xs
  | v => [v]

/-- `lens(*values)`: the common length other than 1 (`ValueError` if there are two different ones) -/
def glensOf (ns : List Nat) : Res Nat :=
  match ns.filter (· ≠ 1) with
  | [] => .ok (if ns.isEmpty then 0 else 1)
  | n :: rest => if rest.all (· == n) then .ok n else .error .value

/-- `dictable(row)` for one record: list cells expanded, scalars broadcast -/
def expandRow (row : List (String × Val)) : Res VTable := do
  let cols := row.map fun c => (c.1, cellList c.2)
  let n ← glensOf (cols.map (·.2.length))
  pure (cols.map fun c => (c.1, if c.2.length = 1 then List.replicate n (c.2.headD (.cell .none)) else c.2))

def VTable.nrows : VTable → Nat
  | [] => 0
  | (_, xs) :: _ => xs.length

def VTable.rowAt (t : VTable) (i : Nat) : List (String × Val) :=
  t.map fun c => (c.1, c.2.getD i (.cell .none))

/-- `dictable.concat` of tables over the same columns (all records of one table share their keys) -/
def concatV (cols : List String) (ts : List VTable) : VTable :=
  cols.map fun k => (k, ts.flatMap fun t => ((t.find? (·.1 == k)).map (·.2)).getD [])

/-- `d.unlist()` (line 971): `concat` of the expanded rows -/
def VTable.unlist (t : VTable) : Res VTable :=
  if t.nrows = 0 then .ok t else do
    let rows ← (List.range t.nrows).mapM fun i => expandRow (t.rowAt i)
    pure (concatV (t.map (·.1)) rows)

/-! ### groupby / ungroup -/

/-- a sub-table as a value -/
def subTable (t : Table) (ids : List Nat) : Val :=
  .dict (t.map fun c => (c.1, .list (pick c.2 ids)))

/-- `d.groupby(*by, grp = 'grp')` (lines 998-1010).  A `grp` that is one of the keys is rejected (`ValueError`, fix G1 of round h1: before
it `rtn[grp] = [sub-tables]` REPLACED the key column of that name and `ungroup` returned the table without it).  A `grp` that is the
name of another column is fine: that column lives inside the sub-tables. -/
def Table.groupby (t : Table) (by_ : List String) (grp : String) : Res VTable :=
  if t.nrows = 0 then .ok t.toV else
  let by_ := if by_.isEmpty then t.cols else by_
  if by_.length = 0 then .error .value
  else if by_.length = t.cols.length then .error .value
  else if by_.contains grp then .error .value
  else do
    let keys ← t.keysOf (by_.map .col)
    let gs := listbyG keys
    pure (keyColsOf by_ gs ++ [(grp, gs.map fun g => subTable (t.others by_) g.2)])

def subCols : Val → Option VTable
  | .dict kvs => kvs.mapM fun (k, v) => match v with
      | .list xs => some (k, xs)
      | _ => none
  | _ => none

/-- `row.pop(grp)(**row.do(lambda v: [v]))`: the sub-table with the row's other cells as constant
columns (`KeyError` if the row has no `grp`) -/
def ungroupRow (grp : String) (row : List (String × Val)) : Option (Res VTable) :=
  match row.find? (·.1 == grp) with
  | none => some (.error .key)
  | some (_, sub) => do
    let st ← subCols sub
    let n := VTable.nrows st
    let rest := row.filter (·.1 != grp)
    some (.ok (st.filter (fun c => !(rest.map (·.1)).contains c.1) ++
      rest.map fun c => (c.1, List.replicate n c.2)))

/-- `d.ungroup(grp)` (line 1031).  `none`: a `grp` cell that is not a table (not modelled). -/
def VTable.ungroup (t : VTable) (grp : String) : Option (Res VTable) := do
  let rows ← (List.range t.nrows).mapM fun i => ungroupRow grp (t.rowAt i)
  match rows.mapM id with
  | .error e => some (.error e)
  | .ok [] => some (.ok [])
  | .ok (r :: rs) => some (.ok (concatV (r.map (·.1)) (r :: rs)))

/-! ### pivot / unpivot -/

/-- the aggregator of `xyz`: the four the driver can spell, or ANY function of the list of z values (`fn`: "the supplied function" of the
statement; total — an aggregator that raises is not modelled) -/
inductive Agg where
  | none | len | first | last
  | fn (f : List Cell → Val)

def Agg.apply : Agg → List Cell → Val
  | .fn f, vs => f vs
  | .none, vs => .list (vs.map .cell)
  | .len, vs => .cell (.int vs.length)
  | .first, vs => .cell (vs.headD .none)
  | .last, vs => .cell (vs.getLastD .none)

/-- The column key a `y` value becomes (lines 1328, 353: `dictable(res, list(y2id.keys()))`, whose `__init__` renders int keys
through `str` and keeps every other key AS THE PYTHON OBJECT IT IS: a float, a datetime or `None` becomes a non-string key of
the dict).  Column names of the model are strings, so a non-string key `c` is REPRESENTED by the tagged name
`U+0000 ++ <wire atom of c>` (`"\x00F:6"` for `1.5`, `"\x00N"` for `None`; the harness encodes the implementation's column keys
the same way); a string is its own name (assumption: string cells do not start with U+0000) and an int `n` is the name
`str(n)` — so `1` and `'1'` get the SAME name.  NaN y values are ONE y value (`cmp`-equal, whatever the objects: fix G2 of round h1 looks the
column of an (x, y) group up by position, not through a dict keyed by the NaN object) whose column key is a NaN object: name `U+0000 F:nan`.
bools (`True == 1` as dict keys): not modelled. -/
def keyName : Cell → Option String
  | .str s => some s
  | .int n => some (toString n)
  | .none => some ("\x00" ++ Cell.none.render)
  | .flt q => some ("\x00" ++ (Cell.flt q).render)
  | .pinf => some ("\x00" ++ Cell.pinf.render)
  | .ninf => some ("\x00" ++ Cell.ninf.render)
  | .dt us => some ("\x00" ++ (Cell.dt us).render)
  | .nan => some ("\x00" ++ Cell.nan.render)
  | .bool _ => Option.none

/-- a `y` value rendered as a column label (`keyName` of a scalar; containers: not modelled) -/
def yLabel : Val → Option String
  | .cell c => keyName c
  | _ => Option.none

/-- the x part of an `(x.., y)` key tuple -/
def xPart (nx : Nat) : Val → Val
  | .tuple vs => .tuple (vs.take nx)
  | v => v

/-- `res[i][k]` for one x-group (`yids`: its `(x, y)` groups) and one label (`yk`: the label's key):
the aggregated z values of the `(x, y)` group whose y value is the label's, `None` if there is none
(lines 1295-1303; the last assignment wins) -/
def pivotCell (xyg : List Grp) (nx : Nat) (zs : List Cell) (agg : Agg) (yids : List Nat) (yk : Val) : Val :=
  match (yids.filter fun j => cmp (.tuple [tupleGet nx (xyg.getD j (.cell .none, [])).1]) yk == .eq).getLast? with
  | Option.none => .cell .none
  | some j => agg.apply (((xyg.getD j (.cell .none, [])).2).map fun i => zs.getD i .none)

/-- `d.xyz(x, y, z, agg)` (lines 1282-1307) for a table with at least one row, `x` column names,
`y` and `z` one column name each.  `none`: outside the modelled domain (no x column, a y value that is
a bool / container, an x column name repeated). -/
def Table.pivot (t : Table) (x : List String) (y z : String) (agg : Agg) : Option (Res VTable) :=
  if x.isEmpty then none else
  if t.nrows = 0 then
    -- a table without rows (fix G3 of round h1: `return self[list(x)]`; before it `TypeError: 'NoneType' object is not subscriptable`):
    -- the pivot table has the x columns and no row; only the x columns are looked up
    (if ¬ x.Nodup then none else
     if x.all fun k => (t.col? k).isSome then some (.ok (x.map fun k => (k, []))) else some (.error .key))
  else
  match t.keysOf ((x ++ [y]).map .col), t.col? z with
  | .error e, _ => some (.error e)
  | .ok _, Option.none => some (.error .key)
  | .ok xykeys, some zs =>
    let xyg := listbyG xykeys                       -- xys, ids
    let nx := x.length
    -- rs: one row per distinct (x.., y); its x-key and its y value
    let rsX : List Val := xyg.map fun g => xPart nx g.1
    let rsY : List Val := xyg.map fun g => tupleGet nx g.1
    let ys := listbyG (rsY.map fun v => .tuple [v])  -- distinct y values, sorted
    let xg := listbyG rsX                            -- xs, yids
    match ys.mapM fun g => yLabel (tupleGet 0 g.1) with
    | Option.none => none
    | some labels =>
      -- two y values with one label (`1` beside `'1'`) or a label that is an `x` column: the repaired code raises
      -- ValueError (fix g1; before it the later column silently replaced the earlier one / the x column)
      if ¬ x.Nodup then none else
      if ¬ (x ++ labels).Nodup then some (.error .value) else
      some (.ok (keyColsOf x xg ++
        (labels.zip ys).map fun (lab, yg) => (lab, xg.map fun g => pivotCell xyg nx zs agg g.2 yg.1)))

/-- `p.unpivot(x, y, z)` (lines 1337-1348) -/
def VTable.unpivot (p : VTable) (x : List String) (y z : String) : Res VTable :=
  let ycols := (p.map (·.1)).filter fun c => !x.contains c
  let n := p.nrows
  do
    let xs ← x.mapM fun k => match p.find? (·.1 == k) with
      | some c => .ok (k, (List.range n).flatMap fun i => List.replicate ycols.length (c.2.getD i (.cell .none)))
      | Option.none => .error .key
    pure (xs ++ [(y, (List.range n).flatMap fun _ => ycols.map fun c => Val.cell (.str c)),
                 (z, (List.range n).flatMap fun i => ycols.map fun c =>
                    (((p.find? (·.1 == c)).map (·.2)).getD []).getD i (.cell .none))])

end Pyg
