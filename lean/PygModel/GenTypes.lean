/-
  PygModel.GenTypes — the small vocabulary the *generated* definitions (lean/PygGen/*.lean, written by
  harness/pv/translate.py from the current text of src/pyg_base/_dates.py) are expressed in.
  Core Lean only.
-/

namespace Pyg.Gen

/-- `datetime.datetime(y, m, 1) + off * DAY` — what `_ymd` returns, before the calendar is consulted -/
structure MonthPlus where
  y : Int
  m : Int
  off : Int
  deriving Repr, DecidableEq, Inhabited

/-- which constructor a branch of `num2dt` calls (the fractional part `f` is added by the model) -/
inductive NumKind where
  /-- `today() + i * DAY` -/
  | todayPlus (days : Int)
  /-- `datetime.datetime(y, m, d)` -/
  | date (y m d : Int)
  /-- `datetime.datetime.fromordinal(n)` -/
  | fromOrdinal (n : Int)
  /-- `_ymd(y, m, d)` -/
  | viaYmd (y m d : Int)
  /-- `datetime.datetime.utcfromtimestamp(n)` -/
  | timestamp
  deriving Repr, DecidableEq, Inhabited

/-- what one period token `<n><unit>` of `dt_bump` does to `t` -/
inductive Step where
  /-- `t + DAY * k` -/
  | days (k : Int)
  /-- `t + datetime.timedelta(microseconds = k)` (hours / minutes / seconds are multiples) -/
  | micros (k : Int)
  /-- `_ymd(t.year + dy, t.month + dm, t.day)` -/
  | ymdShift (dy dm : Int)
  /-- the business-day block with `bdays = n` -/
  | bday (n : Int)
  deriving Repr, DecidableEq, Inhabited

/-- the Python class of `res = t.astype(datetime.datetime)` in `np2dt`: numpy gives a `datetime.datetime` for the units h..us, a
`datetime.date` for Y, M, W, D and a plain `int` for ns and finer (and for any value outside year 1..9999) -/
inductive NpRes where
  | datetime
  | date
  | int
  deriving Repr, DecidableEq, Inhabited

/-- `isinstance(res, datetime.datetime)` -/
def NpRes.isDatetime : NpRes → Bool
  | .datetime => true
  | _ => false

/-- `isinstance(res, datetime.date)`: `datetime.datetime` is a subclass of `datetime.date` -/
def NpRes.isDate : NpRes → Bool
  | .datetime => true
  | .date => true
  | .int => false

/-- `is_int(res)` -/
def NpRes.isInt : NpRes → Bool
  | .int => true
  | _ => false

/-- what a branch of `np2dt` returns -/
inductive NpAct where
  /-- `res` itself -/
  | same
  /-- `datetime.datetime(res.year, res.month, res.day)` -/
  | midnight
  /-- `pd.Timestamp(t)` of the datetime64 itself -/
  | pdTimestamp
  deriving Repr, DecidableEq, Inhabited

end Pyg.Gen
