/-
  line-protocol handler for the C16 models (ulist, dictattr key algebra, Dict.__call__).

  (c16 u.new (L e*))            -> handle = next index; reply: contents `(L e*)`
  (c16 u.copy h)  (c16 u.add h x)  (c16 u.and h x)  (c16 u.sub h x)     x = (L e*) list operand, else one element
  (c16 u.addh h g) (c16 u.andh h g) (c16 u.subh h g)                    right operand is the ulist g
  (c16 u.append h x) (c16 u.extend h (L e*)) (c16 u.iadd h (L e*)) (c16 u.insert h i x) (c16 u.setitem h i x) (c16 u.imul h n)
                                in place on handle h (no new handle); reply: the contents of h afterwards; i, n ≥ 0
  (c16 d.sub d k|(L k*)) (c16 d.and d k|(L k*)) (c16 d.getl d (L k*)) (c16 d.gett d (T k*)) (c16 d.get d k)
  (c16 d.add d (D ..)) (c16 d.relabel d (D (old S:new)*)) (c16 d.keys d)       d = (DC <cls> (hexkey v)*)
  (c16 call (D (k I:n)*) (K hexkey I:n | (F I:c hexarg*))*)             keyword order = list order
  dictattr histories over a second heap of handles (PygModel/DAHeap.lean); a new object gets the next index:
  (c16 h.new (DC cls (hexkey v)*)) (c16 h.copy h) (c16 h.sub h k|(L k*)) (c16 h.and h k|(L k*)) (c16 h.add h (D ..))
  (c16 h.addh h g) (c16 h.getl h (L k*)) (c16 h.relabel h (D (old S:new)*))          reply: the new object
  (c16 h.set h k v) (c16 h.setattr h k v) (c16 h.del h k) (c16 h.delattr h k)       in place; reply: the target afterwards
  (c16 h.get h k) (c16 h.getattr h k) (c16 h.gett h (T k*)) (c16 h.keys h)           reads
  (c16 h.dump)                                                                       reply: `(H d0 d1 …)`, the whole heap
  `d.add` / `h.add` / `h.addh` are class-aware (`DA.addC`): for class 1 (`Dict`) and 4 (a subclass of `Dict`) they are C15's `tree_update`.
  `d.sub d (T k*)` is the tuple-PATH form (`DA.subPath`); `d.get / d.gett / d.getl` resolve an absent dotted key part by part (`DA.getKeyD`).
  `h.getattr` of a name that is an attribute of the class replies `ok method`; `h.setattr` of a name starting with `_` leaves
  the mapping as it is (a private instance attribute, not tracked by the model).

  ulist elements are canonicalised (`int n` ↦ `flt 4n`, recursively) so that decidable equality of `Val`
  is python `==` on the generated elements (no bools, no NaN).
-/
import PygModel.USet
import PygModel.DictCall
import PygModel.DAHeap
import PygModel.DictAdd
import PygModel.DADotted

namespace Pyg.USetDriver
open Pyg

mutual
  def canonV : Val → Val
    | .cell (.int n) => .cell (.flt (4 * n))
    | .cell c => .cell c
    | .list xs => .list (canonL xs)
    | .tuple xs => .tuple (canonL xs)
    | .dict kvs => .dict (canonKV kvs)
  def canonL : List Val → List Val
    | [] => []
    | x :: xs => canonV x :: canonL xs
  def canonKV : List (String × Val) → List (String × Val)
    | [] => []
    | (k, v) :: kvs => (k, canonV v) :: canonKV kvs
end

abbrev St := List (List Val) × List (DA.D Val)
def init : St := ([], [])
def modelName : String := "c16"

def okList (xs : List Val) : String := "ok " ++ (Val.list xs).render

def elems (s : Sexp) : Option (List Val) := do
  match ← Val.ofSexp s with
  | .list xs => pure (xs.map canonV)
  | _ => Option.none

def push (s : St) (u : List Val) : Option (St × String) := some ((s.1 ++ [u], s.2), okList u)

/-- an in-place ulist operation on handle `h`: reply with the contents afterwards (`IndexError` if it raises) -/
def inplaceU (s : St) (h : Nat) (op : USet.Op Val) : Option (St × String) := do
  let u ← s.1[h]?
  match USet.inplace u op with
  | some _ =>
    let heap := USet.step s.1 op
    some ((heap, s.2), okList (← heap[h]?))
  | Option.none => some (s, "err IndexError")

def strOf : Sexp → Option String
  | .atom a => match Cell.parse a with
    | some (.str s) => some s
    | _ => Option.none
  | _ => Option.none

def strsOf : Sexp → Option (List String)
  | .node (.atom "L" :: xs) => xs.mapM strOf
  | .node (.atom "T" :: xs) => xs.mapM strOf
  | a => (strOf a).map fun s => [s]

def kvOf : Sexp → Option (String × Val)
  | .node [.atom k, v] => do pure (← hexDecode k, ← Val.ofSexp v)
  | _ => Option.none

def daOf : Sexp → Option (DA.D Val)
  | .node (.atom "DC" :: .atom n :: kvs) => do pure ⟨← n.toNat?, ← kvs.mapM kvOf⟩
  | .node (.atom "D" :: kvs) => do pure ⟨0, ← kvs.mapM kvOf⟩
  | _ => Option.none

def daRender (d : DA.D Val) : String :=
  s!"(DC {d.cls}" ++ String.join (d.items.map fun (k, v) => " (" ++ hexEncode k ++ " " ++ v.render ++ ")") ++ ")"

def resStr {α} (r : Res α) (f : α → String) : String :=
  match r with
  | .ok a => "ok " ++ f a
  | .error e => "err " ++ e.render

/-- `λ args: c + 1*a1 + 2*a2 + …` -/
def wsum (c : Int) (vs : List Int) : Int :=
  c + ((vs.zipIdx).map fun (v, i) => ((i : Int) + 1) * v).foldl (· + ·) 0

def kwOf : Sexp → Option (String × (Int ⊕ DictCall.Fn Int))
  | .node [.atom "K", .atom k, .atom v] => do
      match ← Cell.parse v with
      | .int n => pure (← hexDecode k, .inl n)
      | _ => Option.none
  | .node [.atom "K", .atom k, .node (.atom "F" :: .atom c :: args)] => do
      match ← Cell.parse c with
      | .int c =>
        let args ← args.mapM fun a => match a with
          | .atom a => hexDecode a
          | _ => Option.none
        pure (← hexDecode k, .inr ⟨args, wsum c⟩)
      | _ => Option.none
  | _ => Option.none

def intEnv : Sexp → Option (List (String × Int))
  | .node (.atom "D" :: kvs) => kvs.mapM fun kv => do
      match ← kvOf kv with
      | (k, .cell (.int n)) => pure (k, n)
      | _ => Option.none
  | _ => Option.none

/-- one operation of a dictattr history; every handle it mentions must exist (else `bad-op`) -/
def heapOp (s : St) (op : DAHeap.Op Val) (hs : List Nat) : Option (St × String) := do
  for h in hs do
    let _ ← s.2[h]?
  match DAHeap.step s.2 op with
  | .error e => some (s, "err " ++ e.render)
  | .ok (heap, out) =>
    let reply ← match out with
      | .obj _ d => some (daRender d)
      | .unit => do pure (daRender (← heap[← op.target]?))
      | .val v => some v.render
      | .method => some "method"
      | .vals vs => some (Val.list vs).render
      | .keys ks => some (Val.list (ks.map fun k => .cell (.str k))).render
    some ((s.1, heap), "ok " ++ reply)

def handle (s : St) (op : String) (args : List Sexp) : Option (St × String) := do
  let pure1 (r : String) : Option (St × String) := some (s, r)
  match op, args with
  | "u.new", [xs] => push s (USet.mk (← elems xs))
  | "u.copy", [h] => push s (USet.copy (← s.1[← h.toNat?]?))
  | "u.addh", [h, g] => push s (USet.addList (← s.1[← h.toNat?]?) (← s.1[← g.toNat?]?))
  | "u.andh", [h, g] => push s (USet.andList (← s.1[← h.toNat?]?) (← s.1[← g.toNat?]?))
  | "u.subh", [h, g] => push s (USet.subList (← s.1[← h.toNat?]?) (← s.1[← g.toNat?]?))
  | "u.add", [h, x] =>
      let u ← s.1[← h.toNat?]?
      match ← Val.ofSexp x with
      | .list xs => push s (USet.addList u (xs.map canonV))
      | e => push s (USet.addElem u (canonV e))
  | "u.and", [h, x] =>
      let u ← s.1[← h.toNat?]?
      match ← Val.ofSexp x with
      | .list xs => push s (USet.andList u (xs.map canonV))
      | e => push s (USet.andElem u (canonV e))
  | "u.sub", [h, x] =>
      let u ← s.1[← h.toNat?]?
      match ← Val.ofSexp x with
      | .list xs => push s (USet.subList u (xs.map canonV))
      | e => push s (USet.subElem u (canonV e))
  | "u.append", [h, x] => let h ← h.toNat?; inplaceU s h (.append h (canonV (← Val.ofSexp x)))
  | "u.extend", [h, xs] => let h ← h.toNat?; inplaceU s h (.extend h (← elems xs))
  | "u.iadd", [h, xs] => let h ← h.toNat?; inplaceU s h (.iadd h (← elems xs))
  -- python index normalisation: a negative index counts from the end; `insert` clamps, `u[i] = x` raises IndexError out of range
  | "u.insert", [h, i, x] =>
      let h ← h.toNat?; let n := (← s.1[h]?).length; let i ← i.toInt?
      let j : Nat := if i < 0 then (i + n).toNat else i.toNat
      inplaceU s h (.insert h j (canonV (← Val.ofSexp x)))
  | "u.setitem", [h, i, x] =>
      let h ← h.toNat?; let n := (← s.1[h]?).length; let i ← i.toInt?
      if i < 0 ∧ i + n < 0 then some (s, "err IndexError") else
      let j : Nat := if i < 0 then (i + n).toNat else i.toNat
      inplaceU s h (.setI h j (canonV (← Val.ofSexp x)))
  -- the public attribute names the model takes to be found on the class (`DAHeap.shadowed`), for the comparison with `dir(cls)`
  | "shadowed", [cls] =>
      let c ← cls.toNat?
      pure1 (okList (((DAHeap.dictNames ++ DAHeap.dictattrNames ++ DAHeap.dictNames1).filter (DAHeap.shadowed c)).map fun k => .cell (.str k)))
  | "u.imul", [h, n] => let h ← h.toNat?; inplaceU s h (.imul h (← n.toNat?))
  | "d.sub", [d, k] =>
      let d ← daOf d
      match k with
      | .node (.atom "L" :: xs) =>
          if xs.all (fun x => match x with | .atom _ => true | _ => false) then pure1 ("ok " ++ daRender (DA.subKeys d (← strsOf k)))
          else
            -- a list holding tuple paths beside keys: member by member on one copy (`DA.subMixed`)
            let ms ← xs.mapM fun x => match x with
              | .atom _ => (strOf x).map Sum.inl
              | .node (.atom "T" :: ps) => (ps.mapM strOf).map Sum.inr
              | _ => Option.none
            pure1 (resStr (DA.subMixed d ms) daRender)
      | .node (.atom "T" :: _) => pure1 (resStr (DA.subPath d (← strsOf k)) daRender)      -- a tuple is a PATH into nested mappings
      | _ => pure1 ("ok " ++ daRender (DA.subKey d (← strOf k)))
  | "d.and", [d, k] => pure1 ("ok " ++ daRender (DA.andKeys (← daOf d) (← strsOf k)))
  -- the stateless reads follow the code's dotted fallback for absent keys (`DA.getKeyD`); on dot-free keys they are `DA.getList/getTuple/getKey`
  | "d.getl", [d, k] => pure1 (resStr (DA.getListD (← daOf d) (← strsOf k)) daRender)
  | "d.gett", [d, k] => pure1 (resStr (DA.getTupleD (← daOf d) (← strsOf k)) fun vs => (Val.list vs).render)
  | "d.get", [d, k] => pure1 (resStr (DA.getKeyD (← daOf d) (← strOf k)) Val.render)
  | "d.add", [d, o] => pure1 (resStr (DA.addC (← daOf d) (← daOf o).items) daRender)
  | "d.relabel", [d, m] =>
      let m ← (← daOf m).items.mapM fun (k, v) => match v with
        | .cell (.str s) => some (k, s)
        | _ => Option.none
      pure1 ("ok " ++ daRender (DA.relabel (← daOf d) m))
  | "d.relabela", [d, arg, kw] =>
      -- `d.relabel(arg, **kw)`: arg = N | S:affix | (FN name) | (D (old S:new)*) | (L S:name*)
      let strMap : Sexp → Option (List (String × String)) := fun m => do
        (← daOf m).items.mapM fun (k, v) => match v with
          | .cell (.str s) => some (k, s)
          | _ => Option.none
      let a ← match arg with
        | .atom "N" => some DA.RelArg.none
        | .node [.atom "FN", .atom name] =>
            (match name with
             | "upper" => some (DA.RelArg.fn String.toUpper)
             | "dbl" => some (DA.RelArg.fn fun k => k ++ k)
             | "const" => some (DA.RelArg.fn fun _ => "z")
             | "first" => some (DA.RelArg.fn fun k => (k.take 1).toString)
             | "pre" => some (DA.RelArg.fn fun k => "q" ++ k)
             | _ => Option.none)
        | .node (.atom "D" :: _) => (strMap arg).map DA.RelArg.dict
        | .node (.atom "L" :: _) => (strsOf arg).map DA.RelArg.names
        | s => (strOf s).map DA.RelArg.affix
      pure1 ("ok " ++ daRender (DA.relabelA (← daOf d) a (← strMap kw)))
  | "d.keys", [d] => pure1 (okList ((DA.keys (← daOf d)).map fun k => .cell (.str k)))
  | "h.new", [d] => let d ← daOf d; heapOp s (.new d.cls d.items) []
  | "h.copy", [h] => let h ← h.toNat?; heapOp s (.copy h) [h]
  | "h.sub", [h, k] =>
      let h ← h.toNat?
      match k with
      | .node (.atom "L" :: _) => heapOp s (.subKs h (← strsOf k)) [h]
      | _ => heapOp s (.subK h (← strOf k)) [h]
  | "h.and", [h, k] => let h ← h.toNat?; heapOp s (.andKs h (← strsOf k)) [h]
  | "h.add", [h, o] => let h ← h.toNat?; heapOp s (.add h (← daOf o).items) [h]
  | "h.addh", [h, g] => let h ← h.toNat?; let g ← g.toNat?; heapOp s (.addH h g) [h, g]
  | "h.getl", [h, k] => let h ← h.toNat?; heapOp s (.getL h (← strsOf k)) [h]
  | "h.relabel", [h, m] =>
      let h ← h.toNat?
      let m ← (← daOf m).items.mapM fun (k, v) => match v with
        | .cell (.str s) => some (k, s)
        | _ => Option.none
      heapOp s (.relabel h m) [h]
  | "h.set", [h, k, v] => let h ← h.toNat?; heapOp s (.setItem h (← strOf k) (← Val.ofSexp v)) [h]
  | "h.setattr", [h, k, v] => let h ← h.toNat?; heapOp s (.setAttr h (← strOf k) (← Val.ofSexp v)) [h]
  | "h.del", [h, k] => let h ← h.toNat?; heapOp s (.delItem h (← strOf k)) [h]
  | "h.delattr", [h, k] => let h ← h.toNat?; heapOp s (.delAttr h (← strOf k)) [h]
  | "h.get", [h, k] => let h ← h.toNat?; heapOp s (.getItem h (← strOf k)) [h]
  | "h.getattr", [h, k] => let h ← h.toNat?; heapOp s (.getAttr h (← strOf k)) [h]
  | "h.gett", [h, k] => let h ← h.toNat?; heapOp s (.getT h (← strsOf k)) [h]
  | "h.keys", [h] => let h ← h.toNat?; heapOp s (.keys h) [h]
  | "h.dump", [] => pure1 ("ok (H" ++ String.join (s.2.map fun d => " " ++ daRender d) ++ ")")
  | "call", d :: kws =>
      let d ← intEnv d
      let kws ← kws.mapM kwOf
      let consts := kws.filterMap fun (k, v) => match v with | .inl n => some (k, n) | .inr _ => Option.none
      let cs := kws.filterMap fun (k, v) => match v with | .inr f => some (k, f) | .inl _ => Option.none
      pure1 (resStr (DictCall.call d consts cs) fun env =>
        (Val.dict (env.map fun (k, n) => (k, .cell (.int n)))).render)
  | _, _ => Option.none

end Pyg.USetDriver
