/-
  PygModel.TreeHeap — the heap model of `items_to_tree` / `tree_update` (src/pyg_base/_dict.py): the one
  place where C15 is *about* aliasing ("neither t nor u is modified at any depth").

  Dict nodes live in a heap (`Heap := List Node`, the address is the position); a node maps keys to
  references (`Ref := val v | ptr n`): a leaf object (immutable for the tree functions; aliasing of
  leaf objects is not modelled) or the address of another dict node.  Every item assignment
  `d[k] = r` is `store` (it also logs the address of the node written); `copy(d)` / `base()` are
  `alloc`.  Mirrors, statement by statement:
    `_tree_copy`     :211-217   `copyH` / `copyKids`   (repaired code, fix 0ee7c0c)
    `_tree_setitem`  :220-231   `setItemH`
    `tree_items`     :334-377   `itemsH`
    `items_to_tree`  :425-497   `itemsToTreeH` (and `itemsToTreeShallow`: the code before the fix, `copy(tree)`)
    `tree_update`    :499-545   `treeUpdateH`
  Walks over the heap take a fuel (python: the recursion limit); running out of fuel or following a
  dangling address is `Err.other`.  The pure model is `PygModel.Tree`; the abstraction theorems are in
  `PygProofs/Lemmas/TreeHeapLemmas.lean`.
-/
import PygModel.Tree

namespace Pyg.TreeHeap
open Pyg Pyg.DA Pyg.Tree

inductive Ref where
  | val (v : Val)
  | ptr (n : Nat)
  deriving Repr, DecidableEq, Inhabited

abbrev Node := List (String × Ref)
abbrev Heap := List Node

/-- the heap and the trace of writes: addresses of the nodes assigned into, most recent first -/
structure Mem where
  heap : Heap
  log : List Nat
  deriving Repr, DecidableEq

/-- the items of the node at address `a` (a dangling address reads as an empty node) -/
def node (m : Mem) (a : Nat) : Node := (m.heap[a]?).getD []

/-- a new dict object holding `nd` (`base()`, `copy(d)`) -/
def alloc (m : Mem) (nd : Node) : Mem × Nat := ({ m with heap := m.heap ++ [nd] }, m.heap.length)

/-- `d[k] = r` on the dict at address `a` -/
def store (m : Mem) (a : Nat) (k : String) (r : Ref) : Mem :=
  { heap := m.heap.modify a (DA.set k r), log := a :: m.log }

/-- the loop of `_tree_copy` over the items of the fresh copy `c`:
`for key, value in res.items(): if isinstance(value, types): res[key] = _tree_copy(value, types)` -/
def copyKids (cp : Mem → Nat → Res (Mem × Nat)) (c : Nat) : Mem → Node → Res Mem
  | m, [] => .ok m
  | m, (_, .val _) :: nd => copyKids cp c m nd
  | m, (k, .ptr b) :: nd =>
    match cp m b with
    | .error e => .error e
    | .ok (m1, cb) => copyKids cp c (store m1 c k (.ptr cb)) nd

/-- `_tree_copy(tree, types)`: `res = copy(tree)`, then the branches below are replaced by copies -/
def copyH : Nat → Mem → Nat → Res (Mem × Nat)
  | 0, _, _ => .error Err.other
  | f + 1, m, a =>
    match m.heap[a]? with
    | none => .error Err.other
    | some nd =>
      match copyKids (copyH f) m.heap.length (alloc m nd).1 nd with
      | .error e => .error e
      | .ok m' => .ok (m', m.heap.length)

/-- `_tree_setitem(tree, path + (v,), base, ignore, types)` on the dict at address `a` -/
def setItemH (m : Mem) (a : Nat) (path : Path) (v : Val) (ig : List Val) : Mem :=
  match path with
  | [] => m
  | [k] => if (lookup k (node m a)).isSome && ig.contains v then m else store m a k (.val v)
  | k :: rest =>
    match lookup k (node m a) with
    | some (.ptr b) => setItemH m b rest v ig                       -- res = res[key]
    | _ =>                                                           -- res[key] = base(); res = res[key]
      setItemH (store (alloc m []).1 a k (.ptr m.heap.length)) m.heap.length rest v ig

def itemsN (rec : Ref → Res (List (Path × Val))) : Node → Res (List (Path × Val))
  | [] => .ok []
  | (k, r) :: nd =>
    match rec r, itemsN rec nd with
    | .ok a, .ok b => .ok (a.map (fun pv => (k :: pv.1, pv.2)) ++ b)
    | .error e, _ => .error e
    | _, .error e => .error e

/-- `tree_items` reading the heap -/
def itemsH (H : Heap) : Nat → Ref → Res (List (Path × Val))
  | _, .val v => .ok [([], v)]
  | 0, .ptr _ => .error Err.other
  | f + 1, .ptr a =>
    match H[a]? with
    | none => .error Err.other
    | some nd => itemsN (itemsH H f) nd

/-- the loop `for item in items: _tree_setitem(tree, item, ...)` on the dict at `c` -/
def setItemsH (m : Mem) (c : Nat) (its : List (Path × Val)) (ig : List Val) : Mem :=
  its.foldl (fun acc pv => setItemH acc c pv.1 pv.2 ig) m

/-- `items_to_tree(items, tree, ignore = ig)` for the tree at address `t` (repaired code): the
result is the address of the new tree -/
def itemsToTreeH (f : Nat) (m : Mem) (its : List (Path × Val)) (t : Nat) (ig : List Val) : Res (Mem × Nat) :=
  if ¬ (its.map (·.1)).Nodup then .error Err.value
  else if its.any (·.1.isEmpty) then .error Err.value
  else match copyH f m t with
    | .error e => .error e
    | .ok (m1, c) => .ok (setItemsH m1 c its ig, c)

/-- the code before fix 0ee7c0c: `tree = copy(tree)` (one level only) -/
def itemsToTreeShallow (m : Mem) (its : List (Path × Val)) (t : Nat) (ig : List Val) : Res (Mem × Nat) :=
  if ¬ (its.map (·.1)).Nodup then .error Err.value
  else if its.any (·.1.isEmpty) then .error Err.value
  else .ok (setItemsH (alloc m (node m t)).1 m.heap.length its ig, m.heap.length)

/-- `tree_update(tree, update, ignore = ig)` for the dicts at addresses `t` and `u` -/
def treeUpdateH (f : Nat) (m : Mem) (t u : Nat) (ig : List Val) : Res (Mem × Nat) :=
  match itemsH m.heap f (.ptr u) with
  | .error e => .error e
  | .ok its => itemsToTreeH f m its t ig

def treeUpdateShallow (f : Nat) (m : Mem) (t u : Nat) (ig : List Val) : Res (Mem × Nat) :=
  match itemsH m.heap f (.ptr u) with
  | .error e => .error e
  | .ok its => itemsToTreeShallow m its t ig

/-- `table_to_tree(tree, pattern, rows, base = type(tree))` for the tree at address `t` and the items `its` its rows bind
(`_table_to_tree.py:31-38`, repaired code, fix `5c393c7`: `_tree_copy(tree)`, then one `_tree_setitem` per row; no duplicate check, no
ignore list).  `ValueError` for an item without a key ('node item too short'; the code raises it in the middle of the loop, after
writes into the COPY only). -/
def tableToTreeH (f : Nat) (m : Mem) (its : List (Path × Val)) (t : Nat) : Res (Mem × Nat) :=
  if its.any (·.1.isEmpty) then .error Err.value
  else match copyH f m t with
    | .error e => .error e
    | .ok (m1, c) => .ok (setItemsH m1 c its [], c)

/-- the code before that fix: `tree = copy(tree)`, one level only -/
def tableToTreeShallow (m : Mem) (its : List (Path × Val)) (t : Nat) : Res (Mem × Nat) :=
  if its.any (·.1.isEmpty) then .error Err.value
  else .ok (setItemsH (alloc m (node m t)).1 m.heap.length its [], m.heap.length)

/-- read the tree below a reference back (the abstraction function, executable) -/
def readN (rec : Ref → Option Val) : Node → Option (List (String × Val))
  | [] => some []
  | (k, r) :: nd =>
    match rec r, readN rec nd with
    | some v, some kvs => some ((k, v) :: kvs)
    | _, _ => none

def readH (H : Heap) : Nat → Ref → Option Val
  | _, .val v => some v
  | 0, .ptr _ => none
  | f + 1, .ptr a =>
    match H[a]? with
    | none => none
    | some nd => (readN (readH H f) nd).map .dict

mutual
  /-- lay a pure tree out in the heap (children first, then the node); used by the driver and the examples -/
  def allocTree (m : Mem) : Val → Mem × Ref
    | .dict kvs =>
      let (m1, nd) := allocKVs m kvs
      ({ m1 with heap := m1.heap ++ [nd] }, .ptr m1.heap.length)
    | v => (m, .val v)
  def allocKVs (m : Mem) : List (String × Val) → Mem × Node
    | [] => (m, [])
    | (k, v) :: kvs =>
      let (m1, r) := allocTree m v
      let (m2, nd) := allocKVs m1 kvs
      (m2, (k, r) :: nd)
end

end Pyg.TreeHeap
