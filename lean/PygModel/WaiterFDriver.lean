/- line-protocol handler for the WaiterF model (C19, model extension: failing awaitables) -/
import PygModel.WaiterF
import PygModel.WaiterDriver

namespace Pyg.WaiterFDriver
open Pyg

abbrev St := Unit
def init : St := ()
def modelName : String := "waiterf"

/-- an event `(T I:id (T B:1 result))` = the awaitable returns, `(T I:id (T B:0 I:e))` = it raises exception number `e` -/
def eventOf : Val → Option (Nat × Outcome)
  | .tuple [.cell (.int i), .tuple [.cell (.bool true), v]] => some (i.toNat, .ok v)
  | .tuple [.cell (.int i), .tuple [.cell (.bool false), .cell (.int e)]] => some (i.toNat, .error e.toNat)
  | _ => Option.none

/-- `(waiterf events <structure> (L event*))`: reply `(T S:ok result)`, `(T S:raised I:e)` or `(T S:pending N)` -/
def handle1 (op : String) (args : List Sexp) : Option String := do
  match op, args with
  | "events", [w, evs] =>
      let w ← WaiterDriver.wOf w
      match ← Val.ofSexp evs with
      | .list evs =>
          let evs ← evs.mapM eventOf
          match (runEventsF w evs).outcome with
          | some (.ok v) => pure ("ok " ++ (Val.tuple [.cell (.str "ok"), v]).render)
          | some (.error e) => pure ("ok " ++ (Val.tuple [.cell (.str "raised"), .cell (.int e)]).render)
          | Option.none => pure ("ok " ++ (Val.tuple [.cell (.str "pending"), .cell .none]).render)
      | _ => Option.none
  | _, _ => Option.none

def handle (s : St) (op : String) (args : List Sexp) : Option (St × String) :=
  (handle1 op args).map fun r => (s, r)

end Pyg.WaiterFDriver
