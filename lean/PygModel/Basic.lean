/-
  PygModel.Basic — shared vocabulary of all models (DESIGN §4) and the line protocol (§3.2).
  Core Lean only: this file is linked into the `pygdriver` executable.
-/

namespace Pyg

/-- Scalar cells.  A finite float is the dyadic rational `q/4` (`flt q`), so `int 1` and
`flt 4` are numerically equal, as `1 == 1.0` in Python.  `dt us` is microseconds since
0001-01-01 (a date is a `dt` at midnight).  Object identity is deliberately absent. -/
inductive Cell where
  | none
  | bool (b : Bool)
  | int (n : Int)
  | flt (q : Int)
  | nan
  | pinf
  | ninf
  | str (s : String)
  | dt (us : Int)
  deriving Repr, DecidableEq, Inhabited

/-- Nested values: lists, tuples and string-keyed dicts (insertion order kept). -/
inductive Val where
  | cell (c : Cell)
  | list (xs : List Val)
  | tuple (xs : List Val)
  | dict (kvs : List (String × Val))
  deriving Repr, Inhabited

mutual
  def Val.decEq : (a b : Val) → Decidable (a = b)
    | .cell a, .cell b =>
      if h : a = b then isTrue (by rw [h]) else isFalse (by intro h'; cases h'; exact h rfl)
    | .list a, .list b =>
      match Val.decEqList a b with
      | isTrue h => isTrue (by rw [h])
      | isFalse h => isFalse (by intro h'; cases h'; exact h rfl)
    | .tuple a, .tuple b =>
      match Val.decEqList a b with
      | isTrue h => isTrue (by rw [h])
      | isFalse h => isFalse (by intro h'; cases h'; exact h rfl)
    | .dict a, .dict b =>
      match Val.decEqKVs a b with
      | isTrue h => isTrue (by rw [h])
      | isFalse h => isFalse (by intro h'; cases h'; exact h rfl)
    | .cell _, .list _ | .cell _, .tuple _ | .cell _, .dict _
    | .list _, .cell _ | .list _, .tuple _ | .list _, .dict _
    | .tuple _, .cell _ | .tuple _, .list _ | .tuple _, .dict _
    | .dict _, .cell _ | .dict _, .list _ | .dict _, .tuple _ => isFalse (by intro h; cases h)
  def Val.decEqList : (a b : List Val) → Decidable (a = b)
    | [], [] => isTrue rfl
    | [], _ :: _ | _ :: _, [] => isFalse (by intro h; cases h)
    | x :: xs, y :: ys =>
      match Val.decEq x y, Val.decEqList xs ys with
      | isTrue h1, isTrue h2 => isTrue (by rw [h1, h2])
      | isFalse h1, _ => isFalse (by intro h; cases h; exact h1 rfl)
      | _, isFalse h2 => isFalse (by intro h; cases h; exact h2 rfl)
  def Val.decEqKVs : (a b : List (String × Val)) → Decidable (a = b)
    | [], [] => isTrue rfl
    | [], _ :: _ | _ :: _, [] => isFalse (by intro h; cases h)
    | (k, x) :: xs, (l, y) :: ys =>
      if hk : k = l then
        match Val.decEq x y, Val.decEqKVs xs ys with
        | isTrue h1, isTrue h2 => isTrue (by rw [hk, h1, h2])
        | isFalse h1, _ => isFalse (by intro h; cases h; exact h1 rfl)
        | _, isFalse h2 => isFalse (by intro h; cases h; exact h2 rfl)
      else isFalse (by intro h; cases h; exact hk rfl)
end

instance : DecidableEq Val := Val.decEq

/-! ### S-expressions: the wire format -/

inductive Sexp where
  | atom (s : String)
  | node (xs : List Sexp)
  deriving Repr, Inhabited

namespace Sexp

partial def render : Sexp → String
  | atom s => s
  | node xs => "(" ++ " ".intercalate (xs.map render) ++ ")"

/-- tokenizer: parentheses are their own tokens; everything else is split on blanks -/
def tokens (s : String) : List String :=
  let rec go (cs : List Char) (cur : List Char) (acc : List String) : List String :=
    let flush (cur : List Char) (acc : List String) :=
      if cur.isEmpty then acc else String.ofList cur.reverse :: acc
    match cs with
    | [] => (flush cur acc).reverse
    | c :: rest =>
      if c = '(' || c = ')' then go rest [] (String.singleton c :: flush cur acc)
      else if c = ' ' || c = '\n' || c = '\r' || c = '\t' then go rest [] (flush cur acc)
      else go rest (c :: cur) acc
  go s.toList [] []

/-- parse a token stream; a stack of partially built nodes -/
def parseTokens (ts : List String) : Option Sexp :=
  let rec go (ts : List String) (stack : List (List Sexp)) (fuel : Nat) : Option Sexp :=
    match fuel with
    | 0 => Option.none
    | fuel + 1 =>
      match ts, stack with
      | [], [[x]] => some x
      | [], _ => Option.none
      | "(" :: rest, _ => go rest ([] :: stack) fuel
      | ")" :: rest, top :: under :: stack' =>
          go rest ((node top.reverse :: under) :: stack') fuel
      | ")" :: _, _ => Option.none
      | t :: rest, top :: stack' => go rest ((atom t :: top) :: stack') fuel
      | _ :: _, [] => Option.none
  go ts [[]] (ts.length + 1)

def parse (s : String) : Option Sexp := parseTokens (tokens s)

end Sexp

/-! ### hex strings -/

def hexDigit (n : Nat) : Char :=
  if n < 10 then Char.ofNat (48 + n) else Char.ofNat (87 + n)

def hexVal (c : Char) : Option Nat :=
  if '0' ≤ c ∧ c ≤ '9' then some (c.toNat - 48)
  else if 'a' ≤ c ∧ c ≤ 'f' then some (c.toNat - 87)
  else Option.none

def hexEncode (s : String) : String :=
  String.ofList (s.toUTF8.toList.flatMap fun b => [hexDigit (b.toNat / 16), hexDigit (b.toNat % 16)])

def hexDecode (s : String) : Option String :=
  let rec go (cs : List Char) (acc : ByteArray) : Option ByteArray :=
    match cs with
    | [] => some acc
    | a :: b :: rest =>
      match hexVal a, hexVal b with
      | some x, some y => go rest (acc.push (UInt8.ofNat (16 * x + y)))
      | _, _ => Option.none
    | _ => Option.none
  match go s.toList ByteArray.empty with
  | some bs => String.fromUTF8? bs
  | Option.none => Option.none

/-! ### cells and values on the wire -/

def Cell.render : Cell → String
  | .none => "N"
  | .bool b => if b then "B:1" else "B:0"
  | .int n => s!"I:{n}"
  | .flt q => s!"F:{q}"
  | .nan => "F:nan"
  | .pinf => "F:inf"
  | .ninf => "F:-inf"
  | .str s => "S:" ++ hexEncode s
  | .dt us => s!"T:{us}"

/-- wire atom → cell.  The `N`-prefixed spellings (`NB:`, `NI:`, `NF:` — numpy scalars) and `DT:`
(a `datetime.date`) and `XF:nan` (a NaN held by a `np.float64` scalar) denote the same cells as their plain forms: `as_primitive` normalises them. -/
def Cell.parse (s : String) : Option Cell :=
  let s := if s.startsWith "NB:" || s.startsWith "NI:" || s.startsWith "NF:" || s.startsWith "XF:" then (s.drop 1).toString
           else if s.startsWith "DT:" then (s.drop 1).toString else s
  if s = "N" then some .none
  else if s = "B:1" then some (.bool true)
  else if s = "B:0" then some (.bool false)
  else if s = "F:nan" then some .nan
  else if s = "F:inf" then some .pinf
  else if s = "F:-inf" then some .ninf
  else if s.startsWith "I:" then (s.drop 2).toString.toInt?.map .int
  else if s.startsWith "F:" then (s.drop 2).toString.toInt?.map .flt
  else if s.startsWith "T:" then (s.drop 2).toString.toInt?.map .dt
  else if s.startsWith "S:" then (hexDecode (s.drop 2).toString).map .str
  else Option.none

mutual
  partial def Val.toSexp : Val → Sexp
    | .cell c => .atom c.render
    | .list xs => .node (.atom "L" :: xs.map Val.toSexp)
    | .tuple xs => .node (.atom "T" :: xs.map Val.toSexp)
    | .dict kvs => .node (.atom "D" :: kvs.map fun (k, v) => .node [.atom (hexEncode k), v.toSexp])
end

def Val.render (v : Val) : String := v.toSexp.render

partial def Val.ofSexp : Sexp → Option Val
  | Sexp.atom s => (Cell.parse s).map .cell
  | Sexp.node (Sexp.atom "L" :: xs) => (xs.mapM Val.ofSexp).map .list
  | Sexp.node (Sexp.atom "T" :: xs) => (xs.mapM Val.ofSexp).map .tuple
  | Sexp.node (Sexp.atom "D" :: kvs) =>
      (kvs.mapM fun kv => match kv with
        | Sexp.node [Sexp.atom k, v] => do
            let k ← hexDecode k
            let v ← Val.ofSexp v
            pure (k, v)
        | _ => Option.none).map .dict
  | _ => Option.none

/-- error kinds of the reply enum -/
inductive Err where
  | value | key | index | type | other
  deriving Repr, DecidableEq, Inhabited

def Err.render : Err → String
  | .value => "ValueError" | .key => "KeyError" | .index => "IndexError"
  | .type => "TypeError" | .other => "Other"

abbrev Res (α : Type) := Except Err α

def Sexp.toInt? : Sexp → Option Int
  | .atom s => s.toInt?
  | _ => Option.none

def Sexp.toNat? : Sexp → Option Nat
  | .atom s => s.toNat?
  | _ => Option.none

def ordInt : Ordering → Int
  | .lt => -1 | .eq => 0 | .gt => 1

end Pyg
