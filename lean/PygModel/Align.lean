/-
  PygModel.Align — model of `df_index`, `df_reindex`, `df_recolumn`, `df_sync` and the alignment half of
  `presync.wrapped` (C03).
  Anchors: src/pyg_base/_pandas.py:65-77 `_list`, 103-131 `_df_index` / `_np_index`, 134-167 `df_index`,
  170-203 `df_columns`, 373-404 `_df_reindex`, 407-415 `_df_recolumn`, 458-502 `df_reindex`, 773-845 `df_sync`,
  1018-1032 `presync.wrapped`; src/pyg_base/_loop.py:206-240 `loops._wrapped` (structure-preserving recursion).

  pandas is *defined* here, i.e. assumed (sampled by the correspondence check): `Index.intersection` /
  `Index.union` of sorted indices are the sorted set operations, `reindex(index)` is a lookup, `reindex(index,
  method='ffill'|'bfill')` of a NaN-free sorted object is the as-of / next-observation lookup.
-/
import PygModel.Fill

namespace Pyg.Align
open Pyg Pyg.Fill

/-! ### joint index -/

inductive How where
  | inner | outer | left | right
  deriving Repr, DecidableEq, Inhabited

/-- `Index.intersection` (keeps the order of the left operand) -/
def inter (a b : List Int) : List Int := a.filter fun t => b.contains t

/-- insert into a strictly increasing list -/
def ins (t : Int) : List Int → List Int
  | [] => [t]
  | x :: xs => if t < x then t :: x :: xs else if t = x then x :: xs else x :: ins t xs

/-- `Index.union` of sorted indices -/
def union (a b : List Int) : List Int := b.foldl (fun acc t => ins t acc) a

/-- `_df_index(indexes, how)`, lines 103-117: `reducing('intersection')`, `reducing('union')`, first, last -/
def joinIndex (how : How) : List (List Int) → Option (List Int)
  | [] => Option.none
  | ix :: ixs =>
    match how with
    | .inner => some (ixs.foldl inter ix)
    | .outer => some (ixs.foldl union ix)
    | .left => some ix
    | .right => some ((ix :: ixs).getLastD ix)

/-- `_np_index(lengths, how)`, lines 120-131 -/
def joinLen (how : How) : List Nat → Option Nat
  | [] => Option.none
  | n :: ns =>
    match how with
    | .inner => some (ns.foldl min n)
    | .outer => some (ns.foldl max n)
    | .left => some n
    | .right => some ((n :: ns).getLastD n)

/-! ### values and containers -/

inductive Leaf where
  | ts (series : Bool) (f : Frame)   -- `pd.Series` (one column) / `pd.DataFrame`
  | arr (xs : Col)                   -- 1-d numpy array
  | other (v : Val)                  -- anything else: passes through
  deriving Repr, Inhabited

inductive Tag where
  | list | tuple | dict
  deriving Repr, DecidableEq, Inhabited

/-- possibly nested list / tuple / dict (list and tuple children carry the key "") -/
inductive Tree where
  | leaf (l : Leaf)
  | node (tag : Tag) (kids : List (String × Tree))
  deriving Repr, Inhabited

mutual
  /-- `_list(values)`, lines 65-77: lists and dicts are flattened depth first; a tuple is NOT descended into
  (and is no pandas object, so it contributes nothing to the joint index) -/
  def Tree.flat : Tree → List Leaf
    | .leaf l => [l]
    | .node .tuple _ => []
    | .node _ kids => flatKids kids
  def flatKids : List (String × Tree) → List Leaf
    | [] => []
    | (_, t) :: r => t.flat ++ flatKids r
end

/-- `df_sync` / `presync` start from `list(dfs)` / `list(dfs.values())`: the top-level container is opened whatever its type -/
def Tree.flatTop : Tree → List Leaf
  | .leaf l => [l]
  | .node _ kids => flatKids kids

/-- the joint index: a pandas index, an array length, or nothing (lines 159-167) -/
inductive Index where
  | times (ix : List Int)
  | len (n : Nat)
  | none
  deriving Repr, DecidableEq, Inhabited

def tsIndexes (ls : List Leaf) : List (List Int) :=
  ls.filterMap fun l => match l with | .ts _ f => some f.idx | _ => Option.none

def arrLens (ls : List Leaf) : List Nat :=
  ls.filterMap fun l => match l with | .arr xs => some xs.length | _ => Option.none

/-- `df_index(seq, how)` on the flattened members -/
def dfIndex (how : How) (ls : List Leaf) : Index :=
  match joinIndex how (tsIndexes ls) with
  | some ix => .times ix
  | Option.none =>
    match joinLen how (arrLens ls) with
    | some n => .len n
    | Option.none => .none

/-! ### reindexing one object -/

inductive Dir where
  | ffill | bfill
  deriving Repr, DecidableEq, Inhabited

/-- position of label `t` in an index -/
def posOf (idx : List Int) (t : Int) : Option Nat := idx.findIdx? (· == t)

/-- position of the last label `≤ t` of a sorted index (`reindex(method='ffill')`) -/
def posAsOf : List Int → Int → Option Nat
  | [], _ => Option.none
  | x :: xs, t =>
    if x ≤ t then
      match posAsOf xs t with
      | some p => some (p + 1)
      | Option.none => some 0
    else Option.none

/-- position of the first label `≥ t` of a sorted index (`reindex(method='bfill')`) -/
def posNext : List Int → Int → Option Nat
  | [], _ => Option.none
  | x :: xs, t => if t ≤ x then some 0 else (posNext xs t).map (· + 1)

/-- rows picked by optional position: a missing position gives an all-NaN row -/
def gatherOpt (idx : List Int) (pos : List (Option Nat)) (f : Frame) : Frame :=
  { idx := idx,
    cols := f.cols.map fun c => (c.1, pos.map fun p => p.bind fun i => (c.2[i]?).join) }

/-- `_nona(col)` of ONE column: its non-NaN observations (label, value), in order -/
def obs : List Int → Col → List (Int × Int)
  | t :: ts, some v :: vs => (t, v) :: obs ts vs
  | _ :: ts, Option.none :: vs => obs ts vs
  | _, _ => []

/-- `_nona(col).reindex(idx, method)`: every requested label takes the observation at the last label `≤ t`
(`ffill`) / the first label `≥ t` (`bfill`) of the NaN-free column, NaN when there is none -/
def asofPos (d : Dir) (lab : List Int) (t : Int) : Option Nat :=
  match d with
  | .ffill => posAsOf lab t
  | .bfill => posNext lab t

def asofCol (d : Dir) (fidx : List Int) (c : Col) (idx : List Int) : Col :=
  let o : List (Int × Int) := obs fidx c
  idx.map fun t => (asofPos d (o.map Prod.fst) t).bind fun (i : Nat) => (o[i]?).map Prod.snd

/-- `_df_reindex` on a pandas object, lines 379-387 (`limit=None`):
  with a fill method  `_nona(ts).reindex(index, method)` for a Series / one-column frame and (repaired, C03-A2)
                      column by column for a DataFrame with several columns, `pd.concat(axis=1)` of the results:
                      each column is joined as-of on ITS OWN non-NaN observations;
  otherwise           `ts.reindex(index)` -/
def reindexFrame (f : Frame) (idx : List Int) (m : Option Dir) : Frame :=
  match m with
  | Option.none => gatherOpt idx (idx.map (posOf f.idx)) f
  | some d => { idx := idx, cols := f.cols.map fun c => (c.1, asofCol d f.idx c.2 idx) }

/-- numpy end alignment, lines 392-399 (repaired: `ts[len(ts)-index:]`): keep the last `n` entries, or pad
`n - len` NaNs in front -/
def alignArr (n : Nat) (xs : Col) : Col :=
  if n < xs.length then xs.drop (xs.length - n)
  else List.replicate (n - xs.length) Option.none ++ xs

def fillMethods : Option Dir → List Method
  | Option.none => []
  | some .ffill => [.ffill]
  | some .bfill => [.bfill]

/-- `_df_reindex(ts, index, method)` on one member, lines 374-404 -/
def reindexLeaf (ix : Index) (m : Option Dir) : Leaf → Res Leaf
  | .ts s f =>
    match ix with
    | .times idx => .ok (.ts s (reindexFrame f idx m))
    | .len _ => .error .value          -- "trying to reindex dataframe using numpy interval length"
    | .none => .ok (.ts s f)
  | .arr xs =>
    match ix with
    | .times idx => if idx.length = xs.length ∨ xs.length ≤ 1 then .ok (.arr xs) else .error .value
    | .len n =>
      match fillnaArr (fillMethods m) Option.none [alignArr n xs] with
      | .ok [c] => .ok (.arr c)
      | .ok _ => .error .other
      | .error e => .error e
    | .none => .ok (.arr xs)
  | .other v => .ok (.other v)

mutual
  /-- `@loop(list, tuple, dict)`: the same function on every member, container types, keys and order kept -/
  def Tree.mapM (g : Leaf → Res Leaf) : Tree → Res Tree
    | .leaf l => (g l).map .leaf
    | .node tag kids => (mapKidsM g kids).map (.node tag)
  def mapKidsM (g : Leaf → Res Leaf) : List (String × Tree) → Res (List (String × Tree))
    | [] => .ok []
    | (k, t) :: r =>
      match t.mapM g with
      | .error e => .error e
      | .ok t' =>
        match mapKidsM g r with
        | .error e => .error e
        | .ok r' => .ok ((k, t') :: r')
end

/-- `df_reindex(ts, index, method)` with an index already determined (`index is None` returns the input) -/
def reindexTree (ix : Index) (m : Option Dir) (t : Tree) : Res Tree :=
  match ix with
  | .none => .ok t
  | _ => t.mapM (reindexLeaf ix m)

/-! ### columns -/

def isMulti (f : Frame) : Bool := decide (f.cols.length > 1)

/-- column sets of the DataFrames with more than one column (`df_columns`, line 197) -/
def multiCols (ls : List Leaf) : List (List String) :=
  ls.filterMap fun l => match l with
    | .ts false f => if isMulti f then some f.names else Option.none
    | _ => Option.none

def interS (a b : List String) : List String := a.filter fun c => b.contains c
def unionS (a b : List String) : List String := a ++ (b.filter fun c => !a.contains c)

/-- `_df_index(column indexes, how)`; the ORDER of the resulting columns is pandas' business and is not compared -/
def joinCols (how : How) : List (List String) → Option (List String)
  | [] => Option.none
  | c :: cs =>
    match how with
    | .inner => some (cs.foldl interS c)
    | .outer => some (cs.foldl unionS c)
    | .left => some c
    | .right => some ((c :: cs).getLastD c)

/-- `_df_recolumn(ts, columns)`, lines 407-412: only DataFrames with more than one column are touched;
a column the frame lacks is NaN -/
def recolumnLeaf (cols : Option (List String)) : Leaf → Res Leaf
  | .ts false f =>
    match cols with
    | some cs =>
      if isMulti f then
        .ok (.ts false { idx := f.idx,
                         cols := cs.map fun c => (c, match f.cols.find? (·.1 == c) with
                                                     | some col => col.2
                                                     | Option.none => List.replicate f.idx.length Option.none) })
      else .ok (.ts false f)
    | Option.none => .ok (.ts false f)
  | l => .ok l

/-- `df_sync(dfs, join, method, columns)`, lines 828-845; a non-container is returned as it is -/
def sync (how : How) (m : Option Dir) (colHow : Option How) (t : Tree) : Res Tree :=
  match t with
  | .leaf _ => .ok t
  | .node _ _ =>
    let listed := t.flatTop
    match reindexTree (dfIndex how listed) m t with
    | .error e => .error e
    | .ok t' =>
      match colHow with
      | Option.none => .ok t'
      | some ch => t'.mapM (recolumnLeaf (joinCols ch (multiCols listed)))

/-- `presync(f)(*args)` up to the call of `f` when no argument has several columns (lines 1023-1032, 1047):
`f` receives the arguments reindexed onto the joint index -/
def presyncArgs (how : How) (m : Option Dir) (args : Tree) : Res Tree :=
  reindexTree (dfIndex how args.flatTop) m args

/-! ### an explicit index as join policy, keyword arguments -/

/-- the `join` / `index` argument: a policy word or an explicitly supplied `pd.Index` (also given as a timeseries or a
dict with the key 'index', `df_reindex` lines 496-501 / `_index` lines 80-94: all three denote that index) -/
inductive Join where
  | how (h : How)
  | explicit (ix : List Int)
  deriving Repr, Inhabited

/-- `df_index(listed, join)`, lines 159-167, for both kinds of `join`: an explicit index IS the joint index as soon as
one member is a pandas object (`_df_index`, line 114-115); without pandas members but with arrays the array branch
`_np_index(lengths, index)` subscripts the index like a word and raises (`AttributeError`); nothing to align: `None` -/
def dfIndexJ (j : Join) (ls : List Leaf) : Res Index :=
  match j with
  | .how h => .ok (dfIndex h ls)
  | .explicit ix =>
    if (tsIndexes ls).isEmpty then
      if (arrLens ls).isEmpty then .ok .none else .error .other
    else .ok (.times ix)

/-- `df_sync(dfs, join, method, columns)` with either kind of `join` -/
def syncJ (j : Join) (m : Option Dir) (colHow : Option How) (t : Tree) : Res Tree :=
  match j with
  | .how h => sync h m colHow t
  | .explicit _ =>
    match t with
    | .leaf _ => .ok t
    | .node _ _ =>
      let listed := t.flatTop
      match dfIndexJ j listed with
      | .error e => .error e
      | .ok ix =>
        match reindexTree ix m t with
        | .error e => .error e
        | .ok t' =>
          match colHow with
          | Option.none => .ok t'
          | some ch => t'.mapM (recolumnLeaf (joinCols ch (multiCols listed)))

/-- `presync(f)(*args, **kwargs)` with `columns=False` (lines 1019-1032): the joint index is taken over
`list(args) + list(kwargs.values())`, then `args` (a tuple) and `kwargs` (a dict) are reindexed separately onto it and
handed to `f` -/
def presyncCall (j : Join) (m : Option Dir) (args kwargs : List (String × Tree)) : Res (Tree × Tree) :=
  match dfIndexJ j (flatKids (args ++ kwargs)) with
  | .error e => .error e
  | .ok ix =>
    match reindexTree ix m (.node .tuple args) with
    | .error e => .error e
    | .ok a =>
      match reindexTree ix m (.node .dict kwargs) with
      | .error e => .error e
      | .ok k => .ok (a, k)

/-! ### `limit`, method lists and numeric methods (`_df_reindex` lines 377-387, all of it) -/

/-- the observation (label, value) an as-of lookup lands on -/
def asofObs (d : Dir) (o : List (Int × Int)) (t : Int) : Option (Int × Int) :=
  (asofPos d (o.map Prod.fst) t).bind fun (i : Nat) => o[i]?

/-- pandas `Index.get_indexer(target, method, limit)` (`libalgos.pad` / `libalgos.backfill`) walking along the requested labels
in the direction of the fill: a requested label that IS the label of an observation always gets it; of the requested labels
that land inexactly on one and the same observation only the first `limit` get it.  `prev` = label of the observation the
previous requested label landed on, `k` = inexact matches it has served so far. -/
def limAux (d : Dir) (lim : Option Nat) (o : List (Int × Int)) : Option Int → Nat → List Int → Col
  | _, _, [] => []
  | prev, k, t :: ts =>
    match asofObs d o t with
    | Option.none => Option.none :: limAux d lim o Option.none 0 ts
    | some (s, v) =>
      if s = t then some v :: limAux d lim o (some s) 0 ts
      else
        (if within lim (if prev = some s then k else 0) then some v else Option.none)
          :: limAux d lim o (some s) ((if prev = some s then k else 0) + 1) ts

/-- `_nona(col).reindex(idx, method, limit)`: `pad` runs over the requested labels from the left, `backfill` from the right -/
def asofColLim (d : Dir) (lim : Option Nat) (fidx : List Int) (c : Col) (idx : List Int) : Col :=
  match d with
  | .ffill => limAux .ffill lim (obs fidx c) Option.none 0 idx
  | .bfill => (limAux .bfill lim (obs fidx c) Option.none 0 idx.reverse).reverse

/-- the as-of branch (lines 381-385) with a `limit`, column by column -/
def reindexFrameL (f : Frame) (idx : List Int) (d : Dir) (lim : Option Nat) : Frame :=
  { idx := idx, cols := f.cols.map fun c => (c.1, asofColLim d lim f.idx c.2 idx) }

/-- `_df_reindex` on a pandas object with ANY method (list) and `limit`, lines 377-387:
```
if len(methods) and methods[0] in ['backfill', 'bfill', 'pad', 'ffill']:
    res = _nona(ts).reindex(index, method = methods[0], limit = limit)      # column by column for a frame
    res = _df_fillna(res, method = methods[1:], limit = limit)
else:
    res = ts.reindex(index)
    res = _df_fillna(res, method = method, limit = limit)
```
the TAIL of the list (the whole list when it does not start with ffill / bfill) goes through C12's `fillna`; `limit = 0` is
rejected by pandas' `reindex(method=, limit=0)` as by `ffill(limit=0)` -/
def reindexFill (f : Frame) (idx : List Int) (ms : List Method) (lim : Option Nat) : Res Frame :=
  match ms with
  | .ffill :: rest => if limOk lim then fillna rest lim (reindexFrameL f idx .ffill lim) else .error .value
  | .bfill :: rest => if limOk lim then fillna rest lim (reindexFrameL f idx .bfill lim) else .error .value
  | _ => fillna ms lim (reindexFrame f idx Option.none)

/-- `_df_reindex(ts, index, method, limit)` on one member, lines 374-404, any method list -/
def reindexLeafM (ix : Index) (ms : List Method) (lim : Option Nat) : Leaf → Res Leaf
  | .ts s f =>
    match ix with
    | .times idx => (reindexFill f idx ms lim).map (.ts s)
    | .len _ => .error .value
    | .none => .ok (.ts s f)
  | .arr xs =>
    match ix with
    | .times idx => if idx.length = xs.length ∨ xs.length ≤ 1 then .ok (.arr xs) else .error .value
    | .len n =>
      match fillnaArr ms lim [alignArr n xs] with
      | .ok [c] => .ok (.arr c)
      | .ok _ => .error .other
      | .error e => .error e
    | .none => .ok (.arr xs)
  | .other v => .ok (.other v)

/-! `_df_reindex` is decorated `@loop(list, tuple, dict)`, and `loops._wrapped` (`_loop.py:206-240`, `_item_by_i`) hands a
list- or tuple-valued KEYWORD argument of the same length as a list / tuple container out member by member
(`f([1,2,3], [4,5,6]) == [5,7,9]`).  So a method LIST `['ffill', 'bfill']` applied to a list of TWO timeseries gives the first
`'ffill'` and the second `'bfill'` instead of both the sequence; a dict container, a container of another length and a bare
method (a word, a number) are not affected.  `bare = true`: the method is a single word / number (never split). -/
mutual
  def Tree.mapMS (g : List Method → Leaf → Res Leaf) (bare : Bool) (ms : List Method) : Tree → Res Tree
    | .leaf l => (g ms l).map .leaf
    | .node tag kids =>
      if tag != .dict && !bare && ms.length == kids.length then (zipKidsMS g ms kids).map (.node tag)
      else (mapKidsMS g bare ms kids).map (.node tag)
  def mapKidsMS (g : List Method → Leaf → Res Leaf) (bare : Bool) (ms : List Method) :
      List (String × Tree) → Res (List (String × Tree))
    | [] => .ok []
    | (k, t) :: r =>
      match t.mapMS g bare ms with
      | .error e => .error e
      | .ok t' =>
        match mapKidsMS g bare ms r with
        | .error e => .error e
        | .ok r' => .ok ((k, t') :: r')
  /-- member `i` gets method `i`, as a bare method -/
  def zipKidsMS (g : List Method → Leaf → Res Leaf) : List Method → List (String × Tree) → Res (List (String × Tree))
    | m :: ms, (k, t) :: r =>
      match t.mapMS g true [m] with
      | .error e => .error e
      | .ok t' =>
        match zipKidsMS g ms r with
        | .error e => .error e
        | .ok r' => .ok ((k, t') :: r')
    | _, _ => .ok []
end

/-- `df_reindex(ts, index, method, limit)` with the index already determined -/
def reindexTreeM (ix : Index) (bare : Bool) (ms : List Method) (lim : Option Nat) (t : Tree) : Res Tree :=
  match ix with
  | .none => .ok t
  | _ => t.mapMS (fun ms' => reindexLeafM ix ms' lim) bare ms

/-- `df_sync(dfs, join, method, columns)` with any method (list); `df_sync` has no `limit` (line 836 passes none on) -/
def syncJM (j : Join) (bare : Bool) (ms : List Method) (colHow : Option How) (t : Tree) : Res Tree :=
  match t with
  | .leaf _ => .ok t
  | .node _ _ =>
    let listed := t.flatTop
    match dfIndexJ j listed with
    | .error e => .error e
    | .ok ix =>
      match reindexTreeM ix bare ms Option.none t with
      | .error e => .error e
      | .ok t' =>
        match colHow with
        | Option.none => .ok t'
        | some ch => t'.mapM (recolumnLeaf (joinCols ch (multiCols listed)))

/-- both halves of a `presync` call reindexed onto one index (lines 1030-1031) -/
def presyncOnto (ix : Index) (bare : Bool) (ms : List Method) (args kwargs : List (String × Tree)) : Res (Tree × Tree) :=
  match reindexTreeM ix bare ms Option.none (.node .tuple args) with
  | .error e => .error e
  | .ok a =>
    match reindexTreeM ix bare ms Option.none (.node .dict kwargs) with
    | .error e => .error e
    | .ok k => .ok (a, k)

/-- `presync(f)(*args, **kwargs)` with `columns=False`, `join` a policy word or an explicit index, any method (list) -/
def presyncCallM (j : Join) (bare : Bool) (ms : List Method) (args kwargs : List (String × Tree)) : Res (Tree × Tree) :=
  match dfIndexJ j (flatKids (args ++ kwargs)) with
  | .error e => .error e
  | .ok ix => presyncOnto ix bare ms args kwargs

/-- a `pd.Index` object met as a MEMBER (not as the join policy) is no timeseries: it passes through like any other object
(`Leaf.other`).  It is represented by the value `{"pd.Index": [t, ...]}` so that `_index` can read its labels. -/
def asPdIndex : Val → Option (List Int)
  | .dict [("pd.Index", .list xs)] => xs.mapM fun x => match x with | .cell (.dt t) => some t | _ => Option.none
  | _ => Option.none

/-- `_index(value)`, lines 80-94, for the value of ONE argument: a timeseries gives its index, a `pd.Index` itself, an array
its length, a dict with the key 'index' that entry (a timeseries there denotes its index, `df_reindex` line 498-499); anything
else raises `ValueError('did not provide an index')`.  Lists / tuples / dicts without 'index' give a list / dict of indexes
that no `reindex` accepts (`err Other`; not generated). -/
def indexOfArg : Tree → Res Index
  | .leaf (.ts _ f) => .ok (.times f.idx)
  | .leaf (.arr xs) => .ok (.len xs.length)
  | .leaf (.other v) =>
    match asPdIndex v with
    | some ix => .ok (.times ix)
    | Option.none => .error .value
  | .node .dict kids =>
    match kids.find? (·.1 == "index") with
    | some (_, .leaf (.ts _ f)) => .ok (.times f.idx)
    | some (_, .leaf (.other v)) =>
      match asPdIndex v with
      | some ix => .ok (.times ix)
      | Option.none => .error .other
    | _ => .error .other
  | .node _ _ => .error .other

/-- `presync(f)(*args, **kwargs)` when `join` NAMES A PARAMETER of `f` (lines 1026-1028): the index is
`_index(callargs[join])`, the index of that argument, whatever the other arguments hold.  `pnames` = the names of the
parameters the positional arguments bind to (`inspect.getcallargs`); `none` = `join` names no supplied argument (then
`presyncCallM` applies). -/
def presyncNamed (name : String) (bare : Bool) (ms : List Method) (pnames : List String) (args kwargs : List (String × Tree)) :
    Option (Res (Tree × Tree)) :=
  match ((pnames.zip (args.map (·.2))) ++ kwargs).find? (·.1 == name) with
  | Option.none => Option.none
  | some (_, v) =>
    some (match indexOfArg v with
          | .error e => .error e
          | .ok ix => presyncOnto ix bare ms args kwargs)

end Pyg.Align
