/-
  PygModel.Native — reference model of CPython's NATIVE ordering (`<`, `==` as `sorted()` uses them) on the scalar cells and on
  tuples of them.  `pyg_base.sort` tries `sorted(values)` first and only falls back to the `Cmp` key when a comparison raises
  TypeError (src/pyg_base/_sort.py:141-147); the theorems in Props/C07 (`native_agrees*`) show that wherever this native
  comparison is defined on bool-free, NaN-free values it returns what `cmp` returns, so both paths order such values alike.
  The definition itself is an assumption about CPython, sampled by the correspondence check (op `native`).
-/
import PygModel.Sort

namespace Pyg

/-- numeric key of the cells python compares numerically with one another (bools are ints there) -/
def Cell.numKey? : Cell → Option (Int × Int)
  | .bool b => some (0, if b then 4 else 0)
  | .int n => some (0, 4 * n)
  | .flt q => some (0, q)
  | .pinf => some (1, 0)
  | .ninf => some (-1, 0)
  | _ => Option.none

/-- `a < b` / `a > b` natively: `none` where python raises TypeError (`None < None`, `1 < 'a'`, ...).  NaN is left undefined:
its comparisons do not raise but are not an order (the library never sorts natively when a NaN is present). -/
def Cell.native (a b : Cell) : Option Ordering :=
  match a, b with
  | .str x, .str y => some (compare x y)
  | .dt x, .dt y => some (compare x y)
  | _, _ =>
    match a.numKey?, b.numKey? with
    | some x, some y => some ((compare x.1 y.1).then (compare x.2 y.2))
    | _, _ => Option.none

def Cell.isBool : Cell → Bool
  | .bool _ => true
  | _ => false

/-- native tuple comparison: skip the leading `==` elements, compare the first differing pair, else the lengths -/
def nativeArr : List Cell → List Cell → Option Ordering
  | [], [] => some .eq
  | [], _ :: _ => some .lt
  | _ :: _, [] => some .gt
  | x :: xs, y :: ys => if x.pyEq y then nativeArr xs ys else x.native y

/-- python's native comparison of the decorated `(key, i)` tuples that `dictable.sort` / `_listby` hand to `sorted()`
(`keys2id = zip(keys, range(n))`, keys = tuples of the key cells): tuples compare by their first pair that is not `==` — the keys,
themselves tuples (`nativeArr`; `none` = TypeError), and only for `==` keys the row numbers -/
def nativeKeyId (a b : List Cell × Nat) : Option Ordering :=
  match nativeArr a.1 b.1 with
  | some .eq => some (compare a.2 b.2)
  | r => r

end Pyg
