/-
  PygModel.Eq — model of `pyg_base._eq.eq` and `in_` (src/pyg_base/_eq.py:14-113), written against
  the repaired code (shape test for arrays, dict values compared as tuples, scalar vs container is
  False, axis labels compared one by one with `eq`, numpy numbers compared as python numbers).

  eq(x, y):   x is y                      -> True            (identity is not in the model)
              list / tuple                -> same type, same length, all eq(i, j) of the zip
              ndarray                     -> same type, same shape, all cells eq
              Series / DataFrame          -> same type, eq(index), eq(columns), all cells eq
              pd.Index (axis labels)      -> eq(list(x), list(y))
              dict                        -> same *exact* type, same length, items sorted by key:
                                             eq(keys) and eq(values)
              float NaN                   -> y is a float NaN
              anything else               -> y a container: False; else x == y

  `EVal` extends the shared `Val` by the containers `eq` dispatches on.  numpy scalars are the
  cells they are equal to (`NI:`/`NF:`/`NB:` on the wire); `pd.Timestamp` is the `dt` cell it is
  `==` to (`PT:`); a `datetime.date` is a separate constructor because `date != datetime` in Python.
  `np.datetime64` of any unit is read as the `pd.Timestamp` of its instant (`_scalar`, fix C14-F6: the
  `dt` cell; numpy's own `==` casts units, so a day-resolution value was `==` to a `date`),
  `np.timedelta64` / `pd.Timedelta` / `datetime.timedelta` are the duration `tdelta` (microseconds;
  never `==` to a number); an `np.timedelta64` in YEARS or MONTHS is not such a duration (pandas refuses it) but the calendar
  duration `cdelta` (months; fix C14-F9: equal only to another year / month `np.timedelta64` of as many months), and `pd.NaT` - which `np.datetime64('NaT')` / `np.timedelta64('NaT')` become -
  is the single object `nat`: equal to itself by identity (`x is y`), `==` to nothing.  An `np.datetime64` in `ps` / `fs` / `as` is `fdt`
  (attoseconds; fix C14-F10, review v5: equal only to another such `np.datetime64` of the same instant).
-/
import PygModel.Sort

namespace Pyg

/-- values `eq` is defined on.  `dict cls kvs`: `cls = 0` is a plain `dict`, other numbers are the
subclasses (`1` = `pyg_base.Dict`, `2` = `dictattr`, …).  `arr shape cells`: an `ndarray`, cells in
row-major order (an object array may hold anything).  `series idx cells`, `frame idx cols cells`
(cells row-major): pandas objects with their axis labels. -/
inductive EVal where
  | cell (c : Cell)
  | date (d : Int)
  | tdelta (us : Int)
  /-- a numpy duration counted in calendar months (`np.timedelta64` in units `Y` / `M`: pandas has no such duration, numpy has no
  common unit for it with weeks…ns): equal exactly to the same number of months, never to a number, never to a `tdelta` -/
  | cdelta (months : Int)
  /-- an `np.datetime64` in a unit finer than nanoseconds (`ps`, `fs`, `as`; the instant counted in attoseconds since 1970): pandas would
  truncate it to nanoseconds, so `_number` leaves it as it is and (fix C14-F10) it equals exactly the fine `np.datetime64` of the same instant -
  never a `datetime` / `Timestamp` / `datetime64[ns]` (`Timestamp.__eq__` truncates: it called BOTH 0 ps and 1 ps equal to `Timestamp(0)`), never a number -/
  | fdt (as : Int)
  /-- an `np.timedelta64` in `ps` / `fs` / `as` (the duration counted in attoseconds; k5): like `fdt` left as it is by `_number`, and by the
  F9 / F10 branch of `eq` equal exactly to the fine `np.timedelta64` of the same duration - never a `tdelta` (`1000 ps` is not `eq` to `1 ns`), a `cdelta` or a number -/
  | ftd (as : Int)
  | nat
  | list (xs : List EVal)
  | tuple (xs : List EVal)
  /-- an instance of a SUBCLASS of `list` / `tuple` (k5): `cls` names the class (a namedtuple class, `class L(list)`, ...; distinct classes have
  distinct numbers, none is `list` or `tuple` itself).  The sequence branch (:72) tests `type(x) == type(y)`. -/
  | sub (cls : Nat) (xs : List EVal)
  /-- a `pd.Index` AS A VALUE (k5; so far only the axis labels inside a Series / DataFrame): the labels.  The `pd.Index` branch tests
  `isinstance(y, pd.Index)`, not `type ==`: a `RangeIndex`, a `DatetimeIndex` and a plain `Index` with the same labels are `eq`, so the
  subclass is not part of the value. -/
  | index (labels : List Cell)
  | dict (cls : Nat) (kvs : List (String × EVal))
  | arr (shape : List Nat) (cells : List EVal)
  | series (idx : List Cell) (cells : List EVal)
  | frame (idx : List Cell) (cols : List Cell) (cells : List EVal)
  deriving Repr, Inhabited

namespace EqM

/-- `len(x) == len(y) and all(f(i, j) for i, j in zip(x, y))` -/
def all2 {α β} (f : α → β → Bool) : List α → List β → Bool
  | [], [] => true
  | x :: xs, y :: ys => f x y && all2 f xs ys
  | _, _ => false

/-- `_eq.py:86-87` then `90-95` on two scalars: a float NaN equals exactly the float NaNs;
otherwise Python `==` (`Cell.pyEq`: numbers by value across bool/int/float, `nan != nan`;
assumption sampled by correspondence). -/
def cellEq (a b : Cell) : Bool :=
  if a = .nan then b = .nan else Cell.pyEq a b

/-- `eq(x.index, y.index)` / `eq(x.columns, y.columns)` (the `pd.Index` branch of the repaired code):
`eq(list(x), list(y))`, i.e. same number of labels and the labels `eq` one by one - NaN-aware, and
a string label never equals a datetime label (`Index == Index` used to parse strings into dates). -/
def idxEq (i j : List Cell) : Bool := all2 cellEq i j

/-- `sorted(x.items())` for distinct string keys: insertion sort on the key -/
def insertK {α} (kv : String × α) : List (String × α) → List (String × α)
  | [] => [kv]
  | h :: t => if kv.1 ≤ h.1 then kv :: h :: t else h :: insertK kv t

def sortK {α} : List (String × α) → List (String × α)
  | [] => []
  | h :: t => insertK h (sortK t)

end EqM

open EqM

mutual
  /-- `eq` once the items of every dict are sorted (see `eq`) -/
  def eqN : EVal → EVal → Bool
    | .cell a, .cell b => cellEq a b                       -- NaN branch / `x == y`
    | .date a, .date b => a == b                           -- `x == y` on two dates
    | .tdelta a, .tdelta b => a == b                       -- `x == y` on two durations
    | .cdelta a, .cdelta b => a == b                       -- two year / month `np.timedelta64`: numpy `==` (12 months to the year)
    | .fdt a, .fdt b => a == b                             -- two `np.datetime64` in ps / fs / as: numpy `==` (the instant, counted in attoseconds)
    | .ftd a, .ftd b => a == b                             -- two `np.timedelta64` in ps / fs / as: numpy `==` (attoseconds)
    | .nat, .nat => true                                   -- `x is y`: `pd.NaT` is one object
    | .sub c xs, .sub d ys => c == d && eqArr xs ys        -- :72 `type(x) == type(y)` on a list / tuple subclass
    | .index i, .index j => idxEq i j                      -- pd.Index branch: `isinstance(y, pd.Index) and eq(list(x), list(y))`
    | .list xs, .list ys => eqArr xs ys                    -- :72
    | .tuple xs, .tuple ys => eqArr xs ys                  -- :72
    | .arr s xs, .arr t ys => s == t && eqArr xs ys        -- :74 (shape, then veq)
    | .series i xs, .series j ys => idxEq i j && eqArr xs ys                     -- :76
    | .frame i c xs, .frame j d ys => idxEq i j && idxEq c d && eqArr xs ys      -- :76
    | .dict c a, .dict d b => c == d && eqKeys a b && eqVals a b                 -- :78-83
    | _, _ => false                                        -- type(x) != type(y); scalar vs container
  /-- same length and all pairs of the zip equal -/
  def eqArr : List EVal → List EVal → Bool
    | [], [] => true
    | x :: xs, y :: ys => eqN x y && eqArr xs ys
    | _, _ => false
  /-- `eq(xkey, ykey)` (this also carries `len(x) == len(y)`) -/
  def eqKeys : List (String × EVal) → List (String × EVal) → Bool
    | [], [] => true
    | x :: xs, y :: ys => x.1 == y.1 && eqKeys xs ys
    | _, _ => false
  /-- `eq(xval, yval)` -/
  def eqVals : List (String × EVal) → List (String × EVal) → Bool
    | [], [] => true
    | x :: xs, y :: ys => eqN x.2 y.2 && eqVals xs ys
    | _, _ => false
end

mutual
  /-- sort the items of every dict by key, recursively -/
  def EVal.norm : EVal → EVal
    | .cell c => .cell c
    | .date d => .date d
    | .tdelta d => .tdelta d
    | .cdelta d => .cdelta d
    | .fdt d => .fdt d
    | .ftd d => .ftd d
    | .nat => .nat
    | .sub c xs => .sub c (EVal.normList xs)
    | .index i => .index i
    | .list xs => .list (EVal.normList xs)
    | .tuple xs => .tuple (EVal.normList xs)
    | .dict c kvs => .dict c (sortK (EVal.normKVs kvs))
    | .arr s xs => .arr s (EVal.normList xs)
    | .series i xs => .series i (EVal.normList xs)
    | .frame i c xs => .frame i c (EVal.normList xs)
  def EVal.normList : List EVal → List EVal
    | [] => []
    | x :: xs => x.norm :: EVal.normList xs
  def EVal.normKVs : List (String × EVal) → List (String × EVal)
    | [] => []
    | (k, v) :: kvs => (k, v.norm) :: EVal.normKVs kvs
end

/-- the model of `pyg_base.eq` -/
def eq (a b : EVal) : Bool := eqN a.norm b.norm

/-- the model of `pyg_base.in_` (`_eq.py:100-113`) -/
def in_ (x : EVal) (seq : List EVal) : Bool := seq.any (eq x)

/-! ### the class of "plain" values and Python's own `==` on them (reference for the last clause) -/

mutual
  /-- no float NaN anywhere, only None/numbers/strings/datetimes/dates and list/tuple/plain dict -/
  def EVal.plain : EVal → Bool
    | .cell c => c != .nan
    | .date _ => true
    | .tdelta _ => true                                    -- (`nat` is not plain: `NaT != NaT`)
    | .list xs => EVal.plainList xs
    | .tuple xs => EVal.plainList xs
    | .dict c kvs => c == 0 && EVal.plainKVs kvs
    | _ => false
  def EVal.plainList : List EVal → Bool
    | [] => true
    | x :: xs => x.plain && EVal.plainList xs
  def EVal.plainKVs : List (String × EVal) → Bool
    | [] => true
    | x :: xs => x.2.plain && EVal.plainKVs xs
end

/-- dict lookup by key (first match) -/
def EVal.lookup (k : String) : List (String × EVal) → Option EVal
  | [] => Option.none
  | (l, v) :: kvs => if k == l then some v else EVal.lookup k kvs

mutual
  /-- Python `x == y` on plain values: scalars by `Cell.pyEq`, sequences by type, length and
  elements, dicts as mappings (same length and every item of `x` found in `y` with an `==` value,
  whatever the insertion orders).  Reference function (assumption about CPython). -/
  def pyEqV : EVal → EVal → Bool
    | .cell a, .cell b => Cell.pyEq a b
    | .date a, .date b => a == b
    | .tdelta a, .tdelta b => a == b
    | .list xs, .list ys => pyEqArr xs ys
    | .tuple xs, .tuple ys => pyEqArr xs ys
    | .dict _ a, .dict _ b => a.length == b.length && pyEqItems a b
    | _, _ => false
  def pyEqArr : List EVal → List EVal → Bool
    | [], [] => true
    | x :: xs, y :: ys => pyEqV x y && pyEqArr xs ys
    | _, _ => false
  /-- every item of the first list has an equal-valued item under the same key in `b` -/
  def pyEqItems : List (String × EVal) → List (String × EVal) → Bool
    | [], _ => true
    | x :: xs, b =>
      (match EVal.lookup x.1 b with
       | some w => pyEqV x.2 w
       | Option.none => false) && pyEqItems xs b
end

end Pyg
