/-
  PygModel.LiftX — MODEL EXTENSION of PygModel.Lift: the remaining branches of `loops._wrapped`
  (src/pyg_base/_loop.py:45-91 `_item_by_key` / `_item_by_i`, 97-135 `add_index_and_columns`, `axis0_to_dataframe`,
  `axis0_to_array`, 190-246 `loops.wrapped` / `_wrapped` / `T`, 250-256 `_T`; src/pyg_base/_dict.py:163-173 `loop`).

  The property text of C19 speaks of "any nesting of lists, tuples and dicts"; everything about Series,
  DataFrames, ndarrays and dict subclasses below is beyond that statement (a disagreement there is a
  divergence, not a violation).  `wrappedX_embed` (PygProofs/Lemmas/LiftXLemmas.lean) shows that on plain
  values this model IS `Pyg.wrapped`.

  Container kinds are tagged lists (like C14's `EVal`):
    `dict cls kvs`         cls 0 = dict, 1 = pyg_base.Dict, 2 = dictattr, 3 = OrderedDict, ≥ 4 = any other subclass
    `arr1 xs`              1-d ndarray
    `arr2 nc rows`         2-d ndarray, `nc` columns, cells row-major (every row has `nc` cells)
    `ser keys xs`          a Series that is not a timeseries (string labels, distinct)
    `frame idx cols rows`  a DataFrame with string row / column labels (distinct), cells row-major
    `obj fields`           an opaque python object (the record the recording function returns): never
                           looped, never indexed, `len0 = 0`
  Modelled rather than verified (pandas / numpy, sampled by correspondence): `df[key]`, `df.loc[key]`,
  `value.T[i]`, `.iloc`, `pd.Series(dict)`, `pd.DataFrame(dict of Series with one index)`, `pd.DataFrame(dict
  of scalars)` raising ValueError, `np.array(list of objects / of equal-length 1-d arrays)`, and label lookup
  `value[i]` with an integer on string labels raising KeyError (pandas 3).  The reassembly of the per-column
  results (`axis0_to_dataframe` / `axis0_to_array`) is modelled for two result kinds only: all results
  opaque objects, or all results columns (Series with one common index / 1-d arrays of one length, holding
  cells); any other mix answers `Err.other` = "not modelled" (never generated).
-/
import PygModel.Lift

namespace Pyg

inductive XVal where
  | cell (c : Cell)
  | obj (fields : List XVal)
  | list (xs : List XVal)
  | tuple (xs : List XVal)
  | dict (cls : Nat) (kvs : List (String × XVal))
  | arr1 (xs : List XVal)
  | arr2 (nc : Nat) (rows : List (List Cell))
  | ser (keys : List String) (xs : List XVal)
  | frame (idx cols : List String) (rows : List (List Cell))
  deriving Repr, Inhabited

abbrev XKW := List (String × XVal)
abbrev XLeafFn := XVal → List XVal → XKW → Res XVal

/-- which types the decorator loops over: `loops(types = …)` -/
structure LoopTypes where
  list : Bool
  tuple : Bool
  dicts : List Nat
  series : Bool
  frame : Bool
  array : Bool
  deriving Repr

/-- `loop(list, tuple, dict)`: the factory of `_dict.py:163-173` adds OrderedDict, dictattr and Dict to `dict` -/
def LoopTypes.ltd : LoopTypes := ⟨true, true, [0, 3, 2, 1], false, false, false⟩
/-- `loops(types = (list, tuple, dict))` without the factory: only the exact class `dict` -/
def LoopTypes.ltdPlain : LoopTypes := ⟨true, true, [0], false, false, false⟩
/-- `loop_all = loop(pd.Series, pd.DataFrame, np.ndarray, list, tuple, dict)` -/
def LoopTypes.all : LoopTypes := ⟨true, true, [0, 3, 2, 1], true, true, true⟩

def mapXKW (g : XVal → XVal) (kw : XKW) : XKW := kw.map fun p => (p.1, g p.2)
def xgetIdx (xs : List XVal) (i : Nat) : XVal := xs.getD i (.cell .none)
def xgetKey (kvs : XKW) (key : String) : XVal := (kvs.lookup key).getD (.cell .none)
def xkeysOf (kvs : XKW) : List String := kvs.map (·.1)
def dropAxisX (kw : XKW) : XKW := kw.filter fun p => p.1 != "axis"

/-- column `j` of row-major cells (`df.iloc[:, j].values`, `arr.T[j]`) -/
def colOf (rows : List (List Cell)) (j : Nat) : List XVal := rows.map fun r => .cell (r.getD j .none)
/-- row `i` (`df.loc[label_i].values`) -/
def rowOf (rows : List (List Cell)) (i : Nat) : List XVal := (rows.getD i []).map .cell
/-- `.T` of `nc`-column row-major cells -/
def transposeRows (nc : Nat) (rows : List (List Cell)) : List (List Cell) :=
  (List.range nc).map fun j => rows.map fun r => r.getD j .none

mutual
  /-- `_item_by_i(value, i, n)` (_loop.py:70-89) with its pandas / numpy branches: a one-column DataFrame / 2-d array
  is first squeezed to its column (and STAYS squeezed when nothing matches); then a list / tuple / 1-d array /
  Series of length `n` gives its `i`-th element, a 2-d array / DataFrame with `n` columns gives its `i`-th column,
  a list / tuple of another length is searched, everything else is passed whole. -/
  def itemByIX (i n : Nat) : XVal → XVal
    | .list xs => if xs.length = n then xgetIdx xs i else .list (itemByIXList i n xs)
    | .tuple xs => if xs.length = n then xgetIdx xs i else .tuple (itemByIXList i n xs)
    | .arr1 xs => if xs.length = n then xgetIdx xs i else .arr1 xs
    | .ser ks xs => if xs.length = n then xgetIdx xs i else .ser ks xs
    | .arr2 nc rows =>
        if nc = 1 then (if rows.length = n then xgetIdx (colOf rows 0) i else .arr1 (colOf rows 0))
        else if nc = n then .arr1 (colOf rows i) else .arr2 nc rows
    | .frame idx cols rows =>
        if cols.length = 1 then (if rows.length = n then xgetIdx (colOf rows 0) i else .ser idx (colOf rows 0))
        else if cols.length = n then .ser idx (colOf rows i) else .frame idx cols rows
    | v => v
  def itemByIXList (i n : Nat) : List XVal → List XVal
    | [] => []
    | x :: xs => itemByIX i n x :: itemByIXList i n xs
end

mutual
  /-- `_item_by_key(value, key, keys, i)` (_loop.py:45-68).  `pos = none` is the dict / Series loop (`i = None`),
  `pos = some i` the DataFrame loop, which also hands the POSITION of the column: then a list / tuple / 1-d array
  of the looped length is indexed by position and a 2-d array with that many columns gives its column.
  A Series with the looped labels gives `value[key]`, a DataFrame with the looped labels as columns its column,
  as index its row.  The cases in which the real code raises KeyError are `keySelRaises`. -/
  def itemByKeyX (key : String) (keys : List String) (pos : Option Nat) : XVal → XVal
    | .dict cls kvs =>
        if sortStr (xkeysOf kvs) = keys then xgetKey kvs key else .dict cls (itemByKeyXKVs key keys pos kvs)
    | .ser ks xs => if sortStr ks = keys then xgetIdx xs (ks.idxOf key) else .ser ks xs
    | .frame idx cols rows =>
        if sortStr cols = sortStr keys then .ser idx (colOf rows (cols.idxOf key))
        else if sortStr idx = sortStr keys then .ser cols (rowOf rows (idx.idxOf key))
        else .frame idx cols rows
    | .arr2 nc rows =>
        match pos with
        | some i => if nc = keys.length then .arr1 (colOf rows i) else .arr2 nc rows
        | Option.none => .arr2 nc rows
    | .arr1 xs =>
        match pos with
        | some i => if xs.length = keys.length then xgetIdx xs i else .arr1 xs
        | Option.none => .arr1 xs
    | .list xs =>
        match pos with
        | some i => if xs.length = keys.length then xgetIdx xs i else .list xs
        | Option.none => .list xs
    | .tuple xs =>
        match pos with
        | some i => if xs.length = keys.length then xgetIdx xs i else .tuple xs
        | Option.none => .tuple xs
    | v => v
  def itemByKeyXKVs (key : String) (keys : List String) (pos : Option Nat) : XKW → XKW
    | [] => []
    | (k, v) :: kvs => (k, itemByKeyX key keys pos v) :: itemByKeyXKVs key keys pos kvs
end

mutual
  /-- the last branch of `_item_by_key` in a DataFrame loop (`i` given): a Series / DataFrame whose labels are
  not the looped ones but whose LENGTH is the looped one is indexed `value[i]` with an integer — on string labels
  that is `KeyError` (pandas 3 has no positional fallback).  Independent of `key` and `i`. -/
  def keySelRaises (keys : List String) : XVal → Bool
    | .dict _ kvs => if sortStr (xkeysOf kvs) = keys then false else keySelRaisesKVs keys kvs
    | .ser ks xs => sortStr ks != keys && xs.length == keys.length
    | .frame idx cols rows =>
        sortStr cols != sortStr keys && sortStr idx != sortStr keys && rows.length == keys.length
    | _ => false
  def keySelRaisesKVs (keys : List String) : XKW → Bool
    | [] => false
    | (_, v) :: kvs => keySelRaises keys v || keySelRaisesKVs keys kvs
end

mutual
  /-- `_T` (_loop.py:250-256): 2-d arrays and DataFrames are transposed, through lists, tuples and dicts -/
  def tX : XVal → XVal
    | .list xs => .list (tXList xs)
    | .tuple xs => .tuple (tXList xs)
    | .dict cls kvs => .dict cls (tXKVs kvs)
    | .arr2 nc rows => .arr2 rows.length (transposeRows nc rows)
    | .frame idx cols rows => .frame cols idx (transposeRows cols.length rows)
    | v => v
  def tXList : List XVal → List XVal
    | [] => []
    | x :: xs => tX x :: tXList xs
  def tXKVs : XKW → XKW
    | [] => []
    | (k, v) :: kvs => (k, tX v) :: tXKVs kvs
end

/-- `axis in (1, -1)` for `axis = kwargs.pop('axis', 0)` (python `==`: `True` and `1.0` count) -/
def axisIs1 (kw : XKW) : Bool :=
  match kw.lookup "axis" with
  | some (.cell (.int 1)) => true
  | some (.cell (.int (-1))) => true
  | some (.cell (.bool true)) => true
  | some (.cell (.flt 4)) => true
  | some (.cell (.flt (-4))) => true
  | _ => false

/-! ### reassembly of per-column results -/

def XVal.isObj : XVal → Bool
  | .obj _ => true
  | _ => false

def cellsOf : List XVal → Option (List Cell)
  | [] => some []
  | .cell c :: xs => (cellsOf xs).map (c :: ·)
  | _ :: _ => Option.none

/-- a result that is a column: a Series labelled `idx` holding cells -/
def asSerCol (idx : List String) : XVal → Option (List Cell)
  | .ser ks xs => if ks = idx then cellsOf xs else Option.none
  | _ => Option.none

/-- a result that is a 1-d array of `m` cells -/
def asArrCol (m : Nat) : XVal → Option (List Cell)
  | .arr1 xs => if xs.length = m then cellsOf xs else Option.none
  | _ => Option.none

/-- rows of a table given by its columns -/
def rowsOfCols (nr : Nat) (cs : List (List Cell)) : List (List Cell) :=
  (List.range nr).map fun i => cs.map fun c => c.getD i .none

def resIdx : List XVal → List String
  | .ser ks _ :: _ => ks
  | _ => []

def resLen : List XVal → Nat
  | .arr1 xs :: _ => xs.length
  | _ => 0

/-- `axis0_to_dataframe(res, arg)` (_loop.py:106-120) then `add_index_and_columns`: opaque results cannot make a
DataFrame (`ValueError: If using all scalar values…`) and become a Series labelled by the columns; results that are
Series with one common index become the columns of a DataFrame (relabelled with the argument's index when it has
as many rows).  Anything else: not modelled. -/
def toFrame (idx cols : List String) (res : List XVal) : Res XVal :=
  if res.isEmpty then .error .other
  else if res.all XVal.isObj then .ok (.ser cols res)
  else
    let ks := resIdx res
    match res.mapM (asSerCol ks) with
    | some cs => .ok (.frame (if ks.length = idx.length then idx else ks) cols (rowsOfCols ks.length cs))
    | Option.none => .error .other

/-- `axis0_to_array(res, arg)` (_loop.py:122-133): `np.array(res)`, transposed when 2-d -/
def toArr (res : List XVal) : Res XVal :=
  if res.all XVal.isObj then .ok (.arr1 res)
  else if (cellsOf res).isSome then .ok (.arr1 res)      -- numbers only (a 1x1 array looped with the identity)
  else
    let m := resLen res
    match res.mapM (asArrCol m) with
    | some cs => .ok (.arr2 res.length (rowsOfCols m cs))
    | Option.none => .error .other

/-- the column loop of the DataFrame branch (_loop.py:219-222): every column is a Series, hence a leaf -/
def frameCalls (f : XLeafFn) (idx keys : List String) (rows : List (List Cell)) :
    Nat → List String → List XVal → XKW → Res (List XVal)
  | _, [], _, _ => .ok []
  | i, c :: cs, args, kw =>
      match f (.ser idx (colOf rows i)) (args.map (itemByKeyX c keys (some i))) (mapXKW (itemByKeyX c keys (some i)) kw) with
      | .error e => .error e
      | .ok y =>
        match frameCalls f idx keys rows (i + 1) cs args kw with
        | .error e => .error e
        | .ok ys => .ok (y :: ys)

/-- DataFrame, `axis = 0` (`kw` already without `axis`) -/
def loopFrame (f : XLeafFn) (idx cols : List String) (rows : List (List Cell)) (args : List XVal) (kw : XKW) :
    Res XVal :=
  let keys := sortStr cols
  if !cols.isEmpty && (args.any (keySelRaises keys) || kw.any fun p => keySelRaises keys p.2) then .error .key
  else
    match frameCalls f idx keys rows 0 cols args kw with
    | .error e => .error e
    | .ok res => toFrame idx cols res

/-- `res.index = arg.index` / `add_index_and_columns(res, arg)` after the transposed run -/
def relabel (idx cols : List String) : XVal → XVal
  | .ser ks xs => .ser (if xs.length = idx.length then idx else ks) xs
  | .frame i c rows =>
      .frame (if rows.length = idx.length then idx else i) (if c.length = cols.length then cols else c) rows
  | v => v

/-- DataFrame, `axis in (1, -1)`: `loops.T` — transpose the argument AND every companion, loop, transpose back -/
def loopFrameT (f : XLeafFn) (idx cols : List String) (rows : List (List Cell)) (args : List XVal) (kw : XKW) :
    Res XVal :=
  match loopFrame f cols idx (transposeRows cols.length rows) (tXList args) (tXKVs kw) with
  | .error e => .error e
  | .ok r => .ok (relabel idx cols (tX r))

/-- the column loop of the ndarray branch (_loop.py:232-234): `_item_by_i(arg, i, n)` is a 1-d array (or a cell
for a 1x1 array), hence a leaf -/
def arrCalls (f : XLeafFn) (nc : Nat) (rows : List (List Cell)) : Nat → Nat → List XVal → XKW → Res (List XVal)
  | _, 0, _, _ => .ok []
  | i, k + 1, args, kw =>
      match f (itemByIX i nc (.arr2 nc rows)) (args.map (itemByIX i nc)) (mapXKW (itemByIX i nc) kw) with
      | .error e => .error e
      | .ok y =>
        match arrCalls f nc rows (i + 1) k args kw with
        | .error e => .error e
        | .ok ys => .ok (y :: ys)

def loopArr (f : XLeafFn) (nc : Nat) (rows : List (List Cell)) (args : List XVal) (kw : XKW) : Res XVal :=
  match arrCalls f nc rows 0 nc args kw with
  | .error e => .error e
  | .ok res => toArr res

def loopArrT (f : XLeafFn) (nc : Nat) (rows : List (List Cell)) (args : List XVal) (kw : XKW) : Res XVal :=
  match loopArr f rows.length (transposeRows nc rows) (tXList args) (tXKVs kw) with
  | .error e => .error e
  | .ok r => .ok (tX r)

mutual
  /-- `loops._wrapped(arg, args, kwargs)` (_loop.py:206-240) for any `types` -/
  def wrappedX (T : LoopTypes) (f : XLeafFn) : XVal → List XVal → XKW → Res XVal
    | .dict cls kvs, args, kw =>
        if T.dicts.contains cls then
          match wrappedXKVs T f (sortStr (xkeysOf kvs)) kvs args (dropAxisX kw) with
          | .error e => .error e
          | .ok r => .ok (.dict cls r)
        else f (.dict cls kvs) args (dropAxisX kw)
    | .list xs, args, kw =>
        if T.list then
          match wrappedXSeq T f xs.length 0 xs args (dropAxisX kw) with
          | .error e => .error e
          | .ok r => .ok (.list r)
        else f (.list xs) args (dropAxisX kw)
    | .tuple xs, args, kw =>
        if T.tuple then
          match wrappedXSeq T f xs.length 0 xs args (dropAxisX kw) with
          | .error e => .error e
          | .ok r => .ok (.tuple r)
        else f (.tuple xs) args (dropAxisX kw)
    | .frame idx cols rows, args, kw =>
        if T.frame then
          (if axisIs1 kw then loopFrameT f idx cols rows args (dropAxisX kw)
           else loopFrame f idx cols rows args (dropAxisX kw))
        else f (.frame idx cols rows) args (dropAxisX kw)
    | .arr2 nc rows, args, kw =>
        if T.array then
          (if axisIs1 kw then loopArrT f nc rows args (dropAxisX kw) else loopArr f nc rows args (dropAxisX kw))
        else f (.arr2 nc rows) args (dropAxisX kw)
    | .cell c, args, kw => f (.cell c) args (dropAxisX kw)
    | .obj fs, args, kw => f (.obj fs) args (dropAxisX kw)
    | .arr1 xs, args, kw => f (.arr1 xs) args (dropAxisX kw)
    | .ser ks xs, args, kw => f (.ser ks xs) args (dropAxisX kw)
  def wrappedXSeq (T : LoopTypes) (f : XLeafFn) (n : Nat) : Nat → List XVal → List XVal → XKW → Res (List XVal)
    | _, [], _, _ => .ok []
    | i, x :: xs, args, kw =>
        match wrappedX T f x (args.map (itemByIX i n)) (mapXKW (itemByIX i n) kw) with
        | .error e => .error e
        | .ok y =>
          match wrappedXSeq T f n (i + 1) xs args kw with
          | .error e => .error e
          | .ok ys => .ok (y :: ys)
  def wrappedXKVs (T : LoopTypes) (f : XLeafFn) (keys : List String) : XKW → List XVal → XKW → Res XKW
    | [], _, _ => .ok []
    | (k, v) :: kvs, args, kw =>
        match wrappedX T f v (args.map (itemByKeyX k keys Option.none)) (mapXKW (itemByKeyX k keys Option.none) kw) with
        | .error e => .error e
        | .ok y =>
          match wrappedXKVs T f keys kvs args kw with
          | .error e => .error e
          | .ok ys => .ok ((k, y) :: ys)
end

/-- the Series loop of `loops.wrapped` (_loop.py:198-201): by label, companions selected with `_item_by_key`
WITHOUT a position (so a list of the looped length is passed whole here) -/
def serCalls (T : LoopTypes) (f : XLeafFn) (keys : List String) :
    List String → List XVal → List XVal → XKW → Res (List XVal)
  | k :: ks, x :: xs, args, kw =>
      match wrappedX T f x (args.map (itemByKeyX k keys Option.none)) (mapXKW (itemByKeyX k keys Option.none) kw) with
      | .error e => .error e
      | .ok y =>
        match serCalls T f keys ks xs args kw with
        | .error e => .error e
        | .ok ys => .ok (y :: ys)
  | _, _, _, _ => .ok []

/-- `loops.wrapped` after the looped argument has been found -/
def topX (T : LoopTypes) (f : XLeafFn) (arg : XVal) (args : List XVal) (kw : XKW) : Res XVal :=
  match arg with
  | .ser ks xs =>
      if T.series then
        match serCalls T f (sortStr ks) ks xs args kw with
        | .error e => .error e
        | .ok ys => .ok (.ser ks ys)
      else wrappedX T f arg args kw
  | _ => wrappedX T f arg args kw

/-- `loops.wrapped(*args, **kwargs)` (_loop.py:190-204) -/
def callLiftedX (T : LoopTypes) (f : XLeafFn) (top : String) (args : List XVal) (kw : XKW) : Res XVal :=
  match args with
  | arg :: rest => topX T f arg rest kw
  | [] =>
    match kw.lookup top with
    | some arg => topX T f arg [] (kw.filter fun p => p.1 != top)
    | Option.none => .error .type

/-- the recording function: `lambda a, *args, **kw: Rec(a, args, kw)` (an opaque object); `!` strings raise -/
def recorderX : XLeafFn := fun a args kw =>
  match a with
  | .cell (.str s) =>
      if s.startsWith "!v" then .error .value
      else if s.startsWith "!k" then .error .key
      else if s.startsWith "!" then .error .type
      else .ok (.obj [a, .tuple args, .dict 0 kw])
  | _ => .ok (.obj [a, .tuple args, .dict 0 kw])

/-- `lambda a, *args, **kw: a` -/
def identX : XLeafFn := fun a _ _ => .ok a


/-! ### paths through the looped containers (the vocabulary of the shape / leaves theorems) -/

/-- the child of a container that `loops(types = T)` loops over -/
def XVal.childT (T : LoopTypes) : XVal → Step → Option XVal
  | .list xs, .idx i => if T.list then xs[i]? else Option.none
  | .tuple xs, .idx i => if T.tuple then xs[i]? else Option.none
  | .dict cls kvs, .key k => if T.dicts.contains cls then kvs.lookup k else Option.none
  | _, _ => Option.none

def XVal.atT (T : LoopTypes) (v : XVal) : Path → Option XVal
  | [] => some v
  | s :: p => match v.childT T s with
    | some c => c.atT T p
    | Option.none => Option.none

/-- what one level of `_wrapped` does to a companion when it descends into child `s` of `v` -/
def selStepX (v : XVal) (s : Step) (c : XVal) : XVal :=
  match v, s with
  | .list xs, .idx i => itemByIX i xs.length c
  | .tuple xs, .idx i => itemByIX i xs.length c
  | .dict _ kvs, .key k => itemByKeyX k (sortStr (xkeysOf kvs)) Option.none c
  | _, _ => c

def selectX (T : LoopTypes) (v : XVal) : Path → XVal → XVal
  | [], c => c
  | s :: p, c => match v.childT T s with
    | some v' => selectX T v' p (selStepX v s c)
    | Option.none => c

/-- what the decorator does NOT loop over at the position it meets it: cells, opaque objects, Series and 1-d arrays
below the top, and every container whose type is not in `T` -/
def XVal.leafFor (T : LoopTypes) : XVal → Bool
  | .cell _ => true
  | .obj _ => true
  | .arr1 _ => true
  | .ser _ _ => true
  | .list _ => !T.list
  | .tuple _ => !T.tuple
  | .dict cls _ => !T.dicts.contains cls
  | .arr2 _ _ => !T.array
  | .frame _ _ _ => !T.frame

/-- `axis` is consumed by the outermost level: below it the keywords are without `axis` -/
def kwAt (p : Path) (kw : XKW) : XKW :=
  match p with
  | [] => kw
  | _ :: _ => dropAxisX kw

/-- the columns of a table as Series / 1-d arrays -/
def frameCol (idx : List String) (rows : List (List Cell)) (j : Nat) : XVal := .ser idx (colOf rows j)

/-! ### the plain fragment -/

mutual
  def Val.emb : Val → XVal
    | .cell c => .cell c
    | .list xs => .list (Val.embList xs)
    | .tuple xs => .tuple (Val.embList xs)
    | .dict kvs => .dict 0 (Val.embKVs kvs)
  def Val.embList : List Val → List XVal
    | [] => []
    | x :: xs => x.emb :: Val.embList xs
  def Val.embKVs : KW → XKW
    | [] => []
    | (k, v) :: kvs => (k, v.emb) :: Val.embKVs kvs
end

end Pyg
