/-
  PygModel.Ops — model of the timeseries operators `add_ / sub_ / mul_ / div_` and the NaN-skipping aggregates
  `df_sum / df_mean / df_count` on Series and scalars (C08).
  Anchors: src/pyg_base/_pandas.py:1018-1058 `presync.wrapped`, 1061-1092 `_div_ _sub_ _add_ _mul_`,
  1133-1318 `add_ mul_ div_ sub_`, 1413-1533 `df_count df_sum df_mean`; src/pyg_base/_reducer.py:7-40 `reducer`.

  Values are exact rationals (`none` = NaN): the wire carries multiples of 1/4 and the generators only divide by
  powers of two, so the implementation's floats are exact as well.  pandas is *defined* here, i.e. assumed
  (sampled by the correspondence check): arithmetic of two Series on one index is pointwise with NaN absorbing,
  a scalar broadcasts, `x/NaN = NaN`; alignment is the model of C03 (`Align.posOf / posAsOf / posNext`).
  DataFrame operands (column policies, neutral element of a missing column) are modelled in PygModel/OpsF.lean,
  the comparisons, `min_ / max_` and `pow_` in PygModel/OpsX.lean.
-/
import PygModel.Align

namespace Pyg.Ops
open Pyg Pyg.Align

abbrev RCol := List (Option Rat)

/-- a `pd.Series`: strictly increasing times with values -/
structure RSeries where
  idx : List Int
  vals : RCol
  deriving Repr, DecidableEq, Inhabited

/-- an operand / a result: a Series or a scalar (`num none` = the scalar NaN) -/
inductive Operand where
  | ts (s : RSeries)
  | num (q : Option Rat)
  deriving Repr, DecidableEq, Inhabited

inductive Op where
  | add | sub | mul | div
  deriving Repr, DecidableEq, Inhabited

/-- the plain operation on two numbers; division by zero is NaN (`denom[denom == 0] = nan`, never ±inf) -/
def Op.app : Op → Rat → Rat → Option Rat
  | .add, x, y => some (x + y)
  | .sub, x, y => some (x - y)
  | .mul, x, y => some (x * y)
  | .div, x, y => if y = 0 then Option.none else some (x / y)

/-- pointwise with NaN absorbing -/
def Op.appO (op : Op) : Option Rat → Option Rat → Option Rat
  | some x, some y => op.app x y
  | _, _ => Option.none

/-! ### alignment of one Series (C03's `_df_reindex`, on rational values) -/

def valueAtR (s : RSeries) (t : Int) : Option Rat := (posOf s.idx t).bind fun i => (s.vals[i]?).join

/-- `_nona(ts)`: the non-NaN observations -/
def nonaR (s : RSeries) : RSeries :=
  let ps := (s.idx.zip s.vals).filter fun p => p.2.isSome
  { idx := ps.map (·.1), vals := ps.map (·.2) }

def reindexR (s : RSeries) (idx : List Int) (m : Option Dir) : RSeries :=
  match m with
  | Option.none => { idx := idx, vals := idx.map (valueAtR s) }
  | some .ffill => let src := nonaR s; { idx := idx, vals := idx.map fun t => (posAsOf src.idx t).bind fun i => (src.vals[i]?).join }
  | some .bfill => let src := nonaR s; { idx := idx, vals := idx.map fun t => (posNext src.idx t).bind fun i => (src.vals[i]?).join }

def indexesOf (xs : List Operand) : List (List Int) :=
  xs.filterMap fun x => match x with | .ts s => some s.idx | .num _ => Option.none

/-- `df_reindex(args, df_index(args, how), method)`: scalars pass, no Series ⇒ no index ⇒ nothing happens -/
def alignAll (how : How) (m : Option Dir) (xs : List Operand) : List Operand :=
  match joinIndex how (indexesOf xs) with
  | Option.none => xs
  | some ix => xs.map fun x => match x with
      | .ts s => .ts (reindexR s ix m)
      | .num q => .num q

/-! ### the kernels, lines 1061-1092 (on operands already on one index) -/

def kernel (op : Op) : Operand → Operand → Operand
  | .ts a, .ts b => .ts { idx := a.idx, vals := (a.vals.zip b.vals).map fun p => op.appO p.1 p.2 }
  | .ts a, .num q => .ts { idx := a.idx, vals := a.vals.map fun x => op.appO x q }     -- a scalar broadcasts
  | .num q, .ts b => .ts { idx := b.idx, vals := b.vals.map fun y => op.appO q y }
  | .num p, .num q => .num (op.appO p q)

/-- a presync-decorated kernel: `_add_(a, b, join, method)` -/
def binop (op : Op) (how : How) (m : Option Dir) (a b : Operand) : Operand :=
  match alignAll how m [a, b] with
  | [a', b'] => kernel op a' b'
  | _ => .num Option.none   -- unreachable: alignAll keeps the length

/-- `reducer(f, seq)`: left fold without a start value; an empty sequence gives `None` -/
def reducer (f : Operand → Operand → Operand) : List Operand → Option Operand
  | [] => Option.none
  | x :: xs => some (xs.foldl f x)

/-- the public wrappers, lines 1133-1318: `add_ / mul_` reduce `as_list(a) + as_list(b)` left to right,
`sub_ / div_` first reduce a list on either side with `add_ / mul_` -/
def opList (op : Op) (how : How) (m : Option Dir) (as bs : List Operand) : Option Operand :=
  match op with
  | .add => reducer (binop .add how m) (as ++ bs)
  | .mul => reducer (binop .mul how m) (as ++ bs)
  | .sub => do
      let a ← reducer (binop .add how m) as
      let b ← reducer (binop .add how m) bs
      pure (binop .sub how m a b)
  | .div => do
      let a ← reducer (binop .mul how m) as
      let b ← reducer (binop .mul how m) bs
      pure (binop .div how m a b)

/-! ### NaN-skipping aggregates over Series, lines 1434-1508 (`join='oj'` by default) -/

def seriesOf (xs : List Operand) : List RSeries :=
  xs.filterMap fun x => match x with | .ts s => some s | .num _ => Option.none

/-- values of all (aligned) operands at position `k` -/
def column (ss : List RSeries) (k : Nat) : List (Option Rat) := ss.map fun s => (s.vals[k]?).join

def countAt (vs : List (Option Rat)) : Nat := (vs.filter (·.isSome)).length
def sumAt (vs : List (Option Rat)) : Rat := (vs.map fun v => v.getD 0).foldl (· + ·) 0

inductive Agg where
  | sum | mean | count
  deriving Repr, DecidableEq, Inhabited

def Agg.at (g : Agg) (vs : List (Option Rat)) : Option Rat :=
  match g with
  | .count => some (countAt vs : Nat)
  | .sum => if countAt vs = 0 then Option.none else some (sumAt vs)
  | .mean => if countAt vs = 0 then Option.none else some (sumAt vs / (countAt vs : Nat))

/-- what an operand (already on the joint index) contributes at position `k`: a Series its value there, a scalar
itself at every position (`_mask(5.0, nan)` is the bool `False`, `mask2v` keeps the number, `sum` broadcasts it) -/
def Operand.at : Operand → Nat → Option Rat
  | .ts s, k => (s.vals[k]?).join
  | .num q, _ => q

/-- `df_sum / df_mean / df_count(list of Series and scalars, join, method)` with at least one Series: every Series is
put on the joint index of the Series, a scalar counts at every timestamp (a NaN scalar never) -/
def aggregate (g : Agg) (how : How) (m : Option Dir) (xs : List Operand) : Option RSeries :=
  match joinIndex how (indexesOf xs) with
  | Option.none => Option.none
  | some ix =>
    let ys := xs.map fun x => match x with
      | .ts s => Operand.ts (reindexR s ix m)
      | .num q => Operand.num q
    some { idx := ix, vals := (List.range ix.length).map fun k => g.at (ys.map (·.at k)) }

/-- ... without any Series (`is_num(n)`, lines 1470 / 1497): the aggregate of the scalars, a scalar -/
def aggregateNum (g : Agg) (xs : List Operand) : Option Rat :=
  g.at (xs.map fun x => match x with | .num q => q | .ts _ => Option.none)

end Pyg.Ops
