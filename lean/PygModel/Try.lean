/-
  PygModel.Try — the code of the `try_*` wrappers (src/pyg_base/_decorators.py:186-254) over an ARBITRARY wrapped
  function `f : A → Except E V` (arguments, exceptions and values of any type): the statements of the python
  methods one by one, without reference to signatures, binding or the other decorators.

      class try_value:                                   class try_back:
        def wrapped(self, *args, **kwargs):                def wrapped(self, *args, **kwargs):
          for i in range(self.repeat):                       try:
              try:                                               return self.function(*args, **kwargs)
                  return self.function(*args, **kwargs)      except Exception:
              except Exception:                                  return getcallarg(self.function, args, kwargs)
                  if self.sleep: time.sleep(self.sleep)
          if self.return_value:
              try:
                  return self.function(*args, **kwargs)
              except Exception as e:
                  if self.verbose: logger.warning(...)
                  return copy(self.value)
          else:
              return self.function(*args, **kwargs)

  `try_nan`, `try_zero`, `try_none`, `try_true`, `try_false`, `try_list` are `try_value` objects with a preset
  `value` (and `repeat = 0`, `return_value = True`): `tryPresets`.
-/
import PygModel.Basic

namespace Pyg

/-- the independent reading of "returns the fallback exactly when f raises":
`match r with | ok v => v | error _ => fallback` for the outcome `r` of the wrapped function's body -/
def resultOr {E V : Type} (r : Except E V) (fallback : V) : V :=
  match r with
  | .ok v => v
  | .error _ => fallback

/-- `try_value.wrapped`: `rep` swallowed attempts, then the last statement -/
def tryValueCode {A E V : Type} (f : A → Except E V) (rep : Nat) (returnValue : Bool) (value : V) (a : A) :
    Except E V :=
  match rep with
  | 0 =>
    if returnValue then
      match f a with
      | .ok v => .ok v
      | .error _ => .ok value
    else f a
  | n + 1 =>
    match f a with
    | .ok v => .ok v
    | .error _ => tryValueCode f n returnValue value a

/-- `try_back.wrapped`; `first` is `getcallarg(self.function, args, kwargs)` -/
def tryBackCode {A E V : Type} (f : A → Except E V) (first : A → V) (a : A) : Except E V :=
  match f a with
  | .ok v => .ok v
  | .error _ => .ok (first a)

/-- the preset wrappers of _decorators.py:249-254 and their `value` -/
def tryPresets : List (String × Val) :=
  [("try_nan", .cell .nan), ("try_zero", .cell (.int 0)), ("try_none", .cell .none),
   ("try_true", .cell (.bool true)), ("try_false", .cell (.bool false)), ("try_list", .list [])]

/-! ### `except Exception` does not catch everything (round k6)

The handlers of `try_value.wrapped` / `try_back.wrapped` are `except Exception`: an exception that is a `BaseException` but not
an `Exception` (`KeyboardInterrupt`, `SystemExit`, `GeneratorExit`, `asyncio.CancelledError`) passes through every one of them -
out of the `repeat` loop too.  `catches e` says whether `e` is an `Exception`. -/

/-- the outcome of a `try_*` wrapper given the outcome `r` of the wrapped function: the independent reading -/
def resultOrB {E V : Type} (catches : E → Bool) (r : Except E V) (fallback : V) : Except E V :=
  match r with
  | .ok v => .ok v
  | .error e => if catches e then .ok fallback else .error e

/-- `try_value.wrapped` with `except Exception` catching exactly the exceptions `catches` -/
def tryValueCodeB {A E V : Type} (catches : E → Bool) (f : A → Except E V) (rep : Nat) (returnValue : Bool) (value : V)
    (a : A) : Except E V :=
  match rep with
  | 0 =>
    if returnValue then
      match f a with
      | .ok v => .ok v
      | .error e => if catches e then .ok value else .error e
    else f a
  | n + 1 =>
    match f a with
    | .ok v => .ok v
    | .error e => if catches e then tryValueCodeB catches f n returnValue value a else .error e

/-- `try_back.wrapped` likewise -/
def tryBackCodeB {A E V : Type} (catches : E → Bool) (f : A → Except E V) (first : A → V) (a : A) : Except E V :=
  match f a with
  | .ok v => .ok v
  | .error e => if catches e then .ok (first a) else .error e

end Pyg
