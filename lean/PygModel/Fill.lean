/-
  PygModel.Fill — model of `df_fillna` / `nona` (C12).
  Anchors: src/pyg_base/_pandas.py:205-253 `_df_fillna`, 255-316 `df_fillna`, 318-370 `_nona` / `nona`.

  A column is a list of optional exact integers (`none` = NaN, see TSBasic); a frame is one index
  (strictly increasing integer times) with named columns over it.  A `pd.Series` is a frame with one
  column (the code's `len(df.shape) == 1` branches coincide with the column-wise 2-d branches on one
  column); a numpy array is the column values alone and goes through a temporary pandas object with a
  `RangeIndex` exactly as line 211-212 does.

  pandas behaviour is *defined* here, i.e. assumed (the correspondence check samples it):
  `ffill/bfill(limit)`, `fillna(value, limit)`, boolean-mask row selection, `last_valid_index`,
  `res[res.index > t] = v`, the label slice `res.loc[t:]` on a sorted index, `pd.concat(axis=1)` of
  columns over one index.
-/
import PygModel.TSBasic

namespace Pyg.Fill
open Pyg

abbrev Col := List (Option Int)

/-! ### one column -/

/-- may a NaN be filled when `k` NaNs of the current run were already filled? (`limit=None`: always) -/
def within (lim : Option Nat) (k : Nat) : Bool :=
  match lim with
  | Option.none => true
  | some l => decide (k < l)

/-- pandas `ffill(limit)`: `last` = last valid value seen, `k` = NaNs since then -/
def ffillAux (lim : Option Nat) : Option Int → Nat → Col → Col
  | _, _, [] => []
  | _, _, some v :: xs => some v :: ffillAux lim (some v) 0 xs
  | last, k, Option.none :: xs => (if within lim k then last else Option.none) :: ffillAux lim last (k + 1) xs

def ffill (lim : Option Nat) (xs : Col) : Col := ffillAux lim Option.none 0 xs

/-- pandas `bfill(limit)` is `ffill` read from the other end -/
def bfill (lim : Option Nat) (xs : Col) : Col := (ffill lim xs.reverse).reverse

/-- pandas `fillna(value=c, limit)`: the first `limit` NaNs of the column are replaced -/
def fillConst (c : Int) : Option Nat → Col → Col
  | _, [] => []
  | lim, some v :: xs => some v :: fillConst c lim xs
  | Option.none, Option.none :: xs => some c :: fillConst c Option.none xs
  | some 0, Option.none :: xs => Option.none :: fillConst c (some 0) xs
  | some (l + 1), Option.none :: xs => some c :: fillConst c (some l) xs

/-- `Series.last_valid_index()`: the time of the last non-NaN cell -/
def lastValidTime : List Int → Col → Option Int
  | [], _ => Option.none
  | _, [] => Option.none
  | t :: ts, x :: xs =>
    match lastValidTime ts xs with
    | some r => some r
    | Option.none => if x.isSome then some t else Option.none

/-- `Series.first_valid_index()` -/
def firstValidTime : List Int → Col → Option Int
  | [], _ => Option.none
  | _, [] => Option.none
  | t :: ts, x :: xs => if x.isSome then some t else firstValidTime ts xs

/-- `'ffill_na'` (`inv = none`) / `'ffill_0'` (`inv = some 0`) on one Series, lines 223-229 (repaired:
`last_valid` is taken from the running result):
```
last_valid = res.last_valid_index()
if last_valid is not None:
    res = res.ffill(**params)
    res[res.index>last_valid] = invalid
``` -/
def ffillTail (inv : Option Int) (lim : Option Nat) (idx : List Int) (xs : Col) : Col :=
  match lastValidTime idx xs with
  | Option.none => xs
  | some t => (idx.zip (ffill lim xs)).map fun p => if p.1 > t then inv else p.2

/-! ### frames -/

structure Frame where
  idx : List Int
  cols : List (String × Col)
  deriving Repr, DecidableEq, Inhabited

namespace Frame

def nrows (f : Frame) : Nat := f.idx.length
def names (f : Frame) : List String := f.cols.map (·.1)
def vals (f : Frame) : List Col := f.cols.map (·.2)

/-- every column is as long as the index -/
def Rect (f : Frame) : Prop := ∀ c ∈ f.cols, c.2.length = f.idx.length
/-- strictly increasing index -/
def Sorted (f : Frame) : Prop := f.idx.Pairwise (· < ·)

instance (f : Frame) : Decidable f.Rect := by unfold Rect; infer_instance
instance (f : Frame) : Decidable f.Sorted := by unfold Sorted; infer_instance

/-- row `i`: its time and its cells in column order -/
def row (f : Frame) (i : Nat) : Int × List (Option Int) :=
  (f.idx.getD i 0, f.cols.map fun c => c.2.getD i Option.none)

/-- the list-of-rows view -/
def rows (f : Frame) : List (Int × List (Option Int)) := (List.range f.nrows).map f.row

def mapCols (g : Col → Col) (f : Frame) : Frame := { f with cols := f.cols.map fun c => (c.1, g c.2) }

/-- positional row selection (`df[mask]`, `df.iloc[...]`) -/
def gather (pos : List Nat) (f : Frame) : Frame :=
  { idx := pos.map fun i => f.idx.getD i 0,
    cols := f.cols.map fun c => (c.1, pos.map fun i => c.2.getD i Option.none) }

/-- `~np.isnan(res)` then `.max(axis=1)`: does row `i` hold a non-NaN cell? -/
def rowValid (f : Frame) (i : Nat) : Bool := f.cols.any fun c => (c.2.getD i Option.none).isSome

/-- time of the first row that holds a non-NaN cell: `nonan[nonan.values].index[0]` -/
def firstValidRowTime (f : Frame) : Option Int :=
  ((List.range f.nrows).find? f.rowValid).map fun i => f.idx.getD i 0

end Frame

/-- a `pd.Series` as a one-column frame -/
def ofTS (ts : TS) : Frame := { idx := ts.index, cols := [("", ts.values)] }

def toTS (f : Frame) : TS :=
  match f.cols with
  | [c] => f.idx.zip c.2
  | _ => []

inductive Method where
  | const (c : Int)     -- a number
  | ffill
  | bfill               -- 'bfill' / 'backfill'
  | ffillNa             -- 'ffill_na'
  | ffill0              -- 'ffill_0'
  | fnna
  | nona
  deriving Repr, DecidableEq, Inhabited

/-- pandas rejects `limit=0` ("Limit must be greater than 0") in `ffill/bfill/fillna` -/
def limOk (lim : Option Nat) : Bool := lim != some 0

/-- one pass of the `for m in methods` loop, lines 214-252 -/
def step (lim : Option Nat) (f : Frame) (m : Method) : Res Frame :=
  match m with
  | .const c => if limOk lim then .ok (f.mapCols (fillConst c lim)) else .error .value
  | .ffill => if limOk lim then .ok (f.mapCols (ffill lim)) else .error .value
  | .bfill => if limOk lim then .ok (f.mapCols (bfill lim)) else .error .value
  | .ffillNa =>
      -- 2-d: column by column, then `pd.concat(axis=1)` over the common index (line 231)
      if limOk lim || f.cols.all (fun c => (lastValidTime f.idx c.2).isNone) then
        .ok (f.mapCols (ffillTail Option.none lim f.idx))
      else .error .value
  | .ffill0 =>
      if limOk lim || f.cols.all (fun c => (lastValidTime f.idx c.2).isNone) then
        .ok (f.mapCols (ffillTail (some 0) lim f.idx))
      else .error .value
  | .fnna =>
      -- lines 239-244: `res.loc[first valid label:]`, or `res.iloc[:0]` when no row is valid
      match f.firstValidRowTime with
      | some t0 => .ok (f.gather ((List.range f.nrows).filter fun i => decide (f.idx.getD i 0 ≥ t0)))
      | Option.none => .ok (f.gather [])
  | .nona =>
      -- line 246: `res[nonan.values]`
      .ok (f.gather ((List.range f.nrows).filter f.rowValid))

/-- `_df_fillna` on a pandas object: the methods in sequence (an empty list returns the input) -/
def fillna (ms : List Method) (lim : Option Nat) (f : Frame) : Res Frame :=
  ms.foldlM (step lim) f

/-- the temporary pandas object of line 212: `pd.Series(arr)` / `pd.DataFrame(arr)` carry a `RangeIndex` -/
def ofArr (cols : List Col) : Frame :=
  { idx := (List.range (cols.headD []).length).map Int.ofNat,
    cols := cols.zipIdx.map fun (c, j) => (toString j, c) }

/-- array path, lines 211-212: through the temporary pandas object, then `.values` -/
def fillnaArr (ms : List Method) (lim : Option Nat) (cols : List Col) : Res (List Col) :=
  match ms with
  | [] => .ok cols
  | _ => (fillna ms lim (ofArr cols)).map Frame.vals

/-! ### `nona(df, value=nan, edge)` -/

/-- lines 319-334 with `value = nan`: `mask.min(axis=1)` = the row is entirely NaN; `edge = 1` keeps
everything up to the last surviving row, `edge = -1` everything from the first one (closed bounds) -/
def nona (edge : Option Int) (f : Frame) : Res Frame :=
  let res := f.gather ((List.range f.nrows).filter f.rowValid)
  match edge with
  | Option.none => .ok res
  | some e =>
    if res.idx.isEmpty then .ok res
    else if e == 1 then
      let ub := res.idx.getLastD 0
      .ok (f.gather ((List.range f.nrows).filter fun i => decide (f.idx.getD i 0 ≤ ub)))
    else if e == -1 then
      let lb := res.idx.headD 0
      .ok (f.gather ((List.range f.nrows).filter fun i => decide (f.idx.getD i 0 ≥ lb)))
    else .error .other   -- the code falls off the end and returns None; not generated

/-- arrays, `edge = None`: `df[~mask]` -/
def nonaArr (cols : List Col) : List Col :=
  ((ofArr cols).gather ((List.range (ofArr cols).nrows).filter (ofArr cols).rowValid)).vals

/-- arrays with `edge` (repo fix C12-E1; before it `not is_pd(df)` made an array ignore `edge`): cut by POSITION - `edge = 1`
keeps everything up to the last row holding a value, `edge = -1` everything from the first one; no such row: nothing -/
def nonaArrE (edge : Option Int) (cols : List Col) : Res (List Col) :=
  let valid := (List.range (ofArr cols).nrows).filter (ofArr cols).rowValid
  match edge with
  | Option.none => .ok (nonaArr cols)
  | some e =>
    if valid.isEmpty then .ok (nonaArr cols)
    else if e == 1 then .ok (cols.map fun c => c.take (valid.getLastD 0 + 1))
    else if e == -1 then .ok (cols.map fun c => c.drop (valid.headD 0))
    else .error .other

end Pyg.Fill
