/-
  PygModel.Lift — model of `loops._wrapped` for `loop(list, tuple, dict)`
  (src/pyg_base/_loop.py:45-91 `_item_by_key` / `_item_by_i`, 190-240 `loops.wrapped` / `_wrapped`;
  src/pyg_base/_dict.py:163-173 `loop`).

  Values are `Val` (cells, lists, tuples, string-keyed dicts in insertion order).  The pandas / numpy
  branches of `_wrapped`, `_item_by_i`, `_item_by_key` are not modelled (the property is about lists,
  tuples and dicts).  The lifted function is a parameter `f : LeafFn`: it receives the leaf, the
  positional companions and the keyword companions, and may raise.

  The model is of the REPAIRED code: the companions handed down are a tuple, not a generator
  (finding F9: the generator is consumed by the first element of a nested container).
-/
import PygModel.Basic

namespace Pyg

abbrev KW := List (String × Val)

/-- the function being lifted: `f(leaf, *args, **kwargs)` -/
abbrev LeafFn := Val → List Val → KW → Res Val

/-- `{k : g(v) for k, v in kwargs.items()}` -/
def mapKW (g : Val → Val) (kw : KW) : KW := kw.map fun p => (p.1, g p.2)

/-- `value[i]` for `i < len(value)` (the code only indexes below the length it has just tested) -/
def getIdx (xs : List Val) (i : Nat) : Val := xs.getD i (.cell .none)

/-- `value[key]` for a key that is present -/
def getKey (kvs : KW) (key : String) : Val := (kvs.lookup key).getD (.cell .none)

/-- `sorted(d.keys())` on string keys: insertion sort by codepoint order -/
def insertStr (k : String) : List String → List String
  | [] => [k]
  | h :: t => if k ≤ h then k :: h :: t else h :: insertStr k t

def sortStr : List String → List String
  | [] => []
  | h :: t => insertStr h (sortStr t)

def keysOf (kvs : KW) : List String := kvs.map (·.1)

mutual
  /-- `_item_by_i(value, i, n)` (_loop.py:70-89) on lists and tuples: a sequence of length `n` gives its
  `i`-th element, a sequence of another length is searched element by element, anything else
  (scalars, strings, dicts) is passed whole. -/
  def itemByI (i n : Nat) : Val → Val
    | .list xs => if xs.length = n then getIdx xs i else .list (itemByIList i n xs)
    | .tuple xs => if xs.length = n then getIdx xs i else .tuple (itemByIList i n xs)
    | v => v
  def itemByIList (i n : Nat) : List Val → List Val
    | [] => []
    | x :: xs => itemByI i n x :: itemByIList i n xs
end

mutual
  /-- `_item_by_key(value, key, keys)` (_loop.py:45-68, `i = None`): a dict with exactly the sorted key
  list `keys` gives `value[key]`, a dict with other keys is searched value by value, anything else
  (scalars, strings, lists, tuples) is passed whole. -/
  def itemByKey (key : String) (keys : List String) : Val → Val
    | .dict kvs =>
        if sortStr (keysOf kvs) = keys then getKey kvs key else .dict (itemByKeyKVs key keys kvs)
    | v => v
  def itemByKeyKVs (key : String) (keys : List String) : KW → KW
    | [] => []
    | (k, v) :: kvs => (k, itemByKey key keys v) :: itemByKeyKVs key keys kvs
end

/-- `axis = kwargs.pop('axis', 0)` (_loop.py:207): a keyword called `axis` never reaches the function -/
def dropAxis (kw : KW) : KW := kw.filter fun p => p.1 != "axis"

mutual
  /-- `loops._wrapped(arg, args, kwargs)` with `types = (list, tuple, dict)` (_loop.py:206-240) -/
  def wrapped (f : LeafFn) : Val → List Val → KW → Res Val
    | .dict kvs, args, kw =>
        match wrappedKVs f (sortStr (keysOf kvs)) kvs args (dropAxis kw) with
        | .error e => .error e
        | .ok r => .ok (.dict r)
    | .list xs, args, kw =>
        match wrappedSeq f xs.length 0 xs args (dropAxis kw) with
        | .error e => .error e
        | .ok r => .ok (.list r)
    | .tuple xs, args, kw =>
        match wrappedSeq f xs.length 0 xs args (dropAxis kw) with
        | .error e => .error e
        | .ok r => .ok (.tuple r)
    | .cell c, args, kw => f (.cell c) args (dropAxis kw)
  /-- `[self._wrapped(arg[i], tuple(_item_by_i(a,i,n) for a in args), {k: _item_by_i(v,i,n) ...}) for i in range(n)]`,
  evaluated left to right; the first exception propagates -/
  def wrappedSeq (f : LeafFn) (n : Nat) : Nat → List Val → List Val → KW → Res (List Val)
    | _, [], _, _ => .ok []
    | i, x :: xs, args, kw =>
        match wrapped f x (args.map (itemByI i n)) (mapKW (itemByI i n) kw) with
        | .error e => .error e
        | .ok y =>
          match wrappedSeq f n (i + 1) xs args kw with
          | .error e => .error e
          | .ok ys => .ok (y :: ys)
  /-- `{key : self._wrapped(arg[key], tuple(_item_by_key(a,key,keys) ...), {...}) for key in arg.keys()}` -/
  def wrappedKVs (f : LeafFn) (keys : List String) : KW → List Val → KW → Res KW
    | [], _, _ => .ok []
    | (k, v) :: kvs, args, kw =>
        match wrapped f v (args.map (itemByKey k keys)) (mapKW (itemByKey k keys) kw) with
        | .error e => .error e
        | .ok y =>
          match wrappedKVs f keys kvs args kw with
          | .error e => .error e
          | .ok ys => .ok ((k, y) :: ys)
end

/-- `loops.wrapped(*args, **kwargs)` (_loop.py:190-204): the looped argument is the first positional one,
or the keyword named like the function's first parameter `top`; with neither the function is called as
is, which for a function whose first parameter has no default is Python's `TypeError`. -/
def callLifted (f : LeafFn) (top : String) (args : List Val) (kw : KW) : Res Val :=
  match args with
  | arg :: rest => wrapped f arg rest kw
  | [] =>
    match kw.lookup top with
    | some arg => wrapped f arg [] (kw.filter fun p => p.1 != top)
    | Option.none => .error .type

/-! ### paths: the vocabulary of the property statement ("same shape", "leaves", "matched element by
element") -/

inductive Step where
  | idx (i : Nat)
  | key (k : String)
  deriving Repr, DecidableEq

abbrev Path := List Step

def Val.child : Val → Step → Option Val
  | .list xs, .idx i => xs[i]?
  | .tuple xs, .idx i => xs[i]?
  | .dict kvs, .key k => kvs.lookup k
  | _, _ => Option.none

/-- the sub-value at a path -/
def Val.at (v : Val) : Path → Option Val
  | [] => some v
  | s :: p => match v.child s with
    | some c => c.at p
    | Option.none => Option.none

/-- python dicts have distinct keys: every dict inside `v` does -/
def Val.KeysNodup (v : Val) : Prop := ∀ p kvs, v.at p = some (.dict kvs) → (keysOf kvs).Nodup

/-- what one level of `_wrapped` does to a companion when it descends into child `s` of `v` -/
def selStep (v : Val) (s : Step) (c : Val) : Val :=
  match v, s with
  | .list xs, .idx i => itemByI i xs.length c
  | .tuple xs, .idx i => itemByI i xs.length c
  | .dict kvs, .key k => itemByKey k (sortStr (keysOf kvs)) c
  | _, _ => c

/-- the part of companion `c` that reaches the leaf of `v` at path `p` -/
def select (v : Val) : Path → Val → Val
  | [], c => c
  | s :: p, c => match v.child s with
    | some v' => select v' p (selStep v s c)
    | Option.none => c

/-- the recording function used by the driver: `lambda a, *args, **kw: (a, args, kw)`; a string leaf
starting with `!` raises (`!v…` ValueError, `!k…` KeyError, otherwise TypeError) so that the order of
evaluation is observable. -/
def recorder : LeafFn := fun a args kw =>
  match a with
  | .cell (.str s) =>
      if s.startsWith "!v" then .error .value
      else if s.startsWith "!k" then .error .key
      else if s.startsWith "!" then .error .type
      else .ok (.tuple [a, .tuple args, .dict kw])
  | _ => .ok (.tuple [a, .tuple args, .dict kw])

/-- the recorder as a python function whose first parameter is CALLED `top` (`def rec(a, *args, **kw)`): a leaf call that also
carries a keyword named `top` cannot be bound (`rec(1, 3, a=5)`: "got multiple values for argument 'a'") - python's `TypeError`,
raised before the body runs.  `loop(...)(rec)([1,2], [3,4], a=[5,6])` therefore raises at the first leaf (and returns `[]` on an
empty container, which makes no leaf call). -/
def recorderNamed (top : String) : LeafFn := fun a args kw =>
  if (kw.lookup top).isSome then .error .type else recorder a args kw

/-- `lambda a, *args, **kw: (a, args, kw)` without the raising leaves (used for the library's text helpers:
the harness applies the library's own leaf function to the recorded leaf calls) -/
def recorderPure : LeafFn := fun a args kw => .ok (.tuple [a, .tuple args, .dict kw])

end Pyg
