/-
  PygModel.PerDict — model of `pyg_base._perdictable`: `_item` (lines 63-107), `join` (110-211),
  `_join_dictable_with_defaults` (19-61) and `perdictable._value_output` (297-342) for a function
  without `.output`, `if_none` ∈ {False, True}, `output_is_input = True`, `include_inputs = False`;
  `renames` = `None` or a dict parameter → column (`pdJoinR`, `perdictableR`: the renaming
  `d[key] = d[renames[key]]` of lines 85-92 is a pass over the inputs before `join` proper).  Built on the `join` / `xor` of PygModel/Join.lean (`d1 * d2`, `d1 / d2`).

  The lifted function is abstract: `f : List Cell → Val` receives the values of its declared
  parameters; the model returns the result together with the *log* of calls of `f`, in call order.
  "today" (`dt(0)`) is an input.   Core Lean only (linked into the driver).
-/
import PygModel.Join
import PygModel.DateParse

namespace Pyg

/-- an input of the lifted function: a scalar or a table -/
inductive PInput where
  | scalar (c : Cell)
  | table (t : Table)

def PInput.isTable : PInput → Bool
  | .table _ => true
  | .scalar _ => false

/-! ### small table operations used by `join` -/

/-- `d[cols]` for a list of column names (`KeyError` when one is missing) -/
def Table.select (t : Table) (cols : List String) : Res Table :=
  cols.mapM fun k => match t.col? k with
    | some xs => .ok (k, xs)
    | none => .error .key

/-- `d.rename(**{old: new})` -/
def Table.rename (t : Table) (old new : String) : Table :=
  t.map fun c => if c.1 == old then (new, c.2) else c

/-- `d(**{k: v})` for a constant `v`: the column is set to `[v] * len(d)` (`[v]` when `d` has no
column yet); an existing column keeps its position -/
def Table.setConst (t : Table) (k : String) (v : Cell) : Table :=
  if t.isEmpty then [(k, [v])] else
  let col := List.replicate t.nrows v
  if t.cols.contains k then t.map fun c => if c.1 == k then (k, col) else c
  else t ++ [(k, col)]

def Table.setConsts (t : Table) (kvs : List (String × Cell)) : Table :=
  kvs.foldl (fun t kv => t.setConst kv.1 kv.2) t

/-- `a + b` = `dictable.concat(a, b)`: union of the columns, absent cells `None`.  (The column order
of the implementation is a python `set` order; it is never compared.) -/
def Table.concat2 (a b : Table) : Table :=
  let cols := a.cols ++ b.cols.filter (fun k => !a.cols.contains k)
  cols.map fun k =>
    (k, (a.col? k).getD (List.replicate a.nrows .none) ++ (b.col? k).getD (List.replicate b.nrows .none))

def cellOfVal : Val → Option Cell
  | .cell c => some c
  | _ => none

def VTable.toTable (t : VTable) : Option Table :=
  t.mapM fun c => (c.2.mapM cellOfVal).map fun xs => (c.1, xs)

/-- `a * b`: inner join on the shared columns (cross join when there is none) -/
def Table.mul (a b : Table) : Option (Res Table) :=
  match join a b none none .pair with
  | some (.ok v) => (VTable.toTable v).map .ok
  | some (.error e) => some (.error e)
  | none => none

/-- `a / b`: the rows of `a` whose shared-column key is not in `b` (`a` itself without shared column) -/
def Table.div (a b : Table) : Res Table := xor a b none none 0

/-! ### `_item`: the columns of one input that take part -/

/-- `_item(d, key, on)` with `renames = None`: keep the `on` columns the table has plus the value
column, which is the column named like the parameter, else `data`, else the only other column -/
def item (d : Table) (key : String) (on : List String) : Res Table :=
  let on' := linter d.cols on
  if d.cols.contains key then d.select (on' ++ [key])
  else if d.cols.contains "data" && !on'.contains "data" then (d.rename "data" key).select (on' ++ [key])
  else if d.cols.length = on'.length + 1 then
    match lminus d.cols on' with
    | [other] => (d.rename other key).select (on' ++ [key])
    | _ => .error .key
  else .error .key

/-! ### `_join_dictable_with_defaults` -/

abbrev TblDef := Option Table × List (String × Cell)

def updDefaults (a b : List (String × Cell)) : List (String × Cell) :=
  a.filter (fun kv => !(b.map (·.1)).contains kv.1) ++ b

/-- lines 43-61 -/
def joinDef (x y : TblDef) : Option (Res TblDef) :=
  let defaults := updDefaults x.2 y.2
  match x.1, y.1 with
  | none, d2 => some (.ok (d2, defaults))
  | some d1, none => some (.ok (some d1, defaults))
  | some d1, some d2 =>
    match d1.mul d2 with
    | none => none
    | some (.error e) => some (.error e)
    | some (.ok d) =>
      let r1 : Res Table :=
        if x.2.isEmpty then .ok d else (d2.div d1).map fun extra => d.concat2 (extra.setConsts x.2)
      match r1 with
      | .error e => some (.error e)
      | .ok d' =>
        let r2 : Res Table :=
          if y.2.isEmpty then .ok d' else (d1.div d2).map fun extra => d'.concat2 (extra.setConsts y.2)
        match r2 with
        | .error e => some (.error e)
        | .ok d'' => some (.ok (some d'', defaults))

/-- `reduce(function, sequence[1:], sequence[0])` over options-of-results -/
def foldOR {α} (f : α → α → Option (Res α)) : α → List α → Option (Res α)
  | acc, [] => some (.ok acc)
  | acc, x :: xs =>
    match f acc x with
    | some (.ok acc') => foldOR f acc' xs
    | other => other

/-- `res.sort(as_list(on))`: rows ordered by the dict of their `on` cells (`cmp` of dicts compares
the values in alphabetical order of the column names); `KeyError` if an `on` column is absent;
`ValueError` for `on = []` on a non-empty table (the zip(*[]) unpacking of `dictable.sort`) -/
def Table.sortOn (t : Table) (on : List String) : Res Table :=
  if t.nrows = 0 then .ok t else
  if on.isEmpty then .error .value else do
    let sel ← t.select on
    let keys : List Val := (List.range t.nrows).map fun i =>
      .tuple [.dict (sel.map fun c => (c.1, .cell (c.2.getD i .none)))]
    pure (t.gatherRows (sortIdx keys))

/-- lines 202-209 of `join`: the table inputs (after `_item`) reduced to one table — `tbl1` = product
of the tables without default, `tbl_def2` = outer join of the tables with default, then
`_join_dictable_with_defaults((tbl1, {}), tbl_def2)`.  `defaults`: already restricted to the inputs. -/
def joinTables (tables : List (String × Table)) (defaults : List (String × Cell)) :
    Option (Res (Option Table)) :=
  let isDef (k : String) : Bool := (defaults.map (·.1)).contains k
  let noDef := (tables.filter fun kv => !isDef kv.1).map (·.2)
  let withDef : List TblDef := (tables.filter fun kv => isDef kv.1).map fun kv =>
    (some kv.2, defaults.filter fun d => d.1 == kv.1)
  -- tbl1 = reducer(mul, no_defaults.values())
  let tbl1 : Option (Res (Option Table)) := match noDef with
    | [] => some (.ok none)
    | d :: ds => match foldOR Table.mul d ds with
      | some (.ok t) => some (.ok (some t))
      | some (.error e) => some (.error e)
      | none => none
  -- tbl_def2 = reducer(_join_dictable_with_defaults, pairs, (None, None))
  let tblDef2 : Option (Res TblDef) := match withDef with
    | [] => some (.ok (none, []))
    | p :: ps => foldOR joinDef p ps
  match tbl1, tblDef2 with
  | some (.ok t1), some (.ok td2) =>
    match joinDef (t1, []) td2 with
    | some (.ok (r, _)) => some (.ok r)
    | some (.error e) => some (.error e)
    | none => none
  | some (.error e), _ => some (.error e)
  | _, some (.error e) => some (.error e)
  | _, _ => none

/-- `join(inputs, on, defaults)` (lines 195-211); `inputs` in dict order.
`none`: a step the model does not cover (never for generated inputs). -/
def pdJoin (inputs : List (String × PInput)) (on : List String) (defaults : List (String × Cell)) :
    Option (Res Table) :=
  let defaults := defaults.filter fun kv => (inputs.map (·.1)).contains kv.1
  let seqR : Res (List (String × PInput)) := inputs.mapM fun kv => match kv.2 with
    | .table d => (item d kv.1 on).map fun d' => (kv.1, .table d')
    | .scalar c => .ok (kv.1, .scalar c)
  match seqR with
  | .error e => some (.error e)
  | .ok seq =>
    let scalars : List (String × Cell) := seq.filterMap fun kv => match kv.2 with
      | .scalar c => some (kv.1, c)
      | .table _ => none
    let tables : List (String × Table) := seq.filterMap fun kv => match kv.2 with
      | .table d => some (kv.1, d)
      | .scalar _ => none
    if tables.isEmpty then some (.ok (scalars.map fun kv => (kv.1, [kv.2]))) else
    match joinTables tables defaults with
    | some (.ok (some d)) => some ((d.setConsts scalars).sortOn on)
    | some (.ok none) => none
    | some (.error e) => some (.error e)
    | none => none

/-! ### `perdictable(f, on = …, defaults = …)(**inputs)` -/

/-- what the lifted call returns -/
inductive PResult where
  | value (v : Val)          -- `f(...)` itself (all inputs scalars)
  | noRows (data : Option PInput)   -- no key survives: `inputs.get('data')`
  | table (t : VTable)       -- the `on` columns and the `data` column

/-- the arguments `f` receives on row `i`: the cells of its declared parameters -/
def rowArgs (t : Table) (params : List String) (i : Nat) : List Cell := params.map fun p => t.jcellAt p i

/-- the instant an expiry cell spells, as `dt(value)` reads it (line 332 since fix 7ea4860: "in any spelling dt() accepts"): a
datetime (a `datetime.date` arrives as its midnight), a date STRING (`'2000-01-01'`, `'20000101'`, `'01/02/2000'`, ... the C03
model `DateParse.dtStr`, uk dialect) or a NUMBER that `num2dt` reads as an absolute date (`20000101`; C03 `num2dtQ`).  `none`: a
spelling the model does not read - a number that `num2dt` takes as an offset from the wall clock, text outside the C03 grammar, a
spelling on which `dt` raises, bools; the driver answers `bad-op` for a call that carries one (never totalised silently). -/
def expiryDate : Cell → Option Int
  | .dt us => some us
  | .str s => match DateParse.dtStr true s with
    | some (.ok t) => some t
    | _ => none
  | .int n => match DateParse.num2dtQ (4 * n) with
    | .abs (.ok t) => some t
    | _ => none
  | _ => none

/-- a row is (re)computed when its expiry is `None` or not before today (line 332: `value is None or dt(value) >= today`) -/
def runExpiry (today : Int) : Cell → Bool
  | .none => true
  | c => match expiryDate c with
    | some us => decide (us ≥ today)
    | none => true

/-- the expiry cells the model reads: `None`, the missing date (`pd.NaT` / `np.datetime64('NaT')` / the string `'NaT'`, all of which
the driver hands over as the cell `.str "NaT"`: it spells no instant, so - like `None` - it is no "expiry date in the past" and the
row is recomputed; code: `not dt(value) < today` since the fix of review v2 W4) or a spelling of an absolute instant -/
def expiryCovered (c : Cell) : Bool := c == .none || c == .str "NaT" || (expiryDate c).isSome

/-- `is_none` -/
def Cell.isNone : Cell → Bool
  | .none => true
  | _ => false

/-- the row loop of line 336: returns the values and the log of calls.  `run_if_none` (lines 321-327)
is all-True without a `data` column, else all-False for `if_none = False` and `is_none(data)` for
`if_none = True` -/
def evalRows (ifNone : Bool) (f : List Cell → Val) (params : List String) (ds : Table) (hasData : Bool)
    (today : Int) : List Nat → List Val × List (List Cell)
  | [] => ([], [])
  | i :: is =>
    let rest := evalRows ifNone f params ds hasData today is
    if !hasData || (ifNone && (ds.jcellAt "data" i).isNone) || runExpiry today (ds.jcellAt "expiry" i) then
      let args := rowArgs ds params i
      (f args :: rest.1, args :: rest.2)
    else (.cell (ds.jcellAt "data" i) :: rest.1, rest.2)

/-- `_value_output` (lines 297-342).  `inputs`: the keyword arguments in call order (possibly
including `data`), `expiry`: the `expiry` argument (`scalar none` when omitted), `ifNone`: the
`if_none` attribute (False / True). -/
def perdictable (f : List Cell → Val) (params on : List String) (defaults : List (String × Cell))
    (inputs : List (String × PInput)) (expiry : PInput) (today : Int) (ifNone : Bool := false) :
    Option (Res (PResult × List (List Cell))) :=
  let inputs' := inputs ++ [("expiry", expiry)]
  -- lines 306-308: `data` and `expiry` always have the default None
  let defaults' := defaults ++
    (if (defaults.map (·.1)).contains "data" then [] else [("data", Cell.none)]) ++
    (if (defaults.map (·.1)).contains "expiry" then [] else [("expiry", Cell.none)])
  match pdJoin inputs' on defaults' with
  | none => none
  | some (.error e) => some (.error e)
  | some (.ok ds) =>
    if ds.nrows = 0 then
      some (.ok (.noRows ((inputs.find? (·.1 == "data")).map (·.2)), []))
    else if ds.nrows = 1 && !(inputs'.any fun kv => kv.2.isTable) then
      let args := rowArgs ds params 0
      some (.ok (.value (f args), [args]))
    else
      let hasData := ds.cols.contains "data"
      let (values, log) := evalRows ifNone f params ds hasData today (List.range ds.nrows)
      if on.isEmpty then some (.ok (.table [("data", values)], log)) else
      match ds.select on with
      | .error e => some (.error e)
      | .ok keyCols => some (.ok (.table (keyCols.toV ++ [("data", values)]), log))

/-! ### `renames` (a dict parameter → column name) -/

/-- `d[key] = xs`: in place when `key` is a column, else appended -/
def Table.setCol (t : Table) (k : String) (xs : List Cell) : Table :=
  if t.cols.contains k then t.map fun c => if c.1 == k then (k, xs) else c else t ++ [(k, xs)]

/-- lines 85-92 of `_item` for `renames` a dict: `d[key] = d[renames[key]]` when `key in renames`
(`KeyError` when the table has no such column).  The assignment is made on the caller's table. -/
def applyRename (d : Table) (key : String) (renames : List (String × String)) : Res Table :=
  match renames.find? (·.1 == key) with
  | none => .ok d
  | some kr => match d.col? kr.2 with
    | some xs => .ok (d.setCol key xs)
    | none => .error .key

def renameInput (renames : List (String × String)) (kv : String × PInput) : Res (String × PInput) :=
  match kv.2 with
  | .table d => (applyRename d kv.1 renames).map fun d' => (kv.1, .table d')
  | .scalar c => .ok (kv.1, .scalar c)

/-- `join(inputs, on, renames, defaults)`: the renaming assignments, then `join` as above (both stages
only ever raise `KeyError`, so doing all the assignments first does not change the outcome) -/
def pdJoinR (inputs : List (String × PInput)) (on : List String) (renames : List (String × String))
    (defaults : List (String × Cell)) : Option (Res Table) :=
  match inputs.mapM (renameInput renames) with
  | .error e => some (.error e)
  | .ok inputs' => pdJoin inputs' on defaults

/-- `perdictable(f, on, renames, defaults)(**inputs)`; `expiry` is an input of `join` like the others
(a table given as `data` comes back with the assigned column when no row exists: the assignment
was made on the caller's object) -/
def perdictableR (f : List Cell → Val) (params on : List String) (renames : List (String × String))
    (defaults : List (String × Cell)) (inputs : List (String × PInput)) (expiry : PInput) (today : Int)
    (ifNone : Bool := false) : Option (Res (PResult × List (List Cell))) :=
  match inputs.mapM (renameInput renames), renameInput renames ("expiry", expiry) with
  | .ok inputs', .ok e' => perdictable f params on defaults inputs' e'.2 today ifNone
  | .error e, _ => some (.error e)
  | _, .error e => some (.error e)

end Pyg
