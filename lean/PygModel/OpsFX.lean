/-
  PygModel.OpsFX — DataFrame operands of the other operators that C08 names: `pow_`, the comparisons `gt_ ge_ lt_ le_`
  (the column loop of `presync.wrapped`, i.e. `kernelFG` of PygModel/OpsF.lean, with `default = nan`), and `min_ / max_`
  (`df_sync` of all operands, then `reducer(_minimum | _maximum)` with `_align_columns`).
  Anchors: src/pyg_base/_pandas.py:1094-1129 `_pow_ _gt_ _ge_ _lt_ _le_` (`@presync`, i.e. `default = np.nan`),
  1320-1348 the public wrappers, 1350-1410 `_align_columns _minimum _maximum min_ max_`, 773-845 `df_sync`,
  407-412 `_df_recolumn`.

  A bool cell travels as the number 1 (True) / 0 (False) inside the model (`Cmp.cell`); the driver prints it as a bool.
  pandas / numpy are *defined* as in PygModel/OpsX.lean (sampled by the correspondence check).
-/
import PygModel.OpsF
import PygModel.OpsX

namespace Pyg.Ops
open Pyg Pyg.Align

/-! ### `pow_` and the comparisons: presync kernels with `default = nan` -/

/-- `pow_(a, b, join, method, columns)` on Series / scalars / frames: a column that one frame lacks is NaN -/
def powF (how : How) (m : Option Dir) (ch : ColHow) (a b : FOperand) : FOperand :=
  binopFG (kernelG powO) Option.none how m ch a b

/-- a bool as a cell: True = 1, False = 0 -/
def boolCell (b : Bool) : Option Rat := some (if b then 1 else 0)

/-- the comparison as a cell function: never NaN (a comparison with NaN is False) -/
def Cmp.cell (c : Cmp) (x y : Option Rat) : Option Rat := boolCell (c.appO x y)

/-- `gt_(a, b, join, method, columns)` etc. on Series / scalars / frames (bool cells as 1 / 0) -/
def cmpF (c : Cmp) (how : How) (m : Option Dir) (ch : ColHow) (a b : FOperand) : FOperand :=
  binopFG (kernelG c.cell) Option.none how m ch a b

/-- bool results as cells -/
def BOperand.enc : BOperand → FOperand
  | .ts idx vals => .ts { idx := idx, vals := vals.map boolCell }
  | .flag b => .num (boolCell b)

/-- is every exponent NaN or a non-negative integer? (the domain of the model of `pow_`) -/
def powDomainF : FOperand → Bool
  | .num q => powDomain (.num q)
  | .ts s => powDomain (.ts s)
  | .df f => f.cols.all fun c => powDomain (.ts { idx := f.idx, vals := c.2 })

end Pyg.Ops
