/-
  PygModel.OpsFX — DataFrame operands of the other operators that C08 names: `pow_`, the comparisons `gt_ ge_ lt_ le_`
  (the column loop of `presync.wrapped`, i.e. `kernelFG` of PygModel/OpsF.lean, with `default = nan`), and `min_ / max_`
  (`df_sync` of all operands, then `reducer(_minimum | _maximum)` with `_align_columns`).
  Anchors: src/pyg_base/_pandas.py:1094-1129 `_pow_ _gt_ _ge_ _lt_ _le_` (`@presync`, i.e. `default = np.nan`),
  1320-1348 the public wrappers, 1350-1410 `_align_columns _minimum _maximum min_ max_`, 773-845 `df_sync`,
  407-412 `_df_recolumn`.

  A bool cell travels as the number 1 (True) / 0 (False) inside the model (`Cmp.cell`); the driver prints it as a bool.
  pandas / numpy are *defined* as in PygModel/OpsX.lean (sampled by the correspondence check).
-/
import PygModel.OpsF
import PygModel.OpsX

namespace Pyg.Ops
open Pyg Pyg.Align

/-! ### `pow_` and the comparisons: presync kernels with `default = nan` -/

/-- `pow_(a, b, join, method, columns)` on Series / scalars / frames: a column that one frame lacks is NaN -/
def powF (how : How) (m : Option Dir) (ch : ColHow) (a b : FOperand) : FOperand :=
  binopFG (kernelG powO) Option.none how m ch a b

/-- a bool as a cell: True = 1, False = 0 -/
def boolCell (b : Bool) : Option Rat := some (if b then 1 else 0)

/-- the comparison as a cell function: never NaN (a comparison with NaN is False) -/
def Cmp.cell (c : Cmp) (x y : Option Rat) : Option Rat := boolCell (c.appO x y)

/-- `gt_(a, b, join, method, columns)` etc. on Series / scalars / frames (bool cells as 1 / 0) -/
def cmpF (c : Cmp) (how : How) (m : Option Dir) (ch : ColHow) (a b : FOperand) : FOperand :=
  binopFG (kernelG c.cell) Option.none how m ch a b

/-- bool results as cells -/
def BOperand.enc : BOperand → FOperand
  | .ts idx vals => .ts { idx := idx, vals := vals.map boolCell }
  | .flag b => .num (boolCell b)

/-! ### `min_ / max_` with frames: `df_sync`, then `reducer(_minimum | _maximum)`
Modelled for operands that are scalars, Series and frames with SEVERAL columns (the driver refuses one-column frames:
`_align_columns` broadcasts them against a wider frame, turns them into a Series against a Series, and lets pandas align two
of them BY NAME - see docs/notes/C08.md; a frame that `df_sync` leaves with ONE joint column does become a Series against a
Series, which IS modelled: the result then is a Series).  The order of the joint columns is pandas' (`Index.union / intersection`) and not
modelled: the model returns them sorted and the harness sorts the implementation's columns before comparing. -/

/-- `_df_recolumn(ts, columns)`, lines 407-412: only frames with several columns are touched -/
def recolX (cols : List String) : FOperand → FOperand
  | .df f => if f.cols.length > 1 then .df (recolumnF cols f) else .df f
  | y => y

/-- `df_sync(dfs, join, method, columns)`, lines 773-845: every timeseries on the joint index, every frame with several
columns on the joint columns (a column it lacks is NaN) -/
def syncF (how : How) (m : Option Dir) (ch : ColHow) (xs : List FOperand) : List FOperand :=
  let ys := match joinIndex how (indexesOfF xs) with
    | Option.none => xs
    | some ix => xs.map (alignF ix m)
  match multiNames ys with
  | [] => ys
  | c :: cs => ys.map (recolX (colsJoin ch c cs))

/-- `_align_columns(a, b, np.minimum | np.maximum)`, lines 1350-1395, on synchronised operands: a scalar broadcasts, a
Series is repeated for every column of a frame, two frames (same header after `df_sync`) meet column by column -/
def mmKernelF (k : MM) : FOperand → FOperand → FOperand
  | .num p, .num q => .num (k.appO p q)
  | .num p, .ts b => .ts { idx := b.idx, vals := b.vals.map fun y => k.appO p y }
  | .ts a, .num q => .ts { idx := a.idx, vals := a.vals.map fun x => k.appO x q }
  | .ts a, .ts b => .ts { idx := a.idx, vals := (a.vals.zip b.vals).map fun p => k.appO p.1 p.2 }
  | .num p, .df b => .df { idx := b.idx, cols := b.cols.map fun c => (c.1, c.2.map fun y => k.appO p y) }
  | .df a, .num q => .df { idx := a.idx, cols := a.cols.map fun c => (c.1, c.2.map fun x => k.appO x q) }
  | .ts a, .df b =>
    -- `as_series`: a frame left with ONE column (one joint column) becomes the Series of that column: the result is a Series
    if b.cols.length = 1 then .ts { idx := a.idx, vals := (a.vals.zip ((b.cols.head?.map (·.2)).getD [])).map fun p => k.appO p.1 p.2 }
    else .df { idx := b.idx, cols := b.cols.map fun c => (c.1, (a.vals.zip c.2).map fun p => k.appO p.1 p.2) }
  | .df a, .ts b =>
    if a.cols.length = 1 then .ts { idx := a.idx, vals := (((a.cols.head?.map (·.2)).getD []).zip b.vals).map fun p => k.appO p.1 p.2 }
    else .df { idx := a.idx, cols := a.cols.map fun c => (c.1, (c.2.zip b.vals).map fun p => k.appO p.1 p.2) }
  | .df a, .df b => .df { idx := a.idx, cols := a.cols.map fun c => (c.1, (c.2.zip ((colOf b c.1).getD [])).map fun p => k.appO p.1 p.2) }

/-- `min_(a, b, join, method, columns)`, lines 1397-1410 -/
def mmListF (k : MM) (how : How) (m : Option Dir) (ch : ColHow) (as bs : List FOperand) : Option FOperand :=
  reducerF (mmKernelF k) (syncF how m ch (as ++ bs))

/-- `_align_columns` of a frame WITHOUT columns (no common column under `'ij'`) and a Series: `pd.concat([b] * 0)` raises
`ValueError: No objects to concatenate`; with scalars and frames alone the result is the frame without columns -/
def mmRaises (ch : ColHow) (xs : List FOperand) : Bool :=
  match (framesOfX xs).map (·.names) with
  | [] => false
  | c :: cs => (colsJoin ch c cs).isEmpty && xs.any fun x => match x with | .ts _ => true | _ => false

/-- is every exponent NaN or a non-negative integer? (the domain of the model of `pow_`) -/
def powDomainF : FOperand → Bool
  | .num q => powDomain (.num q)
  | .ts s => powDomain (.ts s)
  | .df f => f.cols.all fun c => powDomain (.ts { idx := f.idx, vals := c.2 })

end Pyg.Ops
