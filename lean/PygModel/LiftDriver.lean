/- line-protocol handlers for the Lift / Zip models (C19) -/
import PygModel.Lift
import PygModel.Zip

namespace Pyg.LiftDriver
open Pyg

abbrev St := Unit
def init : St := ()
def modelName : String := "lift"

def reply : Res Val → String
  | .ok v => "ok " ++ v.render
  | .error e => "err " ++ e.render

/-- a path on the wire: a list of ints (positions) and strings (dict keys) -/
def pathOf : Val → Option Path
  | .list xs => xs.mapM fun
      | .cell (.int i) => some (Step.idx i.toNat)
      | .cell (.str k) => some (Step.key k)
      | _ => Option.none
  | _ => Option.none

/-- `(lift <op> <args>)` -/
def handle1 (op : String) (args : List Sexp) : Option String := do
  match op, args with
  | "call", [Sexp.atom top, as, kw] =>
      -- loop(list, tuple, dict)(recorder)(*as, **kw); `top` = name of the recorder's first parameter
      let top ← hexDecode top
      match ← Val.ofSexp as, ← Val.ofSexp kw with
      | .list as, .dict kw => pure (reply (callLifted (recorderNamed top) top as kw))
      | _, _ => Option.none
  | "callx", [Sexp.atom top, as, kw] =>
      -- the same call; the harness runs it on namedtuples / dicts with keys of several types through a fixed
      -- bijection of the containers (the model has plain tuples and string keys)
      let top ← hexDecode top
      match ← Val.ofSexp as, ← Val.ofSexp kw with
      | .list as, .dict kw => pure (reply (callLifted (recorderNamed top) top as kw))
      | _, _ => Option.none
  | "cally", [Sexp.atom top, as, kw] | "callz", [Sexp.atom top, as, kw] | "callq", [Sexp.atom top, as, kw]
  | "callr", [Sexp.atom top, as, kw] =>
      -- (callr, round k6: as callq with a range key - a sub-dict for dictattr - and the EMPTY string as a key, which the wire cannot spell)
      -- (callq: every dict is one of the classes the `loop` factory adds - dictattr / Dict / OrderedDict / dict - with keys on which
      -- these classes overload `__getitem__`; a lifted function reads them as plain mappings)
      -- the same call again: the harness spells the dict keys of the companions differently from those of the looped argument
      -- (1.0 for 1: the same key set under python ==), or uses tuple keys of mixed content that cannot be sorted
      let top ← hexDecode top
      match ← Val.ofSexp as, ← Val.ofSexp kw with
      | .list as, .dict kw => pure (reply (callLifted (recorderNamed top) top as kw))
      | _, _ => Option.none
  | "lib", [Sexp.atom _, v, kw] =>
      -- a library helper built with loop(list, dict, tuple): `_helper(v, **kw)`; the reply holds the leaf calls
      match ← Val.ofSexp v, ← Val.ofSexp kw with
      | v, .dict kw => pure (reply (wrapped recorderPure v [] kw))
      | _, _ => Option.none
  | "select", [v, p, c] =>
      let v ← Val.ofSexp v; let p ← pathOf (← Val.ofSexp p); let c ← Val.ofSexp c
      pure (reply (.ok (select v p c)))
  | "zipper", [vs] =>
      match ← Val.ofSexp vs with
      | .list vs => pure (reply ((zzipper vs).map .list))
      | _ => Option.none
  | "lens", [vs] =>
      match ← Val.ofSexp vs with
      | .list vs => pure (reply ((zlens vs).map fun n => .cell (.int n)))
      | _ => Option.none
  | "aslist", [v] => pure (reply (.ok (.list (asList (← Val.ofSexp v)))))
  | "astuple", [v] => pure (reply (.ok (.tuple (asTuple (← Val.ofSexp v)))))
  | _, _ => Option.none

def handle (s : St) (op : String) (args : List Sexp) : Option (St × String) :=
  (handle1 op args).map fun r => (s, r)

end Pyg.LiftDriver
