/-
  line-protocol handler for `dictable.inc / exc / find_<col>` (C06), model name `flt`, stateless.

    (flt inc  <table> <pred|N> <kwconds> <dictconds|N>)          -> ok <table> | err Kind
    (flt exc  <table> <pred|N> <kwconds> <dictconds|N>)          -> ok <table> | err Kind
    (flt find <table> S:key <pred|N> <kwconds> <dictconds|N>)    -> ok <cell>  | err Kind
    (flt one  <table> <pred|N> <kwconds> <dictconds|N> <excconds|N> <S:find|N>)  -> ok N | ok (D (col cell)*) | ok <cell> | err Kind
  table     (D (col (L cell*))*)
  conds     (D (col value)*)      value: cell | (L cell*) | (T cell*) | (re S:pattern) | (re S:pattern I)
            pattern: [^] (alphanumeric | .)* [$]; `I` = re.IGNORECASE
  pred      (fn ident S:a) | (fn orelse S:a S:b) | (fn constv cell)   -- non-bool returns, read by truthiness
            | (fn isnone S:a) | (fn notnone S:a) | (fn isstr S:a) | (fn samenone S:a S:b) | (fn const B:0|B:1)
-/
import PygModel.Filter
import PygModel.TableDriver

namespace Pyg.FilterDriver
open Pyg Pyg.TableDriver

abbrev St := Unit
def init : St := ()
def modelName : String := "flt"

/-- the modelled patterns: optional `^`, then alphanumeric characters and `.`, optional `$` -/
def rePatOf (p : String) (icase : Bool) : Option RePat :=
  let cs := p.toList
  let (bol, cs) := match cs with | '^' :: r => (true, r) | r => (false, r)
  let (eol, cs) := match cs.reverse with | '$' :: r => (true, r.reverse) | _ => (false, cs)
  if cs.all fun c => c.isAlphanum || c == '.' then
    some ⟨bol, eol, icase, cs.map fun c => if c == '.' then Option.none else some c⟩
  else Option.none

def condOf : Sexp → Option Cond
  | .node [.atom "re", p] => do
      let r ← rePatOf (← strOf p) false
      pure (.regex r.search)
  | .node [.atom "re", p, .atom "I"] => do
      let r ← rePatOf (← strOf p) true
      pure (.regex r.search)
  | x => (colValOf x).map Cond.ofValue

def predOf : Sexp → Option (Option Pred)
  | .atom "N" => some Option.none
  | .node [.atom "fn", .atom "isnone", a] => (strOf a).map fun a => some (.isNone a)
  | .node [.atom "fn", .atom "ident", a] => (strOf a).map fun a => some (.ident a)
  | .node [.atom "fn", .atom "orelse", a, b] => do
      let a ← strOf a; let b ← strOf b
      if a == b then Option.none else pure (some (.orElse a b))
  | .node [.atom "fn", .atom "constv", c] => (cellOf c).map fun c => some (.constv c)
  | .node [.atom "fn", .atom "notnone", a] => (strOf a).map fun a => some (.notNone a)
  | .node [.atom "fn", .atom "isstr", a] => (strOf a).map fun a => some (.isStr a)
  | .node [.atom "fn", .atom "samenone", a, b] => do
      let a ← strOf a; let b ← strOf b
      if a == b then Option.none else pure (some (.sameNone a b))
  | .node [.atom "fn", .atom "const", b] => match cellOf b with
      | some (.bool b) => some (some (.const b))
      | _ => Option.none
  | _ => Option.none

def condsOf (kw dc : Sexp) : Option (List (String × Cond)) := do
  let kw ← dictOf condOf kw
  if !nodupKeys kw then Option.none
  match dc with
  | .atom "N" => pure kw
  | d => do
      let dc ← dictOf condOf d
      if !nodupKeys dc then Option.none
      pure (Table.mergeConds kw dc)

def tableOf (x : Sexp) : Option Table := do
  let t ← Table.ofVal (← Val.ofSexp x)
  if !nodupKeys t then Option.none
  pure t

def reply {α} (r : Except Err α) (f : α → String) : String :=
  match r with
  | .ok v => "ok " ++ f v
  | .error e => "err " ++ e.render

def handle1 (op : String) (args : List Sexp) : Option String :=
  match op, args with
  | "inc", [t, p, kw, dc] => do
      let t ← tableOf t; let p ← predOf p; let cs ← condsOf kw dc
      pure (reply (t.inc (p.map Pred.eval) cs) fun r => r.toVal.render)
  | "exc", [t, p, kw, dc] => do
      let t ← tableOf t; let p ← predOf p; let cs ← condsOf kw dc
      pure (reply (t.exc (p.map Pred.eval) cs) fun r => r.toVal.render)
  | "find", [t, k, p, kw, dc] => do
      let t ← tableOf t; let k ← strOf k; let p ← predOf p; let cs ← condsOf kw dc
      pure (reply (t.find k (p.map Pred.eval) cs) Cell.render)
  | "one", [t, p, kw, dc, ex, fd] => do
      let t ← tableOf t; let p ← predOf p; let cs ← condsOf kw dc
      let ex ← match ex with
        | .atom "N" => some []
        | e => do
            let e ← dictOf condOf e
            if !nodupKeys e then Option.none
            pure e
      let fd ← match fd with
        | .atom "N" => some Option.none
        | f => (strOf f).map some
      pure (reply (t.oneOrNone (p.map Pred.eval) cs ex fd) fun r => match r with
        | .none => "N"
        | .row r => (Val.dict (r.map fun kv => (kv.1, Val.cell kv.2))).render
        | .cell c => c.render)
  | _, _ => Option.none

def handle (s : St) (op : String) (args : List Sexp) : Option (St × String) :=
  (handle1 op args).map fun r => (s, r)

end Pyg.FilterDriver
