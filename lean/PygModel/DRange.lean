/-
  PygModel.DRange — model of `drange(t0, t1, bump)` (src/pyg_base/_drange.py:137-203) for already resolved
  endpoints (`date_range` on two datetimes is the identity).

  Instants are `Int` microseconds since 0001-01-01 00:00 (`T:` cells of the wire format).
  `dateutil.rrule(freq, interval = k, dtstart, until)` is *modelled* as "start at `dtstart`, add `k` units while
  `≤ until`" (assumption, sampled by the correspondence check); for month-based frequencies only for a day of
  month ≤ 28 (rrule skips impossible dates, which the property excludes), keeping the time of day.
  `dt_bump` for period strings (src/pyg_base/_dates.py:388-418) is written out here as total integer functions
  (`bump1`, month arithmetic from `Civil`); PygProofs/Lemmas/DRangeBump.lean proves it equal to the C09 model
  `Pyg.Bump` (generated kernels + `Pyg.Greg`) wherever that model returns a value.  Core Lean only.
-/
import PygModel.Basic
import PygModel.Civil

namespace Pyg.DRange
open Pyg

def DAY : Int := 86400000000
def HOUR : Int := 3600000000
def MINUTE : Int := 60000000
def SECOND : Int := 1000000

/-- day number (`toordinal`) and weekday of an instant -/
def dayOf (t : Int) : Int := t / DAY + 1
def wdT (t : Int) : Int := (t / DAY) % 7

inductive Per where
  | d | b | w | m | q | y | h | n | s
  deriving Repr, DecidableEq, Inhabited

/-- the business-day offset of `dt_bump(t, 'nb')` in days, from weekday `wday` (_dates.py:408-418):
roll a weekend day to Monday, `w = n // 5` whole weeks, `d = n - 5w` days, `+2` when crossing a weekend -/
def bOff (wday n : Int) : Int :=
  let roll := if wday > 4 then 7 - wday else 0
  let wday := if wday > 4 then 0 else wday
  let w := n / 5
  let d := n - w * 5
  let d := if wday + d > 4 then d + 2 else d
  roll + 7 * w + d

/-- `_ymd(t.year, t.month + k, t.day)` as an instant (midnight: the time of day is dropped) -/
def monthBump (t k : Int) : Int := (Civil.addMonths (dayOf t) k - 1) * DAY

/-- `_ymd(t.year + k, t.month, t.day)` -/
def yearBump (t k : Int) : Int :=
  let (y, m, d) := Civil.ymd (dayOf t)
  (Civil.ordYM (y + k) m d - 1) * DAY

/-- one `<n><unit>` part of a period string applied by `dt_bump` (_dates.py:391-418) -/
def bump1 (t : Int) (n : Int) : Per → Int
  | .d => t + DAY * n
  | .w => t + DAY * (7 * n)
  | .m => monthBump t n
  | .q => monthBump t (3 * n)
  | .y => yearBump t n
  | .h => t + HOUR * n
  | .n => t + MINUTE * n
  | .s => t + SECOND * n
  | .b => t + DAY * bOff (wdT t) n

/-- `dt_bump(t, '<n1><u1><n2><u2>…')`: the parts are applied left to right -/
def dtBump (parts : List (Int × Per)) (t : Int) : Int :=
  parts.foldl (fun t p => bump1 t p.1 p.2) t

/-- one step of `rrule(freq, interval = k)`: as `bump1` but month-based frequencies keep the time of day -/
def rruleStep (k : Int) (u : Per) (t : Int) : Int :=
  match u with
  | .m | .q | .y => bump1 t k u + t % DAY
  | _ => bump1 t k u

/-- `while t <= t1: res.append(t); t = step(t)` with fuel.  For a step that moves forward by at least one
microsecond the fuel `(t1 - t0) + 1` is never exhausted (DRangeLemmas.iterUp_fuel). -/
def iterUp (step : Int → Int) (t1 : Int) : Nat → Int → List Int
  | 0, _ => []
  | k + 1, t => if t ≤ t1 then t :: iterUp step t1 k (step t) else []

/-- `while t >= t1: …` -/
def iterDown (step : Int → Int) (t1 : Int) : Nat → Int → List Int
  | 0, _ => []
  | k + 1, t => if t ≥ t1 then t :: iterDown step t1 k (step t) else []

/-- `step` applied `n` times (specification vocabulary: the `i`-th element of a range is `iter step i t0`) -/
def iter (step : Int → Int) : Nat → Int → Int
  | 0, t => t
  | n + 1, t => iter step n (step t)

def upTo (step : Int → Int) (t0 t1 : Int) : List Int := iterUp step t1 ((t1 - t0).toNat + 1) t0
def downTo (step : Int → Int) (t0 t1 : Int) : List Int := iterDown step t1 ((t0 - t1).toNat + 1) t0

/-- `rrule(DAILY, interval = 1, dtstart = lo, until = hi)` -/
def daily (lo hi : Int) : List Int := upTo (· + DAY) lo hi

/-- `res[::k]` for `k ≥ 1`: keep an element, skip `k - 1` -/
def strideGo {α} (k : Nat) : List α → Nat → List α
  | [], _ => []
  | x :: xs, 0 => x :: strideGo k xs (k - 1)
  | _ :: xs, j + 1 => strideGo k xs j

def stride {α} (k : Nat) (l : List α) : List α := strideGo k l 0

/-- `(t1 - t0).days`: timedelta days are a floor division -/
def tdDays (x : Int) : Int := x / DAY

/-- the timedelta branch (_drange.py:151-168): the direction is tested once, at `t0` (a constant step cannot turn) -/
def loopBranch (step : Int → Int) (t0 t1 : Int) : Res (List Int) :=
  if t1 > t0 then
    if step t0 ≤ t0 then .error .value else .ok (upTo step t0 t1)
  else if t1 < t0 then
    if step t0 ≥ t0 then .error .value else .ok (downTo step t0 t1)
  else .ok [t0]

/-- the repaired `dt_bump` loops (F15, _drange.py:196-213): `while t <= t1: res.append(t); t' = dt_bump(t); if t' <= t:
raise ValueError; t = t'` — every step must move strictly towards `t1` (a mixed-sign tenor such as `'1m-30d'` passes
the direction test at `t0` and then cycles).  The fuel `(t1 - t0) + 1` is never exhausted: a step that does not
raise advances by at least one microsecond. -/
def iterUpC (step : Int → Int) (t1 : Int) : Nat → Int → Res (List Int)
  | 0, _ => .ok []
  | k + 1, t =>
    if t ≤ t1 then
      if step t ≤ t then .error .value else (iterUpC step t1 k (step t)).bind fun l => .ok (t :: l)
    else .ok []

def iterDownC (step : Int → Int) (t1 : Int) : Nat → Int → Res (List Int)
  | 0, _ => .ok []
  | k + 1, t =>
    if t ≥ t1 then
      if step t ≥ t then .error .value else (iterDownC step t1 k (step t)).bind fun l => .ok (t :: l)
    else .ok []

/-- the compound-period / non-positive single period branch (_drange.py:194-213) with the per-step check -/
def loopBranchC (step : Int → Int) (t0 t1 : Int) : Res (List Int) :=
  if t1 > t0 then iterUpC step t1 ((t1 - t0).toNat + 1) t0
  else if t1 < t0 then iterDownC step t1 ((t0 - t1).toNat + 1) t0
  else .ok [t0]

/-- `res[::-1] if k < 0`, then `res[::abs(k)] if abs(k) > 1` (_drange.py:147-148, 180-181) -/
def orient (k : Int) (res : List Int) : List Int :=
  let res := if k < 0 then res.reverse else res
  if k.natAbs > 1 then stride k.natAbs res else res

inductive Bump where
  | none
  | int (n : Int)
  | td (us : Int)
  | period (parts : List (Int × Per))
  deriving Repr, Inhabited

/-- integer bump (_drange.py:142-149) -/
def drangeInt (t0 t1 n : Int) : Res (List Int) :=
  if tdDays (t1 - t0) * n ≤ 0 then .error .value
  else .ok (orient n (daily (min t0 t1) (max t0 t1)))

/-- `drange(t0, t1, bump)` with the repair of F3: a single period with a non-positive count (which rrule cannot
enumerate) is iterated with `dt_bump` like a compound one (_drange.py:172), and of F15: the `dt_bump` loops raise
ValueError as soon as a step fails to move strictly towards `t1` (`loopBranchC`), and of F16: `'0b'` stands still and
raises ValueError like every other spelling of a zero bump (_drange.py:175) -/
def drange (t0 t1 : Int) (b : Bump) : Res (List Int) :=
  if t0 = t1 then .ok [t0] else
  match b with
  | .none => drangeInt t0 t1 (if t0 < t1 then 1 else -1)
  | .int n => drangeInt t0 t1 n
  | .td us => loopBranch (· + us) t0 t1
  | .period [(n, u)] =>
      if u = .b ∨ n > 0 then
        let interval := n * (if u = .q then 3 else 1)
        if tdDays (t1 - t0) * interval < 0 ∨ interval = 0 then .error .value      -- `interval = 0`: only '0b' gets here (F16)
        else if u = .b then
          .ok (orient interval ((daily (min t0 t1) (max t0 t1)).filter fun t => wdT t < 5))
        else .ok (upTo (rruleStep n u) t0 t1)
      else loopBranchC (dtBump [(n, u)]) t0 t1
  | .period parts => loopBranchC (dtBump parts) t0 t1

/-! ### the `period` tokenizer: `^[-+]{0,1}[0-9]+[dbwmqyhnsDBWMQYHNS]{1}` repeatedly, after `.lower()` -/

def unitOf : Char → Option Per
  | 'd' => some .d | 'b' => some .b | 'w' => some .w | 'm' => some .m | 'q' => some .q
  | 'y' => some .y | 'h' => some .h | 'n' => some .n | 's' => some .s
  | _ => none

/-- all tokens of a period string; `none` unless the whole (lower-cased) string is a sequence of tokens -/
def parsePeriod (s : String) : Option (List (Int × Per)) :=
  let rec go (cs : List Char) (fuel : Nat) (acc : List (Int × Per)) : Option (List (Int × Per)) :=
    match fuel with
    | 0 => Option.none
    | fuel + 1 =>
      match cs with
      | [] => some acc.reverse
      | _ =>
        let (neg, cs) := match cs with
          | '-' :: r => (true, r)
          | '+' :: r => (false, r)
          | _ => (false, cs)
        let ds := cs.takeWhile Char.isDigit
        let rest := cs.dropWhile Char.isDigit
        match ds, rest with
        | [], _ => Option.none
        | _, u :: rest' =>
          match unitOf u, (String.ofList ds).toNat? with
          | some u, some n => go rest' fuel (((if neg then -(n : Int) else n), u) :: acc)
          | _, _ => Option.none
        | _, [] => Option.none
  go s.toLower.toList (s.length + 1) []

end Pyg.DRange
