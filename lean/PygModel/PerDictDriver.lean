/- line-protocol handler for the PerDict model (C20):
   (pd call (L S:param*) (L S:on*) (D (name cell)*) (D (name input)*) <expiry input> T:<today>)
       -> ok (T <result> (L (T arg*)*))          result = (T S:"value" v) | (T S:"norows" data|N) | (T S:"table" <table>)
   (pd join (L S:on*) (D (name cell)*) (D (name input)*))    -> ok <table>
   (pd callr (L S:param*) (L S:on*) (D (name S:column)*) B:<if_none> (D (name cell)*) (D (name input)*) <expiry input> T:<today>)
   (pd joinr (L S:on*) (D (name S:column)*) (D (name cell)*) (D (name input)*))     the same with `renames`
   (pd calld …as call…)   perdictable(f, on=…) without `defaults=`: the defaults slot carries f's python defaults; same model as `call`
   a repeated name in `on` is dropped (`ulist(as_list(on))`).
   input = a cell (scalar) or a table `(D (col (L cell*))*)`; the lifted function is `f(*args) = ('f',) + args`. -/
import PygModel.PerDict

namespace Pyg.PerDictDriver
open Pyg

abbrev St := Unit
def init : St := ()
def modelName : String := "pd"

def strOf : Sexp → Option String
  | .atom s => match Cell.parse s with
    | some (.str k) => some k
    | _ => Option.none
  | _ => Option.none

def strsOf : Sexp → Option (List String)
  | .node (.atom "L" :: xs) => xs.mapM strOf
  | _ => Option.none

def inputOf (v : Val) : Option PInput :=
  match v with
  | .cell c => some (.scalar c)
  | .dict _ => (Table.ofVal v).map .table
  | _ => Option.none

def inputsOf : Val → Option (List (String × PInput))
  | .dict kvs => kvs.mapM fun (k, v) => (inputOf v).map fun i => (k, i)
  | _ => Option.none

def defaultsOf : Val → Option (List (String × Cell))
  | .dict kvs => kvs.mapM fun (k, v) => match v with
      | .cell c => some (k, c)
      | _ => Option.none
  | _ => Option.none

def renamesOf : Val → Option (List (String × String))
  | .dict kvs => kvs.mapM fun (k, v) => match v with
      | .cell (.str c) => some (k, c)
      | _ => Option.none
  | _ => Option.none

/-- every expiry cell of the call is one the model reads (`expiryCovered`): the scalar, or the cells of the non-key columns of an
expiry table -/
def expiryOk (on : List String) : PInput → Bool
  | .scalar c => expiryCovered c
  | .table t => t.all fun col => on.contains col.1 || col.2.all expiryCovered

/-- expiry slot only: `NAT` (`pd.NaT`) and `NAT64` (`np.datetime64('NaT')`) are the missing date, which the model holds as the
cell `.str "NaT"` (the third spelling, the string `'NaT'` = `S:4e6154`, is that cell already) -/
partial def normNat : Sexp → Sexp
  | .atom s => if s == "NAT" || s == "NAT64" then .atom "S:4e6154" else .atom s
  | .node xs => .node (xs.map normNat)

def fModel (args : List Cell) : Val := .tuple (.cell (.str "f") :: args.map .cell)

def tag (s : String) (v : Val) : Val := .tuple [.cell (.str s), v]

def vtableVal (t : VTable) : Val := .dict (t.map fun c => (c.1, .list c.2))

def resultVal : PResult → Val
  | .value v => tag "value" v
  | .noRows Option.none => tag "norows" (.cell .none)
  | .noRows (some (.scalar c)) => tag "norows" (.cell c)
  | .noRows (some (.table t)) => tag "norows" t.toVal
  | .table t => tag "table" (vtableVal t)

def handle1 (op : String) (args : List Sexp) : Option String := do
  -- `calld`: `perdictable(f, on = ...)` without `defaults=`: the python defaults of `f` (sent in the `defaults` slot) are the defaults
  let op := if op == "calld" then "call" else op
  match op, args with
  | "call", [ps, on, defs, ins, exp, today] =>
      let ps ← strsOf ps; let on := (← strsOf on).eraseDups        -- `ulist(as_list(self.on))`
      let defs ← defaultsOf (← Val.ofSexp defs)
      let ins ← inputsOf (← Val.ofSexp ins)
      let exp ← inputOf (← Val.ofSexp (normNat exp))
      let today ← match ← Val.ofSexp today with
        | .cell (.dt us) => some us
        | _ => Option.none
      if !expiryOk on exp then Option.none else
      match ← perdictable fModel ps on defs ins exp today with
      | .ok (r, log) =>
          -- a parameter of `f` that is neither an input nor a key column nor `data` / `expiry`: the model's `rowArgs` reads `None`
          -- for it, python raises TypeError (missing argument) as soon as `f` is called
          if !log.isEmpty && ps.any (fun q => !((ins.map (·.1)).contains q || on.contains q || q == "data" || q == "expiry")) then
            pure "err TypeError"
          else
          pure ("ok " ++ (Val.tuple [resultVal r, .list (log.map fun a => .tuple (a.map .cell))]).render)
      | .error e => pure ("err " ++ e.render)
  | "callr", [ps, on, rens, ifn, defs, ins, exp, today] =>
      let ps ← strsOf ps; let on := (← strsOf on).eraseDups
      let rens ← renamesOf (← Val.ofSexp rens)
      let ifn ← match ← Val.ofSexp ifn with
        | .cell (.bool b) => some b
        | _ => Option.none
      let defs ← defaultsOf (← Val.ofSexp defs)
      let ins ← inputsOf (← Val.ofSexp ins)
      let exp ← inputOf (← Val.ofSexp (normNat exp))
      let today ← match ← Val.ofSexp today with
        | .cell (.dt us) => some us
        | _ => Option.none
      if !expiryOk on exp then Option.none else
      match ← perdictableR fModel ps on rens defs ins exp today ifn with
      | .ok (r, log) =>
          pure ("ok " ++ (Val.tuple [resultVal r, .list (log.map fun a => .tuple (a.map .cell))]).render)
      | .error e => pure ("err " ++ e.render)
  | "joinr", [on, rens, defs, ins] =>
      let on ← strsOf on
      let rens ← renamesOf (← Val.ofSexp rens)
      let defs ← defaultsOf (← Val.ofSexp defs)
      let ins ← inputsOf (← Val.ofSexp ins)
      match ← pdJoinR ins on rens defs with
      | .ok t => pure ("ok " ++ t.toVal.render)
      | .error e => pure ("err " ++ e.render)
  | "join", [on, defs, ins] =>
      let on ← strsOf on
      let defs ← defaultsOf (← Val.ofSexp defs)
      let ins ← inputsOf (← Val.ofSexp ins)
      match ← pdJoin ins on defs with
      | .ok t => pure ("ok " ++ t.toVal.render)
      | .error e => pure ("err " ++ e.render)
  | _, _ => Option.none

def handle (s : St) (op : String) (args : List Sexp) : Option (St × String) :=
  (handle1 op args).map fun r => (s, r)

end Pyg.PerDictDriver
