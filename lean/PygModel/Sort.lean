/-
  PygModel.Sort — `dictable.sort` (src/pyg_base/_dictable.py:817-866): decorate the keys with the
  row index, `sort` the pairs, undecorate.
-/
import PygModel.Cmp

namespace Pyg

/-- the `(key, i)` tuple that `dictable.sort` / `_listby` hand to `sort` -/
def keyId (p : Val × Nat) : Val := .tuple [p.1, .cell (.int p.2)]

/-- `_, rows = zip(*sort(zip(keys, range(n))))` : the row permutation -/
def sortIdx (keys : List Val) : List Nat :=
  (keys.zipIdx.mergeSort (fun a b => cmpLe (keyId a) (keyId b))).map (·.2)

/-- python `==` on scalar cells (numeric equality across int/float/bool; NaN ≠ NaN) -/
def Cell.pyEq : Cell → Cell → Bool
  | .none, .none => true
  | .str a, .str b => a == b
  | .dt a, .dt b => a == b
  | .pinf, .pinf => true
  | .ninf, .ninf => true
  | a, b =>
    let num : Cell → Option Int := fun c => match c with
      | .bool b => some (if b then 4 else 0)
      | .int n => some (4 * n)
      | .flt q => some q
      | _ => Option.none
    match num a, num b with
    | some x, some y => x == y
    | _, _ => false

/-- keep the first of every `==`-class (the keys of `dict(zip(vals, ...))`) -/
def dedupPy : List Cell → List Cell
  | [] => []
  | v :: vs => v :: (dedupPy vs).filter (fun w => !(v.pyEq w))

/-- last position (counted from `k`) of a value `==` to `x` -/
def lastIdxFrom (k : Nat) : List Cell → Cell → Option Nat
  | [], _ => Option.none
  | v :: vs, x =>
    match lastIdxFrom (k + 1) vs x with
    | some j => some j
    | Option.none => if v.pyEq x then some k else Option.none

def lastIdx? (vals : List Cell) (x : Cell) : Option Nat := lastIdxFrom 0 vals x

/-- `d.get(x, len(d))` for `d = dict(zip(vals, range(len(vals))))` (src/pyg_base/_dictable.py:857-858): a repeated listed
value keeps its LAST position (later `dict` entries overwrite earlier ones) and an unlisted value gets `len(d)`, the number
of distinct listed values.  (Keys are compared with python `==`/hash: `1`, `1.0` and `True` are one key; NaN keys are found
by identity only and are not modelled.) -/
def byvalRank (vals : List Cell) (x : Cell) : Nat :=
  match lastIdx? vals x with
  | some i => i
  | Option.none => (dedupPy vals).length

/-- sort keys of `dictable.sort(**byval)`: one rank per listed column -/
def byvalKey (orders : List (List Cell)) (row : List Cell) : Val :=
  .list ((orders.zip row).map fun (vals, x) => .cell (.int (byvalRank vals x)))

def gather {α} [Inhabited α] (idx : List Nat) (xs : List α) : List α := idx.map (xs[·]!)

/-- lexicographic order of equal-length rank vectors (the independent reading of "sorted by several value orders") -/
def lexNat : List Nat → List Nat → Ordering
  | a :: as, b :: bs => (compare a b).then (lexNat as bs)
  | _, _ => .eq

/-- the rank vector of a row under one value order per column -/
def byvalRanks (orders : List (List Cell)) (row : List Cell) : List Nat :=
  (orders.zip row).map fun (vals, x) => byvalRank vals x

end Pyg
