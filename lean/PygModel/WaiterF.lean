/-
  PygModel.WaiterF — MODEL EXTENSION of PygModel.Waiter: awaitables that FAIL (src/pyg_base/_waiter.py:15-61; the
  property text speaks of results only, so this is beyond the statement).

  `asyncio.gather(*children)` without `return_exceptions`: "the first raised exception is immediately propagated to
  the task that awaits on gather()" (the other children keep running).  So when an awaitable fails, every task
  suspended on it fails, a gather node with a failed slot fails at once — not waiting for its other slots — and so
  on up to the root: `await waiter(...)` raises THAT exception, right then; later completions or failures change
  nothing.  Which exception the caller sees therefore DEPENDS on the completion order (`waiterf_order_matters`).
  ASSUMPTION sampled by correspondence on real asyncio futures (`set_exception`): gather's propagation rule.
  Exceptions are numbered (`fail e`); awaitables are pending when `waiter` starts.
-/
import PygModel.Waiter

namespace Pyg

inductive TaskF where
  | ret (v : Val)
  | fail (e : Nat)
  | wait (id : Nat)
  | gather (k : Kind) (slots : List TaskF)
  deriving Repr, Inhabited

inductive SlotsF where
  | failed (e : Nat)
  | done (vs : List Val)
  | pending
  deriving Repr

/-- the state of a gather's slots: a failed slot fails it (the leftmost, should there be several), otherwise it is
done when every slot is -/
def slotsF : List TaskF → SlotsF
  | [] => .done []
  | .fail e :: _ => .failed e
  | .ret v :: ts =>
      match slotsF ts with
      | .done vs => .done (v :: vs)
      | .failed e => .failed e
      | .pending => .pending
  | _ :: ts =>
      match slotsF ts with
      | .failed e => .failed e
      | _ => .pending

def collapseF (k : Kind) (slots : List TaskF) : TaskF :=
  match slotsF slots with
  | .failed e => .fail e
  | .done vs => .ret (k.build vs)
  | .pending => .gather k slots

mutual
  def startF : W → TaskF
    | .val c => .ret (.cell c)
    | .aw id => .wait id
    | .list xs => collapseF .list (startFList xs)
    | .tuple xs => collapseF .tuple (startFList xs)
    | .dict kvs => collapseF (.dict (kvs.map (·.1))) (startFKVs kvs)
  def startFList : List W → List TaskF
    | [] => []
    | x :: xs => startF x :: startFList xs
  def startFKVs : List (String × W) → List TaskF
    | [] => []
    | (_, x) :: kvs => startF x :: startFKVs kvs
end

/-- how an awaitable ends: with a result or with exception number `e` -/
abbrev Outcome := Except Nat Val

mutual
  def completeF (id : Nat) (out : Outcome) : TaskF → TaskF
    | .ret x => .ret x
    | .fail e => .fail e
    | .wait j =>
        if j = id then (match out with | .ok v => .ret v | .error e => .fail e) else .wait j
    | .gather k slots => collapseF k (completeFList id out slots)
  def completeFList (id : Nat) (out : Outcome) : List TaskF → List TaskF
    | [] => []
    | t :: ts => completeF id out t :: completeFList id out ts
end

def runEventsF (w : W) (evs : List (Nat × Outcome)) : TaskF :=
  evs.foldl (fun t e => completeF e.1 e.2 t) (startF w)

/-- what the awaiting caller sees -/
def TaskF.outcome : TaskF → Option Outcome
  | .ret v => some (.ok v)
  | .fail e => some (.error e)
  | _ => Option.none

mutual
  /-- no failure anywhere in the task tree -/
  def TaskF.clean : TaskF → Bool
    | .fail _ => false
    | .gather _ slots => TaskF.cleanList slots
    | _ => true
  def TaskF.cleanList : List TaskF → Bool
    | [] => true
    | t :: ts => t.clean && TaskF.cleanList ts
end

mutual
  /-- some task of the tree is suspended on awaitable `id` -/
  def TaskF.waits (id : Nat) : TaskF → Bool
    | .wait j => j == id
    | .gather _ slots => TaskF.waitsList id slots
    | _ => false
  def TaskF.waitsList (id : Nat) : List TaskF → Bool
    | [] => false
    | t :: ts => t.waits id || TaskF.waitsList id ts
end

mutual
  def Task.toF : Task → TaskF
    | .ret v => .ret v
    | .wait id => .wait id
    | .gather k slots => .gather k (Task.toFList slots)
  def Task.toFList : List Task → List TaskF
    | [] => []
    | t :: ts => t.toF :: Task.toFList ts
end

end Pyg
