/-
  PygModel.TSBasic — shared vocabulary for the pandas-facing models (DESIGN §4):
  a timeseries is a list of (time, value) with strictly increasing integer times; `none` is NaN.
  Values are exact integers (the harness scales by 4 or 8 so that no float rounding is ever compared).
-/
import PygModel.Basic

namespace Pyg

abbrev TS := List (Int × Option Int)

namespace TS

def index (ts : TS) : List Int := ts.map (·.1)
def values (ts : TS) : List (Option Int) := ts.map (·.2)

/-- strictly increasing times -/
def Sorted (ts : TS) : Prop := ts.index.Pairwise (· < ·)

instance (ts : TS) : Decidable ts.Sorted := by unfold Sorted; infer_instance

/-- value at time `t` (`none` also when `t` is not in the index) -/
def get (ts : TS) (t : Int) : Option Int := (ts.find? (·.1 == t)).bind (·.2)

def has (ts : TS) (t : Int) : Bool := ts.any (·.1 == t)

/-- wire: `(L (T T:<t> <cell>)*)`; values `I:n`, NaN as `F:nan` -/
def toVal (ts : TS) : Val :=
  .list (ts.map fun (t, v) => .tuple [.cell (.dt t), match v with | some x => .cell (.int x) | Option.none => .cell .nan])

def ofVal : Val → Option TS
  | .list xs => xs.mapM fun x => match x with
      | .tuple [.cell (.dt t), .cell (.int v)] => some (t, some v)
      | .tuple [.cell (.dt t), .cell .nan] => some (t, Option.none)
      | .tuple [.cell (.dt t), .cell .none] => some (t, Option.none)
      | _ => Option.none
  | _ => Option.none

end TS
end Pyg
