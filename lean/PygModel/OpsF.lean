/-
  PygModel.OpsF — the timeseries operators of C08 on multi-column DataFrames (extends PygModel.Ops).
  Anchors: src/pyg_base/_pandas.py:1018-1058 `presync.wrapped` (joint index, reindex, the column loop),
  679-731 `_df_column` (a one-column frame gives its column whatever the name, a named column, else `default`),
  170-203 `df_columns`, 756-771 `_convert`, 1061-1092 the kernels with `default = 0.0 / 1.0`,
  1133-1318 `add_ mul_ div_ sub_`, 773-845 `df_sync`, 407-412 `_df_recolumn`, 1413-1503 `df_count df_sum df_mean`.

  A frame is one index with named columns of exact rationals (`none` = NaN); column names are distinct strings
  (frames with duplicate names / numpy arrays take the positional `is_int(columns)` branch: NOT modelled, the driver
  rejects them).  pandas is *defined* here, i.e. assumed (sampled by the correspondence check):
  `DataFrame.reindex(index[, method])` picks one source ROW per label (all columns together; with a fill method
  after `_nona` has dropped the rows that are entirely NaN), `pd.DataFrame(dict of Series on one index)` is the frame
  of these columns, the name of `x op y` for two Series is the common name or None, `pd.DataFrame(unnamed Series)`
  has the column `0`.
-/
import PygModel.Ops

namespace Pyg.Ops
open Pyg Pyg.Align

/-- a `pd.DataFrame`: one index, named columns over it -/
structure RFrame where
  idx : List Int
  cols : List (String × RCol)
  deriving Repr, DecidableEq, Inhabited

def RFrame.names (f : RFrame) : List String := f.cols.map (·.1)

/-- the column called `c` (`ts[column]`) -/
def colOf (f : RFrame) (c : String) : Option RCol := (f.cols.find? (·.1 == c)).map (·.2)

/-- an operand / a result: Series, scalar or DataFrame -/
inductive FOperand where
  | ts (s : RSeries)
  | num (q : Option Rat)
  | df (f : RFrame)
  deriving Repr, DecidableEq, Inhabited

/-- the Series / scalar operands of `PygModel.Ops` -/
def FOperand.ofOperand : Operand → FOperand
  | .ts s => .ts s
  | .num q => .num q

/-- column policy of `presync` (`columns = 'ij' | 'oj' | 'lj' | 'rj'`: common columns, all columns, the columns of the
first / of the last frame with several columns) -/
inductive ColHow where
  | ij | oj | lj | rj
  deriving Repr, DecidableEq, Inhabited

/-- `presync(default = …)`, lines 1061-1092: what a missing column is replaced by -/
def Op.neutral : Op → Rat
  | .add => 0 | .sub => 0 | .mul => 1 | .div => 1

/-! ### reindexing a frame (`_df_reindex`, lines 379-384): one source row per label -/

/-- rows that are not entirely NaN (`_nona(df)`: `mask.all(axis=1)`) -/
def validRows (f : RFrame) : List Nat :=
  (List.range f.idx.length).filter fun i => f.cols.any fun c => ((c.2[i]?).join).isSome

/-- the row of `f` that `_df_reindex(f, index, method)` reads for the label `t` -/
def srcRow (f : RFrame) (m : Option Dir) (t : Int) : Option Nat :=
  match m with
  | Option.none => posOf f.idx t
  | some .ffill => let keep := validRows f; (posAsOf (keep.map fun i => f.idx.getD i 0) t).bind fun j => keep[j]?
  | some .bfill => let keep := validRows f; (posNext (keep.map fun i => f.idx.getD i 0) t).bind fun j => keep[j]?

/-- the cell of column `col` of `f` that label `t` receives -/
def lookF (f : RFrame) (m : Option Dir) (col : RCol) (t : Int) : Option Rat :=
  -- repaired `_df_reindex` (C03-A2): with a fill method a frame is joined as-of COLUMN BY COLUMN, every column on its own
  -- non-NaN observations, i.e. the source row is that of the one-column frame of `col`
  (srcRow { idx := f.idx, cols := [("", col)] } m t).bind fun i => (col[i]?).join

def reindexF (f : RFrame) (ix : List Int) (m : Option Dir) : RFrame :=
  { idx := ix, cols := f.cols.map fun c => (c.1, ix.map (lookF f m c.2)) }

def indexesOfF (xs : List FOperand) : List (List Int) :=
  xs.filterMap fun x => match x with | .ts s => some s.idx | .df f => some f.idx | .num _ => Option.none

def alignF (ix : List Int) (m : Option Dir) : FOperand → FOperand
  | .ts s => .ts (reindexR s ix m)
  | .num q => .num q
  | .df f => .df (reindexF f ix m)

/-! ### the column loop of `presync.wrapped`, lines 1034-1058 -/

/-- `[tuple(ts.columns) for ts in tss if is_df(ts) and ts.shape[1] > 1]` -/
def multiNames (xs : List FOperand) : List (List String) :=
  xs.filterMap fun x => match x with
    | .df f => if f.cols.length > 1 then some f.names else Option.none
    | _ => Option.none

/-- insert into a strictly increasing list of names -/
def insS (c : String) : List String → List String
  | [] => [c]
  | x :: xs => if c < x then c :: x :: xs else if c = x then x :: xs else x :: insS c xs

/-- `sorted(columns)` of distinct names -/
def sortS (cs : List String) : List String := cs.foldr insS []

/-- `sorted(df_columns(listed, columns))`, lines 196-198 and 1054-1055 -/
def colsJoin (ch : ColHow) (c : List String) (cs : List (List String)) : List String :=
  sortS (match ch with
    | .ij => cs.foldl interS c
    | .oj => cs.foldl unionS c
    | .lj => c                          -- `_df_index(indexes, 'lj')` = `indexes[0]`
    | .rj => (c :: cs).getLastD c)      -- `indexes[-1]`

/-- the columns looped over: `none` if no operand has several columns; the common header (in ITS order) if all
frames with several columns have the same header, lines 1038-1041; else the sorted intersection / union -/
def resultCols (ch : ColHow) : List (List String) → Option (List String)
  | [] => Option.none
  | c :: cs => if cs.all (· == c) then some c else some (colsJoin ch c cs)

/-- `_df_column(ts, column, default = default)`, lines 680-731 -/
def colArg (d : Option Rat) (c : String) : FOperand → Operand
  | .ts s => .ts s
  | .num q => .num q
  | .df f =>
    if f.cols.length = 1 then .ts { idx := f.idx, vals := (f.cols.head?.map (·.2)).getD [] }
    else match colOf f c with
      | some col => .ts { idx := f.idx, vals := col }
      | Option.none => .num d

/-- `Series.name` of what `_df_column` returns -/
def nameOf : FOperand → Option (Option String)
  | .ts _ => some Option.none
  | .num _ => Option.none
  | .df f => some (f.cols.head?.map (·.1))

/-- the name of `x op y`: the common name of the Series involved, else None -/
def resultName (a b : FOperand) : Option String :=
  match nameOf a, nameOf b with
  | some x, some y => if x = y then x else Option.none
  | some x, Option.none => x
  | Option.none, some y => y
  | Option.none, Option.none => Option.none

def isDf : FOperand → Bool
  | .df _ => true
  | _ => false

/-- the values of a per-column result over the joint index (a Series; a scalar cannot occur when an operand has
several columns — it would be broadcast by `pd.DataFrame`) -/
def bcast (ix : List Int) : Operand → RCol
  | .ts s => s.vals
  | .num q => ix.map fun _ => q

/-- lines 1034-1058 on operands that are already on the joint index `ix`, for any presync-decorated kernel: `k` is the
decorated function on Series / scalars, `d` its `presync(default = …)` (what a missing column is replaced by) -/
def kernelFG (k : Operand → Operand → Operand) (d : Option Rat) (ch : ColHow) (ix : List Int) (a b : FOperand) : FOperand :=
  match resultCols ch (multiNames [a, b]) with
  | Option.none =>                       -- `columns is None`, lines 1047-1053
    match k (colArg d "" a) (colArg d "" b) with
    | .ts r => if isDf a || isDf b then .df { idx := r.idx, cols := [((resultName a b).getD "0", r.vals)] } else .ts r
    | .num q => .num q
  | some [] => .ts { idx := [], vals := [] }     -- `_convert({})` = `pd.Series({})`: no column in common
  | some cols =>
    .df { idx := ix, cols := cols.map fun c => (c, bcast ix (k (colArg d c a) (colArg d c b))) }

/-- `_add_ _sub_ _mul_ _div_`: the arithmetic kernels with their neutral element as default -/
def kernelF (op : Op) (ch : ColHow) (ix : List Int) (a b : FOperand) : FOperand :=
  kernelFG (kernel op) (some op.neutral) ch ix a b

/-- a presync-decorated kernel on Series / scalars / frames, `f(a, b, join, method, columns)` -/
def binopFG (k : Operand → Operand → Operand) (d : Option Rat) (how : How) (m : Option Dir) (ch : ColHow) (a b : FOperand) : FOperand :=
  match joinIndex how (indexesOfF [a, b]) with
  | Option.none => kernelFG k d ch [] a b
  | some ix => kernelFG k d ch ix (alignF ix m a) (alignF ix m b)

/-- `_add_(a, b, join, method, columns)` etc. -/
def binopF (op : Op) (how : How) (m : Option Dir) (ch : ColHow) (a b : FOperand) : FOperand :=
  match joinIndex how (indexesOfF [a, b]) with
  | Option.none => kernelF op ch [] a b
  | some ix => kernelF op ch ix (alignF ix m a) (alignF ix m b)

def reducerF (f : FOperand → FOperand → FOperand) : List FOperand → Option FOperand
  | [] => Option.none
  | x :: xs => some (xs.foldl f x)

/-- the public `add_ / mul_ / sub_ / div_` with a column policy, lines 1133-1318 -/
def opListF (op : Op) (how : How) (m : Option Dir) (ch : ColHow) (as bs : List FOperand) : Option FOperand :=
  match op with
  | .add => reducerF (binopF .add how m ch) (as ++ bs)
  | .mul => reducerF (binopF .mul how m ch) (as ++ bs)
  | .sub => do
      let a ← reducerF (binopF .add how m ch) as
      let b ← reducerF (binopF .add how m ch) bs
      pure (binopF .sub how m ch a b)
  | .div => do
      let a ← reducerF (binopF .mul how m ch) as
      let b ← reducerF (binopF .mul how m ch) bs
      pure (binopF .div how m ch a b)

/-! ### `df_sum / df_mean / df_count` on frames with several columns each, lines 1424-1503
`df_sync` reindexes every frame onto the joint index and gives every frame the joint columns (a column a frame
lacks is NaN, `_df_recolumn`); then the NaN-skipping count / sum / mean cell by cell.  The ORDER of the joint columns
is pandas' (`Index.union / intersection`) and is not modelled: the model returns them sorted and the harness sorts
the implementation's columns before comparing. -/

def recolumnF (cols : List String) (f : RFrame) : RFrame :=
  { idx := f.idx, cols := cols.map fun c => (c, (colOf f c).getD (f.idx.map fun _ => Option.none)) }

def aggregateF (g : Agg) (how : How) (m : Option Dir) (ch : ColHow) (fs : List RFrame) : Option RFrame :=
  match joinIndex how (fs.map (·.idx)), fs.map (·.names) with
  | some ix, c :: cs =>
    let cols := colsJoin ch c cs
    let gs := fs.map fun f => recolumnF cols (reindexF f ix m)
    some { idx := ix,
           cols := cols.map fun c => (c, (List.range ix.length).map fun k =>
                     g.at (gs.map fun f => ((colOf f c).bind fun col => col[k]?).join)) }
  | _, _ => Option.none

/-- the frames among the operands of an aggregate -/
def framesOfX (xs : List FOperand) : List RFrame :=
  xs.filterMap fun x => match x with | .df f => some f | _ => Option.none

/-- `df_sum / df_mean / df_count` over frames with several columns each AND scalars (`df_sum([f, 5.0, g])`): index and
columns come from the frames alone, a scalar counts in every cell (`sum` broadcasts it, `~_mask(5.0)` is the bool `True`
added to every count), a NaN scalar in none.  Series operands are not covered here (known finding C08-A1). -/
def aggregateFS (g : Agg) (how : How) (m : Option Dir) (ch : ColHow) (xs : List FOperand) : Option RFrame :=
  let fs := framesOfX xs
  match joinIndex how (fs.map (·.idx)), fs.map (·.names) with
  | some ix, c :: cs =>
    let cols := colsJoin ch c cs
    let ys := xs.map fun x => match x with
      | .df f => FOperand.df (recolumnF cols (reindexF f ix m))
      | y => y
    some { idx := ix,
           cols := cols.map fun c => (c, (List.range ix.length).map fun k =>
                     g.at (ys.map fun y => match y with
                       | .df f => ((colOf f c).bind fun col => col[k]?).join
                       | .num q => q
                       | .ts _ => Option.none)) }
  | _, _ => Option.none

end Pyg.Ops
