/- line-protocol handler for the df_slice / df_unslice model (C13)

   bound  ::= N | T:<us> (a date) | (L I:<us since midnight>) (a time of day)
   oc     ::= N | S:<hex> | (L)                  openclose; (L) = not passed (df_slice's default '(]')
   frame  ::= (T I:<width> (L (T T:<t> v*)*))
   (slice one <ts> <lb> <ub> <oc>)                       df_slice(series, lb, ub, oc)        -> series
   (slice onef <frame> <lb> <ub> <oc>)                   df_slice(frame, lb, ub, oc)         -> frame
   (slice stitch (L ts*) <N|(L T:..)> <N|(L T:..)> <oc> I:n)   df_slice(list, lb, ub, oc, n) -> N | frame
   (slice unslice <frame> (L T:..))                      df_unslice(frame, ub)               -> (L (T T:u ts)*)
   (slice roundtrip (L ts*) (L T:..) I:n)                stitch, unslice, stitch again       -> N | (T frame (L (T T:u ts)*) frame)
   in the bound lists of stitch / unslice / roundtrip a member may be N (an unbounded end): lists of dates only are answered by
   `stitch` / `unslice`, lists holding N by `stitchO` / `unsliceO` (keys of the reply then T:u | N)
   member ::= ts | frame | I:<v> | F:nan | N             a Series, a DataFrame, a scalar
   blist  ::= N | (L T:<t>*) (dates) | (T I:<us>*) (times of day)
   (slice stitchm (L member*) <blist> <blist> <oc> I:n)  df_slice(list, lb, ub, oc, n)       -> N | frame
   barg   ::= (T <bound>) (a single bound) | (L <bound>*) (a python list of bounds)
   (slice slices <ts> <barg> <barg> <oc>)                df_slice(series, lb, ub, oc)        -> N | (T ts) | (L ts*)
-/
import PygModel.Slice

namespace Pyg.SliceDriver
open Pyg Pyg.Slice

abbrev St := Unit
def init : St := ()
def modelName : String := "slice"

def valCell : Option Int → Val
  | some x => .cell (.int x)
  | Option.none => .cell .nan

def cellVal : Val → Option (Option Int)
  | .cell (.int v) => some (some v)
  | .cell .nan => some Option.none
  | .cell .none => some Option.none
  | _ => Option.none

def boundOf : Val → Option Bound
  | .cell .none => some .none
  | .cell (.dt t) => some (.date t)
  | .list [.cell (.int s)] => some (.time s)
  | _ => Option.none

def ocOf : Val → Option (Option (List Char))
  | .cell .none => some Option.none
  | .cell (.str s) => some (some s.toList)
  | .list [] => some (some ['(', ']'])          -- argument omitted: `df_slice(..., openclose = '(]')`
  | _ => Option.none

def datesOf : Val → Option (Option (List Int))
  | .cell .none => some Option.none
  | .list xs => (xs.mapM fun (x : Val) => match x with
      | Val.cell (Cell.dt t) => some t
      | _ => Option.none).map some
  | _ => Option.none

/-- a bound list whose members may be `None` -/
def odatesOf : Val → Option (Option (List (Option Int)))
  | .cell .none => some Option.none
  | .list xs => (xs.mapM fun (x : Val) => match x with
      | Val.cell (Cell.dt t) => some (some t)
      | Val.cell Cell.none => some Option.none
      | _ => Option.none).map some
  | _ => Option.none

/-- the list when it holds dates only -/
def closedDates : Option (List (Option Int)) → Option (Option (List Int))
  | Option.none => some Option.none
  | some xs => (xs.mapM id).map some

def frameVal (f : Frame) : Val :=
  .tuple [.cell (.int f.width), .list (f.rows.map fun r => .tuple (.cell (.dt r.1) :: r.2.map valCell))]

def frameOf : Val → Option Frame
  | .tuple [.cell (.int w), .list rows] => do
      let rows ← rows.mapM fun (r : Val) => match r with
        | Val.tuple (Val.cell (Cell.dt t) :: vs) => (vs.mapM cellVal).map fun vs => (t, vs)
        | _ => Option.none
      if rows.all (fun r => r.2.length == w.toNat) then pure ⟨w.toNat, rows⟩ else Option.none
  | _ => Option.none

def tsList : Val → Option (List TS)
  | .list xs => xs.mapM TS.ofVal
  | _ => Option.none

def unslicedVal (u : List (Int × TS)) : Val := .list (u.map fun p => .tuple [.cell (.dt p.1), TS.toVal p.2])

def unslicedValO (u : List (Option Int × TS)) : Val :=
  .list (u.map fun p => .tuple [(match p.1 with | some t => .cell (.dt t) | Option.none => .cell .none), TS.toVal p.2])

def reply {α} (r : Res α) (f : α → Val) : String :=
  match r with
  | .ok x => "ok " ++ (f x).render
  | .error e => "err " ++ e.render

def optFrameVal : Option Frame → Val
  | some f => frameVal f
  | Option.none => .cell .none

def roundtrip (dfs : List TS) (ub : List Int) (n : Nat) : Res Val := do
  match ← stitch dfs Option.none (some ub) (some ['(', ']']) n with
  | Option.none => pure (.cell .none)
  | some f =>
    let u ← unslice f ub
    let g ← stitch (u.map (·.2)) Option.none (some ub) (some ['(', ']']) n
    pure (.tuple [frameVal f, unslicedVal u, optFrameVal g])

def roundtripO (dfs : List TS) (ub : List (Option Int)) (n : Nat) : Res Val := do
  match ← stitchO dfs Option.none (some ub) (some ['(', ']']) n with
  | Option.none => pure (.cell .none)
  | some f =>
    let u ← unsliceO f ub
    let g ← stitchO (u.map (·.2)) Option.none (some ub) (some ['(', ']']) n
    pure (.tuple [frameVal f, unslicedValO u, optFrameVal g])

def memberOf (v : Val) : Option Member :=
  match v with
  | .list _ => (TS.ofVal v).map Member.series
  | .tuple _ => (frameOf v).map Member.frame
  | .cell (.int x) => some (.scalar (some x))
  | .cell .nan => some (.scalar Option.none)
  | .cell .none => some (.scalar Option.none)
  | _ => Option.none

def blistOf : Val → Option (Option (BKind × List Int))
  | .cell .none => some Option.none
  | .list xs => (xs.mapM fun (x : Val) => match x with
      | Val.cell (Cell.dt t) => some t
      | _ => Option.none).map fun l => some (BKind.date, l)
  | .tuple xs => (xs.mapM fun (x : Val) => match x with
      | Val.cell (Cell.int t) => some t
      | _ => Option.none).map fun l => some (BKind.time, l)
  | _ => Option.none

def bargOf : Val → Option BArg
  | .tuple [b] => (boundOf b).map BArg.one
  | .list bs => (bs.mapM boundOf).map BArg.list
  | _ => Option.none

def slicedVal : Sliced (Option Int) → Val
  | .nothing => .cell .none
  | .one r => .tuple [TS.toVal r]
  | .many rs => .list (rs.map TS.toVal)

def handle1 (op : String) (args : List Sexp) : Option String := do
  match op, args with
  | "one", [ts, lb, ub, oc] =>
      let ts ← TS.ofVal (← Val.ofSexp ts)
      let lb ← boundOf (← Val.ofSexp lb); let ub ← boundOf (← Val.ofSexp ub); let oc ← ocOf (← Val.ofSexp oc)
      pure (reply (sliceWrap ts lb ub oc) TS.toVal)
  | "onef", [f, lb, ub, oc] =>
      let f ← frameOf (← Val.ofSexp f)
      let lb ← boundOf (← Val.ofSexp lb); let ub ← boundOf (← Val.ofSexp ub); let oc ← ocOf (← Val.ofSexp oc)
      pure (reply (sliceWrap f.rows lb ub oc) fun rows => frameVal ⟨f.width, rows⟩)
  | "stitch", [dfs, lb, ub, oc, n] =>
      let dfs ← tsList (← Val.ofSexp dfs)
      let lb ← odatesOf (← Val.ofSexp lb); let ub ← odatesOf (← Val.ofSexp ub); let oc ← ocOf (← Val.ofSexp oc)
      let n ← match ← Val.ofSexp n with | .cell (.int n) => some n.toNat | _ => Option.none
      match closedDates lb, closedDates ub with
      | some lb', some ub' => pure (reply (stitch dfs lb' ub' oc n) optFrameVal)
      | _, _ => pure (reply (stitchO dfs lb ub oc n) optFrameVal)
  | "stitchm", [ms, lb, ub, oc, n] =>
      let ms ← match ← Val.ofSexp ms with | .list xs => xs.mapM memberOf | _ => Option.none
      let lb ← blistOf (← Val.ofSexp lb); let ub ← blistOf (← Val.ofSexp ub); let oc ← ocOf (← Val.ofSexp oc)
      let n ← match ← Val.ofSexp n with | .cell (.int n) => some n.toNat | _ => Option.none
      pure (reply (stitchB ms lb ub oc n) optFrameVal)
  | "slices", [ts, lb, ub, oc] =>
      let ts ← TS.ofVal (← Val.ofSexp ts)
      let lb ← bargOf (← Val.ofSexp lb); let ub ← bargOf (← Val.ofSexp ub); let oc ← ocOf (← Val.ofSexp oc)
      pure (reply (slicesOfSeries ts lb ub oc) slicedVal)
  | "unslice", [f, ub] =>
      let f ← frameOf (← Val.ofSexp f)
      let ub ← (← odatesOf (← Val.ofSexp ub))
      match ub.mapM id with
      | some ub' => pure (reply (unslice f ub') unslicedVal)
      | Option.none => pure (reply (unsliceO f ub) unslicedValO)
  | "roundtrip", [dfs, ub, n] =>
      let dfs ← tsList (← Val.ofSexp dfs)
      let ub ← (← odatesOf (← Val.ofSexp ub))
      let n ← match ← Val.ofSexp n with | .cell (.int n) => some n.toNat | _ => Option.none
      match ub.mapM id with
      | some ub' => pure (reply (roundtrip dfs ub' n) id)
      | Option.none => pure (reply (roundtripO dfs ub n) id)
  | _, _ => Option.none

def handle (s : St) (op : String) (args : List Sexp) : Option (St × String) :=
  (handle1 op args).map fun r => (s, r)

end Pyg.SliceDriver
