/- line-protocol handler for the Ops model (C08).
   operand : (ts (L (T T:<t> <cell>)*)) | (num <cell>) | (L operand*)        cell = I:<4x> | F:nan
   ops     : (ops bin <add|sub|mul|div> <a> <b> <ij|oj|lj|rj> <N|ffill|bfill>)      a, b: operand or list of operands
             (ops agg <sum|mean|count> (L operand*) <how> <method>)
   replies : (ts (L (T T:<t> Q:<num>/<den> | F:nan)*)) | (num Q:<num>/<den> | F:nan) | N -/
import PygModel.Ops
import PygModel.AlignDriver

namespace Pyg.OpsDriver
open Pyg Pyg.Align Pyg.Ops Pyg.AlignDriver

def ratOfCell : Sexp → Option (Option Rat)
  | .atom "F:nan" => some Option.none
  | .atom s => if s.startsWith "I:" then (s.drop 2).toString.toInt?.map fun n => some ((n : Rat) / 4) else Option.none
  | _ => Option.none

def seriesOfSexp : Sexp → Option RSeries
  | .node (.atom "L" :: rows) => do
      let ps ← rows.mapM fun r => match r with
        | .node [.atom "T", t, v] => do
            let t ← timeOf t; let v ← ratOfCell v
            pure (t, v)
        | _ => Option.none
      pure { idx := ps.map (·.1), vals := ps.map (·.2) }
  | _ => Option.none

def operandOf : Sexp → Option Operand
  | .node [.atom "ts", x] => (seriesOfSexp x).map .ts
  | .node [.atom "num", x] => (ratOfCell x).map .num
  | _ => Option.none

/-- `as_list(x)` -/
def operandsOf : Sexp → Option (List Operand)
  | .node (.atom "L" :: xs) => xs.mapM operandOf
  | .atom "N" => some []
  | x => (operandOf x).map fun o => [o]

def ratStr (q : Option Rat) : String :=
  match q with
  | some r => s!"Q:{r.num}/{r.den}"
  | Option.none => "F:nan"

def operandStr : Operand → String
  | .ts s => "(ts (L" ++ String.join ((s.idx.zip s.vals).map fun p => s!" (T T:{p.1} {ratStr p.2})") ++ "))"
  | .num q => s!"(num {ratStr q})"

def opOf : Sexp → Option Op
  | .atom "add" => some .add | .atom "sub" => some .sub | .atom "mul" => some .mul | .atom "div" => some .div
  | _ => Option.none

def aggOf : Sexp → Option Agg
  | .atom "sum" => some .sum | .atom "mean" => some .mean | .atom "count" => some .count
  | _ => Option.none

abbrev St := Unit
def init : St := ()
def modelName : String := "ops"

def handle1 (op : String) (args : List Sexp) : Option String := do
  match op, args with
  | "bin", [o, a, b, how, m] =>
      let o ← opOf o; let as ← operandsOf a; let bs ← operandsOf b; let how ← howOf how; let m ← dirOf m
      match opList o how m as bs with
      | some r => pure ("ok " ++ operandStr r)
      | Option.none => pure "ok N"
  | "agg", [g, xs, how, m] =>
      let g ← aggOf g; let xs ← operandsOf xs; let how ← howOf how; let m ← dirOf m
      match aggregate g how m xs with
      | some s => pure ("ok " ++ operandStr (.ts s))
      | Option.none => pure "ok (num F:nan)"
  | _, _ => Option.none

def handle (s : St) (op : String) (args : List Sexp) : Option (St × String) :=
  (handle1 op args).map fun r => (s, r)

end Pyg.OpsDriver
