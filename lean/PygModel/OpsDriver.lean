/- line-protocol handler for the Ops model (C08).
   operand : (ts (L (T T:<t> <cell>)*)) | (num <cell>) | (L operand*)        cell = I:<4x> | F:nan
   ops     : (ops bin <add|sub|mul|div> <a> <b> <ij|oj|lj|rj> <N|ffill|bfill>)      a, b: operand or list of operands
             (ops agg <sum|mean|count> (L operand*) <how> <method>)                 Series and scalars; no Series at all -> (num ..)
   replies : (ts (L (T T:<t> Q:<num>/<den> | F:nan)*)) | (num Q:<num>/<den> | F:nan) | N
   frames  : foperand = operand | (df (T (L T:<t>*) (D (<hexname> (L <cell>*))*)))     (distinct names, >= 1 column, rectangular)
             (ops binf <add|sub|mul|div> <a> <b> <how> <method> <ij|oj>)                a, b: foperand or list of foperands
             (ops aggf <sum|mean|count> (L (df ..) | (num ..) ...) <how> <method> <ij|oj>)  frames with >= 2 columns each (at least one), scalars
   others  : (ops cmp <gt|ge|lt|le> <a> <b> <how> <method>)    replies (bts (L (T T:<t> true|false)*)) | (flag true|false)
             (ops mm <min|max> <a> <b> <how> <method>)           a, b: operand or list of operands; replies as `bin`
             (ops pow <a> <b> <how> <method>)                    exponents NaN or non-negative integers, else bad-op
   replies : ... | (df (T (L T:<t>*) (D (<hexname> (L Q:<num>/<den> | F:nan ...))*)))
   frames, other operators (column policies ij|oj|lj|rj, also for binf):
             (ops powf <a> <b> <how> <method> <ch>)              a, b: foperand; exponents NaN or non-negative integers, else bad-op
             (ops cmpf <gt|ge|lt|le> <a> <b> <how> <method> <ch>) replies (bts ..) | (flag ..) | (bdf (T (L T:<t>*) (D (<hexname> (L true|false ...))*)))
             (ops mmf <min|max> <a> <b> <how> <method> <ch>)      a, b: foperand or list of foperands (no one-column frames); columns sorted -/
import PygModel.OpsF
import PygModel.OpsX
import PygModel.OpsFX
import PygModel.AlignDriver

namespace Pyg.OpsDriver
open Pyg Pyg.Align Pyg.Ops Pyg.AlignDriver

def ratOfCell : Sexp → Option (Option Rat)
  | .atom "F:nan" => some Option.none
  | .atom s => if s.startsWith "I:" then (s.drop 2).toString.toInt?.map fun n => some ((n : Rat) / 4) else Option.none
  | _ => Option.none

def seriesOfSexp : Sexp → Option RSeries
  | .node (.atom "L" :: rows) => do
      let ps ← rows.mapM fun r => match r with
        | .node [.atom "T", t, v] => do
            let t ← timeOf t; let v ← ratOfCell v
            pure (t, v)
        | _ => Option.none
      pure { idx := ps.map (·.1), vals := ps.map (·.2) }
  | _ => Option.none

def operandOf : Sexp → Option Operand
  | .node [.atom "ts", x] => (seriesOfSexp x).map .ts
  | .node [.atom "num", x] => (ratOfCell x).map .num
  | _ => Option.none

/-- `as_list(x)` -/
def operandsOf : Sexp → Option (List Operand)
  | .node (.atom "L" :: xs) => xs.mapM operandOf
  | .atom "N" => some []
  | x => (operandOf x).map fun o => [o]

def ratStr (q : Option Rat) : String :=
  match q with
  | some r => s!"Q:{r.num}/{r.den}"
  | Option.none => "F:nan"

def operandStr : Operand → String
  | .ts s => "(ts (L" ++ String.join ((s.idx.zip s.vals).map fun p => s!" (T T:{p.1} {ratStr p.2})") ++ "))"
  | .num q => s!"(num {ratStr q})"

def opOf : Sexp → Option Op
  | .atom "add" => some .add | .atom "sub" => some .sub | .atom "mul" => some .mul | .atom "div" => some .div
  | _ => Option.none

def aggOf : Sexp → Option Agg
  | .atom "sum" => some .sum | .atom "mean" => some .mean | .atom "count" => some .count
  | _ => Option.none

/-! ### frames -/

def frameOfSexp : Sexp → Option RFrame
  | .node [.atom "T", .node (.atom "L" :: ts), .node (.atom "D" :: kvs)] => do
      let idx ← ts.mapM timeOf
      let cols ← kvs.mapM fun kv => match kv with
        | .node [.atom k, .node (.atom "L" :: cells)] => do
            let k ← hexDecode k
            let c ← cells.mapM ratOfCell
            if c.length = idx.length then pure (k, c) else Option.none
        | _ => Option.none
      -- frames without columns or with duplicate names take branches of `presync` that are not modelled
      if cols.isEmpty || !(cols.map (·.1)).eraseDups.length == cols.length then Option.none
      else pure { idx := idx, cols := cols }
  | _ => Option.none

def foperandOf : Sexp → Option FOperand
  | .node [.atom "df", x] => (frameOfSexp x).map .df
  | x => (operandOf x).map FOperand.ofOperand

def foperandsOf : Sexp → Option (List FOperand)
  | .node (.atom "L" :: xs) => xs.mapM foperandOf
  | .atom "N" => some []
  | x => (foperandOf x).map fun o => [o]

def frameStr (f : RFrame) : String :=
  "(df (T (L" ++ String.join (f.idx.map fun t => s!" T:{t}") ++ ") (D" ++
    String.join (f.cols.map fun c => " (" ++ hexEncode c.1 ++ " (L" ++ String.join (c.2.map fun v => " " ++ ratStr v) ++ "))") ++ ")))"

def foperandStr : FOperand → String
  | .ts s => operandStr (.ts s)
  | .num q => operandStr (.num q)
  | .df f => frameStr f

def colHowOf2 : Sexp → Option ColHow
  | .atom "ij" => some .ij | .atom "oj" => some .oj
  | _ => Option.none

def colHowOf4 : Sexp → Option ColHow
  | .atom "ij" => some .ij | .atom "oj" => some .oj | .atom "lj" => some .lj | .atom "rj" => some .rj
  | _ => Option.none

def cmpOf : Sexp → Option Cmp
  | .atom "gt" => some .gt | .atom "ge" => some .ge | .atom "lt" => some .lt | .atom "le" => some .le
  | _ => Option.none

def mmOf : Sexp → Option MM
  | .atom "min" => some .min | .atom "max" => some .max
  | _ => Option.none

def boperandStr : BOperand → String
  | .ts idx vals => "(bts (L" ++ String.join ((idx.zip vals).map fun p => s!" (T T:{p.1} {p.2})") ++ "))"
  | .flag b => s!"(flag {b})"

def boolStr (v : Option Rat) : String := if v == some 1 then "true" else "false"

/-- a comparison result: bool cells travel as 1 / 0 inside the model -/
def bfoperandStr : FOperand → String
  | .ts s => "(bts (L" ++ String.join ((s.idx.zip s.vals).map fun p => s!" (T T:{p.1} {boolStr p.2})") ++ "))"
  | .num q => s!"(flag {boolStr q})"
  | .df f => "(bdf (T (L" ++ String.join (f.idx.map fun t => s!" T:{t}") ++ ") (D" ++
      String.join (f.cols.map fun c => " (" ++ hexEncode c.1 ++ " (L" ++ String.join (c.2.map fun v => " " ++ boolStr v) ++ "))") ++ ")))"

abbrev St := Unit
def init : St := ()
def modelName : String := "ops"

def handle1 (op : String) (args : List Sexp) : Option String := do
  match op, args with
  | "bin", [o, a, b, how, m] =>
      let o ← opOf o; let as ← operandsOf a; let bs ← operandsOf b; let how ← howOf how; let m ← dirOf m
      match opList o how m as bs with
      | some r => pure ("ok " ++ operandStr r)
      | Option.none => pure "ok N"
  | "agg", [g, xs, how, m] =>
      let g ← aggOf g; let xs ← operandsOf xs; let how ← howOf how; let m ← dirOf m
      match aggregate g how m xs with
      | some s => pure ("ok " ++ operandStr (.ts s))
      | Option.none => pure ("ok " ++ operandStr (.num (aggregateNum g xs)))      -- no Series at all: a scalar
  | "cmp", [c, a, b, how, m] =>
      let c ← cmpOf c; let a ← operandOf a; let b ← operandOf b; let how ← howOf how; let m ← dirOf m
      pure ("ok " ++ boperandStr (cmpop c how m a b))
  | "mm", [k, a, b, how, m] =>
      let k ← mmOf k; let as ← operandsOf a; let bs ← operandsOf b; let how ← howOf how; let m ← dirOf m
      match mmList k how m as bs with
      | some r => pure ("ok " ++ operandStr r)
      | Option.none => pure "ok N"
  | "pow", [a, b, how, m] =>
      let a ← operandOf a; let b ← operandOf b; let how ← howOf how; let m ← dirOf m
      if powDomain b then pure ("ok " ++ operandStr (powop how m a b)) else Option.none
  | "binf", [o, a, b, how, m, ch] =>
      let o ← opOf o; let as ← foperandsOf a; let bs ← foperandsOf b; let how ← howOf how; let m ← dirOf m; let ch ← colHowOf4 ch
      match opListF o how m ch as bs with
      | some r => pure ("ok " ++ foperandStr r)
      | Option.none => pure "ok N"
  | "powf", [a, b, how, m, ch] =>
      let a ← foperandOf a; let b ← foperandOf b; let how ← howOf how; let m ← dirOf m; let ch ← colHowOf4 ch
      if powDomainF b then pure ("ok " ++ foperandStr (powF how m ch a b)) else Option.none
  | "cmpf", [c, a, b, how, m, ch] =>
      let c ← cmpOf c; let a ← foperandOf a; let b ← foperandOf b; let how ← howOf how; let m ← dirOf m; let ch ← colHowOf4 ch
      pure ("ok " ++ bfoperandStr (cmpF c how m ch a b))
  | "mmf", [k, a, b, how, m, ch] =>
      let k ← mmOf k; let as ← foperandsOf a; let bs ← foperandsOf b; let how ← howOf how; let m ← dirOf m; let ch ← colHowOf4 ch
      let ok := (as ++ bs).all fun x => match x with
        | .df f => f.cols.length > 1
        | _ => true
      if !ok then Option.none                                   -- one-column frames: not modelled
      else if mmRaises ch (as ++ bs) then pure "err ValueError"
      else match mmListF k how m ch as bs with
        | some r => pure ("ok " ++ foperandStr r)
        | Option.none => pure "ok N"
  | "aggf", [g, xs, how, m, ch] =>
      let g ← aggOf g; let xs ← foperandsOf xs; let how ← howOf how; let m ← dirOf m; let ch ← colHowOf2 ch
      let ok := xs.all fun x => match x with
        | .df f => f.cols.length > 1
        | .num _ => true
        | .ts _ => false
      if !ok || (framesOfX xs).isEmpty then Option.none      -- Series / one-column frames among frames: not modelled (C08-A1)
      else match aggregateFS g how m ch xs with
        | some f => pure ("ok " ++ frameStr f)
        | Option.none => Option.none
  | _, _ => Option.none

def handle (s : St) (op : String) (args : List Sexp) : Option (St × String) :=
  (handle1 op args).map fun r => (s, r)

end Pyg.OpsDriver
