/-
  PygModel.TableBasic — shared vocabulary for the dictable models (DESIGN §4):
  a table is a list of named columns; `Rect` says all columns have one length;
  the abstract view is the list of rows (records).
-/
import PygModel.Sort

namespace Pyg

/-- a dictable: insertion-ordered columns of cells -/
abbrev Table := List (String × List Cell)

namespace Table

def cols (t : Table) : List String := t.map (·.1)

/-- `len(d)`: the length of the first column, 0 without columns (src/pyg_base/_dictable.py `__len__`) -/
def nrows : Table → Nat
  | [] => 0
  | (_, xs) :: _ => xs.length

/-- every column has length `n` -/
def Rect (t : Table) (n : Nat) : Prop := ∀ c ∈ t, c.2.length = n

instance (t : Table) (n : Nat) : Decidable (t.Rect n) := by unfold Rect; infer_instance

def col? (t : Table) (k : String) : Option (List Cell) := (t.find? (·.1 == k)).map (·.2)

/-- row `i` as a list of cells in column order (`none`-filled if out of range) -/
def row (t : Table) (i : Nat) : List Cell := t.map fun c => c.2.getD i .none

/-- the list-of-records view -/
def rows (t : Table) : List (List Cell) := (List.range t.nrows).map t.row

/-- select rows by index in every column -/
def gatherRows (t : Table) (idx : List Nat) : Table := t.map fun c => (c.1, idx.map fun i => c.2.getD i .none)

/-- rebuild a table from column names and rows -/
def ofRows (cs : List String) (rs : List (List Cell)) : Table :=
  cs.zipIdx.map fun (c, j) => (c, rs.map fun r => r.getD j .none)

theorem gatherRows_rect (t : Table) (idx : List Nat) : (t.gatherRows idx).Rect idx.length := by
  intro c hc
  simp only [gatherRows, List.mem_map] at hc
  obtain ⟨c', _, rfl⟩ := hc
  simp

theorem row_gatherRows (t : Table) (idx : List Nat) (j : Nat) (hj : j < idx.length) :
    (t.gatherRows idx).row j = t.row idx[j] := by
  simp [row, gatherRows, List.map_map, Function.comp_def, List.getD_eq_getElem?_getD, hj]

theorem cols_gatherRows (t : Table) (idx : List Nat) : (t.gatherRows idx).cols = t.cols := by
  simp [cols, gatherRows, List.map_map, Function.comp_def]

end Table

/-! ### wire format of tables: `(D (col (L cell*))*)` -/

def Table.toVal (t : Table) : Val := .dict (t.map fun c => (c.1, .list (c.2.map .cell)))

def Table.ofVal : Val → Option Table
  | .dict kvs => kvs.mapM fun (k, v) => match v with
      | .list xs => (xs.mapM fun x => match x with | Val.cell c => some c | _ => Option.none).map fun cs => (k, cs)
      | _ => Option.none
  | _ => Option.none

end Pyg
