/-
  PygModel.WrapHist — call HISTORIES through a stack of decorators that contains a `cache_func` layer.

  `evalChain` (Wrap.lean) is one call through a stack whose cache is empty.  Here the stack keeps its state
  between calls: the dict of the cache layer (`cache_func.wrapped`, _cache.py:41-49) and a log of every call that
  reached the plain function and was bound by it (= one execution of its body).  Every wrapper calls
  `self.function(*args, **kwargs)`, the next object of the chain, so the state is threaded from the outside in:

  * `try_value.wrapped` (_decorators.py:226-247): `repeat` attempts whose exceptions are swallowed, then a last
    attempt whose exception is replaced by the fallback (or propagates with `return_value=False`) — every attempt
    runs the layers below, so a raising function under it is evaluated several times (`attempts`);
  * `cache_func.wrapped`: an unhashable key (`unh`) → the `except` path: evaluate below, store nothing; a stored key →
    the stored result, nothing below is called; a miss → evaluate below, store an ordinary result; when the layers
    below RAISE the `except Exception` handler calls them a second time and nothing is stored;
  * `try_back`, `kwargs_support`, `loops` (non-container), `pd2np` (non-pandas): as in `evalChain`.

  One state is kept for one cache layer: the constructor never builds a chain with two wrappers of one class
  (theorem `mk_keeps_distinct`).
-/
import PygModel.Wrap
import PygModel.Cache

namespace Pyg

structure HSt where
  cache : List (Val × Val) := []     -- `self.cache` of the cache layer: key ↦ stored result
  evals : List Call := []            -- every call the plain function was executed with, in order
  deriving Repr, Inhabited

/-- `self.repeat` of a `try_value` wrapper -/
def repeatOf (p : PDict) : Nat :=
  match p.lookup "repeat" with
  | some (.cell (.int n)) => n.toNat
  | _ => 0

/-- `n` attempts whose exception is swallowed, then a last one -/
def attempts (run : HSt → HSt × Res Val) : Nat → HSt → HSt × Res Val
  | 0, st => run st
  | n + 1, st =>
    match run st with
    | (st1, .ok v) => (st1, .ok v)
    | (st1, .error _) => attempts run n st1

/-- one call of a decorated function in state `st` -/
def evalH (s : Sig) (body : PDict → Res Val) (unh : Call → Bool) :
    List (Cls × PDict) → HSt → Call → HSt × Res Val
  | [], st, c =>
      match bindRef s c with
      | .error e => (st, .error e)                                   -- python cannot bind the call: no execution
      | .ok b => ({ st with evals := st.evals ++ [c] }, body b)
  | (.tryValue, p) :: rest, st, c =>
      match attempts (fun st => evalH s body unh rest st c) (repeatOf p) st with
      | (st1, .ok v) => (st1, .ok v)
      | (st1, .error e) =>
        if returnsValue p = false then (st1, .error e)
        else (st1, .ok ((p.lookup "value").getD (.cell .none)))
  | (.tryBack, _) :: rest, st, c =>
      match evalH s body unh rest st c with
      | (st1, .ok v) => (st1, .ok v)
      | (st1, .error _) => (st1, .ok (firstArg s c))
  | (.kwargsSupport, _) :: rest, st, c => evalH s body unh rest st (kwFilter s c)
  | (.cache, _) :: rest, st, c =>
      if unh c then evalH s body unh rest st c          -- `key not in self.cache` raises: the `except` path
      else match st.cache.lookup (callKey c) with
        | some v => (st, .ok v)
        | Option.none =>
          match evalH s body unh rest st c with
          | (st1, .ok v) => ({ st1 with cache := st1.cache ++ [(callKey c, v)] }, .ok v)
          | (st1, .error _) => evalH s body unh rest st1 c            -- `except Exception: return self.function(…)`
  | (.loops, _) :: rest, st, c => evalH s body unh rest st (loopsCall s c)
  | (.pd2np, p) :: rest, st, c => evalH s body unh rest st (pd2npCall (excOf p) c)

/-- a history of calls on one decorated function: final state and the replies -/
def runH (s : Sig) (body : PDict → Res Val) (unh : Call → Bool) (chain : List (Cls × PDict)) :
    HSt → List Call → HSt × List (Res Val)
  | st, [] => (st, [])
  | st, c :: cs =>
    let (st1, r) := evalH s body unh chain st c
    let (st2, rs) := runH s body unh chain st1 cs
    (st2, r :: rs)

/-- the call that arrives below a stack of layers (what `kwargs_support`, `loops`, `pd2np` forward) -/
def reach (s : Sig) : List (Cls × PDict) → Call → Call
  | [], c => c
  | (.kwargsSupport, _) :: rest, c => reach s rest (kwFilter s c)
  | (.loops, _) :: rest, c => reach s rest (loopsCall s c)
  | (.pd2np, p) :: rest, c => reach s rest (pd2npCall (excOf p) c)
  | (.tryValue, _) :: rest, c => reach s rest c
  | (.tryBack, _) :: rest, c => reach s rest c
  | (.cache, _) :: rest, c => reach s rest c

/-! ### constructor applications BETWEEN calls

`self.cache` is an item of the wrapper (`dictattr`), hence one of its parameters (`_kwargs`): a constructor that unwraps / cuts out
a `cache_func` takes the dict object over (`kw = function._kwargs; kw.update(kwargs)`), and the shallow `copy(function)` shares
it.  So the cache layer's dict SURVIVES re-wrapping: `g1 = cache_func(f); g1(1); g2 = cache_func(try_none(g1)); g2(1)` does
not execute `f` again.  In the model the dict lives in `HSt`, outside the chain: a construction step changes the chain (`mk`)
and keeps the state.  (Only the newest object is called here; older objects called again: `runMulti` below.) -/

inductive HStep where
  | call (c : Call)
  | wrap (cls : Cls) (p : PDict)

/-- replies and number of executions of the plain function so far, per `call` step -/
def runSteps (s : Sig) (body : PDict → Res Val) (unh : Call → Bool) : WFn → HSt → List HStep → List (Res Val × Nat)
  | _, _, [] => []
  | fn, st, .wrap cls p :: rest => runSteps s body unh (mk cls p fn) st rest
  | fn, st, .call c :: rest =>
    let (st1, r) := evalH s body unh fn.chain st c
    (r, st1.evals.length) :: runSteps s body unh fn st1 rest

/-! ### several decorated functions alive at once (review t5: the constructor must not destroy its operand)

`wrapper.__init__` REBUILDS the chain of its operand (every wrapper object on the way down is a shallow `copy`); the operand and
the objects inside it stay as they are and keep answering as before (repaired code, P7: the pinned code cut a same-class wrapper
out of the operand's inner objects IN PLACE).  A world holds every object built so far - object 0 is the plain function -, the
dicts of the cache layers and the log of executions of the plain function.

The dict of a cache layer is created by the layer's first call (`self.cache = getattr(self, 'cache', {})`, _cache.py:65) and is an
ITEM of that wrapper object from then on: a shallow copy made afterwards - and a `cache_func` constructor that takes the
parameters of a cache layer over - shares the dict OBJECT; a copy made before the first call has no dict yet and will make its
own.  `cid` names the dict an object's cache layer holds (`none`: not created yet). -/

structure MObj where
  chain : List (Cls × PDict)
  cid : Option Nat
  deriving Repr, Inhabited

structure MWorld where
  objs : List MObj := [{ chain := [], cid := Option.none }]
  caches : List (List (Val × Val)) := []
  evals : List Call := []
  deriving Repr, Inhabited

inductive MStep where
  | call (obj : Nat) (c : Call)
  | wrap (cls : Cls) (p : PDict) (src : Nat)

def hasCacheLayer (chain : List (Cls × PDict)) : Bool := chain.any fun w => w.1 == Cls.cache

/-- the object a constructor `cls(objs[src], **p)` returns: the rebuilt chain; its cache layer (if any) holds the dict the
operand's cache layer holds at this moment -/
def mkObj (cls : Cls) (p : PDict) (o : MObj) : MObj :=
  let chain := (mk cls p { chain := o.chain, base := 0 }).chain
  { chain := chain, cid := if hasCacheLayer chain then o.cid else Option.none }

/-- one step; `none` = the step names an object that does not exist.  A call replies `(result, executions of f so far)` -/
def stepM (s : Sig) (body : PDict → Res Val) (unh : Call → Bool) (w : MWorld) : MStep → Option (MWorld × Option (Res Val × Nat))
  | .wrap cls p src =>
    match w.objs[src]? with
    | Option.none => Option.none
    | some o => some ({ w with objs := w.objs ++ [mkObj cls p o] }, Option.none)
  | .call j c =>
    match w.objs[j]? with
    | Option.none => Option.none
    | some o =>
      if hasCacheLayer o.chain then
        -- the cache layer's dict: the one it holds, or a new empty one
        let (i, caches) := match o.cid with
          | some i => (i, w.caches)
          | Option.none => (w.caches.length, w.caches ++ [[]])
        let (h1, r) := evalH s body unh o.chain { cache := caches[i]?.getD [], evals := w.evals } c
        some ({ objs := w.objs.set j { o with cid := some i }, caches := caches.set i h1.cache, evals := h1.evals },
              some (r, h1.evals.length))
      else
        let (h1, r) := evalH s body unh o.chain { cache := [], evals := w.evals } c
        some ({ w with evals := h1.evals }, some (r, h1.evals.length))

/-- a history of constructions and calls on ANY of the objects built so far: the replies of the call steps -/
def runMulti (s : Sig) (body : PDict → Res Val) (unh : Call → Bool) : MWorld → List MStep → Option (List (Res Val × Nat))
  | _, [] => some []
  | w, st :: rest =>
    match stepM s body unh w st with
    | Option.none => Option.none
    | some (w1, out) =>
      match runMulti s body unh w1 rest with
      | Option.none => Option.none
      | some outs => some (match out with | some r => r :: outs | Option.none => outs)

end Pyg
