/-
  PygModel.TableAlias — a REFERENCE-heap layer over the history machine `step` of PygModel/Table.lean
  (review of C01, aliasing).

  `Heap = List Table` has value semantics: `d + None` (`return self`, src/pyg_base/_dictable.py `__add__`)
  and `dictable.concat([d])` (`is d`) only REPORT `Out.alias h`; the result is never bound to a handle, so no
  history of `step` can mutate a table through an alias (real code: `e = d + None; e['z'] = 5` changes `d`).

  Here a handle is a pointer: `ptr : handle → cell index`, `cells : List Table`.  `rstep` is defined THROUGH
  `step`, run on the cells: the source handles of the operation are translated to cells (`Op.mapHandles`),
    * a table-producing operation writes a FRESH cell (destination translated to `cells.length`, so
      `Heap.put` appends) and, on success, binds its destination handle to it;
    * the in-place operations `setitem / delitem / update` write the cell of their handle — every handle
      bound to that cell sees the change;
    * `bindAlias dst h` (`dst = h + None`, `dst = h + 0`, `dst = dictable.concat([h])`, plain `dst = h`)
      makes `dst` point to the cell of `h`.
  Cells no handle points to any more are garbage (not collected; unobservable).
  Theorems: `Pyg.Props.C01.rframe_step`, `ralias_shared`, `rrect_step`, `rwf_step`, `rstep_noalias`, `rrun_noalias`.
  (`RHeap` is the name of the list-of-records heap of TableSpec.lean; this structure is `RefHeap`.)
-/
import PygModel.Table

namespace Pyg

/-- handles as pointers into a store of tables -/
structure RefHeap where
  ptr : List Nat          -- handle ↦ cell index
  cells : List Table
  deriving Repr, Inhabited

namespace RefHeap

def empty : RefHeap := ⟨[], []⟩

/-- the table a handle reads (`none`: unbound handle) -/
def get (s : RefHeap) (h : Nat) : Option Table :=
  match s.ptr[h]? with
  | some c => s.cells[c]?
  | Option.none => Option.none

/-- what every handle reads -/
def view (s : RefHeap) : List (Option Table) := s.ptr.map fun c => s.cells[c]?

/-- every handle points to an existing cell -/
def WF (s : RefHeap) : Prop := ∀ c ∈ s.ptr, c < s.cells.length

instance (s : RefHeap) : Decidable s.WF := by unfold WF; infer_instance

/-- the cell a source handle is translated to; an unbound handle becomes an index outside the store
(so that `step` answers `badHandle`) -/
def cellOf (s : RefHeap) (h : Nat) : Nat := (s.ptr[h]?).getD s.cells.length

/-- bind a handle to a cell: rebind an existing handle or allocate the next one (as `Heap.put`) -/
def bindPtr (ptr : List Nat) (dst c : Nat) : List Nat :=
  if dst < ptr.length then ptr.set dst c else ptr ++ [c]

end RefHeap

/-- the destination handle of a table-producing operation -/
def Op.dst? : Op → Option Nat
  | .new d .. | .slice d .. | .mask d .. | .take d .. | .proj d .. | .call d .. | .relabel d ..
  | .doo d .. | .concat d .. | .addrec d .. | .copy d .. => some d
  | .setitem .. | .delitem .. | .update .. | .len .. | .shape .. | .row .. | .col .. | .iter ..
  | .tup .. | .apply .. | .addnone .. => Option.none

/-- the handle whose table an in-place operation assigns to -/
def Op.inplace? : Op → Option Nat
  | .setitem h .. | .delitem h .. | .update h .. => some h
  | _ => Option.none

/-- the operand an operation hands back ITSELF (`Out.alias`): `d + None`, `concat([d])` -/
def Op.aliasOf : Op → Option Nat
  | .addnone h => some h
  | .concat _ [h] => some h
  | _ => Option.none

/-- translate the handles of an operation: source handles through `f`, the destination to `d` -/
def Op.mapHandles (f : Nat → Nat) (d : Nat) : Op → Op
  | .new _ data columns kwargs => .new d data columns kwargs
  | .setitem h k v => .setitem (f h) k v
  | .delitem h k => .delitem (f h) k
  | .update h kvs => .update (f h) kvs
  | .len h => .len (f h)
  | .shape h => .shape (f h)
  | .row h i => .row (f h) i
  | .col h k => .col (f h) k
  | .iter h => .iter (f h)
  | .tup h ks => .tup (f h) ks
  | .apply h g => .apply (f h) g
  | .slice _ h a b s => .slice d (f h) a b s
  | .mask _ h m => .mask d (f h) m
  | .take _ h is => .take d (f h) is
  | .proj _ h ks => .proj d (f h) ks
  | .call _ h consts fns => .call d (f h) consts fns
  | .relabel _ h r => .relabel d (f h) r
  | .doo _ h g keys => .doo d (f h) g keys
  | .concat _ hs => .concat d (hs.map f)
  | .addrec _ h r => .addrec d (f h) r
  | .addnone h => .addnone (f h)
  | .copy _ h => .copy d (f h)

/-- operations of the reference machine -/
inductive ROp where
  | op (o : Op)                  -- an operation of `step`; its result table (if any) goes to a fresh cell
  | bindAlias (dst h : Nat)      -- `dst = h + None` / `dictable.concat([h])` / `dst = h`: the SAME object
  deriving Repr, Inhabited

/-- the pointer table after a `step` on the cells with outcome `out`: a table-producing operation that
succeeded binds its destination to the fresh cell `cells.length`; nothing else touches a pointer -/
def RefHeap.ptrAfter (s : RefHeap) (dst? : Option Nat) (out : Out) : List Nat :=
  match dst?, out with
  | some d, .unit => RefHeap.bindPtr s.ptr d s.cells.length
  | _, _ => s.ptr

/-- `Out.alias` names a cell after the `step` on the cells: report the operand's handle instead -/
def Out.aliasTo (out : Out) (operand : Option Nat) : Out :=
  match out, operand with
  | .alias _, some h => .alias h
  | out, _ => out

/-- one operation on the reference heap, through `step` on the cells -/
def rstep (s : RefHeap) : ROp → RefHeap × Out
  | .op o =>
    let r := step s.cells (o.mapHandles s.cellOf s.cells.length)
    (⟨s.ptrAfter o.dst? r.2, r.1⟩, r.2.aliasTo o.aliasOf)
  | .bindAlias dst h =>
    match s.ptr[h]? with
    | some c => (⟨RefHeap.bindPtr s.ptr dst c, s.cells⟩, .alias h)
    | Option.none => (s, .badHandle)

def rrun (s : RefHeap) : List ROp → RefHeap
  | [] => s
  | op :: ops => rrun (rstep s op).1 ops

/-- the handle an operation (re)binds -/
def ROp.rebinds : ROp → Option Nat
  | .op o => o.dst?
  | .bindAlias dst _ => some dst

/-- the EXISTING cell an operation writes: the cell of the assigned handle of `setitem / delitem / update`;
no other operation writes an existing cell -/
def ROp.writesCell (s : RefHeap) : ROp → Option Nat
  | .op o => match o.inplace? with
    | some h => s.ptr[h]?
    | Option.none => Option.none
  | .bindAlias .. => Option.none

end Pyg
