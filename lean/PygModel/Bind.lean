/-
  PygModel.Bind — argument binding (C18).

  * `bindRef`            Python's own rules for binding `f(*args, **kw)` to the parameters of `f`
                         (what `inspect.getcallargs` computes).  This is the ASSUMPTION of the model: the
                         call protocol of CPython is not verified, it is sampled by the correspondence check.
  * `getcallargs`        the library's re-implementation (src/pyg_base/_inspect.py:118-167), step by step,
                         on insertion-ordered dicts with python's `update` semantics.
  * `recall`             `call_with_callargs` (_inspect.py:169-192): the call it makes from a callargs dict.
  * `kwFilter`           the keyword filter of `kwargs_support.wrapped` (_decorators.py:380-387).
  * `firstArg`           `getcallarg` (_inspect.py:107-115), the fallback of `try_back`.

  Signatures: positional-or-keyword parameters, trailing defaults, optional `*args`, optional `**kwargs`
  (no keyword-only parameters: the property quantifies over "0..4 positional parameters, any number of
  trailing defaults, with/without *args and **kwargs").
-/
import PygModel.Basic

namespace Pyg

abbrev PDict := List (String × Val)

structure Sig where
  params : List String          -- `spec.args`
  defaults : List Val           -- `spec.defaults`: defaults of the LAST `defaults.length` parameters
  varargs : Option String       -- `spec.varargs`
  varkw : Option String         -- `spec.varkw`
  deriving Repr, Inhabited

structure Call where
  args : List Val
  kw : PDict
  deriving Repr, Inhabited

/-- number of parameters without default -/
def Sig.nreq (s : Sig) : Nat := s.params.length - s.defaults.length

/-- a python signature: distinct names, at most as many defaults as parameters -/
def Sig.WF (s : Sig) : Prop :=
  s.params.Nodup ∧ s.defaults.length ≤ s.params.length ∧
  (∀ n, s.varargs = some n → n ∉ s.params) ∧ (∀ n, s.varkw = some n → n ∉ s.params) ∧
  (∀ n m, s.varargs = some n → s.varkw = some m → n ≠ m)

/-! ### python dicts: insertion ordered, `d[k] = v` keeps the position of an existing key -/

def PDict.has (d : PDict) (k : String) : Bool := d.any fun p => p.1 == k

def PDict.set : PDict → String → Val → PDict
  | [], k, v => [(k, v)]
  | (k', v') :: d, k, v => if k' = k then (k', v) :: d else (k', v') :: PDict.set d k v

/-- `d.update(u)` -/
def PDict.update (d u : PDict) : PDict := u.foldl (fun d p => d.set p.1 p.2) d

/-- `d.pop(k)`'s remaining dict -/
def PDict.erase (d : PDict) (k : String) : PDict := d.filter fun p => p.1 != k

/-- python `==` of two dicts: the same value under every key -/
def PDict.Eqv (a b : PDict) : Prop := ∀ k, a.lookup k = b.lookup k

/-! ### the reference: python's binding rules -/

/-- the default value of the `i`-th parameter -/
def Sig.defaultOf (s : Sig) (i : Nat) : Option Val :=
  if i < s.nreq then Option.none else s.defaults[i - s.nreq]?

/-- the value python binds to parameter `name`: positional, else keyword, else default -/
def pyValue (s : Sig) (c : Call) (name : String) : Option Val :=
  let i := s.params.idxOf name
  if i < c.args.length then c.args[i]?
  else match c.kw.lookup name with
    | some v => some v
    | Option.none => s.defaultOf i

/-- the keywords that are not parameter names (they go to `**kwargs`) -/
def extraKw (s : Sig) (kw : PDict) : PDict := kw.filter fun p => !s.params.contains p.1

/-- `*args` and `**kwargs` entries of a binding -/
def starEntries (s : Sig) (c : Call) : PDict :=
  (match s.varargs with
   | some n => [(n, Val.tuple (c.args.drop s.params.length))]
   | Option.none => []) ++
  (match s.varkw with
   | some n => [(n, Val.dict (extraKw s c.kw))]
   | Option.none => [])

/-- Python's binding of `f(*args, **kw)`; every failure is a `TypeError`:
too many positional arguments, a keyword for a parameter already bound positionally, an unexpected
keyword, a missing argument. -/
def bindRef (s : Sig) (c : Call) : Res PDict :=
  if c.args.length > s.params.length ∧ s.varargs = Option.none then .error .type
  else if c.kw.any (fun p => (s.params.take c.args.length).contains p.1) then .error .type
  else if s.varkw = Option.none ∧ (extraKw s c.kw) ≠ [] then .error .type
  else if s.params.all (fun n => (pyValue s c n).isSome) then
    .ok (s.params.map (fun n => (n, (pyValue s c n).getD (.cell .none))) ++ starEntries s c)
  else .error .type

/-! ### the library's `getcallargs` -/

/-- `argspec_defaults` (_inspect.py:195-222): `dict(zip(args[-len(defaults):], defaults))` -/
def argspecDefaults (s : Sig) : PDict := (s.params.drop s.nreq).zip s.defaults

/-- `getcallargs(function, *args, **kwargs)` (_inspect.py:118-167) -/
def getcallargs (s : Sig) (c : Call) : Res PDict :=
  let argNames := s.params
  let res := argspecDefaults s
  let args2kwargs := argNames.zip c.args
  -- duplicates = set(args2kwargs) & set(kwargs)
  if args2kwargs.any (fun p => c.kw.has p.1) then .error .value
  else
    let res := res.update args2kwargs
    let varargs := c.args.drop argNames.length
    let res? : Res PDict := match s.varargs with
      | Option.none => if varargs.length > 0 then .error .value else .ok res
      | some n => .ok (res.set n (.tuple varargs))
    match res? with
    | .error e => .error e
    | .ok res =>
      match s.varkw with
      | some n =>
          let varkw := c.kw.filter fun p => !argNames.contains p.1
          let res := res.set n (.dict varkw)
          .ok (res.update (c.kw.filter fun p => argNames.contains p.1))
      | Option.none => .ok (res.update c.kw)

/-! ### `call_with_callargs` -/

def tupleItems : Val → List Val
  | .tuple xs => xs
  | .list xs => xs
  | _ => []

def dictItems : Val → PDict
  | .dict kvs => kvs
  | _ => []

/-- the call `function(*args, **varkw)` that `call_with_callargs(function, callargs)` makes
(_inspect.py:181-192); a missing `*args` / `**kwargs` entry is python's `KeyError` from `c.pop` -/
def recall (s : Sig) (callargs : PDict) : Res Call :=
  let c := callargs
  let va : Res (List Val × PDict) := match s.varargs with
    | some n => match c.lookup n with
      | some v => .ok (tupleItems v, c.erase n)
      | Option.none => .error .key
    | Option.none => .ok ([], c)
  match va with
  | .error e => .error e
  | .ok (varargs, c) =>
    let vk : Res (PDict × PDict) := match s.varkw with
      | some n => match c.lookup n with
        | some v => .ok (dictItems v, c.erase n)
        | Option.none => .error .key
      | Option.none => .ok ([], c)
    match vk with
    | .error e => .error e
    | .ok (varkw, c) =>
      -- params = dict(zip(arg_names[-len(defs):], defs)); params.update(c)
      let params := (argspecDefaults s).update c
      let args := s.params.filterMap fun a => params.lookup a
      .ok { args := args ++ varargs, kw := varkw }

/-! ### pieces of the decorators -/

/-- `kwargs_support.wrapped`: keep the keywords that name a parameter (`getargs(function)`) -/
def kwFilter (s : Sig) (c : Call) : Call :=
  { c with kw := c.kw.filter fun p => s.params.contains p.1 }

/-- `getcallarg(function, args, kwargs)` (repaired: a first parameter that is not passed takes its default;
`None` if the function has no parameter or no default) -/
def firstArg (s : Sig) (c : Call) : Val :=
  match c.args with
  | a :: _ => a
  | [] =>
    match s.params with
    | [] => .cell .none
    | p :: _ =>
      match c.kw.lookup p with
      | some v => v
      | Option.none => (s.defaultOf 0).getD (.cell .none)

/-- the function body used by the driver: returns its binding as a dict; raises when one of the bound values
is a string starting with `!` (`!v…` ValueError, `!k…` KeyError, other `!…` TypeError) -/
def raisesOf : Val → Option Err
  | .cell (.str s) =>
      if s.startsWith "!v" then some .value
      else if s.startsWith "!k" then some .key
      else if s.startsWith "!" then some .type
      else Option.none
  | _ => Option.none

def recBody (b : PDict) : Res Val :=
  match b.findSome? (fun p => raisesOf p.2) with
  | some e => .error e
  | Option.none => .ok (.dict b)

/-- calling a python function with signature `s` and body `body` -/
def applyFn (s : Sig) (body : PDict → Res Val) (c : Call) : Res Val :=
  match bindRef s c with
  | .error e => .error e
  | .ok b => body b

end Pyg
