/-
  PygModel.Greg — the proleptic Gregorian calendar exactly as CPython's `datetime` computes it
  (Lib/_pydatetime.py: `_ymd2ord`, `_ord2ymd`, `_days_in_month`, `weekday`).  This is a *reference
  function* for a library (`datetime.datetime(y,m,d)`, `.toordinal()`, `.fromordinal()`, `.year/.month/.day`,
  `.weekday()`): that CPython behaves like this is an assumption, sampled by the correspondence checks of
  C04 / C09 on every run.  Everything is over `Nat` so that `decide +kernel` sweeps evaluate with GMP
  arithmetic (PygProofs/Greg/Sweep*.lean).
  Core Lean only.
-/

namespace Pyg.Greg

/-- `_is_leap` -/
def isLeap (y : Nat) : Bool := y % 4 == 0 && (y % 100 != 0 || y % 400 == 0)

def leapDay (y : Nat) : Nat := if isLeap y then 1 else 0

/-- `_days_in_month` (month 1..12; 0 otherwise) -/
def dim (y m : Nat) : Nat :=
  match m with
  | 1 => 31 | 2 => 28 + leapDay y | 3 => 31 | 4 => 30 | 5 => 31 | 6 => 30
  | 7 => 31 | 8 => 31 | 9 => 30 | 10 => 31 | 11 => 30 | 12 => 31
  | _ => 0

/-- `_DAYS_BEFORE_MONTH[m]` of a non-leap year -/
def dbmTable (m : Nat) : Nat :=
  match m with
  | 1 => 0 | 2 => 31 | 3 => 59 | 4 => 90 | 5 => 120 | 6 => 151
  | 7 => 181 | 8 => 212 | 9 => 243 | 10 => 273 | 11 => 304 | 12 => 334
  | _ => 365

/-- `_days_before_month(y, m)` -/
def dbm (y m : Nat) : Nat := dbmTable m + (if m > 2 then leapDay y else 0)

/-- `_days_before_year(y)`: days before January 1st of year `y` (y ≥ 1) -/
def dby (y : Nat) : Nat := let y1 := y - 1; y1 * 365 + y1 / 4 - y1 / 100 + y1 / 400

/-- `_ymd2ord` = `datetime(y,m,d).toordinal()`: 0001-01-01 is day 1 -/
def ord (y m d : Nat) : Nat := dby y + dbm y m + d

/-- a calendar date `datetime(y,m,d)` accepts -/
def Valid (y m d : Nat) : Prop := 1 ≤ y ∧ y ≤ 9999 ∧ 1 ≤ m ∧ m ≤ 12 ∧ 1 ≤ d ∧ d ≤ dim y m

def validB (y m d : Nat) : Bool :=
  decide (1 ≤ y) && decide (y ≤ 9999) && decide (1 ≤ m) && decide (m ≤ 12) && decide (1 ≤ d) && decide (d ≤ dim y m)

instance (y m d : Nat) : Decidable (Valid y m d) := by unfold Valid; infer_instance

structure YMD where
  y : Nat
  m : Nat
  d : Nat
  deriving Repr, DecidableEq, Inhabited

/-- `_ord2ymd` = `datetime.fromordinal(n)` (n ≥ 1), statement by statement:
400-, 100-, 4- and 1-year cycles, then the month estimate `(n + 50) >> 5` corrected once. -/
def fromOrd (n : Nat) : YMD :=
  let n := n - 1
  let n400 := n / 146097; let n := n % 146097
  let year := n400 * 400 + 1
  let n100 := n / 36524; let n := n % 36524
  let n4 := n / 1461; let n := n % 1461
  let n1 := n / 365; let n := n % 365
  let year := year + n100 * 100 + n4 * 4 + n1
  if n1 == 4 || n100 == 4 then ⟨year - 1, 12, 31⟩
  else
    let leapyear := n1 == 3 && (n4 != 24 || n100 == 3)
    let month := (n + 50) / 32
    let preceding := dbmTable month + (if month > 2 && leapyear then 1 else 0)
    if preceding > n then
      let month := month - 1
      let preceding := preceding - (dbmTable (month + 1) - dbmTable month + (if month == 2 && leapyear then 1 else 0))
      ⟨year, month, n - preceding + 1⟩
    else ⟨year, month, n - preceding + 1⟩

/-- `date.weekday()`: Monday = 0 … Sunday = 6; `(toordinal() + 6) % 7` -/
def weekday (n : Nat) : Nat := (n + 6) % 7

/-- ordinal of 1900-01-01 (`TMIN`) and of 2300-01-01 (`TMAX`): the library's supported range, one whole
400-year Gregorian cycle of 146097 days -/
def ordMin : Nat := 693596
def ordMax : Nat := 839693

/-! ### the checker evaluated by the sweeps (PygProofs/Greg/Sweep*.lean) -/

/-- one ordinal: `fromOrd n` is a valid date whose ordinal is `n` (written with `Nat.ble`/`Nat.beq`, which the
kernel evaluates natively) -/
def chkOrd (n : Nat) : Bool :=
  match fromOrd n with
  | ⟨y, m, d⟩ => Nat.ble 1 y && Nat.ble y 9999 && Nat.ble 1 m && Nat.ble m 12 && Nat.ble 1 d
      && Nat.ble d (dim y m) && Nat.beq (ord y m d) n

/-- `∀ i < k, p (lo + i)` as a structurally recursive boolean -/
def allFrom (p : Nat → Bool) (lo : Nat) : Nat → Bool
  | 0 => true
  | k + 1 => p lo && allFrom p (lo + 1) k

end Pyg.Greg
