/-
  PygModel.Slice — df_slice / df_unslice of src/pyg_base/_pandas.py (property C13).

  A series is a `TS` (strictly increasing integer times in µs, `none` = NaN); a frame is a list of rows
  `(time, column values)` with a known width.  Bounds are a date (`Bound.date`, µs), a time of day
  (`Bound.time`, µs since midnight) or absent.  pandas calls are replaced by reference functions
  (assumptions sampled by correspondence): boolean masks ↦ `List.filter`, the label slice `df[lb:ub]` ↦ `labelSlice` (drop / take while),
  `pd.concat(axis=1)` (+ the `sort_index` of the repaired code) ↦ outer join on the sorted union index,
  `pd.concat` ↦ `++` with NaN padding, `sort_index` ↦ a stable sort by time, `nona` ↦ dropping NaN rows.
-/
import PygModel.TSBasic

namespace Pyg.Slice
open Pyg

def DAY : Int := 86400000000

/-- `index.time`: µs since midnight -/
def tod (t : Int) : Int := t % DAY

inductive Bound where
  | none
  | date (t : Int)
  | time (s : Int)
  deriving Repr, DecidableEq, Inhabited

def Bound.isNone : Bound → Bool
  | .none => true
  | _ => false

/-- `_closed` (lines 1538-1544) -/
def closed (c : Char) : Res Bool :=
  if c ∈ ['(', ')', 'o', 'O'] then .ok false
  else if c ∈ ['[', ']', 'c', 'C'] then .ok true
  else .error .value

/-- `l,u = openclose if openclose else '[)'` then `_closed` of each (lines 1557-1558);
    anything but two characters fails to unpack (`ValueError`) -/
def brackets (oc : Option (List Char)) : Res (Bool × Bool) :=
  let s := match oc with
    | some s => if s.isEmpty then ['[', ')'] else s
    | Option.none => ['[', ')']
  match s with
  | [a, b] => do
      let l ← closed a
      let u ← closed b
      pure (l, u)
  | _ => .error .value

/-- the lower-bound mask (lines 1571-1575): `index >= lb` if closed else `index > lb`; a time of day is
    compared with `index.time` -/
def lbOk (l : Bool) (lb : Bound) (t : Int) : Bool :=
  match lb with
  | .none => true
  | .date x => if l then decide (x ≤ t) else decide (x < t)
  | .time x => if l then decide (x ≤ tod t) else decide (x < tod t)

/-- the upper-bound mask (lines 1576-1580) -/
def ubOk (u : Bool) (ub : Bound) (t : Int) : Bool :=
  match ub with
  | .none => true
  | .date x => if u then decide (t ≤ x) else decide (t < x)
  | .time x => if u then decide (tod t ≤ x) else decide (tod t < x)

abbrev Rows (α : Type) := List (Int × α)

/-- `_is_non_decreasing` on a list of dates; also `index.is_monotonic_increasing` -/
def nonDecreasing : List Int → Bool
  | a :: b :: rest => decide (a ≤ b) && nonDecreasing (b :: rest)
  | _ => true

/-- `df.index.is_monotonic_increasing` -/
def increasing {α} (df : Rows α) : Bool := nonDecreasing (df.map (·.1))

/-- a bound as a label of `df[lb:ub]`: a missing bound is `None`, a date its timestamp; a time of day is no label -/
def Bound.label : Bound → Option (Option Int)
  | .none => some Option.none
  | .date t => some (some t)
  | .time _ => Option.none

/-- the pandas label slice `df[lb:ub]` on a non-decreasing DatetimeIndex (`searchsorted` left / right): from the
    first row at or after `lb` to the last row at or before `ub`, both ends included; `None` = open end.
    Defined for every row list (positions are found by scanning), meaningful on a sorted one. -/
def labelSlice {α} (df : Rows α) (lb ub : Option Int) : Rows α :=
  let df := match lb with
    | some a => df.dropWhile fun r => decide (r.1 < a)
    | Option.none => df
  match ub with
  | some b => df.takeWhile fun r => decide (r.1 ≤ b)
  | Option.none => df

/-- `_df_slice` (lines 1547-1582) on a datetime-indexed series / frame.
    With both applicable brackets closed the code first tries the pandas label slice `df[lb:ub]` (1562-1566):
    * date / missing bounds on a non-decreasing index: `labelSlice` (repaired code, F13: the label slice is taken
      only when `index.is_monotonic_increasing`; on any other order pandas cuts by POSITION of the labels);
    * two times of day: `indexer_between_time`, a mask with both ends included = the two masks below;
    * one time of day and a date / nothing: pandas raises `KeyError`, the code falls through to the masks.
    Otherwise the two boolean masks (1572-1581). -/
def sliceOne {α} (df : Rows α) (lb ub : Bound) (oc : Option (List Char)) : Res (Rows α) :=
  if df.isEmpty || (lb.isNone && ub.isNone) then .ok df          -- 1556: nothing is parsed, nothing is cut
  else do
    let (l, u) ← brackets oc
    let masks := (df.filter fun r => lbOk l lb r.1).filter fun r => ubOk u ub r.1
    if (l || lb.isNone) && (u || ub.isNone) && increasing df then
      match lb.label, ub.label with
      | some a, some b => pure (labelSlice df a b)
      | _, _ => pure masks
    else pure masks

/-- `sort_index()` -/
def sortIndex {α} (df : Rows α) : Rows α := df.mergeSort (fun a b => decide (a.1 ≤ b.1))

/-- `df_slice` on ONE series / frame (lines 1659-1664 and 1692-1697): a time-of-day window whose start is
    later than its end wraps past midnight (repaired code: `openclose` is passed on to both halves) -/
def sliceWrap {α} (df : Rows α) (lb ub : Bound) (oc : Option (List Char)) : Res (Rows α) :=
  match lb, ub with
  | .time a, .time b =>
    if b < a then do
      let pre ← sliceOne df .none ub oc
      let post ← sliceOne df lb .none oc
      pure (sortIndex (pre ++ post))
    else sliceOne df lb ub oc
  | _, _ => sliceOne df lb ub oc

/-! ### stitching a list of series -/

structure Frame where
  width : Nat
  rows : Rows (List (Option Int))
  deriving Repr, Inhabited, DecidableEq

/-- sorted union of the indexes: the index of `pd.concat(dfs, axis=1).sort_index()` -/
def unionIndex (dfs : List TS) : List Int :=
  ((dfs.flatMap TS.index).eraseDups).mergeSort (fun a b => decide (a ≤ b))

/-- `pd.concat(dfs, axis=1)` with columns `0..k-1` (lines 1689-1691): outer join, NaN where a series has no row -/
def concatCols (dfs : List TS) : Rows (List (Option Int)) :=
  (unionIndex dfs).map fun t => (t, dfs.map (·.get t))

/-- a series as a one-column frame -/
def ofTS (ts : TS) : Rows (List (Option Int)) := ts.map fun p => (p.1, [p.2])

/-- `lens` (src/pyg_base/_zip.py:6-37) for three lists -/
def lens3 (a b c : Nat) : Res Nat :=
  let ls := ([a, b, c].filter (· != 1)).eraseDups
  match ls with
  | [] => .ok 1
  | [n] => .ok n
  | _ => .error .value

def bcast {α} (n : Nat) (xs : List α) : List α :=
  if xs.length == 1 && n > 1 then (List.replicate n xs).flatten else xs

/-- `zipper(dfs, lb, ub)` -/
def zipper3 {α β γ} (xs : List α) (ys : List β) (zs : List γ) : Res (List (α × β × γ)) := do
  let n ← lens3 xs.length ys.length zs.length
  pure ((bcast n xs).zip ((bcast n ys).zip (bcast n zs)))

def padRow (w : Nat) (r : List (Option Int)) : List (Option Int) := r ++ List.replicate (w - r.length) Option.none

def optDate : Option Int → Bound
  | some t => .date t
  | Option.none => .none

/-- lines 1665-1684: the three spellings of the bound lists, brought to increasing order -/
def normalise {α} (dfs : List α) (lb ub : Option (List Int)) : Res (List α × List (Option Int) × List (Option Int)) :=
  match lb, ub with
  | some lb, Option.none =>                                    -- 1666-1670
      let (lb, dfs) := if nonDecreasing lb then (lb, dfs) else (lb.reverse, dfs.reverse)
      pure (dfs, lb.map some, (lb.drop 1).map some ++ [Option.none])
  | Option.none, some ub =>                                    -- 1671-1675
      let (ub, dfs) := if nonDecreasing ub then (ub, dfs) else (ub.reverse, dfs.reverse)
      pure (dfs, Option.none :: ub.dropLast.map some, ub.map some)
  | some lb, some ub =>                                        -- 1676-1684
      if nonDecreasing ub != nonDecreasing lb then .error .value
      else if !nonDecreasing lb then pure (dfs.reverse, lb.reverse.map some, ub.reverse.map some)
      else pure (dfs, lb.map some, ub.map some)
  | Option.none, Option.none => .error .type                   -- 1685: `lb + ub` on None

/-- lines 1687-1691: with `n > 1` series `i` becomes the frame of series `i .. i+n-1` side by side -/
def framesOf (dfs : List TS) (n : Nat) : List Frame :=
  if n > 1 then (List.range dfs.length).map fun i => ⟨((dfs.drop i).take n).length, concatCols ((dfs.drop i).take n)⟩
  else dfs.map fun ts => ⟨1, ofTS ts⟩

/-- line 1694: every frame cut to its own interval -/
def cutAll (dlu : List (Frame × Option Int × Option Int)) (oc : Option (List Char)) : Res (List Frame) :=
  dlu.mapM fun (d, l, u) => do
    let rows ← sliceOne d.rows (optDate l) (optDate u) oc
    pure (⟨d.width, rows⟩ : Frame)

/-- lines 1695-1701: nothing, the only piece, or `pd.concat` of the pieces (missing columns are NaN) -/
def assemble (res : List Frame) : Option Frame :=
  match res with
  | [] => Option.none
  | [x] => some x
  | _ =>
    let w := res.foldl (fun m f => max m f.width) 0
    some ⟨w, res.flatMap fun f => f.rows.map fun r => (r.1, padRow w r.2)⟩

/-- `df_slice(dfs, lb, ub, openclose, n)` for a LIST of series and bound lists (lines 1665-1701).
    `none` is Python's `None` (no series at all). -/
def stitch (dfs : List TS) (lb ub : Option (List Int)) (oc : Option (List Char)) (n : Nat) : Res (Option Frame) := do
  let (dfs, lbs, ubs) ← normalise dfs lb ub
  let dlu ← zipper3 (framesOf dfs n) lbs ubs                     -- 1693
  let res ← cutAll dlu oc                                        -- 1694
  pure (assemble res)

/-! ### lists holding DataFrames / scalars, bound lists of times of day (lines 1686-1701) -/

/-- what a bound list holds: dates, or times of day (`datetime.time`, µs since midnight) -/
inductive BKind where
  | date
  | time
  deriving Repr, DecidableEq, Inhabited

def optTime : Option Int → Bound
  | some s => .time s
  | Option.none => .none

def BKind.bound : BKind → Option Int → Bound
  | .date, x => optDate x
  | .time, x => optTime x

/-- a member of the list handed to `df_slice`: a Series, a DataFrame, or anything else (a scalar; `none` = NaN / `None`) -/
inductive Member where
  | series (s : TS)
  | frame (f : Frame)
  | scalar (v : Option Int)
  deriving Repr, Inhabited

/-- line 1686: `boundaries = sorted(set(date for date in lb + ub if date is not None))` -/
def boundariesOf (lbs ubs : List (Option Int)) : List Int :=
  (((lbs ++ ubs).filterMap id).eraseDups).mergeSort (fun a b => decide (a ≤ b))

/-- line 1687: `d if is_pd(d) else pd.Series(d, boundaries)` - a scalar becomes the constant series on the boundaries.
    With times of day the boundaries are `datetime.time` objects, the constant series is no timeseries and the code
    raises (`AttributeError` from `index.time`, `TypeError` from `concat(axis=1).sort_index()` beside a real series). -/
def Member.toFrame (k : BKind) (boundaries : List Int) : Member → Res Frame
  | .series s => .ok ⟨1, ofTS s⟩
  | .frame f => .ok f
  | .scalar v => match k with
    | .date => .ok ⟨1, boundaries.map fun t => (t, [v])⟩
    | .time => .error .other

/-- the row of a frame at `t`; NaN in every column when it has none -/
def rowAt (f : Frame) (t : Int) : List (Option Int) :=
  match f.rows.find? (·.1 == t) with
  | some r => r.2
  | Option.none => List.replicate f.width Option.none

def Frame.index (f : Frame) : List Int := f.rows.map (·.1)

/-- `pd.concat(fs, axis=1).sort_index()` with columns renumbered (lines 1689-1691) for frames: outer join on the sorted
    union index, the columns of the members side by side -/
def concatFrames (fs : List Frame) : Rows (List (Option Int)) :=
  (((fs.flatMap Frame.index).eraseDups).mergeSort (fun a b => decide (a ≤ b))).map fun t => (t, fs.flatMap (rowAt · t))

/-- lines 1688-1691 for frames -/
def framesOfF (fs : List Frame) (n : Nat) : List Frame :=
  if n > 1 then (List.range fs.length).map fun i =>
    ⟨(((fs.drop i).take n).map (·.width)).sum, concatFrames ((fs.drop i).take n)⟩
  else fs

/-- line 1694 with bounds of either kind.  Repaired code (C13-W2): a window of two times of day whose start is later
    than its end wraps past midnight here too (`sliceWrap`), under every bracket pair. -/
def cutAllB (k : BKind) (dlu : List (Frame × Option Int × Option Int)) (oc : Option (List Char)) : Res (List Frame) :=
  dlu.mapM fun (d, l, u) => do
    let rows ← sliceWrap d.rows (k.bound l) (k.bound u) oc
    pure (⟨d.width, rows⟩ : Frame)

/-- `df_slice(list, lb, ub, openclose, n)` for a list of Series / DataFrames / scalars and bound lists of kind `k` -/
def stitchM (ms : List Member) (k : BKind) (lb ub : Option (List Int)) (oc : Option (List Char)) (n : Nat) :
    Res (Option Frame) := do
  let (ms, lbs, ubs) ← normalise ms lb ub
  let fs ← ms.mapM (Member.toFrame k (boundariesOf lbs ubs))      -- 1686-1687
  let dlu ← zipper3 (framesOfF fs n) lbs ubs                      -- 1693
  let res ← cutAllB k dlu oc                                      -- 1694
  pure (assemble res)

/-- the two bound lists may be of different kinds on the wire: after the direction checks `sorted(set(lb + ub))`
    compares a datetime with a time: `TypeError` -/
def stitchB (ms : List Member) (lb ub : Option (BKind × List Int)) (oc : Option (List Char)) (n : Nat) : Res (Option Frame) := do
  let _ ← normalise ms (lb.map (·.2)) (ub.map (·.2))
  match lb, ub with
  | some (k1, l1), some (k2, l2) =>
      if k1 != k2 && !l1.isEmpty && !l2.isEmpty then .error .type
      else stitchM ms (if l1.isEmpty then k2 else k1) (some l1) (some l2) oc n
  | some (k, l1), Option.none => stitchM ms k (some l1) Option.none oc n
  | Option.none, some (k, l2) => stitchM ms k Option.none (some l2) oc n
  | Option.none, Option.none => .error .type

/-! ### ONE series with bound lists (`df` is not a list: lines 1692-1701 only) -/

/-- what `df_slice` hands back -/
inductive Sliced (α : Type) where
  | nothing                       -- `None`
  | one (r : Rows α)              -- a Series / DataFrame
  | many (rs : List (Rows α))     -- a python list of slices
  deriving Repr, Inhabited

/-- a bound argument: a single bound (`None`, a date, a time of day) or a python list of them -/
inductive BArg where
  | one (b : Bound)
  | list (bs : List Bound)
  deriving Repr, Inhabited

def BArg.toList : BArg → List Bound
  | .one b => [b]
  | .list bs => bs

def BArg.isList : BArg → Bool
  | .one _ => false
  | .list _ => true

/-- `df_slice(ts, lb, ub, openclose)` for ONE series and bounds of which at least one is a list: nothing is normalised
    (`df` is no list), `zipper` repeats the single values, every pair of bounds cuts the same series; the slices come
    back as a python list - concatenated only when BOTH bounds are lists (line 1699) -/
def slicesOfSeries {α} (df : Rows α) (lb ub : BArg) (oc : Option (List Char)) : Res (Sliced α) := do
  let dlu ← zipper3 [df] lb.toList ub.toList
  let res ← dlu.mapM fun (d, l, u) => sliceWrap d l u oc
  match res with
  | [] => pure .nothing
  | [x] => pure (.one x)
  | _ => if lb.isList && ub.isList then pure (.one res.flatten) else pure (.many res)

/-! ### df_unslice -/

/-- column `j` of a frame's rows -/
def column (j : Nat) (rows : Rows (List (Option Int))) : TS := rows.map fun r => (r.1, (r.2[j]?).join)

/-- `nona` on a series: drop the NaN rows -/
def nona (ts : TS) : TS := ts.filter (·.2.isSome)

/-- the body of `df_unslice` for bounds read in increasing order: slice the frame at the bounds with `'(]'`, hand
    column `j` of slice `i` to bound `i+j`, then per bound (ascending) concatenate what it was handed and drop NaN rows -/
def unsliceInc (F : Frame) (ub : List Int) : Res (List (Int × TS)) := do
  let n := F.width
  let lbs := Bound.none :: ub.dropLast.map Bound.date
  let slices ← (lbs.zip ub).mapM fun (l, u) => sliceWrap F.rows l (.date u) (some ['(', ']'])
  let rs : List (Int × TS) := slices.zipIdx.flatMap fun (ts, i) =>
    (((ub.drop i).take n).zipIdx).map fun (u, j) => (u, column j ts)
  let keys := ((rs.map (·.1)).eraseDups).mergeSort (fun a b => decide (a ≤ b))
  pure (keys.map fun u => (u, nona ((rs.filter (·.1 == u)).flatMap (·.2))))

/-- `df_unslice(df, ub)`: a decreasing bound list is read backwards (as `df_slice` does, `_is_non_decreasing`) and the
    series are handed back in the order of the bounds GIVEN, so that `df_slice(list(res.values()), ub = ub, n)` pairs
    every series with its bound again (repo fix C13-U1; before it the decreasing list was used as it stood: every
    window but the first empty) -/
def unslice (F : Frame) (ub : List Int) : Res (List (Int × TS)) :=
  if nonDecreasing ub then unsliceInc F ub else (unsliceInc F ub.reverse).map List.reverse

/-! ### bound lists with an unbounded end: `None` as the last upper (first lower) bound ("a missing bound being unbounded") -/

/-- `_is_non_decreasing` (lines 30-60) on a list that may hold `None`: a `None` at the end and one at the start are set aside,
    a `None` left among two or more values makes `sorted` raise `TypeError`.  (A list that is neither non-decreasing nor
    non-increasing raises `ValueError` in the code; as for `nonDecreasing` the model reads it as decreasing - outside the quantifier.) -/
def directionO (vs : List (Option Int)) : Res Bool :=
  if vs.length < 2 then .ok true
  else
    let v := if vs.getLast? == some Option.none then vs.dropLast else vs
    let v := if v.head? == some Option.none then v.drop 1 else v
    if decide (2 ≤ v.length) && v.any Option.isNone then .error .type
    else .ok (nonDecreasing (v.filterMap id))

/-- lines 1675-1694 for bound lists that may hold `None` (same three spellings as `normalise`) -/
def normaliseO {α} (dfs : List α) (lb ub : Option (List (Option Int))) :
    Res (List α × List (Option Int) × List (Option Int)) :=
  match lb, ub with
  | some lb, Option.none => do
      let inc ← directionO lb
      let (lb, dfs) := if inc then (lb, dfs) else (lb.reverse, dfs.reverse)
      pure (dfs, lb, lb.drop 1 ++ [Option.none])
  | Option.none, some ub => do
      let inc ← directionO ub
      let (ub, dfs) := if inc then (ub, dfs) else (ub.reverse, dfs.reverse)
      pure (dfs, Option.none :: ub.dropLast, ub)
  | some lb, some ub => do
      let ui ← directionO ub
      let li ← directionO lb
      if ui != li then .error .value
      else if !li then pure (dfs.reverse, lb.reverse, ub.reverse)
      else pure (dfs, lb, ub)
  | Option.none, Option.none => .error .type

/-- `df_slice(dfs, lb, ub, openclose, n)` for a list of series and bound lists that may hold `None`; on lists of dates
    it is `stitch` (`Props.C13.stitchO_dates`) -/
def stitchO (dfs : List TS) (lb ub : Option (List (Option Int))) (oc : Option (List Char)) (n : Nat) : Res (Option Frame) := do
  let (dfs, lbs, ubs) ← normaliseO dfs lb ub
  let dlu ← zipper3 (framesOf dfs n) lbs ubs
  let res ← cutAll dlu oc
  pure (assemble res)

/-- what the body of `df_unslice` hands to the bounds (read in increasing order): column `j` of slice `i` to bound `i+j` -/
def handedO (F : Frame) (ub : List (Option Int)) : Res (List (Option Int × TS)) := do
  let lbs := Option.none :: ub.dropLast
  let slices ← (lbs.zip ub).mapM fun (l, u) => sliceWrap F.rows (optDate l) (optDate u) (some ['(', ']'])
  pure (slices.zipIdx.flatMap fun (ts, i) => (((ub.drop i).take F.width).zipIdx).map fun (u, j) => (u, column j ts))

/-- `df_unslice(df, ub)` for a bound list that may end in `None` (repo fix C13-U2: the pairs are handed out in the order of
    the bounds GIVEN, `dict` keeps the first of equal keys; before it `listby` filed the unbounded series first) -/
def unsliceO (F : Frame) (ub : List (Option Int)) : Res (List (Option Int × TS)) := do
  let inc ← directionO ub
  let rs ← handedO F (if inc then ub else ub.reverse)
  pure (ub.eraseDups.map fun u => (u, nona ((rs.filter (·.1 == u)).flatMap (·.2))))

end Pyg.Slice
