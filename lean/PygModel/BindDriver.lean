/- line-protocol handlers for the Bind / Cache / Wrap models (C18) -/
import PygModel.Bind
import PygModel.Cache
import PygModel.Wrap
import PygModel.WrapHist
import PygModel.WrapLoops
import PygModel.Try

namespace Pyg.BindDriver
open Pyg

abbrev St := Unit
def init : St := ()
def modelName : String := "deco"

def reply : Res Val → String
  | .ok v => "ok " ++ v.render
  | .error e => "err " ++ e.render

def strOf : Val → Option String
  | .cell (.str s) => some s
  | _ => Option.none

def optStrOf : Val → Option (Option String)
  | .cell .none => some Option.none
  | .cell (.str s) => some (some s)
  | _ => Option.none

/-- `(T (L names) (L defaults) varargs|N varkw|N)` -/
def sigOf : Val → Option Sig
  | .tuple [.list ps, .list ds, va, vk] => do
      let ps ← ps.mapM strOf
      let va ← optStrOf va
      let vk ← optStrOf vk
      pure { params := ps, defaults := ds, varargs := va, varkw := vk }
  | _ => Option.none

def callOf (a k : Val) : Option Call :=
  match a, k with
  | .list a, .dict k => some { args := a, kw := k }
  | _, _ => Option.none

def clsOf : String → Option Cls
  | "try_value" => some .tryValue
  | "try_back" => some .tryBack
  | "kwargs_support" => some .kwargsSupport
  | "cache_func" => some .cache
  | "loops" => some .loops
  | "pd2np" => some .pd2np
  | _ => Option.none

def Cls.name : Cls → String
  | .tryValue => "try_value" | .tryBack => "try_back" | .kwargsSupport => "kwargs_support"
  | .cache => "cache_func" | .loops => "loops" | .pd2np => "pd2np"

/-- `(L (T S:class (D params))*)`, in order of application (innermost first) -/
def decosOf : Val → Option (List (Cls × PDict))
  | .list ds => ds.mapM fun
      | .tuple [.cell (.str c), .dict p] => (clsOf c).map fun c => (c, p)
      | _ => Option.none
  | _ => Option.none

def errVal (e : Err) : Val := .tuple [.cell (.str "!raised"), .cell (.str e.render)]

def resVal : Res Val → Val
  | .ok v => v
  | .error e => errVal e

/-- replies of a cache history: `(T reply evaluations-so-far)` per call -/
def cacheReplies (f : Call → Res Val) : CacheSt → List Call → List Val
  | _, [] => []
  | st, c :: cs =>
    let (st1, r) := cacheCallH Call.hasArr f st c
    .tuple [resVal r, .cell (.int st1.evals.length)] :: cacheReplies f st1 cs

/-- replies of a history through a stack: `(T reply executions-of-f-so-far)` per call -/
def stackReplies (s : Sig) (chain : List (Cls × PDict)) : HSt → List Call → List Val
  | _, [] => []
  | st, c :: cs =>
    let (st1, r) := evalH s recBody Call.hasArr chain st c
    .tuple [resVal r, .cell (.int st1.evals.length)] :: stackReplies s chain st1 cs

/-- `(deco <op> <args>)` -/
def handle1 (op : String) (args : List Sexp) : Option String := do
  match op, args with
  | "bindref", [s, a, k] =>
      let s ← sigOf (← Val.ofSexp s); let c ← callOf (← Val.ofSexp a) (← Val.ofSexp k)
      pure (reply ((bindRef s c).map .dict))
  | "getcallargs", [s, a, k] =>
      let s ← sigOf (← Val.ofSexp s); let c ← callOf (← Val.ofSexp a) (← Val.ofSexp k)
      pure (reply ((getcallargs s c).map .dict))
  | "apply", [s, a, k] =>
      let s ← sigOf (← Val.ofSexp s); let c ← callOf (← Val.ofSexp a) (← Val.ofSexp k)
      pure (reply (applyFn s recBody c))
  | "roundtrip", [s, a, k] =>
      -- call_with_callargs(f, getcallargs(f, *a, **k))
      let s ← sigOf (← Val.ofSexp s); let c ← callOf (← Val.ofSexp a) (← Val.ofSexp k)
      pure (reply (match getcallargs s c with
        | .error e => .error e
        | .ok b => match recall s b with
          | .error e => .error e
          | .ok c' => applyFn s recBody c'))
  | "stack", [s, ds, a, k] =>
      let s ← sigOf (← Val.ofSexp s); let ds ← decosOf (← Val.ofSexp ds)
      let c ← callOf (← Val.ofSexp a) (← Val.ofSexp k)
      let fn := mkMany ds { chain := [], base := 0 }
      -- a `loops` layer that receives a list / tuple / dict of a looped type: outside the model (C19's subject) => bad-op
      if inDomain s fn.chain c then pure (reply (evalChain s recBody fn.chain c)) else Option.none
  | "stackx", [s, ds, a, k] =>
      -- round k6: the model whose `loops` layers loop over a list / tuple / dict of one of their types (WrapLoops.lean); answers
      -- every line; inside the domain it is `evalChain` (theorem `evalChainL_in_domain`)
      let s ← sigOf (← Val.ofSexp s); let ds ← decosOf (← Val.ofSexp ds)
      let c ← callOf (← Val.ofSexp a) (← Val.ofSexp k)
      let fn := mkMany ds { chain := [], base := 0 }
      pure (reply (evalChainL s recBody fn.chain c))
  | "stackhist", [s, ds, cs] =>
      let s ← sigOf (← Val.ofSexp s); let ds ← decosOf (← Val.ofSexp ds)
      let fn := mkMany ds { chain := [], base := 0 }
      match ← Val.ofSexp cs with
      | .list cs =>
          let cs ← cs.mapM fun
            | .tuple [a, k] => callOf a k
            | _ => Option.none
          if cs.all (inDomain s fn.chain) then pure (reply (.ok (.list (stackReplies s fn.chain {} cs)))) else Option.none
      | _ => Option.none
  | "stackhist2", [s, steps] =>
      -- `(L (T S:wrap S:class (D params)) | (T S:call (L args) (D kw)) ...)`: constructor applications between the calls
      let s ← sigOf (← Val.ofSexp s)
      match ← Val.ofSexp steps with
      | .list steps =>
          let steps ← steps.mapM fun
            | .tuple [.cell (.str "wrap"), .cell (.str c), .dict p] => (clsOf c).map fun c => HStep.wrap c p
            | .tuple [.cell (.str "call"), a, k] => (callOf a k).map HStep.call
            | _ => Option.none
          let out := runSteps s recBody Call.hasArr { chain := [], base := 0 } {} steps
          pure (reply (.ok (.list (out.map fun r => .tuple [resVal r.1, .cell (.int r.2)]))))
      | _ => Option.none
  | "stackhist3", [s, steps] =>
      -- `(L (T S:wrap S:class (D params) I:src) | (T S:call (L args) (D kw) I:obj) ...)`: every object built so far stays
      -- callable (object 0 = the plain function); a step naming an object that does not exist is `bad-op`
      let s ← sigOf (← Val.ofSexp s)
      match ← Val.ofSexp steps with
      | .list steps =>
          let steps ← steps.mapM fun
            | .tuple [.cell (.str "wrap"), .cell (.str c), .dict p, .cell (.int src)] =>
                if src < 0 then Option.none else (clsOf c).map fun c => MStep.wrap c p src.toNat
            | .tuple [.cell (.str "call"), a, k, .cell (.int j)] =>
                if j < 0 then Option.none else (callOf a k).map (MStep.call j.toNat)
            | _ => Option.none
          let out ← runMulti s recBody Call.hasArr {} steps
          pure (reply (.ok (.list (out.map fun r => .tuple [resVal r.1, .cell (.int r.2)]))))
      | _ => Option.none
  | "presets", [] =>
      -- round k6: the preset wrappers of _decorators.py:249-254 and their fallback values (`tryPresets`, Try.lean), compared with
      -- the objects `pyg_base.try_nan … try_list` themselves (class, value, repeat, return_value)
      pure (reply (.ok (.list (tryPresets.map fun nv => .tuple [.cell (.str nv.1), nv.2]))))
  | "mk", [ds] =>
      let ds ← decosOf (← Val.ofSexp ds)
      let fn := mkMany ds { chain := [], base := 0 }
      pure (reply (.ok (.list (fn.chain.map fun w => .tuple [.cell (.str (Cls.name w.1)), .dict w.2]))))
  | "cache", [s, cs] =>
      let s ← sigOf (← Val.ofSexp s)
      match ← Val.ofSexp cs with
      | .list cs =>
          let cs ← cs.mapM fun
            | .tuple [a, k] => callOf a k
            | _ => Option.none
          pure (reply (.ok (.list (cacheReplies (applyFn s recBody) {} cs))))
      | _ => Option.none
  | _, _ => Option.none

def handle (s : St) (op : String) (args : List Sexp) : Option (St × String) :=
  (handle1 op args).map fun r => (s, r)

end Pyg.BindDriver
