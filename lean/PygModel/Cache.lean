/-
  PygModel.Cache — `cache_func` (src/pyg_base/_cache.py:6-62): key normalisation `_prehash` and the cache
  state machine with an evaluation log.

  `_key(*args, **kwargs) = (_prehash(args), sorted keyword items)`.  The model is of the REPAIRED code
  (finding P3): `_prehash` keeps the container type — a tuple stays a tuple, a list becomes a `_hashable` that
  remembers `list`, a dict a `_hashable` that remembers `dict` and holds the sorted `(key, _prehash(value))`
  pairs — so that `[1]`, `(1,)` and `{'a': 1}`, `(('a', 1),)` are different keys.  (The pinned tree turned
  lists AND tuples into tuples and dicts into tuples of pairs: `cache(f)((1,))` returned `f([1])`.)
  The key is then used in a python dict, i.e. compared with `==` / `hash`: `1 == 1.0 == True`.  `normKey` is
  `_prehash` followed by that identification, so that two calls hit the same cache entry iff their `normKey`s
  are equal (theorem `callKey_eq_iff`: iff the calls are python-`==`, `sameComb`).

  Unhashable arguments (ndarray, Series: `key not in self.cache` raises TypeError, the `except` path evaluates
  the function and stores nothing — finding K5) are modelled by `cacheCallH` with a predicate saying which
  calls are unhashable; the driver takes string cells starting with `~arr:` for arrays.  NaN (dict membership
  depends on object identity) is not modelled.
-/
import PygModel.Bind
import PygModel.Cmp

namespace Pyg

/-- numbers that are `==` in python get one representative -/
def normCell : Cell → Cell
  | .bool b => .flt (if b then 4 else 0)
  | .int n => .flt (4 * n)
  | c => c

mutual
  def normKey : Val → Val
    | .cell c => .cell (normCell c)
    | .list xs => .list (normKeyList xs)
    | .tuple xs => .tuple (normKeyList xs)
    | .dict kvs => .dict (sortKV (normKeyKVs kvs))
  def normKeyList : List Val → List Val
    | [] => []
    | x :: xs => normKey x :: normKeyList xs
  def normKeyKVs : List (String × Val) → List (String × Val)
    | [] => []
    | (k, v) :: kvs => (k, normKey v) :: normKeyKVs kvs
end

/-- the cache key of a call "as passed": positional and keyword arguments are kept apart -/
def callKey (c : Call) : Val := normKey (.tuple [.tuple c.args, .dict c.kw])

structure CacheSt where
  cache : List (Val × Val) := []     -- `self.cache`: key ↦ first result
  evals : List Val := []             -- the key of every evaluation of the wrapped function, in order
  deriving Repr, Inhabited

/-- `cache_func.wrapped` (_cache.py:41-49):
    `if key not in self.cache: self.cache[key] = self.function(...)`; `return self.cache[key]`;
    `except Exception: return self.function(...)` — a raising function is evaluated a second time (which raises
    again) and nothing is stored. -/
def cacheCall (f : Call → Res Val) (st : CacheSt) (c : Call) : CacheSt × Res Val :=
  let k := callKey c
  match st.cache.lookup k with
  | some v => (st, .ok v)
  | Option.none =>
    match f c with
    | .ok v => ({ cache := st.cache ++ [(k, v)], evals := st.evals ++ [k] }, .ok v)
    | .error e => ({ st with evals := st.evals ++ [k, k] }, .error e)

/-- a history of calls on one cached function: final state and the replies -/
def runCache (f : Call → Res Val) : CacheSt → List Call → CacheSt × List (Res Val)
  | st, [] => (st, [])
  | st, c :: cs =>
    let (st1, r) := cacheCall f st c
    let (st2, rs) := runCache f st1 cs
    (st2, r :: rs)

/-! ### unhashable arguments: the `except` path -/

/-- `cache_func.wrapped` when some calls have an unhashable key (`unh c`): `key not in self.cache` raises
`TypeError`, the handler returns `self.function(*args, **kwargs)`: one evaluation, nothing stored. -/
def cacheCallH (unh : Call → Bool) (f : Call → Res Val) (st : CacheSt) (c : Call) : CacheSt × Res Val :=
  if unh c then ({ st with evals := st.evals ++ [callKey c] }, f c) else cacheCall f st c

def runCacheH (unh : Call → Bool) (f : Call → Res Val) : CacheSt → List Call → CacheSt × List (Res Val)
  | st, [] => (st, [])
  | st, c :: cs =>
    let (st1, r) := cacheCallH unh f st c
    let (st2, rs) := runCacheH unh f st1 cs
    (st2, r :: rs)

mutual
  /-- the driver's convention: a string cell starting with `~arr:` stands for a numpy array -/
  def Val.hasArr : Val → Bool
    | .cell (.str s) => s.startsWith "~arr:"
    | .cell _ => false
    | .list xs => hasArrList xs
    | .tuple xs => hasArrList xs
    | .dict kvs => hasArrKVs kvs
  def hasArrList : List Val → Bool
    | [] => false
    | x :: xs => x.hasArr || hasArrList xs
  def hasArrKVs : List (String × Val) → Bool
    | [] => false
    | (_, v) :: kvs => v.hasArr || hasArrKVs kvs
end

def Call.hasArr (c : Call) : Bool := hasArrList c.args || hasArrKVs c.kw

end Pyg
