/-
  PygModel.Cache — `cache_func` (src/pyg_base/_cache.py:6-62): key normalisation `_prehash` and the cache
  state machine with an evaluation log.

  `_key(*args, **kwargs) = _prehash((args, kwargs))`: lists and tuples become tuples, dicts become the sorted
  tuple of their `(key, _prehash(value))` pairs.  The key is then used in a python dict, i.e. compared with
  `==` / `hash`: `1 == 1.0 == True`.  `normKey` is `_prehash` followed by that identification, so that two
  calls hit the same cache entry iff their `normKey`s are equal.  (NaN, whose dict membership depends on object
  identity, and arguments that stay unhashable — sets, arrays: the code then evaluates every time — are not
  modelled.)
-/
import PygModel.Bind
import PygModel.Cmp

namespace Pyg

/-- numbers that are `==` in python get one representative -/
def normCell : Cell → Cell
  | .bool b => .flt (if b then 4 else 0)
  | .int n => .flt (4 * n)
  | c => c

mutual
  def normKey : Val → Val
    | .cell c => .cell (normCell c)
    | .list xs => .tuple (normKeyList xs)
    | .tuple xs => .tuple (normKeyList xs)
    | .dict kvs => .tuple ((sortKV (normKeyKVs kvs)).map fun p => .tuple [.cell (.str p.1), p.2])
  def normKeyList : List Val → List Val
    | [] => []
    | x :: xs => normKey x :: normKeyList xs
  def normKeyKVs : List (String × Val) → List (String × Val)
    | [] => []
    | (k, v) :: kvs => (k, normKey v) :: normKeyKVs kvs
end

/-- the cache key of a call "as passed": positional and keyword arguments are kept apart -/
def callKey (c : Call) : Val := normKey (.tuple [.tuple c.args, .dict c.kw])

structure CacheSt where
  cache : List (Val × Val) := []     -- `self.cache`: key ↦ first result
  evals : List Val := []             -- the key of every evaluation of the wrapped function, in order
  deriving Repr, Inhabited

/-- `cache_func.wrapped` (_cache.py:41-49):
    `if key not in self.cache: self.cache[key] = self.function(...)`; `return self.cache[key]`;
    `except Exception: return self.function(...)` — a raising function is evaluated a second time (which raises
    again) and nothing is stored. -/
def cacheCall (f : Call → Res Val) (st : CacheSt) (c : Call) : CacheSt × Res Val :=
  let k := callKey c
  match st.cache.lookup k with
  | some v => (st, .ok v)
  | Option.none =>
    match f c with
    | .ok v => ({ cache := st.cache ++ [(k, v)], evals := st.evals ++ [k] }, .ok v)
    | .error e => ({ st with evals := st.evals ++ [k, k] }, .error e)

/-- a history of calls on one cached function: final state and the replies -/
def runCache (f : Call → Res Val) : CacheSt → List Call → CacheSt × List (Res Val)
  | st, [] => (st, [])
  | st, c :: cs =>
    let (st1, r) := cacheCall f st c
    let (st2, rs) := runCache f st1 cs
    (st2, r :: rs)

end Pyg
