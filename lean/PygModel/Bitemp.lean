/-
  PygModel.Bitemp — the bitemporal store of src/pyg_base/_bitemporal.py (property C17).

  A bitemporal frame is a list of rows (observation date, publication stamp, value) in frame order;
  `none` is NaN.  Only the single-column ("_is_series") shape with exact date stamps is modelled.
  pandas calls are replaced by the reference functions below (assumptions, sampled by correspondence):
    `sort_values('updated', kind='stable')`  ↦ `List.mergeSort` (a stable sort),
    `groupby(index)`                         ↦ groups in ascending key order, rows in frame order,
    `ffill`, `drop_duplicates(keep='last')`, `pd.concat` ↦ `ffill`, `keepLast`, `++`.
-/
import PygModel.TSBasic

namespace Pyg.Bitemp
open Pyg

structure Row where
  date : Int
  stamp : Int
  val : Option Int
  deriving Repr, DecidableEq, Inhabited

/-- rows of the frame, in frame order -/
abbrev Store := List Row

/-- `Bi(ts, asof)` for a date `asof` (_bitemporal.py:324-325, 340): every row gets the same stamp -/
def Bi (ts : TS) (stamp : Int) : Store := ts.map fun p => ⟨p.1, stamp, p.2⟩

def stampLe (a b : Row) : Bool := decide (a.stamp ≤ b.stamp)

/-- `df.sort_values(_updated, kind='stable')` (lines 65, 287 of the repaired code) -/
def sortStamp (rows : Store) : Store := rows.mergeSort stampLe

/-- the keys of `groupby(df.index.name)`: the distinct dates, ascending -/
def dates (rows : Store) : List Int := ((rows.map (·.date)).eraseDups).mergeSort (fun a b => decide (a ≤ b))

/-- one group of `groupby(df.index.name)`: the rows of that date, in frame order -/
def group (d : Int) (rows : Store) : Store := rows.filter (·.date == d)

/-- `Series.ffill()` started with a carried value -/
def ffillFrom (prev : Option Int) : List (Option Int) → List (Option Int)
  | [] => []
  | v :: vs => (v.or prev) :: ffillFrom (v.or prev) vs

def ffill (vs : List (Option Int)) : List (Option Int) := ffillFrom none vs

/-- numpy `==` on float cells: NaN equals nothing -/
def npEq : Option Int → Option Int → Bool
  | some a, some b => a == b
  | _, _ => false

/-- `drop_duplicates(subset=[_updated], keep='last')` (line 153) -/
def keepLast : Store → Store
  | [] => []
  | r :: rest => if rest.any (·.stamp == r.stamp) then keepLast rest else r :: keepLast rest

/-- `_drop_repeats` (lines 135-154) on one date's rows, sorted by stamp:
    forward-fill, drop every row whose filled value equals the filled value of the row before,
    then keep the last row of each stamp. -/
def dropRepeats (d : Store) : Store :=
  let noUpdated := ffill (d.map (·.val))                       -- 148
  let oldValues := noUpdated.dropLast                          -- 149  iloc[:-1]
  let newValues := noUpdated.drop 1                            -- 150  iloc[1:]
  let repeats := List.zipWith npEq newValues oldValues         -- 151
  let keep := true :: repeats.map (!·)                         -- 152  ~concatenate([[False], repeats])
  let res := ((d.zip keep).filter (·.2)).map (·.1)             -- 152
  keepLast res                                                 -- 153

/-- lines 283-288: concat, stable sort by stamp, group by date, clean every group, concat -/
def mergeFrames (bis : List Store) : Store :=
  let df := bis.flatten
  let sorted := sortStamp df
  (dates sorted).flatMap fun d => dropRepeats (group d sorted)

/-- `bi_merge(old_data, new_data)` for bitemporal operands; `old = none` is Python's `None`
    (lines 261-269: a single frame is returned as it is) -/
def biMerge (old : Option Store) (new : Store) : Store :=
  match old with
  | none => new
  | some o => mergeFrames [o, new]

/-- `bi_merge` with the one input the code rejects: when both frames are empty there is no group and
    `pd.concat([])` raises `ValueError` (line 288).  Agrees with `biMerge` whenever it returns. -/
def biMergeE (old : Option Store) (new : Store) : Res Store :=
  match old with
  | none => .ok new
  | some o => if (o ++ new).isEmpty then .error .value else .ok (biMerge (some o) new)

/-- `bi_merge(old_data, [new_1, new_2, ...])`: `new_data` may be a list of frames (lines 261-288).
    `none` = Python's `None` (no frame at all, lines 266-267); a single frame is returned as it is. -/
def biMergeL (old : Option Store) (news : List Store) : Option Store :=
  match old.toList ++ news with
  | [] => Option.none
  | [b] => some b
  | bis => some (mergeFrames bis)

/-- the same with the rejected input: two or more frames, all of them empty (`pd.concat([])`, line 288) -/
def biMergeLE (old : Option Store) (news : List Store) : Res (Option Store) :=
  if (old.toList ++ news).length ≥ 2 && (old.toList ++ news).flatten.isEmpty then .error .value
  else .ok (biMergeL old news)

/-- `_nth` (line 20): `v.iloc[min(n, len(v)-1)]` for `n ≥ 0`, else `v.iloc[max(n, -len(v))]` -/
def nth (n : Int) (v : Store) : Option Row :=
  if 0 ≤ n then v[min n.toNat (v.length - 1)]?
  else v[((v.length : Int) + max n (-(v.length : Int))).toNat]?

/-- the value `_nth` selects (groups are never empty, so the outer `none` does not arise) -/
def nthVal (n : Int) (v : Store) : Option Int := (nth n v).bind (·.val)

/-- `bi_read(df, asof, what)` (lines 57-70) for an integer `what`; `asof = none` reads everything -/
def biRead (df : Store) (asof : Option Int) (what : Int) : TS :=
  let df := match asof with
    | some T => df.filter (fun r => decide (r.stamp ≤ T))      -- 58
    | none => df
  let sorted := sortStamp df                                    -- 65
  (dates sorted).map fun d => (d, nthVal what (group d sorted)) -- 65-66

/-! ### the specification side: the full publication log -/

structure Version where
  stamp : Int
  ts : TS
  deriving Repr, Inhabited

/-- every publication ever made, in merge order -/
def logRows (log : List Version) : Store := log.flatMap fun v => Bi v.ts v.stamp

/-- fold of a list of publications of one date in merge order: a non-NaN value overrides,
    a NaN changes nothing -/
def lastVal (rows : Store) : Option Int := rows.foldl (fun acc r => r.val.or acc) none

/-- what an as-of read must return: per date with a publication stamped `≤ T`, the fold of those
    publications in merge order -/
def specRead (log : List Version) (asof : Option Int) : TS :=
  let pubs := match asof with
    | some T => (logRows log).filter (fun r => decide (r.stamp ≤ T))
    | none => logRows log
  (dates pubs).map fun d => (d, lastVal (group d pubs))

/-- "the first value published" of one date: the fold of the publications that share the stamp of the
    first one (later same-stamp versions override it, as they do for every read) -/
def firstVal (rows : Store) : Option Int :=
  match rows with
  | [] => none
  | r :: _ => lastVal (rows.filter (·.stamp == r.stamp))

/-- what `bi_read(..., what=0)` must return as of `T` -/
def specFirst (log : List Version) (asof : Option Int) : TS :=
  let pubs := match asof with
    | some T => (logRows log).filter (fun r => decide (r.stamp ≤ T))
    | none => logRows log
  (dates pubs).map fun d => (d, firstVal (group d pubs))

/-- the clause "what=0 returns the first value published per date" as it is written: per date published by `T`, the value of
    its first publication in merge order (NaN if that publication was NaN) -/
def specFirstLiteral (log : List Version) (asof : Option Int) : TS :=
  let pubs := match asof with
    | some T => (logRows log).filter (fun r => decide (r.stamp ≤ T))
    | none => logRows log
  (dates pubs).map fun d => (d, (group d pubs).head?.bind (·.val))

/-- the store after merging the versions of `log` one by one, starting from `None` -/
def history (log : List Version) : Option Store :=
  log.foldl (fun st v => some (biMerge st (Bi v.ts v.stamp))) none

/-- one `bi_merge` call of a history, with the input the code rejects (`biMergeE`) -/
def mergeStepE (acc : Res (Option Store)) (v : Version) : Res (Option Store) :=
  match acc with
  | .error e => .error e
  | .ok st => match biMergeE st (Bi v.ts v.stamp) with
    | .error e => .error e
    | .ok s => .ok (some s)

/-- the history as the code runs it: `bi_merge` raises `ValueError` when both frames are empty (`pd.concat([])`), and the
    exception ends the history -/
def historyE (log : List Version) : Res (Option Store) := log.foldl mergeStepE (.ok none)

/-- the store after merging batches of versions (each batch handed to one `bi_merge` call as a list) -/
def historyL (batches : List (List Version)) : Option Store :=
  batches.foldl (fun st b => biMergeL st (b.map fun v => Bi v.ts v.stamp)) none

/-- the history of batches as the code runs it: a `bi_merge` call that sees two or more frames, all of them empty, raises
    `ValueError` (`biMergeLE`: `pd.concat([])`, line 288), and the exception ends the history -/
def historyLE (batches : List (List Version)) : Res (Option Store) :=
  batches.foldl (fun acc b => acc.bind fun st => biMergeLE st (b.map fun v => Bi v.ts v.stamp)) (.ok none)


/-! ### widened model (g4): publications as stamped rows, `Bi` with `'shift'` / day bumps, string selectors -/

/-- the as-of fold of `specRead`, stated on the published rows themselves (merge order): what an as-of read must return
    when the versions are arbitrary stamped frames (`Bi` with a bump or `'shift'` gives every row its own stamp) -/
def specReadR (rows : Store) (asof : Option Int) : TS :=
  let pubs := match asof with
    | some T => rows.filter (fun r => decide (r.stamp ≤ T))
    | none => rows
  (dates pubs).map fun d => (d, lastVal (group d pubs))

/-- `specFirst` on published rows -/
def specFirstR (rows : Store) (asof : Option Int) : TS :=
  let pubs := match asof with
    | some T => rows.filter (fun r => decide (r.stamp ≤ T))
    | none => rows
  (dates pubs).map fun d => (d, firstVal (group d pubs))

/-- the store after merging stamped frames one by one, starting from `None` (`history` = the case `Bi v.ts v.stamp`) -/
def historyF (frames : List Store) : Option Store :=
  frames.foldl (fun st f => some (biMerge st f)) none

/-- `Bi(ts, 'shift')` (_bitemporal.py:327-329): row `i` is stamped with the date of row `i+1`, the last row with `now`.
    (`ts = []` is kept out: the real code then CREATES a row with index `0`.) -/
def BiShift (ts : TS) (now : Int) : Store :=
  List.zipWith (fun p s => ⟨p.1, s, p.2⟩) ts ((ts.map (·.1)).drop 1 ++ [now])

/-- `Bi(ts, bump)` (lines 330-333) for a bump of a fixed length `delta` (`'3d'`, `3`, `'1w'`, `'-1d'`; business-day and
    month bumps need the calendar of C04/C09 and are not modelled): the date plus the bump, capped at `now` -/
def BiBump (ts : TS) (delta now : Int) : Store := ts.map fun p => ⟨p.1, min (p.1 + delta) now, p.2⟩

/-- string selectors of `bi_read` (`what='last'` / `'first'`): pandas `GroupBy.last()` / `.first()` -/
inductive Sel where
  | last | first
  deriving Repr, DecidableEq, Inhabited

/-- `GroupBy.last()`: the last non-NaN value of the group (NaN if there is none) -/
def lastNonNan (v : Store) : Option Int := (v.reverse.find? (·.val.isSome)).bind (·.val)

/-- `GroupBy.first()`: the first non-NaN value of the group -/
def firstNonNan (v : Store) : Option Int := (v.find? (·.val.isSome)).bind (·.val)

def Sel.apply : Sel → Store → Option Int
  | .last, v => lastNonNan v
  | .first, v => firstNonNan v

/-- `bi_read(df, asof, what)` for `what = 'last'` / `'first'` (lines 57-66: `gb.apply('last')` = `gb.last()`) -/
def biReadS (df : Store) (asof : Option Int) (sel : Sel) : TS :=
  let df := match asof with
    | some T => df.filter (fun r => decide (r.stamp ≤ T))
    | none => df
  let sorted := sortStamp df
  (dates sorted).map fun d => (d, sel.apply (group d sorted))

/-- number of leading NaN rows of a group: the integer selector that `'first'` amounts to -/
def leadingNan (v : Store) : Nat := (v.takeWhile (·.val.isNone)).length

/-! ### multi-column frames (g4): several value columns sharing the index and the stamp -/

structure RowF where
  date : Int
  stamp : Int
  vals : List (Option Int)
  deriving Repr, DecidableEq, Inhabited

abbrev StoreF := List RowF

/-- a version of a frame: (date, cells) rows -/
abbrev TSF := List (Int × List (Option Int))

def BiF (ts : TSF) (stamp : Int) : StoreF := ts.map fun p => ⟨p.1, stamp, p.2⟩

def sortStampF (rows : StoreF) : StoreF := rows.mergeSort fun a b => decide (a.stamp ≤ b.stamp)

def datesF (rows : StoreF) : List Int := ((rows.map (·.date)).eraseDups).mergeSort (fun a b => decide (a ≤ b))

def groupF (d : Int) (rows : StoreF) : StoreF := rows.filter (·.date == d)

/-- `DataFrame.ffill()` column by column, started with a carried row -/
def ffillFromF (prev : List (Option Int)) : List (List (Option Int)) → List (List (Option Int))
  | [] => []
  | v :: vs => (List.zipWith Option.or v prev) :: ffillFromF (List.zipWith Option.or v prev) vs

/-- the first row has nothing to be filled from -/
def ffillF : List (List (Option Int)) → List (List (Option Int))
  | [] => []
  | v :: vs => v :: ffillFromF v vs

def keepLastF : StoreF → StoreF
  | [] => []
  | r :: rest => if rest.any (·.stamp == r.stamp) then keepLastF rest else r :: keepLastF rest

/-- `repeats.min(axis=1)` (line 152): a row is a repeat only if EVERY column repeats -/
def allRepeat (new old : List (Option Int)) : Bool := (List.zipWith npEq new old).all id

/-- `_drop_repeats` on a frame with several value columns: the mask is per ROW, the rows kept are the RAW rows of `d`
    (not the forward-filled ones) -/
def dropRepeatsF (d : StoreF) : StoreF :=
  let noUpdated := ffillF (d.map (·.vals))                     -- 148
  let oldValues := noUpdated.dropLast                          -- 149
  let newValues := noUpdated.drop 1                            -- 150
  let repeats := List.zipWith allRepeat newValues oldValues    -- 151, 152 (.min(axis=1))
  let keep := true :: repeats.map (!·)
  let res := ((d.zip keep).filter (·.2)).map (·.1)             -- 152
  keepLastF res                                                -- 153

def mergeFramesF (bis : List StoreF) : StoreF :=
  let sorted := sortStampF bis.flatten
  (datesF sorted).flatMap fun d => dropRepeatsF (groupF d sorted)

def biMergeF (old : Option StoreF) (new : StoreF) : StoreF :=
  match old with
  | none => new
  | some o => mergeFramesF [o, new]

def nthF (n : Int) (v : StoreF) : Option RowF :=
  if 0 ≤ n then v[min n.toNat (v.length - 1)]?
  else v[((v.length : Int) + max n (-(v.length : Int))).toNat]?

/-- `bi_read` on a frame for an integer `what`: the n-th RAW row per date -/
def biReadF (df : StoreF) (asof : Option Int) (what : Int) : TSF :=
  let df := match asof with
    | some T => df.filter (fun r => decide (r.stamp ≤ T))
    | none => df
  let sorted := sortStampF df
  (datesF sorted).map fun d => (d, ((nthF what (groupF d sorted)).map (·.vals)).getD [])

/-- column `c` of a frame as a single-column store -/
def colF (c : Nat) (rows : StoreF) : Store := rows.map fun r => ⟨r.date, r.stamp, (r.vals[c]?).join⟩

/-- `bi_read(frame, asof, 'last' | 'first')`: `GroupBy.last()` / `.first()` work column by column -/
def biReadFS (width : Nat) (df : StoreF) (asof : Option Int) (sel : Sel) : TSF :=
  let df := match asof with
    | some T => df.filter (fun r => decide (r.stamp ≤ T))
    | none => df
  let sorted := sortStampF df
  (datesF sorted).map fun d => (d, (List.range width).map fun c => sel.apply (colF c (groupF d sorted)))

/-- the store after merging frame versions one by one -/
def historyFF (log : List (Int × TSF)) : Option StoreF :=
  log.foldl (fun st v => some (biMergeF st (BiF v.2 v.1))) none

/-- `bi_merge` of two frames with the rejected input (both empty: `pd.concat([])` raises) -/
def biMergeFE (old : Option StoreF) (new : StoreF) : Res StoreF :=
  match old with
  | none => .ok new
  | some o => if (o ++ new).isEmpty then .error .value else .ok (biMergeF (some o) new)

/-- every published frame row, in merge order -/
def logRowsF (log : List (Int × TSF)) : StoreF := log.flatMap fun v => BiF v.2 v.1

/-- the one-column frame of a series -/
def embRow (r : Row) : RowF := ⟨r.date, r.stamp, [r.val]⟩

end Pyg.Bitemp
