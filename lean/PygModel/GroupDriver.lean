/- line-protocol handlers for the Group model (C11):
   (group lu <table> (L by*))               -> ok (T <listby> <unlist of it> <table>)
   (group gu <table> (L by*) <sp> [grp])    -> ok (T <groupby> <ungroup of it> <table>)   grp: the `grp =` name (default 'grp')
   (group pv <table> (L x*) y z <agg>)      -> ok (T <pivot> <unpivot of it> <table>)      agg: none|len|first|last
   (group unlist <vtable>) / (group ungroup <vtable>) / (group unpivot <vtable> (L x*) y z)  -> ok <vtable>
   column names are `S:<hex>` atoms; a step that raises gives `err Kind` for the whole line. -/
import PygModel.Group

namespace Pyg.GroupDriver
open Pyg

abbrev St := Unit
def init : St := ()
def modelName : String := "group"

def strOf : Sexp → Option String
  | .atom s => match Cell.parse s with
    | some (.str k) => some k
    | _ => Option.none
  | _ => Option.none

def strsOf : Sexp → Option (List String)
  | .node (.atom "L" :: xs) => xs.mapM strOf
  | _ => Option.none

def vtableVal (t : VTable) : Val := .dict (t.map fun c => (c.1, .list c.2))

def vtableOf : Val → Option VTable
  | .dict kvs => kvs.mapM fun (k, v) => match v with
      | .list xs => some (k, xs)
      | _ => Option.none
  | _ => Option.none

def aggOf : Sexp → Option Agg
  | .atom "none" => some .none
  | .atom "len" => some .len
  | .atom "first" => some .first
  | .atom "last" => some .last
  | _ => Option.none

def reply (r : Res Val) : String :=
  match r with
  | .ok v => "ok " ++ v.render
  | .error e => "err " ++ e.render

def handle1 (op : String) (args : List Sexp) : Option String := do
  match op, args with
  | "lu", t :: by_ :: sp =>
      let t ← Table.ofVal (← Val.ofSexp t)
      let by_ ← strsOf by_
      if ¬ by_.Nodup then Option.none else
      let emptyList := match sp with
        | [.atom "sp:l"] => true
        | _ => false
      pure (reply (do
        let l ← t.listby by_ emptyList
        let u ← l.unlist
        pure (.tuple [vtableVal l, vtableVal u, t.toVal])))
  | "gu", t :: by_ :: rest =>
      let t ← Table.ofVal (← Val.ofSexp t)
      let by_ ← strsOf by_
      if ¬ by_.Nodup then Option.none else
      -- optional 5th argument: the `grp =` keyword of groupby and ungroup
      let grp ← match rest with
        | [_, g] => strOf g
        | _ => some "grp"
      match t.groupby by_ grp with
      | .error e => pure (reply (.error e))
      | .ok g =>
        let u ← g.ungroup grp
        pure (reply (do let u ← u; pure (.tuple [vtableVal g, vtableVal u, t.toVal])))
  | "pv", t :: x :: y :: z :: agg :: sp =>
      -- optional 6th argument: how the x names are SPELLED in both calls (xs:s a plain string, xs:l a list, xs:t a tuple): `xyz` reads all
      -- three as the same names (`as_tuple`, _dictable.py:1328) and so does `unpivot` (`as_list`), so the spelling does not enter the model
      let _ ← match sp with
        | [] => some ()
        | [.atom "xs:s"] => if (strsOf x).map List.length == some 1 then some () else Option.none
        | [.atom "xs:l"] => some ()
        | [.atom "xs:t"] => some ()
        | _ => Option.none
      let t ← Table.ofVal (← Val.ofSexp t)
      let x ← strsOf x; let y ← strOf y; let z ← strOf z; let agg ← aggOf agg
      let p ← t.pivot x y z agg
      pure (reply (do
        let p ← p
        let u ← p.unpivot x y z
        pure (.tuple [vtableVal p, vtableVal u, t.toVal])))
  | "unlist", [t] =>
      let t ← vtableOf (← Val.ofSexp t)
      pure (reply (t.unlist.map vtableVal))
  | "ungroup", [t] =>
      let t ← vtableOf (← Val.ofSexp t)
      let u ← t.ungroup "grp"
      pure (reply (u.map vtableVal))
  | "unpivot", [t, x, y, z] =>
      let t ← vtableOf (← Val.ofSexp t)
      let x ← strsOf x; let y ← strOf y; let z ← strOf z
      pure (reply ((t.unpivot x y z).map vtableVal))
  | _, _ => Option.none

def handle (s : St) (op : String) (args : List Sexp) : Option (St × String) :=
  (handle1 op args).map fun r => (s, r)

end Pyg.GroupDriver
