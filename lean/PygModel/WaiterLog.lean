/-
  PygModel.WaiterLog — `waiter` (src/pyg_base/_waiter.py:15-61) with a LOG-BASED `asyncio.gather` (round k6).

  In PygModel.Waiter a gather node is a list of slots: positional by construction.  Here a gather node keeps its children's tasks
  AND a log of their completions in ARRIVAL order - `(index of the child, its result)`, appended when the child's done-callback
  runs - and it finishes when as many completions are logged as it has children (`nfinished == nfuts` in CPython's
  `tasks.gather._done_callback`); its result is assembled from the log by child index.  That the result lists the children's
  results in the order of the CHILDREN, whatever the arrival order, is then a lemma (`Props.C19.gather_positional`), and the
  machine refines the slot machine (`Props.C19.waiterL_refines`), so the `waiter_*` theorems hold of it.
  Children that finish in the same step are logged left to right (callbacks are scheduled in registration order); the proofs do
  not depend on that order - any permutation of the completion records gives the same result.
-/
import PygModel.Waiter

namespace Pyg

inductive TaskL where
  | ret (v : Val)
  | wait (id : Nat)
  | gather (k : Kind) (children : List TaskL) (log : List (Nat × Val))
  deriving Repr, Inhabited

/-- the completion records of the children that are done, with their indices from `i` on -/
def doneLog : Nat → List TaskL → List (Nat × Val)
  | _, [] => []
  | i, .ret v :: ts => (i, v) :: doneLog (i + 1) ts
  | i, _ :: ts => doneLog (i + 1) ts

/-- the children that finish in a step (not done before, done after), left to right -/
def newlyDone : Nat → List TaskL → List TaskL → List (Nat × Val)
  | i, b :: bs, a :: as =>
      match b, a with
      | .ret _, _ => newlyDone (i + 1) bs as
      | _, .ret v => (i, v) :: newlyDone (i + 1) bs as
      | _, _ => newlyDone (i + 1) bs as
  | _, _, _ => []

/-- `[fut.result() for fut in children]` read off the log: the result logged for child 0, 1, … -/
def logResults (n : Nat) (log : List (Nat × Val)) : List Val :=
  (List.range n).map fun i => (log.lookup i).getD (.cell .none)

/-- a gather node finishes when every child's completion has been logged -/
def collapseL (k : Kind) (children : List TaskL) (log : List (Nat × Val)) : TaskL :=
  if log.length = children.length then .ret (k.build (logResults children.length log)) else .gather k children log

mutual
  def startL : W → TaskL
    | .val c => .ret (.cell c)
    | .aw id => .wait id
    | .list xs => collapseL .list (startLList xs) (doneLog 0 (startLList xs))
    | .tuple xs => collapseL .tuple (startLList xs) (doneLog 0 (startLList xs))
    | .dict kvs => collapseL (.dict (kvs.map (·.1))) (startLKVs kvs) (doneLog 0 (startLKVs kvs))
  def startLList : List W → List TaskL
    | [] => []
    | x :: xs => startL x :: startLList xs
  def startLKVs : List (String × W) → List TaskL
    | [] => []
    | (_, x) :: kvs => startL x :: startLKVs kvs
end

mutual
  /-- awaitable `id` completes with result `v` -/
  def completeL (id : Nat) (v : Val) : TaskL → TaskL
    | .ret x => .ret x
    | .wait j => if j = id then .ret v else .wait j
    | .gather k children log =>
        collapseL k (completeLList id v children) (log ++ newlyDone 0 children (completeLList id v children))
  def completeLList (id : Nat) (v : Val) : List TaskL → List TaskL
    | [] => []
    | t :: ts => completeL id v t :: completeLList id v ts
end

def runEventsL (w : W) (evs : List (Nat × Val)) : TaskL :=
  evs.foldl (fun t e => completeL e.1 e.2 t) (startL w)

def TaskL.result : TaskL → Option Val
  | .ret v => some v
  | _ => Option.none

mutual
  /-- forget the logs: the slot machine's view of the task tree -/
  def TaskL.toTask : TaskL → Task
    | .ret v => .ret v
    | .wait id => .wait id
    | .gather k children _ => .gather k (TaskL.toTaskList children)
  def TaskL.toTaskList : List TaskL → List Task
    | [] => []
    | t :: ts => t.toTask :: TaskL.toTaskList ts
end

mutual
  /-- the log of every gather node is a permutation of the completion records of its children -/
  def TaskL.ok : TaskL → Prop
    | .gather _ children log => TaskL.okList children ∧ log.Perm (doneLog 0 children)
    | _ => True
  def TaskL.okList : List TaskL → Prop
    | [] => True
    | t :: ts => t.ok ∧ TaskL.okList ts
end

end Pyg
