/-
  PygModel.TableSpec — the plain list-of-records machine of property C01 (DESIGN §5 / §14 `specStep`).

  `Recs` (PygModel/Table.lean) is a list of column names and a list of records, each record a list of cells
  aligned with the names.  Everything here works record by record: a column assignment writes one field in
  every record, a mask keeps the flagged records, a derived column evaluates the callable on every record,
  concatenation appends record lists.  No operation looks at a column store.  `specStep` runs the SAME `Op`s
  as the history machine `step`, on a heap of `Recs`; `Pyg.Props.C01.abs_step` proves that `step` seen
  through `Table.abs` IS `specStep`, for every operation, outcome and error kind.

  What the reference machine takes over from `_dictable.py` as *the rules of the data type* (each is stated
  here once, in record terms, and is part of what the property text calls the list-of-records model):
    * a dictable without columns has no records (`Recs.norm`); `d[i]` on it is `{}` for every `i`;
    * the broadcasting rule `lens`/`bcast` of `_zip.py` (a value of length 1 is repeated) for column
      assignment, masks and the constructor;
    * python index and slice arithmetic (`pyIdx`, `sliceIdx`);
    * `dict` semantics for keyed data handed to the constructor (`Table.ofPairs`, `Table.updateWith`,
      `dataCols` — these act on the *input* dict of named lists, not on a dictable) and for key collisions
      in `relabel` / repeated keys in a projection: first position, last value.
  Column order of `concat` results: first appearance (the code's order comes from a python `set`;
  `Recs.concatWith` + `Props.C01.concat_keys_perm` show that another key order only permutes the columns).
-/
import PygModel.Table

namespace Pyg
namespace Recs

/-- `record.get(k)`: the field `k` of a record whose cells are aligned with `cols` -/
def get? (cols : List String) (row : List Cell) (k : String) : Option Cell :=
  ((cols.zip row).find? (·.1 == k)).map (·.2)

/-- the value under the LAST of several equal keys (a dict built from pairs keeps the last value) -/
def lookupLast (keys : List String) (row : List Cell) (k : String) : Cell :=
  ((((keys.zip row).reverse).find? (·.1 == k)).map (·.2)).getD .none

/-- a dictable without columns has no records -/
def norm (r : Recs) : Recs := if r.cols.isEmpty then ⟨[], []⟩ else r

/-- `record[k] = x` on one record: an existing field is overwritten in place, a new one is appended -/
def setField (cols : List String) (row : List Cell) (k : String) (x : Cell) : List Cell :=
  if cols.contains k then (cols.zip row).map fun p => if p.1 == k then x else p.2 else row ++ [x]

/-- `del record[k]` on one record -/
def delField (cols : List String) (row : List Cell) (k : String) : List Cell :=
  ((cols.zip row).filter (·.1 != k)).map (·.2)

/-- give record `i` the field `k = vs[i]` (`vs` has one value per record); the first column of a table
without columns creates one record per value -/
def setCol (r : Recs) (k : String) (vs : List Cell) : Recs :=
  if r.cols.isEmpty then ⟨[k], vs.map fun x => [x]⟩
  else ⟨if r.cols.contains k then r.cols else r.cols ++ [k],
        List.zipWith (fun row x => setField r.cols row k x) r.rows vs⟩

/-- `d[k] = v`: one value per record, or a single value repeated; anything else is a `ValueError` -/
def setitem (r : Recs) (k : String) (v : ColVal) : Except Err Recs :=
  let value := v.value
  if value.length == r.rows.length || r.cols.isEmpty then .ok (r.setCol k value)
  else if value.length == 1 then .ok (r.setCol k (bcast r.rows.length value))
  else .error .value

/-- `del d[k]` -/
def delitem (r : Recs) (k : String) : Except Err Recs :=
  if r.cols.contains k then
    .ok (norm ⟨r.cols.filter (· != k), r.rows.map fun row => delField r.cols row k⟩)
  else .error .key

/-- `d.update(other)`: assignments in order; the ones before a failing one stay -/
def update (r : Recs) : List (String × ColVal) → Recs × Option Err
  | [] => (r, Option.none)
  | (k, v) :: rest =>
    match r.setitem k v with
    | .error e => (r, some e)
    | .ok r' => update r' rest

def updateE (r : Recs) (kvs : List (String × ColVal)) : Except Err Recs :=
  match r.update kvs with
  | (r', Option.none) => .ok r'
  | (_, some e) => .error e

/-! ### queries -/

/-- `d[i]`: the `i`-th record as a dict -/
def getRow (r : Recs) (i : Int) : Except Err (List (String × Cell)) :=
  if r.cols.isEmpty then .ok [] else
  match pyIdx r.rows.length i with
  | some j => .ok (r.cols.zip (r.rows.getD j []))
  | Option.none => .error .index

/-- `d[k]`: the field `k` of every record -/
def getCol (r : Recs) (k : String) : Except Err (List Cell) :=
  if r.cols.contains k then .ok (r.rows.map fun row => lookup r.cols row k) else .error .key

/-- `list(d)` -/
def iter (r : Recs) : List (List (String × Cell)) := r.rows.map fun row => r.cols.zip row

/-- `d[k1, k2, ...]`: per record the tuple of the named fields -/
def getTuple (r : Recs) (ks : List String) : Except Err (List (List Cell)) :=
  if ks.all r.cols.contains then
    .ok (if ks.isEmpty then [] else r.rows.map fun row => ks.map fun k => lookup r.cols row k)
  else .error .key

/-- `d[f]`: `f(**record)` for every record, the first error wins -/
def applyFn (r : Recs) (f : Fn) : Except Err (List Cell) :=
  mapE (fun row => f.eval (get? r.cols row)) r.rows

/-! ### row selection -/

/-- `d[a:b:s]`: the list slice of the records; a zero step is a `ValueError` (a table without columns has
nothing to slice and is returned as it is) -/
def getSlice (r : Recs) (a b s : Option Int) : Except Err Recs :=
  if r.cols.isEmpty then .ok r
  else if s == some 0 then .error .value
  else .ok (r.slice a b (s.getD 1))

/-- `d[mask]`: `[record for record, tf in zipper(records, mask) if tf]` (`zipper` repeats a length-1 mask,
and the single record of a one-record table) -/
def getMask (r : Recs) (m : List Bool) : Except Err Recs :=
  match zipper2 r.rows m with
  | .error e => .error e
  | .ok ps => .ok ⟨r.cols, (ps.filter (·.2)).map (·.1)⟩

/-- the PLAIN reading of `d[mask]` on a list of records, with nothing but `zip`, `filter`, `map` (no `zipper`,
`lens`, `bcast`) - this is what the reference machine `specStep` does:
  * one flag per record: keep the flagged records, in order (`Recs.mask`);
  * a single flag (and not exactly one record): all records if it is `True`, none otherwise;
  * any other length: `ValueError`. -/
def getMaskPlain (r : Recs) (m : List Bool) : Except Err Recs :=
  if m.length = r.rows.length then .ok ⟨r.cols, ((r.rows.zip m).filter (·.2)).map (·.1)⟩
  else match m with
    | [flag] => .ok ⟨r.cols, if flag then r.rows else []⟩
    | _ => .error .value

/-- `d[['a','b']]`: every record restricted to the named fields (a repeated name counts once);
`d[[]]` keeps the columns and no record -/
def getProj (r : Recs) (ks : List String) : Except Err Recs :=
  if ks.isEmpty then .ok ⟨r.cols, []⟩
  else if ks.all r.cols.contains then
    .ok ⟨dedupKeys ks, r.rows.map fun row => (dedupKeys ks).map fun k => lookup r.cols row k⟩
  else .error .key

/-! ### derived columns -/

/-- `f(key = k, **record)` for every record (the record's own fields win over the default `key`) -/
def applyFnK (r : Recs) (key : String) (f : Fn) : Except Err (List Cell) :=
  mapE (fun row => f.eval (keyDflt key (get? r.cols row))) r.rows

/-- `res[k] = [f(key = k, **record) for record in res]` -/
def setFn (r : Recs) (kf : String × Fn) : Except Err Recs :=
  match r.applyFnK kf.1 kf.2 with
  | .error e => .error e
  | .ok vs => r.setitem kf.1 (.many vs)

def setFns (r : Recs) : List (String × Fn) → Except Err Recs
  | [] => .ok r
  | kf :: rest => match r.setFn kf with
    | .error e => .error e
    | .ok r' => setFns r' rest

/-- the dependency loop of `Dict.__call__` on records: while more than one callable is pending, evaluate
those that read no pending key (`ValueError` if there is none); the last one is evaluated as it is -/
def callLoop (fuel : Nat) (res : Recs) (fns : List (String × Fn)) : Except Err Recs :=
  match fuel with
  | 0 => res.setFns fns
  | fuel + 1 =>
    if fns.length > 1 then
      let keys := fns.map (·.1)
      let indep := fns.filter fun kf => kf.2.args.all fun a => !keys.contains a
      if indep.isEmpty then .error .value
      else match res.setFns indep with
        | .error e => .error e
        | .ok res' => callLoop fuel res' (fns.filter fun kf => !(indep.any (·.1 == kf.1)))
    else res.setFns fns

/-- `d(**kwargs)`: the constants are assigned first, then the callables in dependency order -/
def call (r : Recs) (consts : List (String × ColVal)) (fns : List (String × Fn)) : Except Err Recs :=
  match r.updateE consts with
  | .error e => .error e
  | .ok res => callLoop fns.length res fns

/-! ### per-column transforms -/

/-- `f(record[key], **record)` on one record (given as its field access function); a record without the
key is a `KeyError` -/
def doCell (f : DoFn) (key : String) (rec : String → Option Cell) : Except Err Cell :=
  match rec key with
  | Option.none => .error .key
  | some v => f.eval v rec

/-- `res[key] = [f(record[key], **record) for record in res]` -/
def doKey (r : Recs) (f : DoFn) (key : String) : Except Err Recs :=
  match mapE (fun row => doCell f key (get? r.cols row)) r.rows with
  | .error e => .error e
  | .ok vs => r.setitem key (.many vs)

def doKeys (r : Recs) (f : DoFn) : List String → Except Err Recs
  | [] => .ok r
  | k :: ks => match r.doKey f k with
    | .error e => .error e
    | .ok r' => doKeys r' f ks

def doCols (r : Recs) (f : DoFn) (keys : Option (List String)) : Except Err Recs :=
  r.doKeys f (keys.getD r.cols)

/-! ### renaming -/

/-- `{f(k): v for k, v in record.items()}` on every record: if two keys are renamed to one name, that
name keeps the first position and the last value -/
def relabel (r : Recs) (f : String → String) : Recs :=
  let keys := r.cols.map f
  ⟨dedupKeys keys, r.rows.map fun row => (dedupKeys keys).map fun k => lookupLast keys row k⟩

/-! ### construction -/

/-- the records of a dict of named lists: `n = lens(lengths)` records (`ValueError` when two lengths other
than 1 differ), record `i` takes entry `i` of every list, a list of length 1 gives its value to every
record -/
def ofCols (kvs : List (String × List Cell)) : Except Err Recs :=
  match lens (kvs.map (·.2.length)) with
  | .error e => .error e
  | .ok n => .ok ⟨kvs.map (·.1), (List.range n).map fun i => kvs.map fun kv => (bcast n kv.2).getD i .none⟩

/-- `dictable(data, columns, **kwargs)`: the keyed input (`dataCols`: a dict of columns; records read
key by key with `None` for a missing key; rows zipped with their header) merged with the keyword columns
by `dict` rules, restricted to `columns` (absent ones `[None]`), then read as records by `ofCols` -/
def construct (data : Data) (columns : Option (List String)) (kwargs : List (String × ColVal)) :
    Option (Except Err Recs) :=
  match dataCols data columns with
  | Option.none => Option.none
  | some (.error e) => some (.error e)
  | some (.ok dk) =>
    let kw := (Table.ofPairs (kwargs.map fun kv => (kv.1, kv.2.value))).updateWith dk
    let kw := match columns with
      | Option.none => kw
      | some cs =>
        if kw.length > 0 then Table.ofPairs (cs.map fun k => (k, (kw.col? k).getD [Cell.none]))
        else Table.ofPairs (cs.map fun k => (k, []))
    some (ofCols kw)

/-- concatenation over a given list of keys -/
def concatWith (keys : List String) (rs : List Recs) : Recs :=
  ⟨keys, rs.flatMap fun r => r.rows.map fun row => keys.map fun k => Recs.lookup r.cols row k⟩

end Recs

/-! ### the list-of-records history machine -/

abbrev RHeap := List Recs

def RHeap.put (s : RHeap) (dst : Nat) (r : Recs) : RHeap :=
  if dst < s.length then s.set dst r else s ++ [r]

def RHeap.bind (s : RHeap) (dst : Nat) (r : Except Err Recs) : RHeap × Out :=
  match r with
  | .ok t => (s.put dst t, .unit)
  | .error e => (s, .err e)

def RHeap.query (s : RHeap) (r : Except Err Val) : RHeap × Out :=
  match r with
  | .ok v => (s, .val v)
  | .error e => (s, .err e)

/-- one operation of the history machine on lists of records -/
def specStep (s : RHeap) (op : Op) : RHeap × Out :=
  let withT (h : Nat) (f : Recs → RHeap × Out) : RHeap × Out :=
    match s[h]? with
    | some t => f t
    | Option.none => (s, .badHandle)
  match op with
  | .new dst data columns kwargs =>
      match Recs.construct data columns kwargs with
      | some r => s.bind dst r
      | Option.none => (s, .badHandle)
  | .setitem h k v => withT h fun t =>
      match t.setitem k v with
      | .ok t' => (s.set h t', .unit)
      | .error e => (s, .err e)
  | .delitem h k => withT h fun t =>
      match t.delitem k with
      | .ok t' => (s.set h t', .unit)
      | .error e => (s, .err e)
  | .update h kvs => withT h fun t =>
      match t.update kvs with
      | (t', Option.none) => (s.set h t', .unit)
      | (t', some e) => (s.set h t', .err e)
  | .len h => withT h fun t => s.query (.ok (natVal t.rows.length))
  | .shape h => withT h fun t => s.query (.ok (.tuple [natVal t.rows.length, natVal t.cols.length]))
  | .row h i => withT h fun t => s.query ((t.getRow i).map recVal)
  | .col h k => withT h fun t => s.query ((t.getCol k).map cellsVal)
  | .iter h => withT h fun t => s.query (.ok (.list (t.iter.map recVal)))
  | .tup h ks => withT h fun t => s.query ((t.getTuple ks).map fun rs => .list (rs.map fun r => .tuple (r.map .cell)))
  | .apply h f => withT h fun t => s.query ((t.applyFn f).map cellsVal)
  | .slice dst h a b st => withT h fun t => s.bind dst (t.getSlice a b st)
  | .mask dst h m => withT h fun t => s.bind dst (t.getMaskPlain m)
  | .take dst h is => withT h fun t => s.bind dst (t.take is)
  | .proj dst h ks => withT h fun t => s.bind dst (t.getProj ks)
  | .call dst h consts fns => withT h fun t => s.bind dst (t.call consts fns)
  | .relabel dst h r => withT h fun t => s.bind dst (.ok (t.relabel r.key))
  | .doo dst h f keys => withT h fun t => s.bind dst (t.doCols f keys)
  | .concat dst hs =>
      match hs.mapM fun h => s[h]? with
      | Option.none => (s, .badHandle)
      | some [] => s.bind dst (.ok ⟨[], []⟩)
      | some [_] => (s, .alias (hs.headD 0))
      | some ts => s.bind dst (.ok (Recs.concat ts))
  | .addrec dst h r => withT h fun t =>
      match Recs.construct (.cols (r.map fun kv => (kv.1, .one kv.2))) Option.none [] with
      | some (.ok t2) => s.bind dst (.ok (Recs.concat [t, t2]))
      | some (.error e) => (s, .err e)
      | Option.none => (s, .badHandle)
  | .addnone h => withT h fun _ => (s, .alias h)
  | .copy dst h => withT h fun t => s.bind dst (.ok t)

def specRun (s : RHeap) : List Op → RHeap
  | [] => s
  | op :: ops => specRun (specStep s op).1 ops

/-- the outcomes of a history, line by line -/
def specTrace (s : RHeap) : List Op → List Out
  | [] => []
  | op :: ops => (specStep s op).2 :: specTrace (specStep s op).1 ops

end Pyg
