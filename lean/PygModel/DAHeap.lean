/-
  PygModel.DAHeap — a heap of `dictattr` handles and histories of operations on them
  (src/pyg_base/_dictattr.py), the counterpart of the ulist history machine of `PygModel.USet`.

  Three kinds of operations:
    * operators  `copy  d - k  d - [ks]  d & ks  d + other  d[[ks]]  d.relabel(..)`: allocate a NEW handle
      holding the result (`type(self)(...)` / `copy`), no existing handle is written;
    * in-place   `d[k] = v` (dict.__setitem__), `d.k = v` (`__setattr__` :140-144 = `self[attr] = value`),
      `del d[k]` (`__delitem__` :155-175, `KeyError` if absent), `del d.k` (`__delattr__` :146-153,
      `AttributeError` if absent): write the TARGET handle only;
    * reads      `d[k]`, `d.k` (`__getattr__` :131-138 = `self[attr]`, `KeyError` re-raised as
      `AttributeError`), `d[k1, k2]`, `d.keys()`.
  A failing operation leaves the heap as it was.  `AttributeError` is `Err.other` on the wire.
  Attribute names that start with `_` are private: `d._x = v` writes the instance dict, not the mapping (the instance dict
  itself is not modelled).  A name that is an attribute of the CLASS (`keys`, `items`, `copy`, ... —
  `shadowed`) is found by python's normal attribute lookup before `__getattr__` is asked: `d.keys` is the bound method
  whatever `d['keys']` holds (`Out.method`), while `d.keys = v` and `del d.keys` still go to the item.
  `d + other` is class-aware (`DA.addC`): for `Dict` (class 1) it is `tree_update`.
  A dangling handle cannot be written in Python; the model answers `Err.index` (the driver refuses
  such a line as `bad-op` before it gets here).
-/
import PygModel.USet

namespace Pyg.DAHeap
open Pyg.DA

inductive Op (V : Type) where
  | new (cls : Nat) (items : List (String × V))
  | copy (h : Nat)
  | subK (h : Nat) (k : String)
  | subKs (h : Nat) (ks : List String)
  | andKs (h : Nat) (ks : List String)
  | add (h : Nat) (o : List (String × V))
  | addH (h g : Nat)
  | getL (h : Nat) (ks : List String)
  | relabel (h : Nat) (m : List (String × String))
  | setItem (h : Nat) (k : String) (v : V)
  | setAttr (h : Nat) (k : String) (v : V)
  | delItem (h : Nat) (k : String)
  | delAttr (h : Nat) (k : String)
  | getItem (h : Nat) (k : String)
  | getAttr (h : Nat) (k : String)
  | getT (h : Nat) (ks : List String)
  | keys (h : Nat)

/-- the handle an operation writes in place, if any -/
def Op.target {V : Type} : Op V → Option Nat
  | .setItem h _ _ | .setAttr h _ _ | .delItem h _ | .delAttr h _ => some h
  | _ => none

/-- what an operation returns: a new object (its handle is the old heap size), `None`, or a value -/
inductive Out (V : Type) where
  | obj (handle : Nat) (d : D V)
  | unit
  | val (v : V)
  | vals (vs : List V)
  | keys (ks : List String)
  | method                      -- a bound method of the class (attribute lookup of a shadowed name)

/-- public methods of `dict` -/
def dictNames : List String :=
  ["clear", "copy", "fromkeys", "get", "items", "keys", "pop", "popitem", "setdefault", "update", "values"]
/-- public methods added by `dictattr` (src/pyg_base/_dictattr.py) -/
def dictattrNames : List String := ["relabel", "rename"]
/-- public methods added by `Dict` (src/pyg_base/_dict.py:16-170) -/
def dictNames1 : List String := ["apply", "do", "if_none", "if_else"]

/-- `k` is an attribute of the class (1 = `Dict`, 4 = a subclass of `Dict`, otherwise `dictattr` or a bare subclass of it): normal attribute
lookup finds it and `__getattr__` is never called -/
def shadowed (cls : Nat) (k : String) : Bool :=
  dictNames.contains k || dictattrNames.contains k || (isDictLike cls && dictNames1.contains k)

variable {V : Type}

abbrev Heap (V : Type) := List (D V)

def deref (heap : Heap V) (h : Nat) : Res (D V) :=
  match heap[h]? with
  | some d => pure d
  | none => throw Err.index

def alloc (heap : Heap V) (d : D V) : Heap V × Out V := (heap ++ [d], .obj heap.length d)

/-- `del d[k]`: `KeyError` if absent -/
def delKey (d : D V) (k : String) : Res (D V) :=
  match lookup k d.items with
  | some _ => pure (subKey d k)
  | none => throw Err.key

/-- `KeyError` of the item access becomes `AttributeError` -/
def asAttr {α : Type} : Res α → Res α
  | .error .key => .error .other
  | r => r

def step [TreeAdd V] (heap : Heap V) : Op V → Res (Heap V × Out V)
  | .new cls items => pure (alloc heap ⟨cls, setAll [] items⟩)
  | .copy h => do pure (alloc heap (← deref heap h))
  | .subK h k => do pure (alloc heap (subKey (← deref heap h) k))
  | .subKs h ks => do pure (alloc heap (subKeys (← deref heap h) ks))
  | .andKs h ks => do pure (alloc heap (andKeys (← deref heap h) ks))
  | .add h o => do pure (alloc heap (← addC (← deref heap h) o))
  | .addH h g => do
      let d ← deref heap h
      let o ← deref heap g
      pure (alloc heap (← addC d o.items))
  | .getL h ks => do pure (alloc heap (← getList (← deref heap h) ks))
  | .relabel h m => do pure (alloc heap (relabel (← deref heap h) m))
  | .setItem h k v => do
      let d ← deref heap h
      pure (heap.set h { d with items := set k v d.items }, .unit)
  | .setAttr h k v => do
      let d ← deref heap h
      -- `__setattr__` (:140-144): a private name is an instance attribute, the mapping is not touched
      if k.startsWith "_" then pure (heap.set h d, .unit) else
      pure (heap.set h { d with items := set k v d.items }, .unit)
  | .delItem h k => do
      let d ← deref heap h
      pure (heap.set h (← delKey d k), .unit)
  | .delAttr h k => do
      let d ← deref heap h
      pure (heap.set h (← asAttr (delKey d k)), .unit)
  | .getItem h k => do pure (heap, .val (← getKey (← deref heap h) k))
  | .getAttr h k => do
      let d ← deref heap h
      if shadowed d.cls k then pure (heap, .method) else pure (heap, .val (← asAttr (getKey d k)))
  | .getT h ks => do pure (heap, .vals (← getTuple (← deref heap h) ks))
  | .keys h => do pure (heap, .keys (keys (← deref heap h)))

/-- the heap after an operation; a failing operation changes nothing -/
def exec [TreeAdd V] (heap : Heap V) (op : Op V) : Heap V :=
  match step heap op with
  | .ok (heap', _) => heap'
  | .error _ => heap

def run [TreeAdd V] (ops : List (Op V)) : Heap V := ops.foldl exec []

end Pyg.DAHeap
