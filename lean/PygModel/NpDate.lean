/-
  PygModel.NpDate — model of `dt(np.datetime64)` / `np2dt` (src/pyg_base/_dates.py:257-289, 545-548) and of `dt(pd.Timestamp)`.

  `np2dt` is NOT integer arithmetic in the source: it is `res = t.astype(datetime.datetime)` followed by a dispatch on the
  Python class of `res`.  The dispatch is GENERATED from the source text (`Gen.np2dt : NpRes → NpAct`, lean/PygGen/Np2dt.lean);
  what numpy / pandas do is library behaviour, HAND-MODELLED here as integer arithmetic on the datetime64 value and unit and
  sampled by the correspondence check (ops `np`, `np64`, `pd`):
    * a `datetime64[unit]` is `(value : Int, unit)`: `value` units since 1970-01-01 (calendar months / years for M / Y);
    * `x.astype(datetime.datetime)`: a `datetime.date` for Y, M, W, D, a `datetime.datetime` for h, m, s, ms, us — when the
      instant lies in year 1..9999 — and the plain integer `value` otherwise and for ns (`astypePy`);
    * `np.datetime64(t, unit)` of a datetime `t` floors to the unit (`dt64Of`); for ns the value must fit int64, numpy wraps
      silently otherwise ("not representable": `none`);
    * `pd.Timestamp(x)` of a `datetime64[ns]` is the Timestamp with that nanosecond value; a Timestamp is a `datetime.datetime`
      (so `dt` returns it unchanged) and `==` between a Timestamp and a datetime compares the instants exactly.
  A `pd.Timestamp` is modelled as its instant in NANOSECONDS since 1970-01-01, whatever unit pandas stores it in.
  Not modelled (`none`, reported as bad-op): units finer than ns, NaT, values whose instant is outside year 1..9999 for the units
  other than ns (pandas 3 builds a Timestamp of year 10000+ there), time zones.
  Core Lean only.
-/
import PygModel.DateParse
import PygGen.Np2dt

namespace Pyg.NpDate
open Pyg Pyg.Bump Pyg.DateParse Pyg.Gen

/-- the datetime64 units modelled -/
inductive NpUnit where
  | Y | M | W | D | h | m | s | ms | us | ns
  deriving Repr, DecidableEq, Inhabited

def NpUnit.ofString : String → Option NpUnit
  | "Y" => some .Y | "M" => some .M | "W" => some .W | "D" => some .D | "h" => some .h | "m" => some .m
  | "s" => some .s | "ms" => some .ms | "us" => some .us | "ns" => some .ns | _ => none

/-- microseconds per unit, for the fixed-length units not finer than a microsecond -/
def NpUnit.micros : NpUnit → Option Int
  | .W => some 604800000000 | .D => some 86400000000 | .h => some 3600000000 | .m => some 60000000
  | .s => some 1000000 | .ms => some 1000 | .us => some 1
  | .Y | .M | .ns => none

/-- numpy converts these units to `datetime.date`, the finer ones to `datetime.datetime` -/
def NpUnit.isDateUnit : NpUnit → Bool
  | .Y | .M | .W | .D => true
  | _ => false

structure Dt64 where
  value : Int
  unit : NpUnit
  deriving Repr, DecidableEq, Inhabited

/-- a Python value that shows up on the way -/
inductive PyTime where
  /-- a naive `datetime.datetime`: microseconds since 0001-01-01 -/
  | datetime (us : Int)
  /-- a `datetime.date`: its midnight, in microseconds since 0001-01-01 -/
  | date (us : Int)
  /-- a plain `int` -/
  | int (v : Int)
  /-- a `pandas.Timestamp`: its instant in nanoseconds since 1970-01-01 -/
  | stamp (ns : Int)
  deriving Repr, DecidableEq, Inhabited

/-- the class the `isinstance` tests of `np2dt` see (`pd.Timestamp` is a subclass of `datetime.datetime`) -/
def PyTime.cls : PyTime → NpRes
  | .datetime _ => .datetime
  | .date _ => .date
  | .int _ => .int
  | .stamp _ => .datetime

/-- the instant of a datetime-like value in nanoseconds since 0001-01-01 (what `==` between datetimes and Timestamps compares) -/
def PyTime.instantNs : PyTime → Option Int
  | .datetime t => some (1000 * t)
  | .stamp n => some (1000 * EPOCH + n)
  | _ => none

/-- Python's `x == t` for a datetime-like `x` and a naive datetime `t` (microseconds since 0001-01-01) -/
def PyTime.eqDatetime (x : PyTime) (t : Int) : Prop := x.instantNs = some (1000 * t)

instance (x : PyTime) (t : Int) : Decidable (x.eqDatetime t) := by unfold PyTime.eqDatetime; infer_instance

/-- the start of the unit interval `x` denotes, in microseconds since 0001-01-01, when it lies in year 1..9999 (`none` for ns) -/
def Dt64.instant (x : Dt64) : Option Int :=
  match x.unit with
  | .Y =>
    let y := 1970 + x.value
    if 1 ≤ y ∧ y ≤ 9999 then some (mkDate y.toNat 1 1) else none
  | .M =>
    let y := 1970 + x.value / 12
    let m := x.value % 12 + 1
    if 1 ≤ y ∧ y ≤ 9999 then some (mkDate y.toNat m.toNat 1) else none
  | .ns => none
  | u =>
    match u.micros with
    | some k =>
      let t := EPOCH + x.value * k
      if 0 ≤ t ∧ t < MAXUS then some t else none
    | none => none

/-- numpy: `x.astype(datetime.datetime)` -/
def astypePy (x : Dt64) : PyTime :=
  match x.instant with
  | some t => if x.unit.isDateUnit then .date t else .datetime t
  | none => .int x.value

/-- `pd.Timestamp(x)` for a `datetime64[ns]` that is not NaT (NaT is the smallest int64); other units: not modelled -/
def Dt64.toStamp (x : Dt64) : Option Int :=
  if x.unit = .ns ∧ -9223372036854775808 < x.value ∧ x.value < 9223372036854775808 then some x.value else none

/-- `np2dt(x)` (lines 282-289): the generated class dispatch applied to numpy's conversion -/
def np2dt (x : Dt64) : Option PyTime :=
  let r := astypePy x
  match Gen.np2dt r.cls with
  | .same => some r
  | .midnight =>
    match r with
    | .datetime t | .date t => some (.datetime (dropTime t))   -- datetime.datetime(res.year, res.month, res.day)
    | _ => none                                                -- an int has no `.year`
  | .pdTimestamp => x.toStamp.map .stamp

/-- `dt(x)` for a datetime64 (lines 545-548, 560-561): `np2dt(x)`, which must be a datetime for the rest of `dt` to return it as
it is (`reduce(dt_bump, [], t)`) -/
def dtNp (x : Dt64) : Option PyTime :=
  match np2dt x with
  | some (.datetime t) => some (.datetime t)
  | some (.stamp n) => some (.stamp n)
  | _ => none

/-- numpy: `np.datetime64(t, unit)` for a naive datetime `t` (the spelling the property quantifies over) — floor to the unit;
`none` = the nanosecond count does not fit int64 (numpy wraps it around silently: no datetime64[ns] of that instant exists) -/
def dt64Of (t : Int) (u : NpUnit) : Option Dt64 :=
  match u with
  | .Y => some ⟨((ymdOf t).y : Int) - 1970, .Y⟩
  | .M => some ⟨(((ymdOf t).y : Int) - 1970) * 12 + (((ymdOf t).m : Int) - 1), .M⟩
  | .ns =>
    let v := (t - EPOCH) * 1000
    if -9223372036854775808 < v ∧ v < 9223372036854775808 then some ⟨v, .ns⟩ else none
  | u =>
    match u.micros with
    | some k => some ⟨(t - EPOCH) / k, u⟩
    | none => none

/-- `dt(np.datetime64(t, unit))` -/
def dtOfNp (t : Int) (u : NpUnit) : Option PyTime := (dt64Of t u).bind dtNp

/-- `pd.Timestamp(t)` of a naive datetime: the same instant (pandas 3 stores it in microseconds, so every datetime has one) -/
def stampOf (t : Int) : PyTime := .stamp ((t - EPOCH) * 1000)

/-- `dt(x)` for a `pd.Timestamp` (lines 560-561): a Timestamp is a `datetime.datetime`, `reduce(dt_bump, [], x)` is `x` itself -/
def dtStamp (x : PyTime) : Option PyTime :=
  match x with
  | .stamp n => some (.stamp n)
  | _ => none

/-- `ymd(x)` for a datetime-like value: `datetime.datetime(x.year, x.month, x.day)`; a Timestamp's fields are those of its instant
floored to the microsecond -/
def ymdPy : PyTime → Option Int
  | .datetime t => some (dropTime t)
  | .stamp n => some (dropTime (EPOCH + n / 1000))
  | _ => none

/-- the wire form of a datetime-like result: `T:<us>` when it is a whole number of microseconds, else `(L T:<us> I:<nanos>)` -/
def render : PyTime → Option String
  | .datetime t => some s!"ok T:{t}"
  | .stamp n =>
    let t := EPOCH + n / 1000
    if n % 1000 = 0 then some s!"ok T:{t}" else some s!"ok (L T:{t} I:{n % 1000})"
  | _ => none

end Pyg.NpDate
