/- line-protocol handlers for the Join model (C02):
   (join join <x> <y> <lcols> <rcols> <mode> [spelling])   -> ok (T <result> <x> <y>)
   (join xor  <x> <y> <lcols> <rcols> <mode> [spelling])   -> ok (T <result> <x> <y>)
   (join listby <keys>)                                     -> ok (L (T key (L ids))*)
   tables  `(D (hexcol (L cell*))*)`;  lcols/rcols  `N | (L spec*)`, spec = `S:hex` | `(fn id S:hex)` |
   `(fn dbl S:hex)` | `(fn const)`;  mode `mN | ml0 | mlS | mlL | mr1 | mrS | mrR | (mv <cell>) | (mf fst|snd|swap|lst)`.
   The trailing spelling atom (how lcols/rcols are written in Python: str / list / tuple) is ignored
   by the model: `as_tuple` normalises it. -/
import PygModel.Join

namespace Pyg.JoinDriver
open Pyg

abbrev St := Unit
def init : St := ()
def modelName : String := "join"

def lookupArg (row : RowDict) (k : String) : Res Cell :=
  match row.find? (·.1 == k) with
  | some kv => .ok kv.2
  | none => .error .type     -- `f()` missing a required argument

/-- the named callables the harness uses for `lcols` / `rcols` -/
def rowFn (name : String) (arg : Option String) : Option (RowDict → Res Val) :=
  match name, arg with
  | "id", some k => some fun row => do let v ← lookupArg row k; pure (.cell v)
  | "const", Option.none => some fun _ => .ok (.cell (.int 0))
  | "dbl", some k => some fun row => do
      match ← lookupArg row k with
      | .int n => pure (.cell (.int (2 * n)))
      | .flt q => pure (.cell (.flt (2 * q)))
      | .nan => pure (.cell .nan)
      | .pinf => pure (.cell .pinf)
      | .ninf => pure (.cell .ninf)
      | .str s => pure (.cell (.str (s ++ s)))
      | .bool b => pure (.cell (.int (if b then 2 else 0)))
      | .none | .dt _ => .error .type
  | _, _ => Option.none

def strOf : Sexp → Option String
  | .atom s => match Cell.parse s with
    | some (.str k) => some k
    | _ => Option.none
  | _ => Option.none

def specOf : Sexp → Option KeySpec
  | .node [.atom "fn", .atom name] => (rowFn name Option.none).map .fn
  | .node [.atom "fn", .atom name, a] => do
      let k ← strOf a
      (rowFn name (some k)).map .fn
  | s => (strOf s).map .col

def specsOf : Sexp → Option (Option (List KeySpec))
  | .atom "N" => some Option.none
  | .node (.atom "L" :: xs) => (xs.mapM specOf).map some
  | _ => Option.none

/-- the python value a mode atom stands for.  The legacy atoms are the table `PY_MODES` of harness/pv/props/c02.py
(`mN` None, `ml0` 0, `mlS` 'l', `mlL` 'left', `mr1` 1, `mrS` 'r', `mrR` 'RHS'); `(mv <cell atom>)` carries ANY scalar
(`True`, `1.0`, `'Left'`, `'x'`, `2`, …); `(mf name)` a callable of the menu.  What the value MEANS is decided by
`Mode.ofPy` / `Mode.xorOfPy` of the model (theorems `mode_left_iff` … in Props/C02.lean), not here. -/
def pyModeOf : Sexp → Option PyMode
  | .atom s =>
    if s == "mN" then some (.val .none)
    else if s == "ml0" then some (.val (.int 0))
    else if s == "mlS" then some (.val (.str "l"))
    else if s == "mlL" then some (.val (.str "left"))
    else if s == "mr1" then some (.val (.int 1))
    else if s == "mrS" then some (.val (.str "r"))
    else if s == "mrR" then some (.val (.str "RHS"))
    else Option.none
  | .node [.atom "mv", .atom a] => (Cell.parse a).map .val
  | .node [.atom "mf", .atom f] =>
    if f == "fst" then some (.fn fun a _ => .cell a)
    else if f == "snd" then some (.fn fun _ b => .cell b)
    else if f == "swap" then some (.fn fun a b => .tuple [.cell b, .cell a])
    else if f == "lst" then some (.fn fun a b => .list [.cell a, .cell b])
    else Option.none
  | _ => Option.none

def modeOf (s : Sexp) : Option Mode := (pyModeOf s).bind Mode.ofPy

def xorModeOf (s : Sexp) : Option Nat := (pyModeOf s).bind Mode.xorOfPy

def vtableVal (t : VTable) : Val := .dict (t.map fun c => (c.1, .list c.2))

def reply3 (r : Res Val) (x y : Table) : String :=
  match r with
  | .ok v => "ok " ++ (Val.tuple [v, x.toVal, y.toVal]).render
  | .error e => "err " ++ e.render

def natList (xs : List Nat) : Val := .list (xs.map fun (i : Nat) => .cell (.int (Int.ofNat i)))

def handle1 (op : String) (args : List Sexp) : Option String := do
  match op, args with
  | "join", x :: y :: lc :: rc :: m :: _ =>
      let x ← Table.ofVal (← Val.ofSexp x)
      let y ← Table.ofVal (← Val.ofSexp y)
      let lc ← specsOf lc; let rc ← specsOf rc; let m ← modeOf m
      let r ← join x y lc rc m
      pure (reply3 (r.map vtableVal) x y)
  | "xor", x :: y :: lc :: rc :: m :: _ =>
      let x ← Table.ofVal (← Val.ofSexp x)
      let y ← Table.ofVal (← Val.ofSexp y)
      let lc ← specsOf lc; let rc ← specsOf rc; let m ← xorModeOf m
      pure (reply3 ((xor x y lc rc m).map Table.toVal) x y)
  | "listby", [keys] =>
      match ← Val.ofSexp keys with
      | .list ks => pure ("ok " ++ (Val.list ((listbyG ks).map fun g => .tuple [g.1, natList g.2])).render)
      | _ => Option.none
  | _, _ => Option.none

def handle (s : St) (op : String) (args : List Sexp) : Option (St × String) :=
  (handle1 op args).map fun r => (s, r)

end Pyg.JoinDriver
