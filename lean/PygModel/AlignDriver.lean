/- line-protocol handler for the Align model (C03).
   tree   : (ts <series>) | (df <frame>) | (arr (L cell*)) | (o <value>) | (pi T:<t>*) | (L tree*) | (T tree*) | (D (<hexkey> tree)*)
            (pi ..) is a pd.Index object as a MEMBER: no timeseries, passes through
   how    : ij | oj | lj | rj          colhow : ij | oj | lj | rj | N
   method : N | ffill | bfill | (M m*) | (MT m*) | (M1 m)    method lists / numeric methods as in FillDriver
   limit  : N | I:<k>                  (only df_reindex has one)
   join   : <how> | (X T:<t>*) | (XS T:<t>*) | (XD T:<t>*)   explicit index given as pd.Index / as a Series / as dict(index=..)
   ops    : (align sync <tree> <join> <method> <colhow>)  (align reindex <tree> <join>|(N I:<n>) <method> [<limit>])
            (align presyncw (T <tree> <tree>) I:<k> <ij|oj|lj|rj> <word|attr|default> <method>)   presync(lambda <names k>: ..)(a, b) with the policy as a WORD / attribute;
            (align presyncn (T <tree>*) (D (<hexkey> <tree>)*) <hexname> <method>)   presync(f)(*args, join=<name of a parameter of f>, **kwargs);
                                                                                      the positional arguments bind to p0, p1, ...
            (align index <tree> <how>)                    (align presync <tree> <how> <method>)
            (align presynck (T <tree>*) (D (<hexkey> <tree>)*) <join> <method>)     presync(f)(*args, columns=False, **kwargs) -/
import PygModel.Align
import PygModel.FillDriver

namespace Pyg.AlignDriver
open Pyg Pyg.Fill Pyg.Align Pyg.FillDriver

partial def treeOf : Sexp → Option Tree
  | .node [.atom "ts", x] => do
      let ts ← TS.ofVal (← Val.ofSexp x)
      pure (.leaf (.ts true (ofTS ts)))
  | .node [.atom "df", x] => do
      let f ← frameOfVal (← Val.ofSexp x)
      pure (.leaf (.ts false f))
  | .node [.atom "arr", x] => do
      let c ← colOfVal (← Val.ofSexp x)
      pure (.leaf (.arr c))
  | .node [.atom "o", x] => do
      let v ← Val.ofSexp x
      pure (.leaf (.other v))
  | .node (.atom "pi" :: ts) => do
      let ts ← ts.mapM fun t => match t with
        | .atom s => if s.startsWith "T:" then (s.drop 2).toString.toInt? else Option.none
        | _ => Option.none
      pure (.leaf (.other (.dict [("pd.Index", .list (ts.map fun t => .cell (.dt t)))])))
  | .node (.atom "L" :: xs) => do
      let ks ← xs.mapM treeOf
      pure (.node .list (ks.map fun t => ("", t)))
  | .node (.atom "T" :: xs) => do
      let ks ← xs.mapM treeOf
      pure (.node .tuple (ks.map fun t => ("", t)))
  | .node (.atom "D" :: kvs) => do
      let ks ← kvs.mapM fun kv => match kv with
        | .node [.atom k, v] => do
            let k ← hexDecode k
            let t ← treeOf v
            pure (k, t)
        | _ => Option.none
      pure (.node .dict ks)
  -- review v4 2.1: `DS` = an instance of a user SUBCLASS of dict, `DD` = a `collections.defaultdict`.  The statement knows one
  -- kind of dict ("nested list/dict arguments"), so does the model: both are read as a dict, and the reply spells a plain `D`
  -- (the harness checks on the implementation's side that the container comes back as an instance of the SAME class).
  | .node (.atom "DS" :: kvs) => treeOf (.node (.atom "D" :: kvs))
  | .node (.atom "DD" :: kvs) => treeOf (.node (.atom "D" :: kvs))
  | _ => Option.none

partial def treeTo : Tree → Sexp
  | .leaf (.ts true f) => .node [.atom "ts", (TS.toVal (toTS f)).toSexp]
  | .leaf (.ts false f) => .node [.atom "df", (frameToVal f).toSexp]
  | .leaf (.arr c) => .node [.atom "arr", (colToVal c).toSexp]
  | .leaf (.other v) =>
    match asPdIndex v with
    | some ix => .node (.atom "pi" :: ix.map fun t => .atom s!"T:{t}")
    | Option.none => .node [.atom "o", v.toSexp]
  | .node .list ks => .node (.atom "L" :: ks.map fun k => treeTo k.2)
  | .node .tuple ks => .node (.atom "T" :: ks.map fun k => treeTo k.2)
  | .node .dict ks => .node (.atom "D" :: ks.map fun k => .node [.atom (hexEncode k.1), treeTo k.2])

def howOf : Sexp → Option How
  | .atom "ij" => some .inner
  | .atom "oj" => some .outer
  | .atom "lj" => some .left
  | .atom "rj" => some .right
  | _ => Option.none

def dirOf : Sexp → Option (Option Dir)
  | .atom "N" => some Option.none
  | .atom "ffill" => some (some .ffill)
  | .atom "bfill" => some (some .bfill)
  | _ => Option.none

/-- `method`: nothing, one word, or a list / tuple / bare method in the spelling of the Fill driver; the flag says whether it
is a BARE method (`loops` splits only lists / tuples over a container) -/
def methodsOfA : Sexp → Option (Bool × List Method)
  | .atom "N" => some (true, [])
  | .atom "ffill" => some (true, [.ffill])
  | .atom "bfill" => some (true, [.bfill])
  | s@(.node (.atom h :: _)) => (methodsOf s).map fun ms => (h == "M1", ms)
  | _ => Option.none

def colHowOf : Sexp → Option (Option How)
  | .atom "N" => some Option.none
  | s => (howOf s).map some

def timeOf : Sexp → Option Int
  | .atom s => if s.startsWith "T:" then (s.drop 2).toString.toInt? else Option.none
  | _ => Option.none

/-- an explicit index in one of its three spellings -/
def explicitOf : Sexp → Option (List Int)
  | .node (.atom h :: ts) => if h = "X" || h = "XS" || h = "XD" then ts.mapM timeOf else Option.none
  | _ => Option.none

def joinOf (s : Sexp) : Option Join :=
  match howOf s with
  | some h => some (.how h)
  | Option.none => (explicitOf s).map .explicit

def replyTree (r : Res Tree) : String :=
  match r with
  | .ok t => "ok " ++ (treeTo t).render
  | .error e => "err " ++ e.render

abbrev St := Unit
def init : St := ()
def modelName : String := "align"

def replyPair (r : Res (Tree × Tree)) : String :=
  replyTree (r.map fun r => .node .tuple [("", r.1), ("", r.2)])

def reindexOp (t ix m lim : Sexp) : Option String := do
  let t ← treeOf t; let ms ← methodsOfA m; let lim ← limitOf lim
  match ix with
  | .node [.atom "N", .atom n] =>
      -- `df_reindex(arrays, n)`: an explicit common length
      let n ← if n.startsWith "I:" then (n.drop 2).toString.toNat? else Option.none
      pure (replyTree (reindexTreeM (.len n) ms.1 ms.2 lim t))
  | .node (.atom _ :: _) =>
      let idx ← explicitOf ix
      pure (replyTree (reindexTreeM (.times idx) ms.1 ms.2 lim t))
  | _ =>
      let how ← howOf ix
      -- `df_reindex(ts, 'oj')`: `df_index(ts, how)` flattens with `_list` (a top-level tuple is not opened)
      pure (replyTree (reindexTreeM (dfIndex how t.flat) ms.1 ms.2 lim t))

def handle1 (op : String) (args : List Sexp) : Option String := do
  match op, args with
  | "sync", [t, j, m, ch] =>
      let t ← treeOf t; let j ← joinOf j; let ms ← methodsOfA m; let ch ← colHowOf ch
      pure (replyTree (syncJM j ms.1 ms.2 ch t))
  | "presynck", [a, k, j, m] =>
      let a ← treeOf a; let k ← treeOf k; let j ← joinOf j; let ms ← methodsOfA m
      match a, k with
      | .node .tuple aks, .node .dict kks => pure (replyPair (presyncCallM j ms.1 ms.2 aks kks))
      | _, _ => Option.none
  | "presyncn", [a, k, .atom name, m] =>
      let a ← treeOf a; let k ← treeOf k; let name ← hexDecode name; let ms ← methodsOfA m
      match a, k with
      | .node .tuple aks, .node .dict kks =>
          let pnames := (List.range aks.length).map fun i => s!"p{i}"
          let r ← presyncNamed name ms.1 ms.2 pnames aks kks
          pure (replyPair r)
      | _, _ => Option.none
  | "presync", [t, how, m] =>
      let t ← treeOf t; let how ← howOf how; let ms ← methodsOfA m
      pure (replyTree (reindexTreeM (dfIndex how t.flatTop) ms.1 ms.2 Option.none t))
  -- the same call through a function whose PARAMETERS are named like policy words (`left`, `right`, `inner`, `outer`), the
  -- policy given as the word (`join='left'`), through the attribute (`.lj`) or left at its default: the statement knows the
  -- policy only ("first ... of the input indices for ... left ... joins"), the names of the parameters do not matter
  | "presyncw", [t, _, how, _, m] =>
      let t ← treeOf t; let how ← howOf how; let ms ← methodsOfA m
      pure (replyTree (reindexTreeM (dfIndex how t.flatTop) ms.1 ms.2 Option.none t))
  | "reindex", [t, ix, m] => reindexOp t ix m (.atom "N")
  | "reindex", [t, ix, m, lim] => reindexOp t ix m lim
  | "index", [t, how] =>
      let t ← treeOf t; let how ← howOf how
      match dfIndex how t.flat with
      | .times ix => pure ("ok " ++ (Val.list (ix.map fun x => .cell (.dt x))).render)
      | .len n => pure s!"ok I:{n}"
      | .none => pure "ok N"
  | _, _ => Option.none

def handle (s : St) (op : String) (args : List Sexp) : Option (St × String) :=
  (handle1 op args).map fun r => (s, r)

end Pyg.AlignDriver
