/- line-protocol handler for the Calendar model (C05).  Day numbers travel as plain integer atoms. -/
import PygModel.Calendar

namespace Pyg.CalendarDriver
open Pyg Pyg.Calendar

/-- `tbl` caches `cur.bdays`: it is written only together with `cur` (ops `new`, `reg`), so
`c.addT tbl … = c.add …` etc. hold by definition (`Cal.add c = c.addT c.bdays`); the cache merely avoids rebuilding
the table for every request -/
structure State where
  cur : Option Cal := none
  tbl : List Int := []
  /-- the module registry `calendars`: OBJECTS, each with its lazily built table (round k3) -/
  oreg : ObjRegistry := []
  /-- the current calendar is the object the registry holds under this key (`none`: it was built by a `new*` line) -/
  curKey : Option String := none

abbrev St := State
def init : St := {}
def modelName : String := "cal"

def intList : Sexp → Option (List Int)
  | .node (.atom "L" :: xs) => xs.mapM Sexp.toInt?
  | s => s.toInt?.map fun n => [n]      -- a scalar where a list is expected: `as_list` (weekend = 6)

def optIntList : Sexp → Option (Option (List Int))
  | .atom "N" => some none
  | s => (intList s).map some

def optInt : Sexp → Option (Option Int)
  | .atom "N" => some none
  | s => s.toInt?.map some

/-- `adj = (adj or self.adj or 'm').lower()` and then `startswith('f'/'p'/'m')` (_drange.py:542-558): only the first
letter of the spelling counts, in either case (`'F'`, `'following'`, `'Previous'`, `'modified'`) -/
def adjOf (c : Cal) : Sexp → Option Adj
  | .atom "d" => some c.adj      -- adj = None: the calendar's own convention
  | .atom s =>
      match s.toLower.toList.head? with
      | some 'f' => some .f
      | some 'p' => some .p
      | some 'm' => some .m
      | _ => none
  | _ => none

def okInt (n : Int) : String := s!"ok I:{n}"
def renderInts (xs : List Int) : String := "(L" ++ String.join (xs.map fun x => s!" I:{x}") ++ ")"
def okBool (b : Bool) : String := if b then "ok B:1" else "ok B:0"

def resInt : Res Int → String
  | .ok n => okInt n
  | .error e => "err " ++ e.render

def resInts : Res (List Int) → String
  | .ok xs => "ok " ++ renderInts xs
  | .error e => "err " ++ e.render

def renderAns : Ans → String
  | .bool b => okBool b
  | .day r => resInt r
  | .days r => resInts r
  | .idx (.ok i) => okInt i
  | .idx (.error e) => "err " ++ e.render

/-- every weekday a weekend day: the real `adjust` never returns; not served -/
def degenerate (weekend : List Int) : Bool := (List.range 7).all fun d => weekend.contains (d : Int)

def describe (c : Cal) : String :=
  "ok (T " ++ renderInts c.hol ++ " " ++ renderInts c.weekend ++ s!" I:{c.t0} I:{c.t1})"

def handleCore (s : St) (op : String) (args : List Sexp) : Option (St × String) := do
  match op, args with
  -- every `new*` line goes through `mkCalT`, the constructor that FLOORS the instants it is handed (the object boundary, C05-D2/D3):
  -- `new`:  holidays and range endpoints are midnight datetimes (`day * DAYUS`)
  -- `newd`: the caller handed the holidays over as `datetime.date` (even positions: midnight) / datetimes at 09:30 (odd positions)
  -- `newt`: the caller handed the range endpoints over with a time of day (t0 at 09:00, t1 at 17:30)
  -- `newo`: t0, t1 and the holidays are given as instants (µs = ordinal * DAYUS + time of day), any time of day
  | "new", [t0, t1, we, hol, adj] | "newd", [t0, t1, we, hol, adj] | "newt", [t0, t1, we, hol, adj] | "newo", [t0, t1, we, hol, adj] =>
      let t0 ← t0.toInt?; let t1 ← t1.toInt?; let we ← intList we; let hol ← intList hol
      if degenerate we then none
      let (t0, t1) := if op = "newo" then (t0, t1) else if op = "newt" then (t0 * DAYUS + 32400000000, t1 * DAYUS + 63000000000)
                      else (t0 * DAYUS, t1 * DAYUS)
      let hol := if op = "newo" then hol else if op = "newd" then hol.zipIdx.map fun (h, i) => h * DAYUS + (if i % 2 = 0 then 0 else 34200000000)
                 else hol.map (· * DAYUS)
      let c0 : Cal := mkCalT ymKey { hol := some hol, weekend := some we, t0 := some t0, t1 := some t1 }
      let a ← adjOf c0 adj
      let c : Cal := { c0 with adj := a }
      pure ({ s with cur := some c, tbl := c.bdays, curKey := none }, "ok N")
  | "reg", [.atom k, hol, we, t0, t1] =>
      let hol ← optIntList hol; let we ← optIntList we; let t0 ← optInt t0; let t1 ← optInt t1
      if degenerate (we.getD []) then none
      -- `calendar(k, ...)`: the registry OBJECT (a new one, without a table, when the key is unknown or an argument is given); the
      -- operations that follow are operations on that object (`ObjRegistry.useAt`): they read and build ITS table
      let (r, o) := s.oreg.calendar ymKey k { hol, weekend := we, t0, t1 }
      pure ({ cur := some o.cal, tbl := [], oreg := r, curKey := some k }, describe o.cal)
  | "ymd", [n] =>
      let n ← n.toInt?
      let (y, m, d) := Civil.ymd n
      pure (s, s!"ok (T I:{y} I:{m} I:{d} I:{Civil.wd n})")
  | _, _ =>
    let c ← s.cur
    match s.curKey with
    | some k =>
      -- the current calendar is a registry object: every operation goes through the object model
      if op = "ishol" then
        match args with
        | [t] => let t ← t.toInt?; pure (s, okBool (c.isHol t))
        | _ => none
      else
      let u : Use ← (match op, args with
        | "isb", [t] => do let t ← t.toInt?; pure (Use.isb t)
        | "adjust", [a, t] => do let a ← adjOf c a; let t ← t.toInt?; pure (Use.adjust a t)
        | "add", [a, t, n] | "bump", [a, t, n] => do let a ← adjOf c a; let t ← t.toInt?; let n ← n.toInt?; pure (Use.add a t n)
        | "bdays", [a, x, y] => do let a ← adjOf c a; let x ← x.toInt?; let y ← y.toInt?; pure (Use.bdays a x y)
        | "drange", [x, y, b] => do let x ← x.toInt?; let y ← y.toInt?; let b ← b.toInt?; pure (Use.drange x y b)
        | "clock", [t] => do let t ← t.toInt?; pure (Use.clock t)
        | _, _ => none)
      match op, u with
      | _, .add a t n =>
        if n = 0 && c.isHol (c.adjust a t) then pure (s, "err Other")   -- real code: endless loop
        else
          let (r, ans) := s.oreg.useAt ymKey k u
          pure ({ s with oreg := r }, renderAns ans)
      | _, _ =>
        let (r, ans) := s.oreg.useAt ymKey k u
        pure ({ s with oreg := r }, renderAns ans)
    | none =>
    match op, args with
    | "isb", [t] => let t ← t.toInt?; pure (s, okBool (c.isB t))
    | "ishol", [t] => let t ← t.toInt?; pure (s, okBool (c.isHol t))
    | "adjust", [a, t] => let a ← adjOf c a; let t ← t.toInt?; pure (s, okInt (c.adjust a t))
    | "add", [a, t, n] | "bump", [a, t, n] =>   -- Calendar.dt_bump(t, 'nb', adj) is add(t, n, adj) (_drange.py:590-595)
        let a ← adjOf c a; let t ← t.toInt?; let n ← n.toInt?
        if n = 0 && c.isHol (c.adjust a t) then pure (s, "err Other")   -- real code: endless loop
        else pure (s, resInt (c.addT s.tbl a t n))
    | "clock", [t] =>     -- Calendar.clock(t) = dt2int.get(t, dt2int[adjust(t)]) (_drange.py:615-618): the table index of adjust(t)
        let t ← t.toInt?
        pure (s, match c.clockT s.tbl t with
                 | .ok i => okInt i
                 | .error e => "err " ++ e.render)
    | "bdays", [a, x, y] =>
        let a ← adjOf c a; let x ← x.toInt?; let y ← y.toInt?
        pure (s, resInt (c.bdaysBetweenT s.tbl a x y))
    | "drange", [x, y, b] =>
        let x ← x.toInt?; let y ← y.toInt?; let b ← b.toInt?
        pure (s, resInts (c.drangeBT s.tbl x y b))
    | _, _ => none

/-- `(cal addnp a t <numpy type> n)`: `add(t, n, a)` with the day count held by a numpy integer of the named width (an integer read from an
array; `is_int` admits np.int8 … np.uint64): an integer is an integer - the same answer as `(cal add a t n)` (defect C05-D4, review5 w3 §2-3) -/
def handle (s : St) (op : String) (args : List Sexp) : Option (St × String) :=
  match op, args with
  | "addnp", [a, t, _, n] => handleCore s "add" [a, t, n]
  | _, _ => handleCore s op args

end Pyg.CalendarDriver
