/- line-protocol handlers for the dt / ymd / dt2str model -/
import PygModel.DateParse
import PygModel.NpDate

namespace Pyg.DateParseDriver
open Pyg Pyg.Bump Pyg.DateParse Pyg.NpDate

abbrev St := Unit
def init : St := ()
def modelName : String := "dt"

def cellOf : Sexp → Option Cell
  | .atom s => Cell.parse s
  | _ => none

def intOf (x : Sexp) : Option Int := match cellOf x with
  | some (.int n) => some n
  | _ => none

def timeOf (x : Sexp) : Option Int := match cellOf x with
  | some (.dt n) => some n
  | _ => none

def strOf (x : Sexp) : Option String := match cellOf x with
  | some (.str s) => some s
  | _ => none

/-- the quarter-units of a numeric cell: ints are `4*i`, floats `q` -/
def quartersOf (x : Sexp) : Option Int := match cellOf x with
  | some (.int n) => some (4 * n)
  | some (.flt q) => some q
  | _ => none

/-- the value of one `dt(...)` call; `none` = not covered by the model -/
def eval (op : String) (args : List Sexp) : Option (Res Int) := do
  match op, args with
  -- `npnum kind x`: the same number handed over as a numpy scalar (np.int64 / np.int32 / np.float64 / np.float32 of a value the
  -- type holds exactly): a number is a number, `is_num` admits these types (defect C04-D5)
  | "num", [x] | "npnum", [_, x] =>
      match num2dtQ (← quartersOf x) with
      | .abs r => pure r
      | .rel _ => none
  -- `npymd <ky> <km> <kd> y m d [h mi s]`: the same parts, each held by a python int (`int`) or a numpy integer of the named width
  -- (np.int8 … np.int64, which must hold the value): an integer is an integer (`is_int` admits them; defect C04-D7)
  | "npymd", [_, _, _, y, m, d] => pure (dtYmd (← intOf y) (← intOf m) (← intOf d) 0 0 0)
  | "npymd", [_, _, _, y, m, d, h, mi, s] => pure (dtYmd (← intOf y) (← intOf m) (← intOf d) (← intOf h) (← intOf mi) (← intOf s))
  | "ym", [y, m] => pure (dtYm (← intOf y) (← intOf m))
  | "ymd", [y, m, d] => pure (dtYmd (← intOf y) (← intOf m) (← intOf d) 0 0 0)
  | "ymd", [y, m, d, h] => pure (dtYmd (← intOf y) (← intOf m) (← intOf d) (← intOf h) 0 0)
  | "ymd", [y, m, d, h, mi] => pure (dtYmd (← intOf y) (← intOf m) (← intOf d) (← intOf h) (← intOf mi) 0)
  | "ymd", [y, m, d, h, mi, s] => pure (dtYmd (← intOf y) (← intOf m) (← intOf d) (← intOf h) (← intOf mi) (← intOf s))
  | "ymd", [y, m, d, h, mi, s, us] =>
      pure (dtYmd7 (← intOf y) (← intOf m) (← intOf d) (← intOf h) (← intOf mi) (← intOf s) (← intOf us))
  | "ts", [t] => pure (checkRange (← timeOf t))
  | "date", [t] =>                        -- dt(<datetime.date>): rebuilt from its fields
      let t ← timeOf t
      if 0 ≤ t ∧ t < MAXUS then pure (dtDate t) else none
  | "str", [.atom d, s] => dtStrD d (← strOf s)    -- the dialect verbatim: 'uk', 'UK', 'Uk', 'us', 'US', ... (C04-D6)
  | "rt", [t] => dtStr true (dt2str (← timeOf t))
  | _, _ => none

/-- `dt(...)` of a numpy / pandas timestamp: a datetime-like Python value (PygModel/NpDate.lean) -/
def evalPy (op : String) (args : List Sexp) : Option PyTime := do
  match op, args with
  | "np", [u, t] =>                       -- dt(np.datetime64(t, unit)) for a datetime t
      let t ← timeOf t
      if 0 ≤ t ∧ t < MAXUS then dtOfNp t (← NpUnit.ofString (← strOf u)) else none
  | "np64", [u, v] => dtNp ⟨← intOf v, ← NpUnit.ofString (← strOf u)⟩      -- dt(np.datetime64(value, unit)) for a raw int64
  | "pd", [t] =>                          -- dt(pd.Timestamp(t))
      let t ← timeOf t
      if 0 ≤ t ∧ t < MAXUS then dtStamp (stampOf t) else none
  | "pdns", [n] => dtStamp (.stamp (← intOf n))                              -- dt(pd.Timestamp(<nanoseconds since 1970>))
  | _, _ => none

def isPyOp (op : String) : Bool := op = "np" || op = "np64" || op = "pd" || op = "pdns"

def reply : Res Int → String
  | .ok t => s!"ok T:{t}"
  | .error e => "err " ++ e.render

def handle1 (op : String) (args : List Sexp) : Option String := do
  match op, args with
  | "dt2str", [t] => pure ("ok " ++ (Cell.str (dt2str (← timeOf t))).render)
  | "numrel", [x] | "npnumrel", [_, x] =>
      match num2dtQ (← quartersOf x) with
      | .rel us => pure s!"ok I:{us}"
      | .abs r => pure ("ok (L " ++ reply r ++ ")")
  | _, _ =>
    if op.startsWith "ymd/" then
      let op' := (op.drop 4).toString
      if isPyOp op' then (evalPy op' args).bind fun x => (ymdPy x).map fun t => reply (.ok t)
      else (eval op' args).map fun r => reply (r.map dropTime)
    else if isPyOp op then (evalPy op args).bind render
    else (eval op args).map reply

def handle (s : St) (op : String) (args : List Sexp) : Option (St × String) :=
  (handle1 op args).map fun r => (s, r)

end Pyg.DateParseDriver
