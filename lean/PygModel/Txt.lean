/-
  PygModel.Txt — the simplest text leaf functions of src/pyg_base/_txt.py on ASCII strings, so that `lower`,
  `upper`, `strip` are CLOSED models (model of the lifting + model of the leaf) instead of "the harness applies
  the library's leaf function to the leaf calls the model predicts":

      _lower(text) = text.lower() if is_str(text) else text          (_txt.py:19-21)
      _upper(text) = text.upper() if is_str(text) else text          (_txt.py:25-27)
      _strip(text, chars = None) = text.strip(chars) if is_str(text) else text   (_txt.py:78-82), chars = None only

  ASSUMPTION (sampled by correspondence): on ASCII text `str.lower` / `str.upper` change exactly the letters
  A-Z / a-z, and `str.strip()` removes the characters `str.isspace` accepts (9-13, 28-31, 32).  Non-ASCII
  characters are left alone by the model (python maps e.g. 'ß'.upper() to 'SS'): the generator is ASCII only.
  The other text helpers (proper, replace, split, capitalize, f12, as_float) stay harness-applied.
-/
import PygModel.Lift

namespace Pyg

def lowerChar (c : Char) : Char := if 'A' ≤ c ∧ c ≤ 'Z' then Char.ofNat (c.toNat + 32) else c
def upperChar (c : Char) : Char := if 'a' ≤ c ∧ c ≤ 'z' then Char.ofNat (c.toNat - 32) else c

/-- ASCII `str.isspace` -/
def isPyWs (c : Char) : Bool :=
  let n := c.toNat
  (9 ≤ n && n ≤ 13) || (28 ≤ n && n ≤ 32)

def lowerChars (cs : List Char) : List Char := cs.map lowerChar
def upperChars (cs : List Char) : List Char := cs.map upperChar
/-- `str.strip()`: leading and trailing white space removed -/
def stripChars (cs : List Char) : List Char := ((cs.dropWhile isPyWs).reverse.dropWhile isPyWs).reverse

def asciiLower (s : String) : String := String.ofList (lowerChars s.toList)
def asciiUpper (s : String) : String := String.ofList (upperChars s.toList)
def asciiStrip (s : String) : String := String.ofList (stripChars s.toList)

/-- a leaf function of one parameter `text` that maps strings and returns everything else as it is; python
raises TypeError when it is handed any further argument -/
def textLeaf (g : String → String) : LeafFn := fun a args kw =>
  match args, kw with
  | [], [] =>
    match a with
    | .cell (.str s) => .ok (.cell (.str (g s)))
    | v => .ok v
  | _, _ => .error .type

def lowerLeaf : LeafFn := textLeaf asciiLower
def upperLeaf : LeafFn := textLeaf asciiUpper
def stripLeaf : LeafFn := textLeaf asciiStrip

/-- `pyg_base.lower(value)`, `upper(value)`, `strip(value)` -/
def libLower (v : Val) : Res Val := wrapped lowerLeaf v [] []
def libUpper (v : Val) : Res Val := wrapped upperLeaf v [] []
def libStrip (v : Val) : Res Val := wrapped stripLeaf v [] []

/-! ### `split` with a one-character separator (round k6)

      _split(text, sep = ' ', dedup = False):  res = text.split(sep); if dedup: res = [word for word in res if word]     (_txt.py:167-183)

  for `sep` a string of ONE character and `dedup` a bool (a list of separators goes through `_replace` first: not modelled).
  ASSUMPTION (sampled by correspondence): `str.split(sep)` cuts at every occurrence of the character; `n` occurrences give `n + 1`
  words, empty ones included. -/

/-- the first word and the remaining words -/
def splitAux (sep : Char) : List Char → List Char × List (List Char)
  | [] => ([], [])
  | c :: cs =>
    let r := splitAux sep cs
    if c = sep then ([], r.1 :: r.2) else (c :: r.1, r.2)

/-- `text.split(sep)` -/
def splitChars (sep : Char) (cs : List Char) : List (List Char) := (splitAux sep cs).1 :: (splitAux sep cs).2

/-- `sep.join(w :: ws)` -/
def joinChars (sep : Char) (w : List Char) (ws : List (List Char)) : List Char := w ++ ws.flatMap fun x => sep :: x

def splitLeaf : LeafFn := fun a args kw =>
  match args, kw with
  | [], [("sep", .cell (.str sp)), ("dedup", .cell (.bool d))] =>
    match sp.toList with
    | [c] =>
      match a with
      | .cell (.str s) =>
        let ws := splitChars c s.toList
        let ws := if d then ws.filter (fun w => !w.isEmpty) else ws
        .ok (.list (ws.map fun w => .cell (.str (String.ofList w))))
      | v => .ok v
    | _ => .error .other
  | _, _ => .error .other

/-- `pyg_base.split(value, sep, dedup)` = `_split(value, sep = sep, dedup = dedup)` -/
def libSplit (v : Val) (sep : String) (dedup : Bool) : Res Val :=
  wrapped splitLeaf v [] [("sep", .cell (.str sep)), ("dedup", .cell (.bool dedup))]

/-! ### `replace` of one character (round k6)

      _replace(text, old, new = None):                                                        (_txt.py:55-64)
          if is_str(text):
              new = new or ''
              for arg in as_list(old):
                  if arg in new: raise ValueError('cannot replace indefinitely ...')
                  while arg in text: text = text.replace(arg, new)
          return text

  for `old` a string of ONE character and `new` a string or None: the `while` loop runs at most once (the result holds no `old`
  since `new` does not).  Several / longer strings to replace are not modelled.
  ASSUMPTION (sampled): `str.replace(c, new)` puts `new` in the place of every occurrence of the character. -/

/-- `text.replace(old, new)` for a one-character `old` -/
def replaceChars (old : Char) (new : List Char) (cs : List Char) : List Char :=
  cs.flatMap fun c => if c = old then new else [c]

/-- `new.join(w :: ws)` -/
def joinStr (new : List Char) (w : List Char) (ws : List (List Char)) : List Char := w ++ ws.flatMap fun x => new ++ x

def replaceLeaf : LeafFn := fun a args kw =>
  match args, kw with
  | [], [("old", .cell (.str o)), ("new", nv)] =>
    match o.toList, (match nv with | .cell (.str n) => some n.toList | .cell .none => some [] | _ => Option.none) with
    | [c], some n =>
      match a with
      | .cell (.str t) =>
        if n.contains c then .error .value else .ok (.cell (.str (String.ofList (replaceChars c n t.toList))))
      | v => .ok v
    | _, _ => .error .other
  | _, _ => .error .other

/-- `pyg_base.replace(value, old, new)` = `_replace(value, old = old, new = new)` -/
def libReplace (v : Val) (old : String) (new : Val) : Res Val :=
  wrapped replaceLeaf v [] [("old", .cell (.str old)), ("new", new)]

end Pyg
