/- line-protocol handler for the Waiter model (C19) -/
import PygModel.Waiter

namespace Pyg.WaiterDriver
open Pyg

abbrev St := Unit
def init : St := ()
def modelName : String := "waiter"

/-- structures on the wire: `(A <n>)` is awaitable number `n`, otherwise the value format -/
partial def wOf : Sexp → Option W
  | Sexp.atom s => (Cell.parse s).map .val
  | Sexp.node [Sexp.atom "A", Sexp.atom n] => n.toNat?.map .aw
  | Sexp.node (Sexp.atom "L" :: xs) => (xs.mapM wOf).map .list
  | Sexp.node (Sexp.atom "T" :: xs) => (xs.mapM wOf).map .tuple
  | Sexp.node (Sexp.atom "D" :: kvs) =>
      (kvs.mapM fun kv => match kv with
        | Sexp.node [Sexp.atom k, v] => do
            let k ← hexDecode k
            let v ← wOf v
            pure (k, v)
        | _ => Option.none).map .dict
  | Sexp.node (Sexp.atom "DC" :: Sexp.atom n :: kvs) => do      -- an instance of dict SUBCLASS number n >= 1 (harness: WAITER_DICTS): `W.dict` has no class, the harness checks that the class is kept
      let n ← n.toNat?
      if n = 0 then Option.none else
      (kvs.mapM fun kv => match kv with
        | Sexp.node [Sexp.atom k, v] => do
            let k ← hexDecode k
            let v ← wOf v
            pure (k, v)
        | _ => Option.none).map .dict
  | _ => Option.none

def eventOf : Val → Option (Nat × Val)
  | .tuple [.cell (.int i), v] => some (i.toNat, v)
  | _ => Option.none

/-- `(waiter events <structure> (L (T I:id result)*))`: the structure is awaited, the listed awaitables
complete in the listed order; reply `(T B:1 result)` if `waiter` has returned, `(T B:0 N)` if it is still
suspended. -/
def handle1 (op : String) (args : List Sexp) : Option String := do
  match op, args with
  | "events", [w, evs] =>
      let w ← wOf w
      match ← Val.ofSexp evs with
      | .list evs =>
          let evs ← evs.mapM eventOf
          match (runEvents w evs).result with
          | some v => pure ("ok " ++ (Val.tuple [.cell (.bool true), v]).render)
          | Option.none => pure ("ok " ++ (Val.tuple [.cell (.bool false), .cell .none]).render)
      | _ => Option.none
  | _, _ => Option.none

def handle (s : St) (op : String) (args : List Sexp) : Option (St × String) :=
  (handle1 op args).map fun r => (s, r)

end Pyg.WaiterDriver
