/- line-protocol handlers for the Cmp / Sort models -/
import PygModel.Sort

namespace Pyg.CmpDriver
open Pyg

def cellOf : Val → Option Cell
  | .cell c => some c
  | _ => Option.none

def cellsOf : Val → Option (List Cell)
  | .list xs => xs.mapM cellOf
  | .tuple xs => xs.mapM cellOf
  | _ => Option.none

def natList (xs : List Nat) : Val := .list (xs.map fun (i : Nat) => .cell (.int (Int.ofNat i)))

abbrev St := Unit
def init : St := ()
def modelName : String := "cmp"

/-- `(cmp <op> <args>)` -/
def handle1 (op : String) (args : List Sexp) : Option String := do
  match op, args with
  | "cmp", [a, b] =>
      let a ← Val.ofSexp a; let b ← Val.ofSexp b
      pure s!"ok I:{ordInt (cmp a b)}"
  | "sort", [xs] =>
      match ← Val.ofSexp xs with
      | .list xs => pure ("ok " ++ (Val.list (sort xs)).render)
      | _ => Option.none
  | "sortidx", [keys] =>
      match ← Val.ofSexp keys with
      | .list ks => pure ("ok " ++ (natList (sortIdx ks)).render)
      | _ => Option.none
  | "byvalidx", [orders, rows] =>
      match ← Val.ofSexp orders, ← Val.ofSexp rows with
      | .list os, .list rs =>
          let os ← os.mapM cellsOf
          let rs ← rs.mapM cellsOf
          pure ("ok " ++ (natList (sortIdx (rs.map (byvalKey os)))).render)
      | _, _ => Option.none
  | _, _ => Option.none

def handle (s : St) (op : String) (args : List Sexp) : Option (St × String) :=
  (handle1 op args).map fun r => (s, r)

end Pyg.CmpDriver
