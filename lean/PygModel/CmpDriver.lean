/- line-protocol handlers for the Cmp / Sort models -/
import PygModel.Native
import PygModel.SortTable
import PygModel.SortCode

namespace Pyg.CmpDriver
open Pyg

def cellOf : Val → Option Cell
  | .cell c => some c
  | _ => Option.none

def cellsOf : Val → Option (List Cell)
  | .list xs => xs.mapM cellOf
  | .tuple xs => xs.mapM cellOf
  | _ => Option.none

def natList (xs : List Nat) : Val := .list (xs.map fun (i : Nat) => .cell (.int (Int.ofNat i)))

/-- C07-only wire spellings: `TS:<us>` (a `pd.Timestamp`) and `NS:<hex>` (a `np.str_`) are read as the datetime / string cells
`T:` / `S:`.  `as_primitive` keeps these objects, but `cmp` ranks them with their base types (`datetime`, `str`) and python
compares them natively with those by value, so the model has no separate cells for them. -/
partial def normSexp : Sexp → Sexp
  | .atom s => if s.startsWith "TS:" then .atom ("T:" ++ (s.drop 3).toString)
               else if s.startsWith "NS:" then .atom ("S:" ++ (s.drop 3).toString)
               -- `NI.<numpy type>:<int>` / `NF.<numpy type>:<quarters|nan|inf>`: the other numpy integer / float types (unsigned, narrow,
               -- longlong, float16/32, longdouble) denote the python number `as_primitive` makes of them
               else if s.startsWith "NI." || s.startsWith "NF." then
                 match s.splitOn ":" with
                 | [h, b] => .atom ((if h.startsWith "NI." then "I:" else "F:") ++ b)
                 | _ => .atom s
               else .atom s
  | .node xs => .node (xs.map normSexp)

/-- `NAT` (`pd.NaT`) and `NAT64` (`np.datetime64('NaT')`) are the missing date; everything else is a value -/
def valNOf : Sexp → Option ValN
  | .atom "NAT" | .atom "NAT64" => some .nat
  | s => (Val.ofSexp s).map .val

abbrev St := Unit
def init : St := ()
def modelName : String := "cmp"

/-- `(cmp <op> <args>)` -/
def handle1 (op : String) (args : List Sexp) : Option String := do
  match op, args with
  | "cmp", [a, b] =>
      let a ← valNOf a; let b ← valNOf b
      pure s!"ok I:{ordInt (cmpNaT a b)}"
  | "native", [a, b] =>
      match ← Val.ofSexp a, ← Val.ofSexp b with
      | .cell x, .cell y =>
          pure (match x.native y with | some o => s!"ok I:{ordInt o}" | Option.none => "err TypeError")
      | .tuple [.tuple xs, .cell (.int i)], .tuple [.tuple ys, .cell (.int j)] =>
          -- the decorated `((k0, .., kn), i)` tuples of `dictable.sort`
          let xs ← xs.mapM cellOf; let ys ← ys.mapM cellOf
          pure (match nativeKeyId (xs, i.toNat) (ys, j.toNat) with | some o => s!"ok I:{ordInt o}" | Option.none => "err TypeError")
      | .tuple xs, .tuple ys =>
          let xs ← xs.mapM cellOf; let ys ← ys.mapM cellOf
          pure (match nativeArr xs ys with | some o => s!"ok I:{ordInt o}" | Option.none => "err TypeError")
      | _, _ => Option.none
  | "sort", [xs] =>
      match ← Val.ofSexp xs with
      | .list xs => pure ("ok " ++ (Val.list (sort xs)).render)
      | _ => Option.none
  | "sortidx", [keys] =>
      match ← Val.ofSexp keys with
      | .list ks => pure ("ok " ++ (natList (sortIdx ks)).render)
      | _ => Option.none
  | "sortidxl", [keys, .atom _] =>
      -- `d.sort([k0, k1, ...])`, the list-of-keys form: the property orders by the key columns as given (the flag only tells the
      -- runner how to NAME the columns)
      match ← Val.ofSexp keys with
      | .list ks => pure ("ok " ++ (natList (sortIdx ks)).render)
      | _ => Option.none
  | "sorttable", [t, by_] =>
      -- `dictable(t).sort(*by)` on the whole table (`Table.sortBy`): all columns come back
      let t ← Table.ofVal (← Val.ofSexp t)
      let by_ ← match ← Val.ofSexp by_ with
        | .list xs => xs.mapM fun x => match x with | .cell (.str s) => some s | _ => Option.none
        | _ => Option.none
      pure (match t.sortBy by_ with | .ok r => "ok " ++ r.toVal.render | .error e => "err " ++ e.render)
  | "sortfn", [keys, .atom fn] =>
      -- `d.sort(f)` with a key FUNCTION of the columns: the sort key of a row is the 1-tuple `(f(row),)`
      match ← Val.ofSexp keys with
      | .list ks =>
          let f : Val → Option Val := fun k => match fn, k with
            | "swap", .tuple [a, b] => some (.tuple [.tuple [b, a]])
            | "first", .tuple (a :: _) => some (.tuple [a])
            | "pair", .tuple [a, b] => some (.tuple [.list [a, b]])
            | _, _ => Option.none
          let ks' ← ks.mapM f
          pure ("ok " ++ (natList (sortIdx ks')).render)
      | _ => Option.none
  | "byvalidx", [orders, rows] =>
      match ← Val.ofSexp orders, ← Val.ofSexp rows with
      | .list os, .list rs =>
          let os ← os.mapM cellsOf
          let rs ← rs.mapM cellsOf
          pure ("ok " ++ (natList (sortIdx (rs.map (byvalKey os)))).render)
      | _, _ => Option.none
  | "byvalidx", [orders, rows, names] =>
      -- the same with the key columns NAMED by the runner (`self`, `by`, `byval`, `key`, ...: `d.sort(self = [3, 1])`); the names
      -- (distinct strings, one per order) do not enter the order of the rows
      match ← Val.ofSexp orders, ← Val.ofSexp rows, ← Val.ofSexp names with
      | .list os, .list rs, .list ns =>
          let ns ← ns.mapM fun x => match x with | .cell (.str s) => some s | _ => Option.none
          if ns.length != os.length || ns.eraseDups.length != ns.length || ns.contains "i" then Option.none else
          let os ← os.mapM cellsOf
          let rs ← rs.mapM cellsOf
          pure ("ok " ++ (natList (sortIdx (rs.map (byvalKey os)))).render)
      | _, _, _ => Option.none
  | _, _ => Option.none

/-- a scalar WITH its spelling (op `sortcode`; read before `normSexp` flattens the spellings): `NI:` / `NI.<t>:` / `NF:<q>` / `NF.<t>:` /
`XF:nan` are numpy numbers (`NF:nan` is the shared python float `np.nan`), `TS:` a Timestamp, `NAT` / `NAT64` the missing date;
bools, `np.str_`, `datetime.date` are not modelled there (`none` = bad-op) -/
def pyCellOf : Sexp → Option PyCell
  | .atom "NAT" | .atom "NAT64" => some .nat
  | .atom s =>
      if s.startsWith "TS:" then (s.drop 3).toString.toInt?.map PyCell.ts
      else if s.startsWith "NS:" || s.startsWith "NB:" || s.startsWith "B:" || s.startsWith "DT:" then Option.none
      else if s == "NF:nan" then some (.py .nan)
      else if s.startsWith "NI" || s.startsWith "NF" || s.startsWith "XF:" then
        match normSexp (.atom s) with
        | .atom t => (Cell.parse t).map PyCell.np
        | _ => Option.none
      else (Cell.parse s).map PyCell.py
  | _ => Option.none

def renderPyCell : PyCell → String
  | .py c => (Val.cell c).render
  | .np c => (Val.cell c).render
  | .ts us => s!"T:{us}"
  | .nat => "NAT"

def handle (s : St) (op : String) (args : List Sexp) : Option (St × String) :=
  match op, args with
  | "sortcode", [.node (.atom "L" :: xs)] => do
      -- `sort(xs)` as the code runs it: the return statement reached and the result
      let cs ← xs.mapM pyCellOf
      pure (s, s!"ok (T S:{hexEncode (codeBranch cs).name} (L" ++ String.join ((codeSort cs).map fun c => " " ++ renderPyCell c) ++ "))")
  | _, _ => (handle1 op (args.map normSexp)).map fun r => (s, r)

end Pyg.CmpDriver
