/-
  line-protocol handler for the Tree model (C15).  Trees are `(D (hexkey v)*)` values; a path item is
  `(T S:k1 … S:kn leaf)`.
    (tree items t) (tree keys t) (tree values t)
    (tree fromitems (L item*))                 items_to_tree(items)
    (tree update t u (L ignore*))              tree_update(t, u, ignore = [...]) ; also Dict(t) + u
    (tree get t (T S:k*) cls)                  tree_getitem(t, path); cls 0 = dict, 1 = Dict, 2 = dictattr (dotted fallback for 1, 2)
    (tree gets t S:a.b.c cls)                  tree_getitem(t, 'a.b.c'): the string form, split on dots
    (tree tget t (T S:k*) default)             tree_get(t, path, default)
    (tree tset t (T S:k*) v (L ignore*))       tree_setitem(t, path, v, ignore) (in place): reply = the tree afterwards
    (tree tsets t S:a.b v (L ignore*))         tree_setitem(t, 'a.b', v, ignore): string form
    a trailing class argument of items / keys / values / update is accepted and ignored (the class is not modelled)
    (tree merge t u (L ignore*))               the specification `merge` (used by the harness as oracle)
    (tree updateh t u (L ignore*))             tree_update on the heap model (PygModel/TreeHeap.lean): both operands are
                                               laid out in a heap, the call is run with its item assignments, the result
                                               node is read back; `mutated` if a pre-existing node was written
    (tree totable t S:pattern)                 tree_to_table(t, pattern): the rows, each a dict name -> value in the row's column order
    (tree totree S:pattern (L row*))           table_to_tree(None, pattern, rows), rows = dicts name -> value
    (tree totreeon t S:pattern (L row*) cls)   table_to_tree(t, pattern, rows, base = type(t)) on a BASE tree, through the heap model
                                               (TreeHeap.tableToTreeH) and the pure one (TreeTable.toTreeOn), which must agree
-/
import PygModel.Tree
import PygModel.TreeHeap
import PygModel.TreeTable

namespace Pyg.TreeDriver
open Pyg Pyg.Tree

abbrev St := Unit
def init : St := ()
def modelName : String := "tree"

def strV (s : String) : Val := .cell (.str s)

def pathOf (xs : List Val) : Option Path :=
  xs.mapM fun x => match x with | .cell (.str s) => some s | _ => Option.none

def itemOf : Val → Option (Path × Val)
  | .tuple xs => match xs.reverse with
    | v :: rp => do pure (← pathOf rp.reverse, v)
    | [] => Option.none
  | _ => Option.none

def itemV (pv : Path × Val) : Val := .tuple (pv.1.map strV ++ [pv.2])

def res (r : Res Val) : String :=
  match r with
  | .ok v => "ok " ++ v.render
  | .error e => "err " ++ e.render

/-- `tree_update` through the heap model; the frame (no old node written) is re-checked at run time -/
def heapUpdate (t u : Val) (ig : List Val) : String :=
  let (m1, rt) := TreeHeap.allocTree ⟨[], []⟩ t
  let (m2, ru) := TreeHeap.allocTree m1 u
  match rt, ru with
  | .ptr a, .ptr b =>
    match TreeHeap.treeUpdateH (m2.heap.length + 1) m2 a b ig with
    | .error e => "err " ++ e.render
    | .ok (m', r) =>
      if m'.heap.take m2.heap.length != m2.heap || m'.log.any (· < m2.heap.length) then "mutated"
      else match TreeHeap.readH m'.heap (m'.heap.length + 1) (.ptr r) with
        | some v => "ok " ++ v.render
        | none => "err Other"
  | .ptr _, .val _ => "err ValueError"
  | _, _ => "err Other"

/-- `table_to_tree(t, pattern, rows, base = type(t))` through the heap model: the base tree is laid out in a heap, the call is run
with its item assignments, the frame (no old node written) is re-checked at run time, the result node is read back and must be what
the pure model `TreeTable.toTreeOn` says -/
def heapTable (t : Val) (pat : List TreeTable.Seg) (rows : List TreeTable.Row) : String :=
  match t, rows.mapM (TreeTable.rowItem pat) with
  | _, .error e => "err " ++ e.render
  | .dict base, .ok its =>
    let (m1, rt) := TreeHeap.allocTree ⟨[], []⟩ t
    match rt with
    | .ptr a =>
      match TreeHeap.tableToTreeH (m1.heap.length + 1) m1 its a, TreeTable.toTreeOn base pat rows with
      | .error e, .error e' => if e == e' then "err " ++ e.render else "err Other"
      | .ok (m', r), .ok kvs =>
        if m'.heap.take m1.heap.length != m1.heap || m'.log.any (· < m1.heap.length) then "mutated"
        else match TreeHeap.readH m'.heap (m'.heap.length + 1) (.ptr r) with
          | some v => if v == .dict kvs then "ok " ++ v.render else "err Other"
          | none => "err Other"
      | _, _ => "err Other"
    | _ => "err Other"
  | _, _ => "err Other"

def handle1 (op : String) (args : List Sexp) : Option String := do
  match op, args with
  | "items", t :: _ => pure ("ok " ++ (Val.list ((items (← Val.ofSexp t)).map itemV)).render)
  | "keys", t :: _ => pure ("ok " ++ (Val.list ((keys (← Val.ofSexp t)).map fun p => .tuple (p.map strV))).render)
  | "values", t :: _ => pure ("ok " ++ (Val.list (values (← Val.ofSexp t))).render)
  | "fromitems", [its] =>
      match ← Val.ofSexp its with
      | .list xs => do
          let its ← xs.mapM itemOf
          pure (res ((itemsToTree its [] []).map .dict))
      | _ => Option.none
  | "update", t :: u :: ig :: _ =>
      match ← Val.ofSexp ig with
      | .list ig => pure (res (update (← Val.ofSexp t) (← Val.ofSexp u) ig))
      | _ => Option.none
  | "updateh", t :: u :: ig :: _ =>
      match ← Val.ofSexp ig with
      | .list ig => pure (heapUpdate (← Val.ofSexp t) (← Val.ofSexp u) ig)
      | _ => Option.none
  | "totable", [t, p] =>
      match ← Val.ofSexp p with
      | .cell (.str ps) =>
          let pat := TreeTable.parsePattern ps
          let rows := TreeTable.toTable pat (← Val.ofSexp t)
          pure ("ok " ++ (Val.list (rows.map .dict)).render)
      | _ => Option.none
  | "totree", [p, rows] =>
      match ← Val.ofSexp p, ← Val.ofSexp rows with
      | .cell (.str ps), .list rs => do
          let rows ← rs.mapM fun r => match r with | .dict kvs => some kvs | _ => Option.none
          pure (res ((TreeTable.toTree (TreeTable.parsePattern ps) rows).map .dict))
      | _, _ => Option.none
  | "totreeon", t :: p :: rows :: _ =>
      match ← Val.ofSexp p, ← Val.ofSexp rows with
      | .cell (.str ps), .list rs => do
          let rows ← rs.mapM fun r => match r with | .dict kvs => some kvs | _ => Option.none
          pure (heapTable (← Val.ofSexp t) (TreeTable.parsePattern ps) rows)
      | _, _ => Option.none
  | "merge", [t, u, ig] =>
      match ← Val.ofSexp ig with
      | .list ig => pure ("ok " ++ (merge ig (← Val.ofSexp t) (← Val.ofSexp u)).render)
      | _ => Option.none
  | "get", [t, p] =>
      match ← Val.ofSexp p with
      | .tuple xs => pure (res (getItem (← Val.ofSexp t) (← pathOf xs)))
      | _ => Option.none
  | "get", [t, p, cls] =>
      match ← Val.ofSexp p with
      | .tuple xs => pure (res (getItemC ((← cls.toNat?) != 0) (← Val.ofSexp t) (← pathOf xs)))
      | _ => Option.none
  | "gets", [t, p, cls] =>
      match ← Val.ofSexp p with
      | .cell (.str s) => pure (res (getItemC ((← cls.toNat?) != 0) (← Val.ofSexp t) (Tree.splitDots s)))
      | _ => Option.none
  | "tget", t :: p :: d :: _ =>
      match ← Val.ofSexp p with
      | .tuple xs => pure ("ok " ++ (treeGet (← Val.ofSexp t) (← pathOf xs) (← Val.ofSexp d)).render)
      | _ => Option.none
  | "tset", t :: p :: v :: ig :: _ =>
      match ← Val.ofSexp t, ← Val.ofSexp p, ← Val.ofSexp ig with
      | .dict kvs, .tuple xs, .list ig => pure (res ((treeSetItem kvs (← pathOf xs) (← Val.ofSexp v) ig).map .dict))
      | _, _, _ => Option.none
  | "tsets", t :: p :: v :: ig :: _ =>
      match ← Val.ofSexp t, ← Val.ofSexp p, ← Val.ofSexp ig with
      | .dict kvs, .cell (.str s), .list ig => pure (res ((treeSetItem kvs (Tree.splitDots s) (← Val.ofSexp v) ig).map .dict))
      | _, _, _ => Option.none
  | _, _ => Option.none

def handle (s : St) (op : String) (args : List Sexp) : Option (St × String) :=
  (handle1 op args).map fun r => (s, r)

end Pyg.TreeDriver
