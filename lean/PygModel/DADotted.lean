/-
  PygModel.DADotted — the parts of `dictattr` that look INSIDE the values (src/pyg_base/_dictattr.py), on `Val`-valued mappings:

  * `d[k]` (`__getitem__`, :177-188): a present key is returned; an ABSENT string key is split on '.' and walked part by part
    through `dict(res)[part]` (`Tree.getDotted`, the C15 model of the same loop): `d['a.x']` is `d['a']['x']`, `KeyError` at a
    missing part, `TypeError` when the walk reaches a number / `None` (`dict(5)`).  `d[k1, k2]` and `d[[k1, k2]]` go through `d[k]`,
    so `d[['a.x']]` is the mapping `{'a.x': d['a']['x']}`.
  * `d - (k1, ..., kn)` (`__sub__` with a tuple, :62-70): a PATH; the last key is deleted in the branch the other keys lead to,
    nothing happens when the path leaves the tree.  (Since fix cd42bbe the branches on the path are copied, so `d` is unchanged;
    the model is a pure function.)  Nothing happens either when the path runs into a leaf - a string, a number, `None`, a list, a
    tuple: only mappings are walked (`isinstance(branch, dict)`, the fix of review v2 W5; before it `'x' in 5` raised TypeError,
    `'u' in 'u'` was a substring test followed by an item deletion on the string, and `d - ('b', 1)` deleted ELEMENT 1 of a list).
-/
import PygModel.Tree
import PygModel.USet

namespace Pyg.DA
open Pyg

/-- `d[k]` for a string key, with the dotted fallback -/
def getKeyD (d : D Val) (k : String) : Res Val :=
  match lookup k d.items with
  | some v => pure v
  | none => Tree.getDotted (.dict d.items) (Tree.splitDots k)

/-- `d[k1, k2, …]` -/
def getTupleD (d : D Val) (ks : List String) : Res (List Val) := ks.mapM (getKeyD d)

/-- `d[[k1, k2, …]]`: `type(self)(**{k : self[k] for k in value})` -/
def getListD (d : D Val) (ks : List String) : Res (D Val) := do
  let vs ← ks.mapM fun k => (getKeyD d k).map fun v => (k, v)
  pure { d with items := setAll [] vs }

/-- delete the last key of `path` in the branch the other keys lead to; the position of every surviving key is kept -/
def delPath : List (String × Val) → List String → Res (List (String × Val))
  | kvs, [] => pure kvs
  | kvs, [k] => pure (kvs.filter (·.1 ≠ k))
  | kvs, k :: k' :: rest =>
    match lookup k kvs with
    | none => pure kvs
    | some (.dict sub) => do pure (set k (.dict (← delPath sub (k' :: rest))) kvs)
    | some _ => pure kvs      -- a path that runs into a leaf (a string, a number, None, a list, a tuple) is not there: nothing happens

/-- `d - (k1, …, kn)` -/
def subPath (d : D Val) (path : List String) : Res (D Val) :=
  if path.isEmpty then throw Err.index else (delPath d.items path).map fun kvs => { d with items := kvs }

/-- `d - [k1, (p1, .., pn), …]` (`_dictattr.py` `__sub__`, the list branch): the members are taken one after the other on ONE copy of
`d`, a string as a key (`subKey`), a tuple as a path (`subPath`, which copies the branches along the path) -/
def subMixed (d : D Val) (ks : List (String ⊕ List String)) : Res (D Val) :=
  ks.foldlM (fun acc k => match k with
    | .inl s => pure (subKey acc s)
    | .inr p => subPath acc p) d

end Pyg.DA
