/-
  PygModel.DateRange — model of `date_range(t0, t1)` (src/pyg_base/_drange.py:210-264), the endpoint resolution `drange` and
  `Calendar.__init__` / `Calendar.drange` begin with.  An endpoint is `None`, a BUMP (`is_bump`, _dates.py:335-336: a period string,
  an integer below 1500, a timedelta) or anything else = a DATE read by `dt(...)` (the C04 model says which instant a spelling
  denotes; here a date endpoint is the instant).  `today` is `dt(0)`: midnight of the current day.  Bumps are applied with the C09
  model `Bump.dtBump` (range-checked).  Core Lean only.
-/
import PygModel.Bump
import PygModel.DRange

namespace Pyg.DateRange
open Pyg Pyg.Bump

/-- TMIN = 1900-01-01 as an instant -/
def TMINUS : Int := 693595 * DAYUS

inductive Endpoint where
  | none
  | bump (b : BumpArg)
  | date (t : Int)
  deriving Repr, Inhabited

/-- `sorted([a, b])` -/
def sorted2 (a b : Int) : Int × Int := if b < a then (b, a) else (a, b)

/-- `date_range(t0, t1)`, branch by branch (_drange.py:246-264) -/
def dateRange (today : Int) (e0 e1 : Endpoint) : Res (Int × Int) :=
  match e1, e0 with
  | .none, .none => .ok (TMINUS, today)
  | .none, .bump b0 => (dtBump today [b0]).map fun r => sorted2 today r
  | .none, .date t0 => .ok (sorted2 today t0)
  | .bump b1, .none => (dtBump today [b1]).map fun r => (TMINUS, r)
  | .bump b1, .bump b0 => (dtBump today [b0]).bind fun r0 => (dtBump today [b1]).map fun r1 => (r0, r1)
  | .bump b1, .date t0 => (dtBump t0 [b1]).map fun r => (t0, r)
  | .date t1, .none => .ok (TMINUS, t1)
  | .date t1, .bump b0 => (dtBump t1 [b0]).map fun r => (r, t1)
  | .date t1, .date t0 => .ok (t0, t1)

/-- `drange(e0, e1, bump)` with its endpoints as given: `date_range` first, then the enumeration (_drange.py:137-138) -/
def drangeE (today : Int) (e0 e1 : Endpoint) (b : DRange.Bump) : Res (List Int) :=
  (dateRange today e0 e1).bind fun p => DRange.drange p.1 p.2 b

/-- `is_bump` on an integer (`is_int(bump) and bump < 1500`) -/
def intIsBump (n : Int) : Bool := n < 1500

end Pyg.DateRange
