/-
  PygModel.Tree — model of the tree functions of src/pyg_base/_dict.py:
  `tree_items` / `tree_keys` / `tree_values` (:312-413), `_tree_setitem` (:211-222), `items_to_tree`
  (:416-488), `tree_update` (:490-533, also `Dict.__add__` :96-97), `tree_getitem` (:277-289).

  A tree is a `Val`: a `.dict` is a branch (dict / Dict / dictattr — the class is not modelled, the
  harness checks `type(result) is type(tree)`), anything else is a leaf.  Written against the
  repaired code (branch w7: `items_to_tree` copies the branches of the base tree, so the in-place
  path writes never reach the caller's objects).  Dict operations: `DA.lookup` / `DA.set` are python
  item access / item assignment on an insertion-ordered dict.
-/
import PygModel.USet

namespace Pyg.Tree
open Pyg.DA

abbrev Path := List String

mutual
  /-- `tree_items`: depth-first, insertion order; a leaf contributes the empty path.  An empty
  branch contributes nothing. -/
  def items : Val → List (Path × Val)
    | .dict kvs => itemsKVs kvs
    | v => [([], v)]
  def itemsKVs : List (String × Val) → List (Path × Val)
    | [] => []
    | (k, v) :: kvs => (items v).map (fun pv => (k :: pv.1, pv.2)) ++ itemsKVs kvs
end

mutual
  /-- `tree_keys` -/
  def keys : Val → List Path
    | .dict kvs => keysKVs kvs
    | _ => [[]]
  def keysKVs : List (String × Val) → List Path
    | [] => []
    | (k, v) :: kvs => (keys v).map (k :: ·) ++ keysKVs kvs
end

mutual
  /-- `tree_values` -/
  def values : Val → List Val
    | .dict kvs => valuesKVs kvs
    | v => [v]
  def valuesKVs : List (String × Val) → List Val
    | [] => []
    | (_, v) :: kvs => values v ++ valuesKVs kvs
end

/-- `_tree_setitem(tree, path + (v,), base, ignore, types)` on the items of a branch: walk down,
creating a fresh branch where the key is missing or holds a leaf; at the end keep the old value
iff the key exists and the new value is in `ignore`. -/
def setKVs (kvs : List (String × Val)) (path : Path) (v : Val) (ignore : List Val) : List (String × Val) :=
  match path with
  | [] => kvs
  | [k] => if (lookup k kvs).isSome && ignore.contains v then kvs else set k v kvs
  | k :: rest =>
    let sub := match lookup k kvs with
      | some (.dict s) => s
      | _ => []
    set k (.dict (setKVs sub rest v ignore)) kvs

/-- `items_to_tree(items, tree, ignore = ignore)`; `ValueError` when two items share a path
(`raise_if_duplicate`) or an item has no key (`len(item) < 2`) -/
def itemsToTree (its : List (Path × Val)) (base : List (String × Val)) (ignore : List Val) :
    Res (List (String × Val)) :=
  if ¬ (its.map (·.1)).Nodup then throw Err.value
  else if its.any (·.1.isEmpty) then throw Err.value
  else pure (its.foldl (fun acc pv => setKVs acc pv.1 pv.2 ignore) base)

/-- `tree_update(tree, update, ignore = ignore)` for a dict `tree` -/
def update (t u : Val) (ignore : List Val) : Res Val :=
  match t with
  | .dict kvs => (itemsToTree (items u) kvs ignore).map .dict
  | _ => throw Err.other

/-- `tree_getitem(tree, path)`: `KeyError` for a missing key, `TypeError` when the walk reaches a leaf -/
def getItem : Val → Path → Res Val
  | v, [] => pure v
  | .dict kvs, k :: rest =>
    match lookup k kvs with
    | some v => getItem v rest
    | none => throw Err.key
  | _, _ :: _ => throw Err.type

/-- `s.split('.')`: core's `String.split` on the character (about which `String.toList_split_intercalate` is PROVED in core, so that
the join / split round trip of dot-free keys is a theorem - Props/C15 `splitDots_intercalate`; review v2 C15) -/
def splitDots (s : String) : List String := (s.split '.').toList.map (·.copy)

/-- the dotted fallback of `dictattr.__getitem__` (src/pyg_base/_dictattr.py:183-188) for a missing string key: walk
`dict(res)[k]` over the parts of `key.split('.')` with plain dict lookups.  On a leaf `dict(leaf)` is python's dict
constructor: `dict('')` and `dict([])` are `{}` (then `KeyError`), a non-empty string raises ValueError, `None`, a number or
a list of numbers TypeError (other leaves: `Err.other`, not generated) -/
def getDotted : Val → List String → Res Val
  | v, [] => pure v
  | .dict kvs, k :: rest =>
    match lookup k kvs with
    | some v => getDotted v rest
    | none => throw Err.key
  | .cell (.str s), _ :: _ => if s.isEmpty then throw Err.key else throw Err.value
  | .list [], _ :: _ => throw Err.key
  | .list (.cell (.int _) :: _), _ :: _ => throw Err.type
  | .cell .none, _ :: _ => throw Err.type
  | .cell (.int _), _ :: _ => throw Err.type
  | .cell (.flt _), _ :: _ => throw Err.type
  | .tuple [], _ :: _ => throw Err.key                      -- `dict(())` is `{}`
  | .tuple (.cell (.int _) :: _), _ :: _ => throw Err.type    -- `dict((1, 2))`
  | _, _ :: _ => throw Err.other

/-- `tree_getitem(tree, path)` on a tree of `dictattr` / `Dict` nodes (`dotted = true`; for plain dicts `dotted = false`
and this is `getItem`): a key that is missing and contains a dot is resolved part by part -/
def getItemC (dotted : Bool) : Val → Path → Res Val
  | v, [] => pure v
  | .dict kvs, k :: rest =>
    match lookup k kvs with
    | some v => getItemC dotted v rest
    | none =>
      if dotted && k.contains '.' then
        match getDotted (.dict kvs) (splitDots k) with
        | .ok v => getItemC dotted v rest
        | .error e => throw e
      else throw Err.key
  | _, _ :: _ => throw Err.type

/-- `tree_get(tree, path, default)` (:290-306): the value at the path, `default` when a key is missing or the walk
reaches a leaf early (`isinstance(res, dict) and i in res`: no dotted fallback) -/
def treeGet : Val → Path → Val → Val
  | v, [], _ => v
  | .dict kvs, k :: rest, d =>
    match lookup k kvs with
    | some v => treeGet v rest d
    | none => d
  | _, _ :: _, d => d

/-- `tree_setitem(tree, path, value, ignore)` (:224-275; in place, the model returns the new items): `ValueError` for an
empty path -/
def treeSetItem (kvs : List (String × Val)) (path : Path) (v : Val) (ignore : List Val) : Res (List (String × Val)) :=
  if path.isEmpty then throw Err.value else pure (setKVs kvs path v ignore)

mutual
  /-- the recursive merge the property speaks of: `u`'s leaves override (unless ignored), branches
  present on both sides are merged, everything else of `t` is kept; new keys follow in `u`'s order -/
  def merge (ignore : List Val) : Val → Val → Val
    | .dict a, .dict b => .dict (mergeKVs ignore a b)
    | _, .dict b => .dict (mergeKVs ignore [] b)
    | t, v => if ignore.contains v then t else v
  /-- fold the items of `u` into `t`'s -/
  def mergeKVs (ignore : List Val) (a : List (String × Val)) : List (String × Val) → List (String × Val)
    | [] => a
    | (k, v) :: b =>
      match lookup k a with
      | some old => mergeKVs ignore (set k (merge ignore old v) a) b
      | none => mergeKVs ignore (set k (mergeNew ignore v) a) b
  /-- a subtree of `u` hung on a new key: as is (ignore does not apply to new keys) -/
  def mergeNew (ignore : List Val) : Val → Val
    | .dict b => .dict (mergeKVs ignore [] b)
    | v => v
end

mutual
  /-- every branch below the root is non-empty -/
  def noEmpty : Val → Bool
    | .dict kvs => noEmptyKVs kvs
    | _ => true
  def noEmptyKVs : List (String × Val) → Bool
    | [] => true
    | (_, v) :: kvs => (match v with | .dict [] => false | _ => noEmpty v) && noEmptyKVs kvs
end

mutual
  /-- distinct keys in every branch (python dicts) -/
  def wf : Val → Bool
    | .dict kvs => decide (kvs.map (·.1)).Nodup && wfKVs kvs
    | _ => true
  def wfKVs : List (String × Val) → Bool
    | [] => true
    | (_, v) :: kvs => wf v && wfKVs kvs
end

end Pyg.Tree
