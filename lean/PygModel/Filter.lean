/-
  PygModel.Filter — model of `dictable.inc / exc / find_<col>` (src/pyg_base/_dictable.py:201-215
  `_row_check`/`and_`, 462-524 `inc`, 559-609 `exc`, 413-428 `find_`), for property C06.

  A column condition (`Cond`) is what a keyword filter `key = value` means: `None`, NaN, a compiled regex
  (ANY function `String → Bool` standing for `pattern.search(s) is not None`: the theorems of C06 hold for every
  such function; the driver instantiates it with `RePat.search`, a small matcher for literal characters, `.`,
  `^`, `$` and `re.I` — that this is what `re` does is an assumption sampled by correspondence) or
  membership in a list of admissible values BY VALUE (`Cell.valEq`: python `==`, and NaN equals NaN — the
  repaired `_row_check`; the unrepaired code used `in`, i.e. identity-or-`==`, and its answer for NaN cells
  depended on which NaN OBJECT sat in the table and in the list).  `inc` applies the
  conditions one after the other as boolean masks (lines 512-521), `exc` evaluates them all per row
  (`and_`) and negates; both rebuild the empty result with the table's columns.
  A callable is any `row index → Except Err Bool` (the driver supplies a small menu).
-/
import PygModel.Table

namespace Pyg

inductive Cond where
  | isNone
  | isNaN
  | regex (m : String → Bool)
  | oneOf (vs : List Cell)
  deriving Inhabited

/-- equality of two cells as VALUES: python `==` (`1 == 1.0`), and NaN is the same value as NaN -/
def Cell.valEq (a b : Cell) : Bool := a.pyEq b || (a == .nan && b == .nan)

/-- `p in s` for lists of characters -/
def infixB (p : List Char) : List Char → Bool
  | [] => p.isEmpty
  | c :: cs => p.isPrefixOf (c :: cs) || infixB p cs

/-- `_row_check(row, key, value)` on the cell `v = row[key]` (repaired code):
`v is None` / `_is_nan(v)` (NaN only; ±inf are ordinary values) / `is_str(v) and value.search(v) is not None` /
`_in(v, as_list(value))` = `==` with some admissible value, or NaN when a NaN is admissible -/
def Cond.test : Cond → Cell → Bool
  | .isNone, c => c == .none
  | .isNaN, c => c == .nan
  | .regex m, .str s => m s
  | .regex _, _ => false
  | .oneOf vs, c => vs.any fun v => v.valEq c

/-- a keyword filter value: how `inc/exc/_row_check` classify it -/
def Cond.ofValue : ColVal → Cond
  | .one .none => .isNone
  | .one .nan => .isNaN
  | .one c => .oneOf [c]
  | .many vs => .oneOf vs

/-! ### the regular expressions of the correspondence: literal characters, `.`, `^…`, `…$`, `re.I` -/

structure RePat where
  bol : Bool                      -- pattern starts with `^`
  eol : Bool                      -- pattern ends with `$`
  icase : Bool                    -- `re.I`
  items : List (Option Char)      -- `none` = `.`
  deriving Repr, Inhabited

/-- do the items match a prefix of `cs` (and, with `$`, all of it) -/
def RePat.matchAt (p : RePat) : List (Option Char) → List Char → Bool
  | [], rest => !p.eol || rest.isEmpty
  | _ :: _, [] => false
  | i :: is, c :: cs =>
    (match i with
      | Option.none => c != '\n'
      | some x => if p.icase then x.toLower == c.toLower else x == c) && p.matchAt is cs

def tailsOf : List Char → List (List Char)
  | [] => [[]]
  | c :: cs => (c :: cs) :: tailsOf cs

/-- `re.compile(pattern, flags).search(s) is not None` for these patterns (strings without newline) -/
def RePat.search (p : RePat) (s : String) : Bool :=
  if p.bol then p.matchAt p.items s.toList else (tailsOf s.toList).any (p.matchAt p.items)

/-- a literal pattern -/
def RePat.lit (s : String) : RePat := ⟨false, false, false, s.toList.map some⟩

namespace Table

/-- `filters.update(function)` for a dict among the positional arguments -/
def mergeConds (kw dc : List (String × Cond)) : List (String × Cond) :=
  dc.foldl (fun acc kc => if acc.any (·.1 == kc.1) then acc.map fun x => if x.1 == kc.1 then kc else x
    else acc ++ [kc]) kw

/-- `res = res[[test(r) for r in res[key]]]` (lines 513-521): `res[key]` raises `KeyError`; the mask has
the table's length; an empty mask is the `d[[]]` branch -/
def incStep (res : Table) (kc : String × Cond) : Except Err Table :=
  match res.getColE kc.1 with
  | .error e => .error e
  | .ok col =>
    let m := col.map kc.2.test
    if m.isEmpty then .ok res.emptyLike else res.getMask m

def incSteps (res : Table) : List (String × Cond) → Except Err Table
  | [] => .ok res
  | kc :: rest => match res.incStep kc with
    | .error e => .error e
    | .ok res' => incSteps res' rest

/-- `type(self)([row for row in res if keep(row)])`: the kept rows as a new table — WITHOUT columns when
no row is kept (`dictable([])`) -/
def keepRows (res : Table) (keep : Nat → Except Err Bool) : Except Err Table :=
  match mapE keep (List.range res.nrows) with
  | .error e => .error e
  | .ok bs =>
    let idx := (((List.range res.nrows).zip bs).filter (·.2)).map (·.1)
    if idx.isEmpty then .ok [] else .ok (res.gatherRows idx)

/-- `if len(res) == 0: return type(self)([], self.keys())` -/
def fixup (self res : Table) : Table := if res.nrows == 0 then self.emptyLike else res

/-- `d.inc(f?, **conds)`; `fn res i` evaluates the callable on row `i` of `res` -/
def inc (t : Table) (fn : Option (Table → Nat → Except Err Bool)) (conds : List (String × Cond)) :
    Except Err Table :=
  if fn.isNone && conds.isEmpty then .ok t else
  match (match fn with
    | Option.none => Except.ok t
    | some f => t.keepRows (f t)) with
  | .error e => .error e
  | .ok res => match res.incSteps conds with
    | .error e => .error e
    | .ok res => .ok (t.fixup res)

/-- `_row_check(row, key, value)`; `row[key]` raises `KeyError` -/
def rowCheck (t : Table) (i : Nat) (kc : String × Cond) : Except Err Bool :=
  match t.cellAt i kc.1 with
  | Option.none => .error .key
  | some v => .ok (kc.2.test v)

/-- `not and_(filters)(row)`: every check is evaluated (`min([...])`) -/
def excFlag (t : Table) (conds : List (String × Cond)) (i : Nat) : Except Err Bool :=
  match mapE (t.rowCheck i) conds with
  | .error e => .error e
  | .ok bs => .ok (!bs.all id)

/-- `d.exc(f?, **conds)` -/
def exc (t : Table) (fn : Option (Table → Nat → Except Err Bool)) (conds : List (String × Cond)) :
    Except Err Table :=
  if fn.isNone && conds.isEmpty then .ok t else
  match (match fn with
    | Option.none => Except.ok t
    | some f => t.keepRows fun i => (f t i).map (!·)) with
  | .error e => .error e
  | .ok res =>
    -- `if filters and len(res)`
    if !conds.isEmpty && res.nrows != 0 then
      match mapE (res.excFlag conds) (List.range res.nrows) with
      | .error e => .error e
      | .ok m => match res.getMask m with
        | .error e => .error e
        | .ok res => .ok (t.fixup res)
    else .ok (t.fixup res)

/-- `d.find_<key>(f?, **conds)`: the unique value of column `key` among the rows `inc` selects -/
def find (t : Table) (key : String) (fn : Option (Table → Nat → Except Err Bool))
    (conds : List (String × Cond)) : Except Err Cell :=
  if !t.has key then .error .key else
  match t.inc fn conds with
  | .error e => .error e
  | .ok items =>
    if items.nrows == 0 then .error .value else
    match items.getColE key with
    | .error e => .error e
    | .ok item =>
      match item with
      | [] => .error .value
      | x :: rest => if rest.all (x.valEq ·) then .ok x else .error .value     -- more than one distinct value (NaN = NaN)

/-- what `one_or_none` returns: `None`, the row (a dict) or one cell of it -/
inductive OneRes where
  | none
  | row (r : List (String × Cell))
  | cell (c : Cell)
  deriving Repr, DecidableEq

/-- the record `d[i]`: column name ↦ cell -/
def rowD (t : Table) (i : Nat) : List (String × Cell) := t.map fun c => (c.1, c.2.getD i .none)

/-- `res = res[0]; if find: res = res[find]` (lines 590-592): an empty `find` is falsy; `row[find]` raises KeyError -/
def pickRow (row : List (String × Cell)) : Option String → Except Err OneRes
  | Option.none => .ok (.row row)
  | some k => if k = "" then .ok (.row row) else
      match row.lookup k with
      | some c => .ok (.cell c)
      | Option.none => .error .key

/-- `if len(res) > 1: raise ValueError; if len(res) == 0: return None; res[0] …` (lines 586-593) -/
def oneOf (res : Table) (find : Option String) : Except Err OneRes :=
  if res.nrows > 1 then .error .value
  else if res.nrows == 0 then .ok .none
  else pickRow (res.rowD 0) find

/-- `d.one_or_none(f?, exc = {…}, find = k, **conds)` (lines 563-593): `inc`, then - `if exc:`, an empty dict and `None` are
falsy - `res.exc(**exc)` on the RESULT, then the length test -/
def oneOrNone (t : Table) (fn : Option (Table → Nat → Except Err Bool)) (conds excs : List (String × Cond))
    (find : Option String) : Except Err OneRes :=
  match t.inc fn conds with
  | .error e => .error e
  | .ok res =>
    match (if excs.isEmpty then Except.ok res else res.exc Option.none excs) with
    | .error e => .error e
    | .ok res => oneOf res find

end Table

/-! ### the callables of the correspondence (a fixed menu implemented on both sides) -/

/-- python truthiness `bool(v)` of a cell: what `if f(**row)` / `if not f(**row)` make of a callable's return value
(`inc` line 548, `exc` line 640).  NaN, ±inf and datetimes are truthy; `None`, `False`, `0`, `0.0`, `''` are not. -/
def Cell.truthy : Cell → Bool
  | .none => false
  | .bool b => b
  | .int n => n != 0
  | .flt q => q != 0
  | .nan => true
  | .pinf => true
  | .ninf => true
  | .str s => s != ""
  | .dt _ => true

inductive Pred where
  | ident (a : String)             -- lambda a: a             (the cell itself: any value, read by truthiness)
  | orElse (a b : String)          -- lambda a, b: a or b     (python `or`: `a` when truthy, else `b`)
  | constv (c : Cell)              -- lambda: c               (a constant that is not a bool)
  | isNone (a : String)            -- lambda a: a is None
  | notNone (a : String)           -- lambda a: a is not None
  | isStr (a : String)             -- lambda a: isinstance(a, str)
  | sameNone (a b : String)        -- lambda a, b: (a is None) == (b is None)
  | const (b : Bool)               -- lambda: b
  deriving Repr, Inhabited

/-- `kwargs_support(f)(**row)`: `TypeError` when a parameter is not a column -/
def Pred.eval (p : Pred) (t : Table) (i : Nat) : Except Err Bool :=
  let isStr : Cell → Bool := fun c => match c with | .str _ => true | _ => false
  match p with
  | .ident a => match t.cellAt i a with | some x => .ok x.truthy | Option.none => .error .type
  | .orElse a b => match t.cellAt i a, t.cellAt i b with
      | some x, some y => .ok (if x.truthy then x.truthy else y.truthy)
      | _, _ => .error .type
  | .constv c => .ok c.truthy
  | .isNone a => match t.cellAt i a with | some x => .ok (x == .none) | Option.none => .error .type
  | .notNone a => match t.cellAt i a with | some x => .ok (x != .none) | Option.none => .error .type
  | .isStr a => match t.cellAt i a with | some x => .ok (isStr x) | Option.none => .error .type
  | .sameNone a b => match t.cellAt i a, t.cellAt i b with
      | some x, some y => .ok ((x == .none) == (y == .none))
      | _, _ => .error .type
  | .const b => .ok b

end Pyg
