/-
  PygModel.Calendar — model of `Calendar` (src/pyg_base/_drange.py:274-717): holiday/weekend predicate,
  adjust f/p/m, the lazily built business-day table, `add` with its two paths, `bdays`,
  `Calendar.drange(.., 'kb')` and the registry `calendar(key, ...)`.

  Days are `Int` day numbers (`datetime.toordinal()`); every date handed to the calendar is a midnight
  datetime (intraday inputs — `trade_date`, `is_trading`, `clock` — are not modelled).
  `month : Int → Int` (the calendar month a day number lies in) is a parameter of the calendar: the structural theorems
  hold for every such function; the driver instantiates it with `ymKey` = `12 * year + month`, which identifies the
  month *of a year* (proved injective on (year, month): Props/C05 `ymKey_eq_iff`), because the property speaks of
  "t's month", not of a month number (`t.month` alone: defect C05-D1, repaired in the repo).
  Core Lean only (linked into the driver).
-/
import PygModel.Basic
import PygModel.Civil

namespace Pyg.Calendar
open Pyg
open Pyg.Civil (wd)

/-- `while cond(t): t = t + 1` with fuel (the loops of `adjust` / `add`, _drange.py:547-550, 649-650).
The fuel bounds are proved sufficient where the theorems need them (CalendarLemmas.loopUp_spec). -/
def loopUp (cond : Int → Bool) : Nat → Int → Int
  | 0, t => t
  | k + 1, t => if cond t then loopUp cond k (t + 1) else t

/-- `while cond(t): t = t - 1` -/
def loopDown (cond : Int → Bool) : Nat → Int → Int
  | 0, t => t
  | k + 1, t => if cond t then loopDown cond k (t - 1) else t

/-- `[a, a+1, …]`, `n` days -/
def daysUp (a : Int) : Nat → List Int
  | 0 => []
  | n + 1 => a :: daysUp (a + 1) n

/-- all days `a ≤ x ≤ b` in increasing order: what `rrule(DAILY, dtstart = a, until = b)` enumerates
(assumption on dateutil, sampled) -/
def daysFromTo (a b : Int) : List Int := daysUp a (b + 1 - a).toNat

/-- position of `a` in a list (`dt2int[a]`), `none` = `KeyError` -/
def idxIn (a : Int) : List Int → Option Nat
  | [] => none
  | x :: xs => if x = a then some 0 else (idxIn a xs).map (· + 1)

/-- python `range(a, stop, step)` for `step ≠ 0` -/
def pyRange (a stop step : Int) : List Int :=
  let n : Int := if step > 0 then (stop - a + step - 1) / step else (a - stop + (-step) - 1) / (-step)
  (List.range n.toNat).map fun (i : Nat) => a + (i : Int) * step

/-- `dt2int[t]` for the table `tbl` (a list of days and its index function) -/
def clockOfT (tbl : List Int) (t : Int) : Res Nat :=
  match idxIn t tbl with
  | some i => .ok i
  | none => .error .key

/-- `int2dt[j]` (a dict: negative keys are absent) -/
def atIdxT (tbl : List Int) (j : Int) : Res Int :=
  if j < 0 then .error .key else
  match tbl[j.toNat]? with
  | some r => .ok r
  | none => .error .key

/-- the calendar month (of a particular year) a day number lies in, as one integer: what
`(t.year, t.month) != (date.year, date.month)` compares in `adjust(.., 'm')` (_drange.py:560) -/
def ymKey (n : Int) : Int := 12 * Civil.year n + Civil.month n

inductive Adj where
  | f | p | m
  deriving Repr, DecidableEq, Inhabited

/-- a `Calendar` object: `t0`, `t1`, `weekend` (weekday numbers), `holidays` (day numbers), `adj` -/
structure Cal where
  t0 : Int
  t1 : Int
  weekend : List Int
  hol : List Int
  adj : Adj
  /-- the calendar month of a day number (`(t.year, t.month)` as one key), see header -/
  month : Int → Int

namespace Cal

/-- `is_holiday` (_drange.py:396-397) -/
def isHol (c : Cal) (t : Int) : Bool := c.weekend.contains (wd t) || c.hol.contains t

/-- `is_bday` (_drange.py:399-400) -/
def isB (c : Cal) (t : Int) : Bool := !c.weekend.contains (wd t) && !c.hol.contains t

/-- `adjust(t, 'f')` (_drange.py:546-551): first loop bounded by `t1`, second loop only leaves weekend
days beyond `t1` (terminates iff some weekday is not a weekend day; fuel 7) -/
def adjF (c : Cal) (t : Int) : Int :=
  loopUp (fun t => decide (t > c.t1) && c.weekend.contains (wd t)) 7
    (loopUp (fun t => c.isHol t && decide (t ≤ c.t1)) ((c.t1 + 1 - t).toNat + 1) t)

/-- `adjust(t, 'p')` (_drange.py:552-557) -/
def adjP (c : Cal) (t : Int) : Int :=
  loopDown (fun t => decide (t < c.t0) && c.weekend.contains (wd t)) 7
    (loopDown (fun t => c.isHol t && decide (t ≥ c.t0)) ((t + 1 - c.t0).toNat + 1) t)

/-- `adjust(t, adj)` (_drange.py:542-565) -/
def adjust (c : Cal) (a : Adj) (t : Int) : Int :=
  match a with
  | .f => c.adjF t
  | .p => c.adjP t
  | .m => let r := c.adjF t
          if c.month r ≠ c.month t then c.adjP t else r

/-- the business days of `[a, b]` in increasing order -/
def bd (c : Cal) (a b : Int) : List Int := (daysFromTo a b).filter c.isB

/-- `_populate` (_drange.py:381-390): `int2dt` is this list, `dt2int` its inverse -/
def bdays (c : Cal) : List Int := c.bd c.t0 c.t1

/-- fuel of the `|days| ≤ 1` loop of `add`: enough to reach the next business day inside the range
(proved: CalendarLemmas) and generous beyond it -/
def addFuel (c : Cal) : Nat := (c.t1 - c.t0).toNat + 7 * c.hol.length + 16

/-- `add(date, days, adj)` (_drange.py:642-651) over a given table: lookup for `|days| > 1`, loop otherwise.
For `days = 0` on a non-business day the real loop never ends; the driver refuses that input. -/
def addT (c : Cal) (tbl : List Int) (a : Adj) (t n : Int) : Res Int :=
  let s := c.adjust a t
  if n.natAbs > 1 then do
    let i ← clockOfT tbl s
    atIdxT tbl (i + n)
  else if n = 1 then .ok (loopUp c.isHol c.addFuel (s + 1))
  else if n = -1 then .ok (loopDown c.isHol c.addFuel (s - 1))
  else .ok s

/-- `bdays(t0, t1, adj)` (_drange.py:653-656); the right operand `t1` is looked up first -/
def bdaysBetweenT (c : Cal) (tbl : List Int) (a : Adj) (x y : Int) : Res Int := do
  let iy ← clockOfT tbl (c.adjust a y)
  let ix ← clockOfT tbl (c.adjust a x)
  pure ((iy : Int) - (ix : Int))

/-- `Calendar.drange(t0, t1, 'kb')` (_drange.py:660-665), `k = b` -/
def drangeBT (c : Cal) (tbl : List Int) (x y : Int) (b : Int) : Res (List Int) := do
  let i0 ← clockOfT tbl (c.adjust c.adj x)
  let i1 ← clockOfT tbl (c.adjust c.adj y)
  if b = 0 then .error .value else
  (pyRange i0 (i1 + b) b).mapM (atIdxT tbl)

/-! The calendar's own operations use its own table `c.bdays` (built lazily, once, by `_populate`).  The `…T`
forms exist so that the driver can compute the table once per calendar instead of once per request. -/

/-- `Calendar.clock(date)` (_drange.py:615-618), read literally: `self.dt2int.get(date, self.dt2int[self.adjust(date)])`.
Python evaluates the default argument FIRST (a `KeyError` when `adjust(date)` is not in the table, even if `date` is), then
the `.get`: the position of `date` itself when it is a table key, otherwise the default. -/
def clockT (c : Cal) (tbl : List Int) (t : Int) : Res Nat := do
  let d ← clockOfT tbl (c.adjust c.adj t)
  match idxIn t tbl with
  | some i => pure i
  | none => pure d

def add (c : Cal) (a : Adj) (t n : Int) : Res Int := c.addT c.bdays a t n
def clock (c : Cal) (t : Int) : Res Nat := c.clockT c.bdays t
def bdaysBetween (c : Cal) (a : Adj) (x y : Int) : Res Int := c.bdaysBetweenT c.bdays a x y
def drangeB (c : Cal) (x y : Int) (b : Int) : Res (List Int) := c.drangeBT c.bdays x y b

end Cal

/-! ### the registry `calendars` and `calendar(key, holidays, weekend, t0, t1)` (_drange.py:272, 698-717) -/

/-- the optional arguments of `calendar(...)`; `none` = argument not given (`None`) -/
structure CalArgs where
  hol : Option (List Int)
  weekend : Option (List Int)
  t0 : Option Int
  t1 : Option Int

def CalArgs.isDefault (a : CalArgs) : Bool :=
  a.hol.isNone && a.weekend.isNone && a.t0.isNone && a.t1.isNone

/-- TMIN = 1900-01-01, TMAX = 2300-01-01 as day numbers -/
def TMIN : Int := 693596
def TMAX : Int := 839693

/-- `Calendar(key, holidays, weekend, t0, t1)` as built by `calendar(...)` (adj defaults to 'm') -/
def mkCal (month : Int → Int) (a : CalArgs) : Cal :=
  { t0 := a.t0.getD TMIN, t1 := a.t1.getD TMAX, weekend := a.weekend.getD [5, 6],
    hol := a.hol.getD [], adj := .m, month := month }

/-! ### the object boundary: holidays and range endpoints are handed over as python objects carrying a time of day
(`datetime.date`: midnight; `datetime.now()`, `Timestamp('… 09:00')`).  `Calendar.__init__` floors them to days:
`self.holidays = [ymd(h) for h in holidays]` (defect C05-D2, fix 8faae3e) and `t0, t1 = [ymd(t) for t in date_range(t0, t1)]`
(_drange.py:382, defect C05-D3, fix cff0dc3).  An instant is `ordinal * DAYUS + microseconds of the day`. -/

/-- microseconds per day -/
def DAYUS : Int := 86400000000

/-- `ymd(t).toordinal()` of an instant: the day it lies in -/
def floorDay (us : Int) : Int := us / DAYUS

/-- `ymd` over the date-valued arguments of `Calendar(...)` -/
def CalArgs.floor (a : CalArgs) : CalArgs :=
  { hol := a.hol.map fun hs => hs.map floorDay, weekend := a.weekend, t0 := a.t0.map floorDay, t1 := a.t1.map floorDay }

/-- `Calendar(key, holidays, weekend, t0, t1)` for holidays and range endpoints given as INSTANTS (objects with a time of day):
the constructor floors them, the calendar is the one of the days -/
def mkCalT (month : Int → Int) (a : CalArgs) : Cal := mkCal month a.floor

abbrev Registry := List (String × Cal)

def Registry.get? (r : Registry) (k : String) : Option Cal := (r.find? (·.1 == k)).map (·.2)

def Registry.set (r : Registry) (k : String) (c : Cal) : Registry :=
  (k, c) :: r.filter (fun e => !(e.1 == k))

/-- `calendar(key, ...)`: build and store a new calendar when the key is unknown or any argument is given,
then return `calendars[key]` -/
def Registry.calendar (month : Int → Int) (r : Registry) (k : String) (a : CalArgs) : Registry × Cal :=
  match r.get? k, a.isDefault with
  | some c, true => (r, c)
  | _, _ => let c := mkCal month a; (r.set k c, c)

/-! ### calendar OBJECTS: the lazily built table (round k3)

A python `Calendar` is an object whose table (`dt2int` / `int2dt`) is built ONCE, by the first operation that calls `_populate()`
(_drange.py:381-390), and kept; the registry `calendars` holds such objects.  `CalObj` is a configuration together with the table
(`none` = not built yet); an operation returns the object afterwards and its answer.  Whether a table built for one registration
can ever answer for another is a question about these objects (Props/C05 `registry_last_objects`). -/

structure CalObj where
  cal : Cal
  tbl : Option (List Int)

namespace CalObj

/-- `Calendar(...)`: no table yet -/
def fresh (c : Cal) : CalObj := ⟨c, none⟩

/-- `_populate()`: builds the table unless the object has one -/
def populate (o : CalObj) : CalObj :=
  match o.tbl with
  | some _ => o
  | none => { o with tbl := some o.cal.bdays }

/-- the table an operation reads after `_populate()` -/
def table (o : CalObj) : List Int :=
  match o.tbl with
  | some t => t
  | none => o.cal.bdays

end CalObj

/-- the operations on a calendar object that the registry histories of the harness use -/
inductive Use where
  | isb (t : Int)
  | adjust (a : Adj) (t : Int)
  | add (a : Adj) (t n : Int)
  | bdays (a : Adj) (x y : Int)
  | drange (x y b : Int)
  | clock (t : Int)

inductive Ans where
  | bool (b : Bool)
  | day (r : Res Int)
  | days (r : Res (List Int))
  | idx (r : Res Nat)

/-- one operation on an object: the object afterwards (`add` with `|n| ≤ 1`, `is_bday`, `adjust` do not call `_populate()`) and the answer,
read from the OBJECT's table -/
def CalObj.use (o : CalObj) : Use → CalObj × Ans
  | .isb t => (o, .bool (o.cal.isB t))
  | .adjust a t => (o, .day (.ok (o.cal.adjust a t)))
  | .add a t n =>
      if n.natAbs > 1 then let o' := o.populate; (o', .day (o.cal.addT o'.table a t n))
      else (o, .day (o.cal.addT [] a t n))
  | .bdays a x y => let o' := o.populate; (o', .day (o.cal.bdaysBetweenT o'.table a x y))
  | .drange x y b => let o' := o.populate; (o', .days (o.cal.drangeBT o'.table x y b))
  | .clock t => let o' := o.populate; (o', .idx (o.cal.clockT o'.table t))

/-- what the same operation answers on the calendar as a value (its own table `c.bdays`) -/
def Cal.use (c : Cal) : Use → Ans
  | .isb t => .bool (c.isB t)
  | .adjust a t => .day (.ok (c.adjust a t))
  | .add a t n => .day (c.add a t n)
  | .bdays a x y => .day (c.bdaysBetween a x y)
  | .drange x y b => .days (c.drangeB x y b)
  | .clock t => .idx (c.clock t)

abbrev ObjRegistry := List (String × CalObj)

def ObjRegistry.get? (r : ObjRegistry) (k : String) : Option CalObj := (r.find? (·.1 == k)).map (·.2)

def ObjRegistry.set (r : ObjRegistry) (k : String) (o : CalObj) : ObjRegistry :=
  (k, o) :: r.filter (fun e => !(e.1 == k))

/-- `calendar(key, ...)` on objects: a NEW object (no table) when the key is unknown or any argument is given -/
def ObjRegistry.calendar (month : Int → Int) (r : ObjRegistry) (k : String) (a : CalArgs) : ObjRegistry × CalObj :=
  match r.get? k, a.isDefault with
  | some o, true => (r, o)
  | _, _ => let o := CalObj.fresh (mkCal month a); (r.set k o, o)

/-- `calendar(k).<op>(…)`: the object is fetched by key and operated on in place — the registry holds the object as the operation left it -/
def ObjRegistry.useAt (month : Int → Int) (r : ObjRegistry) (k : String) (u : Use) : ObjRegistry × Ans :=
  let p := r.calendar month k ⟨none, none, none, none⟩
  let q := p.2.use u
  (p.1.set k q.1, q.2)

/-- a step of a registry history: a `calendar(k, args…)` call or an operation on the calendar fetched by key -/
inductive RegOp where
  | call (k : String) (a : CalArgs)
  | use (k : String) (u : Use)

def ObjRegistry.step (month : Int → Int) (r : ObjRegistry) : RegOp → ObjRegistry
  | .call k a => (r.calendar month k a).1
  | .use k u => (r.useAt month k u).1

def runObj (month : Int → Int) (r : ObjRegistry) (ops : List RegOp) : ObjRegistry := ops.foldl (ObjRegistry.step month) r

end Pyg.Calendar
