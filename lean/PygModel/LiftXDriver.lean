/-
  line-protocol handler for the LiftX model (C19, model extension) and the closed text helpers.

  wire spelling of `XVal` (extends the `Val` spelling of PygModel/Basic.lean):
    (D (hexkey v)*)                 plain dict;   (DC <n> (hexkey v)*)  dict subclass n >= 1
    (O v*)                          opaque object (the record of a leaf call)
    (A1 v*)                         1-d ndarray
    (A2 <nc> (R cell*)*)            2-d ndarray, rows
    (SR (K hexlabel*) v*)           Series (not a timeseries)
    (FR (K hexlabel*) (K hexlabel*) (R cell*)*)   DataFrame: index, columns, rows
  ops:  (liftx call <types> <fn> <hex top> (L arg*) (D kw*))     types = ltd | plain | all,  fn = rec | ident
        (liftx txt lower|upper|strip v)
        (liftx txt replace v old new)      old a string of one character, new a string or None
        (liftx txt split v sep dedup)      sep a string of one character, dedup a bool
-/
import PygModel.LiftX
import PygModel.Txt

namespace Pyg.LiftXDriver
open Pyg

def labels : Sexp → Option (List String)
  | .node (.atom "K" :: ks) => ks.mapM fun
      | .atom k => hexDecode k
      | _ => Option.none
  | _ => Option.none

def rowOf : Sexp → Option (List Cell)
  | .node (.atom "R" :: cs) => cs.mapM fun
      | .atom c => Cell.parse c
      | _ => Option.none
  | _ => Option.none

partial def ofSexp : Sexp → Option XVal
  | .atom s => (Cell.parse s).map .cell
  | .node (.atom "L" :: xs) => (xs.mapM ofSexp).map .list
  | .node (.atom "T" :: xs) => (xs.mapM ofSexp).map .tuple
  | .node (.atom "O" :: xs) => (xs.mapM ofSexp).map .obj
  | .node (.atom "A1" :: xs) => (xs.mapM ofSexp).map .arr1
  | .node (.atom "D" :: kvs) => (kvs.mapM kv).map (.dict 0)
  | .node (.atom "DC" :: .atom n :: kvs) => do
      let n ← n.toNat?
      if n = 0 then Option.none else (kvs.mapM kv).map (.dict n)
  | .node (.atom "A2" :: .atom nc :: rows) => do
      let nc ← nc.toNat?
      let rows ← rows.mapM rowOf
      if rows.all (·.length == nc) then pure (.arr2 nc rows) else Option.none
  | .node (.atom "SR" :: ks :: xs) => do
      let ks ← labels ks
      let xs ← xs.mapM ofSexp
      if ks.length = xs.length then pure (.ser ks xs) else Option.none
  | .node (.atom "FR" :: idx :: cols :: rows) => do
      let idx ← labels idx
      let cols ← labels cols
      let rows ← rows.mapM rowOf
      if rows.length = idx.length && rows.all (·.length == cols.length) then pure (.frame idx cols rows) else Option.none
  | _ => Option.none
where
  kv : Sexp → Option (String × XVal)
    | .node [.atom k, v] => do
        let k ← hexDecode k
        let v ← ofSexp v
        pure (k, v)
    | _ => Option.none

def keysSexp (ks : List String) : Sexp := .node (.atom "K" :: ks.map fun k => .atom (hexEncode k))
def rowSexp (r : List Cell) : Sexp := .node (.atom "R" :: r.map fun c => .atom c.render)

partial def toSexp : XVal → Sexp
  | .cell c => .atom c.render
  | .obj xs => .node (.atom "O" :: xs.map toSexp)
  | .list xs => .node (.atom "L" :: xs.map toSexp)
  | .tuple xs => .node (.atom "T" :: xs.map toSexp)
  | .arr1 xs => .node (.atom "A1" :: xs.map toSexp)
  | .dict 0 kvs => .node (.atom "D" :: kvs.map fun (k, v) => .node [.atom (hexEncode k), toSexp v])
  | .dict n kvs => .node (.atom "DC" :: .atom (toString n) :: kvs.map fun (k, v) => .node [.atom (hexEncode k), toSexp v])
  | .arr2 nc rows => .node (.atom "A2" :: .atom (toString nc) :: rows.map rowSexp)
  | .ser ks xs => .node (.atom "SR" :: keysSexp ks :: xs.map toSexp)
  | .frame idx cols rows => .node (.atom "FR" :: keysSexp idx :: keysSexp cols :: rows.map rowSexp)

def reply : Res XVal → String
  | .ok v => "ok " ++ (toSexp v).render
  | .error e => "err " ++ e.render

def typesOf : String → Option LoopTypes
  | "ltd" => some .ltd
  | "plain" => some .ltdPlain
  | "all" => some .all
  | _ => Option.none

def fnOf : String → Option XLeafFn
  | "rec" => some recorderX
  | "ident" => some identX
  | _ => Option.none

abbrev St := Unit
def init : St := ()
def modelName : String := "liftx"

def handle1 (op : String) (args : List Sexp) : Option String := do
  match op, args with
  | "call", [.atom tp, .atom fn, .atom top, as, kw] =>
      let T ← typesOf tp
      let f ← fnOf fn
      let top ← hexDecode top
      match ← ofSexp as, ← ofSexp kw with
      | .list as, .dict 0 kw => pure (reply (callLiftedX T f top as kw))
      | _, _ => Option.none
  | "txt", [.atom "split", v, sep, dd] =>
      -- round k6: `pyg_base.split(v, sep, dedup)` with a one-character separator (closed model `libSplit`, Txt.lean)
      let v ← Val.ofSexp v
      match ← Val.ofSexp sep, ← Val.ofSexp dd with
      | .cell (.str sp), .cell (.bool d) =>
        match sp.toList with
        | [_] =>
          match libSplit v sp d with
          | .ok v => pure ("ok " ++ v.render)
          | .error e => pure ("err " ++ e.render)
        | _ => Option.none
      | _, _ => Option.none
  | "txt", [.atom "replace", v, old, nw] =>
      -- round k6: `pyg_base.replace(v, old, new)` with `old` one character, `new` a string or None (closed model `libReplace`)
      let v ← Val.ofSexp v
      match ← Val.ofSexp old, ← Val.ofSexp nw with
      | .cell (.str o), nv =>
        match o.toList, nv with
        | [_], .cell (.str _) | [_], .cell .none =>
          match libReplace v o nv with
          | .ok v => pure ("ok " ++ v.render)
          | .error e => pure ("err " ++ e.render)
        | _, _ => Option.none
      | _, _ => Option.none
  | "txt", [.atom name, v] =>
      let v ← Val.ofSexp v
      let r ← match name with
        | "lower" => some (libLower v)
        | "upper" => some (libUpper v)
        | "strip" => some (libStrip v)
        | _ => Option.none
      match r with
      | .ok v => pure ("ok " ++ v.render)
      | .error e => pure ("err " ++ e.render)
  | _, _ => Option.none

def handle (s : St) (op : String) (args : List Sexp) : Option (St × String) :=
  (handle1 op args).map fun r => (s, r)

end Pyg.LiftXDriver
