/-
  PygModel.Civil — a small local model of the proleptic Gregorian calendar of `datetime`
  (`date.toordinal` / `date.fromordinal`): day number `n` (ordinal, 0001-01-01 = 1) <-> (year, month, day).
  Closed-form integer arithmetic (the "days from civil" algorithm).  This is a *reference function
  assumed to agree with the datetime library*; the agreement is sampled by the correspondence checks
  of C05/C10 (ops `ymd` / `ord`), not proved.  Only what C05 (month of a day) and C10 (month/year
  bumps) need.  Core Lean only.
-/
namespace Pyg.Civil

/-- `datetime.weekday()` of ordinal `n` (Monday = 0; 0001-01-01 was a Monday) -/
def wd (n : Int) : Int := (n + 6) % 7

/-- ordinal -> (year, month, day) -/
def ymd (n : Int) : Int × Int × Int :=
  let z := n + 305            -- days since 0000-03-01
  let era := z / 146097
  let doe := z % 146097
  let yoe := (doe - doe / 1460 + doe / 36524 - doe / 146096) / 365
  let doy := doe - (365 * yoe + yoe / 4 - yoe / 100)
  let mp := (5 * doy + 2) / 153
  let d := doy - (153 * mp + 2) / 5 + 1
  let m := if mp < 10 then mp + 3 else mp - 9
  let y := yoe + era * 400 + (if m ≤ 2 then 1 else 0)
  (y, m, d)

def year (n : Int) : Int := (ymd n).1
def month (n : Int) : Int := (ymd n).2.1
def day (n : Int) : Int := (ymd n).2.2

/-- (year, month in 1..12, day) -> ordinal; `day` may exceed the month length (it simply overflows into
the following days, as `datetime(y,m,1) + (d-1)*DAY` does in `_ymd`, src/pyg_base/_dates.py:220) -/
def ord (y m d : Int) : Int :=
  let y' := if m ≤ 2 then y - 1 else y
  let era := y' / 400
  let yoe := y' % 400
  let mp := if m > 2 then m - 3 else m + 9
  let doy := (153 * mp + 2) / 5 + d - 1
  let doe := yoe * 365 + yoe / 4 - yoe / 100 + doy
  era * 146097 + doe - 305

/-- `ym(y, m)` of src/pyg_base/_dates.py:191-192: month overflow into years -/
def ymNorm (y m : Int) : Int × Int := (y + (m - 1) / 12, 1 + (m - 1) % 12)

/-- `_ymd(y, m, d)` (src/pyg_base/_dates.py:216-220) for an already valid year (the day/year swap guard of
line 216 needs `d > 1500`, impossible for a day of month) -/
def ordYM (y m d : Int) : Int :=
  let (y', m') := ymNorm y m
  ord y' m' d

/-- the day reached from day `n` by adding `k` months keeping the day of month (`_ymd(t.year, t.month+k, t.day)`) -/
def addMonths (n k : Int) : Int :=
  let (y, m, d) := ymd n
  ordYM y (m + k) d

end Pyg.Civil
