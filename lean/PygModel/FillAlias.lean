/-
  PygModel.FillAlias — a small object store under `_df_fillna` (C12, "the input object is not modified").
  Anchors: src/pyg_base/_pandas.py:213 `res = df`, 214-252 the loop, 226-229 the only item assignment
  `res[res.index>last_valid] = invalid` (the date branch 233-235 has the same shape and is not modelled).

  The pure model `Fill.fillna` has value semantics and cannot say WHICH object an assignment writes to.  Here cell 0 is
  the caller's object, the local variable `res` is a pointer (`res = df` makes it point to cell 0), a pandas call that
  returns a new object (`res.ffill()`, `res.fillna()`, `res[mask]`, `res.loc[t:]`, `pd.concat`) appends a cell and rebinds
  `res`, and the item assignment writes INTO the cell `res` points to; every such write is recorded.
  Assumption (sampled by the snapshot check of the harness): the pandas calls named above return new objects and never
  touch their operand.
-/
import PygModel.Fill

namespace Pyg.FillAlias
open Pyg Pyg.Fill

structure Store where
  cells : List Frame      -- cell 0: the caller's object
  res : Nat               -- the cell the local variable `res` points to
  writes : List Nat       -- the cells item assignments wrote into, latest first
  deriving Repr, Inhabited

inductive Stmt where
  | rebind (g : Frame → Frame)   -- `res = <pandas call on res>`: a NEW object, `res` is rebound to it
  | assign (g : Frame → Frame)   -- `res[...] = v`: assignment into the object `res` points to

def cur (s : Store) : Frame := s.cells.getD s.res default

def exec (s : Store) : Stmt → Store
  | .rebind g => { cells := s.cells ++ [g (cur s)], res := s.cells.length, writes := s.writes }
  | .assign g => { cells := s.cells.set s.res (g (cur s)), res := s.res, writes := s.res :: s.writes }

/-- `res[res.index > t] = inv` on one column -/
def tailSet (inv : Option Int) (t : Int) (idx : List Int) (ys : Col) : Col :=
  (idx.zip ys).map fun p => if p.1 > t then inv else p.2

/-- the 1-d branch of 'ffill_na' / 'ffill_0', lines 225-229:
```
last_valid = res.last_valid_index()
if last_valid is not None:
    res = res.ffill(**params)
    res[res.index>last_valid] = invalid
``` -/
def tailStmts (inv : Option Int) (lim : Option Nat) (f : Frame) : Res (List Stmt) :=
  match f.cols with
  | [c] =>
    match lastValidTime f.idx c.2 with
    | Option.none => .ok []
    | some t =>
      if limOk lim then .ok [.rebind fun r => r.mapCols (ffill lim), .assign fun r => r.mapCols (tailSet inv t f.idx)]
      else .error .value
  | _ => .error .other      -- a Series has exactly one column

/-- the statements one pass of the loop executes when `res` currently holds `f`; `series`: `len(df.shape) == 1`.
Every branch but the 1-d tail fill is ONE rebinding `res = <new object>` whose value is the pure model's `step` (the 2-d tail
fill is `pd.concat` of recursive per-column calls, each with its own `res`: a new object as well). -/
def stmts (series : Bool) (lim : Option Nat) (f : Frame) (m : Method) : Res (List Stmt) :=
  match series, m with
  | true, .ffillNa => tailStmts Option.none lim f
  | true, .ffill0 => tailStmts (some 0) lim f
  | _, _ =>
    match step lim f m with
    | .ok g => .ok [.rebind fun _ => g]
    | .error e => .error e

def runStep (series : Bool) (lim : Option Nat) (s : Store) (m : Method) : Res Store :=
  match stmts series lim (cur s) m with
  | .ok ps => .ok (ps.foldl exec s)
  | .error e => .error e

/-- `_df_fillna(df, methods, limit)` on the store: `res = df`, then the loop; the function returns the object `res` points to -/
def call (series : Bool) (ms : List Method) (lim : Option Nat) (df : Frame) : Res Store :=
  ms.foldlM (runStep series lim) { cells := [df], res := 0, writes := [] }

/-! ### `_nona` / `nona` on a store (src/pyg_base/_pandas.py:319-341): "the input object is not modified" for `nona`

`_nona` has NO item assignment; what can reach the caller's object is the object it RETURNS: a numpy basic slice `df[:k]` is a
VIEW of `df` (writing into the result writes into the argument - finding C12-E2, repaired by `.copy()`).  So a cell records
whose buffer it shares.  Assumptions (sampled by the overwrite check of the harness on every `nona` line): boolean-mask
selection `df[~mask]` and `np.isnan(df)` return objects with their own data; a pandas `.loc[a:b]` result never writes through
(copy-on-write); a numpy basic slice shares the buffer; `.copy()` owns its data. -/

structure NCell (α : Type) where
  val : α
  base : Option Nat       -- `some k`: a view onto the buffer of cell `k`; `none`: the object owns its data
  deriving Repr, Inhabited

structure NStore (α : Type) where
  cells : List (NCell α)  -- cell 0: the caller's object
  ret : Nat               -- the cell `_nona` returns
  writes : List Nat       -- cells item assignments wrote into (none in `_nona`)
  deriving Repr, Inhabited

def NStore.alloc {α} (s : NStore α) (v : α) (base : Option Nat) : NStore α :=
  { cells := s.cells ++ [⟨v, base⟩], ret := s.cells.length, writes := s.writes }

/-- does a write into cell `k` reach the caller's object (cell 0)?  follows the view links -/
def reachesInput {α} (s : NStore α) : Nat → Nat → Bool
  | 0, k => k == 0
  | fuel + 1, k => k == 0 || (match (s.cells[k]?).bind (·.base) with
      | some b => reachesInput s fuel b
      | Option.none => false)

def NStore.aliasesInput {α} (s : NStore α) : Bool := reachesInput s s.cells.length s.ret

/-- `_nona(df, nan, edge)` for a Series / DataFrame: `res = df[~mask]` (new object), then `res`, `df.loc[:res.index[-1]]` or
    `df.loc[res.index[0]:]` (new objects) -/
def nonaPd (edge : Option Int) (f : Frame) : Res (NStore Frame) :=
  let s0 : NStore Frame := { cells := [⟨f, Option.none⟩], ret := 0, writes := [] }
  let res := f.gather ((List.range f.nrows).filter f.rowValid)
  let s1 := s0.alloc res Option.none
  match edge with
  | Option.none => .ok s1
  | some e =>
    if res.idx.isEmpty then .ok s1
    else if e == 1 then
      .ok (s1.alloc (f.gather ((List.range f.nrows).filter fun i => decide (f.idx.getD i 0 ≤ res.idx.getLastD 0))) Option.none)
    else if e == -1 then
      .ok (s1.alloc (f.gather ((List.range f.nrows).filter fun i => decide (f.idx.getD i 0 ≥ res.idx.headD 0))) Option.none)
    else .error .other

/-- `_nona(df, nan, edge)` for an array.  `copy = true` is the repaired code (`df[:k].copy()`, repo fix C12-E2);
    `copy = false` is the code before it: the basic slice itself, a view of the argument -/
def nonaArrS (copy : Bool) (edge : Option Int) (cols : List Col) : Res (NStore (List Col)) :=
  let s0 : NStore (List Col) := { cells := [⟨cols, Option.none⟩], ret := 0, writes := [] }
  let s1 := s0.alloc (nonaArr cols) Option.none                       -- `df[~mask]`: boolean-mask indexing copies
  let valid := (List.range (ofArr cols).nrows).filter (ofArr cols).rowValid
  let slice (v : List Col) : NStore (List Col) :=
    let s2 := s1.alloc v (some 0)                                      -- `df[:k]` / `df[k:]`: a VIEW of `df`
    if copy then s2.alloc v Option.none else s2                        -- `.copy()`
  match edge with
  | Option.none => .ok s1
  | some e =>
    if valid.isEmpty then .ok s1
    else if e == 1 then .ok (slice (cols.map fun c => c.take (valid.getLastD 0 + 1)))
    else if e == -1 then .ok (slice (cols.map fun c => c.drop (valid.headD 0)))
    else .error .other

def NStore.result {α} (s : NStore α) : Option α := (s.cells[s.ret]?).map (·.val)

end Pyg.FillAlias
