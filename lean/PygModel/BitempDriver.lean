/- line-protocol handler for the bitemporal store model (C17)

   (bitemp merge T:<stamp> <ts>)     store := bi_merge(store, Bi(ts, stamp));  reply: the rows of the store
   (bitemp mergelist (L (T T:<stamp> <ts>)*))   store := bi_merge(store, [Bi(ts, stamp), ...]);  reply: the rows of the store | N
   (bitemp read  <N|T:asof> I:<what>) reply: bi_read(store, asof, what) as a series
   (bitemp read  T:<asof> I:<what> S:<spelling>)  the same read; the implementation side hands the time over in
                                      another spelling (str, int, date, ...), the model reads as of the time itself
   (bitemp spec  <N|T:asof>)          reply: the fold of the publication log (`specRead`) - what the
                                      property says an as-of read must return
-/
import PygModel.Bitemp

namespace Pyg.BitempDriver
open Pyg Pyg.Bitemp

structure State where
  store : Option Store := Option.none
  log : List Version := []

abbrev St := State
def init : St := {}
def modelName : String := "bitemp"

def valCell : Option Int → Val
  | some x => .cell (.int x)
  | Option.none => .cell .nan

def rowsVal (rows : Store) : Val :=
  .list (rows.map fun r => .tuple [.cell (.dt r.date), .cell (.dt r.stamp), valCell r.val])

def asofOf : Sexp → Option (Option Int)
  | .atom "N" => some Option.none
  | .atom s => match Cell.parse s with
      | some (.dt t) => some (some t)
      | _ => Option.none
  | _ => Option.none

def intOf : Sexp → Option Int
  | .atom s => match Cell.parse s with
      | some (.int n) => some n
      | _ => Option.none
  | _ => Option.none

def handle (s : St) (op : String) (args : List Sexp) : Option (St × String) := do
  match op, args with
  | "merge", [stamp, ts] =>
      let stamp ← (← asofOf stamp)
      let ts ← TS.ofVal (← Val.ofSexp ts)
      match biMergeE s.store (Bi ts stamp) with
      | .ok st => pure ({ store := some st, log := s.log ++ [⟨stamp, ts⟩] }, "ok " ++ (rowsVal st).render)
      | .error e => pure (s, "err " ++ e.render)
  | "mergelist", [vs] =>
      let vs ← match ← Val.ofSexp vs with
        | .list xs => xs.mapM fun (x : Val) => match x with
            | Val.tuple [Val.cell (Cell.dt stamp), ts] => (TS.ofVal ts).map fun ts => (⟨stamp, ts⟩ : Version)
            | _ => Option.none
        | _ => Option.none
      match biMergeLE s.store (vs.map fun v => Bi v.ts v.stamp) with
      | .ok st => pure ({ store := st, log := s.log ++ vs },
          match st with | some st => "ok " ++ (rowsVal st).render | Option.none => "ok N")
      | .error e => pure (s, "err " ++ e.render)
  | "read", [asof, what] =>
      let asof ← asofOf asof
      let what ← intOf what
      match s.store with
      | Option.none => pure (s, "ok N")
      | some st => pure (s, "ok " ++ (TS.toVal (biRead st asof what)).render)
  | "read", [asof, what, .atom _] =>
      let asof ← asofOf asof
      let what ← intOf what
      match s.store with
      | Option.none => pure (s, "ok N")
      | some st => pure (s, "ok " ++ (TS.toVal (biRead st asof what)).render)
  | "spec", [asof] =>
      let asof ← asofOf asof
      match s.store with
      | Option.none => pure (s, "ok N")
      | some _ => pure (s, "ok " ++ (TS.toVal (specRead s.log asof)).render)
  | _, _ => Option.none

end Pyg.BitempDriver
