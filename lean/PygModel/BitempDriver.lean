/- line-protocol handler for the bitemporal store model (C17)

   (bitemp merge T:<stamp> <ts>)     store := bi_merge(store, Bi(ts, stamp));  reply: the rows of the store
   (bitemp merge T:<stamp> <ts> <N|S:name> <N|S:index name>)   the same merge; the implementation side hands over a Series that has a
                                      `name` (as every column taken out of a DataFrame has) / whose index has a name; the model has
                                      no names: a named version is the same publication (review t5)
   (bitemp mergelist (L (T T:<stamp> <ts>)*))   store := bi_merge(store, [Bi(ts, stamp), ...]);  reply: the rows of the store | N
   (bitemp read  <N|T:asof> I:<what>) reply: bi_read(store, asof, what) as a series
   (bitemp read  T:<asof> I:<what> S:<spelling>)  the same read; the implementation side hands the time over in
                                      another spelling (str, int, date, ...), the model reads as of the time itself
   (bitemp spec  <N|T:asof>)          reply: the fold of the publication log (`specReadR` of all published rows) - what the
                                      property says an as-of read must return
   (bitemp mergeshift T:<now> <ts>)   store := bi_merge(store, Bi(ts, 'shift')), the wall-clock `now` handed over
   (bitemp mergebump I:<days> T:<now> <ts>)  store := bi_merge(store, Bi(ts, days)) (a bump of whole days, capped at `now`)
   (bitemp reads <N|T:asof> S:<last|first>)  bi_read(store, asof, what='last' | 'first')
   (bitemp fmerge T:<stamp> (L (T T:<date> (L <cell>*))*))   frame store := bi_merge(frame store, Bi(frame, stamp)); reply: rows
   (bitemp fread <N|T:asof> I:<what>)        bi_read(frame store, asof, what) as rows (date, cells)
   (bitemp freads <N|T:asof> S:<last|first> I:<width>)  bi_read(frame store, asof, 'last' | 'first')
-/
import PygModel.Bitemp

namespace Pyg.BitempDriver
open Pyg Pyg.Bitemp

structure State where
  store : Option Store := Option.none
  /-- every published row, in merge order -/
  rows : Store := []
  fstore : Option StoreF := Option.none

abbrev St := State
def init : St := {}
def modelName : String := "bitemp"

def valCell : Option Int → Val
  | some x => .cell (.int x)
  | Option.none => .cell .nan

def rowsVal (rows : Store) : Val :=
  .list (rows.map fun r => .tuple [.cell (.dt r.date), .cell (.dt r.stamp), valCell r.val])

def asofOf : Sexp → Option (Option Int)
  | .atom "N" => some Option.none
  | .atom s => match Cell.parse s with
      | some (.dt t) => some (some t)
      | _ => Option.none
  | _ => Option.none

def intOf : Sexp → Option Int
  | .atom s => match Cell.parse s with
      | some (.int n) => some n
      | _ => Option.none
  | _ => Option.none

def selOf : Sexp → Option Sel
  | .atom s => match Cell.parse s with
      | some (.str "last") => some .last
      | some (.str "first") => some .first
      | _ => Option.none
  | _ => Option.none

def cellOf : Val → Option (Option Int)
  | .cell (.int x) => some (some x)
  | .cell .nan => some Option.none
  | _ => Option.none

def tsfOf : Val → Option TSF
  | .list xs => xs.mapM fun x => match x with
      | .tuple [.cell (.dt t), .list cs] => (cs.mapM cellOf).map fun cs => (t, cs)
      | _ => Option.none
  | _ => Option.none

def rowsFVal (rows : StoreF) : Val :=
  .list (rows.map fun r => .tuple [.cell (.dt r.date), .cell (.dt r.stamp), .list (r.vals.map valCell)])

def tsfVal (ts : TSF) : Val := .list (ts.map fun p => .tuple [.cell (.dt p.1), .list (p.2.map valCell)])

def handle (s : St) (op : String) (args : List Sexp) : Option (St × String) := do
  match op, args with
  | "merge", [stamp, ts] =>
      let stamp ← (← asofOf stamp)
      let ts ← TS.ofVal (← Val.ofSexp ts)
      match biMergeE s.store (Bi ts stamp) with
      | .ok st => pure ({ s with store := some st, rows := s.rows ++ Bi ts stamp }, "ok " ++ (rowsVal st).render)
      | .error e => pure (s, "err " ++ e.render)
  | "merge", [stamp, ts, .atom _, .atom _] =>
      let stamp ← (← asofOf stamp)
      let ts ← TS.ofVal (← Val.ofSexp ts)
      match biMergeE s.store (Bi ts stamp) with
      | .ok st => pure ({ s with store := some st, rows := s.rows ++ Bi ts stamp }, "ok " ++ (rowsVal st).render)
      | .error e => pure (s, "err " ++ e.render)
  | "mergelist", [vs] =>
      let vs ← match ← Val.ofSexp vs with
        | .list xs => xs.mapM fun (x : Val) => match x with
            | Val.tuple [Val.cell (Cell.dt stamp), ts] => (TS.ofVal ts).map fun ts => (⟨stamp, ts⟩ : Version)
            | _ => Option.none
        | _ => Option.none
      match biMergeLE s.store (vs.map fun v => Bi v.ts v.stamp) with
      | .ok st => pure ({ s with store := st, rows := s.rows ++ logRows vs },
          match st with | some st => "ok " ++ (rowsVal st).render | Option.none => "ok N")
      | .error e => pure (s, "err " ++ e.render)
  | "read", [asof, what] =>
      let asof ← asofOf asof
      let what ← intOf what
      match s.store with
      | Option.none => pure (s, "ok N")
      | some st => pure (s, "ok " ++ (TS.toVal (biRead st asof what)).render)
  | "read", [asof, what, .atom _] =>
      let asof ← asofOf asof
      let what ← intOf what
      match s.store with
      | Option.none => pure (s, "ok N")
      | some st => pure (s, "ok " ++ (TS.toVal (biRead st asof what)).render)
  | "spec", [asof] =>
      let asof ← asofOf asof
      match s.store with
      | Option.none => pure (s, "ok N")
      | some _ => pure (s, "ok " ++ (TS.toVal (specReadR s.rows asof)).render)
  | "mergeshift", [now, ts] =>
      let now ← (← asofOf now)
      let ts ← TS.ofVal (← Val.ofSexp ts)
      if ts.isEmpty then Option.none else      -- kept out: the real code creates a row
      match biMergeE s.store (BiShift ts now) with
      | .ok st => pure ({ s with store := some st, rows := s.rows ++ BiShift ts now }, "ok " ++ (rowsVal st).render)
      | .error e => pure (s, "err " ++ e.render)
  | "mergebump", [days, now, ts] =>
      let days ← intOf days
      let now ← (← asofOf now)
      let ts ← TS.ofVal (← Val.ofSexp ts)
      let f := BiBump ts (days * 86400000000) now
      match biMergeE s.store f with
      | .ok st => pure ({ s with store := some st, rows := s.rows ++ f }, "ok " ++ (rowsVal st).render)
      | .error e => pure (s, "err " ++ e.render)
  | "reads", [asof, sel] =>
      let asof ← asofOf asof
      let sel ← selOf sel
      match s.store with
      | Option.none => pure (s, "ok N")
      | some st => pure (s, "ok " ++ (TS.toVal (biReadS st asof sel)).render)
  | "fmerge", [stamp, rows] =>
      let stamp ← (← asofOf stamp)
      let ts ← tsfOf (← Val.ofSexp rows)
      match biMergeFE s.fstore (BiF ts stamp) with
      | .ok st => pure ({ s with fstore := some st }, "ok " ++ (rowsFVal st).render)
      | .error e => pure (s, "err " ++ e.render)
  | "fread", [asof, what] =>
      let asof ← asofOf asof
      let what ← intOf what
      match s.fstore with
      | Option.none => pure (s, "ok N")
      | some st => pure (s, "ok " ++ (tsfVal (biReadF st asof what)).render)
  | "freads", [asof, sel, width] =>
      let asof ← asofOf asof
      let sel ← selOf sel
      let width ← intOf width
      match s.fstore with
      | Option.none => pure (s, "ok N")
      | some st => pure (s, "ok " ++ (tsfVal (biReadFS width.toNat st asof sel)).render)
  | _, _ => Option.none

end Pyg.BitempDriver
