/-
  PygModel.DictAdd — `Dict.__add__` (src/pyg_base/_dict.py:96-97) is `tree_update(self, other)`: the items of `other`
  are flattened (`tree_items`) and written path by path into a branch-copy of `self` (`items_to_tree`).  This is the
  C15 model `Tree.update` on the items; it instantiates the class-aware `DA.addC` of the C16 models for `Val`.
  With values that are not dicts on the side of `other` it is `{**self, **other}` (theorem `C16.dict_add_flat`), with a dict
  under the same key on both sides the two dicts are merged recursively (`C16.dict_add_is_merge`).
-/
import PygModel.Tree

namespace Pyg.DA

instance : TreeAdd Val where
  treeAdd items other := Tree.itemsToTree (Tree.items (.dict other)) items []

end Pyg.DA
