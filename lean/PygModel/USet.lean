/-
  PygModel.USet — models of `pyg_base.ulist` (src/pyg_base/_ulist.py:8-70) and of the key algebra of
  `pyg_base.dictattr` (src/pyg_base/_dictattr.py:43-118, 177-188, 216-274).

  ulist: a python list whose constructor removes repeats keeping first occurrences
  (`[v for _, v in sorted((orig.index(u), u) for u in set(orig))]`) unless `unique=True` is passed
  (trusted fast path).  Elements are compared with python `==`/`hash`; the model is polymorphic in
  an element type with decidable equality (the driver canonicalises `True`/`1`/`1.0` to one value;
  NaN elements — equal only by identity — are not generated).

  dictattr: an insertion-ordered association list with distinct string keys and a class tag
  (`type(self)(...)` re-creates the receiver's class).
-/
import PygModel.Basic

namespace Pyg.USet

variable {α : Type} [DecidableEq α]

/-- `ulist(xs)` (`__init__` with `unique=False`, :41-42): keep the first occurrence of every element -/
def mk : List α → List α
  | [] => []
  | x :: xs => x :: (mk xs).filter (· ≠ x)

/-- `ulist(xs, unique=True)` (:38-39): the caller vouches for uniqueness -/
def mkTrusted (xs : List α) : List α := xs

/-- `self.copy()` (:52-53) -/
def copy (u : List α) : List α := mkTrusted u

/-- `u + other` / `u | other` for a list (:45-46) -/
def addList (u other : List α) : List α := mk (u ++ other)

/-- `u + x` / `u | x` for a single element (:47-50) -/
def addElem (u : List α) (x : α) : List α := if x ∈ u then copy u else mk (u ++ [x])

/-- `u & other` for a list (:56-57) -/
def andList (u other : List α) : List α := mk (u.filter (· ∈ other))

/-- `u & x` (:59) -/
def andElem (u : List α) (x : α) : List α := if x ∈ u then mkTrusted [x] else mk []

/-- `u - other` for a list (:64-65) -/
def subList (u other : List α) : List α := mk (u.filter (· ∉ other))

/-- `u - x` (:66-69) -/
def subElem (u : List α) (x : α) : List α := if x ∉ u then copy u else mk (u.filter (· ∉ [x]))

/-- one step of a ulist history over a heap of handles; operands are never written -/
inductive Op (α : Type) where
  | new (xs : List α)
  | copy (h : Nat)
  | addL (h : Nat) (xs : List α) | addE (h : Nat) (x : α)
  | andL (h : Nat) (xs : List α) | andE (h : Nat) (x : α)
  | subL (h : Nat) (xs : List α) | subE (h : Nat) (x : α)
  | addH (h g : Nat) | andH (h g : Nat) | subH (h g : Nat)      -- the right operand is another ulist
  -- the inherited in-place list operations (:72-110): the list operation, then first occurrences are kept
  | append (h : Nat) (x : α) | extend (h : Nat) (xs : List α) | iadd (h : Nat) (xs : List α)
  | insert (h : Nat) (i : Nat) (x : α) | setI (h : Nat) (i : Nat) (x : α) | imul (h : Nat) (n : Nat)

/-- the handle an operation writes in place, if any (all other operations allocate a new handle) -/
def Op.target : Op α → Option Nat
  | .append h _ | .extend h _ | .iadd h _ | .insert h _ _ | .setI h _ _ | .imul h _ => some h
  | _ => none

/-- `list.insert(i, x)` for `0 ≤ i` (an index beyond the end appends) -/
def insertAt (u : List α) (i : Nat) (x : α) : List α := u.take i ++ x :: u.drop i

/-- `list * n` -/
def repeatN (u : List α) : Nat → List α
  | 0 => []
  | n + 1 => u ++ repeatN u n

/-- in-place operation on handle `h`: the new contents (`none`: the operation raises, nothing changes) -/
def inplace (u : List α) : Op α → Option (List α)
  | .append _ x => some (mk (u ++ [x]))
  | .extend _ xs => some (mk (u ++ xs))
  | .iadd _ xs => some (mk (u ++ xs))
  | .insert _ i x => some (mk (insertAt u i x))
  | .setI _ i x => if i < u.length then some (mk (u.set i x)) else none        -- IndexError
  | .imul _ n => some (mk (repeatN u n))
  | _ => none

/-- an in-place operation rewrites its target `h`; one that raises (or a dangling handle) changes nothing -/
def stepIn (heap : List (List α)) (h : Nat) (op : Op α) : List (List α) :=
  match heap[h]? with
  | some u =>
    match inplace u op with
    | some u' => heap.set h u'
    | none => heap
  | none => heap

def step (heap : List (List α)) : Op α → List (List α)
  | .new xs => heap ++ [mk xs]
  | .copy h => heap ++ [copy (heap.getD h [])]
  | .addL h xs => heap ++ [addList (heap.getD h []) xs]
  | .addE h x => heap ++ [addElem (heap.getD h []) x]
  | .andL h xs => heap ++ [andList (heap.getD h []) xs]
  | .andE h x => heap ++ [andElem (heap.getD h []) x]
  | .subL h xs => heap ++ [subList (heap.getD h []) xs]
  | .subE h x => heap ++ [subElem (heap.getD h []) x]
  | .addH h g => heap ++ [addList (heap.getD h []) (heap.getD g [])]
  | .andH h g => heap ++ [andList (heap.getD h []) (heap.getD g [])]
  | .subH h g => heap ++ [subList (heap.getD h []) (heap.getD g [])]
  | .append h x => stepIn heap h (.append h x)
  | .extend h xs => stepIn heap h (.extend h xs)
  | .iadd h xs => stepIn heap h (.iadd h xs)
  | .insert h i x => stepIn heap h (.insert h i x)
  | .setI h i x => stepIn heap h (.setI h i x)
  | .imul h n => stepIn heap h (.imul h n)

def run (ops : List (Op α)) : List (List α) := ops.foldl step []

end Pyg.USet

namespace Pyg.DA

/-- a `dictattr` (or subclass) instance: class tag and insertion-ordered items with distinct keys -/
structure D (V : Type) where
  cls : Nat
  items : List (String × V)
  deriving Repr

variable {V : Type}

def lookup (k : String) : List (String × V) → Option V
  | [] => none
  | (l, v) :: kvs => if k = l then some v else lookup k kvs

/-- `d[k] = v` on a python dict: overwrite in place or append -/
def set (k : String) (v : V) : List (String × V) → List (String × V)
  | [] => [(k, v)]
  | (l, w) :: kvs => if k = l then (l, v) :: kvs else (l, w) :: set k v kvs

/-- `type(self)(**{k: v for k, v in pairs})` / `dict.update(pairs)`: successive item assignments -/
def setAll (base : List (String × V)) (pairs : List (String × V)) : List (String × V) :=
  pairs.foldl (fun acc kv => set kv.1 kv.2 acc) base

def keys (d : D V) : List String := d.items.map (·.1)

/-- `d - key` for a string key (:76-78): delete if present -/
def subKey (d : D V) (k : String) : D V := { d with items := d.items.filter (·.1 ≠ k) }

/-- `d - [k1, k2, …]` (:73-75) -/
def subKeys (d : D V) (ks : List String) : D V := ks.foldl subKey d

/-- `d & other` (:97-98), `other` a key or a list of keys -/
def andKeys (d : D V) (ks : List String) : D V :=
  { d with items := setAll [] (d.items.filter (·.1 ∈ ks)) }

/-- `d[[k1, k2, …]]` (:180-181): `type(self)(**{k : self[k] for k in value})`, `KeyError` if one is missing -/
def getList (d : D V) (ks : List String) : Res (D V) := do
  let vs ← ks.mapM fun k => match lookup k d.items with
    | some v => pure (k, v)
    | none => throw Err.key
  pure { d with items := setAll [] vs }

/-- `d[k1, k2, …]` (:178-179): the list of values -/
def getTuple (d : D V) (ks : List String) : Res (List V) :=
  ks.mapM fun k => match lookup k d.items with
    | some v => pure v
    | none => throw Err.key

/-- `d[k]` for a key without dots (:183-184) -/
def getKey (d : D V) (k : String) : Res V :=
  match lookup k d.items with
  | some v => pure v
  | none => throw Err.key

/-- `d + other` (:116-118) and `d | other` (:202): copy, then update -/
def add (d : D V) (other : List (String × V)) : D V := { d with items := setAll d.items other }

/-- how `Dict.__add__` (= `tree_update`, src/pyg_base/_dict.py:96-97) combines the items of a `Dict` with those of
another mapping.  The instance for `Val` is C15's `Tree.itemsToTree (Tree.items other) items` (PygModel/DictAdd.lean). -/
class TreeAdd (V : Type) where
  treeAdd : List (String × V) → List (String × V) → Res (List (String × V))

/-- class tags whose `__add__` is `Dict.__add__`: 1 = `Dict` itself, 4 = a subclass of `Dict` (it inherits `__add__ = tree_update`;
`Dict`'s own docstring uses such a subclass).  0 = plain dict, 2 = `dictattr`, 3 = a subclass of `dictattr` that is no `Dict`. -/
def isDictLike (cls : Nat) : Bool := cls == 1 || cls == 4

/-- `d + other` with the receiver's class: `Dict` and its subclasses (`isDictLike`) override `__add__` by `tree_update` (a recursive merge when
both sides hold a dict under one key, C15); `dictattr` and its other subclasses copy and update -/
def addC [TreeAdd V] (d : D V) (other : List (String × V)) : Res (D V) :=
  if isDictLike d.cls then (TreeAdd.treeAdd d.items other).map fun kvs => { d with items := kvs }
  else pure (add d other)

/-- `d.relabel(**relabels)` (:272-273 with `relabel` :325): `type(self)(**{m.get(k, k) : v for k, v in items})` -/
def relabel (d : D V) (m : List (String × String)) : D V :=
  { d with items := setAll [] (d.items.map fun kv => ((lookup kv.1 m).getD kv.1, kv.2)) }

/-- the POSITIONAL argument of `d.relabel(*args, **relabels)` (`relabel`, _dictattr.py:324-340): nothing, one string (an affix),
a callable, a dict old → new, or a list of new names / several positional names (`as_list(args)` makes both one list) -/
inductive RelArg where
  | none
  | affix (s : String)
  | fn (f : String → String)
  | dict (m : List (String × String))
  | names (ns : List String)

/-- one string argument: `'_x'` is a suffix, `'x_'` a prefix, any other string relabels nothing (:329-333) -/
def affixMap (keys : List String) (s : String) : List (String × String) :=
  if s.startsWith "_" then keys.map fun k => (k, k ++ s)
  else if s.endsWith "_" then keys.map fun k => (k, s ++ k)
  else []

/-- the module-level `relabel(keys, *args, **relabels)`: the mapping old → new as an association list that `lookup` reads
(first match).  `res.update(relabels)` runs last, so the keywords override the positional part: they come first.  A list of new
names counts only when it is as long as `keys`; a list of ONE name is `as_list`-flattened to that string (an affix). -/
def relabelMap (keys : List String) (arg : RelArg) (kw : List (String × String)) : List (String × String) :=
  kw ++ match arg with
    | .none => []
    | .affix s => affixMap keys s
    | .fn f => keys.map fun k => (k, f k)
    | .dict m => m
    | .names ns =>
        if ns.length = 1 then affixMap keys (ns.headD "")
        else if ns.length = keys.length then keys.zip ns else []

/-- `d.relabel(arg, **kw)` in every documented form: the mapping is computed from the keys of `d`, then applied as `relabel` -/
def relabelA (d : D V) (arg : RelArg) (kw : List (String × String)) : D V :=
  relabel d (relabelMap (keys d) arg kw)

end Pyg.DA
