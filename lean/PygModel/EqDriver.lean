/-
  line-protocol handler for the Eq model.

  wire spelling of `EVal` (extends the `Val` spelling of PygModel/Basic.lean):
    cell            as in Basic (`NI:`/`NF:`/`NB:` numpy scalars are the same cells)
    PT:<us>         a `pd.Timestamp`  (the `dt` cell it is `==` to)
    HF:<q> | HF:nan an `np.float32`   (the float cell it holds: value q/4, or NaN)
    LF:<q> | LF:nan an `np.longdouble` (the float cell it holds: value q/4 EXACTLY - q may exceed 2**53 * 4, the x86 type has a 64-bit mantissa - or NaN)
    LC:<q>          an `np.clongdouble` whose imaginary part is 0 (the float cell q/4 its real part holds; review w5 F1)
    DT:<us>         a `datetime.date` (its own constructor: `date != datetime`)
    M8<unit>:<us>   an `np.datetime64[unit]` (unit D|h|s|ms|us|ns): the `dt` cell of its instant
    M8ps:<n> | M8fs:<n> | M8as:<n>   an `np.datetime64` of n pico / femto / attoseconds since 1970 (the COUNT, not microseconds): `fdt` (attoseconds)
    TD:<us> | PD:<us> | m8<unit>:<us>   `datetime.timedelta` / `pd.Timedelta` / `np.timedelta64[unit]`: the duration `tdelta`
    m8Y:<years> | m8M:<months> | CM:<months>   an `np.timedelta64` in calendar units (scalar; `CM:` = a cell of an `mY` / `mM` array): `cdelta` (months)
    NaT:P | NaT:M | NaT:m   `pd.NaT`, `np.datetime64('NaT')`, `np.timedelta64('NaT')`: `nat`
    m8ps:<n> | m8fs:<n> | m8as:<n>   an `np.timedelta64` of n pico / femto / attoseconds (the COUNT): `ftd` (attoseconds)
    (L v*) (T v*)   list / tuple
    (LS <n> v*)     an instance of list / tuple SUBCLASS number n >= 1 (harness: 1, 2 = two namedtuple classes, 3, 4 = two `list` subclasses, 5 = a `tuple` subclass)
    (IX <kind> (label*))   a `pd.Index` as a value; kind word (o = Index, r = RangeIndex, d = DatetimeIndex, m = MultiIndex-free others) ignored by the model
    (D (hexkey v)*) plain dict;  (DC <n> (hexkey v)*)  dict subclass number n >= 1
    (A <dtype> (<n>*) v*)        ndarray: dtype word (i f e g b U o, Mns Mus Ms MD Mps Mfs = datetime64, mns mus mD mY mM = timedelta64;
                                 ignored by the model: `eq` compares cells, not dtypes), shape, cells row-major
    (S (label*) v*)              Series: index labels, values
    (SN <name> (label*) v*)      the same Series with `name` = the cell <name> (ignored by the model: `eq` compares index and cells, not names)
    (DF (label*) (label*) v*)    DataFrame: index labels, column labels, cells row-major
  ops:  (eq eq x y)  (eq in x (L v*))  (eq pyeq x y)
        (eq eqr x y)   the raising reading `eqR`: `ok B:_` or `err <kind>`
        (eq eqpinned x y)   `eqPinned` (the ndarray branch as it was before fix F6c): `ok B:_` or `err <kind>`
-/
import PygModel.EqR

namespace Pyg.EqDriver
open Pyg

def cellAtom : Sexp → Option Cell
  | .atom s =>
    if s.startsWith "PT:" then (s.drop 3).toString.toInt?.map .dt
    else if s.startsWith "HF:" || s.startsWith "LF:" then Cell.parse (s.drop 1).toString
    else if s.startsWith "LC:" && s != "LC:nan" then Cell.parse ("F:" ++ (s.drop 3).toString)
    else if s.startsWith "DT:" then Option.none
    else Cell.parse s
  | _ => Option.none

partial def ofSexp : Sexp → Option EVal
  | .atom s =>
    if s.startsWith "DT:" then (s.drop 3).toString.toInt?.map .date
    else if s.startsWith "TD:" || s.startsWith "PD:" then (s.drop 3).toString.toInt?.map .tdelta
    else if s.startsWith "M8ps:" then (s.drop 5).toString.toInt?.map fun n => .fdt (1000000 * n)
    else if s.startsWith "M8fs:" then (s.drop 5).toString.toInt?.map fun n => .fdt (1000 * n)
    else if s.startsWith "M8as:" then (s.drop 5).toString.toInt?.map .fdt
    else if s.startsWith "M8" then
      match s.splitOn ":" with
      | [_, n] => n.toInt?.map fun us => .cell (.dt us)
      | _ => Option.none
    else if s.startsWith "m8Y:" then (s.drop 4).toString.toInt?.map fun n => .cdelta (12 * n)
    else if s.startsWith "m8M:" || s.startsWith "CM:" then
      match s.splitOn ":" with
      | [_, n] => n.toInt?.map .cdelta
      | _ => Option.none
    else if s.startsWith "m8ps:" then (s.drop 5).toString.toInt?.map fun n => .ftd (1000000 * n)
    else if s.startsWith "m8fs:" then (s.drop 5).toString.toInt?.map fun n => .ftd (1000 * n)
    else if s.startsWith "m8as:" then (s.drop 5).toString.toInt?.map .ftd
    else if s.startsWith "m8" then
      match s.splitOn ":" with
      | [_, n] => n.toInt?.map .tdelta
      | _ => Option.none
    else if s == "NaT:P" || s == "NaT:M" || s == "NaT:m" then some .nat
    else (cellAtom (.atom s)).map .cell
  | .node (.atom "L" :: xs) => (xs.mapM ofSexp).map .list
  | .node (.atom "T" :: xs) => (xs.mapM ofSexp).map .tuple
  | .node (.atom "LS" :: .atom n :: xs) => do
      let n ← n.toNat?
      if n = 0 then Option.none else (xs.mapM ofSexp).map (.sub n)
  | .node [.atom "IX", .atom _, .node labels] => (labels.mapM cellAtom).map .index
  | .node (.atom "D" :: kvs) => (kvs.mapM kv).map (.dict 0)
  | .node (.atom "DC" :: .atom n :: kvs) => do
      let n ← n.toNat?
      if n = 0 then Option.none else (kvs.mapM kv).map (.dict n)
  | .node (.atom "A" :: .atom _ :: .node shape :: cells) => do
      let shape ← shape.mapM Sexp.toNat?
      let cells ← cells.mapM ofSexp
      if shape.foldl (· * ·) 1 = cells.length then pure (.arr shape cells) else Option.none
  | .node (.atom "S" :: .node idx :: cells) => do
      let idx ← idx.mapM cellAtom
      let cells ← cells.mapM ofSexp
      if idx.length = cells.length then pure (.series idx cells) else Option.none
  | .node (.atom "SN" :: .atom _ :: .node idx :: cells) => do      -- a Series that has a NAME: `eq` never looks at it, the model has none
      let idx ← idx.mapM cellAtom
      let cells ← cells.mapM ofSexp
      if idx.length = cells.length then pure (.series idx cells) else Option.none
  | .node (.atom "DF" :: .node idx :: .node cols :: cells) => do
      let idx ← idx.mapM cellAtom
      let cols ← cols.mapM cellAtom
      let cells ← cells.mapM ofSexp
      if idx.length * cols.length = cells.length then pure (.frame idx cols cells) else Option.none
  | _ => Option.none
where
  kv : Sexp → Option (String × EVal)
    | .node [.atom k, v] => do
        let k ← hexDecode k
        let v ← ofSexp v
        pure (k, v)
    | _ => Option.none

abbrev St := Unit
def init : St := ()
def modelName : String := "eq"

def bool (b : Bool) : String := if b then "ok B:1" else "ok B:0"

def handle1 (op : String) (args : List Sexp) : Option String := do
  match op, args with
  | "eq", [a, b] =>
      let a ← ofSexp a; let b ← ofSexp b
      pure (bool (eq a b))
  | "in", [a, s] =>
      let a ← ofSexp a
      match ← ofSexp s with
      | .list xs => pure (bool (in_ a xs))
      | .tuple xs => pure (bool (in_ a xs))
      | .sub _ xs => pure (bool (in_ a xs))
      | _ => Option.none
  | "eqr", [a, b] =>
      let a ← ofSexp a; let b ← ofSexp b
      match eqR a b with
      | .ok v => pure (bool v)
      | .error e => pure ("err " ++ e.render)
  | "eqpinned", [a, b] =>
      let a ← ofSexp a; let b ← ofSexp b
      match eqPinned a b with
      | .ok v => pure (bool v)
      | .error e => pure ("err " ++ e.render)
  | "pyeq", [a, b] =>
      let a ← ofSexp a; let b ← ofSexp b
      if a.plain && b.plain then pure (bool (pyEqV a b)) else Option.none
  | _, _ => Option.none

def handle (s : St) (op : String) (args : List Sexp) : Option (St × String) :=
  (handle1 op args).map fun r => (s, r)

end Pyg.EqDriver
