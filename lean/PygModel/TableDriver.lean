/-
  line-protocol handler for the dictable history machine (C01), model name `tbl`.

  request  (tbl <op> <arg>*)      handles are atoms h0, h1, ...
    new <dst> <data> <columns> <kwargs>     data: N | (D (k colval)*) | (L (D (k cell)*)*) | (L (L cell*)*)
                                            columns: N | (L S:..+)     kwargs: (D (k colval)*)
    setitem <h> <S:key|I:key> <colval>      colval: cell | (L cell*) | (T cell*)
    delitem <h> <S:key>      update <h> (D (k colval)*)
    len <h>   shape <h>   row <h> I:i   col <h> S:k   iter <h>   tup <h> (T S:k+)   apply <h> <fn>
    slice <dst> <h> <a> <b> <s>   (N | I:n each)      mask <dst> <h> (L B:*)      take <dst> <h> (L I:*)
    proj <dst> <h> (L S:*)
    call <dst> <h> (D (k colval|fn)*)       fn: (fn idcol S:a) | (fn isnone S:a) | (fn coalesce S:a S:b) | (fn const cell)
    relabel <dst> <h> <N|S:affix> (D (old S:new)*)
    do <dst> <h> <dofn> <N|(L S:*)>         dofn: (fn isnone) | (fn dflt cell) | (fn coalesce S:b)
    concat <dst> (L h*)    add <dst> <h1> <h2>    addrec <dst> <h> (D (k cell)*)    addnone <h> <N|I:0|F:0>
    copy <dst> <h>         inc0 <dst> <h>   (d.inc() without conditions = copy)
    alias <dst> <h>        `dst = h + None` / `dst = dictable.concat([h])`: dst is bound to the SAME object as h
                           (the state is the reference heap of PygModel/TableAlias.lean: handles are pointers)
  reply    ok (T <outcome> (L <table>*))    outcome: N | value | (alias I:h) | (E ValueError|...)
           the list is the dump of ALL live handles after the operation
-/
import PygModel.TableAlias

namespace Pyg.TableDriver
open Pyg

abbrev St := RefHeap
def init : St := RefHeap.empty
def modelName : String := "tbl"

def handleOf : Sexp → Option Nat
  | .atom s => if s.startsWith "h" then (s.drop 1).toString.toNat? else Option.none
  | _ => Option.none

def cellOf : Sexp → Option Cell
  | .atom s => Cell.parse s
  | _ => Option.none

def strOf (x : Sexp) : Option String :=
  match cellOf x with
  | some (.str s) => some s
  | _ => Option.none

def keyOf (x : Sexp) : Option String :=
  match cellOf x with
  | some (.str s) => some s
  | some (.int n) => some (toString n)      -- `str(key) if is_int(key)`
  | _ => Option.none

def optIntOf (x : Sexp) : Option (Option Int) :=
  match cellOf x with
  | some .none => some Option.none
  | some (.int n) => some (some n)
  | _ => Option.none

def colValOf : Sexp → Option ColVal
  | .atom s => (Cell.parse s).map .one
  | .node (.atom "L" :: xs) => (xs.mapM cellOf).map .many
  | .node (.atom "T" :: xs) => (xs.mapM cellOf).map .many
  | _ => Option.none

def dictOf {α} (f : Sexp → Option α) : Sexp → Option (List (String × α))
  | .node (.atom "D" :: kvs) => kvs.mapM fun kv => match kv with
      | .node [.atom k, v] => do
          let k ← hexDecode k
          let v ← f v
          pure (k, v)
      | _ => Option.none
  | _ => Option.none

def strsOf : Sexp → Option (List String)
  | .node (.atom "L" :: xs) => xs.mapM strOf
  | .node (.atom "T" :: xs) => xs.mapM strOf
  | _ => Option.none

def dataOf : Sexp → Option Data
  | .atom "N" => some .none
  | x@(.node (.atom "D" :: _)) => (dictOf colValOf x).map .cols
  | .node [.atom "L"] => some (.rows [])
  | .node (.atom "L" :: xs@(Sexp.node (Sexp.atom "D" :: _) :: _)) => (xs.mapM (dictOf cellOf)).map .recs
  | .node (.atom "L" :: xs) => (xs.mapM fun (x : Sexp) => match x with
      | Sexp.node (Sexp.atom "L" :: cs) => cs.mapM cellOf
      | _ => Option.none).map .rows
  | _ => Option.none

-- a name of `columns=` may be an int: `str(key) if is_int(key)` (_dictable.py:365), as for `d[1] = v` (`keyOf`)
def columnsOf : Sexp → Option (Option (List String))
  | .atom "N" => some Option.none
  | .node (.atom "L" :: xs) => match xs.mapM keyOf with
    | some [] => Option.none
    | some cs => some (some cs)
    | Option.none => Option.none
  | _ => Option.none

/-- `columns` given as ONE string and no data (`dictable([], 'ab')`, `dictable(None, 'ab', c = ..)`): the one name `'ab'`, i.e. `columns = ['ab']`.
    With data a single string means something else (`{columns : data}`, an excel sheet name): not modelled, `bad-op`. -/
def columnsOfFor (data : Sexp) (columns : Sexp) : Option (Option (List String)) :=
  match columns, data with
  | .atom a, .atom "N" | .atom a, .node [.atom "L"] =>
      if a == "N" then some Option.none else
      match cellOf (.atom a) with
      | some (.str s) => some (some [s])
      | _ => Option.none
  | _, _ => columnsOf columns

def fnOf : Sexp → Option Fn
  | .node [.atom "fn", .atom "idcol", a] => (strOf a).map .idcol
  | .node [.atom "fn", .atom "isnone", a] => (strOf a).map .isnone
  | .node [.atom "fn", .atom "coalesce", a, b] => do
      let a ← strOf a; let b ← strOf b
      if a == b then Option.none else pure (.coalesce a b)
  | .node [.atom "fn", .atom "const", c] => (cellOf c).map .const
  | _ => Option.none

def doFnOf : Sexp → Option DoFn
  | .node [.atom "fn", .atom "isnone"] => some .isnone
  | .node [.atom "fn", .atom "dflt", c] => (cellOf c).map .dflt
  | .node [.atom "fn", .atom "coalesce", b] => (strOf b).map .coalesceWith
  | _ => Option.none

def callArgOf (x : Sexp) : Option (ColVal ⊕ Fn) :=
  match fnOf x with
  | some f => some (.inr f)
  | Option.none => (colValOf x).map .inl

def nodupKeys {α} (kvs : List (String × α)) : Bool := (kvs.map (·.1)).eraseDups.length == kvs.length

def parseOp (op : String) (args : List Sexp) : Option Op :=
  match op, args with
  | "new", [dst, data, columns, kwargs] => do
      let kw ← dictOf colValOf kwargs
      if !nodupKeys kw then Option.none
      pure (.new (← handleOf dst) (← dataOf data) (← columnsOfFor data columns) kw)
  | "setitem", [h, k, v] => do pure (.setitem (← handleOf h) (← keyOf k) (← colValOf v))
  | "delitem", [h, k] => do pure (.delitem (← handleOf h) (← strOf k))
  | "update", [h, kvs] => do
      let kvs ← dictOf colValOf kvs
      if !nodupKeys kvs then Option.none
      pure (.update (← handleOf h) kvs)
  | "len", [h] => (handleOf h).map .len
  | "shape", [h] => (handleOf h).map .shape
  | "row", [h, i] => do
      match ← cellOf i with
      | .int n => pure (.row (← handleOf h) n)
      | _ => Option.none
  | "col", [h, k] => do pure (.col (← handleOf h) (← strOf k))
  | "iter", [h] => (handleOf h).map .iter
  | "tup", [h, ks] => do
      let ks ← strsOf ks
      pure (.tup (← handleOf h) ks)
  | "apply", [h, f] => do pure (.apply (← handleOf h) (← fnOf f))
  | "slice", [dst, h, a, b, s] => do
      pure (.slice (← handleOf dst) (← handleOf h) (← optIntOf a) (← optIntOf b) (← optIntOf s))
  | "mask", [dst, h, .node (.atom "L" :: ms)] => do
      let ms ← ms.mapM fun m => match cellOf m with
        | some (.bool b) => some b
        | _ => Option.none
      -- `d[[]]`: python cannot tell an empty mask from an empty int list (line 385-386: `len(item) == 0`)
      if ms.isEmpty then pure (.take (← handleOf dst) (← handleOf h) [])
      else pure (.mask (← handleOf dst) (← handleOf h) ms)
  | "take", [dst, h, .node (.atom "L" :: is)] => do
      let is ← is.mapM fun i => match cellOf i with
        | some (.int n) => some n
        | _ => Option.none
      pure (.take (← handleOf dst) (← handleOf h) is)
  | "proj", [dst, h, ks] => do pure (.proj (← handleOf dst) (← handleOf h) (← strsOf ks))
  | "call", [dst, h, kvs] => do
      let kvs ← dictOf callArgOf kvs
      if !nodupKeys kvs then Option.none
      let consts := kvs.filterMap fun kv => match kv.2 with | .inl v => some (kv.1, v) | .inr _ => Option.none
      let fns := kvs.filterMap fun kv => match kv.2 with | .inr f => some (kv.1, f) | .inl _ => Option.none
      pure (.call (← handleOf dst) (← handleOf h) consts fns)
  | "relabel", [dst, h, affix, kw] => do
      let affix ← match cellOf affix with
        | some .none => some Option.none
        | some (.str s) => some (some s)
        | _ => Option.none
      let kw ← dictOf strOf kw
      if !nodupKeys kw then Option.none
      pure (.relabel (← handleOf dst) (← handleOf h) { affix := affix, kw := kw })
  | "do", [dst, h, f, keys] => do
      let keys ← match keys with
        | .atom "N" => some Option.none
        | ks => (strsOf ks).map some
      pure (.doo (← handleOf dst) (← handleOf h) (← doFnOf f) keys)
  | "concat", [dst, .node (.atom "L" :: hs)] => do pure (.concat (← handleOf dst) (← hs.mapM handleOf))
  | "add", [dst, h1, h2] => do pure (.concat (← handleOf dst) [← handleOf h1, ← handleOf h2])
  | "addrec", [dst, h, r] => do
      let r ← dictOf cellOf r
      if !nodupKeys r then Option.none
      pure (.addrec (← handleOf dst) (← handleOf h) r)
  | "addnone", [h, z] =>
      match cellOf z with
      | some .none | some (.int 0) | some (.flt 0) => (handleOf h).map .addnone
      | _ => Option.none
  | "copy", [dst, h] => do pure (.copy (← handleOf dst) (← handleOf h))
  | "inc0", [dst, h] => do pure (.copy (← handleOf dst) (← handleOf h))
  | _, _ => Option.none

/-- destination handles must be live or the next free one -/
def Op.dstOk (n : Nat) : Op → Bool
  | .new d .. | .slice d .. | .mask d .. | .take d .. | .proj d .. | .call d .. | .relabel d ..
  | .doo d .. | .concat d .. | .addrec d .. | .copy d .. => d ≤ n
  | _ => true

def renderOut : Out → Option String
  | .unit => some "N"
  | .val v => some v.render
  | .alias h => some s!"(alias I:{h})"
  | .err e => some s!"(E {e.render})"
  | .badHandle => Option.none

def parseROp (op : String) (args : List Sexp) : Option ROp :=
  match op, args with
  | "alias", [dst, h] => do pure (.bindAlias (← handleOf dst) (← handleOf h))
  | _, _ => (parseOp op args).map .op

def ROp.dstOk (n : Nat) : ROp → Bool
  | .op o => Op.dstOk n o
  | .bindAlias d _ => d ≤ n

/-- `d - key` / `d - [keys]` (`dictattr.__sub__`, inherited by dictable): a NEW table without these columns, i.e. the projection on
the remaining ones; absent keys are ignored.  Wire sugar: the line is turned into the `proj` operation it equals. -/
def desugarSub (s : St) (args : List Sexp) : Option (String × List Sexp) :=
  match args with
  | [dst, h, ks] => do
      let hn ← handleOf h
      let ks ← strsOf ks
      let t ← ((s.view[hn]?).bind id)
      let rest := (t.map (·.1)).filter (fun c => !ks.contains c)
      -- no column left: the table without columns (`d[[]]` would keep the columns, `d - all` does not)
      if rest.isEmpty then pure ("new", [dst, Sexp.atom "N", Sexp.atom "N", Sexp.node [Sexp.atom "D"]]) else
      pure ("proj", [dst, h, Sexp.node (Sexp.atom "L" :: rest.map fun c => Sexp.atom ("S:" ++ hexEncode c))])
  | _ => Option.none

def handle (s : St) (op : String) (args : List Sexp) : Option (St × String) := do
  let (op, args) ← if op == "sub" then desugarSub s args else some (op, args)
  let o ← parseROp op args
  if !ROp.dstOk s.ptr.length o then Option.none
  let (s', out) := rstep s o
  let r ← renderOut out
  -- what every handle reads (aliased handles show the same table)
  let dump := " ".intercalate (s'.view.map fun t => (t.getD []).toVal.render)
  pure (s', s!"ok (T {r} (L{if dump.isEmpty then "" else " " ++ dump}))")

end Pyg.TableDriver
